(* Region/PropsRead.v — property C09, less-used API variants. Replica reads: GetTiKVRPCContext with ReplicaReadFollower / Mixed / PreferLeader and
   the option leaderOnly (model and proofs in ReadCtx.v); GroupKeysByRegion with the split-key filter (GroupFilter.v).
   Theorems only. *)
From Verif Require Import Base.Lex Region.Model Region.Ord Region.Converge Region.ProofsConvB Region.ProofsReach Region.ReadCtx Region.ProofsContains Region.GroupFilter Region.ProofsConvC Region.StoreResolve.
From Coq Require Import Sorting.Sorted.
From Verif Require Region.InvCheck.
From Verif Require Import Region.ProofsTopRead.
Open Scope N_scope.

(* a returned context names the cached entry of the version asked for and one of ITS peers; nobody failed on that peer's
   store since the entry was made and the store is not known to be removed; returning a context leaves the cache unchanged *)
Theorem C09_read_ctx_sound : forall c v kind seed lo r p i c',
  (forall x, In x (c_sorted c) -> (r_work x < length (r_peers x))%nat) ->
  rpc_ctx_read c v kind seed lo = (Some (r, p, i), c') ->
  c' = c /\ In r (c_sorted c) /\ r_verid r = v /\ r_expired r = false /\ (i < length (r_peers r))%nat /\ p = nth i (r_peers r) (0, 0) /\ In p (r_peers r) /\
  epoch_fresh c r i = true /\ existsb (N.eqb (snd p)) (c_tomb c) = false.
Proof. exact rpc_ctx_read_sound. Qed.
Print Assumptions C09_read_ctx_sound.

(* the leader read is the path the convergence theorems use *)
Theorem C09_read_ctx_leader : forall c v seed lo,
  rpc_ctx_read c v RkLeader seed lo =
  (match fst (rpc_ctx c v) with Some (r, p) => Some (r, p, r_work r) | None => None end, snd (rpc_ctx c v)).
Proof. exact rpc_ctx_read_leader. Qed.
Print Assumptions C09_read_ctx_leader.

(* follower read: as long as the seed does not wrap around 2^32 during the l-1 tries, a follower is chosen whenever nobody
   failed on the store of at least one follower; the work peer (leader) is the fall-back only *)
Theorem C09_read_ctx_follower : forall c r seed j,
  let l := length (r_peers r) in
  (1 < l)%nat -> (r_work r < l)%nat -> seed + N.of_nat l <= u32 ->
  (j < l)%nat -> j <> r_work r -> epoch_fresh c r j = true ->
  pick_idx c r RkFollower seed false <> r_work r /\ epoch_fresh c r (pick_idx c r RkFollower seed false) = true.
Proof. exact follower_read_follower. Qed.
Print Assumptions C09_read_ctx_follower.

(* prefer-leader read: the work peer while nobody failed on its store; leaderOnly: always the work peer (mixed / prefer-leader) *)
Theorem C09_read_ctx_prefer_leader : forall c r seed kind,
  (epoch_fresh c r (r_work r) = true -> (r_work r < length (r_peers r))%nat -> pick_idx c r RkPreferLeader seed false = r_work r) /\
  (kind <> RkFollower -> pick_idx c r kind seed true = r_work r).
Proof. exact C09_read_ctx_prefer_leader_proof. Qed.
Print Assumptions C09_read_ctx_prefer_leader.

(* a replica read changes the cache only by invalidating the entry: reachable states stay reachable (and keep the invariant) *)
Theorem C09_read_ctx_keeps_reachable : forall truth H c v kind seed lo,
  reach truth H c -> reach truth H (snd (rpc_ctx_read c v kind seed lo)).
Proof. exact C09_read_ctx_keeps_reachable_proof. Qed.
Print Assumptions C09_read_ctx_keeps_reachable.

(* ---- non-vacuity ---- *)
(* four peers, work peer 0, somebody failed on store 2 (epoch 1, the entry recorded 0) *)
Example C09_read_ctx_nonvacuous :
  (* follower read, seeds 0..3: followers 1(stale) -> next try 2, 2, 3, 1 -> 2 *)
  map (fun s => fst (rpc_ctx_read rd_c (1, 1, 1) RkFollower s false)) [0; 1; 2; 3] =
    [Some (rd_r, (3, 3), 2%nat); Some (rd_r, (3, 3), 2%nat); Some (rd_r, (4, 4), 3%nat); Some (rd_r, (3, 3), 2%nat)] /\
  (* mixed read: candidates 0, 2, 3 *)
  map (fun s => fst (rpc_ctx_read rd_c (1, 1, 1) RkMixed s false)) [0; 1; 2; 3] =
    [Some (rd_r, (1, 1), 0%nat); Some (rd_r, (3, 3), 2%nat); Some (rd_r, (4, 4), 3%nat); Some (rd_r, (1, 1), 0%nat)] /\
  fst (rpc_ctx_read rd_c (1, 1, 1) RkPreferLeader 7 false) = Some (rd_r, (1, 1), 0%nat) /\
  fst (rpc_ctx_read rd_c (1, 1, 1) RkMixed 2 true) = Some (rd_r, (1, 1), 0%nat).
Proof. vm_compute. repeat split. Qed.
(* observation (no clause of C09): the seed is a uint32 and seed++ wraps; 2^32 is not a multiple of l-1 = 3, so with seed
   2^32-1 the three tries are 1, 1, 2 — follower 3 is never tried and the read falls back to the leader although nobody
   failed on store 4 *)
Example C09_read_ctx_follower_seed_wrap_example :
  epoch_fresh rd_c2 rd_r 3 = true /\
  fst (rpc_ctx_read rd_c2 (1, 1, 1) RkFollower 4294967295 false) = Some (rd_r, (1, 1), 0%nat) /\
  fst (rpc_ctx_read rd_c2 (1, 1, 1) RkFollower 4294967294 false) = Some (rd_r, (4, 4), 3%nat).
Proof. vm_compute. repeat split. Qed.

(* ---- GroupKeysByRegion with a filter ---- *)
(* without a filter the function is the one C09_group_partition speaks about *)
Theorem C09_group_filter_unfiltered : forall pd budget keys fuel t c lastl acc,
  group_assign_f pd budget (fun _ _ => false) fuel t c keys lastl acc = group_assign pd budget fuel t c keys lastl acc.
Proof. exact group_assign_f_none. Qed.
Print Assumptions C09_group_filter_unfiltered.
(* with tikv.equalRegionStartKey and STRICTLY INCREASING keys: no grouped key is the start key of its location, and every
   grouped key is in its location *)
Theorem C09_group_filter_sorted : forall pd budget keys fuel t c asg c' t',
  pd_get_sound pd -> pd_prev_sound pd ->
  StronglySorted (fun a b => lex_ltb a b = true) keys ->
  group_assign_f pd budget eq_start fuel t c keys None [] = (Ok asg, c', t') ->
  forall kr, In kr asg -> r_contains (snd kr) (fst kr) = true /\ fst kr <> r_start (snd kr).
Proof. exact C09_group_filter_sorted_proof. Qed.
Print Assumptions C09_group_filter_sorted.
(* any filter, any keys: one decision per key in order (its location, which contains it; kept or not); a key is dropped only
   when the filter said so about the location looked up for that very key; the result lists the kept keys in order, once each *)
Theorem C09_group_filter_any : forall pd budget flt keys fuel t c asg c' t',
  pd_get_sound pd -> pd_prev_sound pd ->
  group_assign_f pd budget flt fuel t c keys None [] = (Ok asg, c', t') ->
  exists ds : list (bytes * region * bool),
    map (fun d => fst (fst d)) ds = keys /\
    (forall k r b, In (k, r, b) ds -> r_contains r k = true /\ (b = false -> flt k (r_start r) = true)) /\
    asg = map fst (filter (fun d => snd d) ds).
Proof. exact C09_group_filter_any_proof. Qed.
Print Assumptions C09_group_filter_any.
(* observation (no clause of C09; coordinator's ruling): unsorted or repeated keys — the filter is not consulted for a key served from the last location. Regions [-inf,m) and
   [m,+inf) cached; keys [x; m] and [m; m] keep m although it is the start key of its region; [m; x] skips it.
   (replayed on the code: `regioncache probe-groupfilter`) *)
Example C09_group_filter_unsorted_counterexample :
  fst (fst (group_assign_f gf_pd 0 eq_start 3 0 gf_c [[109]; [120]] None [])) = Ok [([120], gf_r2)] /\
  fst (fst (group_assign_f gf_pd 0 eq_start 3 0 gf_c [[120]; [109]] None [])) = Ok [([120], gf_r2); ([109], gf_r2)] /\
  fst (fst (group_assign_f gf_pd 0 eq_start 3 0 gf_c [[109]; [109]] None [])) = Ok [([109], gf_r2)] /\
  r_start gf_r2 = [109].
Proof. vm_compute. repeat split. Qed.

(* ---- PD faults on the store path (GetStore failing transiently during initResolve / reResolve / the store check) ---- *)
(* a transient failure leaves the store, and with it the cache, exactly as it was; initResolve asks again and the failed
   attempts do not influence the outcome; a store becomes a tombstone only when PD reported it removed *)
Theorem C09_store_fault_transient : forall c st n o rest l st',
  store_check c st RoTransient = c /\
  init_resolve (repeat RoTransient n ++ o :: rest) = init_resolve (o :: rest) /\
  (In st' (c_tomb (store_checks c l)) -> In st' (c_tomb c) \/ In (st', RoRemoved) l).
Proof. exact C09_store_fault_transient_proof. Qed.
Print Assumptions C09_store_fault_transient.
(* convergence over store checks with arbitrary outcomes: from any reachable state, after ANY sequence of store checks — each
   confirming the store, failing transiently, or finding the store removed (the latter only for stores without a current
   peer) — 4 rounds suffice once PD reports the current regions *)
Theorem C09_converges_store_faults : forall truth H cur_of pd budget fuel k T c l,
  truth_wf truth -> hist_ok truth H -> reach truth H c ->
  (forall st R p, In (st, RoRemoved) l -> In R truth -> In p (d_peers R) -> snd p <> st) ->
  (forall R, In R truth -> In R (cur_of R) /\ forall d, In d (cur_of R) -> In d truth) ->
  (forall t k T, In T truth -> tcontains T k = true -> pd t (ReqGet k) = PdOne (Some T)) ->
  (0 < budget)%nat -> (0 < fuel)%nat ->
  In T truth -> tcontains T k = true ->
  rounds truth cur_of pd budget fuel 4 (store_checks c l) k = true.
Proof. exact C09_converges_store_faults_proof. Qed.
Print Assumptions C09_converges_store_faults.
(* non-vacuity: store 1 leads region 2 of the example; two transient failures and a confirmation leave the cache untouched
   and the request converges; had the failures been taken for "removed", the leader's store would be buried:
   the cache then violates the invariant (a current peer on a tombstone store) and the request never gets through *)
Example C09_store_faults_nonvacuous :
  store_checks cv_cache_r [(1, RoTransient); (1, RoTransient); (1, RoOk)] = cv_cache_r /\
  init_resolve [RoTransient; RoTransient; RoOk] = Some true /\ init_resolve [RoTransient; RoRemoved] = Some false /\
  InvCheck.cinvb cv_truth_r (store_checks cv_cache_r [(1, RoTransient)]) = true /\
  InvCheck.cinvb cv_truth_r (store_checks cv_cache_r [(1, RoRemoved)]) = false /\
  rounds cv_truth_r (fun _ => cv_truth_r) cv_pd_r 3 3 4 (store_checks cv_cache_r [(1, RoTransient)]) [99] = true /\
  rounds cv_truth_r (fun _ => cv_truth_r) cv_pd_r 3 3 12 (store_checks cv_cache_r [(1, RoRemoved)]) [99] = false.
Proof. vm_compute. repeat split. Qed.
