(* Region/ProofsReach.v — the invariant the convergence theorem starts from holds in every state the cache can reach while
   PD and the stores still answer with OLDER states of the regions. [H] is the set of region states that may still be
   reported (the history, current regions included or not); [hist_ok] is TiKV's epoch discipline over it. The invariant
   ([cinv] + every entry is a state of the history) is established by the empty cache and kept by every lookup API
   (through ProofsClosed.v), every reaction to a store reply, GC, TTL expiry, the store check and the bucket updates. *)
From Coq Require Import Sorting.Sorted.
From Verif Require Import Base.Lex Region.Model Region.Ord Region.ProofsContains Region.ProofsInsert Region.ProofsMerge
  Region.ProofsPhase1 Region.Converge Region.ProofsConvA Region.ProofsConvB Region.ProofsConvC Region.ProofsGc Region.ProofsClosed.
Open Scope N_scope.

Section Reach.
Variable truth : list desc.
Hypothesis Htw : truth_wf truth.
Variable H : desc -> Prop.

Record hist_ok : Prop := {
  (* a reported state with the version of a current region is that region *)
  ho_truth : forall h T, H h -> In T truth -> d_verid h = d_verid T -> d_start h = d_start T /\ d_end h = d_end T /\ d_peers h = d_peers T;
  (* a version names one start key (every change of the range bumps the version) *)
  ho_fun : forall h1 h2, H h1 -> H h2 -> d_verid h1 = d_verid h2 -> d_start h1 = d_start h2;
  (* nothing reported is newer than the current region over the same keys / with the same id *)
  ho_start : forall h T, H h -> In T truth -> tcontains T (d_start h) = true -> d_ver h <= d_ver T;
  ho_id : forall h T, H h -> In T truth -> d_id h = d_id T -> d_ver h <= d_ver T /\ d_conf h <= d_conf T;
  ho_nonempty : forall h, H h -> d_end h = [] \/ lex_ltb (d_start h) (d_end h) = true }.
Hypothesis Hh : hist_ok.

Definition from_hist (c : cache) : Prop := forall x, In x (c_sorted c) -> exists h, H h /\ of_truth x h.
Definition rinv (c : cache) : Prop := cinv truth c /\ from_hist c.

Lemma rinv_empty : rinv empty_cache.
Proof.
  split; [|intros x []]. constructor; cbn [empty_cache c_sorted c_regions c_latest c_tomb].
  - constructor.
  - intros x T [].
  - intros x [].
  - intros x y [].
  - intros x T [].
  - intros T v cf _ E. discriminate E.
  - intros x T [].
  - intros x [].
  - intros x [].
  - intros T p _ _. reflexivity.
Qed.

(* ---- inserting a reported state (accepted or refused) ---- *)
Lemma insert_hist c r h :
  rinv c -> H h -> of_truth r h -> fresh r -> (r_work r < length (r_peers r))%nat -> length (r_sepochs r) = length (r_peers r) ->
  rinv (snd (insert_region c r)).
Proof.
  intros [Hc Hfh] Hh0 Hof Hfr Hw Hlen. pose proof Hof as [Hid [Hst [Hen [Hve [Hco Hpe]]]]].
  assert (Hne : nonempty_range r) by (unfold nonempty_range; rewrite Hst, Hen; apply (ho_nonempty Hh h Hh0)).
  destruct (insert_region c r) as [ok c'] eqn:Ei. cbn [snd].
  destruct ok; [|apply insert_refused_unchanged in Ei; subst c'; split; assumption].
  destruct (insert_accepted c r c' (ci_sorted _ c Hc) Hne Ei) as [deleted [H1 [H2 [H3 [H4 [H5 H6]]]]]]. cbv zeta in *.
  set (r1 := inherit r deleted) in *.
  destruct (inherit_same r deleted) as [I1 [I2 [I3 [I4 [I5 [I6 [I7 [I8 [I9 I10]]]]]]]]]. fold r1 in I1, I2, I3, I4, I5, I6, I7, I8, I9, I10.
  assert (Hv1 : r_verid r1 = d_verid h) by (unfold r_verid, d_verid; congruence).
  assert (Hof1 : of_truth r1 h) by (repeat split; congruence).
  (* an old entry that is kept does not carry the inserted version *)
  assert (Hkeepv : forall x, In x (c_sorted c) -> ~ starts_in r x -> r_verid x <> d_verid h).
  { intros x Hx Hn Hv. destruct (Hfh x Hx) as [hx [Hhx [Ox1 [Ox2 [Ox3 [Ox4 [Ox5 Ox6]]]]]]].
    assert (Hvx : d_verid hx = d_verid h) by (rewrite <- Hv; unfold r_verid, d_verid; congruence).
    pose proof (ho_fun Hh hx h Hhx Hh0 Hvx) as Hs. apply Hn. unfold starts_in. rewrite Ox2, Hs, <- Hst. split; [apply leb_refl|exact Hne]. }
  assert (Htb : c_tomb c' = c_tomb c).
  { clear - Ei. rewrite insert_region_unfold in Ei. destruct (stale_by_latest c r); [discriminate|].
    destruct (remove_intersecting r (c_sorted c)) as [[l1 dl] st]. destruct st; [discriminate|]. cbv zeta in Ei. injection Ei as <-. reflexivity. }
  split.
  2:{ intros x Hx. apply H3 in Hx. destruct Hx as [->|[Hx _]]; [exists h; split; assumption|apply Hfh; exact Hx]. }
  constructor.
  - exact H6.
  - intros x T' Hx HT' Hv. apply H3 in Hx. destruct Hx as [->|[Hx _]]; [|apply (ci_hist _ c Hc x T' Hx HT' Hv)].
    destruct (ho_truth Hh h T' Hh0 HT') as [A [B C]]; [congruence|]. repeat split; congruence.
  - intros x Hx. apply H3 in Hx. rewrite H4, reg_get_set. destruct Hx as [->|[Hx Hn]]; [rewrite verid_eqb_refl; reflexivity|].
    destruct (verid_eqb (r_verid r1) (r_verid x)) eqn:E.
    { exfalso. apply verid_eqb_eq in E. apply (Hkeepv x Hx Hn). congruence. }
    rewrite fold_remove_regs; [apply (ci_addr _ c Hc x Hx)|].
    intros d Hd Hv. apply H1 in Hd. destruct Hd as [Hd Hin]. assert (d = x) by (apply (ci_uniq _ c Hc); assumption). subst d. contradiction.
  - intros x y Hx Hy Hv. apply H3 in Hx. apply H3 in Hy. destruct Hx as [->|[Hx Hnx]], Hy as [->|[Hy Hny]]; [reflexivity| | |apply (ci_uniq _ c Hc); assumption].
    + exfalso. apply (Hkeepv y Hy Hny). congruence.
    + exfalso. apply (Hkeepv x Hx Hnx). congruence.
  - intros x T' Hx HT' Hc'. apply H3 in Hx. destruct Hx as [->|[Hx _]]; [|apply (ci_dom_start _ c Hc x T' Hx HT' Hc')].
    rewrite I2, Hst in Hc'. rewrite I4, Hve. apply (ho_start Hh h T' Hh0 HT' Hc').
  - intros T' v cf HT' Hl. rewrite H5, lat_get_set in Hl. destruct (d_id T' =? r_id r1) eqn:E.
    + apply N.eqb_eq in E. injection Hl as <- <-. rewrite I4, I5, Hve, Hco. apply (ho_id Hh h T' Hh0 HT'). congruence.
    + apply fold_remove_latest in Hl. cbn [snd] in Hl. apply (ci_dom_lat _ c Hc T' v cf HT' Hl).
  - intros x T' Hx HT' Hi. apply H3 in Hx. destruct Hx as [->|[Hx _]]; [|apply (ci_dom_id _ c Hc x T' Hx HT' Hi)].
    rewrite I4, I5, Hve, Hco. apply (ho_id Hh h T' Hh0 HT'). congruence.
  - intros x Hx. apply H3 in Hx. destruct Hx as [->|[Hx _]]; [|apply (ci_ok _ c Hc x Hx)].
    destruct Hfr as [F1 [F2 [F3 F4]]].
    assert (Hpn : r_peers r <> []) by (intros E; rewrite E in Hw; cbn in Hw; lia).
    split; [unfold nonempty_range; rewrite I2, I3; exact Hne|]. split; [rewrite I6; exact Hpn|]. split.
    + rewrite I6. unfold r1, inherit, with_work. destruct deleted as [|old t]; [exact Hw|]. destruct (r_reason old =? 1); [|exact Hw].
      cbn [r_work]. apply Nat.mod_upper_bound. destruct (r_peers r); [congruence|discriminate].
    + rewrite I10, F2. congruence.
  - intros x Hx. apply H3 in Hx. destruct Hx as [->|[Hx _]]; [|apply (ci_len _ c Hc x Hx)].
    rewrite I6. unfold r1, inherit, with_work. destruct deleted as [|old t]; [exact Hlen|]. destruct (r_reason old =? 1); exact Hlen.
  - intros T' p HT' Hp. rewrite Htb. apply (ci_tomb _ c Hc T' p HT' Hp).
Qed.

Lemma last_idx_lt p (l : list peer) : l <> [] -> (last_idx p l 0 0 < length l)%nat.
Proof. intros Hn. apply (last_idx_bound p l 0 0). destruct l; [congruence|cbn; lia]. Qed.

(* newRegion of a reported state with peers, stamped with the store epochs: what every load inserts *)
Lemma insert_new_hist c r : rinv c -> from_pd H r -> rinv (snd (insert_new c r)).
Proof.
  intros Hc [d [Hd [Hp ->]]]. unfold insert_new.
  apply (insert_hist c (stamp (c_sepochs c) (new_region d)) d Hc Hd); try (repeat split; fail).
  - cbn [stamp new_region r_work r_peers]. apply last_idx_lt. exact Hp.
  - cbn [stamp r_sepochs r_peers]. apply map_length.
Qed.
(* the regions of an EpochNotMatch answer *)
Lemma insert_on_store_hist c bk d st : rinv c -> H d -> d_peers d <> [] -> rinv (snd (insert_new c (region_on_store bk d st))).
Proof.
  intros Hc Hd Hp. unfold insert_new.
  assert (Hw : (r_work (region_on_store bk d st) < length (r_peers (region_on_store bk d st)))%nat).
  { unfold region_on_store. destruct (store_idx st (d_peers d) 0) as [i|] eqn:E.
    - cbn. apply store_idx_bound in E. lia.
    - cbn [new_region r_work r_peers d_peers d_leader]. apply last_idx_lt. exact Hp. }
  assert (Hs : of_truth (region_on_store bk d st) d /\ fresh (region_on_store bk d st)).
  { unfold region_on_store. destruct (store_idx st (d_peers d) 0); repeat split. }
  destruct Hs as [Hof Hfr].
  apply (insert_hist c (stamp (c_sepochs c) (region_on_store bk d st)) d Hc Hd).
  - destruct Hof as [A [B [C [D [E F]]]]]. repeat split; assumption.
  - destruct Hfr as [A [B [C D]]]. repeat split; assumption.
  - exact Hw.
  - cbn [stamp r_sepochs r_peers]. apply map_length.
Qed.

(* ---- updating entries in place ---- *)
Lemma map_rinv c g se tb :
  rinv c -> same_shape g -> (forall x, In x (c_sorted c) -> entry_ok (g x) /\ length (r_sepochs (g x)) = length (r_peers (g x))) ->
  (forall T p, In T truth -> In p (d_peers T) -> existsb (N.eqb (snd p)) tb = false) ->
  rinv (mkCache (map g (c_sorted c)) (c_regions c) (c_latest c) se tb).
Proof.
  intros [Hc Hfh] Hg Hok Htb.
  assert (Hpre : forall y, In y (map g (c_sorted c)) -> exists x, In x (c_sorted c) /\ y = g x).
  { intros y Hy. apply in_map_iff in Hy. destruct Hy as [x [<- Hx]]. exists x. split; [exact Hx|reflexivity]. }
  split.
  2:{ intros y Hy. cbn [c_sorted] in Hy. destruct (Hpre y Hy) as [x [Hx ->]]. destruct (Hfh x Hx) as [h [Hh0 [A [B [C [D [E F]]]]]]].
      exists h. split; [exact Hh0|]. destruct (Hg x) as [G1 [G2 [G3 [G4 [G5 G6]]]]]. repeat split; congruence. }
  constructor; cbn [c_sorted c_regions c_latest c_tomb].
  - apply map_sorted; [exact Hg|apply (ci_sorted _ c Hc)].
  - intros y T Hy HT Hv. destruct (Hpre y Hy) as [x [Hx ->]]. rewrite (shape_verid _ x Hg) in Hv.
    destruct (Hg x) as [_ [-> [-> [_ [_ ->]]]]]. apply (ci_hist _ c Hc x T Hx HT Hv).
  - intros y Hy. destruct (Hpre y Hy) as [x [Hx ->]]. rewrite (shape_verid _ x Hg). destruct (Hg x) as [_ [-> _]]. apply (ci_addr _ c Hc x Hx).
  - intros y z Hy Hz Hv. destruct (Hpre y Hy) as [x [Hx ->]]. destruct (Hpre z Hz) as [x' [Hx' ->]].
    rewrite !(shape_verid _ _ Hg) in Hv. rewrite (ci_uniq _ c Hc x x' Hx Hx' Hv). reflexivity.
  - intros y T Hy HT Hct. destruct (Hpre y Hy) as [x [Hx ->]]. destruct (Hg x) as [_ [Ha [_ [Hb _]]]]. rewrite Ha in Hct. rewrite Hb. apply (ci_dom_start _ c Hc x T Hx HT Hct).
  - intros T v cf HT Hl. apply (ci_dom_lat _ c Hc T v cf HT Hl).
  - intros y T Hy HT Hi. destruct (Hpre y Hy) as [x [Hx ->]]. destruct (Hg x) as [Ha [_ [_ [Hb [Hc' _]]]]]. rewrite Ha in Hi. rewrite Hb, Hc'. apply (ci_dom_id _ c Hc x T Hx HT Hi).
  - intros y Hy. destruct (Hpre y Hy) as [x [Hx ->]]. apply (Hok x Hx).
  - intros y Hy. destruct (Hpre y Hy) as [x [Hx ->]]. apply (Hok x Hx).
  - exact Htb.
Qed.
(* f keeps the shape, [entry_ok] and the length of the recorded store epochs *)
Definition entry_fun (f : region -> region) : Prop :=
  same_shape f /\ forall x, entry_ok x -> length (r_sepochs x) = length (r_peers x) -> entry_ok (f x) /\ length (r_sepochs (f x)) = length (r_peers (f x)).
Lemma upd_rinv c r f se : rinv c -> entry_fun f -> rinv (let c1 := upd_entry c r f in mkCache (c_sorted c1) (c_regions c1) (c_latest c1) se (c_tomb c1)).
Proof.
  intros Hc [Hf Hok]. cbv zeta. unfold upd_entry. cbn [c_sorted c_regions c_latest c_tomb].
  apply (map_rinv c (upd_fun r f) se (c_tomb c) Hc (upd_fun_shape r f Hf)).
  - intros x Hx. unfold upd_fun. destruct Hc as [Hc _]. pose proof (ci_ok _ c Hc x Hx) as A. pose proof (ci_len _ c Hc x Hx) as B.
    destruct (bytes_eqb (r_start x) (r_start r) && verid_eqb (r_verid x) (r_verid r)); [apply Hok; assumption|split; assumption].
  - destruct Hc as [Hc _]. apply (ci_tomb _ c Hc).
Qed.
Lemma upd_rinv' c r f : rinv c -> entry_fun f -> rinv (upd_entry c r f).
Proof. intros Hc Hf. exact (upd_rinv c r f (c_sepochs c) Hc Hf). Qed.

Lemma ef_flags rl pe rd : entry_fun (set_flags rl pe rd).
Proof. split; [intros x; repeat split|]. intros x [A [B [C D]]] L. repeat split; assumption. Qed.
Lemma ef_invalidate reason : entry_fun (invalidate_r reason).
Proof.
  split; [apply shape_invalidate|]. intros x [A [B [C D]]] L. unfold invalidate_r. destruct (r_reason x =? 0); [|repeat split; assumption].
  repeat split; assumption.
Qed.
Lemma ef_expire : entry_fun expire_r.
Proof. split; [apply shape_expire|]. intros x [A [B [C D]]] L. repeat split; assumption. Qed.
Lemma ef_set_bk b : entry_fun (set_bk b).
Proof. split; [intros x; repeat split|]. intros x [A [B [C D]]] L. repeat split; assumption. Qed.
Lemma ef_id : entry_fun (fun x => x).
Proof. split; [intros x; repeat split|]. intros x A L. split; assumption. Qed.
(* a new work peer chosen per entry, inside the entry's peer list *)
Lemma ef_set_work_mod i : entry_fun (fun x => set_work (Nat.modulo i (length (r_peers x))) x).
Proof.
  split; [intros x; repeat split|]. intros x [A [B [C D]]] L. repeat split; try assumption.
  cbn [set_work r_work r_peers]. apply Nat.mod_upper_bound. destruct (r_peers x); [congruence|discriminate].
Qed.
Lemma ef_switch_work se i : entry_fun (fun x => if Nat.ltb i (length (r_peers x)) then switch_work se i x else x).
Proof.
  split; [intros x; destruct (Nat.ltb i (length (r_peers x))); [apply shape_switch_work|repeat split]|].
  intros x [A [B [C D]]] L. destruct (Nat.ltb i (length (r_peers x))) eqn:E; [|repeat split; assumption].
  apply Nat.ltb_lt in E. repeat split; try assumption. cbn [switch_work r_sepochs r_peers]. rewrite set_nth_length. exact L.
Qed.
Lemma ef_compose f g : entry_fun f -> entry_fun g -> entry_fun (fun x => g (f x)).
Proof.
  intros [Sf Of] [Sg Og]. split.
  - intros x. destruct (Sf x) as [A [B [C [D [E F]]]]]. destruct (Sg (f x)) as [A' [B' [C' [D' [E' F']]]]]. repeat split; congruence.
  - intros x A L. destruct (Of x A L) as [A1 L1]. apply Og; assumption.
Qed.
Lemma ef_cond (b : region -> bool) f : entry_fun f -> entry_fun (fun x => if b x then f x else x).
Proof.
  intros [Sf Of]. split; [intros x; destruct (b x); [apply Sf|repeat split]|]. intros x A L. destruct (b x); [apply Of; assumption|split; assumption].
Qed.

(* upd_entry only looks at f on entries of the index: two functions that agree there give the same cache *)
Lemma upd_entry_ext c r f g : (forall x, In x (c_sorted c) -> f x = g x) -> upd_entry c r f = upd_entry c r g.
Proof.
  intros E. unfold upd_entry. f_equal. apply map_ext_in. intros x Hx.
  destruct (bytes_eqb (r_start x) (r_start r) && verid_eqb (r_verid x) (r_verid r)); [apply E; exact Hx|reflexivity].
Qed.
Lemma get_by_verid_some c v r : get_by_verid c v = Some r -> In r (c_sorted c) /\ r_verid r = v.
Proof.
  unfold get_by_verid. destruct (reg_get v (c_regions c)) as [s|]; [|discriminate]. unfold entry_at. intros E. apply find_some in E.
  destruct E as [A B]. apply andb_true_iff in B. destruct B as [_ B]. apply verid_eqb_eq in B. split; assumption.
Qed.
Lemma first_idx_lt p : forall (l : list peer) i j, first_idx p l i = Some j -> (j < i + length l)%nat.
Proof.
  induction l as [|q t IH]; intros i j; cbn [first_idx length]; [discriminate|]. destruct (peer_eqb q p); [intros E; injection E as <-; lia|].
  intros E. apply IH in E. lia.
Qed.

(* ---- the reactions to store replies, GC, expiry, store check, buckets ---- *)
Lemma invalidate_rinv c v reason : rinv c -> rinv (invalidate c v reason).
Proof. intros Hc. unfold invalidate. destruct (get_by_verid c v); [apply upd_rinv'; [exact Hc|apply ef_invalidate]|exact Hc]. Qed.

Lemma update_leader_rinv c v leader cur : rinv c -> rinv (update_leader c v leader cur).
Proof.
  intros Hc. unfold update_leader. destruct (get_by_verid c v) as [r|] eqn:Eg; [|exact Hc]. destruct leader as [p|].
  - destruct (first_idx p (r_peers r) 0) as [i|] eqn:Ef; [|apply upd_rinv'; [exact Hc|apply ef_invalidate]].
    destruct (Nat.eqb (r_work r) i); [exact Hc|]. apply first_idx_lt in Ef. cbn in Ef.
    (* only r itself (same start, same version) is rewritten, and i is inside its peer list *)
    destruct (get_by_verid_some c v r Eg) as [Hr _]. destruct Hc as [Hc Hfh].
    replace (upd_entry c r (switch_work (c_sepochs c) i)) with (upd_entry c r (fun x => if Nat.ltb i (length (r_peers r)) then switch_work (c_sepochs c) i x else x)).
    2:{ replace (Nat.ltb i (length (r_peers r))) with true by (symmetry; apply Nat.ltb_lt; exact Ef). reflexivity. }
    assert (E : upd_entry c r (fun x => if Nat.ltb i (length (r_peers r)) then switch_work (c_sepochs c) i x else x) =
                upd_entry c r (fun x => if Nat.ltb i (length (r_peers x)) then switch_work (c_sepochs c) i x else x)).
    { unfold upd_entry. f_equal. apply map_ext_in. intros x Hx.
      destruct (bytes_eqb (r_start x) (r_start r) && verid_eqb (r_verid x) (r_verid r)) eqn:Eb; [|reflexivity].
      apply andb_true_iff in Eb. destruct Eb as [Eb _]. apply bytes_eqb_eq in Eb.
      assert (x = r) by (eapply sorted_in_eq; [apply (ci_sorted _ c Hc)|exact Hx|exact Hr|exact Eb]). subst x. reflexivity. }
    rewrite E. apply upd_rinv'; [split; assumption|apply ef_switch_work].
  - destruct (Nat.eqb (r_work r) cur); [|exact Hc].
    destruct (get_by_verid_some c v r Eg) as [Hr _]. destruct Hc as [Hc Hfh].
    assert (E : upd_entry c r (set_work (Nat.modulo (S cur) (length (r_peers r)))) =
                upd_entry c r (fun x => set_work (Nat.modulo (S cur) (length (r_peers x))) x)).
    { unfold upd_entry. f_equal. apply map_ext_in. intros x Hx.
      destruct (bytes_eqb (r_start x) (r_start r) && verid_eqb (r_verid x) (r_verid r)) eqn:Eb; [|reflexivity].
      apply andb_true_iff in Eb. destruct Eb as [Eb _]. apply bytes_eqb_eq in Eb.
      assert (x = r) by (eapply sorted_in_eq; [apply (ci_sorted _ c Hc)|exact Hx|exact Hr|exact Eb]). subst x. reflexivity. }
    rewrite E. apply upd_rinv'; [split; assumption|apply ef_set_work_mod].
Qed.

Lemma rpc_ctx_rinv c v : rinv c -> rinv (snd (rpc_ctx c v)).
Proof.
  intros Hc. unfold rpc_ctx. destruct (get_by_verid c v) as [r|]; [|exact Hc]. destruct (r_reload r || r_expired r); [exact Hc|]. cbv zeta.
  destruct (existsb (N.eqb (snd (nth (r_work r) (r_peers r) (0, 0)))) (c_tomb c)); [apply upd_rinv'; [exact Hc|apply ef_invalidate]|].
  destruct (store_epoch (c_sepochs c) (snd (nth (r_work r) (r_peers r) (0, 0))) =? nth (r_work r) (r_sepochs r) 0); [exact Hc|].
  apply upd_rinv'; [exact Hc|apply ef_invalidate].
Qed.

Lemma on_send_fail_rinv c v idx reload : rinv c -> rinv (on_send_fail c v idx reload).
Proof.
  intros Hc. unfold on_send_fail. destruct (get_by_verid c v) as [r|]; [|exact Hc]. cbv zeta.
  apply (upd_rinv c r _ _ Hc).
  apply (ef_compose (fun x => if Nat.eqb (r_work x) idx then set_work (Nat.modulo (S idx) (length (r_peers x))) x else x)
                    (fun x1 => if reload then set_reload x1 else x1)).
  - apply (ef_cond (fun x => Nat.eqb (r_work x) idx)). apply ef_set_work_mod.
  - destruct reload; [apply ef_flags|apply ef_id].
Qed.

Lemma insert_all_on_store bk st : forall cur c0, rinv c0 -> Forall H cur -> existsb (fun d => is_nil (d_peers d)) cur = false ->
  rinv (insert_all c0 (map (fun d => region_on_store bk d st) cur)).
Proof.
  unfold insert_all. induction cur as [|d t IH]; intros c0 Hc Hf Hp; [exact Hc|]. cbn [map fold_left].
  inversion Hf; subst. cbn [existsb] in Hp. apply orb_false_iff in Hp. destruct Hp as [Hp1 Hp2].
  apply IH; [|assumption|exact Hp2]. apply insert_on_store_hist; [exact Hc|assumption|]. intros E. rewrite E in Hp1. discriminate.
Qed.
Lemma on_epoch_not_match_rinv c v st cur b c' : rinv c -> Forall H cur -> on_epoch_not_match c v st cur = Ok (b, c') -> rinv c'.
Proof.
  intros Hc Hf. unfold on_epoch_not_match. destruct cur as [|d0 t] eqn:Ecur; [intros E; injection E as _ <-; apply invalidate_rinv; exact Hc|].
  rewrite <- Ecur in *. destruct (epoch_ahead v cur); [intros E; injection E as _ <-; exact Hc|].
  destruct (existsb (fun d => is_nil (d_peers d)) cur) eqn:Ep; [discriminate|]. cbv zeta. intros E; injection E as _ <-.
  apply insert_all_on_store; [|exact Hf|exact Ep].
  match goal with |- rinv (if ?e then _ else _) => destruct e end; [exact Hc|apply invalidate_rinv; exact Hc].
Qed.

Lemma gc_rinv c : rinv c -> rinv (gc c).
Proof.
  intros [Hc Hfh]. split; [apply gc_inv; assumption|]. rewrite gc_unfold. cbv zeta. cbn [c_sorted]. intros y Hy.
  apply in_map_iff in Hy. destruct Hy as [x [<- Hx]]. apply filter_In in Hx. destruct Hx as [Hx _].
  destruct (Hfh x Hx) as [h [Hh0 [A [B [C [D [E F]]]]]]]. exists h. split; [exact Hh0|].
  destruct (shape_gc_flag x) as [G1 [G2 [G3 [G4 [G5 G6]]]]]. repeat split; congruence.
Qed.
Lemma expire_rinv c r : rinv c -> rinv (upd_entry c r expire_r).
Proof. intros Hc. apply upd_rinv'; [exact Hc|apply ef_expire]. Qed.

(* the store check finds a store removed: allowed once no current peer is on it *)
Lemma re_resolve_rinv c st removed : rinv c -> (forall T p, In T truth -> In p (d_peers T) -> snd p <> st) -> rinv (re_resolve c st removed).
Proof.
  intros Hc Hst. unfold re_resolve. destruct removed; [|exact Hc].
  assert (E : map (fun x : region => x) (c_sorted c) = c_sorted c) by apply map_id. rewrite <- E.
  apply (map_rinv c (fun x => x)); [exact Hc|intros x; repeat split| |].
  - intros x Hx. destruct Hc as [Hc _]. split; [apply (ci_ok _ c Hc x Hx)|apply (ci_len _ c Hc x Hx)].
  - intros T p HT Hp. destruct Hc as [Hc _]. pose proof (ci_tomb _ c Hc T p HT Hp) as Ht.
    destruct (existsb (N.eqb st) (c_tomb c)); [exact Ht|]. cbn [existsb]. rewrite Ht.
    replace (snd p =? st) with false by (symmetry; apply N.eqb_neq; apply (Hst T p HT Hp)). reflexivity.
Qed.

Lemma bucket_not_match_rinv c v ver keys : rinv c -> rinv (on_bucket_version_not_match c v ver keys).
Proof.
  intros Hc. unfold on_bucket_version_not_match. destruct (get_by_verid c v) as [r|]; [|exact Hc].
  destruct (r_bk r) as [[bv ks]|]; [destruct (bv <? ver); [|exact Hc]|]; apply upd_rinv'; try exact Hc; apply ef_set_bk.
Qed.

(* ---- the reachable states ---- *)
(* PD (and the stores, in EpochNotMatch) answer with states of the history: possibly old, never invented *)
Definition pd_hist (pd : nat -> pd_req -> pd_ans) : Prop :=
  forall t q, match pd t q with PdOne (Some d) => H d | PdOne None => True | PdMany l => Forall H l end.

Inductive reach : cache -> Prop :=
| R_empty : reach empty_cache
| R_locate pd budget fuel t c key is_end r c' t' :
    pd_hist pd -> reach c -> find_region_by_key pd budget fuel t c key is_end = (r, c', t') -> reach c'
| R_by_id pd budget t c id r c' t' : pd_hist pd -> reach c -> locate_by_id pd budget t c id = (r, c', t') -> reach c'
| R_key_range pd budget lim fuel t c s e acc r c' t' :
    pd_hist pd -> reach c -> locate_key_range pd budget lim fuel t c s e acc = (r, c', t') -> reach c'
| R_batch pd budget lim fuel t c rs nl r c' t' : pd_hist pd -> reach c -> batch_locate pd budget lim fuel t c rs nl = (r, c', t') -> reach c'
| R_group pd budget fuel t c keys lastl acc r c' t' :
    pd_hist pd -> reach c -> group_assign pd budget fuel t c keys lastl acc = (r, c', t') -> reach c'
| R_list_ids pd budget fuel t c s e acc r c' t' : pd_hist pd -> reach c -> list_region_ids pd budget fuel t c s e acc = (r, c', t') -> reach c'
| R_load_range pd budget lim fuel t c s e acc r c' t' :
    pd_hist pd -> reach c -> load_regions_in_range pd budget lim fuel t c s e acc = (r, c', t') -> reach c'
| R_bload pd budget fuel t c s e count r c' t' : pd_hist pd -> reach c -> batch_load_range pd budget fuel t c s e count = (r, c', t') -> reach c'
| R_bloads pd budget fuel t c rs count nl r c' t' :
    pd_hist pd -> reach c -> batch_load_ranges pd budget fuel t c rs count nl = (r, c', t') -> reach c'
| R_update_buckets pd budget t c v req latest : pd_hist pd -> reach c -> reach (fst (update_buckets pd budget t c v req latest))
| R_invalidate c v reason : reach c -> reach (invalidate c v reason)
| R_update_leader c v leader cur : reach c -> reach (update_leader c v leader cur)
| R_rpc_ctx c v : reach c -> reach (snd (rpc_ctx c v))
| R_send_fail c v idx reload : reach c -> reach (on_send_fail c v idx reload)
| R_epoch c v st cur b c' : Forall H cur -> reach c -> on_epoch_not_match c v st cur = Ok (b, c') -> reach c'
| R_gc c : reach c -> reach (gc c)
| R_expire c r : reach c -> reach (upd_entry c r expire_r)
| R_resolve c st removed : (forall T p, In T truth -> In p (d_peers T) -> snd p <> st) -> reach c -> reach (re_resolve c st removed)
| R_bucket c v ver keys : reach c -> reach (on_bucket_version_not_match c v ver keys)
(* what RegionRequestSender does to Region / Store objects directly: any in-place change of entries that keeps the region
   description, a work peer inside the peer list and the shape of the recorded epochs; any change of the store fail-epochs *)
| R_entry c r f : entry_fun f -> reach c -> reach (upd_entry c r f)
| R_store_epochs c se : reach c -> reach (mkCache (c_sorted c) (c_regions c) (c_latest c) se (c_tomb c))
(* the whole index dropped (region cache cleared; the stores keep their state) *)
| R_clear c : reach c -> reach (mkCache [] [] [] (c_sepochs c) (c_tomb c)).

Lemma rinv_clear c r : rinv c -> rinv (upd_entry c r clear_access_flags).
Proof. intros Hc. apply upd_rinv'; [exact Hc|apply ef_flags]. Qed.
Lemma rinv_reload c r : rinv c -> rinv (upd_entry c r set_reload).
Proof. intros Hc. apply upd_rinv'; [exact Hc|apply ef_flags]. Qed.

Lemma update_buckets_rinv pd budget t c v req latest : pd_hist pd -> rinv c -> rinv (fst (update_buckets pd budget t c v req latest)).
Proof.
  intros Hpd Hc. unfold update_buckets. destruct (get_by_verid c v) as [r|]; [|exact Hc]. cbv zeta.
  destruct (negb (req =? 0) && (req <? bk_ver (r_bk r))); [exact Hc|]. destruct (bk_ver (r_bk r) <? latest); [|exact Hc].
  destruct (load_by_id pd budget t (fst (fst v))) as [[lr|e] t1] eqn:El; [|exact Hc]. cbn [fst].
  apply insert_new_hist; [exact Hc|]. eapply load_by_id_from_pd; [exact Hpd|exact El].
Qed.

Lemma reach_rinv c : reach c -> rinv c.
Proof.
  induction 1 as [ | pd budget fuel t c key is_end r c' t' Hpd _ IH E | pd budget t c id r c' t' Hpd _ IH E
    | pd budget lim fuel t c s e acc r c' t' Hpd _ IH E | pd budget lim fuel t c rs nl r c' t' Hpd _ IH E
    | pd budget fuel t c keys lastl acc r c' t' Hpd _ IH E | pd budget fuel t c s e acc r c' t' Hpd _ IH E
    | pd budget lim fuel t c s e acc r c' t' Hpd _ IH E | pd budget fuel t c s e count r c' t' Hpd _ IH E
    | pd budget fuel t c rs count nl r c' t' Hpd _ IH E | pd budget t c v req latest Hpd _ IH
    | c v reason _ IH | c v leader cur _ IH | c v _ IH | c v idx reload _ IH | c v st cur b c' Hf _ IH E
    | c _ IH | c r _ IH | c st removed Hst _ IH | c v ver keys _ IH | c r f Hf _ IH | c se _ IH | c _ IH ].
  - exact rinv_empty.
  - exact (find_region_by_key_closed pd budget H Hpd rinv insert_new_hist rinv_clear rinv_reload _ _ _ _ _ _ _ _ IH E).
  - exact (locate_by_id_closed pd budget H Hpd rinv insert_new_hist rinv_clear rinv_reload _ _ _ _ _ _ IH E).
  - exact (locate_key_range_closed pd budget lim H Hpd rinv insert_new_hist _ _ _ _ _ _ _ _ _ IH E).
  - exact (batch_locate_closed pd budget lim H Hpd rinv insert_new_hist _ _ _ _ _ _ _ _ IH E).
  - exact (group_assign_closed pd budget H Hpd rinv insert_new_hist rinv_clear rinv_reload _ _ _ _ _ _ _ _ _ IH E).
  - exact (list_region_ids_closed pd budget H Hpd rinv insert_new_hist rinv_clear rinv_reload _ _ _ _ _ _ _ _ _ IH E).
  - exact (load_regions_in_range_closed pd budget lim H Hpd rinv insert_new_hist _ _ _ _ _ _ _ _ _ IH E).
  - exact (batch_load_range_closed pd budget H Hpd rinv insert_new_hist _ _ _ _ _ _ _ _ _ IH E).
  - exact (batch_load_ranges_closed pd budget H Hpd rinv insert_new_hist _ _ _ _ _ _ _ _ _ IH E).
  - apply update_buckets_rinv; assumption.
  - apply invalidate_rinv; exact IH.
  - apply update_leader_rinv; exact IH.
  - apply rpc_ctx_rinv; exact IH.
  - apply on_send_fail_rinv; exact IH.
  - eapply on_epoch_not_match_rinv; eassumption.
  - apply gc_rinv; exact IH.
  - apply expire_rinv; exact IH.
  - apply re_resolve_rinv; assumption.
  - apply bucket_not_match_rinv; exact IH.
  - apply upd_rinv'; assumption.
  - assert (E : map (fun x : region => x) (c_sorted c) = c_sorted c) by apply map_id. rewrite <- E.
    apply (map_rinv c (fun x => x)); [exact IH|intros x; repeat split| |].
    + intros x Hx. destruct IH as [Hc _]. split; [apply (ci_ok _ c Hc x Hx)|apply (ci_len _ c Hc x Hx)].
    + destruct IH as [Hc _]. apply (ci_tomb _ c Hc).
  - destruct IH as [Hc _]. split; [|intros x []]. constructor; cbn [c_sorted c_regions c_latest c_tomb].
    + constructor.
    + intros x T [].
    + intros x [].
    + intros x y [].
    + intros x T [].
    + intros T v cf _ E. discriminate E.
    + intros x T [].
    + intros x [].
    + intros x [].
    + apply (ci_tomb _ c Hc).
Qed.
End Reach.
