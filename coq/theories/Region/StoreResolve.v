(* Region/StoreResolve.v — PD faults on the STORE path. A GetStore issued by Store.initResolve (first use of a store),
   Store.reResolve (the periodic / needCheck store check) has three outcomes: PD confirms the store, PD reports it removed
   (tombstone: terminal, fail-epoch bumped, no address any more), or the call FAILS transiently (any error that is not PD's
   "invalid store ID ..., not found"): then the store stays exactly as it is and the check comes back later
   (initResolve: after a back-off, inside the same call). Convergence is stated over arbitrary interleavings of such checks. *)
From Verif Require Import Base.Lex Region.Model Region.Ord Region.Converge Region.ProofsConvB Region.ProofsConvC Region.ProofsReach.
Open Scope N_scope.

Inductive resolve_outcome := RoOk | RoRemoved | RoTransient.

(* Store.reResolve on one store *)
Definition store_check (c : cache) (st : N) (o : resolve_outcome) : cache :=
  match o with RoRemoved => re_resolve c st true | RoOk | RoTransient => c end.
Definition store_checks (c : cache) (l : list (N * resolve_outcome)) : cache :=
  fold_left (fun c so => store_check c (fst so) (snd so)) l c.

(* Store.initResolve: GetStore is repeated (with back-off) while it fails transiently; the first other answer decides:
   Some true = resolved, Some false = tombstone, None = the back-off budget ran out, the store is still unresolved *)
Fixpoint init_resolve (outs : list resolve_outcome) : option bool :=
  match outs with
  | [] => None
  | RoTransient :: rest => init_resolve rest
  | RoOk :: _ => Some true
  | RoRemoved :: _ => Some false
  end.

Lemma store_check_transient c st : store_check c st RoTransient = c /\ store_check c st RoOk = c.
Proof. split; reflexivity. Qed.
Lemma init_resolve_transient n o rest : init_resolve (repeat RoTransient n ++ o :: rest) = init_resolve (o :: rest).
Proof. induction n as [|n IH]; [reflexivity|exact IH]. Qed.
(* a store becomes a tombstone only when PD said it was removed *)
Lemma store_checks_tomb : forall l c st, In st (c_tomb (store_checks c l)) -> In st (c_tomb c) \/ In (st, RoRemoved) l.
Proof.
  unfold store_checks. induction l as [|[s o] t IH]; intros c st H; [left; exact H|]. cbn [fold_left fst snd] in H.
  apply IH in H. destruct H as [H|H]; [|right; right; exact H].
  destruct o; cbn [store_check] in H; try (left; exact H).
  unfold re_resolve in H. cbn [c_tomb] in H. destruct (existsb (N.eqb s) (c_tomb c)); [left; exact H|].
  destruct H as [<-|H]; [right; left; reflexivity|left; exact H].
Qed.

Section Reach.
Variable truth : list desc.
Variable H : desc -> Prop.
Lemma store_checks_reach : forall l c,
  (forall st T p, In (st, RoRemoved) l -> In T truth -> In p (d_peers T) -> snd p <> st) ->
  reach truth H c -> reach truth H (store_checks c l).
Proof.
  unfold store_checks. induction l as [|[s o] t IH]; intros c Hrm Hc; [exact Hc|]. cbn [fold_left fst snd].
  apply IH; [intros st T p Hin; apply Hrm; right; exact Hin|].
  destruct o; cbn [store_check]; try exact Hc.
  apply R_resolve; [intros T p HT Hp; apply (Hrm s T p); [left; reflexivity|exact HT|exact Hp]|exact Hc].
Qed.
End Reach.
