(* Region/ProofsMerge.v — batchLocateRangesMerger: for ANY list of cached regions sorted by start key and ANY
   sequence of regions loaded from PD, every key that lies in a cached or in a loaded region lies in one of the
   merged locations (a cached region is only dropped when the loaded regions cover it; this includes a cached
   last region whose end key is empty). *)
From Coq Require Import Sorting.Sorted.
From Verif Require Import Base.Lex Region.Model Region.Ord.
Open Scope N_scope.

Definition covered (out : list region) (k : bytes) : Prop := exists l, In l out /\ r_contains l k = true.
Definition start_le (a b : region) : Prop := lex_leb (r_start a) (r_start b) = true.
Definition sorted_le (l : list region) : Prop := StronglySorted start_le l.

Lemma covered_mono out out' k : (forall x, In x out -> In x out') -> covered out k -> covered out' k.
Proof. intros H [l [Hin Hc]]. exists l. split; [apply H; exact Hin|exact Hc]. Qed.
Lemma covered_app_l a b k : covered a k -> covered (a ++ b) k.
Proof. apply covered_mono. intros x Hx. apply in_or_app. left; exact Hx. Qed.

Lemma r_contains_spec r k : r_contains r k = true <-> in_range (r_start r) (r_end r) k.
Proof. apply contains_spec. Qed.

Lemma merge_take_spec le u : forall cs out cs' out',
  sorted_le cs -> merge_take le u cs out = (cs', out') ->
  sorted_le cs' /\
  (forall c, In c cs' -> In c cs /\ lex_leb (r_start u) (r_start c) = true) /\
  (forall x, In x out -> In x out') /\
  (forall c, In c cs -> In c out' \/ skip_covered le c = true \/ In c cs').
Proof.
  induction cs as [|c cs IH]; intros out cs' out' Hs; cbn [merge_take].
  - intros H; injection H as <- <-. split; [constructor|]. split; [intros c []|]. split; [exact (fun x H => H)|intros c []].
  - inversion Hs as [|? ? Hst Hall]; subst.
    destruct (skip_covered le c) eqn:Esk.
    + intros H. destruct (IH _ _ _ Hst H) as [H1 [H2 [H3 H4]]]. split; [exact H1|]. split; [|split; [exact H3|]].
      * intros x Hx. destruct (H2 x Hx) as [Ha Hb]. split; [right; exact Ha|exact Hb].
      * intros x [<-|Hx]; [right; left; exact Esk|]. destruct (H4 x Hx) as [Ha|[Ha|Ha]]; auto.
    + destruct (lex_leb (r_start u) (r_start c)) eqn:Ele.
      * intros H; injection H as <- <-. split; [exact Hs|]. split; [|split; [exact (fun x H => H)|]].
        -- intros x [<-|Hx]; [split; [left; reflexivity|exact Ele]|]. split; [right; exact Hx|].
           rewrite Forall_forall in Hall. eapply leb_trans; [exact Ele|apply Hall; exact Hx].
        -- intros x Hx. right; right; exact Hx.
      * intros H. destruct (IH _ _ _ Hst H) as [H1 [H2 [H3 H4]]]. split; [exact H1|]. split; [|split].
        -- intros x Hx. destruct (H2 x Hx) as [Ha Hb]. split; [right; exact Ha|exact Hb].
        -- intros x Hx. apply H3. apply in_or_app. left; exact Hx.
        -- intros x [<-|Hx]; [left; apply H3; apply in_or_app; right; left; reflexivity|].
           destruct (H4 x Hx) as [Ha|[Ha|Ha]]; auto.
Qed.

(* invariant of the merger, relative to the list of cached regions it started with *)
Definition chain_inv (le : option bytes) (cs out : list region) : Prop :=
  match le with
  | None => True
  | Some l => exists a, (forall k, lex_leb a k = true -> lex_ltb k l = true -> covered out k) /\
                        (forall c, In c cs -> lex_leb a (r_start c) = true)
  end.
Definition minv (cs0 : list region) (m : mstate) : Prop :=
  let '(le, cs, out) := m in
  sorted_le cs /\
  (forall c k, In c cs0 -> r_contains c k = true -> covered out k \/ exists c', In c' cs /\ r_contains c' k = true) /\
  chain_inv le cs out.

Lemma skip_covered_covered le cs out c k :
  chain_inv le cs out -> In c cs -> skip_covered le c = true -> r_contains c k = true -> covered out k.
Proof.
  unfold chain_inv, skip_covered. destruct le as [l|]; [|discriminate].
  intros [a [Hcov Hpend]] Hin Hsk Hk. apply andb_true_iff in Hsk. destruct Hsk as [Hne Hle].
  apply negb_true_iff, is_nil_false in Hne. apply r_contains_spec in Hk. destruct Hk as [H1 [H2|H2]]; [congruence|].
  apply Hcov.
  - eapply leb_trans; [apply Hpend; exact Hin|exact H1].
  - eapply ltb_leb_trans; [exact H2|exact Hle].
Qed.

Lemma append_region_inv cs0 m u :
  minv cs0 m ->
  minv cs0 (append_region m u) /\
  (forall x, In x (snd m) -> In x (snd (append_region m u))) /\ In u (snd (append_region m u)).
Proof.
  destruct m as [[le cs] out]. cbn [snd]. intros [Hs [Hcs0 Hch]]. unfold append_region.
  (* the inner step *)
  assert (HA : exists cs1 out1,
    (if is_nil (r_start u) then (cs, out ++ [u])
     else if match le with Some l => lex_leb (r_start u) l | None => false end then (cs, out ++ [u])
     else let '(cs', out') := merge_take le u cs out in (cs', out' ++ [u])) = (cs1, out1) /\
    sorted_le cs1 /\ (forall x, In x out -> In x out1) /\ In u out1 /\
    (forall c, In c cs -> In c out1 \/ skip_covered le c = true \/ In c cs1) /\
    (exists a, (forall k, lex_leb a k = true -> (r_end u = [] \/ lex_ltb k (r_end u) = true) -> covered out1 k) /\
               (forall c, In c cs1 -> lex_leb a (r_start c) = true))).
  { destruct (is_nil (r_start u)) eqn:En.
    - apply is_nil_true in En. exists cs, (out ++ [u]). split; [reflexivity|]. split; [exact Hs|].
      split; [intros x Hx; apply in_or_app; left; exact Hx|]. split; [apply in_or_app; right; left; reflexivity|].
      split; [intros c Hc; right; right; exact Hc|]. exists []. split; [|intros c _; apply leb_nil_l].
      intros k _ Hk. exists u. split; [apply in_or_app; right; left; reflexivity|]. apply r_contains_spec. split; [rewrite En; apply leb_nil_l|exact Hk].
    - destruct le as [l|].
      + destruct (lex_leb (r_start u) l) eqn:El.
        * exists cs, (out ++ [u]). split; [reflexivity|]. split; [exact Hs|].
          split; [intros x Hx; apply in_or_app; left; exact Hx|]. split; [apply in_or_app; right; left; reflexivity|].
          split; [intros c Hc; right; right; exact Hc|]. destruct Hch as [a [Hcov Hpend]]. exists a. split; [|exact Hpend].
          intros k Ha Hk. destruct (lex_ltb k l) eqn:Ekl; [apply covered_app_l; apply Hcov; assumption|].
          apply ltb_false_leb in Ekl. exists u. split; [apply in_or_app; right; left; reflexivity|].
          apply r_contains_spec. split; [eapply leb_trans; eassumption|exact Hk].
        * destruct (merge_take (Some l) u cs out) as [cs' out'] eqn:Em.
          destruct (merge_take_spec _ _ _ _ _ _ Hs Em) as [H1 [H2 [H3 H4]]].
          exists cs', (out' ++ [u]). split; [reflexivity|]. split; [exact H1|].
          split; [intros x Hx; apply in_or_app; left; apply H3; exact Hx|]. split; [apply in_or_app; right; left; reflexivity|].
          split. { intros c Hc. destruct (H4 c Hc) as [Ha|[Ha|Ha]]; [left; apply in_or_app; left; exact Ha|right; left; exact Ha|right; right; exact Ha]. }
          exists (r_start u). split; [|intros c Hc; apply H2; exact Hc].
          intros k Ha Hk. exists u. split; [apply in_or_app; right; left; reflexivity|]. apply r_contains_spec. split; assumption.
      + destruct (merge_take None u cs out) as [cs' out'] eqn:Em.
        destruct (merge_take_spec _ _ _ _ _ _ Hs Em) as [H1 [H2 [H3 H4]]].
        exists cs', (out' ++ [u]). split; [reflexivity|]. split; [exact H1|].
        split; [intros x Hx; apply in_or_app; left; apply H3; exact Hx|]. split; [apply in_or_app; right; left; reflexivity|].
        split. { intros c Hc. destruct (H4 c Hc) as [Ha|[Ha|Ha]]; [left; apply in_or_app; left; exact Ha|right; left; exact Ha|right; right; exact Ha]. }
        exists (r_start u). split; [|intros c Hc; apply H2; exact Hc].
        intros k Ha Hk. exists u. split; [apply in_or_app; right; left; reflexivity|]. apply r_contains_spec. split; assumption. }
  destruct HA as [cs1 [out1 [-> [HA1 [HA2 [HA3 [HA4 [a [HA5 HA6]]]]]]]]].
  (* every key of an originally cached region is still accounted for *)
  assert (Hacc : forall c k, In c cs0 -> r_contains c k = true ->
            covered out1 k \/ (exists c', In c' cs1 /\ r_contains c' k = true)).
  { intros c k Hc Hk. destruct (Hcs0 c k Hc Hk) as [Hcov|[c' [Hc' Hk']]]; [left; eapply covered_mono; eassumption|].
    destruct (HA4 c' Hc') as [Hin|[Hsk|Hin]].
    - left. exists c'. split; assumption.
    - left. eapply covered_mono; [exact HA2|]. eapply skip_covered_covered; eassumption.
    - right. exists c'. split; assumption. }
  destruct (is_nil (r_end u)) eqn:Ee.
  - apply is_nil_true in Ee. cbn [snd]. split; [|split; assumption].
    split; [constructor|]. split.
    + intros c k Hc Hk. destruct (Hacc c k Hc Hk) as [Hcov|[c' [Hc' Hk']]]; [left; exact Hcov|]. left.
      apply HA5; [|left; exact Ee]. apply r_contains_spec in Hk'. destruct Hk' as [Hk' _].
      eapply leb_trans; [apply HA6; exact Hc'|exact Hk'].
    + unfold chain_inv. destruct le as [l|]; [|exact I]. destruct Hch as [a0 [Hcov _]]. exists a0. split; [|intros c []].
      intros k H1 H2. eapply covered_mono; [exact HA2|]. apply Hcov; assumption.
  - cbn [snd]. split; [|split; assumption]. split; [exact HA1|]. split; [exact Hacc|].
    unfold chain_inv. exists a. split; [|exact HA6]. intros k H1 H2. apply HA5; [exact H1|right; exact H2].
Qed.

Lemma fold_append_inv cs0 : forall us m,
  minv cs0 m ->
  minv cs0 (fold_left append_region us m) /\
  (forall x, In x (snd m) \/ In x us -> In x (snd (fold_left append_region us m))).
Proof.
  induction us as [|u us IH]; intros m Hm; cbn [fold_left].
  - split; [exact Hm|]. intros x [H|[]]; exact H.
  - destruct (append_region_inv cs0 m u Hm) as [H1 [H2 H3]]. destruct (IH _ H1) as [H4 H5]. split; [exact H4|].
    intros x [Hx|[<-|Hx]]; apply H5; [left; apply H2; exact Hx|left; exact H3|right; exact Hx].
Qed.

Lemma merger_build_covers cs0 m k :
  minv cs0 m -> (covered (snd m) k \/ exists c, In c cs0 /\ r_contains c k = true) -> covered (merger_build m) k.
Proof.
  destruct m as [[le cs] out]. cbn [snd]. intros [Hs [Hcs0 Hch]] H. unfold merger_build.
  assert (Hc : covered out k \/ exists c', In c' cs /\ r_contains c' k = true).
  { destruct H as [H|[c [Hc Hk]]]; [left; exact H|]. eapply Hcs0; eassumption. }
  destruct Hc as [Hc|[c' [Hc' Hk']]]; [apply covered_app_l; exact Hc|].
  destruct (skip_covered le c') eqn:Esk.
  - apply covered_app_l. eapply skip_covered_covered; eassumption.
  - exists c'. split; [|exact Hk']. apply in_or_app. right. apply filter_In. split; [exact Hc'|]. rewrite Esk. reflexivity.
Qed.

(* the merger never loses a key *)
Lemma merge_all_covers cs us k :
  sorted_le cs ->
  (exists c, In c cs /\ r_contains c k = true) \/ (exists u, In u us /\ r_contains u k = true) ->
  covered (merge_all cs us) k.
Proof.
  intros Hs H. unfold merge_all.
  assert (H0 : minv cs (None, cs, [])).
  { split; [exact Hs|]. split; [|exact I]. intros c k' Hc Hk. right. exists c. split; assumption. }
  destruct (fold_append_inv cs us _ H0) as [H1 H2].
  apply (merger_build_covers cs); [exact H1|].
  destruct H as [H|[u [Hu Hk]]]; [right; exact H|]. left. exists u. split; [apply H2; right; exact Hu|exact Hk].
Qed.

(* the behaviour before the repair (commit cd8391e): the skip test without the "end key is not empty" guard
   loses a cached last region with an unbounded end — kept as a regression witness *)
Definition skip_covered_old (le : option bytes) (c : region) : bool :=
  match le with Some l => lex_leb (r_end c) l | None => false end.
