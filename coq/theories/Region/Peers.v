(* Region/Peers.v — newRegion: which peers of PD's answer become usable, how the access-index lists for TiKV and
   TiFlash are built and which TiKV peer the region starts with (workTiKVIdx). Model and proofs.
   A peer is dropped when its store is a tombstone (no address), when PD lists it as down, or when it is a witness
   that is not the leader PD reports. The start peer is PD's leader if it was kept, else the first kept TiKV peer. *)
From Verif Require Import Base.Lex Region.Model Region.Ord.
Open Scope N_scope.

Record pinfo := mkPinfo {
  p_peer : peer;        (* peer id, store id *)
  p_witness : bool; p_learner : bool;
  p_kind : N;           (* engine of the store: 0 TiKV, 1 TiFlash, 2 anything else (tiflash_compute) *)
  p_tomb : bool }.      (* the store is a tombstone / unknown to PD: initResolve returns no address *)

Definition is_down (down : list peer) (p : pinfo) : bool := existsb (fun d => peer_eqb d (p_peer p)) down.
Definition kept (leader : peer) (down : list peer) (p : pinfo) : bool :=
  negb (p_tomb p) && negb (is_down down p) && (negb (p_witness p) || peer_eqb (p_peer p) leader).

(* the loop of newRegion: (stores so far, tikv access list, tiflash access list, leaderAccessIdx) *)
Fixpoint nr_loop (leader : peer) (down : list peer) (ps : list pinfo) (avail : list pinfo) (tikv tiflash : list nat) (lidx : nat)
  : list pinfo * list nat * list nat * nat :=
  match ps with
  | [] => (avail, tikv, tiflash, lidx)
  | p :: t =>
      if kept leader down p then
        let lidx' := if peer_eqb (p_peer p) leader then length tikv else lidx in
        let n := length avail in
        nr_loop leader down t (avail ++ [p])
                (if p_kind p =? 0 then tikv ++ [n] else tikv) (if p_kind p =? 1 then tiflash ++ [n] else tiflash) lidx'
      else nr_loop leader down t avail tikv tiflash lidx
  end.
Definition new_region_peers (leader : peer) (down : list peer) (ps : list pinfo) : option (list pinfo * list nat * list nat * nat) :=
  let '(avail, tikv, tiflash, lidx) := nr_loop leader down ps [] [] [] 0%nat in
  match avail with [] => None | _ => Some (avail, tikv, tiflash, lidx) end.
(* the TiKV peer a leader read goes to first (WorkStorePeer): accessIndex[tiKVOnly][workTiKVIdx] *)
Definition work_peer (r : list pinfo * list nat * list nat * nat) : option pinfo :=
  let '(avail, tikv, _, lidx) := r in
  match nth_error tikv lidx with Some i => nth_error avail i | None => None end.

(* ---- proofs ---- *)
Lemma nr_loop_avail leader down : forall ps avail tikv tiflash lidx,
  fst (fst (fst (nr_loop leader down ps avail tikv tiflash lidx))) = avail ++ filter (kept leader down) ps.
Proof.
  induction ps as [|p t IH]; intros avail tikv tiflash lidx; cbn [nr_loop filter]; [rewrite app_nil_r; reflexivity|].
  destruct (kept leader down p); [rewrite IH, <- app_assoc; reflexivity|apply IH].
Qed.
(* every kept peer is usable: its store has an address, PD does not list it as down, and a witness is kept only as leader *)
Lemma kept_spec leader down p : kept leader down p = true ->
  p_tomb p = false /\ is_down down p = false /\ (p_witness p = true -> p_peer p = leader).
Proof.
  unfold kept. intros H. apply andb_true_iff in H. destruct H as [H H3]. apply andb_true_iff in H. destruct H as [H1 H2].
  apply negb_true_iff in H1. apply negb_true_iff in H2. split; [exact H1|]. split; [exact H2|].
  intros Hw. rewrite Hw in H3. cbn in H3. apply peer_eqb_eq. exact H3.
Qed.

(* invariant of the loop: the tikv list holds exactly the positions of the TiKV peers kept so far, in order; if the
   leader was kept and is a TiKV peer, lidx is its position in that list *)
Definition tikv_ok (avail : list pinfo) (tikv : list nat) : Prop :=
  forall j i, nth_error tikv j = Some i -> exists p, nth_error avail i = Some p /\ p_kind p = 0.
Lemma nr_loop_tikv leader down : forall ps avail tikv tiflash lidx,
  tikv_ok avail tikv ->
  let '(avail', tikv', _, _) := nr_loop leader down ps avail tikv tiflash lidx in tikv_ok avail' tikv'.
Proof.
  induction ps as [|p t IH]; intros avail tikv tiflash lidx Hok; cbn [nr_loop]; [exact Hok|].
  destruct (kept leader down p); [|apply IH; exact Hok]. apply IH.
  intros j i Hj. destruct (p_kind p =? 0) eqn:Ek.
  - destruct (Nat.lt_ge_cases j (length tikv)) as [Hlt|Hge].
    + rewrite nth_error_app1 in Hj by exact Hlt. destruct (Hok j i Hj) as [q [Hq Hk]]. exists q. split; [|exact Hk].
      rewrite nth_error_app1; [exact Hq|]. apply nth_error_Some. congruence.
    + rewrite nth_error_app2 in Hj by exact Hge. destruct (j - length tikv)%nat as [|m] eqn:Em; [|destruct m; discriminate Hj].
      cbn in Hj. injection Hj as <-. exists p. split; [|apply N.eqb_eq; exact Ek].
      rewrite nth_error_app2 by lia. rewrite Nat.sub_diag. reflexivity.
  - destruct (Hok j i Hj) as [q [Hq Hk]]. exists q. split; [|exact Hk]. rewrite nth_error_app1; [exact Hq|]. apply nth_error_Some. congruence.
Qed.
(* if the leader PD reports is among the peers (identities distinct), usable and on a TiKV store, the region starts with it *)
Lemma nr_loop_leader leader down p : forall ps avail tikv tiflash lidx,
  NoDup (map p_peer ps) ->
  ((In p ps /\ kept leader down p = true /\ p_kind p = 0 /\ p_peer p = leader) \/
   ((exists i, nth_error tikv lidx = Some i /\ nth_error avail i = Some p) /\ forall q, In q ps -> p_peer q <> leader)) ->
  work_peer (nr_loop leader down ps avail tikv tiflash lidx) = Some p.
Proof.
  induction ps as [|p0 t IH]; intros avail tikv tiflash lidx Hnd Hst; cbn [nr_loop].
  - destruct Hst as [[[] _]|[[i [H1 H2]] _]]. cbn [work_peer]. rewrite H1. exact H2.
  - cbn [map] in Hnd. inversion Hnd as [|? ? Hni Hnd']; subst.
    destruct Hst as [[Hin [Hk [Hkind Hl]]]|[[i [H1 H2]] Hno]].
    + destruct (peer_eqb (p_peer p0) leader) eqn:El.
      * apply peer_eqb_eq in El. assert (p0 = p).
        { destruct Hin as [H|H]; [exact H|]. exfalso. apply Hni. rewrite El, <- Hl. apply in_map. exact H. }
        subst p0. rewrite Hk. apply IH; [exact Hnd'|]. right. rewrite (proj2 (N.eqb_eq _ _) Hkind). split.
        -- exists (length avail). split; rewrite nth_error_app2 by lia; rewrite Nat.sub_diag; reflexivity.
        -- intros q Hq Hql. apply Hni. rewrite Hl, <- Hql. apply in_map. exact Hq.
      * destruct Hin as [->|Hin]; [rewrite Hl, (proj2 (peer_eqb_eq _ _) eq_refl) in El; discriminate|].
        destruct (kept leader down p0); apply IH; try exact Hnd'; left; repeat split; assumption.
    + assert (El : peer_eqb (p_peer p0) leader = false).
      { destruct (peer_eqb (p_peer p0) leader) eqn:E; [|reflexivity]. apply peer_eqb_eq in E. exfalso. apply (Hno p0); [left; reflexivity|exact E]. }
      rewrite El. destruct (kept leader down p0); apply IH; try exact Hnd'; right.
      * split; [|intros q Hq; apply Hno; right; exact Hq]. exists i. split.
        -- destruct (p_kind p0 =? 0); [rewrite nth_error_app1; [exact H1|apply nth_error_Some; congruence]|exact H1].
        -- rewrite nth_error_app1; [exact H2|apply nth_error_Some; congruence].
      * split; [exists i; split; assumption|intros q Hq; apply Hno; right; exact Hq].
Qed.

Lemma new_region_peers_leader leader down ps p :
  NoDup (map p_peer ps) -> In p ps -> p_peer p = leader -> kept leader down p = true -> p_kind p = 0 ->
  exists r, new_region_peers leader down ps = Some r /\ work_peer r = Some p.
Proof.
  intros Hnd Hin Hl Hk Hkind. unfold new_region_peers.
  pose proof (nr_loop_leader leader down p ps [] [] [] 0%nat Hnd (or_introl (conj Hin (conj Hk (conj Hkind Hl))))) as Hw.
  pose proof (nr_loop_avail leader down ps [] [] [] 0%nat) as Ha.
  destruct (nr_loop leader down ps [] [] [] 0%nat) as [[[avail tikv] tiflash] lidx] eqn:E. cbn [fst app] in Ha.
  destruct avail as [|a av]; [|eexists; split; [reflexivity|exact Hw]].
  exfalso. assert (Hf : In p (filter (kept leader down) ps)) by (apply filter_In; split; assumption). rewrite <- Ha in Hf. destruct Hf.
Qed.

(* whatever PD reports: the peer a leader read starts with is a kept TiKV peer — on a store with an address, not
   listed as down, and a witness only if it is the very leader PD reports *)
Lemma work_peer_usable leader down ps r q :
  new_region_peers leader down ps = Some r -> work_peer r = Some q ->
  In q ps /\ p_kind q = 0 /\ p_tomb q = false /\ is_down down q = false /\ (p_witness q = true -> p_peer q = leader).
Proof.
  unfold new_region_peers. pose proof (nr_loop_avail leader down ps [] [] [] 0%nat) as Ha.
  pose proof (nr_loop_tikv leader down ps [] [] [] 0%nat ltac:(intros j i H; destruct j; discriminate H)) as Ht.
  destruct (nr_loop leader down ps [] [] [] 0%nat) as [[[avail tikv] tiflash] lidx]. cbn [fst app] in Ha.
  destruct avail as [|a av] eqn:Eav; [discriminate|]. rewrite <- Eav in *. intros H; injection H as <-. cbn [work_peer].
  destruct (nth_error tikv lidx) as [i|] eqn:Ei; [|discriminate]. intros Hq.
  destruct (Ht lidx i Ei) as [q' [Hq' Hk]]. rewrite Hq in Hq'. injection Hq' as <-.
  assert (Hin : In q (filter (kept leader down) ps)) by (rewrite <- Ha; eapply nth_error_In; exact Hq).
  apply filter_In in Hin. destruct Hin as [Hin Hkept]. destruct (kept_spec leader down q Hkept) as [A [B C]].
  split; [exact Hin|]. split; [exact Hk|]. split; [exact A|]. split; [exact B|exact C].
Qed.
(* all usable peers, in PD's order *)
Lemma new_region_peers_avail leader down ps r : new_region_peers leader down ps = Some r ->
  fst (fst (fst r)) = filter (kept leader down) ps.
Proof.
  unfold new_region_peers. pose proof (nr_loop_avail leader down ps [] [] [] 0%nat) as Ha.
  destruct (nr_loop leader down ps [] [] [] 0%nat) as [[[avail tikv] tiflash] lidx]. cbn [fst app] in Ha.
  destruct avail; [discriminate|]. intros H; injection H as <-. exact Ha.
Qed.
