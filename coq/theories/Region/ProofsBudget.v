(* Region/ProofsBudget.v — the retry loops around PD (loadRegion, scanRegions, batchScanRegions) are bounded by the
   back-off budget and then surface an error: whatever PD answers (nothing, gaps, leaderless regions, stale data), a
   lookup consults PD at most [budget] times and, with the budget used up, returns an error with the cache untouched. *)
From Verif Require Import Base.Lex Region.Model Region.Ord.
Open Scope N_scope.

Section PD.
Variable pd : nat -> pd_req -> pd_ans.
Variable budget : nat.

Lemma call_budget t q a : call pd budget t q = Some a -> (t < budget)%nat.
Proof. unfold call. destruct (Nat.ltb t budget) eqn:E; [intros _; apply Nat.ltb_lt; exact E|discriminate]. Qed.

Lemma load_region_bounded : forall fuel t key is_end prev r t',
  load_region pd budget fuel t key is_end prev = (r, t') -> (t <= t' <= Nat.max t budget)%nat.
Proof.
  induction fuel as [|f IH]; intros t key is_end prev r t'; cbn [load_region]; [intros H; injection H as _ <-; lia|].
  destruct (call pd budget t (if prev then ReqPrev key else ReqGet key)) as [a|] eqn:Ec; [|intros H; injection H as _ <-; lia].
  apply call_budget in Ec. destruct a as [[d|]|l].
  - destruct (is_nil (d_peers d)); [intros H; injection H as _ <-; lia|].
    destruct (is_end && negb prev && bytes_eqb (d_start d) key && negb (is_nil (d_start d))); [|intros H; injection H as _ <-; lia].
    intros H. apply IH in H. lia.
  - intros H. apply IH in H. lia.
  - intros H; injection H as _ <-; lia.
Qed.
Lemma scan_loop_bounded : forall fuel t q rs limit nl r t',
  scan_loop pd budget fuel t q rs limit nl = (r, t') -> (t <= t' <= Nat.max t budget)%nat.
Proof.
  induction fuel as [|f IH]; intros t q rs limit nl r t'; cbn [scan_loop]; [intros H; injection H as _ <-; lia|].
  destruct (call pd budget t q) as [a|] eqn:Ec; [|intros H; injection H as _ <-; lia].
  apply call_budget in Ec. destruct a as [d|infos]; [intros H; injection H as _ <-; lia|].
  destruct (is_nil infos); [intros H; apply IH in H; lia|].
  destruct (regions_have_gap rs infos limit); [intros H; apply IH in H; lia|].
  destruct (handle_infos infos nl) as [[|r0 rs']|e]; [intros H; apply IH in H; lia|intros H; injection H as _ <-; lia|intros H; injection H as _ <-; lia].
Qed.

(* loadLastRegion *)
Lemma load_last_bounded : forall fuel t start r t',
  load_last pd budget fuel t start = (r, t') -> (t <= t' <= Nat.max t budget)%nat.
Proof.
  induction fuel as [|f IH]; intros t start r t'; cbn [load_last]; [intros H; injection H as _ <-; lia|].
  destruct (scan_loop pd budget (S f) t (ReqScan start [] 128) [(start, [])] 128 true) as [[regs|e] t1] eqn:Es; apply scan_loop_bounded in Es;
    [|intros H; injection H as _ <-; lia].
  destruct (rev regs) as [|lastr x]; [intros H; injection H as _ <-; lia|].
  destruct (is_nil (r_end lastr)); [intros H; injection H as _ <-; lia|]. intros H. apply IH in H. lia.
Qed.
Lemma load_for_bounded c fuel t key is_end r t' :
  load_for pd budget c fuel t key is_end = (r, t') -> (t <= t' <= Nat.max t budget)%nat.
Proof. unfold load_for. destruct (is_end && is_nil key); [apply load_last_bounded|apply load_region_bounded]. Qed.

(* LocateKey / LocateEndKey *)
Lemma find_region_by_key_bounded fuel t c key is_end r c' t' :
  find_region_by_key pd budget fuel t c key is_end = (r, c', t') -> (t <= t' <= Nat.max t budget)%nat.
Proof.
  unfold find_region_by_key.
  assert (Hmiss : match load_for pd budget c fuel t key is_end with
    | (Err e, t1) => (Err e, c, t1)
    | (Ok lr, t1) =>
        let '(ok, c1) := insert_new c lr in
        if ok then (Ok (as_stored c lr), c1, t1)
        else match load_for pd budget c1 fuel t1 key is_end with
             | (Err e, t2) => (Err e, c1, t2)
             | (Ok lr2, t2) => (Ok (as_stored c1 lr2), snd (insert_new c1 lr2), t2)
             end
    end = (r, c', t') -> (t <= t' <= Nat.max t budget)%nat).
  { destruct (load_for pd budget c fuel t key is_end) as [[lr|e] t1] eqn:E1; apply load_for_bounded in E1.
    - destruct (insert_new c lr) as [ok c1]. destruct ok; [intros H; injection H as _ _ <-; lia|].
      destruct (load_for pd budget c1 fuel t1 key is_end) as [[lr2|e] t2] eqn:E2; apply load_for_bounded in E2; intros H; injection H as _ _ <-; lia.
    - intros H; injection H as _ _ <-; lia. }
  destruct (search (c_sorted c) key is_end) as [x|]; [|exact Hmiss].
  destruct (r_expired x); [exact Hmiss|]. destruct (flagged x).
  - destruct (load_for pd budget c fuel t key is_end) as [[lr|e] t1] eqn:E1; apply load_for_bounded in E1; intros H; injection H as _ _ <-; lia.
  - intros H; injection H as _ _ <-; lia.
Qed.
(* with the budget used up a cache miss is an error, and nothing is changed *)
Lemma find_region_by_key_exhausted fuel t c key is_end : (budget <= t)%nat -> (0 < fuel)%nat ->
  search (c_sorted c) key is_end = None -> find_region_by_key pd budget fuel t c key is_end = (Err 1, c, t).
Proof.
  intros Hb Hf Hs. unfold find_region_by_key. rewrite Hs. destruct fuel as [|f]; [lia|].
  assert (Hc : forall q, call pd budget t q = None).
  { intros q. unfold call. replace (Nat.ltb t budget) with false by (symmetry; apply Nat.ltb_ge; exact Hb). reflexivity. }
  unfold load_for. destruct (is_end && is_nil key).
  - cbn [load_last scan_loop]. rewrite Hc. reflexivity.
  - cbn [load_region]. rewrite Hc. reflexivity.
Qed.
End PD.
