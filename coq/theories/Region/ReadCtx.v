(* Region/ReadCtx.v — GetTiKVRPCContext for replica reads: the peer selection of regionStore.follower (follower read)
   and regionStore.kvPeer (mixed / prefer-leader read, option leaderOnly) on top of the leader-read path of Model.rpc_ctx.
   Stores carry no labels and none is slow in the modelled setting (filterStoreCandidate = preferLeader -> is the work peer).
   The seed is a uint32: [seed++] wraps. *)
From Verif Require Import Base.Lex Region.Model Region.Ord Region.Converge Region.ProofsInsert Region.ProofsConvA Region.ProofsConvB Region.ProofsConvC Region.ProofsReach.
Open Scope N_scope.

Inductive read_kind := RkLeader | RkFollower | RkMixed | RkPreferLeader.

(* nobody failed on the store of peer i since the entry recorded its epoch *)
Definition epoch_fresh (c : cache) (r : region) (i : nat) : bool :=
  store_epoch (c_sepochs c) (snd (nth i (r_peers r) (0, 0))) =? nth i (r_sepochs r) 0.
Definition u32 : N := 4294967296.

(* regionStore.follower: up to l-1 tries, seed, seed+1, ... (mod 2^32), index seed % (l-1) skipping the work peer *)
Definition follower_idx (work : nat) (seed : N) (l : nat) : nat :=
  let f0 := N.to_nat (seed mod N.of_nat (l - 1)) in if Nat.leb work f0 then S f0 else f0.
Fixpoint follower_loop (c : cache) (r : region) (retry : nat) (seed : N) (l : nat) : nat :=
  match retry with
  | O => r_work r
  | S n => let f := follower_idx (r_work r) seed l in
           if epoch_fresh c r f then f else follower_loop c r n ((seed + 1) mod u32) l
  end.
Definition follower (c : cache) (r : region) (seed : N) : nat :=
  let l := length (r_peers r) in if Nat.leb l 1 then r_work r else follower_loop c r (l - 1) seed l.

(* regionStore.kvPeer *)
Definition kv_candidates (c : cache) (r : region) (prefer : bool) : list nat :=
  filter (fun i => epoch_fresh c r i && (negb prefer || Nat.eqb i (r_work r))) (seq 0 (length (r_peers r))).
Definition kv_peer (c : cache) (r : region) (seed : N) (leader_only prefer : bool) : nat :=
  if leader_only then r_work r else
  match kv_candidates c r prefer with
  | [] => r_work r
  | cands => nth (N.to_nat (seed mod N.of_nat (length cands))) cands (r_work r)
  end.

Definition pick_idx (c : cache) (r : region) (kind : read_kind) (seed : N) (leader_only : bool) : nat :=
  match kind with
  | RkLeader => r_work r
  | RkFollower => follower c r seed
  | RkMixed => kv_peer c r seed leader_only false
  | RkPreferLeader => kv_peer c r seed leader_only true
  end.

(* GetTiKVRPCContext(id, replicaRead, followerStoreSeed, opts): (entry, peer, access index) *)
Definition rpc_ctx_read (c : cache) (v : verid) (kind : read_kind) (seed : N) (leader_only : bool) : option (region * peer * nat) * cache :=
  match get_by_verid c v with
  | Some r =>
      if r_reload r || r_expired r then (None, c)
      else let i := pick_idx c r kind seed leader_only in
           let p := nth i (r_peers r) (0, 0) in
           if existsb (N.eqb (snd p)) (c_tomb c) then (None, upd_entry c r (invalidate_r 4))
           else if epoch_fresh c r i then (Some (r, p, i), c)
           else (None, upd_entry c r (invalidate_r 5))
  | None => (None, c)
  end.

(* ---- the leader read is Model.rpc_ctx ---- *)
Lemma rpc_ctx_read_leader c v seed lo :
  rpc_ctx_read c v RkLeader seed lo =
  (match fst (rpc_ctx c v) with Some (r, p) => Some (r, p, r_work r) | None => None end, snd (rpc_ctx c v)).
Proof.
  unfold rpc_ctx_read, rpc_ctx, pick_idx, epoch_fresh. destruct (get_by_verid c v) as [r|]; [|reflexivity].
  destruct (r_reload r || r_expired r); [reflexivity|]. cbv zeta.
  destruct (existsb (N.eqb (snd (nth (r_work r) (r_peers r) (0, 0)))) (c_tomb c)); [reflexivity|].
  destruct (store_epoch (c_sepochs c) (snd (nth (r_work r) (r_peers r) (0, 0))) =? nth (r_work r) (r_sepochs r) 0); reflexivity.
Qed.

(* ---- the chosen index is inside the peer list ---- *)
Lemma follower_idx_lt work seed l : (1 < l)%nat -> (follower_idx work seed l < l)%nat.
Proof.
  intros Hl. unfold follower_idx.
  assert (Hm : (N.to_nat (seed mod N.of_nat (l - 1)) < l - 1)%nat).
  { assert (Hpos : N.of_nat (l - 1) <> 0) by lia. pose proof (N.mod_upper_bound seed (N.of_nat (l - 1)) Hpos). lia. }
  destruct (Nat.leb work (N.to_nat (seed mod N.of_nat (l - 1)))); lia.
Qed.
Lemma follower_loop_lt c r l : (1 < l)%nat -> (r_work r < l)%nat -> forall retry seed, (follower_loop c r retry seed l < l)%nat.
Proof.
  intros Hl Hw. induction retry as [|n IH]; intros seed; cbn [follower_loop]; [exact Hw|].
  destruct (epoch_fresh c r (follower_idx (r_work r) seed l)); [apply follower_idx_lt; exact Hl|apply IH].
Qed.
Lemma kv_candidates_lt c r prefer i : In i (kv_candidates c r prefer) -> (i < length (r_peers r))%nat /\ epoch_fresh c r i = true.
Proof.
  unfold kv_candidates. intros Hi. apply filter_In in Hi. destruct Hi as [A B]. apply in_seq in A. apply andb_true_iff in B. split; [lia|apply B].
Qed.
Lemma pick_idx_lt c r kind seed lo : (r_work r < length (r_peers r))%nat -> (pick_idx c r kind seed lo < length (r_peers r))%nat.
Proof.
  intros Hw. destruct kind; cbn [pick_idx]; try exact Hw.
  - unfold follower. destruct (Nat.leb (length (r_peers r)) 1) eqn:E; [exact Hw|]. apply Nat.leb_gt in E. apply follower_loop_lt; assumption.
  - unfold kv_peer. destruct lo; [exact Hw|]. destruct (kv_candidates c r false) as [|a t] eqn:E; [exact Hw|].
    assert (Hin : In (nth (N.to_nat (seed mod N.of_nat (length (a :: t)))) (a :: t) (r_work r)) (a :: t)).
    { apply nth_In. assert (Hpos : N.of_nat (length (a :: t)) <> 0) by (cbn [length]; lia).
      pose proof (N.mod_upper_bound seed _ Hpos). lia. }
    assert (Hin2 : In (nth (N.to_nat (seed mod N.of_nat (length (a :: t)))) (a :: t) (r_work r)) (kv_candidates c r false)) by (rewrite E; exact Hin).
    apply kv_candidates_lt in Hin2. apply Hin2.
  - unfold kv_peer. destruct lo; [exact Hw|]. destruct (kv_candidates c r true) as [|a t] eqn:E; [exact Hw|].
    assert (Hin : In (nth (N.to_nat (seed mod N.of_nat (length (a :: t)))) (a :: t) (r_work r)) (a :: t)).
    { apply nth_In. assert (Hpos : N.of_nat (length (a :: t)) <> 0) by (cbn [length]; lia).
      pose proof (N.mod_upper_bound seed _ Hpos). lia. }
    assert (Hin2 : In (nth (N.to_nat (seed mod N.of_nat (length (a :: t)))) (a :: t) (r_work r)) (kv_candidates c r true)) by (rewrite E; exact Hin).
    apply kv_candidates_lt in Hin2. apply Hin2.
Qed.

(* what a returned context is: the cached entry of that version, one of its peers, on a store that is not known to be
   removed and on which nobody failed since the entry was made; the cache is unchanged *)
Lemma rpc_ctx_read_sound c v kind seed lo r p i c' :
  (forall x, In x (c_sorted c) -> (r_work x < length (r_peers x))%nat) ->
  rpc_ctx_read c v kind seed lo = (Some (r, p, i), c') ->
  c' = c /\ In r (c_sorted c) /\ r_verid r = v /\ r_expired r = false /\ (i < length (r_peers r))%nat /\ p = nth i (r_peers r) (0, 0) /\ In p (r_peers r) /\
  epoch_fresh c r i = true /\ existsb (N.eqb (snd p)) (c_tomb c) = false.
Proof.
  intros Hok. unfold rpc_ctx_read. destruct (get_by_verid c v) as [x|] eqn:Eg; [|discriminate].
  destruct (get_by_verid_some c v x Eg) as [Hx Hv].
  destruct (r_reload x || r_expired x) eqn:Ef; [discriminate|]. cbv zeta.
  destruct (existsb (N.eqb (snd (nth (pick_idx c x kind seed lo) (r_peers x) (0, 0)))) (c_tomb c)) eqn:Et; [discriminate|].
  destruct (epoch_fresh c x (pick_idx c x kind seed lo)) eqn:Ee; [|discriminate].
  intros E; injection E as <- <- <- <-. apply orb_false_iff in Ef. destruct Ef as [_ Ef].
  pose proof (pick_idx_lt c x kind seed lo (Hok x Hx)) as Hlt.
  repeat split; try assumption; try reflexivity. apply nth_In. exact Hlt.
Qed.

(* prefer-leader read: the work peer as long as nobody failed on its store *)
Lemma prefer_leader_work c r seed : epoch_fresh c r (r_work r) = true -> (r_work r < length (r_peers r))%nat ->
  pick_idx c r RkPreferLeader seed false = r_work r.
Proof.
  intros He Hw. cbn [pick_idx]. unfold kv_peer.
  destruct (kv_candidates c r true) as [|a t] eqn:E; [reflexivity|].
  assert (Hall : forall i, In i (a :: t) -> i = r_work r).
  { intros i Hi. rewrite <- E in Hi. unfold kv_candidates in Hi. apply filter_In in Hi. destruct Hi as [_ B].
    apply andb_true_iff in B. destruct B as [_ B]. cbn [negb orb] in B. apply Nat.eqb_eq in B. exact B. }
  apply Hall. apply nth_In. assert (Hpos : N.of_nat (length (a :: t)) <> 0) by (cbn [length]; lia).
  pose proof (N.mod_upper_bound seed _ Hpos). lia.
Qed.
(* leaderOnly: mixed / prefer-leader reads take the work peer *)
Lemma leader_only_work c r seed kind : kind <> RkFollower -> pick_idx c r kind seed true = r_work r.
Proof. destruct kind; intros H; try reflexivity. congruence. Qed.

(* follower read: a follower (never the work peer) whenever one of the tries finds a follower on whose store nobody failed;
   the work peer only if every try failed *)
Lemma follower_idx_not_work work seed l : follower_idx work seed l <> work.
Proof. unfold follower_idx. destruct (Nat.leb work (N.to_nat (seed mod N.of_nat (l - 1)))) eqn:E; [apply Nat.leb_le in E; lia|apply Nat.leb_gt in E; lia]. Qed.
Lemma follower_loop_spec c r l : forall retry seed, seed < u32 ->
  let i := follower_loop c r retry seed l in
  (i <> r_work r /\ epoch_fresh c r i = true) \/
  (i = r_work r /\ forall t, (t < retry)%nat -> epoch_fresh c r (follower_idx (r_work r) ((seed + N.of_nat t) mod u32) l) = false).
Proof.
  induction retry as [|n IH]; intros seed Hs; cbn [follower_loop]; [right; split; [reflexivity|intros t Ht; lia]|].
  destruct (epoch_fresh c r (follower_idx (r_work r) seed l)) eqn:E; [left; split; [apply follower_idx_not_work|exact E]|].
  assert (Hs' : (seed + 1) mod u32 < u32) by (apply N.mod_upper_bound; unfold u32; lia).
  cbv zeta in IH. destruct (IH ((seed + 1) mod u32) Hs') as [A|[A B]]; [left; exact A|right]. split; [exact A|].
  intros t Ht. destruct t as [|t'].
  - rewrite N.add_0_r, N.mod_small by exact Hs. exact E.
  - specialize (B t' ltac:(lia)). rewrite N.add_mod_idemp_l in B by (unfold u32; lia).
    replace (seed + N.of_nat (S t')) with (seed + 1 + N.of_nat t') by lia. exact B.
Qed.

Lemma residue_hit m seed j : 0 < m -> j < m -> exists t, t < m /\ (seed + t) mod m = j.
Proof.
  intros Hm Hj. assert (Hm0 : m <> 0) by lia. pose proof (N.mod_upper_bound seed m Hm0) as Hs.
  exists ((j + m - seed mod m) mod m). split; [apply N.mod_upper_bound; exact Hm0|].
  rewrite N.add_mod_idemp_r by exact Hm0. pose proof (N.div_mod seed m Hm0) as Hd.
  set (q := seed / m) in *. set (s := seed mod m) in *.
  replace (seed + (j + m - s)) with (j + (q + 1) * m) by nia.
  rewrite N.mod_add by exact Hm0. apply N.mod_small. exact Hj.
Qed.

(* without wrap-around of the seed the l-1 tries visit every follower: a follower read returns the work peer only if
   somebody failed on the store of EVERY follower since the entry was made *)
Lemma follower_read_follower c r seed j :
  let l := length (r_peers r) in
  (1 < l)%nat -> (r_work r < l)%nat -> seed + N.of_nat l <= u32 ->
  (j < l)%nat -> j <> r_work r -> epoch_fresh c r j = true ->
  follower c r seed <> r_work r /\ epoch_fresh c r (follower c r seed) = true.
Proof.
  intros l Hl Hw Hseed Hj Hjw Hfj. unfold follower. fold l. replace (Nat.leb l 1) with false by (symmetry; apply Nat.leb_gt; exact Hl).
  assert (Hs : seed < u32) by lia.
  destruct (follower_loop_spec c r l (l - 1) seed Hs) as [A|[_ B]]; [exact A|exfalso].
  (* the try that hits j *)
  set (j' := if Nat.ltb (r_work r) j then (j - 1)%nat else j).
  assert (Hj' : (j' < l - 1)%nat) by (unfold j'; destruct (Nat.ltb (r_work r) j) eqn:E; [apply Nat.ltb_lt in E|apply Nat.ltb_ge in E]; lia).
  destruct (residue_hit (N.of_nat (l - 1)) seed (N.of_nat j') ltac:(lia) ltac:(lia)) as [t [Ht Hhit]].
  specialize (B (N.to_nat t) ltac:(lia)). rewrite N2Nat.id in B. rewrite N.mod_small in B by lia.
  unfold follower_idx in B. rewrite Hhit, Nat2N.id in B.
  assert (Hidx : (if Nat.leb (r_work r) j' then S j' else j') = j).
  { unfold j'. destruct (Nat.ltb (r_work r) j) eqn:E.
    - apply Nat.ltb_lt in E. replace (Nat.leb (r_work r) (j - 1)) with true by (symmetry; apply Nat.leb_le; lia). lia.
    - apply Nat.ltb_ge in E. replace (Nat.leb (r_work r) j) with false by (symmetry; apply Nat.leb_gt; lia). reflexivity. }
  rewrite Hidx in B. congruence.
Qed.

(* the invalidations of a replica read keep the reachable-state invariant *)
Lemma rpc_ctx_read_rinv truth H c v kind seed lo : rinv truth H c -> rinv truth H (snd (rpc_ctx_read c v kind seed lo)).
Proof.
  intros Hc. unfold rpc_ctx_read. destruct (get_by_verid c v) as [r|]; [|exact Hc]. destruct (r_reload r || r_expired r); [exact Hc|]. cbv zeta.
  destruct (existsb (N.eqb (snd (nth (pick_idx c r kind seed lo) (r_peers r) (0, 0)))) (c_tomb c)); [apply upd_rinv'; [exact Hc|apply ef_invalidate]|].
  destruct (epoch_fresh c r (pick_idx c r kind seed lo)); [exact Hc|]. apply upd_rinv'; [exact Hc|apply ef_invalidate].
Qed.
