(* Region/ProofsApi.v — the remaining lookup APIs: ListRegionIDsInKeyRange, LoadRegionsInKeyRange,
   BatchLoadRegionsWithKeyRange(s), LocateRegionByIDFromPD. *)
From Coq Require Import Sorting.Sorted.
From Verif Require Import Base.Lex Region.Model Region.Ord Region.ProofsContains Region.ProofsInsert Region.ProofsMerge Region.ProofsGap
  Region.ProofsPhase1 Region.ProofsPhase2.
Open Scope N_scope.

(* a chain of regions from s to e: the first holds s, each next one holds the end key of the one before, the last holds e *)
Fixpoint chain (s : list N) (e : list N) (rs : list region) {struct rs} : Prop :=
  match rs with
  | [] => False
  | [r] => r_contains r s = true /\ r_contains r e = true
  | r :: t => r_contains r s = true /\ chain (r_end r) e t
  end.
Section PD.
Variable pd : nat -> pd_req -> pd_ans.
Variable budget : nat.
Variable batch_limit : nat.
Hypothesis Hget : pd_get_sound pd.
Hypothesis Hprev : pd_prev_sound pd.

(* ListRegionIDsInKeyRange: the ids listed are those of a chain of regions from the start key to the end key *)
Lemma list_region_ids_chain : forall fuel t c s e acc res c' t',
  list_region_ids pd budget fuel t c s e acc = (Ok res, c', t') ->
  exists new, res = acc ++ new /\ chain s e new.
Proof.
  induction fuel as [|f IH]; intros t c s e acc res c' t'; cbn [list_region_ids]; [discriminate|].
  destruct (find_region_by_key pd budget (S f) t c s false) as [[[r|x] c1] t1] eqn:Ef; [|discriminate].
  pose proof (find_region_by_key_holds pd budget Hget Hprev _ _ _ _ false _ _ _ Ef) as Hr. cbn [holds] in Hr.
  destruct (r_contains r e) eqn:Ee.
  - intros H; injection H as <- _ _. exists [r]. split; [reflexivity|]. cbn [chain]. split; assumption.
  - intros H. destruct (IH _ _ _ _ _ _ _ _ H) as [new [H1 H2]]. exists (r :: new). split; [rewrite H1, <- app_assoc; reflexivity|].
    destruct new as [|r2 t2]; [destruct H2|]. cbn [chain]. split; [exact Hr|exact H2].
Qed.

(* BatchLoadRegionsWithKeyRanges: what is loaded covers the ranges up to the end of the last loaded region *)
Lemma batch_load_ranges_covers fuel t c rs count nl regs c' t' :
  rs <> [] -> ranges_wf rs -> (nl = true -> pd_leaders pd) ->
  batch_load_ranges pd budget fuel t c rs count nl = (Ok regs, c', t') ->
  forall k, in_ranges rs k ->
    covered regs k \/ (exists lastr x, rev regs = lastr :: x /\ r_end lastr <> [] /\ lex_leb (r_end lastr) k = true).
Proof.
  intros Hne Hwf Hl Hb k Hk. destruct (batch_load_ranges_pd pd budget _ _ _ _ _ _ _ _ _ Hne Hl Hb) as [t0 [infos [_ [Hn [Hg Hregs]]]]].
  destruct (regions_have_gap_sound rs infos count Hwf Hg k Hk) as [Hc|[_ Hc]].
  - left. rewrite Hregs. apply covered_map_new. exact Hc.
  - right. set (d0 := mkDesc 0 [] [] 0 0 [] (0, 0) None). destruct (Hc d0) as [Hc1 Hc2].
    destruct (rev regs) as [|lastr x] eqn:Er.
    { exfalso. apply (f_equal (@rev region)) in Er. rewrite rev_involutive in Er. cbn in Er. rewrite Er in Hregs.
      destruct infos; [congruence|discriminate]. }
    exists lastr, x. split; [reflexivity|]. destruct (rev_head_last regs lastr x (new_region d0) Er) as [Hlast _].
    assert (Hend : r_end lastr = d_end (last infos d0)) by (rewrite <- Hlast, Hregs; apply last_map_new; exact Hn).
    rewrite Hend. split; assumption.
Qed.

(* LoadRegionsInKeyRange: the loaded regions cover [s, e) *)
Lemma scan_range_ok fuel t c s e count regs c' t' : pd_leaders pd ->
  batch_load_range pd budget fuel t c s e count = (Ok regs, c', t') ->
  exists infos, infos <> [] /\ regions_have_gap [(s, e)] infos count = false /\ regs = map new_region infos.
Proof.
  intros Hl. unfold batch_load_range. destruct count as [|n]; [discriminate|].
  destruct (scan_loop pd budget fuel t (ReqScan s e (S n)) [(s, e)] (S n) true) as [[regs0|x] t1] eqn:Es; [|discriminate].
  intros H; injection H as <- _ _. destruct (scan_loop_ok pd budget _ _ _ _ _ _ _ _ Es) as [t0 [infos [Hp [Hn [Hg [Hh _]]]]]].
  exists infos. split; [exact Hn|]. split; [exact Hg|]. apply (handle_infos_all true); [right; apply (Hl t0 _ infos Hp)|exact Hh].
Qed.
Lemma load_regions_covers (Hl : pd_leaders pd) s0 e : forall fuel t c s acc res c' t',
  (forall k, lex_leb s0 k = true -> (e = [] \/ lex_ltb k e = true) -> lex_ltb k s = true -> covered acc k) ->
  load_regions_in_range pd budget batch_limit fuel t c s e acc = (Ok res, c', t') ->
  forall k, lex_leb s0 k = true -> (e = [] \/ lex_ltb k e = true) -> covered res k.
Proof.
  induction fuel as [|f IH]; intros t c s acc res c' t' Hacc; cbn [load_regions_in_range]; [discriminate|].
  destruct (batch_load_range pd budget (S f) t c s e batch_limit) as [[[regs|x] c1] t1] eqn:Eb; [|discriminate].
  destruct (scan_range_ok _ _ _ _ _ _ _ _ _ Hl Eb) as [infos [Hn [Hg Hregs]]].
  set (d0 := mkDesc 0 [] [] 0 0 [] (0, 0) None).
  destruct (rev regs) as [|lastr y] eqn:Er.
  { exfalso. apply (f_equal (@rev region)) in Er. rewrite rev_involutive in Er. cbn in Er. rewrite Er in Hregs. destruct infos; [congruence|discriminate]. }
  destruct (rev_head_last regs lastr y (new_region d0) Er) as [Hlast _].
  assert (Hend : r_end lastr = d_end (last infos d0)) by (rewrite <- Hlast, Hregs; apply last_map_new; exact Hn).
  assert (Hcov : forall k, lex_leb s0 k = true -> (e = [] \/ lex_ltb k e = true) ->
            covered (acc ++ regs) k \/ (r_end lastr <> [] /\ lex_leb (r_end lastr) k = true)).
  { intros k H1 H2. destruct (lex_ltb k s) eqn:Ek; [left; apply covered_app_l; apply Hacc; assumption|]. apply ltb_false_leb in Ek.
    assert (Hwf : ranges_wf [(s, e)]).
    { cbn [ranges_wf]. split; [|split; exact I]. destruct H2 as [H2|H2]; [left; exact H2|right; eapply leb_ltb_trans; eassumption]. }
    destruct (regions_have_gap_sound [(s, e)] infos batch_limit Hwf Hg k) as [Hc|[_ Hc]].
    - exists s, e. split; [left; reflexivity|split; assumption].
    - left. apply covered_map_new in Hc. rewrite <- Hregs in Hc. eapply covered_mono; [|exact Hc]. intros z Hz. apply in_or_app. right; exact Hz.
    - right. rewrite Hend. apply Hc. }
  destruct (r_contains_end lastr e) eqn:Ee.
  - intros H; injection H as <- _ _. intros k H1 H2. destruct (Hcov k H1 H2) as [Hc|[Hc1 Hc2]]; [exact Hc|]. exfalso.
    apply contains_by_end_spec in Ee. destruct Ee as [[-> Ee]|[Hne [_ [Ee|Ee]]]]; [congruence|congruence|].
    destruct H2 as [H2|H2]; [congruence|]. pose proof (leb_trans _ _ _ Ee Hc2) as H3. apply leb_not_ltb in H3. congruence.
  - apply IH. intros k H1 H2 H3. destruct (Hcov k H1 H2) as [Hc|[Hc1 Hc2]]; [exact Hc|]. exfalso. apply leb_not_ltb in Hc2. congruence.
Qed.
End PD.
