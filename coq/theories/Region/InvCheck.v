(* Region/InvCheck.v — the hypotheses of the convergence theorem as executable tests: [truth_wfb] (the ground truth is a
   chain of non-empty regions from -inf to +inf with distinct ids, led by one of their peers, one peer per store) and
   [cinvb] (the cache invariant relative to it), each with a soundness proof. The extracted tests are run by the replay
   on the implementation's cache contents (after every operation / at every quiescent point). *)
From Coq Require Import Sorting.Sorted.
From Verif Require Import Base.Lex Region.Model Region.Ord Region.ProofsInsert Region.Converge Region.ProofsConvA Region.ProofsConvB Region.ProofsConvC Region.ProofsReach.
Open Scope N_scope.

(* ---- small decision procedures ---- *)
Fixpoint peers_eqb (a b : list peer) : bool :=
  match a, b with
  | [], [] => true
  | p :: a', q :: b' => peer_eqb p q && peers_eqb a' b'
  | _, _ => false
  end.
Lemma peer_eqb_true p q : peer_eqb p q = true -> p = q.
Proof. destruct p, q. unfold peer_eqb. cbn [fst snd]. intros H. apply andb_true_iff in H. destruct H as [H1 H2]. apply N.eqb_eq in H1, H2. congruence. Qed.
Lemma peers_eqb_true : forall a b, peers_eqb a b = true -> a = b.
Proof.
  induction a as [|p a IH]; intros [|q b] H; cbn [peers_eqb] in H; try discriminate; [reflexivity|].
  apply andb_true_iff in H. destruct H as [H1 H2]. apply peer_eqb_true in H1. apply IH in H2. congruence.
Qed.

Fixpoint adj_sortedb (l : list region) : bool :=
  match l with
  | a :: t => match t with b :: _ => lex_ltb (r_start a) (r_start b) | [] => true end && adj_sortedb t
  | [] => true
  end.
Lemma adj_sortedb_sound l : adj_sortedb l = true -> sorted_starts l.
Proof.
  intros H. apply Sorted_StronglySorted.
  - intros a b c H1 H2. unfold start_lt in *. eapply ltb_trans; eassumption.
  - induction l as [|a t IH]; [constructor|]. cbn [adj_sortedb] in H. apply andb_true_iff in H. destruct H as [H1 H2].
    constructor; [apply IH; exact H2|]. destruct t as [|b t']; constructor. exact H1.
Qed.

Fixpoint nodupb (l : list N) : bool :=
  match l with [] => true | a :: t => negb (existsb (N.eqb a) t) && nodupb t end.
Lemma nodupb_sound l : nodupb l = true -> NoDup l.
Proof.
  induction l as [|a t IH]; intros H; [constructor|]. cbn [nodupb] in H. apply andb_true_iff in H. destruct H as [H1 H2].
  constructor; [|apply IH; exact H2]. intros Hin. apply negb_true_iff in H1.
  assert (existsb (N.eqb a) t = true) by (apply existsb_exists; exists a; split; [exact Hin|apply N.eqb_refl]). congruence.
Qed.

(* ---- the ground truth ---- *)
Definition desc_okb (T : desc) : bool :=
  (is_nil (d_end T) || lex_ltb (d_start T) (d_end T)) && existsb (peer_eqb (d_leader T)) (d_peers T) && nodupb (map snd (d_peers T)).
(* a chain: each region ends where the next one starts, the last one is unbounded *)
Fixpoint chainb (s : bytes) (l : list desc) : bool :=
  match l with
  | [] => false
  | T :: t => bytes_eqb (d_start T) s &&
              match t with [] => is_nil (d_end T) | _ :: _ => negb (is_nil (d_end T)) && chainb (d_end T) t end
  end.
Definition truth_wfb (truth : list desc) : bool :=
  chainb [] truth && forallb desc_okb truth && nodupb (map d_id truth).

Lemma is_nil_true' (b : bytes) : is_nil b = true -> b = [].
Proof. destruct b; [reflexivity|discriminate]. Qed.

(* a chain from s covers every key >= s *)
Lemma chainb_cover : forall l s k, chainb s l = true -> lex_leb s k = true -> exists T, In T l /\ tcontains T k = true.
Proof.
  induction l as [|T t IH]; intros s k H Hk; [discriminate|]. cbn [chainb] in H. apply andb_true_iff in H. destruct H as [H1 H2].
  apply bytes_eqb_eq in H1. destruct t as [|T2 t2].
  - apply is_nil_true' in H2. exists T. split; [left; reflexivity|]. apply contains_spec. split; [rewrite H1; exact Hk|left; exact H2].
  - apply andb_true_iff in H2. destruct H2 as [H2 H3]. destruct (lex_ltb k (d_end T)) eqn:E.
    + exists T. split; [left; reflexivity|]. apply contains_spec. split; [rewrite H1; exact Hk|right; exact E].
    + apply ltb_false_leb in E. destruct (IH (d_end T) k H3 E) as [T' [Hin Hc]]. exists T'. split; [right; exact Hin|exact Hc].
Qed.
(* in a chain of non-empty regions every later region starts at or after s *)
Lemma chainb_starts : forall l s T, chainb s l = true -> forallb desc_okb l = true -> In T l -> lex_leb s (d_start T) = true.
Proof.
  induction l as [|T0 t IH]; intros s T H Hok Hin; [destruct Hin|]. cbn [chainb] in H. apply andb_true_iff in H. destruct H as [H1 H2].
  apply bytes_eqb_eq in H1. destruct Hin as [->|Hin]; [rewrite H1; apply leb_refl|].
  destruct t as [|T2 t2]; [destruct Hin|]. apply andb_true_iff in H2. destruct H2 as [H2 H3].
  cbn [forallb] in Hok. apply andb_true_iff in Hok. destruct Hok as [Hok0 Hok].
  pose proof (IH (d_end T0) T H3 Hok Hin) as Hle. rewrite <- H1.
  unfold desc_okb in Hok0. apply andb_true_iff in Hok0. destruct Hok0 as [Hok0 _]. apply andb_true_iff in Hok0. destruct Hok0 as [Hok0 _].
  apply orb_true_iff in Hok0. destruct Hok0 as [Hn|Hlt]; [rewrite Hn in H2; discriminate|].
  apply ltb_leb. eapply ltb_leb_trans; eassumption.
Qed.
Lemma chainb_disjoint : forall l s T1 T2 k, chainb s l = true -> forallb desc_okb l = true ->
  In T1 l -> In T2 l -> tcontains T1 k = true -> tcontains T2 k = true -> T1 = T2.
Proof.
  induction l as [|T0 t IH]; intros s T1 T2 k H Hok H1 H2 C1 C2; [destruct H1|].
  pose proof H as H'. cbn [chainb] in H'. apply andb_true_iff in H'. destruct H' as [Hs Hr].
  cbn [forallb] in Hok. apply andb_true_iff in Hok. destruct Hok as [Hok0 Hok].
  (* a key of the head region is in no later region *)
  assert (Hhead : forall T, In T t -> tcontains T0 k = true -> tcontains T k = true -> False).
  { intros T Hin C0 C. destruct t as [|T3 t3]; [destruct Hin|]. apply andb_true_iff in Hr. destruct Hr as [Hne Hch].
    pose proof (chainb_starts _ _ T Hch Hok Hin) as Hle. apply contains_spec in C0. destruct C0 as [_ [E|E]].
    - rewrite E in Hne. discriminate.
    - apply contains_spec in C. destruct C as [C _]. pose proof (leb_trans _ _ _ Hle C) as Hc. apply leb_not_ltb in Hc. congruence. }
  destruct H1 as [<-|H1], H2 as [<-|H2]; [reflexivity|exfalso; eapply Hhead; eassumption|exfalso; eapply Hhead; eassumption|].
  destruct t as [|T3 t3]; [destruct H1|]. apply andb_true_iff in Hr. destruct Hr as [_ Hch].
  eapply IH; eassumption.
Qed.

Lemma truth_wfb_sound truth : truth_wfb truth = true -> truth_wf truth.
Proof.
  unfold truth_wfb. intros H. apply andb_true_iff in H. destruct H as [H Hid]. apply andb_true_iff in H. destruct H as [Hch Hok].
  assert (Hd : forall T, In T truth -> desc_okb T = true) by (apply forallb_forall; exact Hok).
  constructor.
  - intros k. eapply chainb_cover; [exact Hch|apply leb_nil_l].
  - intros T1 T2 k. eapply chainb_disjoint; eassumption.
  - intros T1 T2 H1 H2 He. apply nodupb_sound in Hid. clear - Hid H1 H2 He.
    induction truth as [|T t IH]; [destruct H1|]. cbn [map] in Hid. inversion Hid as [|? ? Hn Hnd]; subst.
    destruct H1 as [<-|H1], H2 as [<-|H2]; [reflexivity| | |apply IH; assumption].
    + exfalso. apply Hn. rewrite He. apply in_map. exact H2.
    + exfalso. apply Hn. rewrite <- He. apply in_map. exact H1.
  - intros T HT. pose proof (Hd T HT) as Ho. unfold desc_okb in Ho. apply andb_true_iff in Ho. destruct Ho as [Ho _].
    apply andb_true_iff in Ho. destruct Ho as [Ho _]. apply orb_true_iff in Ho. destruct Ho as [Ho|Ho]; [left; apply is_nil_true'; exact Ho|right; exact Ho].
  - intros T HT. pose proof (Hd T HT) as Ho. unfold desc_okb in Ho. apply andb_true_iff in Ho. destruct Ho as [Ho _].
    apply andb_true_iff in Ho. destruct Ho as [_ Ho]. apply existsb_exists in Ho. destruct Ho as [p [Hp He]]. apply peer_eqb_true in He. subst p. exact Hp.
  - intros T HT. pose proof (Hd T HT) as Ho. unfold desc_okb in Ho. apply andb_true_iff in Ho. destruct Ho as [_ Ho]. apply nodupb_sound. exact Ho.
Qed.

(* ---- the cache invariant ---- *)
Definition entry_okb (x : region) : bool :=
  (is_nil (r_end x) || lex_ltb (r_start x) (r_end x)) && negb (match r_peers x with [] => true | _ => false end) &&
  (r_work x <? length (r_peers x))%nat && ((r_reason x =? 0) || r_expired x).

(* the ten clauses of [cinv], in order: sorted, hist, addr, uniq, dom_start, dom_lat, dom_id, ok, len, tomb *)
Definition cinv_parts (truth : list desc) (c : cache) : list bool :=
  let l := c_sorted c in
  [ adj_sortedb l;
    forallb (fun x => forallb (fun T => implb (verid_eqb (r_verid x) (d_verid T))
             (bytes_eqb (r_start x) (d_start T) && bytes_eqb (r_end x) (d_end T) && peers_eqb (r_peers x) (d_peers T))) truth) l;
    forallb (fun x => match reg_get (r_verid x) (c_regions c) with Some s => bytes_eqb s (r_start x) | None => false end) l;
    forallb (fun x => forallb (fun y => implb (verid_eqb (r_verid x) (r_verid y)) (bytes_eqb (r_start x) (r_start y))) l) l;
    forallb (fun x => forallb (fun T => implb (tcontains T (r_start x)) (r_ver x <=? d_ver T)) truth) l;
    forallb (fun T => match lat_get (d_id T) (c_latest c) with Some (v, cf) => (v <=? d_ver T) && (cf <=? d_conf T) | None => true end) truth;
    forallb (fun x => forallb (fun T => implb (r_id x =? d_id T) ((r_ver x <=? d_ver T) && (r_conf x <=? d_conf T))) truth) l;
    forallb entry_okb l;
    forallb (fun x => (length (r_sepochs x) =? length (r_peers x))%nat) l;
    forallb (fun T => forallb (fun p : peer => negb (existsb (N.eqb (snd p)) (c_tomb c))) (d_peers T)) truth ].
Definition cinvb (truth : list desc) (c : cache) : bool := forallb (fun b : bool => b) (cinv_parts truth c).

Lemma forallb2 {A B} (f : A -> B -> bool) la lb : forallb (fun a => forallb (f a) lb) la = true ->
  forall a b, In a la -> In b lb -> f a b = true.
Proof. intros H a b Ha Hb. pose proof (proj1 (forallb_forall _ _) H a Ha) as H1. exact (proj1 (forallb_forall _ _) H1 b Hb). Qed.
Lemma implb_elim a b : implb a b = true -> a = true -> b = true.
Proof. destruct a, b; cbn; congruence. Qed.

Lemma cinvb_sound truth c : cinvb truth c = true -> cinv truth c.
Proof.
  unfold cinvb, cinv_parts. cbv zeta. cbn [forallb]. intros H.
  rewrite !andb_true_iff in H. destruct H as [G9 [G8 [G7 [G6 [G5 [G4 [G3 [G2 [G1 [G0 _]]]]]]]]]].
  pose proof (adj_sortedb_sound _ G9) as Hs.
  constructor.
  - exact Hs.
  - intros x T Hx HT Hv. pose proof (forallb2 _ _ _ G8 x T Hx HT) as E. cbv beta in E. apply (fun E => implb_elim _ _ E (proj2 (verid_eqb_eq _ _) Hv)) in E.
    apply andb_true_iff in E. destruct E as [E E3]. apply andb_true_iff in E. destruct E as [E1 E2].
    apply bytes_eqb_eq in E1, E2. apply peers_eqb_true in E3. repeat split; assumption.
  - intros x Hx. pose proof (proj1 (forallb_forall _ _) G7 x Hx) as E. cbv beta in E.
    destruct (reg_get (r_verid x) (c_regions c)) as [s|]; [|discriminate]. apply bytes_eqb_eq in E. congruence.
  - intros x y Hx Hy Hv. pose proof (forallb2 _ _ _ G6 x y Hx Hy) as E. cbv beta in E. apply (fun E => implb_elim _ _ E (proj2 (verid_eqb_eq _ _) Hv)) in E.
    apply bytes_eqb_eq in E. eapply sorted_in_eq; eassumption.
  - intros x T Hx HT Hc. pose proof (forallb2 _ _ _ G5 x T Hx HT) as E. cbv beta in E. apply (fun E => implb_elim _ _ E Hc) in E. apply N.leb_le. exact E.
  - intros T v cf HT Hl. pose proof (proj1 (forallb_forall _ _) G4 T HT) as E. cbv beta in E. rewrite Hl in E.
    apply andb_true_iff in E. destruct E as [E1 E2]. split; apply N.leb_le; assumption.
  - intros x T Hx HT Hi. pose proof (forallb2 _ _ _ G3 x T Hx HT) as E. cbv beta in E. apply (fun E => implb_elim _ _ E (proj2 (N.eqb_eq _ _) Hi)) in E.
    apply andb_true_iff in E. destruct E as [E1 E2]. split; apply N.leb_le; assumption.
  - intros x Hx. pose proof (proj1 (forallb_forall _ _) G2 x Hx) as E. unfold entry_okb in E.
    apply andb_true_iff in E. destruct E as [E E4]. apply andb_true_iff in E. destruct E as [E E3]. apply andb_true_iff in E. destruct E as [E1 E2].
    split; [|split; [|split]].
    + unfold nonempty_range. apply orb_true_iff in E1. destruct E1 as [E1|E1]; [left; apply is_nil_true'; exact E1|right; exact E1].
    + destruct (r_peers x); [discriminate|discriminate].
    + apply Nat.ltb_lt. exact E3.
    + intros Hr. apply orb_true_iff in E4. destruct E4 as [E4|E4]; [apply N.eqb_eq in E4; contradiction|exact E4].
  - intros x Hx. pose proof (proj1 (forallb_forall _ _) G1 x Hx) as E. apply Nat.eqb_eq. exact E.
  - intros T p HT Hp. pose proof (proj1 (forallb_forall _ _) G0 T HT) as E1. cbv beta in E1.
    pose proof (proj1 (forallb_forall _ _) E1 p Hp) as E2. apply negb_true_iff in E2. exact E2.
Qed.

(* convergence from a state that passes the tests *)
Lemma converges_checked truth cur_of pd budget fuel k c :
  truth_wfb truth = true -> cinvb truth c = true ->
  (forall R, In R truth -> In R (cur_of R) /\ forall d, In d (cur_of R) -> In d truth) ->
  (forall t k T, In T truth -> tcontains T k = true -> pd t (ReqGet k) = PdOne (Some T)) ->
  (0 < budget)%nat -> (0 < fuel)%nat ->
  rounds truth cur_of pd budget fuel 4 c k = true.
Proof.
  intros Hw Hc H2 H3 H4 H5. apply truth_wfb_sound in Hw. apply cinvb_sound in Hc.
  destruct (tw_cover _ Hw k) as [T [HT Hk]].
  exact (converges truth Hw cur_of H2 pd H3 budget fuel H4 H5 k T HT Hk c Hc).
Qed.

(* ---- the epoch discipline over a finite history (the region states PD and the stores reported during a run) ---- *)
Definition hist_parts (truth hist : list desc) : list bool :=
  [ forallb (fun h => forallb (fun T => implb (verid_eqb (d_verid h) (d_verid T))
       (bytes_eqb (d_start h) (d_start T) && bytes_eqb (d_end h) (d_end T) && peers_eqb (d_peers h) (d_peers T))) truth) hist;
    forallb (fun h1 => forallb (fun h2 => implb (verid_eqb (d_verid h1) (d_verid h2)) (bytes_eqb (d_start h1) (d_start h2))) hist) hist;
    forallb (fun h => forallb (fun T => implb (tcontains T (d_start h)) (d_ver h <=? d_ver T)) truth) hist;
    forallb (fun h => forallb (fun T => implb (d_id h =? d_id T) ((d_ver h <=? d_ver T) && (d_conf h <=? d_conf T))) truth) hist;
    forallb (fun h => is_nil (d_end h) || lex_ltb (d_start h) (d_end h)) hist ].
Definition hist_okb (truth hist : list desc) : bool := forallb (fun b : bool => b) (hist_parts truth hist).

Lemma hist_okb_sound truth hist : hist_okb truth hist = true -> hist_ok truth (fun d => In d hist).
Proof.
  unfold hist_okb, hist_parts. cbn [forallb]. intros H.
  rewrite !andb_true_iff in H. destruct H as [G1 [G2 [G3 [G4 [G5 _]]]]].
  constructor.
  - intros h T Hh HT Hv. pose proof (forallb2 _ _ _ G1 h T Hh HT) as E. cbv beta in E.
    apply (fun E => implb_elim _ _ E (proj2 (verid_eqb_eq _ _) Hv)) in E.
    apply andb_true_iff in E. destruct E as [E E3]. apply andb_true_iff in E. destruct E as [E1 E2].
    apply bytes_eqb_eq in E1, E2. apply peers_eqb_true in E3. repeat split; assumption.
  - intros h1 h2 A B Hv. pose proof (forallb2 _ _ _ G2 h1 h2 A B) as E. cbv beta in E.
    apply (fun E => implb_elim _ _ E (proj2 (verid_eqb_eq _ _) Hv)) in E. apply bytes_eqb_eq in E. exact E.
  - intros h T Hh HT Hc. pose proof (forallb2 _ _ _ G3 h T Hh HT) as E. cbv beta in E.
    apply (fun E => implb_elim _ _ E Hc) in E. apply N.leb_le. exact E.
  - intros h T Hh HT Hi. pose proof (forallb2 _ _ _ G4 h T Hh HT) as E. cbv beta in E.
    apply (fun E => implb_elim _ _ E (proj2 (N.eqb_eq _ _) Hi)) in E.
    apply andb_true_iff in E. destruct E as [E1 E2]. split; apply N.leb_le; assumption.
  - intros h Hh. pose proof (proj1 (forallb_forall _ _) G5 h Hh) as E. cbv beta in E.
    apply orb_true_iff in E. destruct E as [E|E]; [left; apply is_nil_true'; exact E|right; exact E].
Qed.
