(* Region/ProofsInsert.v — insertRegionToCache: the index stays sorted, a refused description changes nothing,
   descriptions older than what the cache holds for the same region or older than a cached region that starts
   inside their range are refused, latestVersions never decreases while the id stays cached. *)
From Coq Require Import Sorting.Sorted.
From Verif Require Import Base.Lex Region.Model Region.Ord.
Open Scope N_scope.

Definition start_lt (a b : region) : Prop := lex_ltb (r_start a) (r_start b) = true.
Definition sorted_starts (l : list region) : Prop := StronglySorted start_lt l.

(* ---- latestVersions as an assoc list ---- *)
Lemma lat_get_del id id' l : lat_get id (lat_del id' l) = if id =? id' then None else lat_get id l.
Proof.
  unfold lat_del. induction l as [|[i v] t IH]; cbn [filter lat_get fst].
  - destruct (id =? id'); reflexivity.
  - destruct (i =? id') eqn:E1; cbn [negb].
    + rewrite IH. apply N.eqb_eq in E1; subst i. destruct (id =? id') eqn:E2; [reflexivity|].
      rewrite N.eqb_sym, E2. reflexivity.
    + cbn [lat_get]. rewrite IH. destruct (i =? id) eqn:E2; [|reflexivity].
      apply N.eqb_eq in E2; subst i. rewrite E1. reflexivity.
Qed.
Lemma lat_get_set id id' v l : lat_get id (lat_set id' v l) = if id =? id' then Some v else lat_get id l.
Proof.
  unfold lat_set. cbn [lat_get]. rewrite (N.eqb_sym id' id). destruct (id =? id') eqn:E; [reflexivity|].
  rewrite lat_get_del, E. reflexivity.
Qed.

Lemma remove_version_latest v regs lat id x :
  lat_get id (snd (remove_version v regs lat)) = Some x -> lat_get id lat = Some x.
Proof.
  destruct v as [[i ver] conf]. cbn [remove_version snd].
  destruct (lat_get i lat) as [[ver' conf']|]; [|exact (fun H => H)].
  destruct ((ver' =? ver) && (conf' =? conf)); [|exact (fun H => H)].
  rewrite lat_get_del. destruct (id =? i); [discriminate|exact (fun H => H)].
Qed.
Definition rm_step (acc : list (verid * bytes) * list (N * (N * N))) (d : region) := remove_version (r_verid d) (fst acc) (snd acc).
Lemma fold_remove_latest : forall deleted acc id x,
  lat_get id (snd (fold_left rm_step deleted acc)) = Some x -> lat_get id (snd acc) = Some x.
Proof.
  induction deleted as [|d t IH]; intros acc id x; cbn [fold_left]; [exact (fun H => H)|].
  intros H. apply IH in H. unfold rm_step in H. apply remove_version_latest in H. exact H.
Qed.

(* ---- insert_region, opened up ---- *)
Lemma inherit_same r deleted :
  r_id (inherit r deleted) = r_id r /\ r_start (inherit r deleted) = r_start r /\ r_end (inherit r deleted) = r_end r /\
  r_ver (inherit r deleted) = r_ver r /\ r_conf (inherit r deleted) = r_conf r /\ r_peers (inherit r deleted) = r_peers r /\
  r_expired (inherit r deleted) = r_expired r /\ r_reload (inherit r deleted) = r_reload r /\ r_ready (inherit r deleted) = r_ready r /\
  r_reason (inherit r deleted) = r_reason r.
Proof.
  unfold inherit, keep_bk, with_work. destruct deleted as [|old t]; [repeat split|]. destruct (r_reason old =? 1); repeat split.
Qed.

Lemma insert_region_unfold c r :
  insert_region c r =
  if stale_by_latest c r then (false, c)
  else let '(l1, deleted, stale) := remove_intersecting r (c_sorted c) in
       if stale then (false, c)
       else let r1 := inherit r deleted in
            let acc := fold_left rm_step deleted (c_regions c, c_latest c) in
            (true, mkCache (ins_sorted r1 l1) (reg_set (r_verid r1) (r_start r1) (fst acc)) (lat_set (r_id r1) (r_ver r1, r_conf r1) (snd acc)) (c_sepochs c) (c_tomb c)).
Proof.
  unfold insert_region. destruct (stale_by_latest c r); [reflexivity|].
  destruct (remove_intersecting r (c_sorted c)) as [[l1 deleted] stale]. destruct stale; [reflexivity|].
  unfold rm_step.
  destruct (fold_left (fun acc d => remove_version (r_verid d) (fst acc) (snd acc)) deleted (c_regions c, c_latest c)) as [regs lat].
  reflexivity.
Qed.

Lemma insert_refused_unchanged c r c' : insert_region c r = (false, c') -> c' = c.
Proof.
  rewrite insert_region_unfold. destruct (stale_by_latest c r); [congruence|].
  destruct (remove_intersecting r (c_sorted c)) as [[l1 deleted] stale]. destruct stale; [congruence|discriminate].
Qed.

(* older than what the cache holds for the same region id *)
Lemma insert_refuses_older_same_id c r ov oc :
  lat_get (r_id r) (c_latest c) = Some (ov, oc) -> (r_ver r < ov \/ r_conf r < oc) -> insert_region c r = (false, c).
Proof.
  intros Hl Hlt. rewrite insert_region_unfold. unfold stale_by_latest. rewrite Hl.
  replace ((r_ver r <? ov) || (r_conf r <? oc)) with true; [reflexivity|].
  symmetry. apply orb_true_iff. rewrite !N.ltb_lt. exact Hlt.
Qed.

(* older than a cached region that starts inside its range *)
Lemma scan_inter_stale r x : forall l,
  sorted_starts l -> In x l ->
  (r_end r = [] \/ lex_ltb (r_start x) (r_end r) = true) -> r_ver r < r_ver x ->
  snd (scan_inter r l) = true.
Proof.
  induction l as [|y t IH]; intros Hs Hin Hend Hver; [destruct Hin|].
  inversion Hs as [|? ? Hst Hall]; subst. cbn [scan_inter].
  assert (Hy : lex_leb (r_start y) (r_start x) = true).
  { destruct Hin as [->|Hin]; [apply leb_refl|]. apply ltb_leb. rewrite Forall_forall in Hall. apply Hall; exact Hin. }
  destruct (negb (is_nil (r_end r)) && lex_leb (r_end r) (r_start y)) eqn:Estop.
  { exfalso. apply andb_true_iff in Estop. destruct Estop as [E1 E2]. apply negb_true_iff, is_nil_false in E1.
    destruct Hend as [Hend|Hend]; [congruence|].
    pose proof (leb_trans _ _ _ E2 Hy) as H. apply leb_not_ltb in H. congruence. }
  destruct (r_ver r <? r_ver y) eqn:Ev; [reflexivity|].
  destruct Hin as [->|Hin]; [apply N.ltb_ge in Ev; lia|].
  specialize (IH Hst Hin Hend Hver). destruct (scan_inter r t) as [d s]. exact IH.
Qed.

Lemma filter_sorted (f : region -> bool) l : sorted_starts l -> sorted_starts (filter f l).
Proof.
  induction 1 as [|y t Hst IH Hall]; cbn [filter]; [constructor|].
  destruct (f y); [|exact IH]. constructor; [exact IH|].
  rewrite Forall_forall in *. intros z Hz. apply filter_In in Hz. apply Hall. tauto.
Qed.

Lemma insert_refuses_older_than_inner c r x :
  sorted_starts (c_sorted c) -> In x (c_sorted c) ->
  lex_leb (r_start r) (r_start x) = true -> (r_end r = [] \/ lex_ltb (r_start x) (r_end r) = true) ->
  r_ver r < r_ver x -> insert_region c r = (false, c).
Proof.
  intros Hs Hin Hle Hend Hver. rewrite insert_region_unfold. destruct (stale_by_latest c r); [reflexivity|].
  unfold remove_intersecting.
  assert (Hst : snd (scan_inter r (hi_part r (c_sorted c))) = true).
  { apply (scan_inter_stale r x); [apply filter_sorted; exact Hs| |exact Hend|exact Hver].
    unfold hi_part. apply filter_In. split; [exact Hin|]. apply negb_true_iff. apply leb_not_ltb. exact Hle. }
  destruct (scan_inter r (hi_part r (c_sorted c))) as [d s]. cbn [snd] in Hst. subst s. reflexivity.
Qed.

(* one insertion never lowers the latest version of an id that stays cached *)
Lemma insert_latest_mono c r ok c' id v cf v' cf' :
  insert_region c r = (ok, c') ->
  lat_get id (c_latest c) = Some (v, cf) -> lat_get id (c_latest c') = Some (v', cf') -> v <= v' /\ cf <= cf'.
Proof.
  rewrite insert_region_unfold. unfold stale_by_latest.
  destruct (lat_get (r_id r) (c_latest c)) as [[ov oc]|] eqn:El.
  - destruct ((r_ver r <? ov) || (r_conf r <? oc)) eqn:Est.
    { intros H; injection H as _ <-. intros H1 H2; rewrite H1 in H2; injection H2 as <- <-. lia. }
    destruct (remove_intersecting r (c_sorted c)) as [[l1 deleted] stale]. destruct stale.
    { intros H; injection H as _ <-. intros H1 H2; rewrite H1 in H2; injection H2 as <- <-. lia. }
    cbv zeta. intros H; injection H as _ <-. cbn [c_latest]. intros H1 H2.
    destruct (inherit_same r deleted) as [Hid [_ [_ [Hv [Hc _]]]]]. rewrite Hid, Hv, Hc in H2.
    rewrite lat_get_set in H2. destruct (id =? r_id r) eqn:E.
    + apply N.eqb_eq in E; subst id. rewrite El in H1. injection H1 as <- <-. injection H2 as <- <-.
      apply orb_false_iff in Est. rewrite !N.ltb_ge in Est. exact Est.
    + apply fold_remove_latest in H2. cbn [snd] in H2. rewrite H1 in H2. injection H2 as <- <-. lia.
  - destruct (remove_intersecting r (c_sorted c)) as [[l1 deleted] stale]. destruct stale.
    { intros H; injection H as _ <-. intros H1 H2; rewrite H1 in H2; injection H2 as <- <-. lia. }
    cbv zeta. intros H; injection H as _ <-. cbn [c_latest]. intros H1 H2.
    destruct (inherit_same r deleted) as [Hid [_ [_ [Hv [Hc _]]]]]. rewrite Hid, Hv, Hc in H2.
    rewrite lat_get_set in H2. destruct (id =? r_id r) eqn:E.
    + apply N.eqb_eq in E; subst id. congruence.
    + apply fold_remove_latest in H2. cbn [snd] in H2. rewrite H1 in H2. injection H2 as <- <-. lia.
Qed.

(* over any sequence of insertions: while the id is never dropped from latestVersions, its version only grows *)
Fixpoint held (id : N) (c : cache) (rs : list region) : Prop :=
  lat_get id (c_latest c) <> None /\
  match rs with [] => True | r :: t => held id (snd (insert_new c r)) t end.

Lemma insert_all_latest_mono : forall rs c id v cf v' cf',
  held id c rs ->
  lat_get id (c_latest c) = Some (v, cf) -> lat_get id (c_latest (insert_all c rs)) = Some (v', cf') -> v <= v' /\ cf <= cf'.
Proof.
  induction rs as [|r t IH]; intros c id v cf v' cf' Hh H1 H2.
  - cbn in H2. rewrite H1 in H2. injection H2 as <- <-. lia.
  - cbn [insert_all fold_left] in H2. destruct Hh as [_ Hh]. cbn [held] in Hh.
    unfold insert_new in *. destruct (insert_region c (stamp (c_sepochs c) r)) as [ok c1] eqn:Ei. cbn [snd] in *.
    destruct (lat_get id (c_latest c1)) as [[v1 cf1]|] eqn:E1.
    + pose proof (insert_latest_mono _ _ _ _ _ _ _ _ _ Ei H1 E1) as [Ha Hb].
      destruct (IH c1 id v1 cf1 v' cf' Hh E1 H2) as [Hc Hd]. lia.
    + destruct t; cbn [held] in Hh; destruct Hh as [Hh _]; congruence.
Qed.

(* ---- the index stays sorted ---- *)
Lemma ins_sorted_in r l x : In x (ins_sorted r l) -> x = r \/ In x l.
Proof.
  induction l as [|y t IH]; cbn [ins_sorted]; [intros [<-|[]]; left; reflexivity|].
  destruct (lex_cmp (r_start r) (r_start y)).
  - intros [<-|H]; [left; reflexivity|right; right; exact H].
  - intros [<-|H]; [left; reflexivity|right; exact H].
  - intros [<-|H]; [right; left; reflexivity|]. destruct (IH H) as [->|H']; [left; reflexivity|right; right; exact H'].
Qed.
Lemma ins_sorted_sorted r l : sorted_starts l -> sorted_starts (ins_sorted r l).
Proof.
  induction 1 as [|y t Hst IH Hall]; cbn [ins_sorted]; [constructor; constructor|].
  destruct (lex_cmp (r_start r) (r_start y)) eqn:E.
  - apply lex_cmp_eq in E. constructor; [exact Hst|]. rewrite Forall_forall in *. intros z Hz. unfold start_lt. rewrite E. apply Hall; exact Hz.
  - constructor; [constructor; assumption|]. constructor; [apply ltb_cmp; exact E|].
    rewrite Forall_forall in *. intros z Hz. unfold start_lt. eapply ltb_trans; [apply ltb_cmp; exact E|apply Hall; exact Hz].
  - constructor; [exact IH|]. rewrite Forall_forall in *. intros z Hz. apply ins_sorted_in in Hz. destruct Hz as [->|Hz]; [|apply Hall; exact Hz].
    unfold start_lt. apply ltb_cmp. apply lex_cmp_gt_lt. exact E.
Qed.
Lemma skipn_sorted n l : sorted_starts l -> sorted_starts (skipn n l).
Proof.
  revert l; induction n as [|n IH]; intros l H; [exact H|]. destruct l as [|y t]; [exact H|]. cbn [skipn]. apply IH. inversion H; assumption.
Qed.
Lemma app_sorted l1 l2 : sorted_starts l1 -> sorted_starts l2 -> (forall a b, In a l1 -> In b l2 -> start_lt a b) -> sorted_starts (l1 ++ l2).
Proof.
  intros H1 H2 H. induction H1 as [|y t Hst IH Hall]; cbn [app]; [exact H2|].
  constructor; [apply IH; intros a b Ha Hb; apply H; [right; exact Ha|exact Hb]|].
  apply Forall_app. split; [exact Hall|]. rewrite Forall_forall. intros b Hb. apply H; [left; reflexivity|exact Hb].
Qed.
Lemma skipn_in {A} n (l : list A) x : In x (skipn n l) -> In x l.
Proof. revert l; induction n as [|n IH]; intros l; [exact (fun H => H)|]. destruct l; [exact (fun H => H)|]. cbn [skipn]. intros H; right; exact (IH _ H). Qed.

Lemma remove_intersecting_sorted r l l1 deleted :
  sorted_starts l -> remove_intersecting r l = (l1, deleted, false) -> sorted_starts l1 /\ (forall x, In x l1 -> In x l).
Proof.
  intros Hs. unfold remove_intersecting. destruct (scan_inter r (hi_part r l)) as [d s]. destruct s; [discriminate|].
  intros H; injection H as <- _. split.
  - apply app_sorted; [apply filter_sorted; exact Hs|apply skipn_sorted; apply filter_sorted; exact Hs|].
    intros a b Ha Hb. apply skipn_in in Hb. unfold lo_part, hi_part in *. apply filter_In in Ha. apply filter_In in Hb.
    destruct Ha as [_ Ha], Hb as [_ Hb]. apply negb_true_iff, ltb_false_leb in Hb. unfold start_lt. eapply ltb_leb_trans; eassumption.
  - intros x Hx. apply in_app_or in Hx. destruct Hx as [Hx|Hx]; [|apply skipn_in in Hx]; apply filter_In in Hx; tauto.
Qed.
Lemma insert_region_sorted c r ok c' : sorted_starts (c_sorted c) -> insert_region c r = (ok, c') -> sorted_starts (c_sorted c').
Proof.
  intros Hs. rewrite insert_region_unfold. destruct (stale_by_latest c r); [intros H; injection H as _ <-; exact Hs|].
  destruct (remove_intersecting r (c_sorted c)) as [[l1 deleted] stale] eqn:Er. destruct stale; [intros H; injection H as _ <-; exact Hs|].
  cbv zeta. intros H; injection H as _ <-. cbn [c_sorted]. apply ins_sorted_sorted. eapply remove_intersecting_sorted; eassumption.
Qed.
Lemma insert_all_sorted : forall rs c, sorted_starts (c_sorted c) -> sorted_starts (c_sorted (insert_all c rs)).
Proof.
  induction rs as [|r t IH]; intros c Hs; [exact Hs|]. cbn [insert_all fold_left]. apply IH.
  unfold insert_new. destruct (insert_region c (stamp (c_sepochs c) r)) as [ok c1] eqn:E. cbn [snd]. eapply insert_region_sorted; eassumption.
Qed.
