(* Region/ProofsPhase2.v — BatchLocateKeyRanges / LocateKeyRange: loading the missing ranges from PD (every
   batch passes the gap check) and merging; the composed gap-free coverage theorems. *)
From Coq Require Import Sorting.Sorted.
From Verif Require Import Base.Lex Region.Model Region.Ord Region.ProofsContains Region.ProofsInsert Region.ProofsMerge Region.ProofsGap Region.ProofsPhase1.
Open Scope N_scope.

Definition all_leaders (infos : list desc) : bool := forallb (fun d => negb (fst (d_leader d) =? 0)) infos.
(* every region PD reports in a scan has a leader (otherwise LocateKeyRange leaves it out on purpose) *)
Definition pd_leaders (pd : nat -> pd_req -> pd_ans) : Prop := forall t q infos, pd t q = PdMany infos -> all_leaders infos = true.

Lemma handle_infos_all nl : forall infos rs, (nl = false \/ all_leaders infos = true) -> handle_infos infos nl = Ok rs -> rs = map new_region infos.
Proof.
  induction infos as [|d t IH]; intros rs Hl; cbn [handle_infos map]; [intros H; injection H as <-; reflexivity|].
  assert (Hc : nl && (fst (d_leader d) =? 0) = false).
  { destruct Hl as [->|Hl]; [reflexivity|]. cbn [all_leaders forallb] in Hl. apply andb_true_iff in Hl. destruct Hl as [Hl _].
    apply negb_true_iff in Hl. rewrite Hl. apply andb_false_r. }
  rewrite Hc. destruct (is_nil (d_peers d)); [discriminate|].
  destruct (handle_infos t nl) as [rs'|] eqn:E; [|discriminate]. intros H; injection H as <-. f_equal. apply IH; [|reflexivity].
  destruct Hl as [Hl|Hl]; [left; exact Hl|right]. cbn [all_leaders forallb] in Hl. apply andb_true_iff in Hl. apply Hl.
Qed.

Lemma covered_map_new infos k : dcovered infos k -> covered (map new_region infos) k.
Proof. intros [d [Hin Hc]]. exists (new_region d). split; [apply in_map; exact Hin|exact Hc]. Qed.
Lemma rev_head_last {A} (l : list A) a x d0 : rev l = a :: x -> last l d0 = a /\ l <> [].
Proof.
  intros H. assert (Hl : l = rev x ++ [a]) by (rewrite <- (rev_involutive l), H; reflexivity).
  split; [rewrite Hl; apply last_last|]. intros ->. discriminate.
Qed.
Lemma last_map_new infos d0 : infos <> [] -> r_end (last (map new_region infos) (new_region d0)) = d_end (last infos d0).
Proof.
  induction infos as [|d t IH]; [congruence|]. intros _. destruct t as [|d2 t2]; [reflexivity|].
  change (map new_region (d :: d2 :: t2)) with (new_region d :: map new_region (d2 :: t2)).
  rewrite (last_cons_ne (new_region d)) by discriminate. rewrite (last_cons_ne d) by discriminate. apply IH. discriminate.
Qed.

Section PD.
Variable pd : nat -> pd_req -> pd_ans.
Variable budget : nat.
Variable batch_limit : nat.

Lemma scan_loop_ok : forall fuel t q rs limit nl regs t',
  scan_loop pd budget fuel t q rs limit nl = (Ok regs, t') ->
  exists t0 infos, pd t0 q = PdMany infos /\ infos <> [] /\ regions_have_gap rs infos limit = false /\ handle_infos infos nl = Ok regs /\ regs <> [].
Proof.
  induction fuel as [|f IH]; intros t q rs limit nl regs t'; cbn [scan_loop]; [discriminate|].
  destruct (call pd budget t q) as [a|] eqn:Ec; [|discriminate]. apply call_some in Ec. destruct a as [d|infos]; [discriminate|].
  destruct (is_nil infos) eqn:En; [apply IH|]. apply is_nil_false in En.
  destruct (regions_have_gap rs infos limit) eqn:Eg; [apply IH|].
  destruct (handle_infos infos nl) as [[|r0 rs']|e] eqn:Eh; [apply IH| |discriminate].
  intros H; injection H as <- _. exists t, infos. split; [symmetry; exact Ec|]. split; [exact En|]. split; [exact Eg|]. split; [exact Eh|discriminate].
Qed.

(* one load: the regions are exactly PD's answer, which passed the gap check *)
Lemma batch_load_ranges_ok fuel t c rs count nl regs c' t' :
  rs <> [] -> (nl = true -> pd_leaders pd) ->
  batch_load_ranges pd budget fuel t c rs count nl = (Ok regs, c', t') ->
  exists infos, infos <> [] /\ regions_have_gap rs infos count = false /\ regs = map new_region infos /\ c' = insert_all c regs.
Proof.
  intros Hne Hl. unfold batch_load_ranges. destruct rs as [|r0 rs']; [congruence|]. destruct count as [|n]; [discriminate|].
  destruct (scan_loop pd budget fuel t (ReqBatch (r0 :: rs') (S n)) (r0 :: rs') (S n) nl) as [[regs0|e] t1] eqn:Es; [|discriminate].
  intros H; injection H as <- <- _. destruct (scan_loop_ok _ _ _ _ _ _ _ _ Es) as [t0 [infos [Hp [Hn [Hg [Hh _]]]]]].
  exists infos. split; [exact Hn|]. split; [exact Hg|]. split; [|reflexivity]. apply (handle_infos_all nl); [|exact Hh].
  destruct nl; [right; apply (Hl eq_refl t0 _ infos Hp)|left; reflexivity].
Qed.

Lemma batch_load_ranges_pd fuel t c rs count nl regs c' t' :
  rs <> [] -> (nl = true -> pd_leaders pd) ->
  batch_load_ranges pd budget fuel t c rs count nl = (Ok regs, c', t') ->
  exists t0 infos, pd t0 (ReqBatch rs count) = PdMany infos /\ infos <> [] /\ regions_have_gap rs infos count = false /\ regs = map new_region infos.
Proof.
  intros Hne Hl. unfold batch_load_ranges. destruct rs as [|r0 rs']; [congruence|]. destruct count as [|n]; [discriminate|].
  destruct (scan_loop pd budget fuel t (ReqBatch (r0 :: rs') (S n)) (r0 :: rs') (S n) nl) as [[regs0|e] t1] eqn:Es; [|discriminate].
  intros H; injection H as <- _ _. destruct (scan_loop_ok _ _ _ _ _ _ _ _ Es) as [t0 [infos [Hp [Hn [Hg [Hh _]]]]]].
  exists t0, infos. split; [exact Hp|]. split; [exact Hn|]. split; [exact Hg|]. apply (handle_infos_all nl); [|exact Hh].
  destruct nl; [right; apply (Hl eq_refl t0 _ infos Hp)|left; reflexivity].
Qed.

Lemma ranges_after_key_length rs split : (length (ranges_after_key rs split) <= length rs)%nat.
Proof.
  unfold ranges_after_key. destruct rs as [|r0 t] eqn:E; [cbn; lia|]. rewrite <- E.
  destruct (is_nil split || negb (is_nil (snd (last rs ([], [])))) && lex_leb (snd (last rs ([], []))) split); [cbn; lia|].
  destruct (drop_covered_suffix split rs) as [done Hd]. destruct (drop_covered rs split) as [|[s e] t2] eqn:Ed; [cbn; lia|].
  apply (f_equal (@length range)) in Hd. rewrite app_length in Hd. cbn [length] in *. lia.
Qed.

Lemma phase2_covers cs0 nl : (nl = true -> pd_leaders pd) -> forall fuel t c un m m' c' t',
  ranges_wf un -> (length un <= 16 * batch_limit)%nat -> minv cs0 m ->
  phase2 pd budget batch_limit fuel t c un m nl = (Ok m', c', t') ->
  minv cs0 m' /\ (forall x, In x (snd m) -> In x (snd m')) /\ forall k, in_ranges un k -> covered (snd m') k.
Proof.
  intros Hl. induction fuel as [|f IH]; intros t c un m m' c' t' Hwf Hlen Hm.
  - destruct un as [|r0 un']; cbn [phase2]; [|discriminate].
    intros H; injection H as <- _ _. split; [exact Hm|]. split; [exact (fun x H => H)|]. intros k [s [e [[] _]]].
  - destruct un as [|r0 un'] eqn:Eun; [cbn [phase2]; intros H; injection H as <- _ _; split; [exact Hm|]; split; [exact (fun x H => H)|]; intros k [s [e [[] _]]]|].
    rewrite <- Eun in *. assert (Hne : un <> []) by (rewrite Eun; discriminate).
    replace (phase2 pd budget batch_limit (S f) t c un m nl) with
      (match batch_load_ranges pd budget (S f) t c (firstn (16 * batch_limit) un) batch_limit nl with
       | (Err x, c1, t1) => (Err x, c1, t1)
       | (Ok regs, c1, t1) =>
           match rev regs with
           | [] => (Err 5, c1, t1)
           | lastr :: _ => phase2 pd budget batch_limit f t1 c1 (ranges_after_key un (r_end lastr)) (fold_left append_region regs m) nl
           end
       end) by (rewrite Eun; reflexivity).
    rewrite (firstn_all2 un Hlen).
    destruct (batch_load_ranges pd budget (S f) t c un batch_limit nl) as [[[regs|e] c1] t1] eqn:Eb; [|discriminate].
    destruct (batch_load_ranges_ok _ _ _ _ _ _ _ _ _ Hne Hl Eb) as [infos [Hn [Hg [Hregs _]]]].
    destruct (rev regs) as [|lastr x] eqn:Er; [discriminate|].
    destruct (rev_head_last regs lastr x (new_region (mkDesc 0 [] [] 0 0 [] (0, 0) None)) Er) as [Hlast _].
    destruct (fold_append_inv cs0 regs m Hm) as [Hm1 Hout1].
    intros H. apply IH in H; [|apply ranges_after_key_wf; exact Hwf|pose proof (ranges_after_key_length un (r_end lastr)); lia|exact Hm1].
    destruct H as [H1 [H2 H3]]. split; [exact H1|]. split; [intros y Hy; apply H2, Hout1; left; exact Hy|].
    intros k Hk. destruct (regions_have_gap_sound un infos batch_limit Hwf Hg k Hk) as [Hc|[_ Hc]].
    + apply covered_map_new in Hc. rewrite <- Hregs in Hc. eapply covered_mono; [|exact Hc]. intros y Hy. apply H2, Hout1. right; exact Hy.
    + specialize (Hc (mkDesc 0 [] [] 0 0 [] (0, 0) None)). destruct Hc as [Hc1 Hc2].
      assert (Hend : r_end lastr = d_end (last infos (mkDesc 0 [] [] 0 0 [] (0, 0) None))).
      { rewrite <- Hlast, Hregs. apply last_map_new. exact Hn. }
      apply H3. apply ranges_after_key_keeps; [exact Hwf|rewrite Hend; exact Hc1|exact Hk|rewrite Hend; exact Hc2].
Qed.

(* ---- any number of ranges: the chunks of 16*batch_limit ranges ---- *)
Definition last_end (rs : list range) : bytes := snd (last rs ([], [])).
(* PD answers a batch scan only with regions that overlap the ranges asked: none starts at or after the end of the last one *)
Definition pd_no_junk (pd : nat -> pd_req -> pd_ans) : Prop :=
  forall t rs limit infos, pd t (ReqBatch rs limit) = PdMany infos ->
    forall d, In d infos -> last_end rs = [] \/ lex_ltb (d_start d) (last_end rs) = true.

Lemma wf_prefix : forall a b, ranges_wf (a ++ b) -> ranges_wf a.
Proof.
  induction a as [|[s e] t IH]; intros b H; [exact I|]. cbn [app ranges_wf] in *. destruct H as [H1 [H2 H3]].
  split; [exact H1|]. split; [|apply (IH b); exact H3]. destruct t as [|[s1 e1] t']; [exact I|exact H2].
Qed.
Lemma wf_split_order : forall a b, ranges_wf (a ++ b) -> a <> [] ->
  forall s' e', In (s', e') b -> last_end a <> [] /\ lex_leb (last_end a) s' = true.
Proof.
  induction a as [|[s e] t IH]; intros b H Hne s' e' Hin; [congruence|]. destruct t as [|r2 t'].
  - unfold last_end. cbn [last snd]. cbn [app] in H. exact (ranges_wf_later s e b H s' e' Hin).
  - unfold last_end. rewrite last_cons_ne by discriminate. apply (IH b (ranges_wf_tail _ _ H) ltac:(discriminate) s' e' Hin).
Qed.
Lemma last_in {A} (l : list A) d : l <> [] -> In (last l d) l.
Proof.
  induction l as [|x t IH]; [congruence|]. intros _. destruct t as [|y t']; [left; reflexivity|].
  right. change (last (x :: y :: t') d) with (last (y :: t') d). apply IH. discriminate.
Qed.
Lemma last_map_new_start infos d0 : infos <> [] -> r_start (last (map new_region infos) (new_region d0)) = d_start (last infos d0).
Proof.
  induction infos as [|d t IH]; [congruence|]. intros _. destruct t as [|d2 t2]; [reflexivity|].
  change (map new_region (d :: d2 :: t2)) with (new_region d :: map new_region (d2 :: t2)).
  rewrite (last_cons_ne (new_region d)) by discriminate. rewrite (last_cons_ne d) by discriminate. apply IH. discriminate.
Qed.

Lemma phase2_covers_any cs0 nl : (nl = true -> pd_leaders pd) -> pd_no_junk pd -> forall fuel t c un m m' c' t',
  ranges_wf un -> minv cs0 m ->
  phase2 pd budget batch_limit fuel t c un m nl = (Ok m', c', t') ->
  minv cs0 m' /\ (forall x, In x (snd m) -> In x (snd m')) /\ forall k, in_ranges un k -> covered (snd m') k.
Proof.
  intros Hl Hjunk. induction fuel as [|f IH]; intros t c un m m' c' t' Hwf Hm.
  - destruct un as [|r0 un']; cbn [phase2]; [|discriminate].
    intros H; injection H as <- _ _. split; [exact Hm|]. split; [exact (fun x H => H)|]. intros k [s [e [[] _]]].
  - destruct un as [|r0 un'] eqn:Eun; [cbn [phase2]; intros H; injection H as <- _ _; split; [exact Hm|]; split; [exact (fun x H => H)|]; intros k [s [e [[] _]]]|].
    rewrite <- Eun in *. assert (Hne : un <> []) by (rewrite Eun; discriminate).
    replace (phase2 pd budget batch_limit (S f) t c un m nl) with
      (match batch_load_ranges pd budget (S f) t c (firstn (16 * batch_limit) un) batch_limit nl with
       | (Err x, c1, t1) => (Err x, c1, t1)
       | (Ok regs, c1, t1) =>
           match rev regs with
           | [] => (Err 5, c1, t1)
           | lastr :: _ => phase2 pd budget batch_limit f t1 c1 (ranges_after_key un (r_end lastr)) (fold_left append_region regs m) nl
           end
       end) by (rewrite Eun; reflexivity).
    set (sent := firstn (16 * batch_limit) un). set (rest := skipn (16 * batch_limit) un).
    assert (Hsplit : un = sent ++ rest) by (symmetry; apply firstn_skipn).
    destruct (batch_load_ranges pd budget (S f) t c sent batch_limit nl) as [[[regs|e] c1] t1] eqn:Eb; [|discriminate].
    destruct sent as [|s0 sent'] eqn:Esent.
    { (* nothing is sent only if batch_limit = 0: then nothing is loaded and the call fails *)
      cbn [batch_load_ranges] in Eb. injection Eb as <- _ _. cbn [rev]. discriminate. }
    rewrite <- Esent in *. assert (Hsne : sent <> []) by (rewrite Esent; discriminate).
    destruct (batch_load_ranges_pd _ _ _ _ _ _ _ _ _ Hsne Hl Eb) as [t0 [infos [Hp [Hn [Hg Hregs]]]]].
    destruct (rev regs) as [|lastr x] eqn:Er; [discriminate|].
    set (d0 := mkDesc 0 [] [] 0 0 [] (0, 0) None).
    destruct (rev_head_last regs lastr x (new_region d0) Er) as [Hlast _].
    destruct (fold_append_inv cs0 regs m Hm) as [Hm1 Hout1].
    assert (Hend : r_end lastr = d_end (last infos d0)) by (rewrite <- Hlast, Hregs; apply last_map_new; exact Hn).
    assert (Hstart : r_start lastr = d_start (last infos d0)) by (rewrite <- Hlast, Hregs; apply last_map_new_start; exact Hn).
    assert (Hlastin : In lastr regs) by (rewrite <- Hlast; apply last_in; intros E; rewrite E in Er; discriminate).
    intros H. apply IH in H; [|apply ranges_after_key_wf; exact Hwf|exact Hm1].
    destruct H as [H1 [H2 H3]]. split; [exact H1|]. split; [intros y Hy; apply H2, Hout1; left; exact Hy|].
    assert (Hwfs : ranges_wf sent) by (apply (wf_prefix sent rest); rewrite <- Hsplit; exact Hwf).
    assert (Hcovregs : forall k, covered regs k -> covered (snd m') k).
    { intros k. apply covered_mono. intros y Hy. apply H2, Hout1. right; exact Hy. }
    intros k Hk. rewrite Hsplit in Hk. apply in_ranges_app in Hk. destruct Hk as [Hk|Hk].
    + assert (Hkun : in_ranges un k) by (rewrite Hsplit; apply in_ranges_app; left; exact Hk).
      destruct (regions_have_gap_sound sent infos batch_limit Hwfs Hg k Hk) as [Hc|[_ Hc]].
      * apply Hcovregs. rewrite Hregs. apply covered_map_new. exact Hc.
      * specialize (Hc d0). destruct Hc as [Hc1 Hc2]. apply H3. apply ranges_after_key_keeps; [exact Hwf|rewrite Hend; exact Hc1|exact Hkun|rewrite Hend; exact Hc2].
    + (* a range that was not sent: it lies at or after the end of the last sent range, where the last returned region starts before *)
      assert (Hkun : in_ranges un k) by (rewrite Hsplit; apply in_ranges_app; right; exact Hk).
      destruct Hk as [s' [e' [Hin [Hk1 Hk2]]]].
      destruct (wf_split_order sent rest ltac:(rewrite <- Hsplit; exact Hwf) Hsne s' e' Hin) as [He1 He2].
      destruct (Hjunk t0 sent batch_limit infos Hp (last infos d0) (last_in infos d0 Hn)) as [Hj|Hj]; [congruence|].
      destruct (is_nil (r_end lastr)) eqn:Enil.
      * apply is_nil_true in Enil. apply Hcovregs. exists lastr. split; [exact Hlastin|]. apply r_contains_spec. split; [|left; exact Enil].
        rewrite Hstart. apply ltb_leb. eapply ltb_leb_trans; [exact Hj|]. eapply leb_trans; [exact He2|exact Hk1].
      * apply is_nil_false in Enil. destruct (lex_ltb k (r_end lastr)) eqn:Ek.
        -- apply Hcovregs. exists lastr. split; [exact Hlastin|]. apply r_contains_spec. split; [|right; exact Ek].
           rewrite Hstart. apply ltb_leb. eapply ltb_leb_trans; [exact Hj|]. eapply leb_trans; [exact He2|exact Hk1].
        -- apply ltb_false_leb in Ek. apply H3. apply ranges_after_key_keeps; [exact Hwf|exact Enil|exact Hkun|exact Ek].
Qed.

(* BatchLocateKeyRanges with ANY number of ranges (PD returns no region beyond the ranges asked) *)
Lemma batch_locate_covers_any fuel t c rs nl locs c' t' :
  sorted_starts (c_sorted c) -> ranges_wf rs -> (nl = true -> pd_leaders pd) -> pd_no_junk pd ->
  batch_locate pd budget batch_limit fuel t c rs nl = (Ok locs, c', t') ->
  forall k, in_ranges rs k -> covered locs k.
Proof.
  intros Hs Hwf Hl Hj. unfold batch_locate.
  destruct (phase1 batch_limit c rs None [] []) as [cs un] eqn:E1.
  destruct (phase1_spec c batch_limit Hs rs None [] [] cs un Hwf ltac:(constructor) ltac:(intros x []) ltac:(intros x s e []) ltac:(intros l H; discriminate) E1)
    as [Hcs [_ [un_new [Hun [Href Hcov]]]]]. cbn [app] in Hun. subst un_new.
  assert (H0 : minv cs (None, cs, [])).
  { split; [exact Hcs|]. split; [|exact I]. intros x k Hx Hk. right. exists x. split; assumption. }
  destruct (phase2 pd budget batch_limit fuel t c un (None, cs, []) nl) as [[[m|e] c1] t1] eqn:E2; [|discriminate].
  intros H; injection H as <- _ _.
  destruct (phase2_covers_any cs nl Hl Hj fuel t c un _ m c1 t1 (refines_wf _ _ Href Hwf) H0 E2) as [Hm [_ Hc]].
  intros k Hk. apply (merger_build_covers cs); [exact Hm|].
  destruct (Hcov k Hk) as [[x [Hx Hxk]]|Hu]; [right; exists x; split; assumption|left; apply Hc; exact Hu].
Qed.

(* BatchLocateKeyRanges: the merged locations cover every requested range *)
Lemma batch_locate_covers fuel t c rs nl locs c' t' :
  sorted_starts (c_sorted c) -> ranges_wf rs -> (length rs <= 16 * batch_limit)%nat -> (nl = true -> pd_leaders pd) ->
  batch_locate pd budget batch_limit fuel t c rs nl = (Ok locs, c', t') ->
  forall k, in_ranges rs k -> covered locs k.
Proof.
  intros Hs Hwf Hlen Hl. unfold batch_locate.
  destruct (phase1 batch_limit c rs None [] []) as [cs un] eqn:E1.
  destruct (phase1_spec c batch_limit Hs rs None [] [] cs un Hwf ltac:(constructor) ltac:(intros x []) ltac:(intros x s e []) ltac:(intros l H; discriminate) E1)
    as [Hcs [_ [un_new [Hun [Href Hcov]]]]]. cbn [app] in Hun. subst un_new.
  assert (H0 : minv cs (None, cs, [])).
  { split; [exact Hcs|]. split; [|exact I]. intros x k Hx Hk. right. exists x. split; assumption. }
  destruct (phase2 pd budget batch_limit fuel t c un (None, cs, []) nl) as [[[m|e] c1] t1] eqn:E2; [|discriminate].
  intros H; injection H as <- _ _.
  destruct (phase2_covers cs nl Hl fuel t c un _ m c1 t1 (refines_wf _ _ Href Hwf) ltac:(pose proof (refines_length _ _ Href); lia) H0 E2) as [Hm [_ Hc]].
  intros k Hk. apply (merger_build_covers cs); [exact Hm|].
  destruct (Hcov k Hk) as [[x [Hx Hxk]]|Hu]; [right; exists x; split; assumption|left; apply Hc; exact Hu].
Qed.

(* LocateKeyRange: the cached walk plus the loaded batches cover [s, e) *)
Lemma cached_walk_spec c e : forall n s acc,
  match cached_walk n c s e acc with
  | WDone res => (forall x, In x acc -> In x res) /\ forall k, lex_leb s k = true -> (e = [] \/ lex_ltb k e = true) -> covered res k
  | WNeed s1 acc1 => (forall x, In x acc -> In x acc1) /\ forall k, lex_leb s k = true -> lex_ltb k s1 = true -> covered acc1 k
  | WFuel => True
  end.
Proof.
  induction n as [|n IH]; intros s acc; cbn [cached_walk]; [exact I|].
  destruct (try_find c s false) as [r|] eqn:Et.
  2:{ split; [exact (fun x H => H)|]. intros k H1 H2. exfalso. apply leb_not_ltb in H1. congruence. }
  pose proof (try_find_holds c s false r Et) as Hc. cbn [holds] in Hc.
  assert (Hrs : lex_leb (r_start r) s = true) by (apply r_contains_spec in Hc; apply Hc).
  destruct (r_contains_end r e) eqn:Ee.
  - split; [intros x Hx; apply in_or_app; left; exact Hx|]. intros k H1 H2. exists r. split; [apply in_or_app; right; left; reflexivity|].
    eapply contains_end_covers; [exact Ee|exact Hrs|exact H1|exact H2].
  - specialize (IH (r_end r) (acc ++ [r])).
    assert (Hr : forall k, lex_leb s k = true -> lex_ltb k (r_end r) = true -> r_contains r k = true).
    { intros k H1 H2. apply r_contains_spec. split; [eapply leb_trans; eassumption|right; exact H2]. }
    destruct (cached_walk n c (r_end r) e (acc ++ [r])) as [res|s1 acc1|]; [| |exact I].
    + destruct IH as [I1 I2]. split; [intros x Hx; apply I1; apply in_or_app; left; exact Hx|].
      intros k H1 H2. destruct (lex_ltb k (r_end r)) eqn:Ek.
      * exists r. split; [apply I1; apply in_or_app; right; left; reflexivity|apply Hr; assumption].
      * apply ltb_false_leb in Ek. apply I2; assumption.
    + destruct IH as [I1 I3]. split; [intros x Hx; apply I1; apply in_or_app; left; exact Hx|].
      intros k H1 H2. destruct (lex_ltb k (r_end r)) eqn:Ek.
      * exists r. split; [apply I1; apply in_or_app; right; left; reflexivity|apply Hr; assumption].
      * apply ltb_false_leb in Ek. apply I3; assumption.
Qed.

Lemma locate_key_range_covers (Hl : pd_leaders pd) s0 e : forall fuel t c s acc res c' t',
  (forall k, lex_leb s0 k = true -> (e = [] \/ lex_ltb k e = true) -> lex_ltb k s = true -> covered acc k) ->
  locate_key_range pd budget batch_limit fuel t c s e acc = (Ok res, c', t') ->
  forall k, lex_leb s0 k = true -> (e = [] \/ lex_ltb k e = true) -> covered res k.
Proof.
  induction fuel as [|f IH]; intros t c s acc res c' t' Hacc; cbn [locate_key_range]; [discriminate|].
  pose proof (cached_walk_spec c e (S (length (c_sorted c))) s acc) as Hw.
  destruct (cached_walk (S (length (c_sorted c))) c s e acc) as [res0|s1 acc1|]; [| |discriminate].
  - destruct Hw as [W1 W2]. intros H; injection H as <- _ _. intros k H1 H2.
    destruct (lex_ltb k s) eqn:Ek; [eapply covered_mono; [exact W1|apply Hacc; assumption]|]. apply ltb_false_leb in Ek. apply W2; assumption.
  - destruct Hw as [W1 W2].
    destruct (batch_load_ranges pd budget (S f) t c [(s1, e)] batch_limit true) as [[[regs|x] c1] t1] eqn:Eb; [|discriminate].
    destruct (batch_load_ranges_ok (S f) t c [(s1, e)] batch_limit true regs c1 t1 ltac:(discriminate) (fun _ => Hl) Eb) as [infos [Hn [Hg [Hregs _]]]].
    destruct (rev regs) as [|lastr y] eqn:Er; [discriminate|].
    destruct (rev_head_last regs lastr y (new_region (mkDesc 0 [] [] 0 0 [] (0, 0) None)) Er) as [Hlast _].
    assert (Hend : r_end lastr = d_end (last infos (mkDesc 0 [] [] 0 0 [] (0, 0) None))).
    { rewrite <- Hlast, Hregs. apply last_map_new. exact Hn. }
    (* everything of [s0, e) below the end of the last loaded region is covered *)
    assert (Hcov : forall k, lex_leb s0 k = true -> (e = [] \/ lex_ltb k e = true) ->
              covered (acc1 ++ regs) k \/ (r_end lastr <> [] /\ lex_leb (r_end lastr) k = true)).
    { intros k H1 H2. destruct (lex_ltb k s) eqn:Ek; [left; apply covered_app_l; eapply covered_mono; [exact W1|apply Hacc; assumption]|].
      apply ltb_false_leb in Ek. destruct (lex_ltb k s1) eqn:Ek1; [left; apply covered_app_l; apply W2; assumption|]. apply ltb_false_leb in Ek1.
      assert (Hwf : ranges_wf [(s1, e)]).
      { cbn [ranges_wf]. split; [|split; exact I]. destruct H2 as [H2|H2]; [left; exact H2|right; eapply leb_ltb_trans; eassumption]. }
      destruct (regions_have_gap_sound [(s1, e)] infos batch_limit Hwf Hg k) as [Hc|[_ Hc]].
      - exists s1, e. split; [left; reflexivity|split; assumption].
      - left. apply covered_map_new in Hc. rewrite <- Hregs in Hc. eapply covered_mono; [|exact Hc]. intros z Hz. apply in_or_app. right; exact Hz.
      - right. rewrite Hend. apply Hc. }
    destruct (r_contains_end lastr e) eqn:Ee.
    + intros H; injection H as <- _ _. intros k H1 H2. destruct (Hcov k H1 H2) as [Hc|[Hc1 Hc2]]; [exact Hc|]. exfalso.
      apply contains_by_end_spec in Ee. destruct Ee as [[-> Ee]|[Hne [_ [Ee|Ee]]]]; [congruence|congruence|].
      destruct H2 as [H2|H2]; [congruence|]. pose proof (leb_trans _ _ _ Ee Hc2) as H3. apply leb_not_ltb in H3. congruence.
    + apply IH. intros k H1 H2 H3. destruct (Hcov k H1 H2) as [Hc|[Hc1 Hc2]]; [exact Hc|]. exfalso. apply leb_not_ltb in Hc2. congruence.
Qed.
End PD.
