(* Region/ProofsGroup.v — GroupKeysByRegion: the groups are a partition of the keys, every key sits in the
   group of a location that contains it. *)
From Coq Require Import Permutation.
From Verif Require Import Base.Lex Region.Model Region.Ord Region.ProofsContains.
Open Scope N_scope.

Definition gstep (g : list (verid * list bytes)) (kr : bytes * region) := group_add (r_verid (snd kr)) (fst kr) g.
Lemma groups_of_fold asg : groups_of asg = fold_left gstep asg [].
Proof. reflexivity. Qed.

Lemma fold_groups_perm : forall asg g,
  Permutation (concat (map snd (fold_left gstep asg g))) (map fst asg ++ concat (map snd g)).
Proof.
  induction asg as [|kr rest IH]; intros g; cbn [fold_left map app]; [reflexivity|].
  eapply Permutation_trans; [apply IH|]. unfold gstep at 1.
  eapply Permutation_trans; [apply Permutation_app_head; apply group_add_perm|].
  symmetry. apply Permutation_middle.
Qed.
Lemma fold_groups_nodup : forall asg g, NoDup (map fst g) -> NoDup (map fst (fold_left gstep asg g)).
Proof.
  induction asg as [|kr rest IH]; intros g H; cbn [fold_left]; [exact H|]. apply IH. apply group_add_nodup. exact H.
Qed.
Lemma group_add_in v k g w ks x :
  In (w, ks) (group_add v k g) -> In x ks -> (exists ks', In (w, ks') g /\ In x ks') \/ (w = v /\ x = k).
Proof.
  induction g as [|[u us] t IH]; cbn [group_add]; intros Hin Hx.
  - destruct Hin as [Hin|[]]. injection Hin as <- <-. destruct Hx as [<-|[]]. right; split; reflexivity.
  - destruct (verid_eqb u v) eqn:E.
    + destruct Hin as [Hin|Hin].
      * injection Hin as <- <-. apply in_app_or in Hx. destruct Hx as [Hx|[<-|[]]].
        -- left. exists us. split; [left; reflexivity|exact Hx].
        -- right. apply verid_eqb_eq in E. split; [exact E|reflexivity].
      * left. exists ks. split; [right; exact Hin|exact Hx].
    + destruct Hin as [Hin|Hin].
      * injection Hin as <- <-. left. exists us. split; [left; reflexivity|exact Hx].
      * destruct (IH Hin Hx) as [[ks' [H1 H2]]|H]; [left; exists ks'; split; [right; exact H1|exact H2]|right; exact H].
Qed.
Lemma fold_groups_in (Q : verid -> bytes -> Prop) : forall asg g,
  (forall v ks k, In (v, ks) g -> In k ks -> Q v k) ->
  (forall kr, In kr asg -> Q (r_verid (snd kr)) (fst kr)) ->
  forall v ks k, In (v, ks) (fold_left gstep asg g) -> In k ks -> Q v k.
Proof.
  induction asg as [|kr rest IH]; intros g Hg Ha v ks k; cbn [fold_left]; [apply Hg|].
  apply IH.
  - intros v' ks' k' Hin Hk. unfold gstep in Hin. destruct (group_add_in _ _ _ _ _ _ Hin Hk) as [[ks2 [H1 H2]]|[-> ->]].
    + eapply Hg; eassumption.
    + apply Ha. left; reflexivity.
  - intros kr' Hin. apply Ha. right; exact Hin.
Qed.

(* the statement used by Props: partition + containment *)
Lemma groups_partition asg :
  Permutation (concat (map snd (groups_of asg))) (map fst asg) /\
  NoDup (map fst (groups_of asg)) /\
  (forall v ks k, In (v, ks) (groups_of asg) -> In k ks -> exists r, In (k, r) asg /\ r_verid r = v).
Proof.
  rewrite groups_of_fold. split; [|split].
  - eapply Permutation_trans; [apply fold_groups_perm|]. cbn. rewrite app_nil_r. reflexivity.
  - apply fold_groups_nodup. constructor.
  - apply (fold_groups_in (fun v k => exists r, In (k, r) asg /\ r_verid r = v)).
    + intros v ks k [].
    + intros [k r] Hin. exists r. split; [exact Hin|reflexivity].
Qed.
