(* Region/GroupFilter.v — GroupKeysByRegion with a filter (tikv.equalRegionStartKey is the only filter in the code base):
   the filter is consulted only for a key that made the function look a location up; keys served from the last location
   are grouped without asking it. Faithful model, its relation to the unfiltered function, what holds for strictly
   increasing keys and the counterexample for unsorted / repeated keys. *)
From Coq Require Import Sorting.Sorted.
From Verif Require Import Base.Lex Region.Model Region.Ord Region.ProofsContains.
Open Scope N_scope.

Section PD.
Variable pd : nat -> pd_req -> pd_ans.
Variable budget : nat.

Fixpoint group_assign_f (flt : bytes -> bytes -> bool) (fuel t : nat) (c : cache) (keys : list bytes) (lastl : option region)
    (acc : list (bytes * region)) : res (list (bytes * region)) * cache * nat :=
  match keys with
  | [] => (Ok acc, c, t)
  | k :: rest =>
      match (match lastl with Some l => if r_contains l k then Some l else None | None => None end) with
      | Some l => group_assign_f flt fuel t c rest lastl (acc ++ [(k, l)])
      | None =>
          match find_region_by_key pd budget fuel t c k false with
          | (Err x, c1, t1) => (Err x, c1, t1)
          | (Ok r, c1, t1) =>
              if flt k (r_start r) then group_assign_f flt fuel t1 c1 rest (Some r) acc
              else group_assign_f flt fuel t1 c1 rest (Some r) (acc ++ [(k, r)])
          end
      end
  end.

(* without a filter it is GroupKeysByRegion as modelled before *)
Lemma group_assign_f_none : forall keys fuel t c lastl acc,
  group_assign_f (fun _ _ => false) fuel t c keys lastl acc = group_assign pd budget fuel t c keys lastl acc.
Proof.
  induction keys as [|k rest IH]; intros fuel t c lastl acc; cbn [group_assign_f group_assign]; [reflexivity|].
  destruct (match lastl with Some l => if r_contains l k then Some l else None | None => None end); [apply IH|].
  destruct (find_region_by_key pd budget fuel t c k false) as [[[r|e] c1] t1]; [apply IH|reflexivity].
Qed.

Hypothesis Hget : pd_get_sound pd.
Hypothesis Hprev : pd_prev_sound pd.

Definition eq_start (k s : bytes) : bool := bytes_eqb k s.

(* strictly increasing keys: no grouped key is the start key of its location (the split key filter does what it is for),
   every grouped key is in its location, and the grouped keys are the keys in order minus the skipped ones *)
Lemma group_filter_sorted : forall keys fuel t c lastl acc asg c' t',
  StronglySorted (fun a b => lex_ltb a b = true) keys ->
  (forall l, lastl = Some l -> exists k0, r_contains l k0 = true /\ forall k, In k keys -> lex_ltb k0 k = true) ->
  (forall kr, In kr acc -> r_contains (snd kr) (fst kr) = true /\ fst kr <> r_start (snd kr)) ->
  group_assign_f eq_start fuel t c keys lastl acc = (Ok asg, c', t') ->
  forall kr, In kr asg -> r_contains (snd kr) (fst kr) = true /\ fst kr <> r_start (snd kr).
Proof.
  induction keys as [|k rest IH]; intros fuel t c lastl acc asg c' t' Hs Hl Hacc; cbn [group_assign_f].
  - intros H; injection H as <- _ _. exact Hacc.
  - inversion Hs as [|? ? Hs' Hk]; subst.
    destruct (match lastl with Some l => if r_contains l k then Some l else None | None => None end) as [l|] eqn:El.
    + destruct lastl as [l0|]; [|discriminate]. destruct (r_contains l0 k) eqn:E; [|discriminate]. injection El as <-.
      apply IH; [exact Hs'| |].
      * intros l Hl0. injection Hl0 as <-. destruct (Hl l0 eq_refl) as [k0 [A B]]. exists k0. split; [exact A|intros k1 Hk1; apply B; right; exact Hk1].
      * intros kr Hin. apply in_app_or in Hin. destruct Hin as [Hin|[<-|[]]]; [apply Hacc; exact Hin|]. cbn [fst snd]. split; [exact E|].
        destruct (Hl l0 eq_refl) as [k0 [A B]]. pose proof (B k (or_introl eq_refl)) as Hlt.
        apply contains_spec in A. destruct A as [A _]. intros Heq. rewrite <- Heq in A. apply leb_not_ltb in A. congruence.
    + destruct (find_region_by_key pd budget fuel t c k false) as [[[r|e] c1] t1] eqn:Ef; [|discriminate].
      pose proof (find_region_by_key_holds pd budget Hget Hprev _ _ _ _ false _ _ _ Ef) as Hc. cbn [holds] in Hc.
      assert (Hnext : forall l, Some r = Some l -> exists k0, r_contains l k0 = true /\ forall k1, In k1 rest -> lex_ltb k0 k1 = true).
      { intros l Hl0. injection Hl0 as <-. exists k. split; [exact Hc|]. intros k1 Hk1. apply (proj1 (Forall_forall _ _) Hk k1 Hk1). }
      destruct (eq_start k (r_start r)) eqn:Efl.
      * apply IH; [exact Hs'|exact Hnext|exact Hacc].
      * apply IH; [exact Hs'|exact Hnext|].
        intros kr Hin. apply in_app_or in Hin. destruct Hin as [Hin|[<-|[]]]; [apply Hacc; exact Hin|]. cbn [fst snd]. split; [exact Hc|].
        intros Heq. unfold eq_start in Efl. rewrite Heq, bytes_eqb_refl in Efl. discriminate.
Qed.

(* any filter, any keys: there is one decision per key, in order — the location the key was grouped under or looked up
   (it contains the key) and whether the key was kept; a key is dropped only when the filter said so about the location
   found for THAT key; the result lists the kept keys in order, each exactly once *)
Lemma group_filter_any flt : forall keys fuel t c lastl acc asg c' t',
  group_assign_f flt fuel t c keys lastl acc = (Ok asg, c', t') ->
  exists ds : list (bytes * region * bool),
    map (fun d => fst (fst d)) ds = keys /\
    (forall k r b, In (k, r, b) ds -> r_contains r k = true /\ (b = false -> flt k (r_start r) = true)) /\
    asg = acc ++ map fst (filter (fun d => snd d) ds).
Proof.
  induction keys as [|k rest IH]; intros fuel t c lastl acc asg c' t'; cbn [group_assign_f].
  - intros H; injection H as <- _ _. exists []. split; [reflexivity|split; [intros k r b []|cbn; rewrite app_nil_r; reflexivity]].
  - destruct (match lastl with Some l => if r_contains l k then Some l else None | None => None end) as [l|] eqn:El.
    + destruct lastl as [l0|]; [|discriminate]. destruct (r_contains l0 k) eqn:E; [|discriminate]. injection El as <-.
      intros H. apply IH in H. destruct H as [ds [A [B C]]]. exists ((k, l0, true) :: ds). split; [cbn [map fst]; rewrite A; reflexivity|]. split.
      * intros k1 r1 b1 [Heq|Hin]; [injection Heq as <- <- <-; split; [exact E|discriminate]|apply (B k1 r1 b1 Hin)].
      * rewrite C. cbn [filter snd map fst]. rewrite <- app_assoc. reflexivity.
    + destruct (find_region_by_key pd budget fuel t c k false) as [[[r|e] c1] t1] eqn:Ef; [|discriminate].
      pose proof (find_region_by_key_holds pd budget Hget Hprev _ _ _ _ false _ _ _ Ef) as Hc. cbn [holds] in Hc.
      destruct (flt k (r_start r)) eqn:Efl; intros H; apply IH in H; destruct H as [ds [A [B C]]].
      * exists ((k, r, false) :: ds). split; [cbn [map fst]; rewrite A; reflexivity|]. split.
        -- intros k1 r1 b1 [Heq|Hin]; [injection Heq as <- <- <-; split; [exact Hc|intros _; exact Efl]|apply (B k1 r1 b1 Hin)].
        -- rewrite C. reflexivity.
      * exists ((k, r, true) :: ds). split; [cbn [map fst]; rewrite A; reflexivity|]. split.
        -- intros k1 r1 b1 [Heq|Hin]; [injection Heq as <- <- <-; split; [exact Hc|discriminate]|apply (B k1 r1 b1 Hin)].
        -- rewrite C. cbn [filter snd map fst]. rewrite <- app_assoc. reflexivity.
Qed.
End PD.
