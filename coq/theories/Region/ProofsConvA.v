(* Region/ProofsConvA.v — tools for the convergence proof: which entries an insertion keeps, what a search
   returns afterwards (the inserted region for its keys; never a previously shadowed entry), entry updates. *)
From Coq Require Import Sorting.Sorted.
From Verif Require Import Base.Lex Region.Model Region.Ord Region.ProofsContains Region.ProofsInsert Region.ProofsMerge Region.ProofsPhase1.
Open Scope N_scope.

(* x starts inside r's range *)
Definition starts_in (r x : region) : Prop :=
  lex_leb (r_start r) (r_start x) = true /\ (r_end r = [] \/ lex_ltb (r_start x) (r_end r) = true).

Lemma sorted_in_eq l x y : sorted_starts l -> In x l -> In y l -> r_start x = r_start y -> x = y.
Proof.
  induction 1 as [|a t Hst IH Hall]; intros Hx Hy He; [destruct Hx|]. rewrite Forall_forall in Hall.
  destruct Hx as [<-|Hx], Hy as [<-|Hy]; [reflexivity| | |apply IH; assumption].
  - exfalso. specialize (Hall y Hy). unfold start_lt in Hall. rewrite He, ltb_irrefl in Hall. discriminate.
  - exfalso. specialize (Hall x Hx). unfold start_lt in Hall. rewrite <- He, ltb_irrefl in Hall. discriminate.
Qed.

(* ---- what scan_inter deletes ---- *)
Lemma scan_inter_split r : forall l d, scan_inter r l = (d, false) ->
  exists rest, l = d ++ rest /\ (forall x, In x d -> r_ver x <= r_ver r) /\
    (forall x, In x d -> r_end r = [] \/ lex_ltb (r_start x) (r_end r) = true) /\
    match rest with [] => True | y :: _ => r_end r <> [] /\ lex_leb (r_end r) (r_start y) = true end.
Proof.
  induction l as [|x t IH]; intros d; cbn [scan_inter].
  - intros H; injection H as <-. exists []. repeat split; intros ? [].
  - destruct (negb (is_nil (r_end r)) && lex_leb (r_end r) (r_start x)) eqn:Es.
    + intros H; injection H as <-. exists (x :: t). split; [reflexivity|]. split; [intros ? []|]. split; [intros ? []|].
      apply andb_true_iff in Es. destruct Es as [E1 E2]. apply negb_true_iff, is_nil_false in E1. split; assumption.
    + destruct (r_ver r <? r_ver x) eqn:Ev; [discriminate|]. destruct (scan_inter r t) as [d' s'] eqn:Et.
      intros H; injection H as <- ->. destruct (IH d' eq_refl) as [rest [H1 [H2 [H3 H4]]]].
      exists rest. split; [cbn [app]; rewrite <- H1; reflexivity|]. split; [|split; [|exact H4]].
      * intros y [<-|Hy]; [apply N.ltb_ge in Ev; exact Ev|apply H2; exact Hy].
      * intros y [<-|Hy]; [|apply H3; exact Hy]. apply andb_false_iff in Es. destruct Es as [Es|Es].
        -- left. apply negb_false_iff, is_nil_true in Es. exact Es.
        -- right. apply leb_false_ltb. exact Es.
Qed.

Lemma lo_hi_in r l x : In x l <-> In x (lo_part r l) \/ In x (hi_part r l).
Proof.
  unfold lo_part, hi_part. rewrite !filter_In. destruct (lex_ltb (r_start x) (r_start r)); cbn [negb]; intuition congruence.
Qed.

(* the entries an accepted insertion keeps are exactly those that do not start inside the new range *)
Lemma remove_intersecting_spec r l l1 d :
  sorted_starts l -> remove_intersecting r l = (l1, d, false) ->
  (forall x, In x l1 <-> In x l /\ ~ starts_in r x) /\ (forall x, In x d <-> In x l /\ starts_in r x) /\
  (forall x, In x d -> r_ver x <= r_ver r).
Proof.
  intros Hs. unfold remove_intersecting. destruct (scan_inter r (hi_part r l)) as [d0 s] eqn:Esc. destruct s; [discriminate|].
  intros H; injection H as <- <-. destruct (scan_inter_split r _ _ Esc) as [rest [H1 [H2 [H3 H4]]]].
  assert (Hhs : sorted_starts (hi_part r l)) by (apply filter_sorted; exact Hs).
  assert (Hhi : forall x, In x (hi_part r l) -> lex_leb (r_start r) (r_start x) = true).
  { intros x Hx. apply filter_In in Hx. destruct Hx as [_ Hx]. apply negb_true_iff in Hx. apply ltb_false_leb. exact Hx. }
  assert (Hlo : forall x, In x (lo_part r l) -> lex_ltb (r_start x) (r_start r) = true).
  { intros x Hx. apply filter_In in Hx. tauto. }
  assert (Hsk : skipn (length d0) (hi_part r l) = rest).
  { rewrite H1. rewrite skipn_app, skipn_all, Nat.sub_diag. reflexivity. }
  assert (Hrest : forall x, In x rest -> r_end r <> [] /\ lex_leb (r_end r) (r_start x) = true).
  { intros x Hx. destruct rest as [|y rest']; [destruct Hx|]. destruct H4 as [H4a H4b]. split; [exact H4a|].
    destruct Hx as [<-|Hx]; [exact H4b|]. rewrite H1 in Hhs.
    assert (Hyr : sorted_starts (y :: rest')).
    { clear - Hhs. induction d0 as [|a d0 IH]; [exact Hhs|]. cbn [app] in Hhs. inversion Hhs; subst. apply IH; assumption. }
    inversion Hyr as [|? ? _ Hall]; subst. rewrite Forall_forall in Hall. eapply leb_trans; [exact H4b|apply ltb_leb; apply Hall; exact Hx]. }
  assert (Hd_in : forall x, In x d0 -> starts_in r x).
  { intros x Hx. split; [apply Hhi; rewrite H1; apply in_or_app; left; exact Hx|apply H3; exact Hx]. }
  assert (Hrest_out : forall x, In x rest -> ~ starts_in r x).
  { intros x Hx [_ Hin]. destruct (Hrest x Hx) as [Hne Hle]. destruct Hin as [Hin|Hin]; [congruence|]. apply leb_not_ltb in Hle. congruence. }
  assert (Hlo_out : forall x, In x (lo_part r l) -> ~ starts_in r x).
  { intros x Hx [Hin _]. apply Hlo in Hx. apply leb_not_ltb in Hin. congruence. }
  split; [|split; [|exact H2]].
  - intros x. rewrite Hsk. split.
    + intros Hx. apply in_app_or in Hx. destruct Hx as [Hx|Hx].
      * split; [apply (lo_hi_in r); left; exact Hx|apply Hlo_out; exact Hx].
      * split; [apply (lo_hi_in r); right; rewrite H1; apply in_or_app; right; exact Hx|apply Hrest_out; exact Hx].
    + intros [Hx Hn]. apply in_or_app. apply (lo_hi_in r) in Hx. destruct Hx as [Hx|Hx]; [left; exact Hx|right].
      rewrite H1 in Hx. apply in_app_or in Hx. destruct Hx as [Hx|Hx]; [exfalso; apply Hn, Hd_in; exact Hx|exact Hx].
  - intros x. split.
    + intros Hx. split; [apply (lo_hi_in r); right; rewrite H1; apply in_or_app; left; exact Hx|apply Hd_in; exact Hx].
    + intros [Hx Hin]. apply (lo_hi_in r) in Hx. destruct Hx as [Hx|Hx]; [exfalso; exact (Hlo_out x Hx Hin)|].
      rewrite H1 in Hx. apply in_app_or in Hx. destruct Hx as [Hx|Hx]; [exact Hx|exfalso; exact (Hrest_out x Hx Hin)].
Qed.

Lemma ins_sorted_in_iff r l x : sorted_starts l -> (forall y, In y l -> r_start y <> r_start r) -> (In x (ins_sorted r l) <-> x = r \/ In x l).
Proof.
  intros Hs Hne. split; [apply ins_sorted_in|]. induction l as [|y t IH]; cbn [ins_sorted].
  - intros [->|[]]; left; reflexivity.
  - inversion Hs as [|? ? Hst Hall]; subst. destruct (lex_cmp (r_start r) (r_start y)) eqn:E.
    + exfalso. apply lex_cmp_eq in E. apply (Hne y); [left; reflexivity|symmetry; exact E].
    + intros [->|H]; [left; reflexivity|right; exact H].
    + intros [->|[<-|H]]; [right; apply IH; [exact Hst|intros z Hz; apply Hne; right; exact Hz|left; reflexivity]|left; reflexivity|].
      right. apply IH; [exact Hst|intros z Hz; apply Hne; right; exact Hz|right; exact H].
Qed.

(* ---- an accepted insertion, as a whole ---- *)
Definition nonempty_range (r : region) : Prop := r_end r = [] \/ lex_ltb (r_start r) (r_end r) = true.

Lemma insert_accepted c r c' :
  sorted_starts (c_sorted c) -> nonempty_range r -> insert_region c r = (true, c') ->
  exists deleted, let r1 := inherit r deleted in
    (forall x, In x deleted <-> In x (c_sorted c) /\ starts_in r x) /\ (forall x, In x deleted -> r_ver x <= r_ver r) /\
    (forall x, In x (c_sorted c') <-> x = r1 \/ (In x (c_sorted c) /\ ~ starts_in r x)) /\
    c_regions c' = reg_set (r_verid r1) (r_start r1) (fst (fold_left rm_step deleted (c_regions c, c_latest c))) /\
    c_latest c' = lat_set (r_id r1) (r_ver r1, r_conf r1) (snd (fold_left rm_step deleted (c_regions c, c_latest c))) /\
    sorted_starts (c_sorted c').
Proof.
  intros Hs Hne H. pose proof (insert_region_sorted c r true c' Hs H) as Hs'.
  rewrite insert_region_unfold in H. destruct (stale_by_latest c r); [discriminate|].
  destruct (remove_intersecting r (c_sorted c)) as [[l1 deleted] stale] eqn:Er. destruct stale; [discriminate|].
  cbv zeta in H. injection H as <-. exists deleted. cbv zeta.
  destruct (remove_intersecting_spec r _ _ _ Hs Er) as [H1 [H2 H3]].
  destruct (remove_intersecting_sorted r _ _ _ Hs Er) as [Hs1 _].
  split; [exact H2|]. split; [exact H3|]. split; [|split; [reflexivity|split; [reflexivity|exact Hs']]].
  cbn [c_sorted]. intros x. destruct (inherit_same r deleted) as [_ [Hst _]].
  rewrite ins_sorted_in_iff; [rewrite H1; reflexivity|exact Hs1|].
  intros y Hy Heq. apply H1 in Hy. destruct Hy as [_ Hy]. apply Hy. rewrite Hst in Heq. unfold starts_in. rewrite Heq.
  split; [apply leb_refl|exact Hne].
Qed.

(* ---- search as "the entry with the greatest start at or below the key" ---- *)
Definition top_of (l : list region) (k : bytes) (y : region) : Prop :=
  In y l /\ lex_leb (r_start y) k = true /\ forall z, In z l -> lex_leb (r_start z) k = true -> lex_leb (r_start z) (r_start y) = true.

Lemma sorted_max_last l y : sorted_starts l -> In y l -> (forall z, In z l -> lex_leb (r_start z) (r_start y) = true) ->
  exists rest, rev l = y :: rest.
Proof.
  intros Hs Hy Hmax. destruct (rev l) as [|z rest] eqn:Er.
  - exfalso. apply (f_equal (@rev region)) in Er. rewrite rev_involutive in Er. cbn in Er. subst l. destruct Hy.
  - exists rest. f_equal. assert (Hl : l = rev rest ++ [z]) by (rewrite <- (rev_involutive l), Er; reflexivity).
    assert (Hz : In z l) by (rewrite Hl; apply in_or_app; right; left; reflexivity).
    rewrite Hl in Hy. apply in_app_or in Hy. destruct Hy as [Hy|[->|[]]]; [|reflexivity]. exfalso.
    pose proof (sorted_app_last (rev rest) z ltac:(rewrite <- Hl; exact Hs) y Hy) as H1.
    pose proof (Hmax z Hz) as H2. apply leb_not_ltb in H2. congruence.
Qed.
Lemma search_top l k y : sorted_starts l -> (search l k false = Some y <-> top_of l k y /\ r_contains y k = true).
Proof.
  intros Hs. split.
  - intros H. destruct (search_max l k y Hs H) as [H1 [H2 H3]]. split; [|exact H2]. split; [exact H1|]. split; [|exact H3].
    apply r_contains_spec in H2. apply H2.
  - intros [[H1 [H2 H3]] H4]. unfold search. cbn [andb].
    assert (Hy : In y (le_items l k)) by (apply filter_In; split; assumption).
    destruct (sorted_max_last (le_items l k) y (filter_sorted _ _ Hs) Hy) as [rest Hr].
    { intros z Hz. apply filter_In in Hz. apply H3; tauto. }
    rewrite Hr. cbn [search_desc andb]. rewrite H4. reflexivity.
Qed.
Lemma search_none_or_top l k : sorted_starts l -> search l k false = None ->
  forall y, top_of l k y -> r_contains y k = false.
Proof.
  intros Hs Hn y Ht. destruct (r_contains y k) eqn:E; [|reflexivity].
  assert (search l k false = Some y) by (apply search_top; [exact Hs|split; assumption]). congruence.
Qed.

(* after an accepted insertion the inserted region answers for all its keys *)
Lemma search_after_insert c r c' k :
  sorted_starts (c_sorted c) -> nonempty_range r -> insert_region c r = (true, c') -> r_contains r k = true ->
  exists deleted, search (c_sorted c') k false = Some (inherit r deleted) /\ In (inherit r deleted) (c_sorted c').
Proof.
  intros Hs Hne Hi Hk. destruct (insert_accepted c r c' Hs Hne Hi) as [deleted [H1 [H2 [H3 [_ [_ Hs']]]]]].
  exists deleted. destruct (inherit_same r deleted) as [_ [Hst [Hen _]]].
  assert (Hin : In (inherit r deleted) (c_sorted c')) by (apply H3; left; reflexivity).
  split; [|exact Hin]. apply search_top; [exact Hs'|]. apply r_contains_spec in Hk. destruct Hk as [Hk1 Hk2].
  split; [|apply r_contains_spec; rewrite Hst, Hen; split; assumption].
  split; [exact Hin|]. split; [rewrite Hst; exact Hk1|].
  intros z Hz Hzk. apply H3 in Hz. destruct Hz as [->|[Hz Hn]]; [apply leb_refl|]. rewrite Hst.
  destruct (lex_leb (r_start z) (r_start r)) eqn:E; [reflexivity|]. exfalso. apply Hn. apply leb_false_ltb in E.
  split; [apply ltb_leb; exact E|]. destruct Hk2 as [Hk2|Hk2]; [left; exact Hk2|right; eapply leb_ltb_trans; eassumption].
Qed.

(* an insertion never uncovers an entry that was shadowed before *)
Lemma search_no_unshadow c r c' k y :
  sorted_starts (c_sorted c) -> nonempty_range r -> insert_region c r = (true, c') ->
  search (c_sorted c') k false = Some y ->
  (exists deleted, y = inherit r deleted) \/ search (c_sorted c) k false = Some y.
Proof.
  intros Hs Hne Hi Hy. destruct (insert_accepted c r c' Hs Hne Hi) as [deleted [H1 [H2 [H3 [_ [_ Hs']]]]]].
  apply (search_top _ _ _ Hs') in Hy. destruct Hy as [[Hy1 [Hy2 Hy3]] Hy4].
  apply H3 in Hy1. destruct Hy1 as [->|[Hy1 Hyn]]; [left; exists deleted; reflexivity|]. right.
  apply search_top; [exact Hs|]. split; [|exact Hy4]. split; [exact Hy1|]. split; [exact Hy2|].
  intros z Hz Hzk. destruct (lex_leb (r_start z) (r_start y)) eqn:E; [reflexivity|]. exfalso. apply leb_false_ltb in E.
  (* z is above y and at or below k: it must have been deleted, so r starts at or below z and holds z's start *)
  assert (Hzin : starts_in r z).
  { destruct (lex_leb (r_start r) (r_start z)) eqn:E1.
    - split; [exact E1|]. destruct (r_end r) as [|b e'] eqn:Ee; [left; reflexivity|right].
      destruct (lex_ltb (r_start z) (b :: e')) eqn:E2; [reflexivity|]. exfalso.
      assert (Hkeep : In z (c_sorted c')).
      { apply H3. right. split; [exact Hz|]. intros [_ [Hc|Hc]]; [rewrite Ee in Hc; discriminate|rewrite Ee in Hc; congruence]. }
      pose proof (Hy3 z Hkeep Hzk) as H. apply leb_not_ltb in H. congruence.
    - exfalso. assert (Hkeep : In z (c_sorted c')).
      { apply H3. right. split; [exact Hz|]. intros [Hc _]. congruence. }
      pose proof (Hy3 z Hkeep Hzk) as H. apply leb_not_ltb in H. congruence. }
  (* then the inserted entry is at or below z, hence at or below k, hence at or below y: y starts inside r *)
  destruct Hzin as [Hz1 Hz2]. destruct (inherit_same r deleted) as [_ [Hst _]].
  assert (Hr1 : lex_leb (r_start r) (r_start y) = true).
  { rewrite <- Hst. apply Hy3; [apply H3; left; reflexivity|rewrite Hst; eapply leb_trans; eassumption]. }
  apply Hyn. split; [exact Hr1|]. destruct Hz2 as [Hz2|Hz2]; [left; exact Hz2|right; eapply ltb_trans; eassumption].
Qed.

(* ---- updating one entry in place (flags, work peer, invalidation) ---- *)
Definition same_shape (f : region -> region) : Prop :=
  forall x, r_id (f x) = r_id x /\ r_start (f x) = r_start x /\ r_end (f x) = r_end x /\ r_ver (f x) = r_ver x /\
            r_conf (f x) = r_conf x /\ r_peers (f x) = r_peers x.
Definition upd_fun (r : region) (f : region -> region) (x : region) : region :=
  if bytes_eqb (r_start x) (r_start r) && verid_eqb (r_verid x) (r_verid r) then f x else x.
Lemma upd_entry_sorted c r f : c_sorted (upd_entry c r f) = map (upd_fun r f) (c_sorted c).
Proof. reflexivity. Qed.
Lemma upd_fun_shape r f : same_shape f -> same_shape (upd_fun r f).
Proof. intros H x. unfold upd_fun. destruct (bytes_eqb (r_start x) (r_start r) && verid_eqb (r_verid x) (r_verid r)); [apply H|repeat split]. Qed.
Lemma shape_verid g x : same_shape g -> r_verid (g x) = r_verid x.
Proof. intros H. destruct (H x) as [H1 [_ [_ [H2 [H3 _]]]]]. unfold r_verid. congruence. Qed.

Lemma map_sorted g l : same_shape g -> sorted_starts l -> sorted_starts (map g l).
Proof.
  intros Hg. induction 1 as [|y t Hst IH Hall]; cbn [map]; [constructor|]. constructor; [exact IH|].
  rewrite Forall_forall in *. intros z Hz. apply in_map_iff in Hz. destruct Hz as [z0 [<- Hz0]]. unfold start_lt.
  destruct (Hg y) as [_ [-> _]]. destruct (Hg z0) as [_ [-> _]]. apply Hall; exact Hz0.
Qed.
Lemma search_map g l k : same_shape g -> search (map g l) k false = option_map g (search l k false).
Proof.
  intros Hg. unfold search, le_items. cbn [andb].
  assert (Hf : filter (fun r => lex_leb (r_start r) k) (map g l) = map g (filter (fun r => lex_leb (r_start r) k) l)).
  { induction l as [|x t IH]; [reflexivity|]. cbn [map filter]. destruct (Hg x) as [_ [-> _]].
    destruct (lex_leb (r_start x) k); [cbn [map]; rewrite IH; reflexivity|exact IH]. }
  rewrite Hf, <- map_rev. destruct (rev (filter (fun r => lex_leb (r_start r) k) l)) as [|x rest]; [reflexivity|].
  cbn [map search_desc andb]. unfold r_contains. destruct (Hg x) as [_ [-> [-> _]]].
  destruct (contains (r_start x) (r_end x) k); reflexivity.
Qed.
Lemma find_map {A} (p : A -> bool) (g : A -> A) l : (forall x, p (g x) = p x) -> find p (map g l) = option_map g (find p l).
Proof. intros H. induction l as [|x t IH]; [reflexivity|]. cbn [map find]. rewrite H. destruct (p x); [reflexivity|exact IH]. Qed.
Lemma entry_at_upd c r f s v : same_shape f ->
  entry_at (upd_entry c r f) s v = option_map (upd_fun r f) (entry_at c s v).
Proof.
  intros Hf. unfold entry_at. rewrite upd_entry_sorted. apply find_map. intros x.
  pose proof (upd_fun_shape r f Hf) as Hg. destruct (Hg x) as [_ [-> _]]. rewrite (shape_verid _ x Hg). reflexivity.
Qed.
Lemma get_by_verid_upd c r f v : same_shape f ->
  get_by_verid (upd_entry c r f) v = option_map (upd_fun r f) (get_by_verid c v).
Proof.
  intros Hf. unfold get_by_verid. change (c_regions (upd_entry c r f)) with (c_regions c).
  destruct (reg_get v (c_regions c)); [apply entry_at_upd; exact Hf|reflexivity].
Qed.
Lemma upd_fun_self r f : upd_fun r f r = f r.
Proof. unfold upd_fun. rewrite bytes_eqb_refl, verid_eqb_refl. reflexivity. Qed.
Lemma upd_fun_other l r f x : sorted_starts l -> In r l -> In x l -> x <> r -> upd_fun r f x = x.
Proof.
  intros Hs Hr Hx Hne. unfold upd_fun. destruct (bytes_eqb (r_start x) (r_start r)) eqn:E; [|reflexivity].
  exfalso. apply Hne. apply bytes_eqb_eq in E. eapply sorted_in_eq; eassumption.
Qed.

Lemma shape_invalidate reason : same_shape (invalidate_r reason).
Proof. intros x. unfold invalidate_r. destruct (r_reason x =? 0); repeat split. Qed.
Lemma shape_set_work w : same_shape (set_work w).
Proof. intros x. repeat split. Qed.
Lemma shape_clear : same_shape clear_access_flags.
Proof. intros x. repeat split. Qed.
Lemma shape_set_reload : same_shape set_reload.
Proof. intros x. repeat split. Qed.
Lemma shape_switch_work se i : same_shape (switch_work se i).
Proof. intros x. repeat split. Qed.
Lemma shape_stamp se r : r_id (stamp se r) = r_id r /\ r_start (stamp se r) = r_start r /\ r_end (stamp se r) = r_end r /\
  r_ver (stamp se r) = r_ver r /\ r_conf (stamp se r) = r_conf r /\ r_peers (stamp se r) = r_peers r /\ r_work (stamp se r) = r_work r /\
  r_expired (stamp se r) = r_expired r /\ r_reason (stamp se r) = r_reason r /\ r_reload (stamp se r) = r_reload r /\ r_ready (stamp se r) = r_ready r.
Proof. repeat split. Qed.
