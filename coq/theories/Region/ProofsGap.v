(* Region/ProofsGap.v — regionsHaveGapInRanges is sound and rangesAfterKey keeps everything at or above the
   split key: if a PD batch passes the gap check for sorted disjoint ranges, every key of every range is in a
   returned region, or lies at or above the end of the last returned region (the part that is asked again). *)
From Verif Require Import Base.Lex Region.Model Region.Ord.
Open Scope N_scope.

Definition d_contains (d : desc) (k : bytes) : bool := contains (d_start d) (d_end d) k.
Definition dcovered (infos : list desc) (k : bytes) : Prop := exists d, In d infos /\ d_contains d k = true.

(* sorted, pairwise disjoint, non-empty ranges; only the last one may be unbounded *)
Fixpoint ranges_wf (rs : list range) : Prop :=
  match rs with
  | [] => True
  | (s, e) :: t =>
      (e = [] \/ lex_ltb s e = true) /\
      match t with
      | [] => True
      | (s', _) :: _ => e <> [] /\ lex_leb e s' = true
      end /\ ranges_wf t
  end.

Lemma ranges_wf_tail r t : ranges_wf (r :: t) -> ranges_wf t.
Proof. destruct r as [s e]. cbn [ranges_wf]. tauto. Qed.

(* in a wf list every later range starts at or after the end of the head *)
Lemma ranges_wf_later s e t : ranges_wf ((s, e) :: t) -> forall s' e', In (s', e') t -> e <> [] /\ lex_leb e s' = true.
Proof.
  revert s e. induction t as [|[s1 e1] t IH]; intros s e Hwf s' e' Hin; [destruct Hin|].
  cbn [ranges_wf] in Hwf. destruct Hwf as [_ [[Hne Hle] Hwf']].
  destruct Hin as [Hin|Hin]; [injection Hin as <- <-; split; assumption|].
  destruct (IH s1 e1 Hwf' s' e' Hin) as [Hne1 Hle1]. split; [exact Hne|].
  cbn [ranges_wf] in Hwf'. destruct Hwf' as [[He1|He1] _]; [congruence|].
  eapply leb_trans; [exact Hle|]. eapply leb_trans; [apply ltb_leb; exact He1|exact Hle1].
Qed.

Definition in_ranges (rs : list range) (k : bytes) : Prop := exists s e, In (s, e) rs /\ in_range s e k.

(* ---- gap_adv ---- *)
Lemma gap_adv_none : forall rs ck, rs <> [] -> gap_adv rs ck = None ->
  forall s e, In (s, e) rs -> e <> [] /\ lex_leb e ck = true.
Proof.
  induction rs as [|[s0 e0] t IH]; intros ck Hne; [congruence|]. cbn [gap_adv].
  destruct (negb (is_nil e0) && lex_leb e0 ck) eqn:E; [|discriminate].
  apply andb_true_iff in E. destruct E as [E1 E2]. apply negb_true_iff, is_nil_false in E1.
  intros H s e [Hin|Hin]; [injection Hin as <- <-; split; assumption|].
  destruct t as [|r t']; [destruct Hin|]. apply (IH ck ltac:(discriminate) H s e Hin).
Qed.
Lemma gap_adv_some : forall rs ck rs', gap_adv rs ck = Some rs' ->
  exists done s e t, rs = done ++ rs' /\ rs' = (s, e) :: t /\ (e = [] \/ lex_ltb ck e = true) /\
    (forall s1 e1, In (s1, e1) done -> e1 <> [] /\ lex_leb e1 ck = true).
Proof.
  induction rs as [|[s0 e0] t IH]; intros ck rs'; cbn [gap_adv]; [discriminate|].
  destruct (negb (is_nil e0) && lex_leb e0 ck) eqn:E.
  - apply andb_true_iff in E. destruct E as [E1 E2]. apply negb_true_iff, is_nil_false in E1.
    destruct t as [|r t']; [discriminate|]. intros H. destruct (IH ck rs' H) as [done [s [e [t2 [H1 [H2 [H3 H4]]]]]]].
    exists ((s0, e0) :: done), s, e, t2. split; [cbn [app]; rewrite <- H1; reflexivity|]. split; [exact H2|]. split; [exact H3|].
    intros s1 e1 [Hin|Hin]; [injection Hin as <- <-; split; assumption|exact (H4 s1 e1 Hin)].
  - intros H; injection H as <-. exists [], s0, e0, t. split; [reflexivity|]. split; [reflexivity|]. split; [|intros ? ? []].
    apply andb_false_iff in E. destruct E as [E|E].
    + left. apply negb_false_iff, is_nil_true in E. exact E.
    + right. apply leb_false_ltb. exact E.
Qed.

(* ---- the loop invariant ---- *)
(* state: the ranges not yet finished [cur] (a suffix of all), the check key, the regions seen so far *)
Definition ginv (all cur : list range) (ck : bytes) (seen : list desc) : Prop :=
  exists done s e t, all = done ++ cur /\ cur = (s, e) :: t /\
    (forall k, in_ranges done k -> dcovered seen k) /\
    lex_leb s ck = true /\ (e = [] \/ lex_ltb ck e = true) /\
    (forall k, lex_leb s k = true -> lex_ltb k ck = true -> dcovered seen k) /\
    (seen <> [] -> ck <> []).

Definition gap_post (all : list range) (infos : list desc) : Prop :=
  forall k, in_ranges all k -> dcovered infos k \/ (exists d, last infos d = d /\ infos <> [] /\ d_end (last infos d) <> [] /\ lex_leb (d_end (last infos d)) k = true).

Lemma dcovered_mono a b k : (forall d, In d a -> In d b) -> dcovered a k -> dcovered b k.
Proof. intros H [d [Hin Hc]]. exists d. split; [apply H; exact Hin|exact Hc]. Qed.

Lemma in_ranges_app a b k : in_ranges (a ++ b) k <-> in_ranges a k \/ in_ranges b k.
Proof.
  unfold in_ranges. split.
  - intros [s [e [Hin Hr]]]. apply in_app_or in Hin. destruct Hin as [Hin|Hin]; [left|right]; exists s, e; split; assumption.
  - intros [[s [e [Hin Hr]]]|[s [e [Hin Hr]]]]; exists s, e; (split; [apply in_or_app|exact Hr]); [left|right]; exact Hin.
Qed.

Lemma wf_suffix : forall done cur, ranges_wf (done ++ cur) -> ranges_wf cur.
Proof. induction done as [|r t IH]; intros cur H; [exact H|]. apply IH. eapply ranges_wf_tail. exact H. Qed.

(* one region [d] of the answer: either the loop stops with a verdict, or the invariant carries on *)
Lemma last_cons_ne {A} (a : A) l d0 : l <> [] -> last (a :: l) d0 = last l d0.
Proof. destruct l; [congruence|reflexivity]. Qed.

Lemma gap_loop_sound all : ranges_wf all -> forall infos cur ck seen,
  ginv all cur ck seen ->
  match gap_loop infos cur ck with
  | GDone true => True
  | GDone false => forall k, in_ranges all k -> dcovered (seen ++ infos) k
  | GCont cur' ck' => ginv all cur' ck' (seen ++ infos) /\
                      (infos <> [] -> forall d0, d_end (last infos d0) <> [] /\ lex_leb (d_end (last infos d0)) ck' = true)
  end.
Proof.
  intros Hwf. induction infos as [|d infos IH]; intros cur ck seen Hinv; cbn [gap_loop].
  - rewrite app_nil_r. split; [exact Hinv|congruence].
  - destruct (lex_ltb ck (d_start d)) eqn:Egap; [exact I|]. apply ltb_false_leb in Egap.
    destruct Hinv as [done [s [e [t [Hall [Hcur [Hdone [Hsck [Hopen [Hbelow Hne]]]]]]]]]].
    set (seen' := seen ++ [d]).
    assert (Hs1 : forall k, dcovered seen k -> dcovered seen' k).
    { intros k. apply dcovered_mono. intros x Hx. apply in_or_app. left; exact Hx. }
    assert (Hfin : forall k, dcovered seen' k -> dcovered (seen ++ d :: infos) k).
    { intros k. apply dcovered_mono. intros x Hx. apply in_app_or in Hx. apply in_or_app.
      destruct Hx as [Hx|[Hx|[]]]; [left; exact Hx|right; left; exact Hx]. }
    assert (Hd1 : forall k, lex_leb ck k = true -> (d_end d = [] \/ lex_ltb k (d_end d) = true) -> dcovered seen' k).
    { intros k H1 H2. exists d. split; [apply in_or_app; right; left; reflexivity|]. apply contains_spec. split; [eapply leb_trans; eassumption|exact H2]. }
    assert (Hwfcur : ranges_wf cur) by (apply (wf_suffix done); rewrite <- Hall; exact Hwf).
    assert (Hcov1 : forall s1 e1 k, In (s1, e1) cur -> in_range s1 e1 k -> (d_end d = [] \/ lex_ltb k (d_end d) = true) -> dcovered seen' k).
    { intros s1 e1 k Hin Hr Hk. destruct (lex_ltb k ck) eqn:Ek.
      - rewrite Hcur in Hin. destruct Hin as [Hin|Hin].
        + injection Hin as <- <-. apply Hs1, Hbelow; [apply Hr|exact Ek].
        + exfalso. rewrite Hcur in Hwfcur. destruct (ranges_wf_later _ _ _ Hwfcur _ _ Hin) as [Hne1 Hle1].
          destruct Hopen as [Ho|Ho]; [congruence|]. destruct Hr as [Hr _].
          pose proof (leb_trans _ _ _ Hle1 Hr) as H1. pose proof (ltb_trans _ _ _ Ek Ho) as H2. apply leb_not_ltb in H1. congruence.
      - apply ltb_false_leb in Ek. apply Hd1; [exact Ek|exact Hk]. }
    destruct (is_nil (d_end d)) eqn:Een.
    { apply is_nil_true in Een. intros k Hk. apply Hfin. rewrite Hall in Hk. apply in_ranges_app in Hk.
      destruct Hk as [Hk|Hk]; [apply Hs1, Hdone; exact Hk|]. destruct Hk as [s1 [e1 [Hin Hr]]].
      apply (Hcov1 s1 e1 k Hin Hr). left; exact Een. }
    apply is_nil_false in Een.
    destruct (gap_adv cur (d_end d)) as [cur'|] eqn:Eadv.
    2:{ intros k Hk. apply Hfin. rewrite Hall in Hk. apply in_ranges_app in Hk. destruct Hk as [Hk|Hk]; [apply Hs1, Hdone; exact Hk|].
      destruct Hk as [s1 [e1 [Hin Hr]]].
      destruct (gap_adv_none cur (d_end d) ltac:(rewrite Hcur; discriminate) Eadv s1 e1 Hin) as [Hne1 Hle1].
      apply (Hcov1 s1 e1 k Hin Hr). right. destruct Hr as [_ [Hr|Hr]]; [congruence|]. eapply ltb_leb_trans; eassumption. }
    destruct (gap_adv_some _ _ _ Eadv) as [done2 [s2 [e2 [t2 [Hsplit [Hcur' [Hopen2 Hdone2]]]]]]].
    set (ck' := match cur' with (s, _) :: _ => if lex_ltb (d_end d) s then s else d_end d | [] => d_end d end).
    assert (Hck' : ck' = if lex_ltb (d_end d) s2 then s2 else d_end d) by (unfold ck'; rewrite Hcur'; reflexivity).
    assert (Hin2 : In (s2, e2) cur) by (rewrite Hsplit, Hcur'; apply in_or_app; right; left; reflexivity).
    assert (Hwf2 : e2 = [] \/ lex_ltb s2 e2 = true).
    { assert (H : ranges_wf cur') by (apply (wf_suffix done2); rewrite <- Hsplit; exact Hwfcur). rewrite Hcur' in H. cbn [ranges_wf] in H. tauto. }
    assert (Hle' : lex_leb (d_end d) ck' = true).
    { rewrite Hck'. destruct (lex_ltb (d_end d) s2) eqn:E; [apply ltb_leb; exact E|apply leb_refl]. }
    assert (Hinv' : ginv all cur' ck' seen').
    { exists (done ++ done2), s2, e2, t2. split; [rewrite <- app_assoc, <- Hsplit; exact Hall|]. split; [exact Hcur'|]. split; [|split; [|split; [|split]]].
      - intros k Hk. apply in_ranges_app in Hk. destruct Hk as [Hk|Hk]; [apply Hs1, Hdone; exact Hk|].
        destruct Hk as [s1 [e1 [Hin Hr]]]. destruct (Hdone2 s1 e1 Hin) as [Hne1 Hle1].
        apply (Hcov1 s1 e1 k); [rewrite Hsplit; apply in_or_app; left; exact Hin|exact Hr|].
        right. destruct Hr as [_ [Hr|Hr]]; [congruence|]. eapply ltb_leb_trans; eassumption.
      - rewrite Hck'. destruct (lex_ltb (d_end d) s2) eqn:E; [apply leb_refl|apply ltb_false_leb; exact E].
      - rewrite Hck'. destruct (lex_ltb (d_end d) s2) eqn:E; [exact Hwf2|exact Hopen2].
      - intros k H1 H2. rewrite Hck' in H2. destruct (lex_ltb (d_end d) s2) eqn:E.
        + exfalso. apply leb_not_ltb in H1. congruence.
        + apply (Hcov1 s2 e2 k Hin2); [|right; exact H2]. split; [exact H1|].
          destruct Hopen2 as [Ho|Ho]; [left; exact Ho|right; eapply ltb_trans; eassumption].
      - intros _. rewrite Hck'. destruct (lex_ltb (d_end d) s2) eqn:E; [|exact Een].
        intros ->. rewrite ltb_nil_r in E. discriminate. }
    fold ck'. destruct infos as [|d2 infos2].
    + cbn [gap_loop]. split; [exact Hinv'|]. intros _ d0. cbn [last]. split; [exact Een|exact Hle'].
    + specialize (IH cur' ck' seen' Hinv'). unfold seen' in IH. rewrite <- app_assoc in IH. cbn [app] in IH.
      destruct (gap_loop (d2 :: infos2) cur' ck') as [[|]|cur'' ck'']; [exact I|exact IH|].
      destruct IH as [IH1 IH2]. split; [exact IH1|]. intros _ d0. rewrite last_cons_ne by discriminate. apply IH2. discriminate.
Qed.

Lemma regions_have_gap_sound rs infos limit :
  ranges_wf rs -> regions_have_gap rs infos limit = false ->
  forall k, in_ranges rs k ->
    dcovered infos k \/ (infos <> [] /\ forall d0, d_end (last infos d0) <> [] /\ lex_leb (d_end (last infos d0)) k = true).
Proof.
  intros Hwf. unfold regions_have_gap. destruct rs as [|[s0 e0] t] eqn:Ers; [intros _ k [s [e [[] _]]]|]. rewrite <- Ers in *.
  destruct (is_nil infos) eqn:Eni; [discriminate|]. apply is_nil_false in Eni.
  assert (H0 : ginv rs rs s0 []).
  { exists [], s0, e0, t. split; [reflexivity|]. split; [exact Ers|]. split; [intros k [s [e [[] _]]]|].
    split; [apply leb_refl|]. split; [rewrite Ers in Hwf; cbn [ranges_wf] in Hwf; tauto|]. split; [|congruence].
    intros k H1 H2. exfalso. apply leb_not_ltb in H1. congruence. }
  pose proof (gap_loop_sound rs Hwf infos rs s0 [] H0) as H. cbn [app] in H.
  destruct (gap_loop infos rs s0) as [b|cur ck].
  - intros ->. intros k Hk. left. apply H; exact Hk.
  - destruct H as [[done [s [e [t2 [Hall [Hcur [Hdone [Hsck [Hopen [Hbelow Hne]]]]]]]]]] Hlast].
    specialize (Hlast Eni). specialize (Hne Eni).
    assert (Hwfcur : ranges_wf cur) by (apply (wf_suffix done); rewrite <- Hall; exact Hwf).
    assert (Hpart : forall k, in_ranges rs k -> dcovered infos k \/ lex_leb ck k = true).
    { intros k Hk. rewrite Hall in Hk. apply in_ranges_app in Hk. destruct Hk as [Hk|Hk]; [left; apply Hdone; exact Hk|].
      destruct Hk as [s1 [e1 [Hin Hr]]]. rewrite Hcur in Hin. destruct Hin as [Hin|Hin].
      - injection Hin as <- <-. destruct (lex_ltb k ck) eqn:Ek; [left; apply Hbelow; [apply Hr|exact Ek]|right; apply ltb_false_leb; exact Ek].
      - right. rewrite Hcur in Hwfcur. destruct (ranges_wf_later _ _ _ Hwfcur _ _ Hin) as [Hne1 Hle1].
        destruct Hopen as [Ho|Ho]; [congruence|]. destruct Hr as [Hr _]. apply ltb_leb in Ho.
        eapply leb_trans; [exact Ho|]. eapply leb_trans; eassumption. }
    assert (Hres : forall k, in_ranges rs k ->
              dcovered infos k \/ (infos <> [] /\ forall d0, d_end (last infos d0) <> [] /\ lex_leb (d_end (last infos d0)) k = true)).
    { intros k Hk. destruct (Hpart k Hk) as [H|H]; [left; exact H|right]. split; [exact Eni|]. intros d0.
      destruct (Hlast d0) as [H1 H2]. split; [exact H1|eapply leb_trans; eassumption]. }
    destruct (Nat.ltb 0 limit && Nat.eqb (length infos) limit); [intros _; exact Hres|].
    rewrite Hcur. destruct t2 as [|r2 t3]; [|discriminate].
    destruct (is_nil ck) eqn:Eck; [apply is_nil_true in Eck; congruence|].
    destruct (is_nil e) eqn:Ee; [discriminate|]. apply is_nil_false in Ee. intros Hlt. exfalso.
    destruct Hopen as [Ho|Ho]; congruence.
Qed.

(* ---- rangesAfterKey ---- *)
Lemma drop_covered_keeps split : forall rs, forall k, in_ranges rs k -> lex_leb split k = true -> in_ranges (drop_covered rs split) k.
Proof.
  induction rs as [|[s e] t IH]; intros k Hk Hs; [exact Hk|]. cbn [drop_covered].
  destruct (is_nil e || lex_ltb split e) eqn:E; [exact Hk|]. apply orb_false_iff in E. destruct E as [E1 E2].
  apply is_nil_false in E1. apply ltb_false_leb in E2. apply IH; [|exact Hs].
  destruct Hk as [s1 [e1 [[Hin|Hin] Hr]]]; [|exists s1, e1; split; assumption].
  exfalso. injection Hin as <- <-. destruct Hr as [_ [Hr|Hr]]; [congruence|].
  pose proof (leb_trans _ _ _ E2 Hs) as H. apply leb_not_ltb in H. congruence.
Qed.
Lemma last_end_bound : forall rs s e, ranges_wf rs -> In (s, e) rs ->
  (e = [] -> snd (last rs ([], [])) = []) /\ (e <> [] -> snd (last rs ([], [])) = [] \/ lex_leb e (snd (last rs ([], []))) = true).
Proof.
  induction rs as [|[s0 e0] t IH]; intros s e Hwf Hin; [destruct Hin|].
  destruct t as [|r2 t2].
  - destruct Hin as [Hin|[]]. injection Hin as <- <-. cbn [last snd]. split; [exact (fun H => H)|intros _; right; apply leb_refl].
  - rewrite last_cons_ne by discriminate. destruct Hin as [Hin|Hin].
    + injection Hin as <- <-. destruct r2 as [s2 e2]. cbn [ranges_wf] in Hwf. destruct Hwf as [_ [[Hne Hle] Hwf2]].
      split; [congruence|]. intros _. destruct (IH s2 e2 Hwf2 ltac:(left; reflexivity)) as [Ha Hb].
      destruct e2 as [|x e2']; [left; apply Ha; reflexivity|].
      destruct (Hb ltac:(discriminate)) as [H|H]; [left; exact H|right].
      cbn [ranges_wf] in Hwf2. destruct Hwf2 as [[Hw|Hw] _]; [discriminate|].
      eapply leb_trans; [exact Hle|]. eapply leb_trans; [apply ltb_leb; exact Hw|exact H].
    + apply (IH s e); [eapply ranges_wf_tail; exact Hwf|exact Hin].
Qed.
Lemma ranges_after_key_keeps rs split : ranges_wf rs -> split <> [] ->
  forall k, in_ranges rs k -> lex_leb split k = true -> in_ranges (ranges_after_key rs split) k.
Proof.
  intros Hwf Hsp k Hk Hs. unfold ranges_after_key. destruct rs as [|r0 t] eqn:Ers; [exact Hk|]. rewrite <- Ers in *.
  apply is_nil_false in Hsp. rewrite Hsp. cbn [orb].
  destruct (negb (is_nil (snd (last rs ([], [])))) && lex_leb (snd (last rs ([], []))) split) eqn:Efast.
  - exfalso. apply andb_true_iff in Efast. destruct Efast as [E1 E2]. apply negb_true_iff, is_nil_false in E1.
    destruct Hk as [s [e [Hin [_ Hr]]]]. destruct (last_end_bound rs s e Hwf Hin) as [Ha Hb].
    destruct Hr as [Hr|Hr]; [apply Ha in Hr; congruence|].
    assert (He : e <> []) by (intros ->; unfold klt in Hr; rewrite ltb_nil_r in Hr; discriminate).
    destruct (Hb He) as [H|H]; [congruence|].
    pose proof (leb_trans _ _ _ (leb_trans _ _ _ H E2) Hs) as H1. apply leb_not_ltb in H1. congruence.
  - pose proof (drop_covered_keeps split rs k Hk Hs) as Hd. destruct (drop_covered rs split) as [|[s e] t2]; [exact Hd|].
    destruct Hd as [s1 [e1 [[Hin|Hin] Hr]]]; [|exists s1, e1; split; [right; exact Hin|exact Hr]].
    injection Hin as <- <-. exists (if lex_ltb s split then split else s), e. split; [left; reflexivity|].
    destruct Hr as [Hr1 Hr2]. split; [|exact Hr2]. unfold kle. destruct (lex_ltb s split); assumption.
Qed.

(* rangesAfterKey keeps the list well-formed *)
Lemma drop_covered_suffix split : forall rs, exists done, rs = done ++ drop_covered rs split.
Proof.
  induction rs as [|[s e] t IH]; [exists []; reflexivity|]. cbn [drop_covered].
  destruct (is_nil e || lex_ltb split e); [exists []; reflexivity|]. destruct IH as [done H]. exists ((s, e) :: done). cbn [app]. rewrite <- H. reflexivity.
Qed.
Lemma ranges_after_key_wf rs split : ranges_wf rs -> ranges_wf (ranges_after_key rs split).
Proof.
  intros Hwf. unfold ranges_after_key. destruct rs as [|r0 t] eqn:Ers; [exact I|]. rewrite <- Ers in *.
  destruct (is_nil split || negb (is_nil (snd (last rs ([], [])))) && lex_leb (snd (last rs ([], []))) split); [exact I|].
  destruct (drop_covered_suffix split rs) as [done Hd]. pose proof (wf_suffix done _ ltac:(rewrite <- Hd; exact Hwf)) as Hw.
  assert (Hcond : forall s e t2, drop_covered rs split = (s, e) :: t2 -> is_nil e || lex_ltb split e = true).
  { clear. induction rs as [|[s0 e0] t IH]; intros s e t2; cbn [drop_covered]; [discriminate|].
    destruct (is_nil e0 || lex_ltb split e0) eqn:E; [intros H; injection H as <- <- _; exact E|apply IH]. }
  destruct (drop_covered rs split) as [|[s e] t2] eqn:Edc; [exact I|]. specialize (Hcond s e t2 eq_refl).
  cbn [ranges_wf] in *. destruct Hw as [Hw1 [Hw2 Hw3]]. split; [|split; assumption].
  destruct (lex_ltb s split) eqn:E; [|exact Hw1]. apply orb_true_iff in Hcond. destruct Hcond as [H|H]; [left; apply is_nil_true; exact H|right; exact H].
Qed.
