(* Region/ProofsContains.v — every single-region lookup returns a region that contains the key asked for
   (by end for the end-key lookup, with the id asked for the by-id lookup); the end-key lookup of the empty key
   (the end of the key space) is the refuted case F08. *)
From Verif Require Import Base.Lex Region.Model Region.Ord.
Open Scope N_scope.

(* what the cache may assume about PD: an answer to "which region holds k" holds k — it may be stale in every
   other respect (epoch, peers, leader, even boundaries that no longer exist) *)
Definition pd_get_sound (pd : nat -> pd_req -> pd_ans) : Prop :=
  forall t k d, pd t (ReqGet k) = PdOne (Some d) -> contains (d_start d) (d_end d) k = true.
Definition pd_prev_sound (pd : nat -> pd_req -> pd_ans) : Prop :=
  forall t k d, k <> [] -> pd t (ReqPrev k) = PdOne (Some d) -> contains_by_end (d_start d) (d_end d) k = true.
Definition pd_byid_sound (pd : nat -> pd_req -> pd_ans) : Prop :=
  forall t id d, pd t (ReqById id) = PdOne (Some d) -> d_id d = id.

Definition holds (is_end : bool) (r : region) (key : bytes) : bool :=
  if is_end then r_contains_end r key else r_contains r key.

Lemma search_desc_contains items key is_end r :
  search_desc items key is_end = Some r -> holds is_end r key = true.
Proof.
  unfold holds. induction items as [|x t IH]; cbn [search_desc]; [discriminate|].
  destruct (is_end && bytes_eqb (r_start x) key); [exact IH|].
  destruct (if is_end then r_contains_end x key else r_contains x key) eqn:E; [|discriminate].
  intros H; injection H as <-; exact E.
Qed.
Lemma search_contains l key is_end r : search l key is_end = Some r -> holds is_end r key = true.
Proof.
  unfold search. destruct (is_end && is_nil key) eqn:E; [|apply search_desc_contains].
  apply andb_true_iff in E. destruct E as [-> _]. destruct (rev l) as [|x t]; [discriminate|].
  destruct (r_contains_end x key) eqn:Ec; [|discriminate]. intros H; injection H as <-. exact Ec.
Qed.
Lemma search_desc_in items key is_end r : search_desc items key is_end = Some r -> In r items.
Proof.
  induction items as [|x t IH]; cbn [search_desc]; [discriminate|].
  destruct (is_end && bytes_eqb (r_start x) key); [intros H; right; exact (IH H)|].
  destruct (if is_end then r_contains_end x key else r_contains x key); [|discriminate].
  intros H; injection H as <-; left; reflexivity.
Qed.
Lemma search_in l key is_end r : search l key is_end = Some r -> In r l.
Proof.
  unfold search, le_items. destruct (is_end && is_nil key).
  - destruct (rev l) as [|x t] eqn:Er; [discriminate|]. destruct (r_contains_end x key); [|discriminate].
    intros H; injection H as <-. apply in_rev. rewrite Er. left; reflexivity.
  - intros H. apply search_desc_in in H. apply in_rev in H. apply filter_In in H. tauto.
Qed.

Lemma new_region_range d : r_start (new_region d) = d_start d /\ r_end (new_region d) = d_end d /\ r_id (new_region d) = d_id d.
Proof. repeat split. Qed.

Lemma inherit_range r deleted : r_start (inherit r deleted) = r_start r /\ r_end (inherit r deleted) = r_end r /\ r_id (inherit r deleted) = r_id r /\
  r_ver (inherit r deleted) = r_ver r /\ r_conf (inherit r deleted) = r_conf r.
Proof. unfold inherit, keep_bk, with_work. destruct deleted as [|old t]; [repeat split|]. destruct (r_reason old =? 1); repeat split. Qed.
Lemma as_stored_range c lr : r_start (as_stored c lr) = r_start lr /\ r_end (as_stored c lr) = r_end lr /\ r_id (as_stored c lr) = r_id lr /\
  r_ver (as_stored c lr) = r_ver lr /\ r_conf (as_stored c lr) = r_conf lr.
Proof.
  unfold as_stored. destruct (fst (insert_region c (stamp (c_sepochs c) lr))); [|repeat split].
  destruct (inherit_range (stamp (c_sepochs c) lr) (snd (fst (remove_intersecting (stamp (c_sepochs c) lr) (c_sorted c))))) as [A [B [C [D E]]]].
  rewrite A, B, C, D, E. repeat split.
Qed.
Lemma holds_as_stored is_end c lr key : holds is_end (as_stored c lr) key = holds is_end lr key.
Proof. unfold holds, r_contains, r_contains_end. destruct (as_stored_range c lr) as [A [B _]]. rewrite A, B. reflexivity. Qed.

Section PD.
Variable pd : nat -> pd_req -> pd_ans.
Variable budget : nat.
Hypothesis Hget : pd_get_sound pd.
Hypothesis Hprev : pd_prev_sound pd.

Lemma call_some t q a : call pd budget t q = Some a -> a = pd t q.
Proof. unfold call. destruct (Nat.ltb t budget); congruence. Qed.

Lemma load_region_holds fuel : forall t key is_end prev r t',
  (is_end = true -> key <> []) -> (prev = true -> is_end = true) ->
  load_region pd budget fuel t key is_end prev = (Ok r, t') -> holds is_end r key = true.
Proof.
  induction fuel as [|f IH]; intros t key is_end prev r t' Hk Hp; cbn [load_region]; [discriminate|].
  destruct (call pd budget t (if prev then ReqPrev key else ReqGet key)) as [a|] eqn:Ec; [|discriminate].
  apply call_some in Ec. destruct a as [[d|]|l]; [| |discriminate].
  2:{ apply IH; assumption. }
  destruct (is_nil (d_peers d)); [discriminate|].
  destruct (is_end && negb prev && bytes_eqb (d_start d) key && negb (is_nil (d_start d))) eqn:Eg.
  { apply IH; [exact Hk|]. intros _. destruct is_end; [reflexivity|discriminate Eg]. }
  intros H; injection H as <- _. unfold holds, r_contains, r_contains_end. cbn [new_region r_start r_end].
  destruct prev.
  - rewrite (Hp eq_refl) in *. symmetry in Ec. apply (Hprev t key d (Hk eq_refl)) in Ec. exact Ec.
  - symmetry in Ec. apply Hget in Ec. destruct is_end; [|exact Ec].
    cbn [andb negb] in Eg. apply contains_spec in Ec. destruct Ec as [H1 H2].
    apply contains_by_end_spec. right. specialize (Hk eq_refl). split; [exact Hk|]. split.
    + destruct (leb_ltb_or_eq _ _ H1) as [H|H]; [exact H|]. exfalso.
      rewrite H, bytes_eqb_refl in Eg. cbn [andb] in Eg. apply negb_false_iff, is_nil_true in Eg. congruence.
    + destruct H2 as [H2|H2]; [left; exact H2|right; apply ltb_leb; exact H2].
Qed.

(* loadLastRegion: the region it returns has an unbounded end *)
Lemma load_last_end : forall fuel t start r t', load_last pd budget fuel t start = (Ok r, t') -> r_end r = [].
Proof.
  induction fuel as [|f IH]; intros t start r t'; cbn [load_last]; [discriminate|].
  destruct (scan_loop pd budget (S f) t (ReqScan start [] 128) [(start, [])] 128 true) as [[regs|e] t1]; [|discriminate].
  destruct (rev regs) as [|lastr x]; [discriminate|]. destruct (is_nil (r_end lastr)) eqn:E; [|apply IH].
  intros H; injection H as <- _. apply is_nil_true. exact E.
Qed.
Lemma load_for_holds c fuel t key is_end r t' : load_for pd budget c fuel t key is_end = (Ok r, t') -> holds is_end r key = true.
Proof.
  unfold load_for. destruct (is_end && is_nil key) eqn:E.
  - apply andb_true_iff in E. destruct E as [-> E]. apply is_nil_true in E. subst key. intros H. apply load_last_end in H.
    unfold holds, r_contains_end, contains_by_end. cbn [is_nil]. rewrite H. reflexivity.
  - intros H. eapply load_region_holds; [| |exact H]; [|discriminate]. intros -> Hk. subst key. discriminate E.
Qed.
(* LocateKey / LocateEndKey, the empty end key (the end of the key space) included *)
Lemma find_region_by_key_holds fuel t c key is_end r c' t' :
  find_region_by_key pd budget fuel t c key is_end = (Ok r, c', t') -> holds is_end r key = true.
Proof.
  unfold find_region_by_key.
  assert (Hmiss : forall x,
    match load_for pd budget c fuel t key is_end with
    | (Err e, t1) => (Err e, c, t1)
    | (Ok lr, t1) =>
        let '(ok, c1) := insert_new c lr in
        if ok then (Ok (as_stored c lr), c1, t1)
        else match load_for pd budget c1 fuel t1 key is_end with
             | (Err e, t2) => (Err e, c1, t2)
             | (Ok lr2, t2) => (Ok (as_stored c1 lr2), snd (insert_new c1 lr2), t2)
             end
    end = (Ok r, c', t') -> x = tt -> holds is_end r key = true).
  { intros _ H _. destruct (load_for pd budget c fuel t key is_end) as [[lr|e] t1] eqn:E1; [|discriminate H].
    destruct (insert_new c lr) as [ok c1]. destruct ok.
    - injection H as <- _ _. rewrite holds_as_stored. eapply load_for_holds; exact E1.
    - destruct (load_for pd budget c1 fuel t1 key is_end) as [[lr2|e] t2] eqn:E2; [|discriminate H].
      injection H as <- _ _. rewrite holds_as_stored. eapply load_for_holds; exact E2. }
  destruct (search (c_sorted c) key is_end) as [x|] eqn:Es; [|intros H; exact (Hmiss tt H eq_refl)].
  destruct (r_expired x); [intros H; exact (Hmiss tt H eq_refl)|].
  destruct (flagged x).
  - destruct (load_for pd budget c fuel t key is_end) as [[lr|e] t1] eqn:E1.
    + intros H; injection H as <- _ _. rewrite holds_as_stored. eapply load_for_holds; exact E1.
    + intros H; injection H as <- _ _. eapply search_contains; exact Es.
  - intros H; injection H as <- _ _. eapply search_contains; exact Es.
Qed.

Lemma try_find_holds c key is_end r : try_find c key is_end = Some r -> holds is_end r key = true.
Proof.
  unfold try_find. destruct (search (c_sorted c) key is_end) as [x|] eqn:Es; [|discriminate].
  destruct (r_expired x || flagged x); [discriminate|]. intros H; injection H as <-. eapply search_contains; exact Es.
Qed.

(* by id *)
Hypothesis Hbyid : pd_byid_sound pd.
Lemma entry_at_verid c s v r : entry_at c s v = Some r -> r_verid r = v /\ r_start r = s /\ In r (c_sorted c).
Proof.
  unfold entry_at. intros H. pose proof (find_some _ _ H) as [Hin Hb].
  apply andb_true_iff in Hb. destruct Hb as [H1 H2]. apply bytes_eqb_eq in H1. apply verid_eqb_eq in H2. tauto.
Qed.
Lemma get_by_verid_verid c v r : get_by_verid c v = Some r -> r_verid r = v /\ In r (c_sorted c).
Proof.
  unfold get_by_verid. destruct (reg_get v (c_regions c)); [|discriminate]. intros H. apply entry_at_verid in H. tauto.
Qed.
Lemma load_by_id_id t id r t' : load_by_id pd budget t id = (Ok r, t') -> r_id r = id.
Proof.
  unfold load_by_id. destruct (call pd budget t (ReqById id)) as [a|] eqn:Ec; [|discriminate].
  apply call_some in Ec. destruct a as [[d|]|l]; try discriminate.
  destruct (is_nil (d_peers d)); [discriminate|]. intros H; injection H as <- _. cbn. symmetry in Ec. exact (Hbyid _ _ _ Ec).
Qed.
Lemma locate_by_id_id t c id r c' t' : locate_by_id pd budget t c id = (Ok r, c', t') -> r_id r = id.
Proof.
  unfold locate_by_id.
  assert (Hs : forall x, search_by_id c id = Some x -> r_id x = id).
  { unfold search_by_id. intros x. destruct (lat_get id (c_latest c)) as [[ver conf]|]; [|discriminate].
    intros H. apply get_by_verid_verid in H. destruct H as [H _]. unfold r_verid in H. congruence. }
  assert (Hmiss : match load_by_id pd budget t id with
                  | (Err e, t1) => (Err e, c, t1)
                  | (Ok lr, t1) => (Ok lr, snd (insert_new c lr), t1)
                  end = (Ok r, c', t') -> r_id r = id).
  { destruct (load_by_id pd budget t id) as [[lr|e] t1] eqn:E1; [|discriminate].
    intros H; injection H as <- _ _. eapply load_by_id_id; exact E1. }
  destruct (search_by_id c id) as [x|] eqn:Es; [|exact Hmiss].
  destruct (r_expired x); [exact Hmiss|]. destruct (flagged x).
  - destruct (load_by_id pd budget t id) as [[lr|e] t1] eqn:E1.
    + intros H; injection H as <- _ _. eapply load_by_id_id; exact E1.
    + intros H; injection H as <- _ _. apply Hs; reflexivity.
  - intros H; injection H as <- _ _. apply Hs; reflexivity.
Qed.

(* GroupKeysByRegion: every key is assigned, in order, to a location that contains it *)
Lemma group_assign_spec : forall keys fuel t c lastl acc asg c' t',
  (forall kr, In kr acc -> r_contains (snd kr) (fst kr) = true) ->
  group_assign pd budget fuel t c keys lastl acc = (Ok asg, c', t') ->
  map fst asg = map fst acc ++ keys /\ (forall kr, In kr asg -> r_contains (snd kr) (fst kr) = true).
Proof.
  induction keys as [|k rest IH]; intros fuel t c lastl acc asg c' t' Hacc; cbn [group_assign].
  - intros H; injection H as <- _ _. rewrite app_nil_r. split; [reflexivity|exact Hacc].
  - destruct (match lastl with Some l => if r_contains l k then Some l else None | None => None end) as [l|] eqn:El.
    + intros H. apply IH in H.
      * destruct H as [H1 H2]. split; [|exact H2]. rewrite H1, map_app, <- app_assoc. reflexivity.
      * intros kr Hin. apply in_app_or in Hin. destruct Hin as [Hin|[<-|[]]]; [apply Hacc; exact Hin|]. cbn [fst snd].
        destruct lastl as [l0|]; [|discriminate]. destruct (r_contains l0 k) eqn:E; [|discriminate]. injection El as <-. exact E.
    + destruct (find_region_by_key pd budget fuel t c k false) as [[[r|e] c1] t1] eqn:Ef; [|discriminate].
      intros H. apply IH in H.
      * destruct H as [H1 H2]. split; [|exact H2]. rewrite H1, map_app, <- app_assoc. reflexivity.
      * intros kr Hin. apply in_app_or in Hin. destruct Hin as [Hin|[<-|[]]]; [apply Hacc; exact Hin|]. cbn [fst snd].
        apply (find_region_by_key_holds _ _ _ _ false _ _ _ Ef).
Qed.
End PD.

(* ---- grouping is a partition ---- *)
From Coq Require Import Permutation.
Lemma group_add_perm v k g :
  Permutation (concat (map snd (group_add v k g))) (k :: concat (map snd g)).
Proof.
  induction g as [|[w ks] t IH]; cbn [group_add map snd concat].
  - cbn. reflexivity.
  - destruct (verid_eqb w v); cbn [map snd concat].
    + change (k :: ks ++ concat (map snd t)) with ((k :: ks) ++ concat (map snd t)).
      apply Permutation_app_tail. symmetry. apply Permutation_cons_append.
    + eapply Permutation_trans; [apply Permutation_app_head; exact IH|]. symmetry. apply Permutation_middle.
Qed.
Lemma group_add_keys v k g : map fst (group_add v k g) = if existsb (fun p => verid_eqb (fst p) v) g then map fst g else map fst g ++ [v].
Proof.
  induction g as [|[w ks] t IH]; cbn [group_add map fst existsb]; [reflexivity|].
  destruct (verid_eqb w v) eqn:E; cbn [orb map fst]; [reflexivity|]. rewrite IH.
  destruct (existsb (fun p => verid_eqb (fst p) v) t); reflexivity.
Qed.
Lemma NoDup_snoc {A} (l : list A) a : NoDup l -> ~ In a l -> NoDup (l ++ [a]).
Proof.
  induction l as [|x l IH]; cbn [app]; intros H Hn.
  - constructor; [intros []|constructor].
  - inversion H as [|? ? Hx Hl]; subst. constructor.
    + intros Hin. apply in_app_or in Hin. destruct Hin as [Hin|[<-|[]]]; [exact (Hx Hin)|apply Hn; left; reflexivity].
    + apply IH; [exact Hl|intros Hin; apply Hn; right; exact Hin].
Qed.
Lemma group_add_nodup v k g : NoDup (map fst g) -> NoDup (map fst (group_add v k g)).
Proof.
  intros H. rewrite group_add_keys. destruct (existsb (fun p => verid_eqb (fst p) v) g) eqn:E; [exact H|].
  apply NoDup_snoc; [exact H|]. intros Hin. apply in_map_iff in Hin. destruct Hin as [p [Hp Hin]].
  assert (existsb (fun p => verid_eqb (fst p) v) g = true); [|congruence].
  apply existsb_exists. exists p. split; [exact Hin|]. rewrite Hp. apply verid_eqb_refl.
Qed.
