(* Region/ProofsBucket.v — buckets: LocateBucket for ANY list of bucket keys (sorted or not, inside the region or
   not): a key of the region always gets a bucket that contains it; a bucket found by the search is clamped into
   the region; the fall-back buckets are not (refuted with a witness). Bucket versions never go back. *)
From Verif Require Import Base.Lex Region.Model Region.Ord.
Open Scope N_scope.

(* ---- sort.Search ---- *)
Lemma div2_bounds i j : (i < j)%nat -> (i <= Nat.div2 (i + j) < j)%nat.
Proof.
  intros H. pose proof (Nat.div2_odd (i + j)) as E. destruct (Nat.odd (i + j)); cbn [Nat.b2n] in E; lia.
Qed.
Lemma bsearch_post n f : forall fuel i j,
  (i <= j)%nat -> (j - i < fuel)%nat -> (i = 0%nat \/ f (i - 1)%nat = false) -> (j = n \/ f j = true) ->
  let r := bsearch fuel i j f in (i <= r <= j)%nat /\ (r = 0%nat \/ f (r - 1)%nat = false) /\ (r = n \/ f r = true).
Proof.
  induction fuel as [|fu IH]; intros i j Hij Hf Hi Hj; [lia|]. cbn [bsearch].
  destruct (Nat.ltb i j) eqn:E.
  - apply Nat.ltb_lt in E. pose proof (div2_bounds i j E) as [H1 H2]. destruct (f (Nat.div2 (i + j))) eqn:Eh.
    + destruct (IH i (Nat.div2 (i + j)) H1 ltac:(lia) Hi (or_intror Eh)) as [A [B C]]. cbv zeta. split; [lia|split; assumption].
    + destruct (IH (S (Nat.div2 (i + j))) j ltac:(lia) ltac:(lia)) as [A [B C]]; [right; cbn; rewrite Nat.sub_0_r; exact Eh|exact Hj|].
      cbv zeta. split; [lia|split; assumption].
  - apply Nat.ltb_ge in E. cbv zeta. assert (i = j) by lia. subst j. split; [lia|split; assumption].
Qed.
Lemma sort_search_post n f : let r := sort_search n f in
  (r <= n)%nat /\ (r = 0%nat \/ f (r - 1)%nat = false) /\ (r = n \/ f r = true).
Proof.
  unfold sort_search. destruct (bsearch_post n f (S n) 0 n ltac:(lia) ltac:(lia) (or_introl eq_refl) (or_introl eq_refl)) as [A [B C]].
  cbv zeta. split; [lia|split; assumption].
Qed.

(* ---- locateBucket: whatever the key list, a found bucket contains the key ---- *)
Lemma locate_bucket_contains keys key a b : locate_bucket keys key = Some (a, b) -> contains a b key = true.
Proof.
  unfold locate_bucket. destruct keys as [|k0 t]; [discriminate|]. remember (k0 :: t) as keys eqn:Ek. clear Ek k0 t. cbv zeta.
  remember (length keys - 1)%nat as sl eqn:Esl. remember (fun i => lex_ltb key (nth i keys [])) as f eqn:Ef.
  destruct (sort_search_post sl f) as [Hle [Hlo Hhi]]. remember (sort_search sl f) as i eqn:Ei. clear Ei.
  destruct (Nat.eqb i 0 || (Nat.eqb i sl && negb (is_nil (nth sl keys [])) && lex_leb (nth sl keys []) key)) eqn:Ec; [discriminate|].
  apply orb_false_iff in Ec. destruct Ec as [E0 E1]. apply Nat.eqb_neq in E0.
  intros H; injection H as <- <-. unfold contains. apply andb_true_iff. split.
  - destruct Hlo as [Hlo|Hlo]; [contradiction|]. rewrite Ef in Hlo. apply ltb_false_leb. exact Hlo.
  - destruct Hhi as [Hhi|Hhi]; [|rewrite Ef in Hhi; rewrite Hhi; reflexivity].
    rewrite Hhi in *. rewrite Nat.eqb_refl in E1. cbn [andb] in E1. apply andb_false_iff in E1. destruct E1 as [E1|E1].
    + apply negb_false_iff in E1. rewrite E1. apply orb_true_r.
    + apply leb_false_ltb in E1. rewrite E1. reflexivity.
Qed.
(* when the search fails, the key is below the first or at / above the last bucket key *)
Lemma nth_last {A} (l : list A) d : nth (length l - 1) l d = last l d.
Proof.
  induction l as [|x t IH]; [reflexivity|]. destruct t as [|y t']; [reflexivity|].
  replace (length (x :: y :: t') - 1)%nat with (S (length (y :: t') - 1)) by (cbn [length]; lia).
  change (nth (S (length (y :: t') - 1)) (x :: y :: t') d) with (nth (length (y :: t') - 1) (y :: t') d).
  rewrite IH. reflexivity.
Qed.
Lemma locate_bucket_none first t key : locate_bucket (first :: t) key = None ->
  lex_ltb key first = true \/ lex_leb (last (first :: t) []) key = true.
Proof.
  unfold locate_bucket. remember (first :: t) as keys eqn:Ek. cbv zeta.
  remember (length keys - 1)%nat as sl eqn:Esl. remember (fun i => lex_ltb key (nth i keys [])) as f eqn:Ef.
  destruct (sort_search_post sl f) as [Hle [Hlo Hhi]]. remember (sort_search sl f) as i eqn:Ei. clear Ei.
  destruct (Nat.eqb i 0 || (Nat.eqb i sl && negb (is_nil (nth sl keys [])) && lex_leb (nth sl keys []) key)) eqn:Ec; [|discriminate].
  intros _. apply orb_true_iff in Ec. destruct Ec as [E0|E1].
  - apply Nat.eqb_eq in E0. rewrite E0 in Hhi. destruct Hhi as [Hhi|Hhi]; [|left].
    (* a single key: first = last *)
    { destruct (lex_ltb key first) eqn:E; [left; reflexivity|right]. apply ltb_false_leb in E.
      rewrite Esl, Ek in Hhi. cbn [length] in Hhi. destruct t as [|y t']; [rewrite Ek; exact E|cbn in Hhi; lia]. }
    rewrite Ef, Ek in Hhi. cbn [nth] in Hhi. exact Hhi.
  - right. apply andb_true_iff in E1. destruct E1 as [_ E1]. rewrite Esl, nth_last in E1. exact E1.
Qed.

(* ---- clamping ---- *)
Lemma clamp_contains s e b key : contains s e key = true -> contains (fst b) (snd b) key = true ->
  contains (fst (clamp_bucket s e b)) (snd (clamp_bucket s e b)) key = true.
Proof.
  intros Hr Hb. apply contains_spec in Hr. apply contains_spec in Hb. destruct Hr as [R1 R2], Hb as [B1 B2]. unfold kle, klt in *.
  unfold clamp_bucket.
  set (bs := if lex_ltb (fst b) s then s else fst b). set (be := if negb (is_nil e) && (is_nil (snd b) || lex_ltb e (snd b)) then e else snd b).
  assert (Hs : lex_leb bs key = true) by (unfold bs; destruct (lex_ltb (fst b) s); assumption).
  assert (He : be = [] \/ lex_ltb key be = true) by (unfold be; destruct (negb (is_nil e) && (is_nil (snd b) || lex_ltb e (snd b))); assumption).
  destruct (negb (is_nil be) && lex_leb be bs) eqn:Ebad; cbn [fst snd]; apply contains_spec; split; try assumption.
Qed.
Definition inside (s e : bytes) (b : bytes * bytes) : Prop :=
  lex_leb s (fst b) = true /\ (e = [] \/ (snd b <> [] /\ lex_leb (snd b) e = true)) /\ (snd b = [] \/ lex_ltb (fst b) (snd b) = true).
Lemma clamp_inside s e b : (e = [] \/ lex_ltb s e = true) -> inside s e (clamp_bucket s e b).
Proof.
  intros Hne. unfold clamp_bucket.
  set (bs := if lex_ltb (fst b) s then s else fst b). set (be := if negb (is_nil e) && (is_nil (snd b) || lex_ltb e (snd b)) then e else snd b).
  destruct (negb (is_nil be) && lex_leb be bs) eqn:Ebad; unfold inside; cbn [fst snd].
  - split; [apply leb_refl|]. split; [|exact Hne]. destruct e as [|x e']; [left; reflexivity|right; split; [discriminate|apply leb_refl]].
  - assert (Hs : lex_leb s bs = true).
    { unfold bs. destruct (lex_ltb (fst b) s) eqn:E; [apply leb_refl|apply ltb_false_leb; exact E]. }
    split; [exact Hs|]. split.
    + destruct e as [|x e']; [left; reflexivity|right]. unfold be. cbn [is_nil negb andb].
      destruct (is_nil (snd b) || lex_ltb (x :: e') (snd b)) eqn:E; [split; [discriminate|apply leb_refl]|].
      apply orb_false_iff in E. destruct E as [E1 E2]. apply is_nil_false in E1. apply ltb_false_leb in E2. split; assumption.
    + apply andb_false_iff in Ebad. destruct Ebad as [E|E]; [left; apply negb_false_iff, is_nil_true in E; exact E|right; apply leb_false_ltb; exact E].
Qed.

(* ---- LocateBucket ---- *)
Lemma locate_bucket_full_contains s e keys key : contains s e key = true ->
  exists b, locate_bucket_full s e keys key = Some b /\ contains (fst b) (snd b) key = true.
Proof.
  intros Hr. unfold locate_bucket_full. destruct (locate_bucket keys key) as [[a b]|] eqn:El.
  - eexists. split; [reflexivity|]. apply clamp_contains; [exact Hr|]. cbn [fst snd]. eapply locate_bucket_contains; exact El.
  - rewrite Hr. cbn [negb]. pose proof Hr as Hr'. apply contains_spec in Hr'. destruct Hr' as [R1 R2]. destruct keys as [|first t]; [exists (s, e); split; [reflexivity|exact Hr]|].
    destruct (locate_bucket_none first t key El) as [H|H].
    + rewrite H. exists (s, first). split; [reflexivity|]. apply contains_spec. split; [exact R1|right; exact H].
    + destruct (lex_ltb key first) eqn:E.
      * exists (s, first). split; [reflexivity|]. apply contains_spec. split; [exact R1|right; exact E].
      * rewrite H. eexists. split; [reflexivity|]. apply contains_spec. split; [exact H|exact R2].
Qed.
Lemma locate_bucket_full_found_inside s e keys key b0 : (e = [] \/ lex_ltb s e = true) ->
  locate_bucket keys key = Some b0 -> exists b, locate_bucket_full s e keys key = Some b /\ inside s e b.
Proof. intros Hne El. unfold locate_bucket_full. rewrite El. eexists. split; [reflexivity|apply clamp_inside; exact Hne]. Qed.

(* ---- bucket versions ---- *)
Lemma keep_bk_version r old : bk_ver (r_bk r) <= bk_ver (r_bk (keep_bk r old)) /\ bk_ver (r_bk old) <= bk_ver (r_bk (keep_bk r old)).
Proof.
  unfold keep_bk. cbn [r_bk]. destruct (r_bk r) as [[v ks]|]; destruct (r_bk old) as [[ov oks]|]; cbn [bk_ver]; try lia.
  destruct (v <? ov) eqn:E; cbn [bk_ver]; [apply N.ltb_lt in E|apply N.ltb_ge in E]; lia.
Qed.
Lemma inherit_bk_version r deleted :
  bk_ver (r_bk r) <= bk_ver (r_bk (inherit r deleted)) /\
  (forall old t, deleted = old :: t -> bk_ver (r_bk old) <= bk_ver (r_bk (inherit r deleted))).
Proof.
  unfold inherit. destruct deleted as [|old t]; [split; [lia|intros; discriminate]|].
  assert (Hw : r_bk (with_work r old) = r_bk r) by (unfold with_work; destruct (r_reason old =? 1); reflexivity).
  destruct (keep_bk_version (with_work r old) old) as [A B]. rewrite Hw in A. split; [exact A|]. intros o t' H. injection H as <- _. exact B.
Qed.

(* ---- UpdateBucketsIfNeeded's background reload racing with OnBucketVersionNotMatch ---- *)
(* what OnBucketVersionNotMatch does to the entry it finds *)
Definition bvnm_e (ver : N) (keys : list bytes) (x : region) : region :=
  match r_bk x with
  | Some (bv, _) => if bv <? ver then set_bk (Some (ver, keys)) x else x
  | None => set_bk (Some (ver, keys)) x
  end.
Lemma bvnm_e_version ver keys x : bk_ver (r_bk (bvnm_e ver keys x)) = N.max (bk_ver (r_bk x)) ver.
Proof.
  unfold bvnm_e. destruct (r_bk x) as [[bv ks]|] eqn:E; cbn [bk_ver].
  - destruct (bv <? ver) eqn:El; [apply N.ltb_lt in El|apply N.ltb_ge in El]; cbn [set_bk r_bk bk_ver]; [|rewrite E; cbn [bk_ver]]; lia.
  - cbn [set_bk r_bk bk_ver]. lia.
Qed.
Lemma keep_bk_version_max r old : bk_ver (r_bk (keep_bk r old)) = N.max (bk_ver (r_bk r)) (bk_ver (r_bk old)).
Proof.
  unfold keep_bk. cbn [r_bk]. destruct (r_bk r) as [[v ks]|]; destruct (r_bk old) as [[ov oks]|]; cbn [bk_ver]; try lia.
  destruct (v <? ov) eqn:E; cbn [bk_ver]; [apply N.ltb_lt in E|apply N.ltb_ge in E]; lia.
Qed.
(* both orders end with the same bucket version, the maximum of the three versions involved: nothing is lost or rolled back *)
Lemma bucket_race_confluent r old ver keys :
  bk_ver (r_bk (keep_bk r (bvnm_e ver keys old))) = N.max (N.max (bk_ver (r_bk r)) (bk_ver (r_bk old))) ver /\
  bk_ver (r_bk (bvnm_e ver keys (keep_bk r old))) = N.max (N.max (bk_ver (r_bk r)) (bk_ver (r_bk old))) ver.
Proof. rewrite keep_bk_version_max, !bvnm_e_version, keep_bk_version_max. lia. Qed.
(* OnBucketVersionNotMatch is the entry-level function applied to the entry it finds *)
Lemma on_bvnm_entry c v ver keys r : get_by_verid c v = Some r ->
  on_bucket_version_not_match c v ver keys = (if match r_bk r with Some (bv, _) => bv <? ver | None => true end then upd_entry c r (set_bk (Some (ver, keys))) else c) /\
  bvnm_e ver keys r = (if match r_bk r with Some (bv, _) => bv <? ver | None => true end then set_bk (Some (ver, keys)) r else r).
Proof.
  intros H. unfold on_bucket_version_not_match, bvnm_e. rewrite H. destruct (r_bk r) as [[bv ks]|]; [destruct (bv <? ver)|]; split; reflexivity.
Qed.
