(* Region/ProofsConvC.v — convergence: with a fixed ground truth and a PD that reports it, a request for any key
   is served by the store that leads the region holding the key within 4 rounds, from ANY cache state that
   satisfies the invariant of ProofsConvB (sorted index, addressable entries, epochs not ahead of the truth). *)
From Coq Require Import Sorting.Sorted.
From Verif Require Import Base.Lex Region.Model Region.Ord Region.ProofsContains Region.ProofsInsert Region.ProofsMerge
  Region.ProofsPhase1 Region.Converge Region.ProofsConvA Region.ProofsConvB.
Open Scope N_scope.

(* ---- indices of peers ---- *)
Lemma last_idx_bound p : forall l i acc, (acc < i + length l)%nat -> (last_idx p l i acc < i + length l)%nat.
Proof.
  induction l as [|q t IH]; intros i acc H; cbn [last_idx length] in *; [exact H|].
  replace (i + S (length t))%nat with (S i + length t)%nat by lia. apply IH. destruct (peer_eqb q p); lia.
Qed.
Lemma last_idx_notin p : forall l i acc, ~ In p l -> last_idx p l i acc = acc.
Proof.
  induction l as [|q t IH]; intros i acc H; cbn [last_idx]; [reflexivity|].
  destruct (peer_eqb q p) eqn:E; [apply peer_eqb_eq in E; subst q; exfalso; apply H; left; reflexivity|].
  apply IH. intros Hin. apply H. right; exact Hin.
Qed.
Lemma first_idx_some p : forall l i, In p l -> exists j, first_idx p l i = Some j /\ (i <= j < i + length l)%nat /\ nth (j - i) l (0, 0) = p.
Proof.
  induction l as [|q t IH]; intros i Hin; [destruct Hin|]. cbn [first_idx length].
  destruct (peer_eqb q p) eqn:E.
  - apply peer_eqb_eq in E; subst q. exists i. split; [reflexivity|]. split; [lia|]. rewrite Nat.sub_diag. reflexivity.
  - destruct Hin as [->|Hin]; [rewrite (proj2 (peer_eqb_eq p p) eq_refl) in E; discriminate|].
    destruct (IH (S i) Hin) as [j [H1 [H2 H3]]]. exists j. split; [exact H1|]. split; [lia|].
    replace (j - i)%nat with (S (j - S i)) by lia. exact H3.
Qed.
Lemma store_idx_bound st : forall l i j, store_idx st l i = Some j -> (j < i + length l)%nat.
Proof.
  induction l as [|q t IH]; intros i j; cbn [store_idx length]; [discriminate|].
  destruct (snd q =? st); [intros H; injection H as <-; lia|]. intros H. apply IH in H. lia.
Qed.
Lemma nodup_store_eq (l : list peer) p q : NoDup (map snd l) -> In p l -> In q l -> snd p = snd q -> p = q.
Proof.
  induction l as [|a t IH]; intros Hn Hp Hq He; [destruct Hp|]. cbn [map] in Hn. inversion Hn as [|? ? Hni Hn']; subst.
  destruct Hp as [<-|Hp], Hq as [<-|Hq]; [reflexivity| | |apply IH; assumption].
  - exfalso. apply Hni. rewrite He. apply in_map; exact Hq.
  - exfalso. apply Hni. rewrite <- He. apply in_map; exact Hp.
Qed.

(* store fail-epochs *)
Definition epoch_ok (c : cache) (x : region) : Prop :=
  store_epoch (c_sepochs c) (snd (nth (r_work x) (r_peers x) (0, 0))) = nth (r_work x) (r_sepochs x) 0.
Definition not_tomb (c : cache) (x : region) : Prop :=
  existsb (N.eqb (snd (nth (r_work x) (r_peers x) (0, 0)))) (c_tomb c) = false.
Lemma nth_stamp se (l : list peer) i : (i < length l)%nat ->
  nth i (map (fun p : peer => store_epoch se (snd p)) l) 0 = store_epoch se (snd (nth i l (0, 0))).
Proof.
  intros H. rewrite (nth_indep _ 0 (store_epoch se (snd ((0, 0) : peer)))) by (rewrite map_length; exact H).
  apply (map_nth (fun p : peer => store_epoch se (snd p))).
Qed.
Lemma set_nth_length v : forall i l, length (set_nth i v l) = length l.
Proof. induction i as [|i IH]; intros [|x t]; cbn [set_nth length]; try reflexivity; rewrite IH; reflexivity. Qed.
Lemma nth_set_nth v : forall i l, (i < length l)%nat -> nth i (set_nth i v l) 0 = v.
Proof. induction i as [|i IH]; intros [|x t] H; cbn [set_nth length nth] in *; try lia; try reflexivity. apply IH; lia. Qed.
Lemma epoch_ok_inherit c c' r deleted : c_sepochs c' = c_sepochs c -> (r_work (inherit (stamp (c_sepochs c) r) deleted) < length (r_peers r))%nat ->
  epoch_ok c' (inherit (stamp (c_sepochs c) r) deleted).
Proof.
  intros Hse Hw. unfold epoch_ok. rewrite Hse.
  assert (Hp : r_peers (inherit (stamp (c_sepochs c) r) deleted) = r_peers r /\ r_sepochs (inherit (stamp (c_sepochs c) r) deleted) = map (fun p : peer => store_epoch (c_sepochs c) (snd p)) (r_peers r)).
  { unfold inherit, with_work. destruct deleted as [|old t]; [split; reflexivity|]. destruct (r_reason old =? 1); split; reflexivity. }
  destruct Hp as [Hp1 Hp2]. rewrite Hp1, Hp2. symmetry. apply nth_stamp. exact Hw.
Qed.

Section Conv.
Variable truth : list desc.
Hypothesis Htw : truth_wf truth.
Variable cur_of : desc -> list desc.
Hypothesis Hcur : forall R, In R truth -> In R (cur_of R) /\ forall d, In d (cur_of R) -> In d truth.
Variable pd : nat -> pd_req -> pd_ans.
Hypothesis Hpd : forall t k T, In T truth -> tcontains T k = true -> pd t (ReqGet k) = PdOne (Some T).
Variable budget fuel : nat.
Hypothesis Hbud : (0 < budget)%nat.
Hypothesis Hfuel : (0 < fuel)%nat.
Variable k : bytes.
Variable T : desc.
Hypothesis HT : In T truth.
Hypothesis HTk : tcontains T k = true.

Notation cinv := (cinv truth).
Notation round := (round truth cur_of pd budget fuel).
Notation rounds := (rounds truth cur_of pd budget fuel).
Notation store_reply := (store_reply truth cur_of).

Definition load_state (c : cache) : Prop :=
  match search (c_sorted c) k false with None => True | Some x => r_expired x = true \/ flagged x = true end.
Definition st_T (c : cache) (e : region) : Prop :=
  search (c_sorted c) k false = Some e /\ r_expired e = false /\ flagged e = false /\ r_verid e = d_verid T /\ epoch_ok c e.
Definition stale (c : cache) (x : region) : Prop :=
  search (c_sorted c) k false = Some x /\ r_expired x = false /\ flagged x = false /\ r_verid x <> d_verid T /\ epoch_ok c x /\ not_tomb c x.

Lemma peers_T_nonempty R : In R truth -> d_peers R <> [].
Proof. intros HR E. pose proof (tw_leader _ Htw R HR) as H. rewrite E in H. destruct H. Qed.

Lemma of_truth_new R : of_truth (new_region R) R.
Proof. repeat split. Qed.
Lemma fresh_new R : fresh (new_region R).
Proof. repeat split. Qed.
Lemma work_new R : In R truth -> (r_work (new_region R) < length (r_peers (new_region R)))%nat.
Proof.
  intros HR. cbn [new_region r_work r_peers]. apply (last_idx_bound (d_leader R) (d_peers R) 0 0). cbn.
  destruct (d_peers R) eqn:E; [exfalso; apply (peers_T_nonempty R HR); exact E|cbn; lia].
Qed.
Lemma of_truth_on_store bk R st : of_truth (region_on_store bk R st) R /\ fresh (region_on_store bk R st).
Proof. unfold region_on_store. destruct (store_idx st (d_peers R) 0); repeat split. Qed.
Lemma work_on_store bk R st : In R truth -> (r_work (region_on_store bk R st) < length (r_peers (region_on_store bk R st)))%nat.
Proof.
  intros HR. unfold region_on_store. destruct (store_idx st (d_peers R) 0) as [i|] eqn:E.
  - cbn. apply store_idx_bound in E. lia.
  - cbn [new_region r_work r_peers d_peers d_leader]. apply (last_idx_bound (0, 0) (d_peers R) 0 0). cbn.
    destruct (d_peers R) eqn:E2; [exfalso; apply (peers_T_nonempty R HR); exact E2|cbn; lia].
Qed.

(* ---- PD reports the truth ---- *)
Lemma load_T t : (t < budget)%nat -> load_region pd budget fuel t k false false = (Ok (new_region T), S t).
Proof.
  intros Ht. destruct fuel as [|f]; [lia|]. cbn [load_region]. unfold call.
  replace (Nat.ltb t budget) with true by (symmetry; apply Nat.ltb_lt; exact Ht). rewrite (Hpd t k T HT HTk).
  destruct (is_nil (d_peers T)) eqn:E; [apply is_nil_true in E; exfalso; apply (peers_T_nonempty T HT); exact E|]. reflexivity.
Qed.

(* every state that is not a valid unflagged hit loads the current region and caches it *)
Lemma find_load c : cinv c -> load_state c ->
  exists c1 r1 r', find_region_by_key pd budget fuel 0 c k false = (Ok r', c1, 1%nat) /\ r_verid r' = d_verid T /\ cinv c1 /\
    search (c_sorted c1) k false = Some r1 /\ In r1 (c_sorted c1) /\ r_verid r1 = d_verid T /\ r_expired r1 = false /\ flagged r1 = false /\ epoch_ok c1 r1.
Proof.
  intros Hc Hl.
  assert (Hins : forall c0, cinv c0 -> exists c1 r1, insert_new c0 (new_region T) = (true, c1) /\ cinv c1 /\
            search (c_sorted c1) k false = Some r1 /\ In r1 (c_sorted c1) /\ r_verid r1 = d_verid T /\ r_expired r1 = false /\ flagged r1 = false /\ epoch_ok c1 r1).
  { intros c0 Hc0. unfold insert_new. set (r0 := stamp (c_sepochs c0) (new_region T)).
    destruct (insert_truth truth Htw c0 r0 T Hc0 HT (of_truth_new T) (fresh_new T) (work_new T HT)) as [c1 [deleted [Hi [Hc1 [Hse _]]]]].
    { unfold r0. cbn [stamp r_sepochs r_peers]. apply map_length. }
    assert (Hne : nonempty_range r0) by (apply (tw_nonempty _ Htw T HT)).
    destruct (search_after_insert c0 r0 c1 k (ci_sorted _ c0 Hc0) Hne Hi HTk) as [del2 [Hs Hin]].
    exists c1, (inherit r0 del2). split; [exact Hi|]. split; [exact Hc1|]. split; [exact Hs|]. split; [exact Hin|].
    destruct (inherit_same r0 del2) as [I1 [_ [_ [I4 [I5 [I6 [I7 [I8 [I9 _]]]]]]]]].
    split; [unfold r_verid, d_verid; rewrite I1, I4, I5; reflexivity|]. split; [rewrite I7; reflexivity|]. split; [unfold flagged; rewrite I8, I9; reflexivity|].
    apply epoch_ok_inherit; [exact Hse|]. destruct (ci_ok _ c1 Hc1 _ Hin) as [_ [_ [Hw _]]]. rewrite I6 in Hw. exact Hw. }
  assert (Hav : forall c0, r_verid (as_stored c0 (new_region T)) = d_verid T).
  { intros c0. destruct (as_stored_range c0 (new_region T)) as [_ [_ [A [B C]]]]. unfold r_verid, d_verid. rewrite A, B, C. reflexivity. }
  unfold find_region_by_key, load_for. cbn [andb]. unfold load_state in Hl.
  destruct (search (c_sorted c) k false) as [x|] eqn:Es.
  - destruct (r_expired x) eqn:Ee.
    + rewrite (load_T 0 Hbud). destruct (Hins c Hc) as [c1 [r1 [Hi H]]]. rewrite Hi. cbn [snd]. eexists c1, r1, _. split; [reflexivity|]. split; [apply Hav|exact H].
    + destruct Hl as [Hl|Hl]; [discriminate|]. rewrite Hl. rewrite (load_T 0 Hbud).
      assert (Hx : In x (c_sorted c)) by (eapply search_in; exact Es).
      destruct (upd_entry_inv truth c x clear_access_flags Hc Hx shape_clear) as [Hc0 _].
      { destruct (ci_ok _ c Hc x Hx) as [A [B [C D]]]. repeat split; assumption. }
      { apply (ci_len _ c Hc x Hx). }
      destruct (Hins _ Hc0) as [c1 [r1 [Hi H]]]. rewrite Hi. cbn [snd]. eexists c1, r1, _. split; [reflexivity|]. split; [apply Hav|exact H].
  - rewrite (load_T 0 Hbud). destruct (Hins c Hc) as [c1 [r1 [Hi H]]]. rewrite Hi. cbn [snd]. eexists c1, r1, _. split; [reflexivity|]. split; [apply Hav|exact H].
Qed.
Lemma find_hit c x : search (c_sorted c) k false = Some x -> r_expired x = false -> flagged x = false ->
  find_region_by_key pd budget fuel 0 c k false = (Ok x, c, 0%nat).
Proof. intros Hs He Hf. unfold find_region_by_key. rewrite Hs, He, Hf. reflexivity. Qed.

Lemma rpc_ctx_in c x : cinv c -> In x (c_sorted c) -> r_expired x = false -> flagged x = false -> epoch_ok c x -> not_tomb c x ->
  rpc_ctx c (r_verid x) = (Some (x, nth (r_work x) (r_peers x) (0, 0)), c).
Proof.
  intros Hc Hx He Hf Hep Hnt. unfold rpc_ctx. rewrite (get_by_verid_in truth c x Hc Hx), He.
  unfold flagged in Hf. apply orb_false_iff in Hf. destruct Hf as [-> _]. cbn [orb]. unfold not_tomb in Hnt. rewrite Hnt.
  unfold epoch_ok in Hep. rewrite Hep, N.eqb_refl. reflexivity.
Qed.
Lemma rpc_ctx_bad c x : cinv c -> In x (c_sorted c) -> r_expired x = false -> flagged x = false -> ~ (epoch_ok c x /\ not_tomb c x) ->
  exists reason, reason <> 0 /\ rpc_ctx c (r_verid x) = (None, upd_entry c x (invalidate_r reason)).
Proof.
  intros Hc Hx He Hf Hbad. unfold rpc_ctx. rewrite (get_by_verid_in truth c x Hc Hx), He.
  unfold flagged in Hf. apply orb_false_iff in Hf. destruct Hf as [-> _]. cbn [orb].
  destruct (existsb (N.eqb (snd (nth (r_work x) (r_peers x) (0, 0)))) (c_tomb c)) eqn:Et; [exists 4; split; [discriminate|reflexivity]|].
  destruct (N.eqb_spec (store_epoch (c_sepochs c) (snd (nth (r_work x) (r_peers x) (0, 0)))) (nth (r_work x) (r_sepochs x) 0)) as [E|E].
  - exfalso. apply Hbad. split; [exact E|exact Et].
  - exists 5. split; [discriminate|reflexivity].
Qed.
(* an entry that carries the version of a current region has its work peer on a store that is no tombstone *)
Lemma entry_not_tomb c e R : cinv c -> In e (c_sorted c) -> In R truth -> r_verid e = d_verid R -> not_tomb c e.
Proof.
  intros Hc Hin HR Hv. destruct (ci_hist _ c Hc e R Hin HR Hv) as [_ [_ Hp]]. destruct (ci_ok _ c Hc e Hin) as [_ [_ [Hw _]]].
  unfold not_tomb. apply (ci_tomb _ c Hc R); [exact HR|]. rewrite <- Hp. apply nth_In. exact Hw.
Qed.

(* ---- what the store answers ---- *)
Lemma find_truth_id R : In R truth -> find (fun X => d_id X =? d_id R) truth = Some R.
Proof.
  intros HR. apply find_first_unique; [exact HR|apply N.eqb_refl|]. intros y Hy Hp. apply N.eqb_eq in Hp. apply (tw_ids _ Htw); assumption.
Qed.
Lemma find_store_peer R p : In R truth -> In p (d_peers R) -> find (fun q : peer => snd q =? snd p) (d_peers R) = Some p.
Proof.
  intros HR Hp. apply find_first_unique; [exact Hp|apply N.eqb_refl|]. intros q Hq He. apply N.eqb_eq in He.
  apply (nodup_store_eq (d_peers R)); [apply (tw_stores _ Htw R HR)|exact Hq|exact Hp|exact He].
Qed.
(* an entry that carries the current version of region R, asked at one of R's peers *)
Lemma reply_current R e p : In R truth -> r_verid e = d_verid R -> In p (d_peers R) ->
  store_reply (r_verid e) p = if peer_eqb p (d_leader R) then RepOk else RepNotLeader (d_leader R).
Proof.
  intros HR Hv Hp. rewrite Hv. unfold Converge.store_reply, d_verid. rewrite (find_truth_id R HR), (find_store_peer R p HR Hp).
  destruct (peer_eqb p (d_leader R)); cbn [negb]; [|reflexivity]. rewrite !N.eqb_refl. reflexivity.
Qed.

(* ---- the key's own region is cached ---- *)
Lemma st_T_entry c e : cinv c -> st_T c e -> In e (c_sorted c) /\ r_peers e = d_peers T /\ (r_work e < length (d_peers T))%nat.
Proof.
  intros Hc [Hs [_ [_ [Hv _]]]]. assert (Hin : In e (c_sorted c)) by (eapply search_in; exact Hs).
  destruct (ci_hist _ c Hc e T Hin HT Hv) as [_ [_ Hp]]. split; [exact Hin|]. split; [exact Hp|].
  destruct (ci_ok _ c Hc e Hin) as [_ [_ [Hw _]]]. rewrite Hp in Hw. exact Hw.
Qed.
Lemma st_T_leader_round c e : cinv c -> st_T c e -> nth (r_work e) (r_peers e) (0, 0) = d_leader T -> round c k = (true, c).
Proof.
  intros Hc Hst Hl. destruct (st_T_entry c e Hc Hst) as [Hin [Hp Hw]]. destruct Hst as [Hs [He [Hf [Hv Hep]]]].
  unfold Converge.round. rewrite (find_hit c e Hs He Hf), (rpc_ctx_in c e Hc Hin He Hf Hep (entry_not_tomb c e T Hc Hin HT Hv)).
  rewrite (reply_current T e _ HT Hv); [|rewrite Hl; apply (tw_leader _ Htw T HT)].
  rewrite Hl. rewrite (proj2 (peer_eqb_eq _ _) eq_refl). reflexivity.
Qed.
(* switching the entry of the key's region to the leader makes the next round succeed *)
Lemma fix_leader c e : cinv c -> st_T c e ->
  let c2 := update_leader c (r_verid e) (Some (d_leader T)) (r_work e) in cinv c2 /\ round c2 k = (true, c2).
Proof.
  intros Hc Hst. destruct (st_T_entry c e Hc Hst) as [Hin [Hp Hw]]. pose proof Hst as [Hs [He [Hf [Hv Hep]]]].
  cbv zeta. unfold update_leader. rewrite (get_by_verid_in truth c e Hc Hin). rewrite Hp.
  destruct (first_idx_some (d_leader T) (d_peers T) 0 (tw_leader _ Htw T HT)) as [i [Hi [Hib Hnth]]]. rewrite Hi.
  rewrite Nat.sub_0_r in Hnth.
  destruct (Nat.eqb (r_work e) i) eqn:Ewi.
  { apply Nat.eqb_eq in Ewi. split; [exact Hc|]. apply (st_T_leader_round c e Hc Hst). rewrite Ewi, Hp. exact Hnth. }
  assert (Hlen : length (r_sepochs e) = length (d_peers T)) by (rewrite <- Hp; apply (ci_len _ c Hc e Hin)).
  destruct (upd_entry_inv truth c e (switch_work (c_sepochs c) i) Hc Hin (shape_switch_work _ i)) as [Hc2 Hmem].
  { destruct (ci_ok _ c Hc e Hin) as [A [B [C D]]]. repeat split; try assumption. cbn. rewrite Hp. lia. }
  { cbn [switch_work r_sepochs r_peers]. rewrite set_nth_length. apply (ci_len _ c Hc e Hin). }
  split; [exact Hc2|]. apply (st_T_leader_round _ (switch_work (c_sepochs c) i e) Hc2).
  - split; [|split; [exact He|split; [exact Hf|split; [exact Hv|]]]].
    + rewrite upd_entry_sorted, (search_map _ _ _ (upd_fun_shape e _ (shape_switch_work (c_sepochs c) i))), Hs.
      cbn [option_map]. rewrite upd_fun_self. reflexivity.
    + unfold epoch_ok. cbn [switch_work r_work r_peers r_sepochs upd_entry c_sepochs]. rewrite nth_set_nth by lia. reflexivity.
  - cbn [switch_work r_work r_peers]. rewrite Hp. exact Hnth.
Qed.

Lemma rounds_S n c c' : round c k = (false, c') -> rounds (S n) c k = rounds n c' k.
Proof. intros H. cbn [Converge.rounds]. rewrite H. reflexivity. Qed.
Lemma rounds_true n c c' : round c k = (true, c') -> rounds (S n) c k = true.
Proof. intros H. cbn [Converge.rounds]. rewrite H. reflexivity. Qed.
Lemma rounds_mono n : forall c, rounds n c k = true -> rounds (S n) c k = true.
Proof.
  induction n as [|n IH]; intros c H; [discriminate|]. cbn [Converge.rounds] in *. destruct (round c k) as [ok c'].
  destruct ok; [reflexivity|]. apply IH. exact H.
Qed.

(* a cached entry of the key's region: at most one NotLeader round *)
Lemma from_entry c e : cinv c -> In e (c_sorted c) -> r_verid e = d_verid T -> r_expired e = false -> flagged e = false -> epoch_ok c e ->
  rpc_ctx c (r_verid e) = (Some (e, nth (r_work e) (r_peers e) (0, 0)), c) /\
  (nth (r_work e) (r_peers e) (0, 0) = d_leader T \/
   store_reply (r_verid e) (nth (r_work e) (r_peers e) (0, 0)) = RepNotLeader (d_leader T)).
Proof.
  intros Hc Hin Hv He Hf Hep. split; [apply rpc_ctx_in; try assumption; apply (entry_not_tomb c e T); assumption|].
  destruct (ci_hist _ c Hc e T Hin HT Hv) as [_ [_ Hp]]. destruct (ci_ok _ c Hc e Hin) as [_ [_ [Hw _]]].
  assert (Hpin : In (nth (r_work e) (r_peers e) (0, 0)) (d_peers T)) by (rewrite <- Hp; apply nth_In; exact Hw).
  rewrite (reply_current T e _ HT Hv Hpin). destruct (peer_eqb (nth (r_work e) (r_peers e) (0, 0)) (d_leader T)) eqn:E.
  - left. apply peer_eqb_eq. exact E.
  - right. reflexivity.
Qed.

Lemma st_T_converges c e : cinv c -> st_T c e -> rounds 2 c k = true.
Proof.
  intros Hc Hst. destruct (st_T_entry c e Hc Hst) as [Hin [Hp Hw]]. pose proof Hst as [Hs [He [Hf [Hv Hep]]]].
  destruct (from_entry c e Hc Hin Hv He Hf Hep) as [Hrpc [Hl|Hrep]].
  - eapply rounds_true. apply (st_T_leader_round c e Hc Hst Hl).
  - assert (Hr : round c k = (false, update_leader c (r_verid e) (Some (d_leader T)) (r_work e))).
    { unfold Converge.round. rewrite (find_hit c e Hs He Hf), Hrpc, Hrep. reflexivity. }
    rewrite (rounds_S _ _ _ Hr). destruct (fix_leader c e Hc Hst) as [_ H]. eapply rounds_true. exact H.
Qed.

Lemma load_converges c : cinv c -> load_state c -> rounds 2 c k = true.
Proof.
  intros Hc Hl. destruct (find_load c Hc Hl) as [c1 [r1 [r' [Hf [Hv' [Hc1 [Hs [Hin [Hv [He [Hfl Hep]]]]]]]]]]].
  assert (Hst : st_T c1 r1) by (repeat split; assumption).
  assert (Hvn : r_verid r' = r_verid r1) by (rewrite Hv, Hv'; reflexivity).
  destruct (from_entry c1 r1 Hc1 Hin Hv He Hfl Hep) as [Hrpc [Hlead|Hrep]].
  - eapply rounds_true. unfold Converge.round. rewrite Hf, Hvn, Hrpc.
    destruct (st_T_entry c1 r1 Hc1 Hst) as [_ [Hp Hw]].
    rewrite (reply_current T r1 _ HT Hv); [|rewrite Hlead; apply (tw_leader _ Htw T HT)].
    rewrite Hlead, (proj2 (peer_eqb_eq _ _) eq_refl). reflexivity.
  - assert (Hr : round c k = (false, update_leader c1 (r_verid r1) (Some (d_leader T)) (r_work r1))).
    { unfold Converge.round. rewrite Hf, Hvn, Hrpc, Hrep. reflexivity. }
    rewrite (rounds_S _ _ _ Hr). destruct (fix_leader c1 r1 Hc1 Hst) as [_ H]. eapply rounds_true. exact H.
Qed.

(* ---- a valid entry of another (stale) description answers for the key ---- *)
Lemma found_entry c x : cinv c -> search (c_sorted c) k false = Some x -> r_expired x = false ->
  In x (c_sorted c) /\ r_contains x k = true /\ r_reason x = 0.
Proof.
  intros Hc Hs He. assert (Hin : In x (c_sorted c)) by (eapply search_in; exact Hs). split; [exact Hin|].
  split; [exact (search_contains _ _ false _ Hs)|]. destruct (ci_ok _ c Hc x Hin) as [_ [_ [_ Hr]]].
  destruct (N.eq_dec (r_reason x) 0) as [E|E]; [exact E|]. rewrite (Hr E) in He. discriminate.
Qed.
Lemma stale_entry c x : cinv c -> stale c x -> In x (c_sorted c) /\ r_contains x k = true /\ r_reason x = 0.
Proof. intros Hc [Hs [He _]]. apply found_entry; assumption. Qed.
(* a stale entry does not carry the version of any current region *)
Lemma stale_not_current c x R : cinv c -> stale c x -> In R truth -> r_verid x <> d_verid R.
Proof.
  intros Hc Hst HR Hv. destruct (stale_entry c x Hc Hst) as [Hin [Hk _]]. destruct Hst as [_ [_ [_ [Hne _]]]].
  destruct (ci_hist _ c Hc x R Hin HR Hv) as [H1 [H2 _]].
  assert (R = T); [|subst R; contradiction]. apply (tw_disjoint _ Htw R T k HR HT); [|exact HTk].
  unfold tcontains. rewrite <- H1, <- H2. exact Hk.
Qed.

(* invalidating the entry that answers for the key leads to a reload *)
Lemma invalidate_found c x reason : cinv c -> search (c_sorted c) k false = Some x -> r_expired x = false -> reason <> 0 ->
  cinv (upd_entry c x (invalidate_r reason)) /\ load_state (upd_entry c x (invalidate_r reason)).
Proof.
  intros Hc Hs He Hr. destruct (found_entry c x Hc Hs He) as [Hin [_ Hr0]].
  destruct (upd_entry_inv truth c x (invalidate_r reason) Hc Hin (shape_invalidate reason)) as [Hc2 _].
  { destruct (ci_ok _ c Hc x Hin) as [A [B [C D]]]. unfold invalidate_r. rewrite Hr0. cbn. repeat split; try assumption. }
  { unfold invalidate_r. destruct (r_reason x =? 0); apply (ci_len _ c Hc x Hin). }
  split; [exact Hc2|]. unfold load_state.
  rewrite upd_entry_sorted, (search_map _ _ _ (upd_fun_shape x _ (shape_invalidate reason))), Hs. cbn [option_map].
  rewrite upd_fun_self. left. unfold invalidate_r. rewrite Hr0. reflexivity.
Qed.
Lemma invalidate_to_load c x reason : cinv c -> stale c x -> reason <> 0 ->
  cinv (invalidate c (r_verid x) reason) /\ load_state (invalidate c (r_verid x) reason).
Proof.
  intros Hc Hst Hr. destruct (stale_entry c x Hc Hst) as [Hin _]. destruct Hst as [Hs [He _]].
  unfold invalidate. rewrite (get_by_verid_in truth c x Hc Hin). apply invalidate_found; assumption.
Qed.
(* somebody failed on the work peer's store since the entry was made: the round only invalidates the entry *)
Lemma epoch_bad_round c x : cinv c -> search (c_sorted c) k false = Some x -> r_expired x = false -> flagged x = false ->
  ~ (epoch_ok c x /\ not_tomb c x) ->
  exists c', round c k = (false, c') /\ cinv c' /\ load_state c'.
Proof.
  intros Hc Hs He Hf Hbad. destruct (found_entry c x Hc Hs He) as [Hin _].
  destruct (rpc_ctx_bad c x Hc Hin He Hf Hbad) as [reason [Hr Hrpc]].
  exists (upd_entry c x (invalidate_r reason)). split; [|apply invalidate_found; assumption].
  unfold Converge.round. rewrite (find_hit c x Hs He Hf), Hrpc. reflexivity.
Qed.

(* inserting current regions one after the other never uncovers an older entry for the key *)
Lemma insert_all_truth : forall news c0,
  cinv c0 -> (forall r, In r news -> exists R, In R truth /\ of_truth r R /\ fresh r /\ (r_work r < length (r_peers r))%nat) ->
  cinv (insert_all c0 news) /\ c_sepochs (insert_all c0 news) = c_sepochs c0 /\
  forall y, search (c_sorted (insert_all c0 news)) k false = Some y ->
    (exists r deleted, In r news /\ y = inherit (stamp (c_sepochs c0) r) deleted) \/ search (c_sorted c0) k false = Some y.
Proof.
  induction news as [|r t IH]; intros c0 Hc0 Hn; [split; [exact Hc0|split; [reflexivity|intros y H; right; exact H]]|].
  cbn [insert_all fold_left]. destruct (Hn r ltac:(left; reflexivity)) as [R [HR [Hof [Hfr Hw]]]].
  set (r0 := stamp (c_sepochs c0) r).
  destruct (insert_truth truth Htw c0 r0 R Hc0 HR Hof Hfr Hw) as [c1 [deleted [Hi [Hc1 [Hse _]]]]].
  { unfold r0. cbn [stamp r_sepochs r_peers]. apply map_length. }
  assert (Hi' : insert_new c0 r = (true, c1)) by exact Hi. rewrite Hi'. cbn [snd].
  destruct (IH c1 Hc1 ltac:(intros r' Hr'; apply Hn; right; exact Hr')) as [H1 [H1s H2]].
  split; [exact H1|]. split; [exact (eq_trans H1s Hse)|].
  intros y Hy. destruct (H2 y Hy) as [[r' [d' [Hr' ->]]]|Hy1]; [left; exists r', d'; split; [right; exact Hr'|rewrite Hse; reflexivity]|].
  assert (Hne : nonempty_range r0).
  { destruct Hof as [_ [Hs [He _]]]. unfold nonempty_range, r0. cbn [stamp r_start r_end]. rewrite Hs, He. apply (tw_nonempty _ Htw R HR). }
  destruct (search_no_unshadow c0 r0 c1 k y (ci_sorted _ c0 Hc0) Hne Hi Hy1) as [[d' ->]|H]; [left; exists r, d'; split; [left; reflexivity|reflexivity]|right; exact H].
Qed.

(* the EpochNotMatch reaction: afterwards the key is answered by its own region or by a reload *)
Lemma epoch_to c x R st : cinv c -> stale c x -> In R truth -> d_id R = r_id x ->
  exists c3, on_epoch_not_match c (r_verid x) st (cur_of R) = Ok (false, c3) /\ cinv c3 /\ (load_state c3 \/ exists e, st_T c3 e).
Proof.
  intros Hc Hst HR Hid. destruct (stale_entry c x Hc Hst) as [Hin [Hk Hr0]]. destruct (Hcur R HR) as [HRc Hsub].
  unfold on_epoch_not_match. destruct (cur_of R) as [|d0 rest] eqn:Ecur; [destruct HRc|]. rewrite <- Ecur in *.
  set (bk0 := match get_by_verid c (r_verid x) with Some x0 => r_bk x0 | None => None end).
  assert (Hah : epoch_ahead (r_verid x) (cur_of R) = false).
  { unfold epoch_ahead, r_verid. match goal with |- ?e = false => destruct e eqn:E end; [|reflexivity]. exfalso.
    apply existsb_exists in E. destruct E as [d [Hd Hp]]. apply andb_true_iff in Hp. destruct Hp as [Hp1 Hp2]. apply N.eqb_eq in Hp1.
    destruct (ci_dom_id _ c Hc x d Hin (Hsub d Hd) (eq_sym Hp1)) as [Ha Hb].
    apply orb_true_iff in Hp2. rewrite !N.ltb_lt in Hp2. lia. }
  rewrite Hah.
  assert (Hpe : existsb (fun d => is_nil (d_peers d)) (cur_of R) = false).
  { match goal with |- ?e = false => destruct e eqn:E end; [|reflexivity]. exfalso. apply existsb_exists in E. destruct E as [d [Hd Hp]].
    apply is_nil_true in Hp. apply (peers_T_nonempty d (Hsub d Hd)). exact Hp. }
  rewrite Hpe.
  assert (Hkeep : existsb (fun r => verid_eqb (r_verid r) (r_verid x)) (map (fun d => region_on_store bk0 d st) (cur_of R)) = false).
  { match goal with |- ?e = false => destruct e eqn:E end; [|reflexivity]. exfalso. apply existsb_exists in E. destruct E as [r [Hr Hp]].
    apply in_map_iff in Hr. destruct Hr as [d [<- Hd]]. apply verid_eqb_eq in Hp.
    destruct (of_truth_on_store bk0 d st) as [[O1 [_ [_ [O4 [O5 _]]]]] _].
    apply (stale_not_current c x d Hc Hst (Hsub d Hd)). unfold r_verid, d_verid in *. congruence. }
  rewrite Hkeep.
  destruct (invalidate_to_load c x 3 Hc Hst ltac:(discriminate)) as [Hc1 Hl1].
  destruct (insert_all_truth (map (fun d => region_on_store bk0 d st) (cur_of R)) _ Hc1) as [Hc3 [Hse3 Hsrch]].
  { intros r Hr. apply in_map_iff in Hr. destruct Hr as [d [<- Hd]]. exists d. split; [apply Hsub; exact Hd|].
    destruct (of_truth_on_store bk0 d st) as [O F]. split; [exact O|]. split; [exact F|apply work_on_store; apply Hsub; exact Hd]. }
  eexists. split; [reflexivity|]. split; [exact Hc3|].
  set (c1 := invalidate c (r_verid x) 3) in *. set (c3 := insert_all c1 (map (fun d => region_on_store bk0 d st) (cur_of R))) in *.
  destruct (search (c_sorted c3) k false) as [y|] eqn:Ey.
  2:{ left. unfold load_state. rewrite Ey. exact I. }
  destruct (Hsrch y eq_refl) as [[r [deleted [Hr Hy]]]|Hold].
  - right. exists y. apply in_map_iff in Hr. destruct Hr as [d [<- Hd]]. set (r0 := stamp (c_sepochs c1) (region_on_store bk0 d st)) in *.
    destruct (of_truth_on_store bk0 d st) as [[O1 [O2 [O3 [O4 [O5 O6]]]]] [F1 [F2 [F3 F4]]]].
    destruct (inherit_same r0 deleted) as [I1 [I2 [I3 [I4 [I5 [I6 [I7 [I8 [I9 _]]]]]]]]]. rewrite <- Hy in I1, I2, I3, I4, I5, I6, I7, I8, I9.
    assert (RR : r_id r0 = d_id d /\ r_start r0 = d_start d /\ r_end r0 = d_end d /\ r_ver r0 = d_ver d /\ r_conf r0 = d_conf d /\
                 r_expired r0 = false /\ r_reload r0 = false /\ r_ready r0 = false)
      by (unfold r0; cbn [stamp r_id r_start r_end r_ver r_conf r_expired r_reload r_ready]; repeat split; assumption).
    destruct RR as [R1 [R2 [R3 [R4 [R5 [R7 [R8 R9]]]]]]].
    assert (Hyk : r_contains y k = true) by (exact (search_contains _ _ false _ Ey)).
    assert (d = T).
    { apply (tw_disjoint _ Htw d T k (Hsub d Hd) HT); [|exact HTk]. unfold tcontains. unfold r_contains in Hyk. rewrite I2, I3, R2, R3 in Hyk. exact Hyk. }
    subst d. split; [exact Ey|]. split; [rewrite I7; exact R7|]. split; [unfold flagged; rewrite I8, I9, R8, R9; reflexivity|].
    split; [unfold r_verid, d_verid; rewrite I1, I4, I5, R1, R4, R5; reflexivity|].
    rewrite Hy. apply epoch_ok_inherit; [exact Hse3|].
    assert (Hyin : In y (c_sorted c3)) by (eapply search_in; exact Ey). destruct (ci_ok _ c3 Hc3 y Hyin) as [_ [_ [Hw _]]].
    rewrite I6 in Hw. rewrite Hy in Hw. exact Hw.
  - left. unfold load_state. rewrite Ey. unfold load_state in Hl1. fold c1 in Hl1. rewrite Hold in Hl1. exact Hl1.
Qed.

(* ---- one round against a stale entry ---- *)
Definition on_leader (x : region) : Prop :=
  exists R, In R truth /\ d_id R = r_id x /\ nth (r_work x) (r_peers x) (0, 0) = d_leader R.

Lemma stale_round c x : cinv c -> stale c x ->
  exists c', round c k = (false, c') /\ cinv c' /\
    (load_state c' \/ (exists e, st_T c' e) \/ (~ on_leader x /\ exists x', stale c' x' /\ on_leader x')).
Proof.
  intros Hc Hst. destruct (stale_entry c x Hc Hst) as [Hin [Hk Hr0]]. pose proof Hst as [Hs [He [Hf [Hv [Hep Hnt]]]]].
  set (p := nth (r_work x) (r_peers x) (0, 0)).
  assert (Hround : forall rep, store_reply (r_verid x) p = rep -> rep <> RepOk -> round c k = (false, react c x p rep)).
  { intros rep Hrep Hne. unfold Converge.round. rewrite (find_hit c x Hs He Hf), (rpc_ctx_in c x Hc Hin He Hf Hep Hnt). fold p. rewrite Hrep.
    destruct rep; [congruence|reflexivity|reflexivity|reflexivity]. }
  assert (Hnf : forall c', c' = invalidate c (r_verid x) 5 -> cinv c' /\ load_state c').
  { intros c' ->. apply invalidate_to_load; [exact Hc|exact Hst|discriminate]. }
  unfold Converge.store_reply in Hround. unfold r_verid in Hround at 1.
  destruct (find (fun X => d_id X =? r_id x) truth) as [R|] eqn:Efind.
  2:{ eexists. split; [apply (Hround RepRegionNotFound eq_refl); discriminate|]. cbn [react]. destruct (Hnf _ eq_refl) as [A B]. split; [exact A|left; exact B]. }
  pose proof (find_some _ _ Efind) as [HR Hid]. apply N.eqb_eq in Hid.
  destruct (find (fun q : peer => snd q =? snd p) (d_peers R)) as [q|] eqn:Eq.
  2:{ eexists. split; [apply (Hround RepRegionNotFound eq_refl); discriminate|]. cbn [react]. destruct (Hnf _ eq_refl) as [A B]. split; [exact A|left; exact B]. }
  destruct (negb (peer_eqb q (d_leader R))) eqn:Enl.
  - (* NotLeader: switch to the leader if the cached description knows it, else invalidate *)
    assert (Hnotl : ~ on_leader x).
    { intros [R2 [HR2 [Hid2 Hl2]]]. assert (R2 = R) by (apply (tw_ids _ Htw); [exact HR2|exact HR|congruence]). subst R2.
      fold p in Hl2. pose proof (find_some _ _ Eq) as [Hqin Hqs]. apply N.eqb_eq in Hqs.
      assert (q = p).
      { apply (nodup_store_eq (d_peers R)); [apply (tw_stores _ Htw R HR)|exact Hqin|rewrite Hl2; apply (tw_leader _ Htw R HR)|exact Hqs]. }
      subst q. rewrite Hl2, (proj2 (peer_eqb_eq _ _) eq_refl) in Enl. discriminate. }
    eexists. split; [apply (Hround (RepNotLeader (d_leader R)) eq_refl); discriminate|]. cbn [react].
    unfold update_leader. rewrite (get_by_verid_in truth c x Hc Hin).
    destruct (first_idx (d_leader R) (r_peers x) 0) as [i|] eqn:Ei.
    + destruct (In_dec (fun a b : peer => ltac:(decide equality; apply N.eq_dec)) (d_leader R) (r_peers x)) as [Hlin|Hlin].
      2:{ exfalso. clear - Ei Hlin. revert Ei. generalize 0%nat. induction (r_peers x) as [|a l IH]; intros n; cbn [first_idx]; [discriminate|].
          destruct (peer_eqb a (d_leader R)) eqn:E; [apply peer_eqb_eq in E; subst a; exfalso; apply Hlin; left; reflexivity|].
          apply IH. intros H. apply Hlin. right; exact H. }
      destruct (first_idx_some (d_leader R) (r_peers x) 0 Hlin) as [j [Hj [Hjb Hnth]]]. rewrite Hj in Ei. injection Ei as <-.
      rewrite Nat.sub_0_r in Hnth.
      destruct (Nat.eqb (r_work x) j) eqn:Ewj.
      { exfalso. apply Nat.eqb_eq in Ewj. apply Hnotl. exists R. split; [exact HR|]. split; [exact Hid|]. rewrite Ewj. exact Hnth. }
      destruct (upd_entry_inv truth c x (switch_work (c_sepochs c) j) Hc Hin (shape_switch_work _ j)) as [Hc2 _].
      { destruct (ci_ok _ c Hc x Hin) as [A [B [C D]]]. repeat split; try assumption. cbn. lia. }
      { cbn [switch_work r_sepochs r_peers]. rewrite set_nth_length. apply (ci_len _ c Hc x Hin). }
      split; [exact Hc2|]. right. right. split; [exact Hnotl|].
      exists (switch_work (c_sepochs c) j x). split.
      * split; [|split; [exact He|split; [exact Hf|split; [exact Hv|split]]]].
        -- rewrite upd_entry_sorted, (search_map _ _ _ (upd_fun_shape x _ (shape_switch_work (c_sepochs c) j))), Hs.
           cbn [option_map]. rewrite upd_fun_self. reflexivity.
        -- unfold epoch_ok. cbn [switch_work r_work r_peers r_sepochs upd_entry c_sepochs].
           rewrite nth_set_nth by (rewrite (ci_len _ c Hc x Hin); lia). reflexivity.
        -- unfold not_tomb. cbn [switch_work r_work r_peers upd_entry c_tomb]. rewrite Hnth.
           apply (ci_tomb _ c Hc R (d_leader R) HR). apply (tw_leader _ Htw R HR).
      * exists R. split; [exact HR|]. split; [exact Hid|]. exact Hnth.
    + destruct (invalidate_found c x 4 Hc Hs He ltac:(discriminate)) as [A B]. split; [exact A|left; exact B].
  - destruct ((d_ver R =? r_ver x) && (d_conf R =? r_conf x)) eqn:Eep.
    { exfalso. apply andb_true_iff in Eep. rewrite !N.eqb_eq in Eep. destruct Eep as [E1 E2].
      apply (stale_not_current c x R Hc Hst HR). unfold r_verid, d_verid. congruence. }
    destruct (epoch_to c x R (snd p) Hc Hst HR Hid) as [c3 [Ho [Hc3 Hs3]]].
    eexists. split; [apply (Hround (RepEpochNotMatch (cur_of R)) eq_refl); discriminate|]. cbn [react]. rewrite Ho.
    split; [exact Hc3|]. destruct Hs3 as [A|A]; [left; exact A|right; left; exact A].
Qed.

(* C09_converges *)
Lemma converges c : cinv c -> rounds 4 c k = true.
Proof.
  intros Hc.
  assert (Hfin : forall c', cinv c' -> (load_state c' \/ exists e, st_T c' e) -> rounds 2 c' k = true).
  { intros c' Hc' [H|[e H]]; [apply load_converges; assumption|eapply st_T_converges; eassumption]. }
  destruct (search (c_sorted c) k false) as [x|] eqn:Es.
  2:{ do 2 apply rounds_mono. apply load_converges; [exact Hc|]. unfold load_state. rewrite Es. exact I. }
  destruct (r_expired x) eqn:Ee.
  { do 2 apply rounds_mono. apply load_converges; [exact Hc|]. unfold load_state. rewrite Es. left; exact Ee. }
  destruct (flagged x) eqn:Ef.
  { do 2 apply rounds_mono. apply load_converges; [exact Hc|]. unfold load_state. rewrite Es. right; exact Ef. }
  destruct (N.eq_dec (store_epoch (c_sepochs c) (snd (nth (r_work x) (r_peers x) (0, 0)))) (nth (r_work x) (r_sepochs x) 0)) as [Hep|Hep].
  2:{ destruct (epoch_bad_round c x Hc Es Ee Ef ltac:(intros [A _]; exact (Hep A))) as [c1 [Hr1 [Hc1 Hl1]]]. rewrite (rounds_S _ _ _ Hr1).
      apply rounds_mono. apply load_converges; assumption. }
  destruct (existsb (N.eqb (snd (nth (r_work x) (r_peers x) (0, 0)))) (c_tomb c)) eqn:Hnt.
  { destruct (epoch_bad_round c x Hc Es Ee Ef ltac:(intros [_ B]; unfold not_tomb in B; congruence)) as [c1 [Hr1 [Hc1 Hl1]]]. rewrite (rounds_S _ _ _ Hr1).
      apply rounds_mono. apply load_converges; assumption. }
  destruct (verid_eqb (r_verid x) (d_verid T)) eqn:Ev.
  { apply verid_eqb_eq in Ev. do 2 apply rounds_mono. apply (st_T_converges c x Hc). repeat split; assumption. }
  assert (Hst : stale c x).
  { repeat split; try assumption. intros H. apply verid_eqb_eq in H. congruence. }
  destruct (stale_round c x Hc Hst) as [c1 [Hr1 [Hc1 Hcase]]]. rewrite (rounds_S _ _ _ Hr1).
  destruct Hcase as [H|[H|[_ [x' [Hst' Hon]]]]]; [apply rounds_mono, Hfin; [exact Hc1|left; exact H]|apply rounds_mono, Hfin; [exact Hc1|right; exact H]|].
  destruct (stale_round c1 x' Hc1 Hst') as [c2 [Hr2 [Hc2 Hcase2]]]. rewrite (rounds_S _ _ _ Hr2).
  destruct Hcase2 as [H|[H|[Hno _]]]; [apply Hfin; [exact Hc2|left; exact H]|apply Hfin; [exact Hc2|right; exact H]|contradiction].
Qed.

(* what "served" means: the store that was asked hosts the leader peer of the key's current region and was asked
   with that region's current epoch *)
Lemma round_served c c' : cinv c -> round c k = (true, c') ->
  exists e, In e (c_sorted c') /\ r_verid e = d_verid T /\ r_contains e k = true /\
            store_reply (r_verid e) (d_leader T) = RepOk /\ nth (r_work e) (r_peers e) (0, 0) = d_leader T.
Proof.
  intros Hc Hr.
  assert (Hent : forall c1 e, cinv c1 -> In e (c_sorted c1) -> search (c_sorted c1) k false = Some e -> r_verid e = d_verid T ->
            r_expired e = false -> flagged e = false -> epoch_ok c1 e ->
            match store_reply (r_verid e) (nth (r_work e) (r_peers e) (0, 0)) with RepOk => True | _ => False end ->
            In e (c_sorted c1) /\ r_verid e = d_verid T /\ r_contains e k = true /\
            store_reply (r_verid e) (d_leader T) = RepOk /\ nth (r_work e) (r_peers e) (0, 0) = d_leader T).
  { intros c1 e Hc1 Hin Hs Hv He Hf Hep Hok. destruct (from_entry c1 e Hc1 Hin Hv He Hf Hep) as [Hrpc [Hl|Hrep]].
    - split; [exact Hin|]. split; [exact Hv|]. split; [exact (search_contains _ _ false _ Hs)|]. split; [|exact Hl].
      rewrite Hl in Hok. destruct (store_reply (r_verid e) (d_leader T)); try contradiction. reflexivity.
    - rewrite Hrep in Hok. contradiction. }
  assert (Hload : load_state c -> exists e, In e (c_sorted c') /\ r_verid e = d_verid T /\ r_contains e k = true /\
            store_reply (r_verid e) (d_leader T) = RepOk /\ nth (r_work e) (r_peers e) (0, 0) = d_leader T).
  { intros Hl. destruct (find_load c Hc Hl) as [c1 [r1 [r' [Hf [Hv' [Hc1 [Hs [Hin [Hv [He [Hfl Hep]]]]]]]]]]].
    unfold Converge.round in Hr. rewrite Hf in Hr. replace (r_verid r') with (r_verid r1) in Hr by (rewrite Hv, Hv'; reflexivity).
    rewrite (rpc_ctx_in c1 r1 Hc1 Hin He Hfl Hep (entry_not_tomb c1 r1 T Hc1 Hin HT Hv)) in Hr. exists r1.
    destruct (store_reply (r_verid r1) (nth (r_work r1) (r_peers r1) (0, 0))) eqn:Erep; try discriminate. injection Hr as <-.
    apply (Hent c1); try assumption. rewrite Erep. exact I. }
  destruct (search (c_sorted c) k false) as [x|] eqn:Es.
  2:{ apply Hload. unfold load_state. rewrite Es. exact I. }
  destruct (r_expired x) eqn:Ee; [apply Hload; unfold load_state; rewrite Es; left; exact Ee|].
  destruct (flagged x) eqn:Ef; [apply Hload; unfold load_state; rewrite Es; right; exact Ef|].
  destruct (N.eq_dec (store_epoch (c_sepochs c) (snd (nth (r_work x) (r_peers x) (0, 0)))) (nth (r_work x) (r_sepochs x) 0)) as [Hep|Hep].
  2:{ exfalso. destruct (epoch_bad_round c x Hc Es Ee Ef ltac:(intros [A _]; exact (Hep A))) as [c1 [Hr1 _]]. rewrite Hr1 in Hr. discriminate. }
  destruct (existsb (N.eqb (snd (nth (r_work x) (r_peers x) (0, 0)))) (c_tomb c)) eqn:Hnt.
  { exfalso. destruct (epoch_bad_round c x Hc Es Ee Ef ltac:(intros [_ B]; unfold not_tomb in B; congruence)) as [c1 [Hr1 _]]. rewrite Hr1 in Hr. discriminate. }
  destruct (verid_eqb (r_verid x) (d_verid T)) eqn:Ev.
  - apply verid_eqb_eq in Ev. assert (Hin : In x (c_sorted c)) by (eapply search_in; exact Es).
    unfold Converge.round in Hr. rewrite (find_hit c x Es Ee Ef), (rpc_ctx_in c x Hc Hin Ee Ef Hep (entry_not_tomb c x T Hc Hin HT Ev)) in Hr. exists x.
    destruct (store_reply (r_verid x) (nth (r_work x) (r_peers x) (0, 0))) eqn:Erep; try discriminate. injection Hr as <-.
    apply (Hent c); try assumption. rewrite Erep. exact I.
  - exfalso. assert (Hst : stale c x).
    { repeat split; try assumption. intros H. apply verid_eqb_eq in H. congruence. }
    destruct (stale_round c x Hc Hst) as [c1 [Hr1 _]]. rewrite Hr1 in Hr. discriminate.
Qed.

(* the composed round: whatever number of attempts the sender makes per call, 4 calls suffice *)
Lemma attempts_rounds : forall m n c c2, rounds n c k = true -> attempts truth cur_of pd budget fuel m c k = (false, c2) ->
  (S m < n)%nat /\ rounds (n - S m) c2 k = true.
Proof.
  induction m as [|m IH]; intros n c c2 Hr Ha; cbn [attempts] in Ha; destruct n as [|n]; try discriminate;
    cbn [Converge.rounds] in Hr; destruct (round c k) as [ok c1]; destruct ok; try discriminate.
  - injection Ha as <-. destruct n as [|n]; [discriminate|]. split; [lia|]. replace (S (S n) - 1)%nat with (S n) by lia. exact Hr.
  - destruct (IH n c1 c2 Hr Ha) as [H1 H2]. split; [lia|]. replace (S n - S (S m))%nat with (n - S m)%nat by lia. exact H2.
Qed.
Lemma srounds_of_rounds inner : forall n j i c, (j <= n)%nat -> rounds j c k = true -> srounds truth cur_of pd budget fuel inner n i c k = true.
Proof.
  induction n as [|n IH]; intros j i c Hj Hr; [destruct j; [discriminate|lia]|]. cbn [srounds].
  destruct (attempts truth cur_of pd budget fuel (inner i) c k) as [ok c2] eqn:Ea. destruct ok; [reflexivity|].
  destruct (attempts_rounds _ _ _ _ Hr Ea) as [H1 H2]. apply (IH (j - S (inner i))%nat); [lia|exact H2].
Qed.
Lemma converges_composed inner c : cinv c -> srounds truth cur_of pd budget fuel inner 4 0 c k = true.
Proof. intros Hc. apply (srounds_of_rounds inner 4 4 0 c (Nat.le_refl 4)). apply converges. exact Hc. Qed.
End Conv.
