(* Region/ProofsLatest.v — latestVersions is only dropped together with the entry that carries exactly that version:
   as long as that entry stays in the index, an insertion leaves the record in place or raises it. *)
From Coq Require Import Sorting.Sorted.
From Verif Require Import Base.Lex Region.Model Region.Ord Region.ProofsInsert Region.ProofsConvA.
Open Scope N_scope.

Lemma remove_version_keep v regs lat id x : v <> (id, fst x, snd x) ->
  lat_get id lat = Some x -> lat_get id (snd (remove_version v regs lat)) = Some x.
Proof.
  destruct v as [[i ver] conf]. destruct x as [xv xc]. cbn [fst snd remove_version]. intros Hne Hl.
  destruct (lat_get i lat) as [[ver' conf']|] eqn:Ei; [|exact Hl].
  destruct ((ver' =? ver) && (conf' =? conf)) eqn:E; [|exact Hl].
  rewrite lat_get_del. destruct (id =? i) eqn:Eid; [|exact Hl]. exfalso.
  apply N.eqb_eq in Eid. subst i. rewrite Hl in Ei. injection Ei as <- <-.
  apply andb_true_iff in E. rewrite !N.eqb_eq in E. destruct E as [-> ->]. apply Hne. reflexivity.
Qed.
Lemma fold_remove_keep id x : forall deleted acc,
  (forall d, In d deleted -> r_verid d <> (id, fst x, snd x)) ->
  lat_get id (snd acc) = Some x -> lat_get id (snd (fold_left rm_step deleted acc)) = Some x.
Proof.
  induction deleted as [|d t IH]; intros acc Hd Hl; [exact Hl|]. cbn [fold_left]. apply IH; [intros d' Hd'; apply Hd; right; exact Hd'|].
  unfold rm_step. apply remove_version_keep; [apply Hd; left; reflexivity|exact Hl].
Qed.

Lemma insert_latest_kept c r ok c' id v cf :
  sorted_starts (c_sorted c) -> nonempty_range r ->
  (forall x y, In x (c_sorted c) -> In y (c_sorted c) -> r_verid x = r_verid y -> x = y) ->
  insert_region c r = (ok, c') ->
  lat_get id (c_latest c) = Some (v, cf) ->
  (exists e, In e (c_sorted c') /\ r_verid e = (id, v, cf)) ->
  exists v' cf', lat_get id (c_latest c') = Some (v', cf') /\ v <= v' /\ cf <= cf'.
Proof.
  intros Hs Hne Hu Hi Hl [e [He Hv]]. destruct ok.
  2:{ apply insert_refused_unchanged in Hi. subst c'. exists v, cf. split; [exact Hl|lia]. }
  destruct (insert_accepted c r c' Hs Hne Hi) as [deleted [H1 [_ [H3 [_ [H5 _]]]]]]. cbv zeta in *.
  destruct (inherit_same r deleted) as [I1 [_ [_ [I4 [I5 _]]]]].
  rewrite H5, lat_get_set, I1, I4, I5. destruct (id =? r_id r) eqn:Eid.
  - apply N.eqb_eq in Eid. subst id. exists (r_ver r), (r_conf r). split; [reflexivity|].
    rewrite insert_region_unfold in Hi. unfold stale_by_latest in Hi. rewrite Hl in Hi.
    destruct ((r_ver r <? v) || (r_conf r <? cf)) eqn:E; [discriminate|]. apply orb_false_iff in E. rewrite !N.ltb_ge in E. exact E.
  - exists v, cf. split; [|lia]. apply (fold_remove_keep id (v, cf)); [|exact Hl]. cbn [fst snd].
    intros d Hd Hdv. apply H1 in Hd. destruct Hd as [Hdin Hdst].
    apply H3 in He. destruct He as [->|[Hein Hen]].
    + unfold r_verid in Hv. rewrite I1 in Hv. injection Hv as Hid _ _. rewrite Hid, N.eqb_refl in Eid. discriminate.
    + assert (e = d) by (apply Hu; [exact Hein|exact Hdin|congruence]). subst e. contradiction.
Qed.
