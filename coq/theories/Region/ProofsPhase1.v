(* Region/ProofsPhase1.v — BatchLocateKeyRanges, phase 1: what is taken from the cache is sorted by start key,
   and every key of every requested range is in a collected cached region or in one of the ranges that are
   handed to PD; those ranges are again sorted, disjoint and non-empty. *)
From Coq Require Import Sorting.Sorted.
From Verif Require Import Base.Lex Region.Model Region.Ord Region.ProofsContains Region.ProofsInsert Region.ProofsMerge Region.ProofsGap.
Open Scope N_scope.

(* un refines rs: a subsequence of rs whose starts have moved right, still non-empty *)
Inductive refines : list range -> list range -> Prop :=
| ref_nil rs : refines [] rs
| ref_skip un r rs : refines un rs -> refines un (r :: rs)
| ref_take un s s' e rs : refines un rs -> lex_leb s s' = true -> (e = [] \/ lex_ltb s' e = true) -> refines ((s', e) :: un) ((s, e) :: rs).

Lemma refines_length un rs : refines un rs -> (length un <= length rs)%nat.
Proof. induction 1; cbn [length]; lia. Qed.
Lemma refines_in un rs : refines un rs -> forall s' e, In (s', e) un -> exists s, In (s, e) rs /\ lex_leb s s' = true.
Proof.
  induction 1 as [rs|un r rs H IH|un s s' e rs H IH Hs He]; intros s1 e1 Hin; [destruct Hin| |].
  - destruct (IH s1 e1 Hin) as [s0 [H1 H2]]. exists s0. split; [right; exact H1|exact H2].
  - destruct Hin as [Hin|Hin]; [injection Hin as <- <-; exists s; split; [left; reflexivity|exact Hs]|].
    destruct (IH s1 e1 Hin) as [s0 [H1 H2]]. exists s0. split; [right; exact H1|exact H2].
Qed.
Lemma refines_wf un rs : refines un rs -> ranges_wf rs -> ranges_wf un.
Proof.
  induction 1 as [rs|un r rs H IH|un s s' e rs H IH Hs He]; intros Hwf; [exact I|apply IH; eapply ranges_wf_tail; exact Hwf|].
  cbn [ranges_wf]. split; [exact He|]. split; [|apply IH; eapply ranges_wf_tail; exact Hwf].
  destruct un as [|[s1 e1] un']; [exact I|]. destruct (refines_in _ _ H s1 e1 ltac:(left; reflexivity)) as [s0 [Hin Hle]].
  destruct (ranges_wf_later _ _ _ Hwf _ _ Hin) as [Hne Hle2]. split; [exact Hne|eapply leb_trans; eassumption].
Qed.

Lemma sorted_starts_le l : sorted_starts l -> sorted_le l.
Proof.
  induction 1 as [|y t Hst IH Hall]; constructor; [exact IH|]. rewrite Forall_forall in *. intros z Hz. apply ltb_leb. apply Hall; exact Hz.
Qed.
Lemma sorted_le_snoc cs x : sorted_le cs -> (forall c, In c cs -> lex_leb (r_start c) (r_start x) = true) -> sorted_le (cs ++ [x]).
Proof.
  intros Hs H. induction Hs as [|y t Hst IH Hall]; cbn [app]; [constructor; constructor|].
  constructor; [apply IH; intros c Hc; apply H; right; exact Hc|]. apply Forall_app. split; [exact Hall|].
  constructor; [apply H; left; reflexivity|constructor].
Qed.

(* ---- search picks the entry with the greatest start key at or below the key ---- *)
Lemma sorted_app_last l x : sorted_starts (l ++ [x]) -> forall y, In y l -> lex_ltb (r_start y) (r_start x) = true.
Proof.
  induction l as [|a l IH]; intros Hs y Hin; [destruct Hin|]. cbn [app] in Hs. inversion Hs as [|? ? Hst Hall]; subst.
  destruct Hin as [->|Hin]; [|apply IH; assumption]. rewrite Forall_forall in Hall. apply Hall. apply in_or_app. right; left; reflexivity.
Qed.
Lemma search_max l key r : sorted_starts l -> search l key false = Some r ->
  In r l /\ r_contains r key = true /\ forall x, In x l -> lex_leb (r_start x) key = true -> lex_leb (r_start x) (r_start r) = true.
Proof.
  intros Hs H. split; [eapply search_in; exact H|]. split; [exact (search_contains _ _ false _ H)|].
  unfold search in H. cbn [andb] in H. intros x Hx Hle.
  assert (Hxi : In x (le_items l key)) by (apply filter_In; split; assumption).
  destruct (rev (le_items l key)) as [|y rest] eqn:Er; [discriminate|]. cbn [search_desc andb] in H.
  destruct (r_contains y key); [|discriminate]. injection H as <-.
  assert (Hl : le_items l key = rev rest ++ [y]) by (rewrite <- (rev_involutive (le_items l key)), Er; reflexivity).
  rewrite Hl in Hxi. apply in_app_or in Hxi. destruct Hxi as [Hxi|[->|[]]]; [|apply leb_refl].
  apply ltb_leb. apply (sorted_app_last (rev rest)); [rewrite <- Hl; apply filter_sorted; exact Hs|exact Hxi].
Qed.
Lemma try_find_max c key r : sorted_starts (c_sorted c) -> try_find c key false = Some r ->
  In r (c_sorted c) /\ r_contains r key = true /\ forall x, In x (c_sorted c) -> lex_leb (r_start x) key = true -> lex_leb (r_start x) (r_start r) = true.
Proof.
  intros Hs. unfold try_find. destruct (search (c_sorted c) key false) as [x|] eqn:E; [|discriminate].
  destruct (r_expired x || flagged x); [discriminate|]. intros H; injection H as <-. apply search_max; assumption.
Qed.

(* ---- scanRegionsFromCache ---- *)
Lemma ascend_chain_prefix : forall limit items ls e, exists rest, items = ascend_chain items ls e limit ++ rest.
Proof.
  induction limit as [|n IH]; intros items ls e; [exists items; destruct items; reflexivity|].
  destruct items as [|r t]; [exists []; reflexivity|]. cbn [ascend_chain].
  destruct (negb (is_nil e) && lex_leb e (r_start r)); [exists (r :: t); reflexivity|].
  destruct (r_expired r); [exists (r :: t); reflexivity|]. destruct (negb (r_contains r ls)); [exists (r :: t); reflexivity|].
  destruct (IH t (r_end r) e) as [rest H]. exists rest. cbn [app]. rewrite <- H. reflexivity.
Qed.
Lemma sorted_app_l l1 l2 : sorted_starts (l1 ++ l2) -> sorted_starts l1.
Proof.
  induction l1 as [|a l IH]; intros H; [constructor|]. cbn [app] in H. inversion H as [|? ? Hst Hall]; subst.
  constructor; [apply IH; exact Hst|]. apply Forall_app in Hall. tauto.
Qed.
Lemma scan_from_cache_spec c s e limit : sorted_starts (c_sorted c) ->
  sorted_starts (scan_from_cache c s e limit) /\
  forall x, In x (scan_from_cache c s e limit) -> In x (c_sorted c) /\ lex_leb s (r_start x) = true.
Proof.
  intros Hs. unfold scan_from_cache.
  destruct (ascend_chain_prefix limit (ge_items (c_sorted c) s) s e) as [rest Hp].
  assert (Hg : sorted_starts (ge_items (c_sorted c) s)) by (apply filter_sorted; exact Hs).
  split.
  - apply filter_sorted. apply (sorted_app_l _ rest). rewrite <- Hp. exact Hg.
  - intros x Hx. apply filter_In in Hx. destruct Hx as [Hx _].
    assert (Hin : In x (ge_items (c_sorted c) s)) by (rewrite Hp; apply in_or_app; left; exact Hx).
    apply filter_In in Hin. exact Hin.
Qed.

(* r holds s but not e by end: its end is a proper key below e *)
Lemma end_below r s e : (e = [] \/ lex_ltb s e = true) -> r_contains r s = true -> r_contains_end r e = false ->
  r_end r <> [] /\ lex_ltb s (r_end r) = true /\ (e = [] \/ lex_ltb (r_end r) e = true).
Proof.
  intros He Hc Hn. apply r_contains_spec in Hc. destruct Hc as [H1 H2].
  assert (Hne : r_end r <> []).
  { intros Hnil. assert (r_contains_end r e = true); [|congruence]. apply contains_by_end_spec.
    destruct e as [|x e']; [left; split; [reflexivity|exact Hnil]|right]. split; [discriminate|].
    split; [|left; exact Hnil]. destruct He as [He|He]; [discriminate|]. eapply leb_ltb_trans; eassumption. }
  destruct H2 as [H2|H2]; [congruence|]. split; [exact Hne|]. split; [exact H2|].
  destruct e as [|x e']; [left; reflexivity|right]. destruct He as [He|He]; [discriminate|].
  destruct (lex_ltb (r_end r) (x :: e')) eqn:E; [reflexivity|]. exfalso. apply ltb_false_leb in E.
  assert (r_contains_end r (x :: e') = true); [|congruence]. apply contains_by_end_spec. right. split; [discriminate|].
  split; [eapply leb_ltb_trans; eassumption|right; exact E].
Qed.
Lemma contains_end_covers r s e k : r_contains_end r e = true -> lex_leb (r_start r) s = true -> lex_leb s k = true ->
  (e = [] \/ lex_ltb k e = true) -> r_contains r k = true.
Proof.
  intros Hc Hs Hk He. apply r_contains_spec. split; [eapply leb_trans; eassumption|].
  apply contains_by_end_spec in Hc. destruct Hc as [[-> Hc]|[Hne [_ Hc]]]; [left; exact Hc|].
  destruct Hc as [Hc|Hc]; [left; exact Hc|right]. destruct He as [He|He]; [congruence|]. eapply ltb_leb_trans; eassumption.
Qed.

Section Phase1.
Variable c : cache.
Variable batch_limit : nat.
Hypothesis Hsorted : sorted_starts (c_sorted c).

Definition collected (cs : list region) (s : bytes) : Prop :=
  sorted_le cs /\ (forall x, In x cs -> In x (c_sorted c)) /\ (forall x, In x cs -> lex_leb (r_start x) s = true).
Definition last_ok (lastr : option region) (cs : list region) : Prop := forall l, lastr = Some l -> In l cs.

Lemma walk_batch_spec : forall batch s e cs lastr cs1 l1 s1 st,
  sorted_le cs -> sorted_le batch -> (forall x y, In x cs -> In y batch -> lex_leb (r_start x) (r_start y) = true) ->
  (forall x, In x cs -> In x (c_sorted c)) -> (forall y, In y batch -> In y (c_sorted c)) ->
  (forall x, In x cs -> lex_leb (r_start x) s = true) -> (e = [] \/ lex_ltb s e = true) -> last_ok lastr cs ->
  walk_batch batch s e cs lastr = (cs1, l1, s1, st) ->
  collected cs1 s1 /\ (forall x, In x cs -> In x cs1) /\ last_ok l1 cs1 /\ lex_leb s s1 = true /\ (e = [] \/ lex_ltb s1 e = true) /\
  (forall k, lex_leb s k = true -> lex_ltb k s1 = true -> covered cs1 k) /\
  (st = 2 -> forall k, lex_leb s k = true -> (e = [] \/ lex_ltb k e = true) -> covered cs1 k).
Proof.
  induction batch as [|r rest IH]; intros s e cs lastr cs1 l1 s1 st Hcs Hb Hcb Hcin Hbin Hle He Hl; cbn [walk_batch].
  - intros H; injection H as <- <- <- <-. split; [split; [exact Hcs|split; assumption]|]. split; [exact (fun x H => H)|]. split; [exact Hl|].
    split; [apply leb_refl|]. split; [exact He|]. split; [|discriminate].
    intros k H1 H2. exfalso. apply leb_not_ltb in H1. congruence.
  - destruct (negb (r_contains r s)) eqn:Ec.
    { intros H; injection H as <- <- <- <-. split; [split; [exact Hcs|split; assumption]|]. split; [exact (fun x H => H)|]. split; [exact Hl|].
      split; [apply leb_refl|]. split; [exact He|]. split; [|discriminate].
      intros k H1 H2. exfalso. apply leb_not_ltb in H1. congruence. }
    apply negb_false_iff in Ec.
    assert (Hrs : lex_leb (r_start r) s = true) by (apply r_contains_spec in Ec; apply Ec).
    assert (Hsn : sorted_le (cs ++ [r])) by (apply sorted_le_snoc; [exact Hcs|intros x Hx; apply Hcb; [exact Hx|left; reflexivity]]).
    assert (Hinr : forall x, In x (cs ++ [r]) -> In x (c_sorted c)).
    { intros x Hx. apply in_app_or in Hx. destruct Hx as [Hx|[<-|[]]]; [apply Hcin; exact Hx|apply Hbin; left; reflexivity]. }
    destruct (r_contains_end r e) eqn:Ee.
    { intros H; injection H as <- <- <- <-. split; [split; [exact Hsn|split; [exact Hinr|]]|].
      { intros x Hx. apply in_app_or in Hx. destruct Hx as [Hx|[<-|[]]]; [apply Hle; exact Hx|exact Hrs]. }
      split; [intros x Hx; apply in_or_app; left; exact Hx|]. split; [intros l Hl'; injection Hl' as <-; apply in_or_app; right; left; reflexivity|].
      split; [apply leb_refl|]. split; [exact He|]. split.
      - intros k H1 H2. exfalso. apply leb_not_ltb in H1. congruence.
      - intros _ k H1 H2. exists r. split; [apply in_or_app; right; left; reflexivity|]. eapply contains_end_covers; eassumption. }
    destruct (end_below r s e He Ec Ee) as [Hne [Hlt He']].
    intros H. inversion Hb as [|? ? Hbst Hball]; subst. rewrite Forall_forall in Hball.
    apply IH in H; [| exact Hsn | exact Hbst | | exact Hinr | intros y Hy; apply Hbin; right; exact Hy | | exact He' | ].
    + destruct H as [H1 [H2 [H3 [H4 [H5 [H6 H7]]]]]]. split; [exact H1|].
      split; [intros x Hx; apply H2; apply in_or_app; left; exact Hx|]. split; [exact H3|].
      split; [eapply leb_trans; [apply ltb_leb; exact Hlt|exact H4]|]. split; [exact H5|].
      assert (Hr : forall k, lex_leb s k = true -> lex_ltb k (r_end r) = true -> covered cs1 k).
      { intros k Ha Hb'. exists r. split; [apply H2; apply in_or_app; right; left; reflexivity|]. apply r_contains_spec.
        split; [eapply leb_trans; eassumption|right; exact Hb']. }
      split.
      * intros k Ha Hb'. destruct (lex_ltb k (r_end r)) eqn:Ek; [apply Hr; assumption|]. apply ltb_false_leb in Ek. apply H6; assumption.
      * intros Hst k Ha Hb'. destruct (lex_ltb k (r_end r)) eqn:Ek; [apply Hr; assumption|]. apply ltb_false_leb in Ek. apply H7; assumption.
    + intros x y Hx Hy. apply in_app_or in Hx. destruct Hx as [Hx|[<-|[]]]; [apply Hcb; [exact Hx|right; exact Hy]|apply Hball; exact Hy].
    + intros x Hx. apply in_app_or in Hx. destruct Hx as [Hx|[<-|[]]].
      * eapply leb_trans; [apply Hle; exact Hx|apply ltb_leb; exact Hlt].
      * eapply leb_trans; [exact Hrs|apply ltb_leb; exact Hlt].
    + intros l Hl'; injection Hl' as <-; apply in_or_app; right; left; reflexivity.
Qed.

(* what the cache scan returns: everything from s up to where it stopped is covered *)
Definition cscan_post (s e : bytes) (cs : list region) (res : cscan) : Prop :=
  match res with
  | CAll cs1 l1 => (exists s2, collected cs1 s2 /\ (e = [] \/ lex_ltb s2 e = true)) /\ (forall x, In x cs -> In x cs1) /\ last_ok l1 cs1 /\
                   (forall k, lex_leb s k = true -> (e = [] \/ lex_ltb k e = true) -> covered cs1 k)
  | CPart cs1 l1 s2 => collected cs1 s2 /\ (e = [] \/ lex_ltb s2 e = true) /\ (forall x, In x cs -> In x cs1) /\ last_ok l1 cs1 /\
                       lex_leb s s2 = true /\ (forall k, lex_leb s k = true -> lex_ltb k s2 = true -> covered cs1 k)
  end.
Lemma cache_scan_spec : forall fuel s e cs lastr,
  collected cs s -> (e = [] \/ lex_ltb s e = true) -> last_ok lastr cs ->
  cscan_post s e cs (cache_scan batch_limit fuel c s e cs lastr).
Proof.
  induction fuel as [|f IH]; intros s e cs lastr Hc He Hl; cbn [cache_scan].
  - cbn [cscan_post]. split; [exact Hc|]. split; [exact He|]. split; [exact (fun x H => H)|]. split; [exact Hl|]. split; [apply leb_refl|].
    intros k H1 H2. exfalso. apply leb_not_ltb in H1. congruence.
  - destruct Hc as [Hc1 [Hc2 Hc3]]. destruct (scan_from_cache_spec c s e batch_limit Hsorted) as [Hb1 Hb2].
    destruct (walk_batch (scan_from_cache c s e batch_limit) s e cs lastr) as [[[cs1 l1] s1] st] eqn:Ew.
    apply walk_batch_spec in Ew; [|exact Hc1|apply sorted_starts_le; exact Hb1| |exact Hc2|intros y Hy; apply Hb2; exact Hy|exact Hc3|exact He|exact Hl].
    2:{ intros x y Hx Hy. eapply leb_trans; [apply Hc3; exact Hx|apply Hb2; exact Hy]. }
    destruct Ew as [H1 [H2 [H3 [H4 [H5 [H6 H7]]]]]].
    destruct (st =? 2) eqn:E2.
    { apply N.eqb_eq in E2. cbn [cscan_post]. split; [exists s1; split; assumption|]. split; [exact H2|]. split; [exact H3|]. apply H7; exact E2. }
    destruct (st =? 1) eqn:E1.
    { cbn [cscan_post]. repeat (split; [assumption|]). exact H6. }
    destruct (Nat.ltb (length (scan_from_cache c s e batch_limit)) batch_limit).
    { cbn [cscan_post]. repeat (split; [assumption|]). exact H6. }
    specialize (IH s1 e cs1 l1 H1 H5 H3). destruct (cache_scan batch_limit f c s1 e cs1 l1) as [cs2 l2|cs2 l2 s2]; cbn [cscan_post] in *.
    + destruct IH as [I1 [I2 [I3 I4]]]. split; [exact I1|]. split; [intros x Hx; apply I2, H2; exact Hx|]. split; [exact I3|].
      intros k Ha Hb. destruct (lex_ltb k s1) eqn:Ek; [|apply ltb_false_leb in Ek; apply I4; assumption].
      eapply covered_mono; [exact I2|]. apply H6; assumption.
    + destruct IH as [I1 [I2 [I3 [I4 [I5 I6]]]]]. split; [exact I1|]. split; [exact I2|]. split; [intros x Hx; apply I3, H2; exact Hx|]. split; [exact I4|].
      split; [eapply leb_trans; eassumption|].
      intros k Ha Hb. destruct (lex_ltb k s1) eqn:Ek; [|apply ltb_false_leb in Ek; apply I6; assumption].
      eapply covered_mono; [exact I3|]. apply H6; assumption.
Qed.

(* phase 1 *)
Lemma phase1_spec : forall rs lastr cs un cs' un',
  ranges_wf rs -> sorted_le cs -> (forall x, In x cs -> In x (c_sorted c)) ->
  (forall x s e, In x cs -> In (s, e) rs -> lex_leb (r_start x) s = true) -> last_ok lastr cs ->
  phase1 batch_limit c rs lastr cs un = (cs', un') ->
  sorted_le cs' /\ (forall x, In x cs -> In x cs') /\
  exists un_new, un' = un ++ un_new /\ refines un_new rs /\
    forall k, in_ranges rs k -> covered cs' k \/ in_ranges un_new k.
Proof.
  induction rs as [|[s e] rest IH]; intros lastr cs un cs' un' Hwf Hcs Hcin Hle Hl; cbn [phase1].
  - intros H; injection H as <- <-. split; [exact Hcs|]. split; [exact (fun x H => H)|]. exists []. rewrite app_nil_r.
    split; [reflexivity|]. split; [constructor|]. intros k [s [e [[] _]]].
  - assert (Hwf' : ranges_wf rest) by (eapply ranges_wf_tail; exact Hwf).
    assert (Hse : e = [] \/ lex_ltb s e = true) by (cbn [ranges_wf] in Hwf; tauto).
    assert (Hlater : forall s' e', In (s', e') rest -> e <> [] /\ lex_leb e s' = true) by (apply (ranges_wf_later s e rest Hwf)).
    assert (Hrest : forall k, in_ranges ((s, e) :: rest) k -> in_range s e k \/ in_ranges rest k).
    { intros k [s1 [e1 [[Hin|Hin] Hr]]]; [injection Hin as <- <-; left; exact Hr|right; exists s1, e1; split; assumption]. }
    (* generic way to finish once the head range is accounted for *)
    assert (Hfin : forall lastr2 cs2 un_add,
      sorted_le cs2 -> (forall x, In x cs2 -> In x (c_sorted c)) -> (forall x, In x cs -> In x cs2) ->
      (forall x, In x cs2 -> exists s2, lex_leb (r_start x) s2 = true /\ (e = [] \/ lex_ltb s2 e = true)) ->
      last_ok lastr2 cs2 ->
      (un_add = [] \/ exists s2, un_add = [(s2, e)] /\ lex_leb s s2 = true /\ (e = [] \/ lex_ltb s2 e = true)) ->
      (forall k, in_range s e k -> covered cs2 k \/ in_ranges un_add k) ->
      phase1 batch_limit c rest lastr2 cs2 (un ++ un_add) = (cs', un') ->
      sorted_le cs' /\ (forall x, In x cs -> In x cs') /\
      exists un_new, un' = un ++ un_new /\ refines un_new ((s, e) :: rest) /\
        forall k, in_ranges ((s, e) :: rest) k -> covered cs' k \/ in_ranges un_new k).
    { intros lastr2 cs2 un_add Hs2 Hin2 Hsub Hb2 Hl2 Hadd Hcov H.
      apply IH in H; [|exact Hwf'|exact Hs2|exact Hin2| |exact Hl2].
      2:{ intros x s' e' Hx Hr. destruct (Hb2 x Hx) as [s2 [Ha Hb]]. destruct (Hlater s' e' Hr) as [Hne Hle2].
          destruct Hb as [Hb|Hb]; [congruence|]. eapply leb_trans; [exact Ha|]. eapply leb_trans; [apply ltb_leb; exact Hb|exact Hle2]. }
      destruct H as [H1 [H2 [un_new [H3 [H4 H5]]]]]. split; [exact H1|]. split; [intros x Hx; apply H2, Hsub; exact Hx|].
      exists (un_add ++ un_new). split; [rewrite H3, app_assoc; reflexivity|]. split.
      - destruct Hadd as [->|[s2 [-> [Ha Hb]]]]; [cbn [app]; apply ref_skip; exact H4|cbn [app]; apply ref_take; assumption].
      - intros k Hk. destruct (Hrest k Hk) as [Hk1|Hk1].
        + destruct (Hcov k Hk1) as [Hc|Hc]; [left; eapply covered_mono; [exact H2|exact Hc]|right; apply in_ranges_app; left; exact Hc].
        + destruct (H5 k Hk1) as [Hc|Hc]; [left; exact Hc|right; apply in_ranges_app; right; exact Hc]. }
    assert (Hbound : forall x, In x cs -> exists s2, lex_leb (r_start x) s2 = true /\ (e = [] \/ lex_ltb s2 e = true)).
    { intros x Hx. exists s. split; [apply (Hle x s e Hx); left; reflexivity|exact Hse]. }
    destruct (match lastr with Some l => r_contains_end l e | None => false end) eqn:Eskip.
    { (* the previous region already holds the whole range *)
      destruct lastr as [l|]; [|discriminate]. intros H. rewrite <- (app_nil_r un) in H.
      apply (Hfin (Some l) cs []); try assumption; [exact (fun x H => H)|left; reflexivity|].
      intros k [Hk1 Hk2]. left. exists l. split; [apply Hl; reflexivity|].
      eapply contains_end_covers; [exact Eskip|apply (Hle l s e); [apply Hl; reflexivity|left; reflexivity]|exact Hk1|exact Hk2]. }
    set (s1 := match lastr with Some l => if r_contains l s then r_end l else s | None => s end).
    assert (Hs1 : lex_leb s s1 = true /\ (e = [] \/ lex_ltb s1 e = true) /\ (forall k, lex_leb s k = true -> lex_ltb k s1 = true -> covered cs k)).
    { unfold s1. destruct lastr as [l|].
      - destruct (r_contains l s) eqn:Ec.
        + destruct (end_below l s e Hse Ec Eskip) as [Hne [Hlt He']]. split; [apply ltb_leb; exact Hlt|]. split; [exact He'|].
          intros k Ha Hb. exists l. split; [apply Hl; reflexivity|]. apply r_contains_spec. apply r_contains_spec in Ec. destruct Ec as [Ec _].
          split; [eapply leb_trans; eassumption|right; exact Hb].
        + split; [apply leb_refl|]. split; [exact Hse|]. intros k Ha Hb. exfalso. apply leb_not_ltb in Ha. congruence.
      - split; [apply leb_refl|]. split; [exact Hse|]. intros k Ha Hb. exfalso. apply leb_not_ltb in Ha. congruence. }
    destruct Hs1 as [Hs1a [Hs1b Hs1c]].
    destruct (try_find c s1 false) as [r|] eqn:Et.
    2:{ (* cache miss: the rest of the range goes to PD *)
      apply (Hfin None cs [(s1, e)]); try assumption; [exact (fun x H => H)|intros l Hl'; discriminate|right; exists s1; repeat split; assumption|].
      intros k [Hk1 Hk2]. destruct (lex_ltb k s1) eqn:Ek; [left; apply Hs1c; assumption|]. apply ltb_false_leb in Ek.
      right. exists s1, e. split; [left; reflexivity|split; assumption]. }
    destruct (try_find_max c s1 r Hsorted Et) as [Hrin [Hrc Hrmax]].
    assert (Hrs : lex_leb (r_start r) s1 = true) by (apply r_contains_spec in Hrc; apply Hrc).
    assert (Hsn : sorted_le (cs ++ [r])).
    { apply sorted_le_snoc; [exact Hcs|]. intros x Hx. apply Hrmax; [apply Hcin; exact Hx|].
      eapply leb_trans; [apply (Hle x s e Hx); left; reflexivity|exact Hs1a]. }
    assert (Hinr : forall x, In x (cs ++ [r]) -> In x (c_sorted c)).
    { intros x Hx. apply in_app_or in Hx. destruct Hx as [Hx|[<-|[]]]; [apply Hcin; exact Hx|exact Hrin]. }
    assert (Hsub : forall x, In x cs -> In x (cs ++ [r])) by (intros x Hx; apply in_or_app; left; exact Hx).
    assert (Hlr : last_ok (Some r) (cs ++ [r])) by (intros l Hl'; injection Hl' as <-; apply in_or_app; right; left; reflexivity).
    assert (Hcovr : forall k, lex_leb s k = true -> lex_ltb k s1 = true -> covered (cs ++ [r]) k).
    { intros k Ha Hb. eapply covered_mono; [exact Hsub|]. apply Hs1c; assumption. }
    destruct (r_contains_end r e) eqn:Ee.
    { intros H. rewrite <- (app_nil_r un) in H. apply (Hfin (Some r) (cs ++ [r]) []); try assumption; [|left; reflexivity|].
      - intros x Hx. apply in_app_or in Hx. destruct Hx as [Hx|[<-|[]]]; [apply Hbound; exact Hx|exists s1; split; assumption].
      - intros k [Hk1 Hk2]. left. destruct (lex_ltb k s1) eqn:Ek; [apply Hcovr; assumption|]. apply ltb_false_leb in Ek.
        exists r. split; [apply in_or_app; right; left; reflexivity|]. eapply contains_end_covers; eassumption. }
    destruct (end_below r s1 e Hs1b Hrc Ee) as [Hne [Hlt He']].
    assert (Hcoll : collected (cs ++ [r]) (r_end r)).
    { split; [exact Hsn|]. split; [exact Hinr|]. intros x Hx. apply in_app_or in Hx. destruct Hx as [Hx|[<-|[]]].
      - eapply leb_trans; [apply (Hle x s e Hx); left; reflexivity|]. eapply leb_trans; [exact Hs1a|apply ltb_leb; exact Hlt].
      - eapply leb_trans; [exact Hrs|apply ltb_leb; exact Hlt]. }
    pose proof (cache_scan_spec (S (length (c_sorted c))) (r_end r) e (cs ++ [r]) (Some r) Hcoll He' Hlr) as Hcs2.
    assert (Hcovr2 : forall cs2, (forall x, In x (cs ++ [r]) -> In x cs2) -> forall k, lex_leb s k = true -> lex_ltb k (r_end r) = true -> covered cs2 k).
    { intros cs2 Hsub2 k Ha Hb. destruct (lex_ltb k s1) eqn:Ek; [eapply covered_mono; [exact Hsub2|apply Hcovr; assumption]|]. apply ltb_false_leb in Ek.
      exists r. split; [apply Hsub2; apply in_or_app; right; left; reflexivity|]. apply r_contains_spec. split; [eapply leb_trans; eassumption|right; exact Hb]. }
    destruct (cache_scan batch_limit (S (length (c_sorted c))) c (r_end r) e (cs ++ [r]) (Some r)) as [cs2 l2|cs2 l2 s2]; cbn [cscan_post] in Hcs2.
    + destruct Hcs2 as [[s2 [[C1 [C2 C3]] C4]] [C5 [C6 C7]]]. intros H. rewrite <- (app_nil_r un) in H.
      apply (Hfin l2 cs2 []); try assumption; [intros x Hx; apply C5, Hsub; exact Hx| |left; reflexivity|].
      * intros x Hx. exists s2. split; [apply C3; exact Hx|exact C4].
      * intros k [Hk1 Hk2]. left. destruct (lex_ltb k (r_end r)) eqn:Ek; [apply (Hcovr2 cs2 C5); assumption|]. apply ltb_false_leb in Ek. apply C7; assumption.
    + destruct Hcs2 as [[C1 [C2 C3]] [C4 [C5 [C6 [C7 C8]]]]].
      assert (Hss2 : lex_leb s s2 = true).
      { eapply leb_trans; [exact Hs1a|]. eapply leb_trans; [apply ltb_leb; exact Hlt|exact C7]. }
      apply (Hfin l2 cs2 [(s2, e)]); try assumption; [intros x Hx; apply C5, Hsub; exact Hx| |right; exists s2; repeat split; assumption|].
      * intros x Hx. exists s2. split; [apply C3; exact Hx|exact C4].
      * intros k [Hk1 Hk2]. destruct (lex_ltb k s2) eqn:Ek2.
        -- left. destruct (lex_ltb k (r_end r)) eqn:Ek; [apply (Hcovr2 cs2 C5); assumption|]. apply ltb_false_leb in Ek. apply C8; assumption.
        -- apply ltb_false_leb in Ek2. right. exists s2, e. split; [left; reflexivity|split; assumption].
Qed.
End Phase1.
