(* Region/ProofsGc.v — cache GC (removal of expired entries, delayed-reload promotion) and TTL expiry keep the invariant
   the convergence theorem starts from; lookups after them are covered by the containment theorems, which hold for any cache. *)
From Coq Require Import Sorting.Sorted.
From Verif Require Import Base.Lex Region.Model Region.Ord Region.ProofsContains Region.ProofsInsert Region.ProofsMerge
  Region.ProofsPhase1 Region.Converge Region.ProofsConvA Region.ProofsConvB.
Open Scope N_scope.

Definition gc_flag (r : region) : region := if r_ready r then r else if r_pending r then set_ready r else r.
Lemma shape_gc_flag : same_shape gc_flag.
Proof. intros x. unfold gc_flag. destruct (r_ready x); [repeat split|]. destruct (r_pending x); repeat split. Qed.
Lemma gc_unfold c :
  gc c = let dead := filter r_expired (c_sorted c) in
         let acc := fold_left rm_step dead (c_regions c, c_latest c) in
         mkCache (map gc_flag (filter (fun r => negb (r_expired r)) (c_sorted c))) (fst acc) (snd acc) (c_sepochs c) (c_tomb c).
Proof.
  unfold gc, rm_step. cbv zeta.
  destruct (fold_left (fun acc d => remove_version (r_verid d) (fst acc) (snd acc)) (filter r_expired (c_sorted c)) (c_regions c, c_latest c)) as [regs lat].
  reflexivity.
Qed.

Section Inv.
Variable truth : list desc.
Hypothesis Htw : truth_wf truth.

Lemma gc_inv c : cinv truth c -> cinv truth (gc c).
Proof.
  intros Hc. rewrite gc_unfold. cbv zeta.
  set (live := filter (fun r => negb (r_expired r)) (c_sorted c)).
  assert (Hlive : forall x, In x live -> In x (c_sorted c) /\ r_expired x = false).
  { intros x Hx. apply filter_In in Hx. destruct Hx as [A B]. apply negb_true_iff in B. split; assumption. }
  assert (Hpre : forall y, In y (map gc_flag live) -> exists x, In x live /\ y = gc_flag x).
  { intros y Hy. apply in_map_iff in Hy. destruct Hy as [x [<- Hx]]. exists x. split; [exact Hx|reflexivity]. }
  pose proof shape_gc_flag as Hg.
  constructor; cbn [c_sorted c_regions c_latest c_sepochs c_tomb].
  - apply map_sorted; [exact Hg|]. apply filter_sorted. apply (ci_sorted _ c Hc).
  - intros y T Hy HT Hv. destruct (Hpre y Hy) as [x [Hx ->]]. rewrite (shape_verid _ x Hg) in Hv.
    destruct (Hg x) as [_ [-> [-> [_ [_ ->]]]]]. apply (ci_hist _ c Hc x T (proj1 (Hlive x Hx)) HT Hv).
  - intros y Hy. destruct (Hpre y Hy) as [x [Hx ->]]. rewrite (shape_verid _ x Hg). destruct (Hg x) as [_ [-> _]].
    rewrite fold_remove_regs; [apply (ci_addr _ c Hc x (proj1 (Hlive x Hx)))|].
    intros d Hd Hv. apply filter_In in Hd. destruct Hd as [Hd He]. destruct (Hlive x Hx) as [Hxin Hxe].
    assert (d = x) by (apply (ci_uniq _ c Hc); assumption). subst d. congruence.
  - intros y z Hy Hz Hv. destruct (Hpre y Hy) as [x [Hx ->]]. destruct (Hpre z Hz) as [x' [Hx' ->]].
    rewrite !(shape_verid _ _ Hg) in Hv. rewrite (ci_uniq _ c Hc x x' (proj1 (Hlive x Hx)) (proj1 (Hlive x' Hx')) Hv). reflexivity.
  - intros y T Hy HT Hct. destruct (Hpre y Hy) as [x [Hx ->]]. destruct (Hg x) as [_ [Ha [_ [Hb _]]]]. rewrite Ha in Hct. rewrite Hb.
    apply (ci_dom_start _ c Hc x T (proj1 (Hlive x Hx)) HT Hct).
  - intros T v cf HT Hl. apply fold_remove_latest in Hl. cbn [snd] in Hl. apply (ci_dom_lat _ c Hc T v cf HT Hl).
  - intros y T Hy HT Hi. destruct (Hpre y Hy) as [x [Hx ->]]. destruct (Hg x) as [Ha [_ [_ [Hb [Hc' _]]]]]. rewrite Ha in Hi. rewrite Hb, Hc'.
    apply (ci_dom_id _ c Hc x T (proj1 (Hlive x Hx)) HT Hi).
  - intros y Hy. destruct (Hpre y Hy) as [x [Hx ->]]. destruct (ci_ok _ c Hc x (proj1 (Hlive x Hx))) as [A [B [C D]]].
    unfold gc_flag. destruct (r_ready x); [repeat split; assumption|]. destruct (r_pending x); repeat split; assumption.
  - intros y Hy. destruct (Hpre y Hy) as [x [Hx ->]]. pose proof (ci_len _ c Hc x (proj1 (Hlive x Hx))) as Hl.
    unfold gc_flag. destruct (r_ready x); [exact Hl|]. destruct (r_pending x); exact Hl.
  - intros T p HT Hp. apply (ci_tomb _ c Hc T p HT Hp).
Qed.

Lemma shape_expire : same_shape expire_r.
Proof. intros x. repeat split. Qed.
Lemma expire_inv c r : cinv truth c -> In r (c_sorted c) -> cinv truth (upd_entry c r expire_r).
Proof.
  intros Hc Hr. destruct (upd_entry_inv truth c r expire_r Hc Hr shape_expire) as [H _]; [| |exact H].
  - destruct (ci_ok _ c Hc r Hr) as [A [B [C D]]]. repeat split; try assumption.
  - apply (ci_len _ c Hc r Hr).
Qed.
End Inv.
