(* Region/Converge.v — one request round at the level of the cache API, against a fixed ground truth:
   locate the key, take the work peer of the cached region, ask the store that hosts it, react to the region
   error the way RegionRequestSender.onRegionError does (NotLeader -> UpdateLeader, RegionNotFound ->
   InvalidateCachedRegion, EpochNotMatch -> OnRegionEpochNotMatch). The store's answer follows what a TiKV store
   (and mocktikv's Session.CheckRequestContext) answers. *)
From Verif Require Import Base.Lex Region.Model Region.Ord.
Open Scope N_scope.

Definition d_verid (d : desc) : verid := (d_id d, d_ver d, d_conf d).
Definition tcontains (T : desc) (k : bytes) : bool := contains (d_start T) (d_end T) k.

Inductive reply := RepOk | RepNotLeader (l : peer) | RepRegionNotFound | RepEpochNotMatch (cur : list desc).

Section Round.
Variable truth : list desc.                 (* the current regions: a partition of the key space *)
Variable cur_of : desc -> list desc.        (* what a store reports in EpochNotMatch for its region *)
Variable pd : nat -> pd_req -> pd_ans.
Variable budget fuel : nat.

Definition store_reply (v : verid) (p : peer) : reply :=
  let '(id, ver, conf) := v in
  match find (fun T => d_id T =? id) truth with
  | None => RepRegionNotFound
  | Some T =>
      match find (fun q : peer => snd q =? snd p) (d_peers T) with
      | None => RepRegionNotFound
      | Some q =>
          if negb (peer_eqb q (d_leader T)) then RepNotLeader (d_leader T)
          else if (d_ver T =? ver) && (d_conf T =? conf) then RepOk
          else RepEpochNotMatch (cur_of T)
      end
  end.

Definition react (c : cache) (r : region) (p : peer) (rep : reply) : cache :=
  match rep with
  | RepOk => c
  | RepNotLeader l => update_leader c (r_verid r) (Some l) (r_work r)
  | RepRegionNotFound => invalidate c (r_verid r) 5
  | RepEpochNotMatch cur =>
      match on_epoch_not_match c (r_verid r) (snd p) cur with Ok (_, c') => c' | Err _ => c end
  end.

(* (served?, cache afterwards) *)
Definition round (c : cache) (k : bytes) : bool * cache :=
  match find_region_by_key pd budget fuel 0 c k false with
  | (Ok r, c1, _) =>
      match rpc_ctx c1 (r_verid r) with
      | (Some (r', p), c2) =>
          match store_reply (r_verid r') p with
          | RepOk => (true, c2)
          | rep => (false, react c2 r' p rep)
          end
      | (None, c2) => (false, c2)
      end
  | (Err _, c1, _) => (false, c1)
  end.

Fixpoint rounds (n : nat) (c : cache) (k : bytes) : bool :=
  match n with
  | O => false
  | S n' => let '(ok, c') := round c k in if ok then true else rounds n' c' k
  end.
(* a request through RegionRequestSender: SendReqCtx locates once and then makes one or more attempts on the same cached
   entry (an attempt after a NotLeader switch hits the same entry again, so re-locating it is a no-op: [find_hit]); how
   many attempts each call makes is the sender's choice — an oracle [inner : nat -> nat] (call number -> extra attempts) *)
Fixpoint attempts (n : nat) (c : cache) (k : bytes) : bool * cache :=
  match round c k with
  | (true, c') => (true, c')
  | (false, c') => match n with O => (false, c') | S n' => attempts n' c' k end
  end.
Fixpoint srounds (inner : nat -> nat) (n i : nat) (c : cache) (k : bytes) : bool :=
  match n with
  | O => false
  | S n' => let '(ok, c') := attempts (inner i) c k in if ok then true else srounds inner n' (S i) c' k
  end.
End Round.
