(* Region/Props.v — property C09: the theorems, nothing else. PD is an arbitrary oracle
   [pd : nat -> pd_req -> pd_ans] (the n-th call may be answered with any, possibly stale, description);
   what a theorem needs from it is an explicit hypothesis. *)
From Coq Require Import Permutation.
From Verif Require Import Base.Lex Region.Model Region.Ord Region.ProofsContains Region.ProofsGroup Region.ProofsInsert
  Region.ProofsMerge Region.ProofsGap Region.ProofsPhase1 Region.ProofsPhase2
  Region.Converge Region.ProofsConvA Region.ProofsConvB Region.ProofsConvC Region.PdCodec Region.ProofsBucket Region.Peers Region.ProofsBudget Region.ProofsLatest Region.ProofsApi Region.ProofsGc Region.InvCheck Region.ProofsClosed Region.ProofsReach.
From Verif Require Import Region.ProofsTop.
Open Scope N_scope.

(* ---- containment ---- *)
(* the index search (SearchByKey), the cache-only lookup (TryLocateKey) *)
Theorem C09_contains_search : forall l key is_end r,
  search l key is_end = Some r -> (if is_end then r_contains_end r key else r_contains r key) = true.
Proof. exact search_contains. Qed.
Print Assumptions C09_contains_search.

(* LocateKey / LocateEndKey (findRegionByKey) from ANY cache state, with ANY PD whose answer to "region of k" holds k;
   the end-key lookup of the empty key (the end of the key space) included: it returns a region with unbounded end
   (loadLastRegion / the entry with the greatest start key, fix 0dbaf7e) *)
Theorem C09_contains : forall pd budget fuel t c key is_end r c' t',
  pd_get_sound pd -> pd_prev_sound pd ->
  find_region_by_key pd budget fuel t c key is_end = (Ok r, c', t') ->
  (if is_end then r_contains_end r key else r_contains r key) = true.
Proof. exact C09_contains_proof. Qed.
Print Assumptions C09_contains.

(* regression of F08 (fixed by 0dbaf7e): with the two regions [-inf,"b") ["b",+inf) the end-key lookup of the empty key
   returns the last region — cold cache (scan from PD) and warm cache (greatest start key) *)
Example C09_contains_end_of_keyspace :
  (exists r c' t', find_region_by_key f08_pd 5 5 0 empty_cache [] true = (Ok r, c', t') /\ r_id r = 2 /\ r_contains_end r [] = true) /\
  (exists r c' t', find_region_by_key f08_pd 5 5 0 f08_warm [] true = (Ok r, c', t') /\ r_id r = 2 /\ r_contains_end r [] = true /\ t' = 0%nat).
Proof. split; vm_compute; eexists _, _, _; repeat split. Qed.

(* LocateRegionByID returns the region asked for *)
Theorem C09_contains_by_id : forall pd budget t c id r c' t',
  pd_byid_sound pd -> locate_by_id pd budget t c id = (Ok r, c', t') -> r_id r = id.
Proof. exact C09_contains_by_id_proof. Qed.
Print Assumptions C09_contains_by_id.

(* TryLocateKey (cache only) *)
Theorem C09_contains_try : forall c key r, try_find c key false = Some r -> r_contains r key = true.
Proof. exact C09_contains_try_proof. Qed.
Print Assumptions C09_contains_try.
(* LocateRegionByIDFromPD (bypasses the cache) *)
Theorem C09_contains_by_id_from_pd : forall pd budget t id r t',
  pd_byid_sound pd -> load_by_id pd budget t id = (Ok r, t') -> r_id r = id.
Proof. exact C09_contains_by_id_from_pd_proof. Qed.
Print Assumptions C09_contains_by_id_from_pd.
(* ListRegionIDsInKeyRange: the regions listed form a chain — the first holds the start key, each next one holds the end key
   of the one before, the last holds the end key *)
Theorem C09_list_region_ids_chain : forall pd budget fuel t c s e res c' t',
  pd_get_sound pd -> pd_prev_sound pd ->
  list_region_ids pd budget fuel t c s e [] = (Ok res, c', t') -> chain s e res.
Proof. exact C09_list_region_ids_chain_proof. Qed.
Print Assumptions C09_list_region_ids_chain.

(* ---- gap-free coverage of multi-region lookups ---- *)
(* the merger alone: ANY cached list sorted by start key, ANY sequence of loaded regions — nothing that lies in a
   cached or loaded region is lost, including a cached last region with empty end key *)
Theorem C09_merge_covers : forall cs us k,
  sorted_le cs ->
  (exists c, In c cs /\ r_contains c k = true) \/ (exists u, In u us /\ r_contains u k = true) ->
  covered (merge_all cs us) k.
Proof. exact merge_all_covers. Qed.
Print Assumptions C09_merge_covers.

(* a PD batch that passes regionsHaveGapInRanges covers the ranges, up to the end of its last region *)
Theorem C09_gap_check_sound : forall rs infos limit,
  ranges_wf rs -> regions_have_gap rs infos limit = false ->
  forall k, in_ranges rs k ->
    dcovered infos k \/ (infos <> [] /\ forall d0, d_end (last infos d0) <> [] /\ lex_leb (d_end (last infos d0)) k = true).
Proof. exact regions_have_gap_sound. Qed.
Print Assumptions C09_gap_check_sound.

(* BatchLocateKeyRanges from ANY sorted cache index with ANY PD: the merged locations cover every requested range
   (sorted, disjoint, at most 16*defaultRegionsPerBatch of them, i.e. one PD batch of ranges) *)
Theorem C09_range_gap_free : forall pd budget batch_limit fuel t c rs need_leader locs c' t',
  sorted_starts (c_sorted c) -> ranges_wf rs -> (length rs <= 16 * batch_limit)%nat ->
  (need_leader = true -> pd_leaders pd) ->
  batch_locate pd budget batch_limit fuel t c rs need_leader = (Ok locs, c', t') ->
  forall s e k, In (s, e) rs -> in_range s e k -> exists l, In l locs /\ in_range (r_start l) (r_end l) k.
Proof. exact C09_range_gap_free_proof. Qed.
Print Assumptions C09_range_gap_free.

(* ANY number of ranges (BatchLocateKeyRanges sends the uncached ranges in chunks of 16*defaultRegionsPerBatch and
   recomputes the remainder from the whole list): coverage without the bound, under the one thing the chunking needs from
   PD — a batch scan answers only with regions that overlap the ranges asked ([pd_no_junk]) *)
Theorem C09_range_gap_free_any : forall pd budget batch_limit fuel t c rs need_leader locs c' t',
  sorted_starts (c_sorted c) -> ranges_wf rs -> (need_leader = true -> pd_leaders pd) -> pd_no_junk pd ->
  batch_locate pd budget batch_limit fuel t c rs need_leader = (Ok locs, c', t') ->
  forall s e k, In (s, e) rs -> in_range s e k -> exists l, In l locs /\ in_range (r_start l) (r_end l) k.
Proof. exact C09_range_gap_free_any_proof. Qed.
Print Assumptions C09_range_gap_free_any.

(* LocateKeyRange *)
Theorem C09_key_range_gap_free : forall pd budget batch_limit fuel t c s e locs c' t',
  pd_leaders pd ->
  locate_key_range pd budget batch_limit fuel t c s e [] = (Ok locs, c', t') ->
  forall k, in_range s e k -> exists l, In l locs /\ in_range (r_start l) (r_end l) k.
Proof. exact C09_key_range_gap_free_proof. Qed.
Print Assumptions C09_key_range_gap_free.

(* LoadRegionsInKeyRange (PD only) *)
Theorem C09_load_regions_gap_free : forall pd budget batch_limit fuel t c s e regs c' t',
  pd_leaders pd ->
  load_regions_in_range pd budget batch_limit fuel t c s e [] = (Ok regs, c', t') ->
  forall k, in_range s e k -> exists l, In l regs /\ in_range (r_start l) (r_end l) k.
Proof. exact C09_load_regions_gap_free_proof. Qed.
Print Assumptions C09_load_regions_gap_free.
(* BatchLoadRegionsWithKeyRanges (and ...WithKeyRange / ...FromKey through it): what one call loads covers the ranges up to
   the end of the last loaded region *)
Theorem C09_batch_load_covers : forall pd budget fuel t c rs count nl regs c' t',
  rs <> [] -> ranges_wf rs -> (nl = true -> pd_leaders pd) ->
  batch_load_ranges pd budget fuel t c rs count nl = (Ok regs, c', t') ->
  forall k, in_ranges rs k ->
    covered regs k \/ (exists lastr x, rev regs = lastr :: x /\ r_end lastr <> [] /\ lex_leb (r_end lastr) k = true).
Proof. exact C09_batch_load_covers_proof. Qed.
Print Assumptions C09_batch_load_covers.

(* the sorted-index invariant the two theorems above need is kept by every insertion, starting from the empty cache *)
Theorem C09_index_sorted : forall rs c, sorted_starts (c_sorted c) -> sorted_starts (c_sorted (insert_all c rs)).
Proof. exact insert_all_sorted. Qed.
Print Assumptions C09_index_sorted.

(* ---- grouping of keys ---- *)
Theorem C09_group_partition : forall pd budget fuel t c keys asg c' t',
  pd_get_sound pd -> pd_prev_sound pd ->
  group_assign pd budget fuel t c keys None [] = (Ok asg, c', t') ->
  map fst asg = keys /\ (forall k r, In (k, r) asg -> r_contains r k = true) /\
  Permutation (concat (map snd (groups_of asg))) keys /\ NoDup (map fst (groups_of asg)) /\
  (forall v ks k, In (v, ks) (groups_of asg) -> In k ks -> exists r, In (k, r) asg /\ r_verid r = v /\ r_contains r k = true).
Proof. exact C09_group_partition_proof. Qed.
Print Assumptions C09_group_partition.

(* ---- no regression ---- *)
(* a refused description changes nothing; a description older (version or conf version) than what latestVersions
   holds for its id is refused; so is one older than a cached region that starts inside its range *)
Theorem C09_no_regress_refused : forall c r c', insert_region c r = (false, c') -> c' = c.
Proof. exact insert_refused_unchanged. Qed.
Print Assumptions C09_no_regress_refused.
Theorem C09_no_regress_same_id : forall c r ov oc,
  lat_get (r_id r) (c_latest c) = Some (ov, oc) -> (r_ver r < ov \/ r_conf r < oc) -> insert_region c r = (false, c).
Proof. exact insert_refuses_older_same_id. Qed.
Print Assumptions C09_no_regress_same_id.
Theorem C09_no_regress_inner : forall c r x,
  sorted_starts (c_sorted c) -> In x (c_sorted c) ->
  lex_leb (r_start r) (r_start x) = true -> (r_end r = [] \/ lex_ltb (r_start x) (r_end r) = true) ->
  r_ver r < r_ver x -> insert_region c r = (false, c).
Proof. exact insert_refuses_older_than_inner. Qed.
Print Assumptions C09_no_regress_inner.
(* latestVersions[id] is only dropped together with the entry that carries exactly that version: while that entry stays in the
   index (entries have pairwise distinct region versions), an insertion keeps the record or raises it — it is never wiped by
   the eviction of another, older version of the same region *)
Theorem C09_no_regress_latest_kept : forall c r ok c' id v cf,
  sorted_starts (c_sorted c) -> nonempty_range r ->
  (forall x y, In x (c_sorted c) -> In y (c_sorted c) -> r_verid x = r_verid y -> x = y) ->
  insert_region c r = (ok, c') ->
  lat_get id (c_latest c) = Some (v, cf) ->
  (exists e, In e (c_sorted c') /\ r_verid e = (id, v, cf)) ->
  exists v' cf', lat_get id (c_latest c') = Some (v', cf') /\ v <= v' /\ cf <= cf'.
Proof. exact insert_latest_kept. Qed.
Print Assumptions C09_no_regress_latest_kept.
(* over ANY sequence of insertions, from ANY cache: while the id is never dropped from latestVersions its (ver, conf) only grows *)
Theorem C09_no_regress : forall rs c id v cf v' cf',
  held id c rs ->
  lat_get id (c_latest c) = Some (v, cf) -> lat_get id (c_latest (insert_all c rs)) = Some (v', cf') -> v <= v' /\ cf <= cf'.
Proof. exact insert_all_latest_mono. Qed.
Print Assumptions C09_no_regress.

(* ---- convergence ---- *)
(* Ground truth [truth] (a partition into regions with distinct ids, each led by one of its peers, one peer per
   store) that no longer changes; PD reports it; stores answer as TiKV / mocktikv do ([store_reply]); the cache is in
   ANY state satisfying [cinv]: sorted index, entries addressable through the by-version map, and epochs that are not
   ahead of the truth (what TiKV's epoch discipline guarantees for every description the cache can have seen).
   Then a request for any key k is served — by the leader of the region that holds k, under its current epoch —
   within 4 rounds of locate / send / react (NotLeader -> UpdateLeader, RegionNotFound -> invalidate,
   EpochNotMatch -> OnRegionEpochNotMatch). The bound is tight (example below). *)
Theorem C09_converges : forall truth cur_of pd budget fuel k T c,
  truth_wf truth ->
  (forall R, In R truth -> In R (cur_of R) /\ forall d, In d (cur_of R) -> In d truth) ->
  (forall t k T, In T truth -> tcontains T k = true -> pd t (ReqGet k) = PdOne (Some T)) ->
  (0 < budget)%nat -> (0 < fuel)%nat ->
  In T truth -> tcontains T k = true ->
  cinv truth c ->
  rounds truth cur_of pd budget fuel 4 c k = true.
Proof. exact C09_converges_proof. Qed.
Print Assumptions C09_converges.

Theorem C09_converges_served : forall truth cur_of pd budget fuel k T c c',
  truth_wf truth ->
  (forall R, In R truth -> In R (cur_of R) /\ forall d, In d (cur_of R) -> In d truth) ->
  (forall t k T, In T truth -> tcontains T k = true -> pd t (ReqGet k) = PdOne (Some T)) ->
  (0 < budget)%nat -> (0 < fuel)%nat ->
  In T truth -> tcontains T k = true ->
  cinv truth c ->
  round truth cur_of pd budget fuel c k = (true, c') ->
  exists e, In e (c_sorted c') /\ r_verid e = d_verid T /\ r_contains e k = true /\
            store_reply truth cur_of (r_verid e) (d_leader T) = RepOk /\ nth (r_work e) (r_peers e) (0, 0) = d_leader T.
Proof. exact C09_converges_served_proof. Qed.
Print Assumptions C09_converges_served.

(* the same through the real sender: RegionRequestSender.SendReqCtx locates once and makes as many attempts as it likes on the
   cached entry (its choice is the oracle [inner]); its effects on the cache are compositions of the modelled operations (checked
   on every sender round of the harness). Whatever it chooses, 4 calls suffice. *)
Theorem C09_converges_composed : forall truth cur_of pd budget fuel k T c inner,
  truth_wf truth ->
  (forall R, In R truth -> In R (cur_of R) /\ forall d, In d (cur_of R) -> In d truth) ->
  (forall t k T, In T truth -> tcontains T k = true -> pd t (ReqGet k) = PdOne (Some T)) ->
  (0 < budget)%nat -> (0 < fuel)%nat ->
  In T truth -> tcontains T k = true ->
  cinv truth c ->
  srounds truth cur_of pd budget fuel inner 4 0 c k = true.
Proof. exact C09_converges_composed_proof. Qed.
Print Assumptions C09_converges_composed.

(* the invariant is established by the empty cache and kept by everything a round does: inserting current regions
   and updating entries in place *)
Theorem C09_converges_inv_insert : forall truth c r T,
  truth_wf truth -> cinv truth c -> In T truth -> of_truth r T -> fresh r -> (r_work r < length (r_peers r))%nat ->
  length (r_sepochs r) = length (r_peers r) ->
  exists c' deleted, insert_region c r = (true, c') /\ cinv truth c' /\ c_sepochs c' = c_sepochs c /\ In (inherit r deleted) (c_sorted c') /\
    (forall x, In x (c_sorted c') -> x = inherit r deleted \/ In x (c_sorted c)).
Proof. exact C09_converges_inv_insert_proof. Qed.
Print Assumptions C09_converges_inv_insert.

(* the hypotheses of the convergence theorems as executable tests (extracted; the replay evaluates [cinvb] on the
   implementation's cache after every operation and [truth_wfb] on the ground truth at every quiescent point) *)
Theorem C09_inv_check_sound : forall truth c hist,
  (truth_wfb truth = true -> truth_wf truth) /\ (cinvb truth c = true -> cinv truth c) /\
  (hist_okb truth hist = true -> hist_ok truth (fun d => In d hist)).
Proof. exact C09_inv_check_sound_proof. Qed.
Print Assumptions C09_inv_check_sound.
Theorem C09_converges_checked : forall truth cur_of pd budget fuel k c,
  truth_wfb truth = true -> cinvb truth c = true ->
  (forall R, In R truth -> In R (cur_of R) /\ forall d, In d (cur_of R) -> In d truth) ->
  (forall t k T, In T truth -> tcontains T k = true -> pd t (ReqGet k) = PdOne (Some T)) ->
  (0 < budget)%nat -> (0 < fuel)%nat ->
  rounds truth cur_of pd budget fuel 4 c k = true.
Proof. exact converges_checked. Qed.
Print Assumptions C09_converges_checked.

(* the invariant is reachable: from the empty cache, through ANY sequence of lookups (all APIs), reactions to store replies,
   sender-side entry changes, GC, expiry, store checks and bucket updates, while PD and the stores answer with arbitrary OLDER
   states of the regions ([H]: the history; [hist_ok]: TiKV's epoch discipline over it), the cache satisfies [cinv]; hence,
   once PD reports the current regions, 4 rounds suffice from any reachable state *)
Theorem C09_invariant_reachable : forall truth H c,
  hist_ok truth H -> reach truth H c -> cinv truth c.
Proof. exact C09_invariant_reachable_proof. Qed.
Print Assumptions C09_invariant_reachable.
Theorem C09_converges_reachable : forall truth H cur_of pd budget fuel k T c,
  truth_wf truth -> hist_ok truth H -> reach truth H c ->
  (forall R, In R truth -> In R (cur_of R) /\ forall d, In d (cur_of R) -> In d truth) ->
  (forall t k T, In T truth -> tcontains T k = true -> pd t (ReqGet k) = PdOne (Some T)) ->
  (0 < budget)%nat -> (0 < fuel)%nat ->
  In T truth -> tcontains T k = true ->
  rounds truth cur_of pd budget fuel 4 c k = true.
Proof. exact C09_converges_reachable_proof. Qed.
Print Assumptions C09_converges_reachable.

(* ---- the situations without convergence (leader store down, leaderless region, PD stale or silent) ---- *)
(* whatever PD answers — nothing, gaps, leaderless regions, stale descriptions — a lookup consults PD at most [budget]
   times (every retry of loadRegion / scanRegions / batchScanRegions is preceded by a back-off that is charged to the
   budget) and then returns an error; with the budget used up a cache miss is an error and the cache is untouched *)
Theorem C09_lookup_pd_bounded : forall pd budget fuel t c key is_end r c' t',
  find_region_by_key pd budget fuel t c key is_end = (r, c', t') -> (t <= t' <= Nat.max t budget)%nat.
Proof. exact find_region_by_key_bounded. Qed.
Print Assumptions C09_lookup_pd_bounded.
Theorem C09_scan_pd_bounded : forall pd budget fuel t q rs limit nl r t',
  scan_loop pd budget fuel t q rs limit nl = (r, t') -> (t <= t' <= Nat.max t budget)%nat.
Proof. exact scan_loop_bounded. Qed.
Print Assumptions C09_scan_pd_bounded.
Theorem C09_lookup_error_surfaces : forall pd budget fuel t c key is_end, (budget <= t)%nat -> (0 < fuel)%nat ->
  search (c_sorted c) key is_end = None -> find_region_by_key pd budget fuel t c key is_end = (Err 1, c, t).
Proof. exact find_region_by_key_exhausted. Qed.
Print Assumptions C09_lookup_error_surfaces.

(* ---- through pd_codec.go (txn mode) ---- *)
(* [codec_pd raw] is the PD the cache sees behind CodecPDClient: requests memcomparable-encoded (C19's encode_bytes),
   boundaries of answers decoded. If the PD answers "region of enc(k)" with a region whose encoded range holds enc(k)
   (boundaries empty or encodings; an end boundary never the encoding of the empty key), every LocateKey/LocateEndKey
   result contains the key: decoding preserves order and containment. *)
Theorem C09_codec_preserves_containment : forall s e k s' e',
  enc_bound s -> enc_bound_end e -> dec_key s = Some s' -> dec_key e = Some e' ->
  contains s e (Codec.Model.encode_bytes k) = contains s' e' k.
Proof. exact dec_contains. Qed.
Print Assumptions C09_codec_preserves_containment.
Theorem C09_contains_codec : forall raw budget fuel t c key is_end r c' t',
  raw_get_sound raw -> raw_prev_sound raw ->
  find_region_by_key (codec_pd raw) budget fuel t c key is_end = (Ok r, c', t') ->
  (if is_end then r_contains_end r key else r_contains r key) = true.
Proof. exact C09_contains_codec_proof. Qed.
Print Assumptions C09_contains_codec.

(* ---- buckets ---- *)
(* KeyLocation.LocateBucket on a location [s,e) with ANY list of bucket keys (unsorted, stale, outside the region):
   a key of the region always gets a bucket, and the bucket contains the key *)
Theorem C09_bucket_contains : forall s e keys key, contains s e key = true ->
  exists b, locate_bucket_full s e keys key = Some b /\ contains (fst b) (snd b) key = true.
Proof. exact locate_bucket_full_contains. Qed.
Print Assumptions C09_bucket_contains.
(* a bucket found by the search (locateBucket) is clamped: it lies inside the (non-empty) region and is non-empty *)
Theorem C09_bucket_inside : forall s e keys key b0, (e = [] \/ lex_ltb s e = true) ->
  locate_bucket keys key = Some b0 -> exists b, locate_bucket_full s e keys key = Some b /\ inside s e b.
Proof. exact locate_bucket_full_found_inside. Qed.
Print Assumptions C09_bucket_inside.
(* the fall-back buckets (key below the first / at or above the last bucket key) are NOT clamped: with stale bucket keys
   they reach outside the region — region [t,z), keys [a,h,m], key u: bucket [m,z) *)
(* observation, not a clause of C09 (the property speaks about regions, not buckets) *)
Example C09_bucket_fallback_unclamped_example :
  exists s e keys key b, contains s e key = true /\ locate_bucket_full s e keys key = Some b /\ ~ inside s e b.
Proof.
  exists [116], [122], [[97]; [104]; [109]], [117], ([109], [122]). split; [reflexivity|]. split; [reflexivity|].
  intros [H _]. cbn in H. discriminate.
Qed.
(* bucket versions never go back: an inserted region ends up with at least its own bucket version and at least the
   version of the entry whose place it takes; OnBucketVersionNotMatch only raises it (by definition) *)
Theorem C09_bucket_version_mono : forall r deleted,
  bk_ver (r_bk r) <= bk_ver (r_bk (inherit r deleted)) /\
  (forall old t, deleted = old :: t -> bk_ver (r_bk old) <= bk_ver (r_bk (inherit r deleted))).
Proof. exact inherit_bk_version. Qed.
Print Assumptions C09_bucket_version_mono.

(* UpdateBucketsIfNeeded's background reload racing with OnBucketVersionNotMatch on the entry it replaces: both orders end with
   the same bucket version, the maximum of PD's, the cached one and the reported one — nothing is lost or rolled back *)
Theorem C09_bucket_race_confluent : forall r old ver keys,
  bk_ver (r_bk (keep_bk r (bvnm_e ver keys old))) = N.max (N.max (bk_ver (r_bk r)) (bk_ver (r_bk old))) ver /\
  bk_ver (r_bk (bvnm_e ver keys (keep_bk r old))) = N.max (N.max (bk_ver (r_bk r)) (bk_ver (r_bk old))) ver.
Proof. exact bucket_race_confluent. Qed.
Print Assumptions C09_bucket_race_confluent.

(* ---- TTL expiry and cache GC ---- *)
(* containment holds for ANY cache, hence also right after a GC round or an expiry: stated once explicitly *)
Theorem C09_contains_after_gc : forall pd budget fuel t c key is_end r c' t',
  pd_get_sound pd -> pd_prev_sound pd ->
  find_region_by_key pd budget fuel t (gc c) key is_end = (Ok r, c', t') ->
  (if is_end then r_contains_end r key else r_contains r key) = true.
Proof. exact C09_contains_after_gc_proof. Qed.
Print Assumptions C09_contains_after_gc.
(* GC (expired entries dropped with their by-version and latest records, delayed reloads promoted) and TTL expiry keep the
   invariant the convergence theorem starts from: convergence within 4 rounds is not lost *)
Theorem C09_gc_keeps_invariant : forall truth c, cinv truth c -> cinv truth (gc c).
Proof. exact gc_inv. Qed.
Print Assumptions C09_gc_keeps_invariant.
Theorem C09_expire_keeps_invariant : forall truth c r, cinv truth c -> In r (c_sorted c) -> cinv truth (upd_entry c r expire_r).
Proof. exact expire_inv. Qed.
Print Assumptions C09_expire_keeps_invariant.

(* ---- peers of a fresh region (newRegion) ---- *)
(* for ANY PD answer: the usable peers are exactly those whose store has an address, that PD does not list as down,
   and that are not witnesses — except a witness that is the reported leader (kept on purpose) *)
Theorem C09_peers_available : forall leader down ps r,
  new_region_peers leader down ps = Some r -> fst (fst (fst r)) = filter (kept leader down) ps.
Proof. exact new_region_peers_avail. Qed.
Print Assumptions C09_peers_available.
(* the peer a leader read starts with is a usable TiKV peer, and a witness only if it is PD's leader *)
Theorem C09_peers_work_usable : forall leader down ps r q,
  new_region_peers leader down ps = Some r -> work_peer r = Some q ->
  In q ps /\ p_kind q = 0 /\ p_tomb q = false /\ is_down down q = false /\ (p_witness q = true -> p_peer q = leader).
Proof. exact work_peer_usable. Qed.
Print Assumptions C09_peers_work_usable.
(* if the leader PD reports is usable and on a TiKV store, the region starts with it *)
Theorem C09_peers_leader : forall leader down ps p,
  NoDup (map p_peer ps) -> In p ps -> p_peer p = leader -> kept leader down p = true -> p_kind p = 0 ->
  exists r, new_region_peers leader down ps = Some r /\ work_peer r = Some p.
Proof. exact new_region_peers_leader. Qed.
Print Assumptions C09_peers_leader.
(* counter-examples to the naive statement "an available voter when one exists, never a witness" (not a clause of C09). PD's leader down: the first usable TiKV
   peer is taken even if it is a learner and a voter follows; PD's leader a witness: the witness is taken; no usable TiKV
   peer but a TiFlash peer: the region is created without a start peer (the first leader read then panics) *)
Example C09_peers_naive_statement_counterexample :
  (exists leader down ps r q v, new_region_peers leader down ps = Some r /\ work_peer r = Some q /\ p_learner q = true /\
     In v ps /\ kept leader down v = true /\ p_learner v = false /\ p_kind v = 0) /\
  (exists leader down ps r q, new_region_peers leader down ps = Some r /\ work_peer r = Some q /\ p_witness q = true) /\
  (exists leader down ps r, new_region_peers leader down ps = Some r /\ work_peer r = None).
Proof.
  split; [|split].
  - exists (1, 1), [(1, 1)], [mkPinfo (1, 1) false false 0 false; mkPinfo (2, 2) false true 0 false; mkPinfo (3, 3) false false 0 false].
    eexists _, _, (mkPinfo (3, 3) false false 0 false). vm_compute. repeat split; auto.
  - exists (1, 1), [], [mkPinfo (1, 1) true false 0 false; mkPinfo (2, 2) false false 0 false]. eexists _, _. vm_compute. repeat split.
  - exists (1, 1), [(1, 1)], [mkPinfo (1, 1) false false 0 false; mkPinfo (2, 90) false true 1 false]. eexists. vm_compute. split; reflexivity.
Qed.

(* ---- non-vacuity ---- *)
(* regions [-inf,b) [b,d) [d,+inf); the cache knows the first and the last; three ranges, the middle one is a miss *)
Example C09_range_gap_free_nonvacuous :
  sorted_starts (c_sorted ex_cache) /\ ranges_wf ex_ranges /\
  exists locs c' t', batch_locate ex_pd 5 128 5 0 ex_cache ex_ranges false = (Ok locs, c', t') /\ map r_id locs = [1; 2; 3].
Proof.
  split; [|split].
  - apply insert_all_sorted. constructor.
  - cbn. repeat split; try (right; reflexivity); discriminate.
  - vm_compute. eexists _, _, _. split; reflexivity.
Qed.
Example C09_no_regress_nonvacuous :
  let c := ex_cache in held 1 c [new_region (mkDesc 1 [] [98] 4 1 [(1, 1)] (1, 1) None)] /\
  lat_get 1 (c_latest c) = Some (3, 1) /\
  insert_region c (new_region (mkDesc 1 [] [99] 2 1 [(1, 1)] (1, 1) None)) = (false, c).
Proof. vm_compute. repeat split; discriminate. Qed.

(* convergence: two current regions [-inf,b) (id 1, leader on store 2) and [b,+inf) (id 2, leader on store 1); the cache
   holds one valid stale entry: region 1 before the split, believed to be led by its peer on store 1. The request for
   key "c" needs exactly 4 rounds: NotLeader, EpochNotMatch, NotLeader, served. *)
(* the same cache after a send failure on store 1 (its fail-epoch is 1, the entry recorded 0) *)
Example C09_converges_nonvacuous :
  truth_wf cv_truth /\ cinv cv_truth cv_cache /\ cinv cv_truth empty_cache /\
  rounds cv_truth (fun _ => cv_truth) cv_pd 3 3 3 cv_cache [99] = false /\
  rounds cv_truth (fun _ => cv_truth) cv_pd 3 3 4 cv_cache [99] = true /\
  cinv cv_truth cv_cache_failed /\ rounds cv_truth (fun _ => cv_truth) cv_pd 3 3 1 cv_cache_failed [99] = false /\
  rounds cv_truth (fun _ => cv_truth) cv_pd 3 3 3 cv_cache_failed [99] = true.
Proof.
  split; [exact cv_truth_wf|]. split; [exact cv_cache_inv|]. split; [|split; [vm_compute; reflexivity|split; [vm_compute; reflexivity|split; [exact cv_cache_failed_inv|split; vm_compute; reflexivity]]]].
  constructor; cbn [empty_cache c_sorted c_regions c_latest].
  - constructor.
  - intros x T [].
  - intros x [].
  - intros x y [].
  - intros x T [].
  - intros T v cf _ H. discriminate H.
  - intros x T [].
  - intros x [].
  - intros x [].
  - intros T p _ _. reflexivity.
Qed.

(* a decommissioned store: the periodic store check (Store.reResolve) bumps the fail-epoch of a store PD reports as removed
   and takes its address away; a warm entry whose work peer sits on it is then invalidated by the next GetTiKVRPCContext
   (no address) — in the convergence theorem this is the "unusable work store" round, the bound stays 4. [cinv] requires
   that no CURRENT peer is on a store the cache knows to be a tombstone. *)
Example C09_converges_after_decommission :
  let c := re_resolve (mkCache [cv_stale7] [((1, 1, 1), [])] [(1, (1, 1))] [] []) 7 true in
  c_sepochs c = [(7, 1)] /\ c_tomb c = [7] /\
  rounds cv_truth (fun _ => cv_truth) cv_pd 3 3 1 c [99] = false /\ rounds cv_truth (fun _ => cv_truth) cv_pd 3 3 2 c [99] = true.
Proof. vm_compute. repeat split. Qed.

(* GC and expiry in the convergence example: the stale entry expires, GC drops it, the next request is served at once *)
Example C09_gc_nonvacuous :
  let c := gc (upd_entry cv_cache cv_stale expire_r) in
  c_sorted c = [] /\ c_latest c = [] /\ rounds cv_truth (fun _ => cv_truth) cv_pd 3 3 1 c [99] = true.
Proof. vm_compute. repeat split. Qed.

(* the executable tests accept the example states and reject a cache that is ahead of the ground truth / an entry whose
   by-version record is missing / a ground truth with a hole *)
Example C09_inv_check_nonvacuous :
  truth_wfb cv_truth = true /\ cinvb cv_truth cv_cache = true /\ cinvb cv_truth cv_cache_failed = true /\ cinvb cv_truth empty_cache = true /\
  cinvb cv_truth (mkCache [mkRegion 1 [] [] 3 1 [(1, 1); (2, 2)] 0 false 0 false false false [0; 0] None] [((1, 3, 1), [])] [(1, (3, 1))] [] []) = false /\
  cinvb cv_truth (mkCache [cv_stale] [] [(1, (1, 1))] [] []) = false /\
  truth_wfb [cv_R1] = false /\ truth_wfb [cv_R2] = false.
Proof. vm_compute. repeat split. Qed.

(* reachability: PD still answers every key lookup with the old, unsplit region 1 (a state of the history); the cold cache
   takes it; the resulting state is reachable, satisfies the invariant, and needs all 4 rounds once PD is current *)
Example C09_reachable_nonvacuous :
  hist_okb cv_truth cv_hist = true /\ hist_okb cv_truth [mkDesc 1 [] [] 3 1 [(1, 1); (2, 2)] (1, 1) None] = false /\
  exists c, reach cv_truth (fun d => In d cv_hist) c /\ c = cv_cache /\ cinvb cv_truth c = true /\
    rounds cv_truth (fun _ => cv_truth) cv_pd 3 3 3 c [99] = false /\ rounds cv_truth (fun _ => cv_truth) cv_pd 3 3 4 c [99] = true.
Proof.
  split; [vm_compute; reflexivity|]. split; [vm_compute; reflexivity|]. eexists. split.
  - eapply (R_locate cv_truth (fun d => In d cv_hist) (fun _ _ => PdOne (Some cv_old)) 3 3 0 empty_cache [99] false).
    + intros t q. left. reflexivity.
    + apply R_empty.
    + vm_compute. reflexivity.
  - vm_compute. repeat split.
Qed.
