(* Region/ProofsTopRead.v — the proofs of the theorems of PropsRead.v that need more than one lemma application, and the
   data of its Examples. Statements identical to PropsRead.v. *)
From Verif Require Import Base.Lex Region.Model Region.Ord Region.Converge Region.ProofsConvB Region.ProofsReach Region.ReadCtx Region.ProofsContains Region.GroupFilter Region.ProofsConvC Region.StoreResolve.
From Coq Require Import Sorting.Sorted.
From Verif Require Region.InvCheck.
Open Scope N_scope.

Lemma C09_read_ctx_prefer_leader_proof : forall c r seed kind,
  (epoch_fresh c r (r_work r) = true -> (r_work r < length (r_peers r))%nat -> pick_idx c r RkPreferLeader seed false = r_work r) /\
  (kind <> RkFollower -> pick_idx c r kind seed true = r_work r).
Proof. intros c r seed kind. exact (conj (prefer_leader_work c r seed) (leader_only_work c r seed kind)). Qed.
Lemma C09_read_ctx_keeps_reachable_proof : forall truth H c v kind seed lo,
  reach truth H c -> reach truth H (snd (rpc_ctx_read c v kind seed lo)).
Proof.
  intros truth H c v kind seed lo Hc. unfold rpc_ctx_read. destruct (get_by_verid c v) as [r|]; [|exact Hc].
  destruct (r_reload r || r_expired r); [exact Hc|]. cbv zeta.
  destruct (existsb (N.eqb (snd (nth (pick_idx c r kind seed lo) (r_peers r) (0, 0)))) (c_tomb c)); [apply R_entry; [apply ef_invalidate|exact Hc]|].
  destruct (epoch_fresh c r (pick_idx c r kind seed lo)); [exact Hc|]. apply R_entry; [apply ef_invalidate|exact Hc].
Qed.
Definition rd_r := mkRegion 1 [] [] 1 1 [(1, 1); (2, 2); (3, 3); (4, 4)] 0 false 0 false false false [0; 0; 0; 0] None.
Definition rd_c := mkCache [rd_r] [((1, 1, 1), [])] [(1, (1, 1))] [(2, 1)] [].
Definition rd_c2 := mkCache [rd_r] [((1, 1, 1), [])] [(1, (1, 1))] [(2, 1); (3, 1)] [].
Lemma C09_group_filter_sorted_proof : forall pd budget keys fuel t c asg c' t',
  pd_get_sound pd -> pd_prev_sound pd ->
  StronglySorted (fun a b => lex_ltb a b = true) keys ->
  group_assign_f pd budget eq_start fuel t c keys None [] = (Ok asg, c', t') ->
  forall kr, In kr asg -> r_contains (snd kr) (fst kr) = true /\ fst kr <> r_start (snd kr).
Proof.
  intros pd budget keys fuel t c asg c' t' H1 H2 Hs H.
  exact (group_filter_sorted pd budget H1 H2 keys fuel t c None [] asg c' t' Hs ltac:(intros l E; discriminate E) ltac:(intros kr []) H).
Qed.
Lemma C09_group_filter_any_proof : forall pd budget flt keys fuel t c asg c' t',
  pd_get_sound pd -> pd_prev_sound pd ->
  group_assign_f pd budget flt fuel t c keys None [] = (Ok asg, c', t') ->
  exists ds : list (bytes * region * bool),
    map (fun d => fst (fst d)) ds = keys /\
    (forall k r b, In (k, r, b) ds -> r_contains r k = true /\ (b = false -> flt k (r_start r) = true)) /\
    asg = map fst (filter (fun d => snd d) ds).
Proof. intros pd budget flt keys fuel t c asg c' t' H1 H2 H. exact (group_filter_any pd budget H1 H2 flt keys fuel t c None [] asg c' t' H). Qed.
Definition gf_r1 := mkRegion 9 [] [109] 1 0 [(5, 1)] 0 false 0 false false false [0] None.
Definition gf_r2 := mkRegion 10 [109] [] 1 0 [(11, 1)] 0 false 0 false false false [0] None.
Definition gf_c := mkCache [gf_r1; gf_r2] [((9, 1, 0), []); ((10, 1, 0), [109])] [(9, (1, 0)); (10, (1, 0))] [] [].
Definition gf_pd (t : nat) (q : pd_req) : pd_ans := PdOne None.
Definition cv_R1r := mkDesc 1 [] [98] 2 1 [(1, 1); (2, 2)] (2, 2) None.
Definition cv_R2r := mkDesc 2 [98] [] 2 1 [(3, 1); (4, 2)] (3, 1) None.
Definition cv_truth_r := [cv_R1r; cv_R2r].
Definition cv_pd_r (t : nat) (q : pd_req) : pd_ans :=
  match q with ReqGet k => PdOne (find (fun T => tcontains T k) cv_truth_r) | _ => PdOne None end.
Definition cv_cache_r := mkCache [mkRegion 1 [] [] 1 1 [(1, 1); (2, 2)] 0 false 0 false false false [0; 0] None] [((1, 1, 1), [])] [(1, (1, 1))] [] [].
Lemma C09_store_fault_transient_proof : forall c st n o rest l st',
  store_check c st RoTransient = c /\
  init_resolve (repeat RoTransient n ++ o :: rest) = init_resolve (o :: rest) /\
  (In st' (c_tomb (store_checks c l)) -> In st' (c_tomb c) \/ In (st', RoRemoved) l).
Proof.
  intros c st n o rest l st'. split; [reflexivity|]. split; [apply init_resolve_transient|apply store_checks_tomb].
Qed.
Lemma C09_converges_store_faults_proof : forall truth H cur_of pd budget fuel k T c l,
  truth_wf truth -> hist_ok truth H -> reach truth H c ->
  (forall st R p, In (st, RoRemoved) l -> In R truth -> In p (d_peers R) -> snd p <> st) ->
  (forall R, In R truth -> In R (cur_of R) /\ forall d, In d (cur_of R) -> In d truth) ->
  (forall t k T, In T truth -> tcontains T k = true -> pd t (ReqGet k) = PdOne (Some T)) ->
  (0 < budget)%nat -> (0 < fuel)%nat ->
  In T truth -> tcontains T k = true ->
  rounds truth cur_of pd budget fuel 4 (store_checks c l) k = true.
Proof.
  intros truth H cur_of pd budget fuel k T c l H1 Hh Hr Hrm H2 H3 H4 H5 H6 H7.
  pose proof (store_checks_reach truth H l c Hrm Hr) as Hr'.
  exact (converges truth H1 cur_of H2 pd H3 budget fuel H4 H5 k T H6 H7 _ (proj1 (reach_rinv truth H Hh _ Hr'))).
Qed.
