(* Region/ProofsClosed.v — what a lookup can do to the cache. Every lookup API changes the cache only by inserting regions
   made from PD answers (insert_new / insert_all) and by clearing / setting the reload flags of an entry. Hence a predicate
   on caches that is kept by those three steps is kept by every lookup, whatever PD answers ([Hd] = what PD's answers are
   known to satisfy). Used for the reachability of the convergence invariant (ProofsReach.v). *)
From Verif Require Import Base.Lex Region.Model Region.Ord.
Open Scope N_scope.

Section Closed.
Variable pd : nat -> pd_req -> pd_ans.
Variable budget batch_limit : nat.
Variable Hd : desc -> Prop.
Hypothesis Hpd : forall t q, match pd t q with PdOne (Some d) => Hd d | PdOne None => True | PdMany l => Forall Hd l end.
(* a region object as loadRegion / scanRegions make it: newRegion of an answer with peers *)
Definition from_pd (r : region) : Prop := exists d, Hd d /\ d_peers d <> [] /\ r = new_region d.
Variable P : cache -> Prop.
Hypothesis P_ins : forall c r, P c -> from_pd r -> P (snd (insert_new c r)).
Hypothesis P_clear : forall c r, P c -> P (upd_entry c r clear_access_flags).
Hypothesis P_reload : forall c r, P c -> P (upd_entry c r set_reload).

Lemma call_Hd t q a : call pd budget t q = Some a ->
  match a with PdOne (Some d) => Hd d | PdOne None => True | PdMany l => Forall Hd l end.
Proof. unfold call. destruct (Nat.ltb t budget); [|discriminate]. intros H; injection H as <-. apply Hpd. Qed.

Lemma handle_infos_from_pd nl : forall infos rs, Forall Hd infos -> handle_infos infos nl = Ok rs -> Forall from_pd rs.
Proof.
  induction infos as [|d t IH]; intros rs Hf; cbn [handle_infos]; [intros H; injection H as <-; constructor|].
  inversion Hf as [|? ? Hd0 Hft]; subst.
  destruct (nl && (fst (d_leader d) =? 0)); [apply IH; exact Hft|].
  destruct (is_nil (d_peers d)) eqn:E; [discriminate|].
  destruct (handle_infos t nl) as [rs'|e] eqn:E2; [|discriminate]. intros H; injection H as <-.
  constructor; [|apply IH; [exact Hft|reflexivity]].
  exists d. split; [exact Hd0|split; [|reflexivity]]. intros Hn. rewrite Hn in E. discriminate.
Qed.
Lemma scan_loop_from_pd : forall fuel t q rs limit nl regs t',
  scan_loop pd budget fuel t q rs limit nl = (Ok regs, t') -> Forall from_pd regs.
Proof.
  induction fuel as [|f IH]; intros t q rs limit nl regs t'; cbn [scan_loop]; [discriminate|].
  destruct (call pd budget t q) as [a|] eqn:Ec; [|discriminate]. apply call_Hd in Ec. destruct a as [d|infos]; [discriminate|].
  destruct (is_nil infos); [apply IH|]. destruct (regions_have_gap rs infos limit); [apply IH|].
  destruct (handle_infos infos nl) as [[|r0 rs']|e] eqn:Eh; [apply IH| |discriminate].
  intros H; injection H as <- _. eapply handle_infos_from_pd; eassumption.
Qed.
Lemma load_region_from_pd : forall fuel t key is_end prev r t',
  load_region pd budget fuel t key is_end prev = (Ok r, t') -> from_pd r.
Proof.
  induction fuel as [|f IH]; intros t key is_end prev r t'; cbn [load_region]; [discriminate|].
  destruct (call pd budget t (if prev then ReqPrev key else ReqGet key)) as [a|] eqn:Ec; [|discriminate].
  apply call_Hd in Ec. destruct a as [[d|]|l]; [|apply IH|discriminate].
  destruct (is_nil (d_peers d)) eqn:E; [discriminate|].
  destruct (is_end && negb prev && bytes_eqb (d_start d) key && negb (is_nil (d_start d))); [apply IH|].
  intros H; injection H as <- _. exists d. split; [exact Ec|split; [|reflexivity]]. intros Hn. rewrite Hn in E. discriminate.
Qed.
Lemma load_last_from_pd : forall fuel t start r t', load_last pd budget fuel t start = (Ok r, t') -> from_pd r.
Proof.
  induction fuel as [|f IH]; intros t start r t'; cbn [load_last]; [discriminate|].
  destruct (scan_loop pd budget (S f) t (ReqScan start [] 128) [(start, [])] 128 true) as [[regs|e] t1] eqn:Es; [|discriminate].
  apply scan_loop_from_pd in Es. destruct (rev regs) as [|lastr x] eqn:Er; [discriminate|].
  destruct (is_nil (r_end lastr)); [|apply IH]. intros H; injection H as <- _.
  apply (proj1 (Forall_forall _ _) Es). apply in_rev. rewrite Er. left. reflexivity.
Qed.
Lemma load_for_from_pd c fuel t key is_end r t' : load_for pd budget c fuel t key is_end = (Ok r, t') -> from_pd r.
Proof. unfold load_for. destruct (is_end && is_nil key); [apply load_last_from_pd|apply load_region_from_pd]. Qed.
Lemma load_by_id_from_pd t id r t' : load_by_id pd budget t id = (Ok r, t') -> from_pd r.
Proof.
  unfold load_by_id. destruct (call pd budget t (ReqById id)) as [a|] eqn:Ec; [|discriminate]. apply call_Hd in Ec.
  destruct a as [[d|]|l]; try discriminate. destruct (is_nil (d_peers d)) eqn:E; [discriminate|].
  intros H; injection H as <- _. exists d. split; [exact Ec|split; [|reflexivity]]. intros Hn. rewrite Hn in E. discriminate.
Qed.

Lemma insert_all_closed : forall rs c, P c -> Forall from_pd rs -> P (insert_all c rs).
Proof.
  unfold insert_all. induction rs as [|r t IH]; intros c Hc Hf; [exact Hc|]. inversion Hf; subst. cbn [fold_left].
  apply IH; [apply P_ins; assumption|assumption].
Qed.

(* LocateKey / LocateEndKey *)
Lemma find_region_by_key_closed fuel t c key is_end r c' t' :
  P c -> find_region_by_key pd budget fuel t c key is_end = (r, c', t') -> P c'.
Proof.
  intros Hc. unfold find_region_by_key.
  assert (Hmiss : match load_for pd budget c fuel t key is_end with
    | (Err e, t1) => (Err e, c, t1)
    | (Ok lr, t1) =>
        let '(ok, c1) := insert_new c lr in
        if ok then (Ok (as_stored c lr), c1, t1)
        else match load_for pd budget c1 fuel t1 key is_end with
             | (Err e, t2) => (Err e, c1, t2)
             | (Ok lr2, t2) => (Ok (as_stored c1 lr2), snd (insert_new c1 lr2), t2)
             end
    end = (r, c', t') -> P c').
  { destruct (load_for pd budget c fuel t key is_end) as [[lr|e] t1] eqn:E1; [|intros H; injection H as _ <- _; exact Hc].
    apply load_for_from_pd in E1. pose proof (P_ins c lr Hc E1) as H1.
    destruct (insert_new c lr) as [ok c1]. cbn [snd] in H1. destruct ok; [intros H; injection H as _ <- _; exact H1|].
    destruct (load_for pd budget c1 fuel t1 key is_end) as [[lr2|e] t2] eqn:E2; [|intros H; injection H as _ <- _; exact H1].
    apply load_for_from_pd in E2. intros H; injection H as _ <- _. apply P_ins; assumption. }
  destruct (search (c_sorted c) key is_end) as [x|]; [|exact Hmiss].
  destruct (r_expired x); [exact Hmiss|]. destruct (flagged x); [|intros H; injection H as _ <- _; exact Hc].
  destruct (load_for pd budget c fuel t key is_end) as [[lr|e] t1] eqn:E1; intros H; injection H as _ <- _.
  - apply load_for_from_pd in E1. apply P_ins; [apply P_clear; exact Hc|exact E1].
  - apply P_reload. apply P_clear. exact Hc.
Qed.

(* LocateRegionByID *)
Lemma locate_by_id_closed t c id r c' t' : P c -> locate_by_id pd budget t c id = (r, c', t') -> P c'.
Proof.
  intros Hc. unfold locate_by_id.
  assert (Hmiss : match load_by_id pd budget t id with
              | (Err e, t1) => (Err e, c, t1)
              | (Ok lr, t1) => (Ok lr, snd (insert_new c lr), t1)
              end = (r, c', t') -> P c').
  { destruct (load_by_id pd budget t id) as [[lr|e] t1] eqn:E1; intros H; injection H as _ <- _; [|exact Hc].
    apply load_by_id_from_pd in E1. apply P_ins; assumption. }
  destruct (search_by_id c id) as [x|]; [|exact Hmiss].
  destruct (r_expired x); [exact Hmiss|]. destruct (flagged x); [|intros H; injection H as _ <- _; exact Hc].
  destruct (load_by_id pd budget t id) as [[lr|e] t1] eqn:E1; intros H; injection H as _ <- _.
  - apply load_by_id_from_pd in E1. apply P_ins; [apply P_clear; exact Hc|exact E1].
  - apply P_reload. apply P_clear. exact Hc.
Qed.

(* BatchLoadRegionsWithKeyRange(s), BatchLoadRegionsFromKey *)
Lemma batch_load_range_closed fuel t c s e count r c' t' : P c -> batch_load_range pd budget fuel t c s e count = (r, c', t') -> P c'.
Proof.
  intros Hc. unfold batch_load_range. destruct count as [|n]; [intros H; injection H as _ <- _; exact Hc|].
  destruct (scan_loop pd budget fuel t (ReqScan s e (S n)) [(s, e)] (S n) true) as [[regs|x] t1] eqn:Es; intros H; injection H as _ <- _; [|exact Hc].
  apply insert_all_closed; [exact Hc|eapply scan_loop_from_pd; exact Es].
Qed.
Lemma batch_load_ranges_closed fuel t c rs count nl r c' t' : P c -> batch_load_ranges pd budget fuel t c rs count nl = (r, c', t') -> P c'.
Proof.
  intros Hc. unfold batch_load_ranges. destruct rs as [|r0 rt]; [intros H; injection H as _ <- _; exact Hc|].
  destruct count as [|n]; [intros H; injection H as _ <- _; exact Hc|].
  destruct (scan_loop pd budget fuel t (ReqBatch (r0 :: rt) (S n)) (r0 :: rt) (S n) nl) as [[regs|x] t1] eqn:Es; intros H; injection H as _ <- _; [|exact Hc].
  apply insert_all_closed; [exact Hc|eapply scan_loop_from_pd; exact Es].
Qed.

(* LoadRegionsInKeyRange *)
Lemma load_regions_in_range_closed : forall fuel t c s e acc r c' t',
  P c -> load_regions_in_range pd budget batch_limit fuel t c s e acc = (r, c', t') -> P c'.
Proof.
  induction fuel as [|f IH]; intros t c s e acc r c' t' Hc; cbn [load_regions_in_range]; [intros H; injection H as _ <- _; exact Hc|].
  destruct (batch_load_range pd budget (S f) t c s e batch_limit) as [[[regs|x] c1] t1] eqn:Eb;
    pose proof (batch_load_range_closed _ _ _ _ _ _ _ _ _ Hc Eb) as H1; [|intros H; injection H as _ <- _; exact H1].
  destruct (rev regs) as [|lastr rest]; [intros H; injection H as _ <- _; exact H1|].
  destruct (r_contains_end lastr e); [intros H; injection H as _ <- _; exact H1|]. apply IH. exact H1.
Qed.

(* LocateKeyRange *)
Lemma locate_key_range_closed : forall fuel t c s e acc r c' t',
  P c -> locate_key_range pd budget batch_limit fuel t c s e acc = (r, c', t') -> P c'.
Proof.
  induction fuel as [|f IH]; intros t c s e acc r c' t' Hc; cbn [locate_key_range]; [intros H; injection H as _ <- _; exact Hc|].
  destruct (cached_walk (S (length (c_sorted c))) c s e acc) as [res|s1 acc1|]; try (intros H; injection H as _ <- _; exact Hc).
  destruct (batch_load_ranges pd budget (S f) t c [(s1, e)] batch_limit true) as [[[regs|x] c1] t1] eqn:Eb;
    pose proof (batch_load_ranges_closed _ _ _ _ _ _ _ _ _ Hc Eb) as H1; [|intros H; injection H as _ <- _; exact H1].
  destruct (rev regs) as [|lastr rest]; [intros H; injection H as _ <- _; exact H1|].
  destruct (r_contains_end lastr e); [intros H; injection H as _ <- _; exact H1|]. apply IH. exact H1.
Qed.

(* BatchLocateKeyRanges *)
Lemma phase2_closed : forall fuel t c un m nl r c' t',
  P c -> phase2 pd budget batch_limit fuel t c un m nl = (r, c', t') -> P c'.
Proof.
  induction fuel as [|f IH]; intros t c un m nl r c' t' Hc; destruct un as [|u0 ut]; cbn [phase2]; try (intros H; injection H as _ <- _; exact Hc).
  destruct (batch_load_ranges pd budget (S f) t c (firstn (16 * batch_limit) (u0 :: ut)) batch_limit nl) as [[[regs|x] c1] t1] eqn:Eb;
    pose proof (batch_load_ranges_closed _ _ _ _ _ _ _ _ _ Hc Eb) as H1; [|intros H; injection H as _ <- _; exact H1].
  destruct (rev regs) as [|lastr rest]; [intros H; injection H as _ <- _; exact H1|]. apply IH. exact H1.
Qed.
Lemma batch_locate_closed fuel t c rs nl r c' t' : P c -> batch_locate pd budget batch_limit fuel t c rs nl = (r, c', t') -> P c'.
Proof.
  intros Hc. unfold batch_locate. destruct (phase1 batch_limit c rs None [] []) as [cs un].
  destruct (phase2 pd budget batch_limit fuel t c un (None, cs, []) nl) as [[[m|x] c1] t1] eqn:E2;
    pose proof (phase2_closed _ _ _ _ _ _ _ _ _ Hc E2) as H1; intros H; injection H as _ <- _; exact H1.
Qed.

(* GroupKeysByRegion, ListRegionIDsInKeyRange *)
Lemma group_assign_closed fuel : forall keys t c lastl acc r c' t',
  P c -> group_assign pd budget fuel t c keys lastl acc = (r, c', t') -> P c'.
Proof.
  induction keys as [|k rest IH]; intros t c lastl acc r c' t' Hc; cbn [group_assign]; [intros H; injection H as _ <- _; exact Hc|].
  destruct (match lastl with Some l => if r_contains l k then Some l else None | None => None end) as [l|]; [apply IH; exact Hc|].
  destruct (find_region_by_key pd budget fuel t c k false) as [[[x|x] c1] t1] eqn:Ef;
    pose proof (find_region_by_key_closed _ _ _ _ _ _ _ _ Hc Ef) as H1; [apply IH; exact H1|intros H; injection H as _ <- _; exact H1].
Qed.
Lemma list_region_ids_closed : forall fuel t c s e acc r c' t',
  P c -> list_region_ids pd budget fuel t c s e acc = (r, c', t') -> P c'.
Proof.
  induction fuel as [|f IH]; intros t c s e acc r c' t' Hc; cbn [list_region_ids]; [intros H; injection H as _ <- _; exact Hc|].
  destruct (find_region_by_key pd budget (S f) t c s false) as [[[x|x] c1] t1] eqn:Ef;
    pose proof (find_region_by_key_closed _ _ _ _ _ _ _ _ Hc Ef) as H1; [|intros H; injection H as _ <- _; exact H1].
  destruct (r_contains x e); [intros H; injection H as _ <- _; exact H1|]. apply IH. exact H1.
Qed.
End Closed.
