(* Region/ProofsTop.v — the proofs of the theorems of Props.v that need more than one lemma application, and the data /
   lemmas of its Examples. Statements identical to Props.v. *)
From Coq Require Import Permutation.
From Verif Require Import Base.Lex Region.Model Region.Ord Region.ProofsContains Region.ProofsGroup Region.ProofsInsert
  Region.ProofsMerge Region.ProofsGap Region.ProofsPhase1 Region.ProofsPhase2
  Region.Converge Region.ProofsConvA Region.ProofsConvB Region.ProofsConvC Region.PdCodec Region.ProofsBucket Region.Peers Region.ProofsBudget Region.ProofsLatest Region.ProofsApi Region.ProofsGc Region.InvCheck Region.ProofsClosed Region.ProofsReach.
Open Scope N_scope.

Lemma C09_contains_proof : forall pd budget fuel t c key is_end r c' t',
  pd_get_sound pd -> pd_prev_sound pd ->
  find_region_by_key pd budget fuel t c key is_end = (Ok r, c', t') ->
  (if is_end then r_contains_end r key else r_contains r key) = true.
Proof. intros pd budget fuel t c key is_end r c' t' H1 H2. exact (find_region_by_key_holds pd budget H1 H2 fuel t c key is_end r c' t'). Qed.
Definition f08_first := mkDesc 1 [] [98] 1 1 [(1, 1)] (1, 1) None.
Definition f08_last := mkDesc 2 [98] [] 1 1 [(2, 1)] (2, 1) None.
Definition f08_pd (t : nat) (q : pd_req) : pd_ans :=
  match q with
  | ReqGet k => PdOne (Some (if lex_ltb k [98] then f08_first else f08_last))
  | ReqPrev k => PdOne (Some f08_first)
  | ReqScan s _ _ => PdMany (if lex_ltb s [98] then [f08_first; f08_last] else [f08_last])
  | _ => PdOne None
  end.
Definition f08_warm : cache := insert_all empty_cache [new_region f08_first; new_region f08_last].
Lemma C09_contains_by_id_proof : forall pd budget t c id r c' t',
  pd_byid_sound pd -> locate_by_id pd budget t c id = (Ok r, c', t') -> r_id r = id.
Proof. intros pd budget t c id r c' t' H. exact (locate_by_id_id pd budget H t c id r c' t'). Qed.
Lemma C09_contains_try_proof : forall c key r, try_find c key false = Some r -> r_contains r key = true.
Proof. intros c key r H. exact (try_find_holds c key false r H). Qed.
Lemma C09_contains_by_id_from_pd_proof : forall pd budget t id r t',
  pd_byid_sound pd -> load_by_id pd budget t id = (Ok r, t') -> r_id r = id.
Proof. intros pd budget t id r t' H. exact (load_by_id_id pd budget H t id r t'). Qed.
Lemma C09_list_region_ids_chain_proof : forall pd budget fuel t c s e res c' t',
  pd_get_sound pd -> pd_prev_sound pd ->
  list_region_ids pd budget fuel t c s e [] = (Ok res, c', t') -> chain s e res.
Proof.
  intros pd budget fuel t c s e res c' t' H1 H2 H.
  destruct (list_region_ids_chain pd budget H1 H2 fuel t c s e [] res c' t' H) as [new [-> Hc]]. exact Hc.
Qed.
Lemma C09_range_gap_free_proof : forall pd budget batch_limit fuel t c rs need_leader locs c' t',
  sorted_starts (c_sorted c) -> ranges_wf rs -> (length rs <= 16 * batch_limit)%nat ->
  (need_leader = true -> pd_leaders pd) ->
  batch_locate pd budget batch_limit fuel t c rs need_leader = (Ok locs, c', t') ->
  forall s e k, In (s, e) rs -> in_range s e k -> exists l, In l locs /\ in_range (r_start l) (r_end l) k.
Proof.
  intros pd budget bl fuel t c rs nl locs c' t' Hs Hwf Hlen Hl H s e k Hin Hk.
  destruct (batch_locate_covers pd budget bl fuel t c rs nl locs c' t' Hs Hwf Hlen Hl H k) as [l [Hl1 Hl2]].
  - exists s, e. split; assumption.
  - exists l. split; [exact Hl1|]. apply r_contains_spec. exact Hl2.
Qed.
Lemma C09_range_gap_free_any_proof : forall pd budget batch_limit fuel t c rs need_leader locs c' t',
  sorted_starts (c_sorted c) -> ranges_wf rs -> (need_leader = true -> pd_leaders pd) -> pd_no_junk pd ->
  batch_locate pd budget batch_limit fuel t c rs need_leader = (Ok locs, c', t') ->
  forall s e k, In (s, e) rs -> in_range s e k -> exists l, In l locs /\ in_range (r_start l) (r_end l) k.
Proof.
  intros pd budget bl fuel t c rs nl locs c' t' Hs Hwf Hl Hj H s e k Hin Hk.
  destruct (batch_locate_covers_any pd budget bl fuel t c rs nl locs c' t' Hs Hwf Hl Hj H k) as [l [Hl1 Hl2]].
  - exists s, e. split; assumption.
  - exists l. split; [exact Hl1|]. apply r_contains_spec. exact Hl2.
Qed.
Lemma C09_key_range_gap_free_proof : forall pd budget batch_limit fuel t c s e locs c' t',
  pd_leaders pd ->
  locate_key_range pd budget batch_limit fuel t c s e [] = (Ok locs, c', t') ->
  forall k, in_range s e k -> exists l, In l locs /\ in_range (r_start l) (r_end l) k.
Proof.
  intros pd budget bl fuel t c s e locs c' t' Hl H k [Hk1 Hk2].
  destruct (locate_key_range_covers pd budget bl Hl s e fuel t c s [] locs c' t') with (k := k) as [l [Hl1 Hl2]]; try assumption.
  - intros k0 H1 _ H3. exfalso. apply leb_not_ltb in H1. congruence.
  - exists l. split; [exact Hl1|]. apply r_contains_spec. exact Hl2.
Qed.
Lemma C09_load_regions_gap_free_proof : forall pd budget batch_limit fuel t c s e regs c' t',
  pd_leaders pd ->
  load_regions_in_range pd budget batch_limit fuel t c s e [] = (Ok regs, c', t') ->
  forall k, in_range s e k -> exists l, In l regs /\ in_range (r_start l) (r_end l) k.
Proof.
  intros pd budget bl fuel t c s e regs c' t' Hl H k [Hk1 Hk2].
  destruct (load_regions_covers pd budget bl Hl s e fuel t c s [] regs c' t') with (k := k) as [l [Hl1 Hl2]]; try assumption.
  - intros k0 H1 _ H3. exfalso. apply leb_not_ltb in H1. congruence.
  - exists l. split; [exact Hl1|]. apply r_contains_spec. exact Hl2.
Qed.
Lemma C09_batch_load_covers_proof : forall pd budget fuel t c rs count nl regs c' t',
  rs <> [] -> ranges_wf rs -> (nl = true -> pd_leaders pd) ->
  batch_load_ranges pd budget fuel t c rs count nl = (Ok regs, c', t') ->
  forall k, in_ranges rs k ->
    covered regs k \/ (exists lastr x, rev regs = lastr :: x /\ r_end lastr <> [] /\ lex_leb (r_end lastr) k = true).
Proof. intros pd budget. exact (batch_load_ranges_covers pd budget). Qed.
Lemma C09_group_partition_proof : forall pd budget fuel t c keys asg c' t',
  pd_get_sound pd -> pd_prev_sound pd ->
  group_assign pd budget fuel t c keys None [] = (Ok asg, c', t') ->
  map fst asg = keys /\ (forall k r, In (k, r) asg -> r_contains r k = true) /\
  Permutation (concat (map snd (groups_of asg))) keys /\ NoDup (map fst (groups_of asg)) /\
  (forall v ks k, In (v, ks) (groups_of asg) -> In k ks -> exists r, In (k, r) asg /\ r_verid r = v /\ r_contains r k = true).
Proof.
  intros pd budget fuel t c keys asg c' t' H1 H2 H.
  destruct (group_assign_spec pd budget H1 H2 keys fuel t c None [] asg c' t' ltac:(intros kr []) H) as [Ha Hb]. cbn [map app] in Ha.
  destruct (groups_partition asg) as [Hp [Hn Hg]].
  split; [exact Ha|]. split; [intros k r Hin; exact (Hb (k, r) Hin)|]. split; [rewrite <- Ha; exact Hp|]. split; [exact Hn|].
  intros v ks k Hin Hk. destruct (Hg v ks k Hin Hk) as [r [Hr Hv]]. exists r. split; [exact Hr|]. split; [exact Hv|exact (Hb (k, r) Hr)].
Qed.
Lemma C09_converges_proof : forall truth cur_of pd budget fuel k T c,
  truth_wf truth ->
  (forall R, In R truth -> In R (cur_of R) /\ forall d, In d (cur_of R) -> In d truth) ->
  (forall t k T, In T truth -> tcontains T k = true -> pd t (ReqGet k) = PdOne (Some T)) ->
  (0 < budget)%nat -> (0 < fuel)%nat ->
  In T truth -> tcontains T k = true ->
  cinv truth c ->
  rounds truth cur_of pd budget fuel 4 c k = true.
Proof. intros truth cur_of pd budget fuel k T c H1 H2 H3 H4 H5 H6 H7 H8. exact (converges truth H1 cur_of H2 pd H3 budget fuel H4 H5 k T H6 H7 c H8). Qed.
Lemma C09_converges_served_proof : forall truth cur_of pd budget fuel k T c c',
  truth_wf truth ->
  (forall R, In R truth -> In R (cur_of R) /\ forall d, In d (cur_of R) -> In d truth) ->
  (forall t k T, In T truth -> tcontains T k = true -> pd t (ReqGet k) = PdOne (Some T)) ->
  (0 < budget)%nat -> (0 < fuel)%nat ->
  In T truth -> tcontains T k = true ->
  cinv truth c ->
  round truth cur_of pd budget fuel c k = (true, c') ->
  exists e, In e (c_sorted c') /\ r_verid e = d_verid T /\ r_contains e k = true /\
            store_reply truth cur_of (r_verid e) (d_leader T) = RepOk /\ nth (r_work e) (r_peers e) (0, 0) = d_leader T.
Proof. intros truth cur_of pd budget fuel k T c c' H1 H2 H3 H4 H5 H6 H7 H8. exact (round_served truth H1 cur_of H2 pd H3 budget fuel H4 H5 k T H6 H7 c c' H8). Qed.
Lemma C09_converges_composed_proof : forall truth cur_of pd budget fuel k T c inner,
  truth_wf truth ->
  (forall R, In R truth -> In R (cur_of R) /\ forall d, In d (cur_of R) -> In d truth) ->
  (forall t k T, In T truth -> tcontains T k = true -> pd t (ReqGet k) = PdOne (Some T)) ->
  (0 < budget)%nat -> (0 < fuel)%nat ->
  In T truth -> tcontains T k = true ->
  cinv truth c ->
  srounds truth cur_of pd budget fuel inner 4 0 c k = true.
Proof. intros truth cur_of pd budget fuel k T c inner H1 H2 H3 H4 H5 H6 H7 H8. exact (converges_composed truth H1 cur_of H2 pd H3 budget fuel H4 H5 k T H6 H7 inner c H8). Qed.
Lemma C09_converges_inv_insert_proof : forall truth c r T,
  truth_wf truth -> cinv truth c -> In T truth -> of_truth r T -> fresh r -> (r_work r < length (r_peers r))%nat ->
  length (r_sepochs r) = length (r_peers r) ->
  exists c' deleted, insert_region c r = (true, c') /\ cinv truth c' /\ c_sepochs c' = c_sepochs c /\ In (inherit r deleted) (c_sorted c') /\
    (forall x, In x (c_sorted c') -> x = inherit r deleted \/ In x (c_sorted c)).
Proof. intros truth c r T H. exact (insert_truth truth H c r T). Qed.
Lemma C09_inv_check_sound_proof : forall truth c hist,
  (truth_wfb truth = true -> truth_wf truth) /\ (cinvb truth c = true -> cinv truth c) /\
  (hist_okb truth hist = true -> hist_ok truth (fun d => In d hist)).
Proof. intros truth c hist. exact (conj (truth_wfb_sound truth) (conj (cinvb_sound truth c) (hist_okb_sound truth hist))). Qed.
Lemma C09_invariant_reachable_proof : forall truth H c,
  hist_ok truth H -> reach truth H c -> cinv truth c.
Proof. intros truth H c H2 H3. exact (proj1 (reach_rinv truth H H2 c H3)). Qed.
Lemma C09_converges_reachable_proof : forall truth H cur_of pd budget fuel k T c,
  truth_wf truth -> hist_ok truth H -> reach truth H c ->
  (forall R, In R truth -> In R (cur_of R) /\ forall d, In d (cur_of R) -> In d truth) ->
  (forall t k T, In T truth -> tcontains T k = true -> pd t (ReqGet k) = PdOne (Some T)) ->
  (0 < budget)%nat -> (0 < fuel)%nat ->
  In T truth -> tcontains T k = true ->
  rounds truth cur_of pd budget fuel 4 c k = true.
Proof.
  intros truth H cur_of pd budget fuel k T c H1 Hh Hr H2 H3 H4 H5 H6 H7.
  exact (converges truth H1 cur_of H2 pd H3 budget fuel H4 H5 k T H6 H7 c (proj1 (reach_rinv truth H Hh c Hr))).
Qed.
Lemma C09_contains_codec_proof : forall raw budget fuel t c key is_end r c' t',
  raw_get_sound raw -> raw_prev_sound raw ->
  find_region_by_key (codec_pd raw) budget fuel t c key is_end = (Ok r, c', t') ->
  (if is_end then r_contains_end r key else r_contains r key) = true.
Proof.
  intros raw budget fuel t c key is_end r c' t' H1 H2.
  exact (find_region_by_key_holds (codec_pd raw) budget (codec_get_sound raw H1) (codec_prev_sound raw H2) fuel t c key is_end r c' t').
Qed.
Lemma C09_contains_after_gc_proof : forall pd budget fuel t c key is_end r c' t',
  pd_get_sound pd -> pd_prev_sound pd ->
  find_region_by_key pd budget fuel t (gc c) key is_end = (Ok r, c', t') ->
  (if is_end then r_contains_end r key else r_contains r key) = true.
Proof. intros pd budget fuel t c. exact (C09_contains_proof pd budget fuel t (gc c)). Qed.
Definition ex_pd (t : nat) (q : pd_req) : pd_ans :=
  match q with
  | ReqBatch _ _ | ReqScan _ _ _ => PdMany [mkDesc 2 [98] [100] 3 1 [(2, 1)] (2, 1) None]
  | ReqGet k => f08_pd t q
  | _ => PdOne None
  end.
Definition ex_cache : cache := insert_all empty_cache
  [new_region (mkDesc 1 [] [98] 3 1 [(1, 1)] (1, 1) None); new_region (mkDesc 3 [100] [] 3 1 [(3, 1)] (3, 1) None)].
Definition ex_ranges : list range := [([97], [97; 1]); ([98], [99]); ([101], [102])].
Definition cv_R1 := mkDesc 1 [] [98] 2 1 [(1, 1); (2, 2)] (2, 2) None.
Definition cv_R2 := mkDesc 2 [98] [] 2 1 [(3, 1); (4, 2)] (3, 1) None.
Definition cv_truth := [cv_R1; cv_R2].
Definition cv_pd (t : nat) (q : pd_req) : pd_ans :=
  match q with ReqGet k => PdOne (Some (if lex_ltb k [98] then cv_R1 else cv_R2)) | _ => PdOne None end.
Definition cv_stale := mkRegion 1 [] [] 1 1 [(1, 1); (2, 2)] 0 false 0 false false false [0; 0] None.
Definition cv_cache := mkCache [cv_stale] [((1, 1, 1), [])] [(1, (1, 1))] [] [].
Definition cv_cache_failed := mkCache [cv_stale] [((1, 1, 1), [])] [(1, (1, 1))] [(1, 1)] [].
Lemma cv_truth_wf : truth_wf cv_truth.
Proof.
  constructor.
  - intros k. destruct (lex_ltb k [98]) eqn:E; [exists cv_R1|exists cv_R2]; (split; [cbn; tauto|]); apply contains_spec.
    + split; [apply leb_nil_l|right; exact E].
    + split; [apply ltb_false_leb; exact E|left; reflexivity].
  - intros T1 T2 k [<-|[<-|[]]] [<-|[<-|[]]] H1 H2; try reflexivity; exfalso;
      apply contains_spec in H1; apply contains_spec in H2; destruct H1 as [A B], H2 as [C D]; cbn [cv_R1 cv_R2 d_start d_end] in *;
      repeat match goal with H : _ \/ _ |- _ => destruct H as [H|H] end; try discriminate; unfold kle, klt in *;
      match goal with H1 : lex_leb ?a ?b = true, H2 : lex_ltb ?b ?a = true |- _ => apply leb_not_ltb in H1; congruence end.
  - intros T1 T2 [<-|[<-|[]]] [<-|[<-|[]]] H; try reflexivity; discriminate H.
  - intros T [<-|[<-|[]]]; [right; reflexivity|left; reflexivity].
  - intros T [<-|[<-|[]]]; cbn; tauto.
  - intros T [<-|[<-|[]]]; cbn; repeat constructor; cbn; intuition discriminate.
Qed.
Lemma cv_cache_inv : cinv cv_truth cv_cache.
Proof.
  constructor; cbn [cv_cache c_sorted c_regions c_latest].
  - repeat constructor.
  - intros x T [<-|[]] [<-|[<-|[]]] H; discriminate H.
  - intros x [<-|[]]. reflexivity.
  - intros x y [<-|[]] [<-|[]] _. reflexivity.
  - intros x T [<-|[]] [<-|[<-|[]]] _; cbn; lia.
  - intros T v cf [<-|[<-|[]]] H; cbn in H; [injection H as <- <-; cbn; lia|discriminate].
  - intros x T [<-|[]] [<-|[<-|[]]] H; [cbn; lia|discriminate H].
  - intros x [<-|[]]. repeat split; [left; reflexivity|discriminate|cbn; lia|intros H; exfalso; apply H; reflexivity].
  - intros x [<-|[]]. reflexivity.
  - intros T p _ _. reflexivity.
Qed.
Lemma cv_cache_failed_inv : cinv cv_truth cv_cache_failed.
Proof. destruct cv_cache_inv as [A B C D E F G H I J]. constructor; assumption. Qed.
Definition cv_stale7 := mkRegion 1 [] [] 1 1 [(1, 7); (2, 2)] 0 false 0 false false false [0; 0] None.
Definition cv_old := mkDesc 1 [] [] 1 1 [(1, 1); (2, 2)] (1, 1) None.
Definition cv_hist := [cv_old; cv_R1; cv_R2].
