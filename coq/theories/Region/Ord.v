(* Region/Ord.v — the lexicographic order on keys as a total order, in boolean form, and the
   range predicates (empty end key = +inf). *)
From Verif Require Import Base.Lex Region.Model.
Open Scope N_scope.

Definition kle (a b : bytes) : Prop := lex_leb a b = true.
Definition klt (a b : bytes) : Prop := lex_ltb a b = true.

Lemma leb_cmp a b : lex_leb a b = true <-> lex_cmp a b <> Gt.
Proof. unfold lex_leb; destruct (lex_cmp a b); split; congruence. Qed.
Lemma ltb_cmp a b : lex_ltb a b = true <-> lex_cmp a b = Lt.
Proof. unfold lex_ltb; destruct (lex_cmp a b); split; congruence. Qed.

Lemma lex_cmp_gt_lt a b : lex_cmp a b = Gt <-> lex_cmp b a = Lt.
Proof. rewrite (lex_cmp_antisym b a). destruct (lex_cmp b a); cbn; split; congruence. Qed.

Lemma leb_false_ltb a b : lex_leb a b = false <-> lex_ltb b a = true.
Proof.
  unfold lex_leb, lex_ltb. rewrite (lex_cmp_antisym a b). destruct (lex_cmp a b); cbn; split; congruence.
Qed.
Lemma ltb_false_leb a b : lex_ltb a b = false <-> lex_leb b a = true.
Proof.
  unfold lex_leb, lex_ltb. rewrite (lex_cmp_antisym a b). destruct (lex_cmp a b); cbn; split; congruence.
Qed.
Lemma leb_refl a : lex_leb a a = true.
Proof. unfold lex_leb; rewrite lex_cmp_refl; reflexivity. Qed.
Lemma ltb_irrefl a : lex_ltb a a = false.
Proof. unfold lex_ltb; rewrite lex_cmp_refl; reflexivity. Qed.
Lemma ltb_leb a b : lex_ltb a b = true -> lex_leb a b = true.
Proof. unfold lex_leb, lex_ltb; destruct (lex_cmp a b); congruence. Qed.
Lemma leb_nil_l a : lex_leb [] a = true.
Proof. destruct a; reflexivity. Qed.
Lemma ltb_nil_r a : lex_ltb a [] = false.
Proof. destruct a; reflexivity. Qed.
Lemma leb_nil_r a : lex_leb a [] = true -> a = [].
Proof. destruct a; [reflexivity|cbn; discriminate]. Qed.
Lemma ltb_nil_l a : a <> [] -> lex_ltb [] a = true.
Proof. destruct a; [congruence|reflexivity]. Qed.

Lemma leb_antisym a b : lex_leb a b = true -> lex_leb b a = true -> a = b.
Proof.
  unfold lex_leb. rewrite (lex_cmp_antisym a b). destruct (lex_cmp a b) eqn:E; cbn; try discriminate.
  intros _ _. apply lex_cmp_eq; exact E.
Qed.
Lemma leb_ltb_or_eq a b : lex_leb a b = true -> lex_ltb a b = true \/ a = b.
Proof.
  unfold lex_leb, lex_ltb. destruct (lex_cmp a b) eqn:E; try discriminate; intros _; [right; apply lex_cmp_eq; exact E|left; reflexivity].
Qed.

Lemma ltb_trans a b c : lex_ltb a b = true -> lex_ltb b c = true -> lex_ltb a c = true.
Proof. rewrite !ltb_cmp. apply lex_cmp_lt_trans. Qed.
Lemma leb_ltb_trans a b c : lex_leb a b = true -> lex_ltb b c = true -> lex_ltb a c = true.
Proof.
  intros H1 H2. destruct (leb_ltb_or_eq _ _ H1) as [H | ->]; [eapply ltb_trans; eassumption|exact H2].
Qed.
Lemma ltb_leb_trans a b c : lex_ltb a b = true -> lex_leb b c = true -> lex_ltb a c = true.
Proof.
  intros H1 H2. destruct (leb_ltb_or_eq _ _ H2) as [H | <-]; [eapply ltb_trans; eassumption|exact H1].
Qed.
Lemma leb_trans a b c : lex_leb a b = true -> lex_leb b c = true -> lex_leb a c = true.
Proof.
  intros H1 H2. destruct (leb_ltb_or_eq _ _ H1) as [H | ->]; [|exact H2].
  apply ltb_leb. eapply ltb_leb_trans; eassumption.
Qed.
Lemma leb_total a b : lex_leb a b = true \/ lex_ltb b a = true.
Proof. destruct (lex_leb a b) eqn:E; [left; reflexivity|right; apply leb_false_ltb; exact E]. Qed.
Lemma ltb_not_leb a b : lex_ltb a b = true -> lex_leb b a = false.
Proof. intros H. apply leb_false_ltb. exact H. Qed.
Lemma leb_not_ltb a b : lex_leb a b = true -> lex_ltb b a = false.
Proof. intros H. apply ltb_false_leb. exact H. Qed.

Lemma bytes_eqb_refl a : bytes_eqb a a = true.
Proof. apply bytes_eqb_eq; reflexivity. Qed.
Lemma bytes_eqb_neq a b : bytes_eqb a b = false <-> a <> b.
Proof. rewrite <- bytes_eqb_eq. destruct (bytes_eqb a b); split; congruence. Qed.

Lemma is_nil_true {A} (l : list A) : is_nil l = true <-> l = [].
Proof. destruct l; cbn; split; congruence. Qed.
Lemma is_nil_false {A} (l : list A) : is_nil l = false <-> l <> [].
Proof. destruct l; cbn; split; congruence. Qed.

(* ---- ranges, Prop form: [in_range s e k] <-> s <= k /\ (e = [] \/ k < e) ---- *)
Definition in_range (s e k : bytes) : Prop := kle s k /\ (e = [] \/ klt k e).
Definition in_range_end (s e k : bytes) : Prop :=
  (k = [] /\ e = []) \/ (k <> [] /\ klt s k /\ (e = [] \/ kle k e)).

Lemma contains_spec s e k : contains s e k = true <-> in_range s e k.
Proof.
  unfold contains, in_range, kle, klt. rewrite andb_true_iff, orb_true_iff, is_nil_true. tauto.
Qed.
Lemma contains_by_end_spec s e k : contains_by_end s e k = true <-> in_range_end s e k.
Proof.
  unfold contains_by_end, in_range_end, kle, klt. destruct k as [|x k]; cbn [is_nil].
  - rewrite is_nil_true. split; [intros ->; left; split; reflexivity|intros [[_ H]|[H _]]; congruence].
  - rewrite andb_true_iff, orb_true_iff, is_nil_true. split.
    + intros [H1 H2]; right; split; [discriminate|]. split; [exact H1|tauto].
    + intros [[H _]|[_ [H1 H2]]]; [discriminate|]. split; [exact H1|tauto].
Qed.

Lemma verid_eqb_eq (a b : verid) : verid_eqb a b = true <-> a = b.
Proof.
  destruct a as [[i v] c], b as [[i' v'] c']; cbn [verid_eqb].
  rewrite !andb_true_iff, !N.eqb_eq. split; [intros [[-> ->] ->]; reflexivity|intros H; injection H; auto].
Qed.
Lemma verid_eqb_refl a : verid_eqb a a = true.
Proof. apply verid_eqb_eq; reflexivity. Qed.
Lemma peer_eqb_eq (a b : peer) : peer_eqb a b = true <-> a = b.
Proof.
  destruct a, b; unfold peer_eqb; cbn [fst snd]. rewrite andb_true_iff, !N.eqb_eq.
  split; [intros [-> ->]; reflexivity|intros H; injection H; auto].
Qed.
