(* Region/PdCodec.v — pd_codec.go in txn mode: region keys travel memcomparable-encoded (util/codec EncodeBytes,
   the model of property C19); requests are encoded, region boundaries of answers decoded (an empty boundary stays
   empty). [codec_pd raw] is the PD oracle the cache sees when [raw] is the PD behind CodecPDClient. *)
From Verif Require Import Base.Lex Codec.Model Codec.ProofsBytes Region.Model Region.Ord Region.ProofsContains.
Open Scope N_scope.

Definition enc_range (r : range) : range := (encode_bytes (fst r), if is_nil (snd r) then [] else encode_bytes (snd r)).
Definition dec_key (b : bytes) : option bytes :=
  if is_nil b then Some [] else match decode_bytes b with Some (_, x) => Some x | None => None end.
Fixpoint dec_keys (l : list bytes) : option (list bytes) :=
  match l with
  | [] => Some []
  | k :: t => match dec_key k, dec_keys t with Some k', Some t' => Some (k' :: t') | _, _ => None end
  end.
Definition dec_bk (b : option (N * list bytes)) : option (option (N * list bytes)) :=
  match b with
  | None => Some None
  | Some (v, ks) => match dec_keys ks with Some ks' => Some (Some (v, ks')) | None => None end
  end.
Definition dec_desc (d : desc) : option desc :=
  match dec_key (d_start d), dec_key (d_end d), dec_bk (d_bk d) with
  | Some s, Some e, Some b => Some (mkDesc (d_id d) s e (d_ver d) (d_conf d) (d_peers d) (d_leader d) b)
  | _, _, _ => None
  end.
Fixpoint dec_descs (l : list desc) : option (list desc) :=
  match l with
  | [] => Some []
  | d :: t => match dec_desc d, dec_descs t with Some d', Some t' => Some (d' :: t') | _, _ => None end
  end.
Definition enc_req (q : pd_req) : pd_req :=
  match q with
  | ReqGet k => ReqGet (encode_bytes k)
  | ReqPrev k => ReqPrev (encode_bytes k)
  | ReqById id => ReqById id
  | ReqScan s e l => ReqScan (fst (enc_range (s, e))) (snd (enc_range (s, e))) l
  | ReqBatch rs l => ReqBatch (map enc_range rs) l
  end.
(* a boundary that does not decode makes the call fail: rendered as an answer of the wrong shape (the model's Err 4) *)
Definition codec_pd (raw : nat -> pd_req -> pd_ans) (t : nat) (q : pd_req) : pd_ans :=
  match raw t (enc_req q) with
  | PdOne None => PdOne None
  | PdOne (Some d) => match dec_desc d with Some d' => PdOne (Some d') | None => PdMany [] end
  | PdMany l => match dec_descs l with Some l' => PdMany l' | None => PdOne None end
  end.

(* PD's region boundaries are encoded keys (or empty) *)
Definition enc_bound (b : bytes) : Prop := b = [] \/ exists x, b = encode_bytes x.
(* an end boundary is never the encoding of the empty key (decoded it would read as +inf) *)
Definition enc_bound_end (b : bytes) : Prop := b = [] \/ exists x, x <> [] /\ b = encode_bytes x.

Lemma encode_bytes_not_nil x : encode_bytes x <> [].
Proof.
  intros H. pose proof (decode_encode_bytes x []) as D. rewrite app_nil_r, H in D.
  assert (E : decode_bytes [] = None) by reflexivity. congruence.
Qed.
Lemma dec_key_enc x : dec_key (encode_bytes x) = Some x.
Proof.
  unfold dec_key. destruct (is_nil (encode_bytes x)) eqn:E; [apply is_nil_true in E; exfalso; exact (encode_bytes_not_nil x E)|].
  pose proof (decode_encode_bytes x []) as D. rewrite app_nil_r in D. rewrite D. reflexivity.
Qed.
Lemma enc_leb a b : lex_leb (encode_bytes a) (encode_bytes b) = lex_leb a b.
Proof. unfold lex_leb. rewrite encode_bytes_order. reflexivity. Qed.
Lemma enc_ltb a b : lex_ltb (encode_bytes a) (encode_bytes b) = lex_ltb a b.
Proof. unfold lex_ltb. rewrite encode_bytes_order. reflexivity. Qed.

(* decoding preserves containment: a region that holds the encoded key holds, once decoded, the key *)
Lemma dec_contains s e k s' e' :
  enc_bound s -> enc_bound_end e -> dec_key s = Some s' -> dec_key e = Some e' ->
  contains s e (encode_bytes k) = contains s' e' k.
Proof.
  intros Hs He Ds De. unfold contains.
  assert (H1 : lex_leb s (encode_bytes k) = lex_leb s' k).
  { destruct Hs as [->|[x ->]]; [cbn in Ds; injection Ds as <-; rewrite !leb_nil_l; reflexivity|]. rewrite dec_key_enc in Ds. injection Ds as <-. apply enc_leb. }
  assert (H2 : lex_ltb (encode_bytes k) e || is_nil e = lex_ltb k e' || is_nil e').
  { destruct He as [->|[x [Hx ->]]]; [cbn in De; injection De as <-; rewrite !ltb_nil_r; reflexivity|]. rewrite dec_key_enc in De. injection De as <-.
    rewrite enc_ltb. destruct (is_nil (encode_bytes x)) eqn:E; [apply is_nil_true in E; exfalso; exact (encode_bytes_not_nil x E)|].
    destruct x; [congruence|reflexivity]. }
  rewrite H1, H2. reflexivity.
Qed.
Lemma dec_contains_end s e k s' e' : k <> [] ->
  enc_bound s -> enc_bound_end e -> dec_key s = Some s' -> dec_key e = Some e' ->
  contains_by_end s e (encode_bytes k) = contains_by_end s' e' k.
Proof.
  intros Hk Hs He Ds De. unfold contains_by_end.
  destruct (is_nil (encode_bytes k)) eqn:E; [apply is_nil_true in E; exfalso; exact (encode_bytes_not_nil k E)|].
  destruct k as [|b k']; [congruence|]. cbn [is_nil].
  assert (H1 : lex_ltb s (encode_bytes (b :: k')) = lex_ltb s' (b :: k')).
  { destruct Hs as [->|[x ->]]; [cbn in Ds; injection Ds as <-|rewrite dec_key_enc in Ds; injection Ds as <-; apply enc_ltb].
    rewrite !ltb_nil_l; [reflexivity|discriminate|apply encode_bytes_not_nil]. }
  assert (H2 : lex_leb (encode_bytes (b :: k')) e || is_nil e = lex_leb (b :: k') e' || is_nil e').
  { destruct He as [->|[x [Hx ->]]]; [cbn in De; injection De as <-; rewrite !orb_true_r; reflexivity|]. rewrite dec_key_enc in De. injection De as <-.
    rewrite enc_leb. destruct (is_nil (encode_bytes x)) eqn:E2; [apply is_nil_true in E2; exfalso; exact (encode_bytes_not_nil x E2)|].
    destruct x; [congruence|reflexivity]. }
  rewrite H1, H2. reflexivity.
Qed.

(* C09_contains through the codec: if the PD behind CodecPDClient answers "region of (encoded) k" with a region whose
   (encoded) range holds the encoded key, the cache sees a PD that is sound for k *)
Definition raw_get_sound (raw : nat -> pd_req -> pd_ans) : Prop :=
  forall t k d, raw t (ReqGet (encode_bytes k)) = PdOne (Some d) ->
    enc_bound (d_start d) /\ enc_bound_end (d_end d) /\ contains (d_start d) (d_end d) (encode_bytes k) = true.
Definition raw_prev_sound (raw : nat -> pd_req -> pd_ans) : Prop :=
  forall t k d, k <> [] -> raw t (ReqPrev (encode_bytes k)) = PdOne (Some d) ->
    enc_bound (d_start d) /\ enc_bound_end (d_end d) /\ contains_by_end (d_start d) (d_end d) (encode_bytes k) = true.

Lemma codec_pd_one raw t q d' : codec_pd raw t q = PdOne (Some d') ->
  exists d, raw t (enc_req q) = PdOne (Some d) /\ dec_desc d = Some d'.
Proof.
  unfold codec_pd. destruct (raw t (enc_req q)) as [[d|]|l]; [| discriminate |destruct (dec_descs l); discriminate].
  destruct (dec_desc d) as [d1|] eqn:E; [|discriminate]. intros H; injection H as <-. exists d. split; [reflexivity|exact E].
Qed.
Lemma codec_get_sound raw : raw_get_sound raw -> pd_get_sound (codec_pd raw).
Proof.
  intros H t k d' Hc. destruct (codec_pd_one raw t (ReqGet k) d' Hc) as [d [Hr Hd]]. cbn [enc_req] in Hr.
  destruct (H t k d Hr) as [B1 [B2 C]]. unfold dec_desc in Hd.
  destruct (dec_key (d_start d)) as [s|] eqn:Es; [|discriminate]. destruct (dec_key (d_end d)) as [e|] eqn:Ee; [|discriminate].
  destruct (dec_bk (d_bk d)) as [b|]; [|discriminate]. injection Hd as <-. cbn [d_start d_end]. rewrite <- (dec_contains _ _ k s e B1 B2 Es Ee). exact C.
Qed.
Lemma codec_prev_sound raw : raw_prev_sound raw -> pd_prev_sound (codec_pd raw).
Proof.
  intros H t k d' Hk Hc. destruct (codec_pd_one raw t (ReqPrev k) d' Hc) as [d [Hr Hd]]. cbn [enc_req] in Hr.
  destruct (H t k d Hk Hr) as [B1 [B2 C]]. unfold dec_desc in Hd.
  destruct (dec_key (d_start d)) as [s|] eqn:Es; [|discriminate]. destruct (dec_key (d_end d)) as [e|] eqn:Ee; [|discriminate].
  destruct (dec_bk (d_bk d)) as [b|]; [|discriminate]. injection Hd as <-. cbn [d_start d_end]. rewrite <- (dec_contains_end _ _ k s e Hk B1 B2 Es Ee). exact C.
Qed.
