(* Region/ProofsConvB.v — the cache invariant of the convergence proof (relative to a fixed ground truth) and its
   preservation: inserting a current region always succeeds and keeps it, in-place entry updates keep it. *)
From Coq Require Import Sorting.Sorted.
From Verif Require Import Base.Lex Region.Model Region.Ord Region.ProofsContains Region.ProofsInsert Region.ProofsMerge
  Region.ProofsPhase1 Region.Converge Region.ProofsConvA.
Open Scope N_scope.

(* the ground truth: a partition of the key space into regions with distinct ids, each led by one of its peers,
   at most one peer per store *)
Record truth_wf (truth : list desc) : Prop := {
  tw_cover : forall k, exists T, In T truth /\ tcontains T k = true;
  tw_disjoint : forall T1 T2 k, In T1 truth -> In T2 truth -> tcontains T1 k = true -> tcontains T2 k = true -> T1 = T2;
  tw_ids : forall T1 T2, In T1 truth -> In T2 truth -> d_id T1 = d_id T2 -> T1 = T2;
  tw_nonempty : forall T, In T truth -> d_end T = [] \/ lex_ltb (d_start T) (d_end T) = true;
  tw_leader : forall T, In T truth -> In (d_leader T) (d_peers T);
  tw_stores : forall T, In T truth -> NoDup (map snd (d_peers T)) }.

Definition of_truth (r : region) (T : desc) : Prop :=
  r_id r = d_id T /\ r_start r = d_start T /\ r_end r = d_end T /\ r_ver r = d_ver T /\ r_conf r = d_conf T /\ r_peers r = d_peers T.
Definition entry_ok (x : region) : Prop :=
  nonempty_range x /\ r_peers x <> [] /\ (r_work x < length (r_peers x))%nat /\ (r_reason x <> 0 -> r_expired x = true).

Section Inv.
Variable truth : list desc.
Hypothesis Htw : truth_wf truth.

Record cinv (c : cache) : Prop := {
  ci_sorted : sorted_starts (c_sorted c);
  (* an entry that carries the version of a current region is that region *)
  ci_hist : forall x T, In x (c_sorted c) -> In T truth -> r_verid x = d_verid T ->
              r_start x = d_start T /\ r_end x = d_end T /\ r_peers x = d_peers T;
  ci_addr : forall x, In x (c_sorted c) -> reg_get (r_verid x) (c_regions c) = Some (r_start x);
  ci_uniq : forall x y, In x (c_sorted c) -> In y (c_sorted c) -> r_verid x = r_verid y -> x = y;
  (* epochs behave as in TiKV: nothing cached is newer than the current region over the same keys / with the same id *)
  ci_dom_start : forall x T, In x (c_sorted c) -> In T truth -> tcontains T (r_start x) = true -> r_ver x <= d_ver T;
  ci_dom_lat : forall T v cf, In T truth -> lat_get (d_id T) (c_latest c) = Some (v, cf) -> v <= d_ver T /\ cf <= d_conf T;
  ci_dom_id : forall x T, In x (c_sorted c) -> In T truth -> r_id x = d_id T -> r_ver x <= d_ver T /\ r_conf x <= d_conf T;
  ci_ok : forall x, In x (c_sorted c) -> entry_ok x;
  ci_len : forall x, In x (c_sorted c) -> length (r_sepochs x) = length (r_peers x);
  (* no current peer sits on a store the cache knows to be a tombstone *)
  ci_tomb : forall T p, In T truth -> In p (d_peers T) -> existsb (N.eqb (snd p)) (c_tomb c) = false }.

Lemma T_contains_start T : In T truth -> tcontains T (d_start T) = true.
Proof. intros H. apply contains_spec. split; [apply leb_refl|]. destruct (tw_nonempty _ Htw T H) as [E|E]; [left|right]; exact E. Qed.
Lemma verid_T_eq T1 T2 : In T1 truth -> In T2 truth -> d_verid T1 = d_verid T2 -> T1 = T2.
Proof. intros H1 H2 H. apply (tw_ids _ Htw); try assumption. unfold d_verid in H. congruence. Qed.

Lemma find_first_unique {A} (p : A -> bool) l x : In x l -> p x = true -> (forall y, In y l -> p y = true -> y = x) -> find p l = Some x.
Proof.
  intros Hin Hp Hu. destruct (find p l) as [y|] eqn:E.
  - apply find_some in E. f_equal. apply Hu; tauto.
  - exfalso. pose proof (find_none _ _ E x Hin). congruence.
Qed.
Lemma get_by_verid_in c x : cinv c -> In x (c_sorted c) -> get_by_verid c (r_verid x) = Some x.
Proof.
  intros Hc Hx. unfold get_by_verid. rewrite (ci_addr c Hc x Hx). unfold entry_at.
  apply find_first_unique; [exact Hx|rewrite bytes_eqb_refl, verid_eqb_refl; reflexivity|].
  intros y Hy Hp. apply andb_true_iff in Hp. destruct Hp as [Hp _]. apply bytes_eqb_eq in Hp.
  eapply sorted_in_eq; [apply (ci_sorted c Hc)|exact Hy|exact Hx|exact Hp].
Qed.

(* ---- by-version map under deletions ---- *)
Lemma reg_get_del v w l : reg_get v (reg_del w l) = if verid_eqb w v then None else reg_get v l.
Proof.
  unfold reg_del. induction l as [|[u s] t IH]; cbn [filter reg_get fst]; [destruct (verid_eqb w v); reflexivity|].
  destruct (verid_eqb u w) eqn:E1; cbn [negb].
  - apply verid_eqb_eq in E1; subst u. rewrite IH. destruct (verid_eqb w v); reflexivity.
  - cbn [reg_get]. rewrite IH. destruct (verid_eqb u v) eqn:E2; [|reflexivity]. apply verid_eqb_eq in E2; subst u.
    destruct (verid_eqb w v) eqn:E3; [|reflexivity]. apply verid_eqb_eq in E3; subst w. rewrite verid_eqb_refl in E1. discriminate.
Qed.
Lemma reg_get_set v w s l : reg_get v (reg_set w s l) = if verid_eqb w v then Some s else reg_get v l.
Proof. unfold reg_set. cbn [reg_get]. destruct (verid_eqb w v) eqn:E; [reflexivity|]. rewrite reg_get_del, E. reflexivity. Qed.
Lemma fold_remove_regs v : forall deleted acc, (forall d, In d deleted -> r_verid d <> v) ->
  reg_get v (fst (fold_left rm_step deleted acc)) = reg_get v (fst acc).
Proof.
  induction deleted as [|d t IH]; intros acc H; [reflexivity|]. cbn [fold_left]. rewrite IH; [|intros d' Hd'; apply H; right; exact Hd'].
  unfold rm_step, remove_version. destruct (r_verid d) as [[i ver] conf] eqn:Ev.
  assert (Hne : verid_eqb (i, ver, conf) v = false).
  { destruct (verid_eqb (i, ver, conf) v) eqn:E; [|reflexivity]. apply verid_eqb_eq in E. exfalso. apply (H d); [left; reflexivity|congruence]. }
  cbn [fst]. rewrite reg_get_del, Hne. reflexivity.
Qed.

(* ---- inserting a current region ---- *)
Lemma scan_not_stale r : forall l, (forall x, In x l -> starts_in r x -> r_ver x <= r_ver r) ->
  (forall x, In x l -> lex_leb (r_start r) (r_start x) = true) -> snd (scan_inter r l) = false.
Proof.
  induction l as [|x t IH]; intros H1 H2; [reflexivity|]. cbn [scan_inter].
  destruct (negb (is_nil (r_end r)) && lex_leb (r_end r) (r_start x)) eqn:Es; [reflexivity|].
  assert (Hin : starts_in r x).
  { split; [apply H2; left; reflexivity|]. apply andb_false_iff in Es. destruct Es as [Es|Es].
    - left. apply negb_false_iff, is_nil_true in Es. exact Es.
    - right. apply leb_false_ltb. exact Es. }
  pose proof (H1 x (or_introl eq_refl) Hin) as Hv.
  replace (r_ver r <? r_ver x) with false by (symmetry; apply N.ltb_ge; exact Hv).
  assert (IH' : snd (scan_inter r t) = false) by (apply IH; [intros y Hy; apply H1; right; exact Hy|intros y Hy; apply H2; right; exact Hy]).
  destruct (scan_inter r t) as [d s]. exact IH'.
Qed.

Definition fresh (r : region) : Prop := r_expired r = false /\ r_reason r = 0 /\ r_reload r = false /\ r_ready r = false.

Lemma starts_in_T r T x : of_truth r T -> starts_in r x -> tcontains T (r_start x) = true.
Proof.
  intros [_ [Hs [He _]]] [H1 H2]. apply contains_spec. rewrite <- Hs, <- He. split; [exact H1|exact H2].
Qed.

Lemma insert_truth c r T :
  cinv c -> In T truth -> of_truth r T -> fresh r -> (r_work r < length (r_peers r))%nat -> length (r_sepochs r) = length (r_peers r) ->
  exists c' deleted, insert_region c r = (true, c') /\ cinv c' /\ c_sepochs c' = c_sepochs c /\
     In (inherit r deleted) (c_sorted c') /\
     (forall x, In x (c_sorted c') -> x = inherit r deleted \/ In x (c_sorted c)).
Proof.
  intros Hc HT Hof Hfr Hw Hlen. pose proof Hof as [Hid [Hst [Hen [Hve [Hco Hpe]]]]].
  assert (Hne : nonempty_range r) by (unfold nonempty_range; rewrite Hst, Hen; apply (tw_nonempty _ Htw T HT)).
  assert (Hacc : fst (insert_region c r) = true).
  { rewrite insert_region_unfold. unfold stale_by_latest. rewrite Hid.
    destruct (lat_get (d_id T) (c_latest c)) as [[ov oc]|] eqn:El.
    - destruct (ci_dom_lat c Hc T ov oc HT El) as [Ha Hb]. rewrite Hve, Hco.
      replace (d_ver T <? ov) with false by (symmetry; apply N.ltb_ge; exact Ha).
      replace (d_conf T <? oc) with false by (symmetry; apply N.ltb_ge; exact Hb). cbn [orb].
      unfold remove_intersecting.
      assert (Hns : snd (scan_inter r (hi_part r (c_sorted c))) = false).
      { apply scan_not_stale.
        - intros x Hx Hin. apply filter_In in Hx. destruct Hx as [Hx _]. rewrite Hve. apply (ci_dom_start c Hc x T Hx HT). eapply starts_in_T; eassumption.
        - intros x Hx. apply filter_In in Hx. destruct Hx as [_ Hx]. apply negb_true_iff in Hx. apply ltb_false_leb. exact Hx. }
      destruct (scan_inter r (hi_part r (c_sorted c))) as [d s]. cbn [snd] in Hns. subst s. reflexivity.
    - unfold remove_intersecting.
      assert (Hns : snd (scan_inter r (hi_part r (c_sorted c))) = false).
      { apply scan_not_stale.
        - intros x Hx Hin. apply filter_In in Hx. destruct Hx as [Hx _]. rewrite Hve. apply (ci_dom_start c Hc x T Hx HT). eapply starts_in_T; eassumption.
        - intros x Hx. apply filter_In in Hx. destruct Hx as [_ Hx]. apply negb_true_iff in Hx. apply ltb_false_leb. exact Hx. }
      destruct (scan_inter r (hi_part r (c_sorted c))) as [d s]. cbn [snd] in Hns. subst s. reflexivity. }
  destruct (insert_region c r) as [ok c'] eqn:Ei. cbn [fst] in Hacc. subst ok.
  destruct (insert_accepted c r c' (ci_sorted c Hc) Hne Ei) as [deleted [H1 [H2 [H3 [H4 [H5 H6]]]]]]. cbv zeta in *.
  exists c', deleted. split; [reflexivity|].
  set (r1 := inherit r deleted) in *.
  destruct (inherit_same r deleted) as [I1 [I2 [I3 [I4 [I5 [I6 [I7 [I8 [I9 I10]]]]]]]]]. fold r1 in I1, I2, I3, I4, I5, I6, I7, I8, I9, I10.
  assert (Hv1 : r_verid r1 = d_verid T) by (unfold r_verid, d_verid; congruence).
  (* an old entry that is kept does not carry T's version *)
  assert (Hkeepv : forall x, In x (c_sorted c) -> ~ starts_in r x -> r_verid x <> d_verid T).
  { intros x Hx Hn Hv. destruct (ci_hist c Hc x T Hx HT Hv) as [Ha _]. apply Hn. unfold starts_in. rewrite Ha, Hst. split; [apply leb_refl|].
    rewrite Hen. apply (tw_nonempty _ Htw T HT). }
  assert (Hse : c_sepochs c' = c_sepochs c).
  { clear - Ei. rewrite insert_region_unfold in Ei. destruct (stale_by_latest c r); [discriminate|].
    destruct (remove_intersecting r (c_sorted c)) as [[l1 dl] st]. destruct st; [discriminate|]. cbv zeta in Ei. injection Ei as <-. reflexivity. }
  assert (Htb : c_tomb c' = c_tomb c).
  { clear - Ei. rewrite insert_region_unfold in Ei. destruct (stale_by_latest c r); [discriminate|].
    destruct (remove_intersecting r (c_sorted c)) as [[l1 dl] st]. destruct st; [discriminate|]. cbv zeta in Ei. injection Ei as <-. reflexivity. }
  split; [|split; [exact Hse|split; [apply H3; left; reflexivity|intros x Hx; apply H3 in Hx; destruct Hx as [Hx|[Hx _]]; [left|right]; exact Hx]]].
  constructor.
  - exact H6.
  - intros x T' Hx HT' Hv. apply H3 in Hx. destruct Hx as [->|[Hx _]]; [|apply (ci_hist c Hc x T' Hx HT' Hv)].
    assert (T' = T) by (apply verid_T_eq; [exact HT'|exact HT|congruence]). subst T'. repeat split; congruence.
  - intros x Hx. apply H3 in Hx. rewrite H4, reg_get_set. destruct Hx as [->|[Hx Hn]]; [rewrite verid_eqb_refl; reflexivity|].
    destruct (verid_eqb (r_verid r1) (r_verid x)) eqn:E.
    { exfalso. apply verid_eqb_eq in E. apply (Hkeepv x Hx Hn). congruence. }
    rewrite fold_remove_regs; [apply (ci_addr c Hc x Hx)|].
    intros d Hd Hv. apply H1 in Hd. destruct Hd as [Hd Hin]. assert (d = x) by (apply (ci_uniq c Hc); assumption). subst d. contradiction.
  - intros x y Hx Hy Hv. apply H3 in Hx. apply H3 in Hy. destruct Hx as [->|[Hx Hnx]], Hy as [->|[Hy Hny]]; [reflexivity| | |apply (ci_uniq c Hc); assumption].
    + exfalso. apply (Hkeepv y Hy Hny). congruence.
    + exfalso. apply (Hkeepv x Hx Hnx). congruence.
  - intros x T' Hx HT' Hc'. apply H3 in Hx. destruct Hx as [->|[Hx _]]; [|apply (ci_dom_start c Hc x T' Hx HT' Hc')].
    rewrite I2, Hst in Hc'. assert (T' = T) by (apply (tw_disjoint _ Htw T' T (d_start T)); [exact HT'|exact HT|exact Hc'|apply T_contains_start; exact HT]).
    subst T'. rewrite I4, Hve. lia.
  - intros T' v cf HT' Hl. rewrite H5, lat_get_set in Hl. destruct (d_id T' =? r_id r1) eqn:E.
    + apply N.eqb_eq in E. assert (T' = T) by (apply (tw_ids _ Htw); [exact HT'|exact HT|congruence]). subst T'.
      injection Hl as <- <-. rewrite I4, I5, Hve, Hco. lia.
    + apply fold_remove_latest in Hl. cbn [snd] in Hl. apply (ci_dom_lat c Hc T' v cf HT' Hl).
  - intros x T' Hx HT' Hi. apply H3 in Hx. destruct Hx as [->|[Hx _]]; [|apply (ci_dom_id c Hc x T' Hx HT' Hi)].
    assert (T' = T) by (apply (tw_ids _ Htw); [exact HT'|exact HT|congruence]). subst T'. rewrite I4, I5, Hve, Hco. lia.
  - intros x Hx. apply H3 in Hx. destruct Hx as [->|[Hx _]]; [|apply (ci_ok c Hc x Hx)].
    destruct Hfr as [F1 [F2 [F3 F4]]].
    assert (Hpn : r_peers r <> []) by (rewrite Hpe; intros E; pose proof (tw_leader _ Htw T HT) as Hl; rewrite E in Hl; destruct Hl).
    split; [unfold nonempty_range; rewrite I2, I3; exact Hne|]. split; [rewrite I6; exact Hpn|]. split.
    + rewrite I6. unfold r1, inherit, with_work. destruct deleted as [|old t]; [exact Hw|]. destruct (r_reason old =? 1); [|exact Hw].
      cbn [r_work]. apply Nat.mod_upper_bound. destruct (r_peers r); [congruence|discriminate].
    + rewrite I10, F2. congruence.
  - intros x Hx. apply H3 in Hx. destruct Hx as [->|[Hx _]]; [|apply (ci_len c Hc x Hx)].
    rewrite I6. unfold r1, inherit, with_work. destruct deleted as [|old t]; [exact Hlen|]. destruct (r_reason old =? 1); exact Hlen.
  - intros T' p HT' Hp. rewrite Htb. apply (ci_tomb c Hc T' p HT' Hp).
Qed.

(* ---- updating an entry in place ---- *)
Lemma upd_entry_inv c r f :
  cinv c -> In r (c_sorted c) -> same_shape f -> entry_ok (f r) -> length (r_sepochs (f r)) = length (r_peers (f r)) ->
  cinv (upd_entry c r f) /\
  (forall y, In y (c_sorted (upd_entry c r f)) <-> y = f r \/ (In y (c_sorted c) /\ y <> r)).
Proof.
  intros Hc Hr Hf Hok Hlen. pose proof (upd_fun_shape r f Hf) as Hg. pose proof (ci_sorted c Hc) as Hs.
  assert (Hmem : forall y, In y (c_sorted (upd_entry c r f)) <-> y = f r \/ (In y (c_sorted c) /\ y <> r)).
  { intros y. rewrite upd_entry_sorted, in_map_iff. split.
    - intros [x [<- Hx]].
      assert (Hdec : x = r \/ x <> r).
      { destruct (bytes_eqb (r_start x) (r_start r)) eqn:E.
        - left. apply bytes_eqb_eq in E. eapply sorted_in_eq; eassumption.
        - right. intros ->. rewrite bytes_eqb_refl in E. discriminate. }
      destruct Hdec as [->|Hne].
      + left. apply upd_fun_self.
      + right. rewrite (upd_fun_other _ r f x Hs Hr Hx Hne). split; assumption.
    - intros [->|[Hy Hne]]; [exists r; split; [apply upd_fun_self|exact Hr]|exists y; split; [apply (upd_fun_other _ r f y Hs Hr Hy Hne)|exact Hy]]. }
  split; [|exact Hmem].
  (* every element of the new index is the image of an old one with the same shape *)
  assert (Hpre : forall y, In y (c_sorted (upd_entry c r f)) -> exists x, In x (c_sorted c) /\ y = upd_fun r f x).
  { intros y Hy. rewrite upd_entry_sorted in Hy. apply in_map_iff in Hy. destruct Hy as [x [<- Hx]]. exists x. split; [exact Hx|reflexivity]. }
  constructor.
  - rewrite upd_entry_sorted. apply map_sorted; assumption.
  - intros y T Hy HT Hv. destruct (Hpre y Hy) as [x [Hx ->]]. rewrite (shape_verid _ x Hg) in Hv.
    destruct (Hg x) as [_ [-> [-> [_ [_ ->]]]]]. apply (ci_hist c Hc x T Hx HT Hv).
  - intros y Hy. destruct (Hpre y Hy) as [x [Hx ->]]. rewrite (shape_verid _ x Hg). destruct (Hg x) as [_ [-> _]]. apply (ci_addr c Hc x Hx).
  - intros y z Hy Hz Hv. destruct (Hpre y Hy) as [x [Hx ->]]. destruct (Hpre z Hz) as [x' [Hx' ->]].
    rewrite !(shape_verid _ _ Hg) in Hv. rewrite (ci_uniq c Hc x x' Hx Hx' Hv). reflexivity.
  - intros y T Hy HT Hct. destruct (Hpre y Hy) as [x [Hx ->]]. destruct (Hg x) as [_ [Ha [_ [Hb _]]]]. rewrite Ha in Hct. rewrite Hb. apply (ci_dom_start c Hc x T Hx HT Hct).
  - intros T v cf HT Hl. apply (ci_dom_lat c Hc T v cf HT Hl).
  - intros y T Hy HT Hi. destruct (Hpre y Hy) as [x [Hx ->]]. destruct (Hg x) as [Ha [_ [_ [Hb [Hc' _]]]]]. rewrite Ha in Hi. rewrite Hb, Hc'. apply (ci_dom_id c Hc x T Hx HT Hi).
  - intros y Hy. apply Hmem in Hy. destruct Hy as [->|[Hy _]]; [exact Hok|apply (ci_ok c Hc y Hy)].
  - intros y Hy. apply Hmem in Hy. destruct Hy as [->|[Hy _]]; [exact Hlen|apply (ci_len c Hc y Hy)].
  - intros T p HT Hp. apply (ci_tomb c Hc T p HT Hp).
Qed.
End Inv.
