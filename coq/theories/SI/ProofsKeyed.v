(* SI/ProofsKeyed.v — read stability with the per-key predicate [stable_suffix_k]: a commit of transaction s on
   OTHER keys, whatever its commit ts, does not matter for reads of k. *)
From Verif Require Import SI.Model SI.ProofsTrans SI.ProofsRead Mvcc.ProofsStore Mvcc.ProofsKey Mvcc.ProofsKstep
     Mvcc.ProofsShape Mvcc.ProofsStep Mvcc.ProofsMarker.

Lemma bfe_other st f k : keys_sorted st -> forall ks acc, keys_sorted acc -> ~ In k ks ->
  get_ks acc k = get_ks st k -> get_ks (fst (batch_first_err st acc f ks)) k = get_ks st k.
Proof.
  intros Hs. induction ks as [|k0 r IH]; intros acc Hacc Hni E; cbn [batch_first_err]; [exact E|].
  destruct (f (get_ks st k0)) as [e|o]; [reflexivity|].
  apply IH; [apply sorted_apply_opt; exact Hacc|intros H; apply Hni; right; exact H|].
  rewrite get_apply_opt by exact Hacc. destruct (N.eqb_spec k k0) as [Ek|Ek]; [exfalso; apply Hni; left; congruence|exact E].
Qed.

Lemma notin_existsb k ks : existsb (N.eqb k) ks = false -> ~ In k ks.
Proof.
  intros H Hin. assert (existsb (N.eqb k) ks = true); [|congruence]. apply existsb_exists. exists k. split; [exact Hin|apply N.eqb_refl].
Qed.

Lemma restrict_same st c k : keys_sorted st -> get_ks (fst (step st (restrict c k))) k = get_ks (fst (step st c)) k.
Proof.
  intros Hs. destruct c; cbn [restrict]; try reflexivity.
  - destruct (existsb (N.eqb k) ks) eqn:E; [reflexivity|]. cbn [step fst]. symmetry.
    apply bfe_other; [exact Hs|exact Hs|apply notin_existsb; exact E|reflexivity].
  - destruct (in_range s e k) eqn:E; [reflexivity|]. cbn [step fst]. rewrite map_range_get by exact Hs. rewrite E. reflexivity.
  - destruct (in_range s e k) eqn:E; [reflexivity|]. cbn [step fst]. rewrite map_range_get by exact Hs. rewrite E. reflexivity.
Qed.

Lemma restrict_pairs c k : cmd_pairs (restrict c k) = key_pairs c k.
Proof.
  destruct c; cbn [restrict key_pairs cmd_pairs]; try reflexivity.
  - destruct (existsb (N.eqb k) ks); reflexivity.
  - destruct (in_range s e k); cbn [andb cmd_pairs]; reflexivity.
  - destruct (in_range s e k); reflexivity.
Qed.

Lemma restrict_gc c k t : gc_ok t (restrict c k) = gc_ok t c.
Proof.
  destruct c; cbn [restrict gc_ok]; try reflexivity.
  - destruct (existsb (N.eqb k) ks); reflexivity.
  - destruct (in_range s e k); reflexivity.
  - destruct (in_range s e k); reflexivity.
Qed.

Lemma restrict_cmd_in W c k : cmd_in W c -> cmd_in W (restrict c k).
Proof.
  intros H. assert (N : cmd_in W (ScanLock 0 0 0)) by (split; intros x []).
  destruct c; cbn [restrict]; try exact H.
  - destruct (existsb (N.eqb k) ks); assumption.
  - destruct (in_range s e k); assumption.
  - destruct (in_range s e k); assumption.
Qed.

Lemma safe_step_restrict st c k t : safe_step st (restrict c k) k t = safe_step_k st c k t.
Proof. unfold safe_step, safe_step_k. rewrite restrict_gc, restrict_pairs. reflexivity. Qed.

Section StableK.
  Variable W : world.
  Hypothesis HW : World_ok W.

  Lemma step_read_stable_k st c k t : wf_store W st -> cmd_in W c -> safe_step_k st c k t = true ->
    read_at (fst (step st c)) k t = read_at st k t.
  Proof.
    intros Hwf Hc Hsafe. rewrite <- safe_step_restrict in Hsafe.
    pose proof (step_read_stable W HW st (restrict c k) k t Hwf (restrict_cmd_in W c k Hc) Hsafe) as H.
    unfold read_at, writes_of in *. rewrite restrict_same in H by exact (proj1 Hwf). exact H.
  Qed.

  Lemma run_from_read_stable_k k t : forall b st, wf_store W st -> (forall c, In c b -> cmd_in W c) ->
    disciplined_from st b = true -> stable_suffix_k st k t b = true ->
    read_at (run_from st b) k t = read_at st k t.
  Proof.
    induction b as [|c r IH]; intros st Hst Hin Hd Hsf; cbn [run_from fold_left]; [reflexivity|].
    cbn [disciplined_from] in Hd. apply andb_true_iff in Hd. destruct Hd as [Hreq Hd].
    cbn [stable_suffix_k] in Hsf. apply andb_true_iff in Hsf. destruct Hsf as [Hsafe Hsf].
    change (fold_left (fun st0 c0 => fst (step st0 c0)) r (fst (step st c))) with (run_from (fst (step st c)) r).
    rewrite IH; [apply step_read_stable_k; [exact Hst|apply Hin; left; reflexivity|exact Hsafe]| | |exact Hd|exact Hsf].
    - apply step_wf; [exact HW|exact Hst|apply Hin; left; reflexivity|exact Hreq].
    - intros c' Hc'. apply Hin; right; exact Hc'.
  Qed.
End StableK.

Lemma read_stable_k a b k t : oracle_ts (a ++ b) = true -> stable_suffix_k (run a) k t b = true ->
  read_at (run (a ++ b)) k t = read_at (run a) k t.
Proof.
  intros Ho Hsf. destruct (oracle_app_wf a b Ho) as [HW [Hwf Hd]]. rewrite run_app.
  apply run_from_read_stable_k with (W := world_of (a ++ b)); auto.
  intros c Hc. apply cmd_in_world_of. apply in_or_app; right; exact Hc.
Qed.

(* the per-command predicate implies the per-key one *)
Lemma key_pairs_incl c k : incl (key_pairs c k) (cmd_pairs c).
Proof.
  destruct c; cbn [key_pairs cmd_pairs]; try (intros x []).
  - destruct (existsb (N.eqb k) ks); [apply incl_refl|intros x []].
  - destruct (in_range s e k); cbn [andb]; [apply incl_refl|]. destruct (0 <? commit); intros x [].
  - destruct (in_range s e k); [apply incl_refl|intros x []].
Qed.

Lemma stable_suffix_weaken k t : forall b st, stable_suffix st k t b = true -> stable_suffix_k st k t b = true.
Proof.
  induction b as [|c r IH]; intros st H; [reflexivity|]. cbn [stable_suffix stable_suffix_k] in *.
  apply andb_true_iff in H. destruct H as [H1 H2]. apply andb_true_iff; split; [|apply IH; exact H2].
  unfold safe_step, safe_step_k in *. apply andb_true_iff in H1. destruct H1 as [Hg Hl]. rewrite Hg. cbn [andb].
  destruct (lock_of st k) as [l|]; [|reflexivity]. apply orb_true_iff in Hl. destruct Hl as [Hl|Hl]; [rewrite Hl; reflexivity|].
  apply orb_true_iff; right. eapply pairs_above_incl; [apply key_pairs_incl|exact Hl].
Qed.
