(* SI/ProofsOracle.v — checking the observed reads against the FINAL committed history is sound. *)
From Verif Require Import SI.Model SI.ProofsTrans SI.ProofsRead Mvcc.ProofsStore Mvcc.ProofsKey Mvcc.ProofsKstep
     Mvcc.ProofsShape Mvcc.ProofsStep Mvcc.ProofsMarker.

(* how an observation came about: either the reader's own buffered write, or a point get served by the store
   after the first n commands (batch get / scan items are point gets: C12_scan_is_gets), at a read ts other than
   the max-ts sentinel, with the stability predicate holding for the commands that followed *)
Inductive served (cmds : list cmd) (o : read_obs) : Prop :=
| sv_own w : ro_own o = Some w -> ro_val o = w -> served cmds o
| sv_store n rs v :
    ro_own o = None -> ro_ts o <> max_ts ->
    get (run (firstn n cmds)) (ro_key o) (ro_ts o) rs = RGet v -> ro_val o = option_map fst v ->
    stable_suffix (run (firstn n cmds)) (ro_key o) (ro_ts o) (skipn n cmds) = true ->
    served cmds o.

(* the same with the client / reader rules in place of the semantic predicate *)
Inductive served_by_rules (cmds : list cmd) (o : read_obs) : Prop :=
| sr_own w : ro_own o = Some w -> ro_val o = w -> served_by_rules cmds o
| sr_store n rs v :
    ro_own o = None -> ro_ts o <> max_ts ->
    get (run (firstn n cmds)) (ro_key o) (ro_ts o) rs = RGet v -> ro_val o = option_map fst v ->
    reader_rules (run (firstn n cmds)) (ro_key o) (ro_ts o) (skipn n cmds) = true ->
    served_by_rules cmds o.

Lemma optv_eqb_refl a : optv_eqb a a = true.
Proof. destruct a; cbn; [apply N.eqb_refl|reflexivity]. Qed.

Lemma served_obs_ok cmds o : oracle_ts cmds = true -> served cmds o -> obs_ok (full_history (run cmds)) o = true.
Proof.
  intros Ho Hs. unfold obs_ok. destruct Hs as [w Eo Ev|n rs v Eo Hne Hget Ev Hst].
  - rewrite Eo, Ev. apply optv_eqb_refl.
  - rewrite Eo, Ev, hist_lookup_full.
    pose proof (snapshot_read (firstn n cmds) (ro_key o) (ro_ts o) rs) as Hsr. unfold snapshot_read_stmt in Hsr.
    rewrite Hget in Hsr. destruct Hsr as [Hv Heff]. rewrite (Heff Hne) in Hv.
    rewrite <- (firstn_skipn n cmds) in Ho.
    pose proof (read_stable _ _ _ _ Ho Hst) as Hrs. rewrite (firstn_skipn n cmds) in Hrs.
    rewrite <- read_at_hist by (apply (proj2 (run_sorted cmds))).
    rewrite Hrs. rewrite read_at_hist by (apply (proj2 (run_sorted (firstn n cmds)))).
    unfold hist_read. rewrite Hv. apply optv_eqb_refl.
Qed.

Lemma history_oracle_sound cmds obs : oracle_ts cmds = true -> Forall (served cmds) obs ->
  si_ok (full_history (run cmds)) obs = true.
Proof.
  intros Ho Hf. unfold si_ok. apply forallb_forall. intros o Hin. rewrite Forall_forall in Hf.
  apply served_obs_ok; [exact Ho|apply Hf; exact Hin].
Qed.

Lemma served_rules_served cmds o : oracle_ts cmds = true -> served_by_rules cmds o -> served cmds o.
Proof.
  intros Ho [w Eo Ev|n rs v Eo Hne Hget Ev Hr]; [eapply sv_own; eassumption|].
  eapply sv_store; try eassumption. apply rules_imply_stable; [|exact Hr]. rewrite firstn_skipn. exact Ho.
Qed.

Lemma history_oracle_sound_rules cmds obs : oracle_ts cmds = true -> Forall (served_by_rules cmds) obs ->
  si_ok (full_history (run cmds)) obs = true.
Proof.
  intros Ho Hf. apply history_oracle_sound; [exact Ho|]. rewrite Forall_forall in *. intros o Hin.
  apply served_rules_served; [exact Ho|apply Hf; exact Hin].
Qed.

(* ------------------------------------------------------------------ range reads *)
Lemma pairs_eqb_eq : forall a b, pairs_eqb a b = true <-> a = b.
Proof.
  induction a as [|[k1 v1] r1 IH]; intros [|[k2 v2] r2]; cbn [pairs_eqb]; split; intros H; try reflexivity; try discriminate.
  - apply andb_true_iff in H. destruct H as [H H3]. apply andb_true_iff in H. destruct H as [H1 H2].
    apply N.eqb_eq in H1, H2. apply IH in H3. congruence.
  - inversion H; subst. rewrite !N.eqb_refl. cbn [andb]. apply IH. reflexivity.
Qed.

(* the scan checker accepts exactly the answers that list, in key order, the own-write-or-history read of every key of
   the range that has a value: none missing, none extra *)
Lemma scan_ok_exact H o : scan_ok H o = true <->
  so_res o = flat_map (fun k => match scan_expect H o k with Some v => [(k, v)] | None => [] end) (so_keys o).
Proof. unfold scan_ok, scan_want. rewrite pairs_eqb_eq. split; intros E; congruence. Qed.
