(* SI/Push.v — the (met) rule derived: a reader that passes a Put/Delete lock of transaction s because CheckTxnStatus
   pushed the min_commit_ts of s's primary lock above its ts t is safe - from the store's mechanics (commit refused
   below min_commit_ts, which never decreases while the lock is held) and the C04 rule "secondaries and resolvers act
   only after the primary is committed" ([pf_ok]). A refused commit is a no-op ([is_noop], [stable_suffix_e]). *)
From Verif Require Import SI.Model SI.ProofsTrans SI.ProofsRead SI.ProofsKeyed SI.AsyncStore SI.TwoPC SI.Resolver
     Mvcc.ProofsStore Mvcc.ProofsKey Mvcc.ProofsKstep Mvcc.ProofsShape Mvcc.ProofsStep Mvcc.ProofsLate Mvcc.ProofsMarker.

(* ------------------------------------------------------------------ refused commits change nothing *)
Lemma bfe_err_same st f : forall ks acc, resp_has_error (snd (batch_first_err st acc f ks)) = true ->
  fst (batch_first_err st acc f ks) = st.
Proof.
  induction ks as [|k0 r IH]; intros acc H; cbn [batch_first_err] in *; [discriminate|].
  destruct (f (get_ks st k0)); [reflexivity|apply IH; exact H].
Qed.
Lemma bfe_err_intro st f k0 e : forall ks acc, In k0 ks -> f (get_ks st k0) = KErr e ->
  resp_has_error (snd (batch_first_err st acc f ks)) = true.
Proof.
  induction ks as [|k1 r IH]; intros acc Hin He; [destruct Hin|]. cbn [batch_first_err].
  destruct (f (get_ks st k1)) as [e1|o] eqn:E1; [reflexivity|].
  destruct Hin as [Ek|Hin]; [subst k1; congruence|apply IH; assumption].
Qed.
Lemma noop_same st c : is_noop st c = true -> fst (step st c) = st.
Proof. destruct c; cbn [is_noop]; try discriminate. cbn [step]. apply bfe_err_same. Qed.

Section StableE.
  Variable W : world.
  Hypothesis HW : World_ok W.
  Lemma run_from_read_stable_e k t : forall b st, wf_store W st -> (forall c, In c b -> cmd_in W c) ->
    disciplined_from st b = true -> stable_suffix_e st k t b = true ->
    read_at (run_from st b) k t = read_at st k t.
  Proof.
    induction b as [|c r IH]; intros st Hst Hin Hd Hsf; cbn [run_from fold_left]; [reflexivity|].
    cbn [disciplined_from] in Hd. apply andb_true_iff in Hd. destruct Hd as [Hreq Hd].
    cbn [stable_suffix_e] in Hsf. apply andb_true_iff in Hsf. destruct Hsf as [Hsafe Hsf].
    change (fold_left (fun st0 c0 => fst (step st0 c0)) r (fst (step st c))) with (run_from (fst (step st c)) r).
    rewrite IH; [| | |exact Hd|exact Hsf].
    - unfold safe_step_e in Hsafe. apply orb_true_iff in Hsafe. destruct Hsafe as [Hn|Hs]; [rewrite (noop_same _ _ Hn); reflexivity|].
      apply (step_read_stable W HW); [exact Hst|apply Hin; left; reflexivity|exact Hs].
    - apply step_wf; [exact HW|exact Hst|apply Hin; left; reflexivity|exact Hreq].
    - intros c' Hc'. apply Hin; right; exact Hc'.
  Qed.
End StableE.

Lemma read_stable_e a b k t : oracle_ts (a ++ b) = true -> stable_suffix_e (run a) k t b = true ->
  read_at (run (a ++ b)) k t = read_at (run a) k t.
Proof.
  intros Ho Hsf. destruct (oracle_app_wf a b Ho) as [HW [Hwf Hd]]. rewrite run_app.
  apply run_from_read_stable_e with (W := world_of (a ++ b)); auto.
  intros c Hc. apply cmd_in_world_of. apply in_or_app; right; exact Hc.
Qed.

(* ------------------------------------------------------------------ the primary key of the pushed transaction *)
Section Primary.
  Variable W : world.
  Hypothesis HW : World_ok W.
  Variables (kp : key) (s t : ts).

  (* s's prewrite lock with min_commit_ts above t / s committed above t / s rolled back *)
  Definition pk (kst : kstate) : Prop :=
    (exists lp, ks_lock kst = Some lp /\ l_start lp = s /\ is_pess lp = false /\ t < l_min_commit lp)
    \/ (exists c, krec (ks_writes kst) s (DCommitted c) = true /\ t < c)
    \/ krec (ks_writes kst) s DRolledBack = true.

  Lemma lock_no_record kst lp d : wf_ks W kst -> ks_lock kst = Some lp -> l_start lp = s -> krec (ks_writes kst) s d = true -> False.
  Proof.
    intros Hwf El Es Hk. apply krec_elim in Hk. destruct Hk as [w [Hin [Ew _]]].
    destruct (wf_lock _ _ Hwf lp El) as [_ Hn]. apply Hn. rewrite Es, <- Ew. apply in_map; exact Hin.
  Qed.

  Lemma kstep_pk st c x : wf_ks W (get_ks st kp) -> cmd_in W c -> pf_ok kp s st c = true -> is_gc_over c s = false ->
    kstep st c kp x -> pk (get_ks st kp) -> pk x.
  Proof.
    intros Hwf Hc Hpf Hgc H Hp.
    destruct Hp as [[lp [El [Es [Epe Hmc]]]]|[[c0 [Hk Hlt]]|Hk]].
    2:{ right; left. exists c0. split; [|exact Hlt]. eapply ktrans_krec; [exact HW|exact Hwf|exact Hc|apply kstep_ktrans; exact H|exact Hgc|exact Hk]. }
    2:{ right; right. eapply ktrans_krec; [exact HW|exact Hwf|exact Hc|apply kstep_ktrans; exact H|exact Hgc|exact Hk]. }
    (* the lock is there *)
    assert (Hrec : forall c', record_is st kp s (DCommitted c') = true -> False).
    { intros c' Hr. unfold record_is, writes_of in Hr. eapply lock_no_record; [exact Hwf|exact El|exact Es|exact Hr]. }
    unfold pf_ok in Hpf. rewrite forallb_forall in Hpf.
    destruct c; cbn [kstep] in H; cbv zeta in H; remember (get_ks st kp) as kst eqn:Eks; clear Eks.
    - (* Prewrite: over the own prewrite lock nothing is written, a foreign one is refused *)
      destruct H as [m [_ [_ H]]]. unfold prewrite_key in H. rewrite El, Epe in H.
      destruct (negb (l_start lp =? start)); cbn [negb] in H; discriminate.
    - destruct H as [ne [res [_ H]]]. unfold pess_lock_key in H. rewrite El, Epe in H.
      destruct (p_lock_only_if_exists r && negb (p_return_values r)); [discriminate|].
      destruct (negb (l_start lp =? p_start r)); cbn [negb] in H; discriminate.
    - unfold pess_rollback_key, pess_rollback_match in H. rewrite El, Epe in H. cbn [andb] in H. discriminate.
    - (* Commit: refused below min_commit_ts *)
      unfold commit_key, own_lock in H. rewrite El in H. destruct (N.eqb_spec (l_start lp) start) as [E|E].
      + destruct (N.ltb_spec commit (l_min_commit lp)); [discriminate|]. inversion H; subst x.
        right; left. exists commit. split; [|lia]. unfold commit_lock. cbn [ks_writes].
        eapply krec_intro; [apply put_write_has|cbn; congruence|split; [destruct (l_op lp); reflexivity|reflexivity]].
      + destruct (find_start start (ks_writes kst)) as [w|]; [destruct (is_rollback w)|]; discriminate.
    - (* Rollback *)
      unfold rollback_key, own_lock in H. rewrite El in H. destruct (N.eqb_spec (l_start lp) start) as [E|E].
      + inversion H; subst x. right; right. unfold rollback_lock. cbn [ks_writes].
        eapply krec_intro; [apply put_write_has|cbn; congruence|reflexivity].
      + destruct (find_start start (ks_writes kst)) as [w|]; [destruct (is_rollback w); discriminate|].
        inversion H; subst x. left. exists lp. unfold write_rollback. cbn [ks_lock]. auto.
    - destruct H as [_ H]. unfold cleanup_key, rollback_key, own_lock in H. rewrite El in H.
      destruct (N.eqb_spec (l_start lp) start) as [E|E].
      + destruct ((current =? 0) || ttl_expired lp current); [|discriminate]. inversion H; subst x. right; right.
        unfold rollback_lock. cbn [ks_writes]. eapply krec_intro; [apply put_write_has|cbn; congruence|reflexivity].
      + destruct (find_start start (ks_writes kst)) as [w|]; [destruct (is_rollback w); discriminate|].
        inversion H; subst x. left. exists lp. unfold write_rollback. cbn [ks_lock]. auto.
    - (* CheckTxnStatus: the push only raises min_commit_ts *)
      destruct H as [_ [r H]]. unfold check_txn_status_key, own_lock in H. rewrite El in H.
      destruct (N.eqb_spec (l_start lp) lock_ts) as [E|E].
      + destruct (ttl_expired lp current).
        * rewrite Epe, andb_false_r in H. inversion H; subst x. right; right. unfold rollback_lock. cbn [ks_writes].
          eapply krec_intro; [apply put_write_has|cbn; congruence|reflexivity].
        * destruct (caller =? max_ts); [discriminate|]. destruct (0 <? l_min_commit lp); [|discriminate].
          destruct (N.ltb_spec (l_min_commit lp) (caller + 1)); [|discriminate]. inversion H; subst x.
          left. eexists. split; [reflexivity|]. cbn [l_start l_op l_min_commit is_pess]. split; [exact Es|]. split; [exact Epe|].
          destruct (caller + 1 <? current) eqn:E2; [apply N.ltb_lt in E2|]; lia.
      + destruct (find_start lock_ts (ks_writes kst)) as [w|]; [destruct (is_rollback w); discriminate|].
        destruct rollback_if_not_exist; [|discriminate]. destruct resolving_pess; [discriminate|].
        inversion H; subst x. left. exists lp. unfold write_rollback. cbn [ks_lock]. auto.
    - (* HeartBeat *)
      destruct H as [Ek [r H]]. unfold heartbeat_key, own_lock in H. rewrite El in H.
      destruct (l_start lp =? start); [|discriminate]. destruct (negb (l_primary lp =? kp)); [discriminate|].
      destruct (l_ttl lp <? advise); [|discriminate]. inversion H; subst x. left. eexists. split; [reflexivity|].
      cbn [l_start l_min_commit is_pess l_op]. auto.
    - (* ResolveLock: would need the commit record on the primary, which a locked primary does not have *)
      destruct H as [_ H]. unfold resolve_key, own_lock in H. rewrite El in H.
      destruct (N.eqb_spec (l_start lp) start) as [E|E]; [|discriminate]. inversion H; subst x.
      destruct (0 <? commit) eqn:Ec.
      + exfalso. specialize (Hpf (start, commit)). cbn [cmd_pairs] in Hpf. rewrite Ec in Hpf. specialize (Hpf (or_introl eq_refl)).
        cbn [fst snd names_primary] in Hpf. assert (Hs : (start =? s) = true) by (apply N.eqb_eq; congruence). rewrite Hs in Hpf. cbn [negb orb] in Hpf.
        eapply Hrec; exact Hpf.
      + right; right. unfold rollback_lock. cbn [ks_writes]. eapply krec_intro; [apply put_write_has|cbn; congruence|reflexivity].
    - destruct H as [_ H]. unfold batch_resolve_key in H. rewrite El in H.
      destruct (assoc_ts (l_start lp) infos) as [cm|] eqn:Ea; [|discriminate].
      unfold resolve_key, own_lock in H. rewrite El, N.eqb_refl in H. inversion H; subst x.
      destruct (0 <? cm) eqn:Ec.
      + exfalso. apply assoc_ts_in in Ea. specialize (Hpf (l_start lp, cm)). cbn [cmd_pairs] in Hpf.
        assert (Hin : In (l_start lp, cm) (filter (fun p => 0 <? snd p) infos)) by (apply filter_In; split; [exact Ea|exact Ec]).
        specialize (Hpf Hin). cbn [fst snd names_primary] in Hpf. rewrite Es, N.eqb_refl in Hpf. cbn [negb orb] in Hpf.
        eapply Hrec; exact Hpf.
      + right; right. unfold rollback_lock. cbn [ks_writes]. eapply krec_intro; [apply put_write_has|cbn; exact Es|reflexivity].
    - destruct H.
    - destruct H as [_ H]. unfold gc_key in H. inversion H; subst x. left. exists lp. cbn [ks_lock]. auto.
    - destruct H. - destruct H. - destruct H. - destruct H.
    - destruct H.
    - cbn [is_gc_over] in Hgc. discriminate.
    - destruct H.
  Qed.

  Lemma krec_unique kst d1 d2 : wf_ks W kst -> krec (ks_writes kst) s d1 = true -> krec (ks_writes kst) s d2 = true -> d1 = d2.
  Proof.
    intros Hwf H1 H2. apply krec_elim in H1. apply krec_elim in H2.
    destruct H1 as [w1 [Hi1 [E1 D1]]]. destruct H2 as [w2 [Hi2 [E2 D2]]].
    assert (w1 = w2) by (eapply nodup_map_inj; [exact (wf_nodup _ _ Hwf)|exact Hi1|exact Hi2|congruence]). subst w2.
    destruct d1 as [c1|], d2 as [c2|]; try reflexivity.
    - destruct D1 as [_ D1]. destruct D2 as [_ D2]. congruence.
    - destruct D1 as [D1 _]. congruence.
    - destruct D2 as [D2 _]. congruence.
  Qed.

  (* a command either is refused as a whole or carries, for s, only commit timestamps above t *)
  Lemma push_safe st c : wf_store W st -> cmd_in W c -> pf_ok kp s st c = true -> pk (get_ks st kp) ->
    is_noop st c = true \/ pairs_above t s (cmd_pairs c) = true.
  Proof.
    intros [Hs Hk] [Hcs Hcp] Hpf Hp. pose proof (Hk kp) as Hwf.
    unfold pf_ok in Hpf. rewrite forallb_forall in Hpf.
    destruct (names_primary kp c) eqn:Enp.
    - destruct c; cbn [names_primary] in Enp; try discriminate. cbn [cmd_pairs] in *.
      destruct (N.eqb_spec start s) as [E|E]; [subst start|right; unfold pairs_above; cbn [forallb fst snd]; destruct (N.eqb_spec start s); [contradiction|reflexivity]].
      apply existsb_exists in Enp. destruct Enp as [k0 [Hin Ek]]. apply N.eqb_eq in Ek. subst k0.
      assert (Hnoop : forall e, commit_key (get_ks st kp) s commit = KErr e -> is_noop st (Commit ks s commit) = true).
      { intros e He. cbn [is_noop step]. eapply bfe_err_intro; [exact Hin|exact He]. }
      assert (Habove : t < commit -> pairs_above t s [(s, commit)] = true).
      { intros Hlt. unfold pairs_above. cbn [forallb fst snd]. rewrite N.eqb_refl. cbn [negb orb]. rewrite andb_true_r. apply N.ltb_lt; exact Hlt. }
      destruct Hp as [[lp [El [Es [Epe Hmc]]]]|[[c0 [Hk0 Hlt]]|Hk0]].
      + destruct (N.ltb_spec commit (l_min_commit lp)) as [Hc|Hc].
        * left. eapply Hnoop. unfold commit_key, own_lock. rewrite El, Es, N.eqb_refl.
          destruct (N.ltb_spec commit (l_min_commit lp)); [reflexivity|lia].
        * right. apply Habove. lia.
      + right. apply Habove. apply krec_elim in Hk0. destruct Hk0 as [w [Hi [Ew [Hr Hc0]]]].
        pose proof (wf_wok _ _ Hwf) as Hok. rewrite Forall_forall in Hok. destruct (Hok _ Hi) as [_ Hpw]. rewrite Hr in Hpw.
        assert (Hpc : In (s, commit) (w_pairs W)) by (apply Hcp; left; reflexivity).
        rewrite Ew, Hc0 in Hpw. pose proof (proj1 (wo_inj W HW _ _ _ _ Hpw Hpc) eq_refl). lia.
      + left. pose proof Hk0 as Hk1. apply krec_elim in Hk1. destruct Hk1 as [w [Hi [Ew Hr]]].
        assert (Eo : own_lock (get_ks st kp) s = None).
        { destruct (own_lock (get_ks st kp) s) as [l|] eqn:Eo; [|reflexivity]. apply own_lock_some in Eo. destruct Eo as [El Es].
          exfalso. eapply lock_no_record; [exact Hwf|exact El|exact Es|exact Hk0]. }
        destruct (find_start s (ks_writes (get_ks st kp))) as [w1|] eqn:Ef.
        * apply find_start_some in Ef. destruct Ef as [Hi1 E1].
          assert (w1 = w) by (eapply nodup_map_inj; [exact (wf_nodup _ _ Hwf)|exact Hi1|exact Hi|congruence]). subst w1.
          eapply Hnoop. unfold commit_key. rewrite Eo. destruct (find_start s (ks_writes (get_ks st kp))) as [w2|] eqn:Ef2; [|reflexivity].
          apply find_start_some in Ef2. destruct Ef2 as [Hi2 E2].
          assert (w2 = w) by (eapply nodup_map_inj; [exact (wf_nodup _ _ Hwf)|exact Hi2|exact Hi|congruence]). subst w2. rewrite Hr. reflexivity.
        * exfalso. apply find_start_none in Ef. apply Ef. rewrite <- Ew. apply in_map; exact Hi.
    - right. unfold pairs_above. apply forallb_forall. intros p Hin. specialize (Hpf p Hin). rewrite ?Enp in Hpf.
      destruct (fst p =? s); cbn [negb orb] in *; [|reflexivity]. unfold record_is, writes_of in Hpf.
      destruct Hp as [[lp [El [Es _]]]|[[c0 [Hk0 Hlt]]|Hk0]].
      + exfalso. eapply lock_no_record; [exact Hwf|exact El|exact Es|exact Hpf].
      + pose proof (krec_unique _ _ _ Hwf Hpf Hk0) as E. inversion E as [E0]. apply N.ltb_lt. rewrite E0. exact Hlt.
      + pose proof (krec_unique _ _ _ Hwf Hpf Hk0) as E. discriminate.
  Qed.

  Lemma step_pk st c : wf_store W st -> cmd_in W c -> pf_ok kp s st c = true -> is_gc_over c s = false ->
    pk (get_ks st kp) -> pk (get_ks (fst (step st c)) kp).
  Proof.
    intros [Hs Hk] Hc Hpf Hgc Hp. destruct (step_kstep st c Hs) as [_ Hr]. destruct (Hr kp) as [E|H]; [rewrite E; exact Hp|].
    eapply kstep_pk; [apply Hk|exact Hc|exact Hpf|exact Hgc|exact H|exact Hp].
  Qed.
End Primary.

(* ------------------------------------------------------------------ the joint trace with a pushed transaction *)
Fixpoint prules (kp : key) (s : ts) (st : store) (tr : list tev) : bool :=
  match tr with
  | [] => true
  | TReq c :: r => pf_ok kp s st c && negb (is_gc_over c s) && prules kp s (fst (step st c)) r
  | _ :: r => prules kp s st r
  end.

Lemma prules_app kp s : forall x st y, prules kp s st (x ++ y) = true -> prules kp s (run_from st (cmds_of x)) y = true.
Proof.
  induction x as [|[t|c|c] r IH]; intros st y H; cbn [app prules cmds_of run_from fold_left] in *; [exact H|apply IH; exact H| |apply IH; exact H].
  apply andb_true_iff in H. destruct H as [_ H]. apply IH; exact H.
Qed.

Section PStable.
  Variable W : world.
  Hypothesis HW : World_ok W.
  Variables (k kp : key) (s t : ts) (Pm : list (ts * ts)).

  Definition goodP (st : store) (PL : list (ts * ts)) : Prop :=
    forall l, lock_of st k = Some l ->
      data_lock l = false \/ pairs_above t (l_start l) Pm = true \/ (exists Tj, In (l_start l, Tj) PL /\ t <= Tj) \/ l_start l = s.

  Lemma pstep_good st c T PL : keys_sorted st -> t <= T -> goodP st PL -> goodP (fst (step st c)) (pl_upd PL st c k T).
  Proof.
    intros Hs HT Hg l' El'.
    assert (Hinc : forall x, In x PL -> In x (pl_upd PL st c k T)).
    { intros x Hx. unfold pl_upd. destruct (placed_by st c k); [right; exact Hx|exact Hx]. }
    destruct (lock_after k st c l' Hs El') as [[l [El [Es Eo]]]|[[ms [p [s0 [fu [ttl [mc [ao [m [Ec [Hin [Ek [Es Er]]]]]]]]]]]]|Hd]].
    - assert (Ed : data_lock l' = data_lock l) by (unfold data_lock; rewrite Eo; reflexivity).
      destruct (Hg l El) as [H|[H|[[Tj [Hin Hle]]|H]]].
      + left. congruence.
      + right; left. rewrite Es. exact H.
      + right; right; left. exists Tj. rewrite Es. split; [apply Hinc; exact Hin|exact Hle].
      + right; right; right. congruence.
    - right; right; left. exists T. split; [|exact HT]. subst c. unfold pl_upd.
      rewrite (placed_by_intro k st ms p s0 fu ttl mc ao m l' Hin Ek Er El' Es). rewrite Es. left; reflexivity.
    - left; exact Hd.
  Qed.

  Lemma preq_safe st PL c : wf_store W st -> cmd_in W c -> goodP st PL -> pk s t (get_ks st kp) ->
    incl (cmd_pairs c) Pm -> gc_ok t c = true -> after_placements PL c = true -> pf_ok kp s st c = true ->
    safe_step_e st c k t = true.
  Proof.
    intros Hwf Hc Hg Hp Hi Hgc Ha Hpf. unfold safe_step_e.
    destruct (lock_of st k) as [l|] eqn:El; [|apply orb_true_iff; right; unfold safe_step; rewrite Hgc, El; reflexivity].
    assert (Hsafe : pairs_above t (l_start l) (cmd_pairs c) = true -> is_noop st c || safe_step st c k t = true).
    { intros H. apply orb_true_iff; right. unfold safe_step. rewrite Hgc, El. cbn [andb]. apply orb_true_iff; right; exact H. }
    destruct (Hg l El) as [H|[H|[[Tj [Hin Hle]]|H]]].
    - apply orb_true_iff; right. unfold safe_step. rewrite Hgc, El, H. reflexivity.
    - apply Hsafe. eapply pairs_above_incl; [exact Hi|exact H].
    - apply Hsafe. unfold after_placements in Ha. unfold pairs_above. rewrite forallb_forall in *.
      intros x Hx. specialize (Ha x Hx). rewrite forallb_forall in Ha. specialize (Ha _ Hin). cbn [fst snd] in Ha.
      rewrite N.eqb_sym in Ha. destruct (fst x =? l_start l); cbn [negb orb] in *; [|reflexivity].
      apply N.ltb_lt in Ha. apply N.ltb_lt. lia.
    - destruct (push_safe W HW kp s t st c Hwf Hc Hpf Hp) as [Hn|Hab]; [rewrite Hn; reflexivity|].
      apply Hsafe. rewrite H. exact Hab.
  Qed.

  Lemma prules_stable : forall B st T PL, wf_store W st -> (forall c, In c (cmds_of B) -> cmd_in W c) ->
    disciplined_from st (cmds_of B) = true -> t <= T -> goodP st PL -> pk s t (get_ks st kp) ->
    incl (flat_map cmd_pairs (cmds_of B)) Pm -> forallb (gc_ok t) (cmds_of B) = true ->
    trules k st T PL B = true -> prules kp s st B = true -> stable_suffix_e st k t (cmds_of B) = true.
  Proof.
    induction B as [|[t'|c|c] r IH]; intros st T PL Hwf Hin Hd HT Hg Hp Hi Hgc H Hpr; cbn [cmds_of trules prules] in *; [reflexivity| | |].
    - apply andb_true_iff in H. destruct H as [H1 H2]. apply N.ltb_lt in H1.
      apply (IH st t' PL); [exact Hwf|exact Hin|exact Hd|lia|exact Hg|exact Hp|exact Hi|exact Hgc|exact H2|exact Hpr].
    - apply andb_true_iff in H. destruct H as [H1 H2]. apply andb_true_iff in Hpr. destruct Hpr as [Hpr Hpr2].
      apply andb_true_iff in Hpr. destruct Hpr as [Hpf Hgs]. apply negb_true_iff in Hgs.
      cbn [flat_map forallb stable_suffix_e disciplined_from] in *.
      apply andb_true_iff in Hgc. destruct Hgc as [Hgc1 Hgc2]. apply andb_true_iff in Hd. destruct Hd as [Hreq Hd].
      assert (Hc : cmd_in W c) by (apply Hin; left; reflexivity).
      apply andb_true_iff; split.
      + eapply preq_safe; [exact Hwf|exact Hc|exact Hg|exact Hp|intros x Hx; apply Hi; apply in_or_app; left; exact Hx|exact Hgc1|exact H1|exact Hpf].
      + apply (IH (fst (step st c)) T (pl_upd PL st c k T)).
        * apply step_wf; assumption.
        * intros c' Hc'. apply Hin; right; exact Hc'.
        * exact Hd.
        * exact HT.
        * apply pstep_good; [exact (proj1 Hwf)|exact HT|exact Hg].
        * apply (step_pk W HW); assumption.
        * intros x Hx. apply Hi. apply in_or_app; right; exact Hx.
        * exact Hgc2.
        * exact H2.
        * exact Hpr2.
    - apply andb_true_iff in H. destruct H as [_ H2]. apply (IH st T PL); assumption.
  Qed.
End PStable.

(* ------------------------------------------------------------------ statements *)
(* what the reader's CheckTxnStatus establishes: answer MinCommitTSPushed for caller ts t (not the max-ts sentinel) on a
   prewrite lock => the primary lock's min_commit_ts is above t *)
Lemma cts_pushes st kp s t cur rine rp ttl : keys_sorted st -> t <> max_ts ->
  (forall lp, lock_of st kp = Some lp -> is_pess lp = false) ->
  snd (step st (CheckTxnStatus kp s t cur rine rp)) = RStatus ttl 0 AMinCommitTSPushed ->
  pushed (fst (step st (CheckTxnStatus kp s t cur rine rp))) kp s t = true.
Proof.
  intros Hs Hne Hnp. cbn [step]. destruct (check_txn_status_key (get_ks st kp) kp s t cur rine rp) as [o r] eqn:E. cbn [fst snd].
  intros Hr. subst r. unfold pushed, lock_of. rewrite get_apply_opt by exact Hs. rewrite N.eqb_refl.
  unfold check_txn_status_key in E. destruct (own_lock (get_ks st kp) s) as [lp|] eqn:Eo.
  - apply own_lock_some in Eo. destruct Eo as [El Es]. specialize (Hnp lp El).
    destruct (ttl_expired lp cur); [destruct (rp && is_pess lp); inversion E|].
    destruct (N.eqb_spec t max_ts); [contradiction|]. destruct (0 <? l_min_commit lp); [|inversion E].
    destruct (N.ltb_spec (l_min_commit lp) (t + 1)); inversion E; subst o.
    + unfold is_pess in *. cbn [ks_lock l_start l_op l_min_commit]. rewrite Es, N.eqb_refl, Hnp. cbn [negb andb].
      apply N.ltb_lt. destruct (t + 1 <? cur) eqn:E2; [apply N.ltb_lt in E2|]; lia.
    + rewrite El, Es, N.eqb_refl, Hnp. cbn [negb andb]. apply N.ltb_lt. lia.
  - destruct (find_start s (ks_writes (get_ks st kp))) as [w|]; [destruct (is_rollback w); inversion E|].
    destruct rine; [destruct rp|]; inversion E.
Qed.

(* the (met) rule derived for the transaction whose primary was pushed: joint trace A ++ B as in C01_twopc_read_stable; on
   the store reached by A the primary kp of s is [pushed] above t; B obeys [trules] and [prules] (C04: pairs of s only on
   a commit naming the primary or after the primary's commit record; no GC over s). The lock met on k may be s's. *)
Theorem pushed_read_stable A B k kp s t :
  let a := cmds_of A in let b := cmds_of B in
  trules k [] 0 [] (A ++ B) = true -> prules kp s (run a) B = true -> t <= tlast 0 A ->
  oracle_ts (a ++ b) = true -> forallb (gc_ok t) b = true ->
  pushed (run a) kp s t = true -> met_rule_p (run a) k s t (flat_map cmd_pairs b) = true ->
  stable_suffix_e (run a) k t b = true /\ read_at (run (a ++ b)) k t = read_at (run a) k t.
Proof.
  intros a b Hr Hpr Ht Ho Hgc Hpu Hmet.
  assert (Hst : stable_suffix_e (run a) k t b = true).
  { destruct (trules_app k A [] 0 [] B Hr) as [_ H2]. fold a in H2. change (run_from [] a) with (run a) in H2.
    destruct (oracle_app_wf _ _ Ho) as [HW [Hwf Hd]].
    apply (prules_stable (world_of (a ++ b)) HW k kp s t (flat_map cmd_pairs b) B (run a) (tlast 0 A) (pl_run k [] 0 [] A));
      [exact Hwf| |exact Hd|exact Ht| | |apply incl_refl|exact Hgc|exact H2|exact Hpr].
    - intros c Hc. apply cmd_in_world_of. apply in_or_app; right; exact Hc.
    - intros l El. unfold met_rule_p in Hmet. rewrite El in Hmet.
      apply orb_true_iff in Hmet. destruct Hmet as [Hmet|Hmet]; [|right; right; right; apply N.eqb_eq; exact Hmet].
      apply orb_true_iff in Hmet. destruct Hmet as [Hmet|Hmet]; [|right; left; exact Hmet].
      apply orb_true_iff in Hmet. destruct Hmet as [Hmet|Hmet]; [left; apply negb_true_iff; exact Hmet|right; left].
      apply N.ltb_lt in Hmet. unfold pairs_above. apply forallb_forall. intros [s0 c] Hx. cbn [fst snd].
      destruct (N.eqb_spec s0 (l_start l)) as [Es|Es]; cbn [negb orb]; [|reflexivity]. apply N.ltb_lt.
      assert (Hin : In (s0, c) (w_pairs (world_of (a ++ b)))).
      { cbn [world_of w_pairs]. rewrite flat_map_app. apply in_or_app; right; exact Hx. }
      pose proof (wo_lt _ HW _ _ Hin). lia.
    - unfold pushed, lock_of in Hpu. destruct (ks_lock (get_ks (run a) kp)) as [lp|] eqn:El; [|discriminate].
      apply andb_true_iff in Hpu. destruct Hpu as [Hpu H3]. apply andb_true_iff in Hpu. destruct Hpu as [H1 H2'].
      left. exists lp. split; [exact El|]. split; [apply N.eqb_eq; exact H1|]. split; [apply negb_true_iff; exact H2'|apply N.ltb_lt; exact H3]. }
  split; [exact Hst|]. apply read_stable_e; assumption.
Qed.

(* ------------------------------------------------------------------ the history oracle over one joint trace with many readers *)
(* how an observation came about inside the joint trace tr: an own write; or a point get served at a cut A | B of the
   trace under the 2PC rules; or the same with the lock met belonging to a transaction whose primary was pushed *)
Inductive served_trace (tr : list tev) (o : read_obs) : Prop :=
| stt_own w : ro_own o = Some w -> ro_val o = w -> served_trace tr o
| stt_2pc A B rs v : tr = A ++ B -> ro_own o = None -> ro_ts o <> max_ts ->
    get (run (cmds_of A)) (ro_key o) (ro_ts o) rs = RGet v -> ro_val o = option_map fst v ->
    trules (ro_key o) [] 0 [] (A ++ B) = true -> ro_ts o <= tlast 0 A -> forallb (gc_ok (ro_ts o)) (cmds_of B) = true ->
    met_rule (run (cmds_of A)) (ro_key o) (ro_ts o) (flat_map cmd_pairs (cmds_of B)) = true ->
    served_trace tr o
| stt_push A B rs v kp s : tr = A ++ B -> ro_own o = None -> ro_ts o <> max_ts ->
    get (run (cmds_of A)) (ro_key o) (ro_ts o) rs = RGet v -> ro_val o = option_map fst v ->
    trules (ro_key o) [] 0 [] (A ++ B) = true -> prules kp s (run (cmds_of A)) B = true ->
    ro_ts o <= tlast 0 A -> forallb (gc_ok (ro_ts o)) (cmds_of B) = true ->
    pushed (run (cmds_of A)) kp s (ro_ts o) = true ->
    met_rule_p (run (cmds_of A)) (ro_key o) s (ro_ts o) (flat_map cmd_pairs (cmds_of B)) = true ->
    served_trace tr o.

Lemma optv_eqb_refl' a : optv_eqb a a = true.
Proof. destruct a; cbn; [apply N.eqb_refl|reflexivity]. Qed.

Lemma obs_from_stable a b o rs v : oracle_ts (a ++ b) = true -> ro_own o = None -> ro_ts o <> max_ts ->
  get (run a) (ro_key o) (ro_ts o) rs = RGet v -> ro_val o = option_map fst v ->
  read_at (run (a ++ b)) (ro_key o) (ro_ts o) = read_at (run a) (ro_key o) (ro_ts o) ->
  obs_ok (full_history (run (a ++ b))) o = true.
Proof.
  intros Ho Eo Hne Hget Ev Hrs. unfold obs_ok. rewrite Eo, Ev, hist_lookup_full.
  pose proof (snapshot_read a (ro_key o) (ro_ts o) rs) as Hsr. unfold snapshot_read_stmt in Hsr.
  rewrite Hget in Hsr. destruct Hsr as [Hv Heff]. rewrite (Heff Hne) in Hv.
  rewrite <- read_at_hist by (apply (proj2 (run_sorted (a ++ b)))).
  rewrite Hrs. rewrite read_at_hist by (apply (proj2 (run_sorted a))).
  unfold hist_read. rewrite Hv. apply optv_eqb_refl'.
Qed.

Theorem history_oracle_sound_trace tr obs : oracle_ts (cmds_of tr) = true -> Forall (served_trace tr) obs ->
  si_ok (full_history (run (cmds_of tr))) obs = true.
Proof.
  intros Ho Hf. unfold si_ok. apply forallb_forall. intros o Hin. rewrite Forall_forall in Hf.
  destruct (Hf o Hin) as [w Eo Ev|A B rs v Etr Eo Hne Hget Ev Hr Ht Hgc Hmet|A B rs v kp s Etr Eo Hne Hget Ev Hr Hpr Ht Hgc Hpu Hmet].
  - unfold obs_ok. rewrite Eo, Ev. apply optv_eqb_refl'.
  - subst tr. rewrite cmds_of_app in *. eapply obs_from_stable; try eassumption.
    apply (proj2 (twopc_read_stable A B (ro_key o) (ro_ts o) Hr Ht Ho Hgc Hmet)).
  - subst tr. rewrite cmds_of_app in *. eapply obs_from_stable; try eassumption.
    apply (proj2 (pushed_read_stable A B (ro_key o) kp s (ro_ts o) Hr Hpr Ht Ho Hgc Hpu Hmet)).
Qed.
