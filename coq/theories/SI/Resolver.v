(* SI/Resolver.v — the lock resolver's status cache (LockResolver.resolved, saveResolved / getResolved):
   an answer of CheckTxnStatus that [determined] (= TxnStatus.StatusCacheable) accepts is FINAL in the store - the
   commit / rollback record of the transaction lies on its primary key, stays there (until GC passes its start ts),
   every later status check answers the same and changes nothing; so a resolver that skips the request because of a
   memoised answer produces the same store, the same committed history and the same oracle verdict. *)
From Verif Require Import SI.Model SI.ProofsTrans SI.ProofsRead Mvcc.ProofsStore Mvcc.ProofsKey Mvcc.ProofsKstep
     Mvcc.ProofsShape Mvcc.ProofsStep Mvcc.ProofsLate Mvcc.ProofsMarker.

Lemma krec_intro ws s d w : In w ws -> w_start w = s ->
  match d with DCommitted c => is_rollback w = false /\ w_commit w = c | DRolledBack => is_rollback w = true end ->
  krec ws s d = true.
Proof.
  intros Hin Es Hd. unfold krec. apply existsb_exists. exists w. split; [exact Hin|]. rewrite Es, N.eqb_refl. cbn [andb].
  destruct d as [c|]; [destruct Hd as [H1 H2]; rewrite H1, H2, N.eqb_refl; reflexivity|exact Hd].
Qed.
Lemma krec_elim ws s d : krec ws s d = true -> exists w, In w ws /\ w_start w = s /\
  match d with DCommitted c => is_rollback w = false /\ w_commit w = c | DRolledBack => is_rollback w = true end.
Proof.
  unfold krec. rewrite existsb_exists. intros [w [Hin H]]. exists w. apply andb_true_iff in H. destruct H as [H1 H2].
  apply N.eqb_eq in H1. split; [exact Hin|]. split; [exact H1|]. destruct d as [c|]; [|exact H2].
  apply andb_true_iff in H2. destruct H2 as [H2 H3]. apply negb_true_iff in H2. apply N.eqb_eq in H3. split; assumption.
Qed.

Section Res.
  Variable W : world.
  Hypothesis HW : World_ok W.

  (* ---- a determined answer comes with its record *)
  Lemma cts_determined_record ks k s caller cur rine rp o r d :
    wf_ks W ks -> (forall l, ks_lock ks = Some l -> 0 < l_ttl l) ->
    check_txn_status_key ks k s caller cur rine rp = (o, r) -> determined r = Some d ->
    krec (ks_writes (match o with Some x => x | None => ks end)) s d = true.
  Proof.
    intros Hwf Httl. unfold check_txn_status_key. destruct (own_lock ks s) as [l|] eqn:Eo.
    - apply own_lock_some in Eo. destruct Eo as [El Es]. specialize (Httl l El).
      assert (Halive : forall a, determined (RStatus (l_ttl l) 0 a) = Some d -> False).
      { intros a. cbn [determined]. unfold determined3. cbn. destruct (N.eqb_spec (l_ttl l) 0); [lia|]. cbn [andb]. discriminate. }
      destruct (ttl_expired l cur).
      + destruct (rp && is_pess l); intros E Hd; inversion E; subst; [cbn in Hd; discriminate|].
        cbn in Hd. inversion Hd; subst d. unfold rollback_lock. cbn [ks_writes].
        eapply krec_intro; [apply put_write_has|reflexivity|reflexivity].
      + destruct (caller =? max_ts); [intros E Hd; inversion E; subst; exfalso; eapply Halive; exact Hd|].
        destruct (0 <? l_min_commit l); [|intros E Hd; inversion E; subst; exfalso; eapply Halive; exact Hd].
        destruct (l_min_commit l <? caller + 1); intros E Hd; inversion E; subst; exfalso; eapply Halive; exact Hd.
    - destruct (find_start s (ks_writes ks)) as [w|] eqn:Ef.
      + apply find_start_some in Ef. destruct Ef as [Hin Es].
        destruct (is_rollback w) eqn:Er; intros E Hd; inversion E; subst o r.
        * cbn in Hd. inversion Hd; subst d. eapply krec_intro; [exact Hin|exact Es|exact Er].
        * cbn [determined] in Hd. unfold determined3 in Hd.
          destruct (0 <? w_commit w) eqn:Ec; [inversion Hd; subst d; eapply krec_intro; [exact Hin|exact Es|split; [exact Er|reflexivity]]|].
          cbn in Hd. inversion Hd; subst d. exfalso.
          pose proof (wf_wok _ _ Hwf) as Hok. rewrite Forall_forall in Hok. destruct (Hok _ Hin) as [_ Hp]. rewrite Er in Hp.
          pose proof (wo_lt W HW _ _ Hp). apply N.ltb_ge in Ec. lia.
      + destruct rine; [|intros E Hd; inversion E; subst; discriminate].
        destruct rp; intros E Hd; inversion E; subst; [cbn in Hd; discriminate|].
        cbn in Hd. inversion Hd; subst d. unfold write_rollback. cbn [ks_writes].
        eapply krec_intro; [apply put_write_has|reflexivity|reflexivity].
  Qed.

  (* ---- with the record in place a status check is a pure lookup: no change, the determined answer *)
  Lemma cts_record_noop ks k s caller cur rine rp d : wf_ks W ks -> krec (ks_writes ks) s d = true ->
    exists r, check_txn_status_key ks k s caller cur rine rp = (None, r) /\ determined r = Some d.
  Proof.
    intros Hwf Hk. apply krec_elim in Hk. destruct Hk as [w [Hin [Es Hd]]].
    assert (Hs : In s (map w_start (ks_writes ks))) by (rewrite <- Es; apply in_map; exact Hin).
    unfold check_txn_status_key. destruct (own_lock ks s) as [l|] eqn:Eo.
    { apply own_lock_some in Eo. destruct Eo as [El El2]. destruct (wf_lock _ _ Hwf l El) as [_ Hn]. rewrite El2 in Hn. contradiction. }
    destruct (find_start s (ks_writes ks)) as [w1|] eqn:Ef; [|apply find_start_none in Ef; contradiction].
    apply find_start_some in Ef. destruct Ef as [Hin1 Es1].
    assert (w1 = w) by (eapply nodup_map_inj; [exact (wf_nodup _ _ Hwf)|exact Hin1|exact Hin|congruence]). subst w1.
    destruct d as [c|].
    - destruct Hd as [Hr Hc]. rewrite Hr. eexists; split; [reflexivity|]. cbn [determined]. unfold determined3.
      pose proof (wf_wok _ _ Hwf) as Hok. rewrite Forall_forall in Hok. destruct (Hok _ Hin) as [_ Hp]. rewrite Hr in Hp.
      pose proof (wo_lt W HW _ _ Hp). destruct (N.ltb_spec 0 (w_commit w)); [rewrite Hc; reflexivity|lia].
    - rewrite Hd. eexists; split; reflexivity.
  Qed.

  (* ---- the record stays until GC passes the start ts (or the range is destroyed) *)
  Lemma ktrans_krec c k ks x s d : wf_ks W ks -> cmd_in W c -> ktrans c k ks x -> is_gc_over c s = false ->
    krec (ks_writes ks) s d = true -> krec (ks_writes x) s d = true.
  Proof.
    intros Hwf [Hcs Hcp] Ht Hgc Hk. destruct Ht; cbn [ks_writes]; try exact Hk.
    - (* commit of the lock holder: another record *)
      apply krec_elim in Hk. destruct Hk as [w [Hin [Es Hd]]]. eapply krec_intro; [|exact Es|exact Hd].
      apply put_write_keep; [exact Hin|]. cbn [w_commit]. intros Ec.
      eapply no_same_commit; [exact HW|exact Hwf|exact H|apply Hcp; exact H0|exact Hin|exact Ec].
    - (* rollback record *)
      apply krec_elim in Hk. destruct Hk as [w [Hin [Es Hd]]].
      destruct (N.eq_dec (w_commit w) s0) as [Ec|Ec].
      + (* the only record with that version is the rollback record of s0 itself *)
        pose proof (wf_wok _ _ Hwf) as Hok. rewrite Forall_forall in Hok. destruct (Hok _ Hin) as [_ Hp].
        destruct (is_rollback w) eqn:Er.
        * assert (Es0 : s0 = s) by congruence.
          destruct d as [c0|]; [destruct Hd as [Hd _]; congruence|].
          eapply krec_intro; [apply put_write_has|exact Es0|reflexivity].
        * exfalso. apply (wo_disj W HW _ _ s0 Hp); [apply Hcs; exact H|exact Ec].
      + eapply krec_intro; [|exact Es|exact Hd]. apply put_write_keep; [exact Hin|exact Ec].
    - (* gc below the start ts *)
      subst c. cbn [is_gc_over] in Hgc. apply N.leb_gt in Hgc.
      apply krec_elim in Hk. destruct Hk as [w [Hin [Es Hd]]]. eapply krec_intro; [|exact Es|exact Hd].
      apply gc_writes_keep; [exact Hin|]. destruct (wf_no_start_bound W HW _ s Hwf w Hin Es) as [[_ H]|H]; lia.
    - subst c. discriminate.
  Qed.

  Lemma step_record st c k s d : wf_store W st -> cmd_in W c -> is_gc_over c s = false ->
    record_is st k s d = true -> record_is (fst (step st c)) k s d = true.
  Proof.
    intros [Hs Hk] Hc Hgc Hr. unfold record_is, writes_of in *. destruct (step_ktrans st c k Hs) as [E|Ht]; [rewrite E; exact Hr|].
    eapply ktrans_krec; [apply Hk|exact Hc|exact Ht|exact Hgc|exact Hr].
  Qed.

  Lemma run_from_record k s d : forall b st, wf_store W st -> (forall c, In c b -> cmd_in W c) ->
    disciplined_from st b = true -> (forall c, In c b -> is_gc_over c s = false) ->
    record_is st k s d = true -> record_is (run_from st b) k s d = true.
  Proof.
    induction b as [|c r IH]; intros st Hst Hin Hd Hgc Hr; cbn [run_from fold_left]; [exact Hr|].
    cbn [disciplined_from] in Hd. apply andb_true_iff in Hd. destruct Hd as [Hreq Hd].
    apply IH.
    - apply step_wf; [exact HW|exact Hst|apply Hin; left; reflexivity|exact Hreq].
    - intros c' Hc'. apply Hin; right; exact Hc'.
    - exact Hd.
    - intros c' Hc'. apply Hgc; right; exact Hc'.
    - apply step_record; [exact Hst|apply Hin; left; reflexivity|apply Hgc; left; reflexivity|exact Hr].
  Qed.
End Res.

(* ------------------------------------------------------------------ every lock in the store has a positive TTL *)
Definition ttl_pos (ks : kstate) : Prop := forall l, ks_lock ks = Some l -> 0 < l_ttl l.

Lemma rollback_key_lock ks s x : rollback_key ks s = KOk (Some x) -> ks_lock x = None \/ ks_lock x = ks_lock ks.
Proof.
  unfold rollback_key. destruct (own_lock ks s); [intros E; inversion E; left; reflexivity|].
  destruct (find_start s (ks_writes ks)) as [w|]; [destruct (is_rollback w); discriminate|]. intros E; inversion E; right; reflexivity.
Qed.
Lemma resolve_key_lock s c k ks x : resolve_key s c k ks = Some x -> ks_lock x = None.
Proof. unfold resolve_key. destruct (own_lock ks s); [|discriminate]. intros E; inversion E. destruct (0 <? c); reflexivity. Qed.

Lemma kstep_ttl st c k x : ttl_cmd_ok c = true -> kstep st c k x -> ttl_pos (get_ks st k) -> ttl_pos x.
Proof.
  intros Hok H Hp l' El'. unfold ttl_pos in Hp.
  destruct c; cbn [kstep ttl_cmd_ok] in *; cbv zeta in H; remember (get_ks st k) as kst eqn:Eks; clear Eks.
  - (* Prewrite *)
    apply N.ltb_lt in Hok. destruct H as [m [_ [_ H]]]. unfold prewrite_key in H.
    destruct (ks_lock kst) as [l|] eqn:El.
    + destruct (negb (l_start l =? start)); [discriminate|]. destruct (negb (is_pess l)); [discriminate|].
      destruct (ccv _ false assert_on false (ks_writes kst)); [discriminate|]. inversion H; subst x. cbn [ks_lock] in El'.
      inversion El'; subst l'. cbn [l_ttl]. destruct (ttl <? l_ttl l) eqn:E; [apply (Hp l eq_refl)|exact Hok].
    + destruct (m_pess_check m); [discriminate|]. destruct (ccv _ false assert_on false (ks_writes kst)); [discriminate|].
      inversion H; subst x. cbn [ks_lock] in El'. inversion El'; subst l'. exact Hok.
  - (* PessLock *)
    apply N.ltb_lt in Hok. destruct H as [ne [res [_ H]]]. unfold pess_lock_key in H.
    destruct (p_lock_only_if_exists r && negb (p_return_values r)); [discriminate|].
    assert (G : forall already, pess_lock_go kst r k ne already = inr (res, Some x) -> 0 < l_ttl l').
    { intros already. unfold pess_lock_go. destruct (ccv _ true false (p_force r) (ks_writes kst)) as [e|v conflict]; [discriminate|].
      cbv zeta. destruct (match conflict with Some (EWriteConflict _ _ cc _) => _ | Some e => _ | None => _ end) as [e|res0]; [discriminate|].
      destruct (p_lock_only_if_exists r && negb match v with Some _ => true | None => false end); [discriminate|].
      destruct (match already with None => true | Some l => l_for_update l <? p_for_update r end); [|discriminate].
      intros E; inversion E; subst x. cbn [ks_lock] in El'. inversion El'; subst l'. exact Hok. }
    destruct (ks_lock kst) as [l|]; [|eapply G; exact H].
    destruct (negb (l_start l =? p_start r)); [discriminate|]. destruct (negb (is_pess l)); [discriminate|]. eapply G; exact H.
  - unfold pess_rollback_key in H. destruct (pess_rollback_match kst start for_update); [|discriminate]. inversion H; subst x. discriminate.
  - unfold commit_key in H. destruct (own_lock kst start) as [l|].
    + destruct (commit <? l_min_commit l); [discriminate|]. inversion H; subst x. discriminate.
    + destruct (find_start start (ks_writes kst)) as [w|]; [destruct (is_rollback w)|]; discriminate.
  - destruct (rollback_key_lock _ _ _ H) as [E|E]; rewrite E in El'; [discriminate|apply Hp; exact El'].
  - destruct H as [_ H]. unfold cleanup_key in H. destruct (own_lock kst start) as [l|].
    + destruct ((current =? 0) || ttl_expired l current); [|discriminate]. inversion H; subst x. discriminate.
    + destruct (rollback_key_lock _ _ _ H) as [E|E]; rewrite E in El'; [discriminate|apply Hp; exact El'].
  - (* CheckTxnStatus *)
    destruct H as [_ [r H]]. unfold check_txn_status_key in H. destruct (own_lock kst lock_ts) as [l|] eqn:Eo.
    + apply own_lock_some in Eo. destruct Eo as [El _]. destruct (ttl_expired l current).
      * destruct (resolving_pess && is_pess l).
        -- inversion H as [[E1 E2]]. unfold pess_rollback_key in E1. destruct (pess_rollback_match kst (l_start l) (l_for_update l)); [|discriminate].
           inversion E1; subst x. discriminate.
        -- inversion H; subst x. discriminate.
      * destruct (caller =? max_ts); [discriminate|]. destruct (0 <? l_min_commit l); [|discriminate].
        destruct (l_min_commit l <? caller + 1); [|discriminate]. inversion H; subst x. cbn [ks_lock] in El'. inversion El'; subst l'.
        cbn [l_ttl]. apply (Hp l El).
    + destruct (find_start lock_ts (ks_writes kst)) as [w|]; [destruct (is_rollback w); discriminate|].
      destruct rollback_if_not_exist; [|discriminate]. destruct resolving_pess; [discriminate|].
      inversion H; subst x. unfold write_rollback in El'. cbn [ks_lock] in El'. apply Hp; exact El'.
  - (* HeartBeat *)
    destruct H as [Ek [r H]]. subst k0. unfold heartbeat_key in H. destruct (own_lock kst start) as [l|] eqn:Eo; [|discriminate].
    apply own_lock_some in Eo. destruct Eo as [El _]. destruct (negb (l_primary l =? k)); [discriminate|].
    destruct (N.ltb_spec (l_ttl l) advise); [|discriminate]. inversion H; subst x. cbn [ks_lock] in El'. inversion El'; subst l'.
    cbn [l_ttl]. specialize (Hp l El). lia.
  - destruct H as [_ H]. rewrite (resolve_key_lock _ _ _ _ _ H) in El'. discriminate.
  - destruct H as [_ H]. unfold batch_resolve_key in H. destruct (ks_lock kst) as [l|]; [|discriminate].
    destruct (assoc_ts (l_start l) infos); [|discriminate]. rewrite (resolve_key_lock _ _ _ _ _ H) in El'. discriminate.
  - destruct H.
  - destruct H as [_ H]. unfold gc_key in H. inversion H; subst x. cbn [ks_lock] in El'. apply Hp; exact El'.
  - destruct H. - destruct H. - destruct H. - destruct H.
  - destruct H.
  - destruct H as [_ H]. subst x. discriminate.
  - destruct H.
Qed.

Lemma run_ttl_pos : forall b st, keys_sorted st -> (forall k, ttl_pos (get_ks st k)) -> forallb ttl_cmd_ok b = true ->
  forall k, ttl_pos (get_ks (run_from st b) k).
Proof.
  induction b as [|c r IH]; intros st Hs Hp Hok; cbn [run_from fold_left]; [exact Hp|].
  cbn [forallb] in Hok. apply andb_true_iff in Hok. destruct Hok as [H1 H2].
  destruct (step_inv ttl_pos st c Hs Hp) as [Hs' Hp'].
  { intros k x Hk Hq. eapply kstep_ttl; eassumption. }
  apply IH; assumption.
Qed.

(* ------------------------------------------------------------------ statements over command sequences *)
(* (A) a cacheable answer is final: its record lies on the primary *)
Lemma cacheable_final cmds k s caller cur rine rp d :
  let c := CheckTxnStatus k s caller cur rine rp in
  oracle_ts (cmds ++ [c]) = true -> (forall l, lock_of (run cmds) k = Some l -> 0 < l_ttl l) ->
  determined (snd (step (run cmds) c)) = Some d -> record_is (run (cmds ++ [c])) k s d = true.
Proof.
  intros c Ho Httl Hd. destruct (oracle_app_wf cmds [c] Ho) as [HW [[Hs Hk] _]].
  rewrite run_app. cbn [run_from fold_left]. subst c. cbn [step] in *.
  destruct (check_txn_status_key (get_ks (run cmds) k) k s caller cur rine rp) as [o r] eqn:E. cbn [fst snd] in *.
  pose proof (cts_determined_record _ HW _ _ _ _ _ _ _ _ _ _ (Hk k) Httl E Hd) as H.
  unfold record_is, writes_of. rewrite get_apply_opt by exact Hs. rewrite N.eqb_refl. destruct o; exact H.
Qed.

(* (A') the same from the sequence discipline "every lock is written with a positive TTL" *)
Lemma cacheable_final_disc cmds k s caller cur rine rp d :
  let c := CheckTxnStatus k s caller cur rine rp in
  oracle_ts (cmds ++ [c]) = true -> ttl_discipline cmds = true ->
  determined (snd (step (run cmds) c)) = Some d -> record_is (run (cmds ++ [c])) k s d = true.
Proof.
  intros c Ho Ht Hd. apply cacheable_final; [exact Ho| |exact Hd].
  apply (run_ttl_pos cmds [] keys_sorted_nil); [intros k0 l El; discriminate|exact Ht].
Qed.

(* (B) the memoised answer stays the store's answer: whatever follows (no GC over the start ts, no destroyed range), a
   status check of that transaction on that key changes nothing and answers the same determined status *)
Lemma memo_agrees a b k s d caller cur rine rp :
  oracle_ts (a ++ b) = true -> record_is (run a) k s d = true -> (forall c, In c b -> is_gc_over c s = false) ->
  exists r, step (run (a ++ b)) (CheckTxnStatus k s caller cur rine rp) = (run (a ++ b), r) /\ determined r = Some d.
Proof.
  intros Ho Hr Hgc. destruct (oracle_app_wf a b Ho) as [HW [Hwf Hd]].
  assert (Hr' : record_is (run (a ++ b)) k s d = true).
  { rewrite run_app. apply run_from_record with (W := world_of (a ++ b)); auto.
    intros c Hc. apply cmd_in_world_of. apply in_or_app; right; exact Hc. }
  pose proof (oracle_run_wf (a ++ b) Ho) as [Hs Hk].
  destruct (cts_record_noop _ HW (get_ks (run (a ++ b)) k) k s caller cur rine rp d (Hk k) Hr') as [r [E Hdet]].
  exists r. split; [|exact Hdet]. cbn [step]. rewrite E. reflexivity.
Qed.

(* (C) skipping the request because of a memoised answer changes neither the store nor, hence, the committed history
   and the verdict of the history checker *)
Lemma memo_skip a b k s d caller cur rine rp obs :
  let c := CheckTxnStatus k s caller cur rine rp in
  oracle_ts (a ++ c :: b) = true -> record_is (run a) k s d = true ->
  determined (snd (step (run a) c)) = Some d /\ run (a ++ c :: b) = run (a ++ b) /\
  si_ok (full_history (run (a ++ c :: b))) obs = si_ok (full_history (run (a ++ b))) obs.
Proof.
  intros c Ho Hr. destruct (oracle_app_wf a (c :: b) Ho) as [HW [[Hs Hk] _]].
  destruct (cts_record_noop _ HW (get_ks (run a) k) k s caller cur rine rp d (Hk k) Hr) as [r [E Hdet]].
  assert (Est : step (run a) c = (run a, r)) by (subst c; cbn [step]; rewrite E; reflexivity).
  assert (Erun : run (a ++ c :: b) = run (a ++ b)).
  { rewrite !run_app. cbn [run_from fold_left]. rewrite Est. reflexivity. }
  split; [rewrite Est; exact Hdet|]. split; [exact Erun|rewrite Erun; reflexivity].
Qed.

(* ------------------------------------------------------------------ the client glue keeps only final answers *)
Lemma cacheable_spec v : cacheable v = cs_committed v || cs_rolledback v.
Proof.
  destruct v as [[ttl c] a]. unfold cacheable, determined3, cs_committed, cs_rolledback.
  destruct (0 <? c) eqn:Ec; [reflexivity|]. apply N.ltb_ge in Ec. assert (c = 0) by lia. subst c. cbn [N.eqb orb].
  rewrite andb_true_r. destruct ((ttl =? 0) && rollback_action a); reflexivity.
Qed.

(* every memoised status is cacheable; a hit returns the memoised status without a request; a miss sends one request and
   memoises its answer iff it is cacheable *)
Lemma get_txn_status_inv cache txn ans : Forall (fun e => cacheable (snd e) = true) cache ->
  let '(v, cache', sent) := get_txn_status cache txn ans in
  Forall (fun e => cacheable (snd e) = true) cache' /\
  (sent = false -> memo_get cache txn = Some v /\ cache' = cache /\ cacheable v = true) /\
  (sent = true -> memo_get cache txn = None /\ v = cview ans /\ memo_get cache' txn = (if cacheable v then Some v else None)).
Proof.
  intros Hc. unfold get_txn_status. destruct (memo_get cache txn) as [v|] eqn:Em.
  - split; [exact Hc|]. split; [|discriminate]. intros _. split; [reflexivity|]. split; [reflexivity|].
    clear -Hc Em. induction cache as [|[t0 v0] r IH]; [discriminate|]. inversion Hc; subst. cbn [memo_get] in Em.
    destruct (t0 =? txn); [inversion Em; subst; assumption|apply IH; assumption].
  - cbv zeta. destruct (cacheable (cview ans)) eqn:Ec.
    + split; [constructor; assumption|]. split; [discriminate|]. intros _. split; [reflexivity|]. split; [reflexivity|].
      cbn [memo_get]. rewrite N.eqb_refl. reflexivity.
    + split; [exact Hc|]. split; [discriminate|]. intros _. split; [reflexivity|]. split; [reflexivity|exact Em].
Qed.

(* ------------------------------------------------------------------ the loop of getTxnStatusFromLock, for all scripts *)
Lemma memo_get_cacheable cache txn v : Forall (fun e => cacheable (snd e) = true) cache -> memo_get cache txn = Some v -> cacheable v = true.
Proof.
  induction cache as [|[t0 v0] r IH]; intros Hc Em; [discriminate|]. inversion Hc; subst. cbn [memo_get] in Em.
  destruct (t0 =? txn); [inversion Em; subst; assumption|apply IH; assumption].
Qed.

Lemma status_loop_spec l : forall fuel cache script rine, Forall (fun e => cacheable (snd e) = true) cache ->
  let '(r, c', rqs, lft) := status_loop fuel cache l script rine in
  Forall (fun e => cacheable (snd e) = true) c' /\
  (forall rq, In rq rqs -> (rq_rine rq = true -> rine = true \/ li_expired l = true)
                           /\ rq_cur_max rq = (li_ttl l =? 0) /\ rq_pess rq = li_pess l) /\
  (forall v, r = SrStatus v -> cacheable v = true -> memo_get c' (li_txn l) = Some v) /\
  (forall v, r = SrStatus v -> cacheable v = false -> c' = cache).
Proof.
  induction fuel as [|fuel IH]; intros cache script rine Hc; cbn [status_loop]; cbv zeta.
  - split; [exact Hc|]. split; [intros rq []|]. split; intros v E; discriminate.
  - destruct (memo_get cache (li_txn l)) as [v0|] eqn:Em.
    + split; [exact Hc|]. split; [intros rq []|]. split; [intros v E _; inversion E; subst; exact Em|reflexivity].
    + assert (Hrq : forall rq, rq = mkReq rine (li_ttl l =? 0) (li_pess l) ->
                (rq_rine rq = true -> rine = true \/ li_expired l = true) /\ rq_cur_max rq = (li_ttl l =? 0) /\ rq_pess rq = li_pess l).
      { intros rq0 E0. rewrite E0. cbn. repeat split. intros H0; left; exact H0. }
      destruct script as [|[a|] rest].
      * split; [exact Hc|]. split; [intros rq [E|[]]; apply Hrq; symmetry; exact E|]. split; intros v E; discriminate.
      * destruct (cacheable (cview a)) eqn:Ec.
        -- split; [constructor; assumption|]. split; [intros rq [E|[]]; apply Hrq; symmetry; exact E|]. split.
           ++ intros v E _. inversion E; subst. cbn [memo_get]. rewrite N.eqb_refl. reflexivity.
           ++ intros v E Hn. inversion E; subst. congruence.
        -- split; [exact Hc|]. split; [intros rq [E|[]]; apply Hrq; symmetry; exact E|]. split.
           ++ intros v E Hn. inversion E; subst. congruence.
           ++ reflexivity.
      * destruct (li_expired l) eqn:Ee.
        -- specialize (IH cache rest true Hc). destruct (status_loop fuel cache l rest true) as [[[r c] rqs] lft].
           destruct IH as [I1 [I2 [I3 I4]]]. split; [exact I1|]. split; [|split; assumption].
           intros rq [E|Hin]; [apply Hrq; symmetry; exact E|]. destruct (I2 rq Hin) as [J1 J2]. split; [intros _; right; reflexivity|exact J2].
        -- destruct (li_pess l) eqn:Ep.
           ++ split; [exact Hc|]. split; [intros rq [E|[]]; apply Hrq; symmetry; exact E|]. split; [|reflexivity].
              intros v E Hv. inversion E; subst v. exfalso. unfold li_expired in Ee. apply N.leb_gt in Ee.
              unfold cacheable, determined3 in Hv. cbn in Hv. destruct (N.eqb_spec (li_ttl l) 0); [lia|]. cbn in Hv. discriminate.
           ++ specialize (IH cache rest rine Hc). destruct (status_loop fuel cache l rest rine) as [[[r c] rqs] lft].
              destruct IH as [I1 [I2 [I3 I4]]]. split; [exact I1|]. split; [|split; assumption].
              intros rq [E|Hin]; [apply Hrq; symmetry; exact E|apply I2; exact Hin].
Qed.

Lemma status_from_lock_spec cache l script : Forall (fun e => cacheable (snd e) = true) cache ->
  let '(r, c', rqs, lft) := status_from_lock cache l script in
  Forall (fun e => cacheable (snd e) = true) c' /\
  (forall rq, In rq rqs -> (rq_rine rq = true -> li_expired l = true) /\ rq_cur_max rq = (li_ttl l =? 0) /\ rq_pess rq = li_pess l) /\
  (forall v, r = SrStatus v -> cacheable v = true -> memo_get c' (li_txn l) = Some v) /\
  (forall v, r = SrStatus v -> cacheable v = false -> c' = cache).
Proof.
  intros Hc. unfold status_from_lock. pose proof (status_loop_spec l (S (length script)) cache script false Hc) as H.
  destruct (status_loop (S (length script)) cache l script false) as [[[r c] rqs] lft].
  destruct H as [H1 [H2 [H3 H4]]]. split; [exact H1|]. split; [|split; assumption].
  intros rq Hin. destruct (H2 rq Hin) as [J1 J2]. split; [|exact J2]. intros Hr. destruct (J1 Hr) as [E|E]; [discriminate|exact E].
Qed.
