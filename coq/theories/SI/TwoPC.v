(* SI/TwoPC.v — 2PC without an oracle-order hypothesis: a joint trace of oracle issues, store requests and
   acknowledgements. The client rules ([trules], all of them request-stream rules of C04) are:
     (T1) the oracle issues strictly increasing timestamps;
     (T2) a commit ts carried by a commit / resolve request of transaction s was issued AFTER every prewrite
          of s that placed a lock on k was executed (C04: no CommitSend of S before all mutations of S have a
          successful PrewriteReply, and the commit ts is fetched after those replies: GetTs follows the acks);
     (T3) an acknowledged 2PC commit ts was issued by the oracle before the acknowledgement;
   and a reader's ts was issued before the read was sent (hypothesis [t <= last issued]). From these the
   stability predicate of C01_read_stable and commit_rule 0 follow. Executable definitions + proofs. *)
From Verif Require Import SI.Model SI.ProofsTrans SI.ProofsRead SI.ProofsKeyed SI.AsyncStore Mvcc.ProofsStore Mvcc.ProofsKey
     Mvcc.ProofsKstep Mvcc.ProofsShape Mvcc.ProofsStep Mvcc.ProofsMarker.

Inductive tev :=
| TTso (t : ts)        (* the oracle issues t *)
| TReq (c : cmd)       (* the store executes a request *)
| TAck (c : ts).       (* a 2PC transaction is acknowledged with commit ts c *)

(* the transaction whose prewrite lock this command places on k (a repeated prewrite over the own lock, a rejected or
   a foreign one places nothing) *)
Definition placed_by (st : store) (c : cmd) (k : key) : option ts :=
  match c with
  | Prewrite ms _ s _ _ _ _ =>
    if existsb (fun m => m_key m =? k) ms && negb (is_retry st s k)
       && match lock_of (fst (step st c)) k with Some l' => l_start l' =? s | None => false end
    then Some s else None
  | _ => None
  end.
Definition pl_upd (PL : list (ts * ts)) (st : store) (c : cmd) (k : key) (T : ts) : list (ts * ts) :=
  match placed_by st c k with Some s => (s, T) :: PL | None => PL end.
(* (T2): every pair of the command was issued after the recorded placements of its transaction *)
Definition after_placements (PL : list (ts * ts)) (c : cmd) : bool :=
  forallb (fun p => forallb (fun q => negb (fst q =? fst p) || (snd q <? snd p)) PL) (cmd_pairs c).

Fixpoint trules (k : key) (st : store) (T : ts) (PL : list (ts * ts)) (tr : list tev) : bool :=
  match tr with
  | [] => true
  | TTso t :: r => (T <? t) && trules k st t PL r
  | TReq c :: r => after_placements PL c && trules k (fst (step st c)) T (pl_upd PL st c k T) r
  | TAck c :: r => (c <=? T) && trules k st T PL r
  end.

Fixpoint cmds_of (tr : list tev) : list cmd :=
  match tr with [] => [] | TReq c :: r => c :: cmds_of r | _ :: r => cmds_of r end.
(* the last timestamp issued (0 = none) *)
Fixpoint tlast (T : ts) (tr : list tev) : ts :=
  match tr with [] => T | TTso t :: r => tlast t r | _ :: r => tlast T r end.
Fixpoint pl_run (k : key) (st : store) (T : ts) (PL : list (ts * ts)) (tr : list tev) : list (ts * ts) :=
  match tr with
  | [] => PL
  | TTso t :: r => pl_run k st t PL r
  | TReq c :: r => pl_run k (fst (step st c)) T (pl_upd PL st c k T) r
  | TAck _ :: r => pl_run k st T PL r
  end.

Lemma cmds_of_app x y : cmds_of (x ++ y) = cmds_of x ++ cmds_of y.
Proof. induction x as [|[t|c|c] r IH]; cbn [app cmds_of]; [reflexivity|exact IH|rewrite IH; reflexivity|exact IH]. Qed.

Lemma trules_app k : forall x st T PL y, trules k st T PL (x ++ y) = true ->
  trules k st T PL x = true /\ trules k (run_from st (cmds_of x)) (tlast T x) (pl_run k st T PL x) y = true.
Proof.
  induction x as [|[t|c|c] r IH]; intros st T PL y H; cbn [app trules cmds_of tlast pl_run run_from fold_left] in *.
  - split; [reflexivity|exact H].
  - apply andb_true_iff in H. destruct H as [H1 H2]. destruct (IH _ _ _ _ H2) as [H3 H4]. rewrite H1, H3. split; [reflexivity|exact H4].
  - apply andb_true_iff in H. destruct H as [H1 H2]. destruct (IH _ _ _ _ H2) as [H3 H4]. rewrite H1, H3. split; [reflexivity|exact H4].
  - apply andb_true_iff in H. destruct H as [H1 H2]. destruct (IH _ _ _ _ H2) as [H3 H4]. rewrite H1, H3. split; [reflexivity|exact H4].
Qed.

Lemma trules_tlast k : forall x st T PL, trules k st T PL x = true -> T <= tlast T x.
Proof.
  induction x as [|[t|c|c] r IH]; intros st T PL H; cbn [trules tlast] in *; [lia| | |];
    apply andb_true_iff in H; destruct H as [H1 H2]; specialize (IH _ _ _ H2); [apply N.ltb_lt in H1; lia|exact IH|exact IH].
Qed.

(* ------------------------------------------------------------------ read stability from the joint-trace rules *)
Section TStable.
  Variables (k : key) (t : ts) (Pm : list (ts * ts)).

  (* the Put/Delete lock on k belongs to a transaction covered by the met rule, or was placed when the oracle had
     already issued t *)
  Definition goodT (st : store) (PL : list (ts * ts)) : Prop :=
    forall l, lock_of st k = Some l ->
      data_lock l = false \/ pairs_above t (l_start l) Pm = true \/ exists Tj, In (l_start l, Tj) PL /\ t <= Tj.

  Lemma placed_by_intro st ms p s fu ttl mc ao m l' :
    In m ms -> m_key m = k -> is_retry st s k = false ->
    lock_of (fst (step st (Prewrite ms p s fu ttl mc ao))) k = Some l' -> l_start l' = s ->
    placed_by st (Prewrite ms p s fu ttl mc ao) k = Some s.
  Proof.
    intros Hin Ek Er El Es. unfold placed_by. rewrite Er, El, Es, N.eqb_refl.
    assert (existsb (fun m0 => m_key m0 =? k) ms = true) as ->; [|reflexivity].
    apply existsb_exists. exists m. split; [exact Hin|apply N.eqb_eq; exact Ek].
  Qed.

  Lemma tstep_good st c T PL : keys_sorted st -> t <= T -> goodT st PL -> goodT (fst (step st c)) (pl_upd PL st c k T).
  Proof.
    intros Hs HT Hg l' El'.
    assert (Hinc : forall x, In x PL -> In x (pl_upd PL st c k T)).
    { intros x Hx. unfold pl_upd. destruct (placed_by st c k); [right; exact Hx|exact Hx]. }
    destruct (lock_after k st c l' Hs El') as [[l [El [Es Eo]]]|[[ms [p [s [fu [ttl [mc [ao [m [Ec [Hin [Ek [Es Er]]]]]]]]]]]]|Hd]].
    - assert (Ed : data_lock l' = data_lock l) by (unfold data_lock; rewrite Eo; reflexivity).
      destruct (Hg l El) as [H|[H|[Tj [Hin Hle]]]].
      + left. congruence.
      + right; left. rewrite Es. exact H.
      + right; right. exists Tj. rewrite Es. split; [apply Hinc; exact Hin|exact Hle].
    - right; right. exists T. split; [|exact HT]. subst c. unfold pl_upd.
      rewrite (placed_by_intro st ms p s fu ttl mc ao m l' Hin Ek Er El' Es). rewrite Es. left; reflexivity.
    - left; exact Hd.
  Qed.

  Lemma treq_safe st PL c : goodT st PL -> incl (cmd_pairs c) Pm -> gc_ok t c = true -> after_placements PL c = true ->
    safe_step st c k t = true.
  Proof.
    intros Hg Hi Hgc Ha. unfold safe_step. rewrite Hgc. cbn [andb].
    destruct (lock_of st k) as [l|] eqn:El; [|reflexivity].
    destruct (Hg l El) as [H|[H|[Tj [Hin Hle]]]].
    - rewrite H. reflexivity.
    - apply orb_true_iff; right. eapply pairs_above_incl; [exact Hi|exact H].
    - apply orb_true_iff; right. unfold after_placements in Ha. unfold pairs_above. rewrite forallb_forall in *.
      intros x Hx. specialize (Ha x Hx). rewrite forallb_forall in Ha. specialize (Ha _ Hin). cbn [fst snd] in Ha.
      rewrite N.eqb_sym in Ha. destruct (fst x =? l_start l); cbn [negb orb] in *; [|reflexivity].
      apply N.ltb_lt in Ha. apply N.ltb_lt. lia.
  Qed.

  Lemma trules_stable : forall b st T PL, keys_sorted st -> t <= T -> goodT st PL ->
    incl (flat_map cmd_pairs (cmds_of b)) Pm -> forallb (gc_ok t) (cmds_of b) = true ->
    trules k st T PL b = true -> stable_suffix st k t (cmds_of b) = true.
  Proof.
    induction b as [|[t'|c|c] r IH]; intros st T PL Hs HT Hg Hi Hgc H; cbn [cmds_of trules] in *; [reflexivity| | |].
    - apply andb_true_iff in H. destruct H as [H1 H2]. apply N.ltb_lt in H1. apply (IH st t' PL); [exact Hs|lia|exact Hg|exact Hi|exact Hgc|exact H2].
    - apply andb_true_iff in H. destruct H as [H1 H2]. cbn [flat_map forallb stable_suffix] in *.
      apply andb_true_iff in Hgc. destruct Hgc as [Hgc1 Hgc2].
      apply andb_true_iff; split.
      + eapply treq_safe; [exact Hg|intros x Hx; apply Hi; apply in_or_app; left; exact Hx|exact Hgc1|exact H1].
      + apply (IH (fst (step st c)) T (pl_upd PL st c k T)); [apply (step_kstep st c Hs)|exact HT|apply tstep_good; assumption| |exact Hgc2|exact H2].
        intros x Hx. apply Hi. apply in_or_app; right; exact Hx.
    - apply andb_true_iff in H. destruct H as [_ H2]. apply (IH st T PL); assumption.
  Qed.
End TStable.

(* a read of k at t is served on the store reached by the trace [A]; its ts had been issued ([t <= tlast 0 A]);
   [B] follows. No oracle-order hypothesis: (T1)-(T3) are checked along the trace. *)
Theorem twopc_read_stable A B k t :
  let a := cmds_of A in let b := cmds_of B in
  trules k [] 0 [] (A ++ B) = true -> t <= tlast 0 A ->
  oracle_ts (a ++ b) = true -> forallb (gc_ok t) b = true -> met_rule (run a) k t (flat_map cmd_pairs b) = true ->
  stable_suffix (run a) k t b = true /\ read_at (run (a ++ b)) k t = read_at (run a) k t.
Proof.
  intros a b Hr Ht Ho Hgc Hmet.
  assert (Hst : stable_suffix (run a) k t b = true).
  { destruct (trules_app k A [] 0 [] B Hr) as [_ H2]. fold a in H2. change (run_from [] a) with (run a) in H2.
    destruct (oracle_app_wf _ _ Ho) as [HW [Hwf _]].
    apply (trules_stable k t (flat_map cmd_pairs b) B (run a) (tlast 0 A) (pl_run k [] 0 [] A)); [exact (proj1 Hwf)|exact Ht| |apply incl_refl|exact Hgc|exact H2].
    intros l El. unfold met_rule in Hmet. rewrite El in Hmet.
    apply orb_true_iff in Hmet. destruct Hmet as [Hmet|Hmet]; [|right; left; exact Hmet].
    apply orb_true_iff in Hmet. destruct Hmet as [Hmet|Hmet]; [left; apply negb_true_iff; exact Hmet|right; left].
    apply N.ltb_lt in Hmet. unfold pairs_above. apply forallb_forall. intros [s c] Hx. cbn [fst snd].
    destruct (N.eqb_spec s (l_start l)) as [Es|Es]; cbn [negb orb]; [|reflexivity]. apply N.ltb_lt.
    assert (Hin : In (s, c) (w_pairs (world_of (a ++ b)))).
    { cbn [world_of w_pairs]. rewrite flat_map_app. apply in_or_app; right; exact Hx. }
    pose proof (wo_lt _ HW _ _ Hin). lia. }
  split; [exact Hst|]. apply read_stable; assumption.
Qed.

(* commit_rule 0 derived: every timestamp issued after the acknowledgement of a 2PC transaction is above its commit ts *)
Theorem twopc_external_consistency k p c q s r :
  trules k [] 0 [] (p ++ TAck c :: q ++ TTso s :: r) = true -> c < s.
Proof.
  intros H. destruct (trules_app k p [] 0 [] _ H) as [_ H1].
  cbn [trules] in H1. apply andb_true_iff in H1. destruct H1 as [Hc H1]. apply N.leb_le in Hc.
  destruct (trules_app k q _ _ _ _ H1) as [Hq H2]. pose proof (trules_tlast k q _ _ _ Hq) as Hle.
  cbn [trules] in H2. apply andb_true_iff in H2. destruct H2 as [Hlt _]. apply N.ltb_lt in Hlt. lia.
Qed.
