(* SI/ProofsInsPoint.v — a committed optimistic insert: in every reachable store the key has no value
   just below the insert's commit ts (the python oracle's "insert semantics" clause on the final history). *)
From Verif Require Import SI.Model SI.ProofsTrans SI.ProofsRead SI.ProofsWW SI.ProofsIns Mvcc.ProofsStore Mvcc.ProofsKey
     Mvcc.ProofsKstep Mvcc.ProofsShape Mvcc.ProofsStep Mvcc.ProofsRead Mvcc.ProofsMarker.
From Coq Require Import Sorted.

(* two read timestamps at or above every Put/Delete record read the same *)
Lemma read_top ws t t' : (forall w, In w ws -> is_data w = true -> w_commit w <= t) ->
  (forall w, In w ws -> is_data w = true -> w_commit w <= t') -> read_writes ws t = read_writes ws t'.
Proof.
  induction ws as [|w r IH]; intros H H'; [reflexivity|]. cbn [read_writes].
  assert (Hr : read_writes r t = read_writes r t').
  { apply IH; intros x Hx; [apply H|apply H']; right; exact Hx. }
  pose proof (H w (or_introl eq_refl)) as Hw. pose proof (H' w (or_introl eq_refl)) as Hw'. unfold is_data in Hw, Hw'.
  destruct (w_kind w); try exact Hr.
  - specialize (Hw eq_refl). specialize (Hw' eq_refl).
    destruct (N.leb_spec (w_commit w) t); [|lia]. destruct (N.leb_spec (w_commit w) t'); [reflexivity|lia].
  - specialize (Hw eq_refl). specialize (Hw' eq_refl).
    destruct (N.leb_spec (w_commit w) t); [|lia]. destruct (N.leb_spec (w_commit w) t'); [reflexivity|lia].
Qed.

(* GC never makes an absent key present *)
Lemma gc_none_stays sp t : forall ws keep, desc ws -> read_writes ws t = None ->
  read_writes (gc_writes sp keep ws) t = None.
Proof.
  unfold desc. induction ws as [|w r IH]; intros keep Hd H; [reflexivity|].
  inversion Hd as [|? ? Hr Hf]; subst. rewrite Forall_forall in Hf. cbn [gc_writes].
  destruct (N.ltb_spec sp (w_commit w)) as [Hsp|Hsp].
  - cbn [read_writes] in *. destruct (w_kind w).
    + destruct (w_commit w <=? t); [discriminate|apply IH; assumption].
    + destruct (w_commit w <=? t); [reflexivity|apply IH; assumption].
    + apply IH; assumption.
    + apply IH; assumption.
  - cbn [read_writes] in H. destruct (w_kind w) eqn:Ek.
    + destruct (w_commit w <=? t) eqn:Et; [discriminate|]. destruct keep; [|apply IH; assumption].
      cbn [read_writes]. rewrite Ek, Et. apply IH; assumption.
    + rewrite gc_writes_all_old; [reflexivity|]. intros x Hx. specialize (Hf x Hx). lia.
    + apply IH; assumption.
    + apply IH; assumption.
Qed.

Lemma prewrite_step_cases st ms p s fu ttl mc ao :
  fst (step st (Prewrite ms p s fu ttl mc ao)) = st \/
  exists es, snd (step st (Prewrite ms p s fu ttl mc ao)) = RErrs es /\ has_err es = false.
Proof.
  cbn [step]. destruct (prewrite_all st st ms p s fu ttl mc ao) as [acc es]. cbn [fst snd].
  destruct (has_err es) eqn:E; [left; reflexivity|right; exists es; split; [reflexivity|exact E]].
Qed.

Section InsPoint.
  Variable W : world.
  Hypothesis HW : World_ok W.
  Variables (k : key) (s : ts).

  Record iinv (ks : kstate) : Prop := {
    ii_nopess : forall l, ks_lock ks = Some l -> l_start l = s -> is_pess l = false;
    ii_lock : forall l, ks_lock ks = Some l -> l_start l = s ->
              (forall w, In w (ks_writes ks) -> is_data w = true -> w_commit w <= s) /\ read_writes (ks_writes ks) s = None;
    ii_rec : forall w, In w (ks_writes ks) -> w_start w = s -> w_kind w = WPut ->
             read_writes (ks_writes ks) (w_commit w - 1) = None }.

  Lemma iinv_empty : iinv empty_ks.
  Proof. split; cbn [empty_ks ks_lock ks_writes]; intros; try discriminate; contradiction. Qed.

  Lemma data_nonrb w : is_data w = true -> is_rollback w = false.
  Proof. unfold is_data, is_rollback. destruct (w_kind w); congruence. Qed.
  Lemma put_nonrb w : w_kind w = WPut -> is_rollback w = false.
  Proof. unfold is_rollback. intros E; rewrite E; reflexivity. Qed.

  Lemma step_iinv st c g : wf_store W st -> cmd_in W c -> lock_req_ok st c = true ->
    ginv W st g -> ins_cmd_ok k s c = true -> iinv (get_ks st k) -> iinv (get_ks (fst (step st c)) k).
  Proof.
    intros Hwf Hc Hreq Hg Hins Hi.
    pose proof (step_wf W HW st c Hwf Hc Hreq) as [_ Hwf']. specialize (Hwf' k).
    destruct Hwf as [Hs Hk]. pose proof (Hk k) as Hwk. pose proof (Hg k) as Hkinv.
    destruct (step_ktrans st c k Hs) as [E|Ht]; [rewrite E; exact Hi|].
    remember (get_ks (fst (step st c)) k) as x eqn:Ex.
    destruct Hc as [Hcs Hcp]. destruct Hi as [I0 I1 I2].
    destruct Ht.
    - (* fresh prewrite *)
      subst c. destruct (N.eqb_spec s0 s) as [Es|Es].
      + rewrite Es in *. clear Es. cbn [ins_cmd_ok] in Hins. rewrite N.eqb_refl in Hins. cbn [negb orb] in Hins.
        apply andb_true_iff in Hins. destruct Hins as [Hfu Hall]. apply N.eqb_eq in Hfu. subst fu.
        rewrite forallb_forall in Hall. specialize (Hall m H0). rewrite H1, N.eqb_refl in Hall. cbn [negb orb] in Hall.
        assert (Hop : is_insert m = true) by (unfold is_insert; unfold is_ins_op in Hall; destruct (m_op m); try discriminate; reflexivity).
        destruct (prewrite_step_cases st ms p s 0 ttl mc ao) as [Esame|[es [Hsnd Hes]]].
        { exfalso. rewrite Esame in Ex. rewrite <- Ex in H2. discriminate. }
        assert (Hread : read_writes (ks_writes (get_ks st k)) s = None).
        { destruct (insert_accepted_absent st ms p s ttl mc ao m es H0 Hop Hsnd Hes) as [Hget|[l [El _]]].
          - rewrite get_unfold in Hget. rewrite H1 in Hget. unfold get_ks_value in Hget. rewrite H2 in Hget.
            cbn [rd_resp] in Hget. inversion Hget; reflexivity.
          - unfold lock_of in El. rewrite H1, H2 in El. discriminate. }
        split; cbn [ks_lock ks_writes].
        * intros l El _. inversion El; subst; assumption.
        * intros l El _. split; [|exact Hread]. intros w Hw _.
          pose proof (ccv_ok_below _ _ _ _ _ _ (wf_desc _ _ Hwk) H3 w Hw) as Hle. exact Hle.
        * exact I2.
      + split; cbn [ks_lock ks_writes].
        * intros l El Es'. inversion El; subst. contradiction.
        * intros l El Es'. inversion El; subst. contradiction.
        * exact I2.
    - (* prewrite over an own pessimistic lock: not for s *)
      subst c. split; cbn [ks_lock ks_writes].
      + intros l0 El Es'. inversion El; subst; assumption.
      + intros l0 El Es'. inversion El; subst l0. exfalso. rewrite H5 in Es'. rewrite Es' in H3.
        rewrite (I0 l H2 H3) in H4. discriminate.
      + exact I2.
    - (* pessimistic lock: not by s on k *)
      subst c. cbn [ins_cmd_ok] in Hins.
      assert (Hne : p_start r <> s).
      { intros E. rewrite E, N.eqb_refl in Hins. cbn [negb orb] in Hins. apply negb_true_iff in Hins.
        assert (existsb (fun kb => fst kb =? k) (p_keys r) = true); [|congruence].
        apply existsb_exists. exists (k, ne). split; [exact H0|apply N.eqb_refl]. }
      split; cbn [ks_lock ks_writes].
      + intros l El Es'. inversion El; subst l. cbn [l_start] in Es'. contradiction.
      + intros l El Es'. inversion El; subst l. cbn [l_start] in Es'. contradiction.
      + exact I2.
    - (* unlock *)
      split; cbn [ks_lock ks_writes]; try (intros; discriminate). exact I2.
    - (* commit of the lock holder l at cm *)
      assert (Hp : In (l_start l, cm) (w_pairs W)) by (apply Hcp; exact H0).
      pose proof (wo_lt W HW _ _ Hp) as Hlt.
      set (w0 := mkWrite (wkind_of_op (l_op l)) (l_start l) cm (l_value l)) in *.
      assert (Hinert : forall t, t < cm -> read_writes (put_write w0 (ks_writes (get_ks st k))) t = read_writes (ks_writes (get_ks st k)) t).
      { intros t Ht. apply read_put_inert; cbn [w_commit w0]; [right; exact Ht|]. intros y Hy Ec. right. lia. }
      split; cbn [ks_lock ks_writes]; try (intros; discriminate).
      intros w Hw Esw Ekw. apply put_write_in in Hw. destruct Hw as [E|Hw].
      + subst w. cbn [w_start w_commit w0] in *. rewrite Hinert by lia.
        destruct (I1 l H Esw) as [Hbelow Hread].
        rewrite (read_top _ (cm - 1) s); [exact Hread| |exact Hbelow].
        intros y Hy Hd. specialize (Hbelow y Hy Hd). lia.
      + pose proof (ki_lock _ _ _ Hkinv l H w Hw (put_nonrb w Ekw)) as H1'.
        pose proof (ki_pt _ _ _ Hkinv l H cm Hp) as H2'.
        rewrite Hinert by lia. apply I2; assumption.
    - (* rollback record *)
      assert (Hs0 : In s0 (w_starts W)) by (apply Hcs; exact H).
      assert (Hinert : forall t, read_writes (put_write (rollback_write s0) (ks_writes (get_ks st k))) t = read_writes (ks_writes (get_ks st k)) t).
      { intros t. apply read_put_inert; [left; reflexivity|]. intros y Hy Ec. left.
        eapply same_commit_rollback; [exact HW|exact Hwk|exact Hs0|exact Hy|exact Ec]. }
      assert (Hsub : forall w, In w (put_write (rollback_write s0) (ks_writes (get_ks st k))) -> is_rollback w = false ->
                               In w (ks_writes (get_ks st k))).
      { intros w Hin Hr. apply put_write_in in Hin. destruct Hin as [E|Hin]; [subst w; discriminate|exact Hin]. }
      split; cbn [ks_lock ks_writes].
      + intros l El Es'. destruct H0 as [E|E]; rewrite E in El; [discriminate|]. eapply I0; eassumption.
      + intros l El Es'. destruct H0 as [E|E]; rewrite E in El; [discriminate|].
        destruct (I1 l El Es') as [Hbelow Hread]. split; [|rewrite Hinert; exact Hread].
        intros w Hw Hd. apply Hbelow; [|exact Hd]. apply Hsub; [exact Hw|apply data_nonrb; exact Hd].
      + intros w Hw Esw Ekw. rewrite Hinert. apply I2; [|exact Esw|exact Ekw]. apply Hsub; [exact Hw|apply put_nonrb; exact Ekw].
    - (* other lock fields *)
      assert (Hpe : is_pess l' = is_pess l) by (unfold is_pess; rewrite H1; reflexivity).
      split; cbn [ks_lock ks_writes].
      + intros l0 El Es'. inversion El; subst l0. rewrite Hpe. apply (I0 l H). congruence.
      + intros l0 El Es'. inversion El; subst l0. apply (I1 l H). congruence.
      + exact I2.
    - (* gc *)
      split; cbn [ks_lock ks_writes].
      + exact I0.
      + intros l El Es'. destruct (I1 l El Es') as [Hbelow Hread]. split.
        * intros w Hw Hd. apply gc_writes_in in Hw. apply Hbelow; assumption.
        * apply gc_none_stays; [exact (wf_desc _ _ Hwk)|exact Hread].
      + intros w Hw Esw Ekw. apply gc_writes_in in Hw. apply gc_none_stays; [exact (wf_desc _ _ Hwk)|]. apply I2; assumption.
  Qed.

  Lemma run_from_iinv : forall b st g, wf_store W st -> (forall c, In c b -> cmd_in W c) ->
    disciplined_from st b = true -> forallb (pess_req_ok (w_pairs W)) b = true -> forallb (ins_cmd_ok k s) b = true ->
    ginv W st g -> iinv (get_ks st k) -> iinv (get_ks (run_from st b) k).
  Proof.
    induction b as [|c r IH]; intros st g Hwf Hin Hd Hp Hins Hg Hi; cbn [run_from fold_left]; [exact Hi|].
    cbn [disciplined_from] in Hd. apply andb_true_iff in Hd. destruct Hd as [Hreq Hd].
    cbn [forallb] in Hp, Hins. apply andb_true_iff in Hp. destruct Hp as [Hp1 Hp].
    apply andb_true_iff in Hins. destruct Hins as [Hi1 Hins].
    assert (Hc : cmd_in W c) by (apply Hin; left; reflexivity).
    apply (IH _ (ghost_upd g st (fst (step st c)))).
    - apply step_wf; assumption.
    - intros c' Hc'. apply Hin; right; exact Hc'.
    - exact Hd.
    - exact Hp.
    - exact Hins.
    - apply step_ginv; assumption.
    - eapply step_iinv; eassumption.
  Qed.
End InsPoint.

Lemma insert_commit_point cmds k s : oracle_ts cmds = true -> ww_discipline cmds = true -> ins_discipline cmds k s = true ->
  forall w, In w (writes_of (run cmds) k) -> w_start w = s -> w_kind w = WPut ->
    hist_read (history (run cmds) k) (w_commit w - 1) = None.
Proof.
  intros Ho Hd Hins w Hw Es Ek. rewrite <- read_is_history.
  unfold oracle_ts in Ho. apply andb_true_iff in Ho. destruct Ho as [HW Hdis]. apply world_ok_spec in HW.
  assert (Hi : iinv s (get_ks (run cmds) k)).
  { rewrite run_is_run_from. apply run_from_iinv with (W := world_of cmds) (g := ghost0); auto.
    - apply wf_store_nil.
    - intros c Hc. apply cmd_in_world_of; exact Hc.
    - intros k0. apply kinv_empty.
    - apply iinv_empty. }
  unfold read_at, writes_of. rewrite (ii_rec _ _ Hi w Hw Es Ek). reflexivity.
Qed.
