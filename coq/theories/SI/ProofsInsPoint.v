(* SI/ProofsInsPoint.v — a committed optimistic insert: in every reachable store the key has no value
   just below the insert's commit ts (the python oracle's "insert semantics" clause on the final history). *)
From Verif Require Import SI.Model SI.ProofsTrans SI.ProofsRead SI.ProofsWW SI.ProofsIns Mvcc.ProofsStore Mvcc.ProofsKey
     Mvcc.ProofsKstep Mvcc.ProofsShape Mvcc.ProofsStep Mvcc.ProofsRead Mvcc.ProofsMarker.
From Coq Require Import Sorted.

(* two read timestamps at or above every Put/Delete record read the same *)
Lemma read_top ws t t' : (forall w, In w ws -> is_data w = true -> w_commit w <= t) ->
  (forall w, In w ws -> is_data w = true -> w_commit w <= t') -> read_writes ws t = read_writes ws t'.
Proof.
  induction ws as [|w r IH]; intros H H'; [reflexivity|]. cbn [read_writes].
  assert (Hr : read_writes r t = read_writes r t').
  { apply IH; intros x Hx; [apply H|apply H']; right; exact Hx. }
  pose proof (H w (or_introl eq_refl)) as Hw. pose proof (H' w (or_introl eq_refl)) as Hw'. unfold is_data in Hw, Hw'.
  destruct (w_kind w); try exact Hr.
  - specialize (Hw eq_refl). specialize (Hw' eq_refl).
    destruct (N.leb_spec (w_commit w) t); [|lia]. destruct (N.leb_spec (w_commit w) t'); [reflexivity|lia].
  - specialize (Hw eq_refl). specialize (Hw' eq_refl).
    destruct (N.leb_spec (w_commit w) t); [|lia]. destruct (N.leb_spec (w_commit w) t'); [reflexivity|lia].
Qed.

(* GC never makes an absent key present *)
Lemma gc_none_stays sp t : forall ws keep, desc ws -> read_writes ws t = None ->
  read_writes (gc_writes sp keep ws) t = None.
Proof.
  unfold desc. induction ws as [|w r IH]; intros keep Hd H; [reflexivity|].
  inversion Hd as [|? ? Hr Hf]; subst. rewrite Forall_forall in Hf. cbn [gc_writes].
  destruct (N.ltb_spec sp (w_commit w)) as [Hsp|Hsp].
  - cbn [read_writes] in *. destruct (w_kind w).
    + destruct (w_commit w <=? t); [discriminate|apply IH; assumption].
    + destruct (w_commit w <=? t); [reflexivity|apply IH; assumption].
    + apply IH; assumption.
    + apply IH; assumption.
  - cbn [read_writes] in H. destruct (w_kind w) eqn:Ek.
    + destruct (w_commit w <=? t) eqn:Et; [discriminate|]. destruct keep; [|apply IH; assumption].
      cbn [read_writes]. rewrite Ek, Et. apply IH; assumption.
    + rewrite gc_writes_all_old; [reflexivity|]. intros x Hx. specialize (Hf x Hx). lia.
    + apply IH; assumption.
    + apply IH; assumption.
Qed.

Lemma prewrite_step_cases st ms p s fu ttl mc ao :
  fst (step st (Prewrite ms p s fu ttl mc ao)) = st \/
  exists es, snd (step st (Prewrite ms p s fu ttl mc ao)) = RErrs es /\ has_err es = false.
Proof.
  cbn [step]. destruct (prewrite_all st st ms p s fu ttl mc ao) as [acc es]. cbn [fst snd].
  destruct (has_err es) eqn:E; [left; reflexivity|right; exists es; split; [reflexivity|exact E]].
Qed.

(* the conflict check of a pessimistic lock request carrying the not-exist assertion *)
Lemma ccv_notexist_read k0 s0 fu loie ws v cf : desc ws ->
  ccv (mkCcv k0 s0 fu true AsNotExist loie) true false false ws = COk v cf -> read_writes ws fu = None.
Proof.
  intros Hd Ec. pose proof (ccv_ok_below _ _ _ _ _ _ Hd Ec) as Hle. cbn [c_for_update] in Hle.
  unfold ccv in Ec. destruct ws as [|w0 rest]; [reflexivity|].
  cbn [c_for_update c_assert c_pess_op as_eqb andb] in Ec.
  destruct (fu <? w_commit w0); [discriminate|].
  destruct (ccv_loop _ false None (w0 :: rest) true true true None) as [e|ret] eqn:El; [discriminate|].
  eapply ccv_loop_notexist; [|exact El]. intros w Hw. specialize (Hle w Hw). lia.
Qed.

Section InsPoint.
  Variable W : world.
  Hypothesis HW : World_ok W.
  Variables (k : key) (s : ts).

  (* p = the lock point of s on k (ghost) *)
  Record iinv (ks : kstate) (p : ts) : Prop := {
    ii_lock : forall l, ks_lock ks = Some l -> l_start l = s -> read_writes (ks_writes ks) p = None;
    ii_rec : forall w, In w (ks_writes ks) -> w_start w = s -> w_kind w = WPut ->
             read_writes (ks_writes ks) (w_commit w - 1) = None }.

  Lemma iinv_empty p : iinv empty_ks p.
  Proof. split; cbn [empty_ks ks_lock ks_writes]; intros; try discriminate; contradiction. Qed.

  Lemma data_nonrb w : is_data w = true -> is_rollback w = false.
  Proof. unfold is_data, is_rollback. destruct (w_kind w); congruence. Qed.
  Lemma put_nonrb w : w_kind w = WPut -> is_rollback w = false.
  Proof. unfold is_rollback. intros E; rewrite E; reflexivity. Qed.

  Lemma step_iinv st c g : wf_store W st -> cmd_in W c -> lock_req_ok st c = true ->
    pess_req_ok (w_pairs W) c = true -> ginv W st g -> ins_cmd_ok k s c = true ->
    iinv (get_ks st k) (g k s) -> iinv (get_ks (fst (step st c)) k) (ghost_upd g st (fst (step st c)) k s).
  Proof.
    intros Hwf Hc Hreq Hpreq Hg Hins Hi.
    pose proof (step_wf W HW st c Hwf Hc Hreq) as [_ Hwf']. specialize (Hwf' k).
    destruct Hwf as [Hs Hk]. pose proof (Hk k) as Hwk. pose proof (Hg k) as Hkinv.
    unfold ghost_upd, lock_of.
    destruct (step_ktrans st c k Hs) as [E|Ht].
    { rewrite E. rewrite (gk_upd_same W _ _ s Hkinv). exact Hi. }
    remember (get_ks (fst (step st c)) k) as x eqn:Ex.
    destruct Hc as [Hcs Hcp]. destruct Hi as [I1 I2].
    destruct Ht.
    - (* fresh prewrite *)
      subst c. split; cbn [ks_lock ks_writes]; [|exact I2].
      intros l El Esl. inversion El; subst l. rewrite H5 in Esl. rewrite Esl in *. clear Esl.
      cbn [ins_cmd_ok] in Hins. rewrite N.eqb_refl in Hins. cbn [negb orb] in Hins.
      rewrite forallb_forall in Hins. specialize (Hins m H0). rewrite H1, N.eqb_refl in Hins. cbn [negb orb] in Hins.
      apply andb_true_iff in Hins. destruct Hins as [Hop Hfu]. rewrite H3 in Hfu. rewrite orb_false_r in Hfu.
      apply N.eqb_eq in Hfu. subst fu.
      assert (Hop' : is_insert m = true) by (unfold is_insert; unfold is_ins_op in Hop; destruct (m_op m); try discriminate; reflexivity).
      assert (Hp : gk_upd (g k) (ks_lock (get_ks st k)) (Some l') s = s).
      { unfold gk_upd. rewrite H5, N.eqb_refl, H6, H2. reflexivity. }
      rewrite Hp.
      destruct (prewrite_step_cases st ms p s 0 ttl mc ao) as [Esame|[es [Hsnd Hes]]].
      { exfalso. rewrite Esame in Ex. rewrite <- Ex in H2. discriminate. }
      destruct (insert_accepted_absent st ms p s ttl mc ao m es H0 Hop' Hsnd Hes) as [Hget|[l [El' _]]].
      + rewrite get_unfold in Hget. rewrite H1 in Hget. unfold get_ks_value in Hget. rewrite H2 in Hget.
        cbn [rd_resp] in Hget. inversion Hget; reflexivity.
      + unfold lock_of in El'. rewrite H1, H2 in El'. discriminate.
    - (* prewrite over the own pessimistic lock: lock point and records stay *)
      subst c. split; cbn [ks_lock ks_writes]; [|exact I2].
      intros l0 El Esl. inversion El; subst l0. rewrite H5 in Esl. rewrite Esl in *. clear Esl.
      rewrite H2. rewrite (gk_upd_keep (g k) l l' s); [apply (I1 l H2 H3)|congruence|intros Hp; congruence].
    - (* pessimistic lock with the not-exist assertion *)
      subst c. split; cbn [ks_lock ks_writes]; [|exact I2].
      intros l El Esl. inversion El; subst l. cbn [l_start] in Esl.
      cbn [ins_cmd_ok] in Hins. rewrite Esl, N.eqb_refl in Hins. cbn [negb orb] in Hins.
      rewrite forallb_forall in Hins. specialize (Hins _ H0). cbn [fst snd] in Hins. rewrite N.eqb_refl in Hins.
      cbn [negb orb] in Hins. subst ne.
      cbn [pess_req_ok] in Hpreq. apply andb_true_iff in Hpreq. destruct Hpreq as [Hforce _]. apply negb_true_iff in Hforce.
      rewrite Hforce in H2.
      assert (Hp : forall old, gk_upd (g k) old (Some (mkLock (p_start r) (p_primary r) LPess 0 (p_ttl r) (p_for_update r) (p_min_commit r))) s
                               = p_for_update r).
      { intros old. unfold gk_upd. cbn [l_start is_pess l_op op_eqb l_for_update]. rewrite Esl, N.eqb_refl. reflexivity. }
      rewrite Hp. eapply ccv_notexist_read; [exact (wf_desc _ _ Hwk)|exact H2].
    - (* unlock *)
      split; cbn [ks_lock ks_writes]; try (intros; discriminate). exact I2.
    - (* commit of the lock holder l at cm *)
      assert (Hp : In (l_start l, cm) (w_pairs W)) by (apply Hcp; exact H0).
      set (w0 := mkWrite (wkind_of_op (l_op l)) (l_start l) cm (l_value l)) in *.
      assert (Hinert : forall t, t < cm -> read_writes (put_write w0 (ks_writes (get_ks st k))) t = read_writes (ks_writes (get_ks st k)) t).
      { intros t Ht. apply read_put_inert; cbn [w_commit w0]; [right; exact Ht|]. intros y Hy Ec. right. lia. }
      pose proof (ki_pt _ _ _ Hkinv l H cm Hp) as Hpt.
      split; cbn [ks_lock ks_writes]; try (intros; discriminate).
      intros w Hw Esw Ekw. apply put_write_in in Hw. destruct Hw as [E|Hw].
      + subst w. cbn [w_start w_commit w0] in *. rewrite Hinert by lia. rewrite Esw in *.
        rewrite (read_top _ (cm - 1) (g k s)); [apply (I1 l H Esw)| |].
        * intros y Hy Hd. pose proof (ki_lock _ _ _ Hkinv l H y Hy (data_nonrb y Hd)). rewrite Esw in *. lia.
        * intros y Hy Hd. pose proof (ki_lock _ _ _ Hkinv l H y Hy (data_nonrb y Hd)). rewrite Esw in *. lia.
      + pose proof (ki_lock _ _ _ Hkinv l H w Hw (put_nonrb w Ekw)) as H1'.
        rewrite Hinert by lia. apply I2; assumption.
    - (* rollback record *)
      assert (Hs0 : In s0 (w_starts W)) by (apply Hcs; exact H).
      assert (Hinert : forall t, read_writes (put_write (rollback_write s0) (ks_writes (get_ks st k))) t = read_writes (ks_writes (get_ks st k)) t).
      { intros t. apply read_put_inert; [left; reflexivity|]. intros y Hy Ec. left.
        eapply same_commit_rollback; [exact HW|exact Hwk|exact Hs0|exact Hy|exact Ec]. }
      assert (Hsub : forall w, In w (put_write (rollback_write s0) (ks_writes (get_ks st k))) -> is_rollback w = false ->
                               In w (ks_writes (get_ks st k))).
      { intros w Hin Hr. apply put_write_in in Hin. destruct Hin as [E|Hin]; [subst w; discriminate|exact Hin]. }
      split; cbn [ks_lock ks_writes].
      + intros l El Esl. destruct H0 as [E|E]; rewrite E in El; [discriminate|]. rewrite E.
        rewrite (gk_upd_same W _ _ s Hkinv). rewrite Hinert. eapply I1; eassumption.
      + intros w Hw Esw Ekw. rewrite Hinert. apply I2; [|exact Esw|exact Ekw]. apply Hsub; [exact Hw|apply put_nonrb; exact Ekw].
    - (* other lock fields *)
      split; cbn [ks_lock ks_writes]; [|exact I2].
      intros l0 El Esl. inversion El; subst l0. rewrite H.
      rewrite (gk_upd_keep (g k) l l' s); [apply (I1 l H); congruence|exact H0|].
      intros Hp. rewrite H2. apply (ki_pess _ _ _ Hkinv l H). unfold is_pess in *. rewrite <- H1. exact Hp.
    - (* gc *)
      split; cbn [ks_lock ks_writes].
      + intros l El Esl. rewrite (gk_upd_same W _ _ s Hkinv). apply gc_none_stays; [exact (wf_desc _ _ Hwk)|]. eapply I1; eassumption.
      + intros w Hw Esw Ekw. apply gc_writes_in in Hw. apply gc_none_stays; [exact (wf_desc _ _ Hwk)|]. apply I2; assumption.
    - (* delete range *)
      apply iinv_empty.
  Qed.

  Lemma run_from_iinv : forall b st g, wf_store W st -> (forall c, In c b -> cmd_in W c) ->
    disciplined_from st b = true -> forallb (pess_req_ok (w_pairs W)) b = true -> forallb (ins_cmd_ok k s) b = true ->
    ginv W st g -> iinv (get_ks st k) (g k s) -> iinv (get_ks (run_from st b) k) (ghost_run g st b k s).
  Proof.
    induction b as [|c r IH]; intros st g Hwf Hin Hd Hp Hins Hg Hi; cbn [run_from fold_left ghost_run]; [exact Hi|].
    cbn [disciplined_from] in Hd. apply andb_true_iff in Hd. destruct Hd as [Hreq Hd].
    cbn [forallb] in Hp, Hins. apply andb_true_iff in Hp. destruct Hp as [Hp1 Hp].
    apply andb_true_iff in Hins. destruct Hins as [Hi1 Hins].
    assert (Hc : cmd_in W c) by (apply Hin; left; reflexivity).
    apply IH.
    - apply step_wf; assumption.
    - intros c' Hc'. apply Hin; right; exact Hc'.
    - exact Hd.
    - exact Hp.
    - exact Hins.
    - apply step_ginv; assumption.
    - eapply step_iinv; eassumption.
  Qed.
End InsPoint.

Lemma insert_commit_point cmds k s : oracle_ts cmds = true -> ww_discipline cmds = true -> ins_discipline cmds k s = true ->
  forall w, In w (writes_of (run cmds) k) -> w_start w = s -> w_kind w = WPut ->
    hist_read (history (run cmds) k) (w_commit w - 1) = None.
Proof.
  intros Ho Hd Hins w Hw Es Ek. rewrite <- read_is_history.
  unfold oracle_ts in Ho. apply andb_true_iff in Ho. destruct Ho as [HW Hdis]. apply world_ok_spec in HW.
  assert (Hi : iinv s (get_ks (run cmds) k) (lock_point cmds k s)).
  { unfold lock_point. rewrite run_is_run_from. apply run_from_iinv with (W := world_of cmds); auto.
    - apply wf_store_nil.
    - intros c Hc. apply cmd_in_world_of; exact Hc.
    - intros k0. apply kinv_empty.
    - apply iinv_empty. }
  unfold read_at, writes_of. rewrite (ii_rec _ _ _ Hi w Hw Es Ek). reflexivity.
Qed.
