(* SI/ProofsLockRead.v — locking reads: a pessimistic lock request with return_values answers, per key, the
   history read at its for-update ts (normal path) or the newest committed value together with the conflict
   ts (forced / fair-locking path); the lock then excludes every other commit on the key between the lock point
   and the owner's commit. *)
From Verif Require Import SI.Model SI.ProofsTrans SI.ProofsRead SI.ProofsWW SI.ProofsIns Mvcc.ProofsStore Mvcc.ProofsKey
     Mvcc.ProofsKstep Mvcc.ProofsShape Mvcc.ProofsStep Mvcc.ProofsMarker.
From Coq Require Import Sorted.

(* ------------------------------------------------------------------ the value checkConflictValue returns *)
Ltac ccv_tail IH H r :=
  cbv beta iota zeta in H;
  match type of H with
  | (if ?b then inr _ else _) = inr _ => destruct b; [inversion H; reflexivity|]
  end;
  destruct r as [|?w ?r]; [match type of H with (if ?b then _ else _) = _ => destruct b; [discriminate|inversion H; reflexivity] end
                          |eapply IH; exact H].

Lemma ccv_loop_keep a ao cf : forall ws nsne ncr ret v, ccv_loop a ao cf ws nsne false ncr ret = inr v -> v = ret.
Proof.
  induction ws as [|w r IH]; intros nsne ncr ret v H; cbn [ccv_loop] in H; [inversion H; reflexivity|].
  destruct (ncr && is_rollback w && (w_commit w =? c_start a)); [discriminate|].
  destruct (w_kind w) eqn:Ek.
  - destruct nsne; [discriminate|]. destruct (negb (as_eqb (c_assert a) AsNone) && negb (c_pess_op a) && ao && as_eqb (c_assert a) AsNotExist); [discriminate|].
    ccv_tail IH H r.
  - destruct cf as [c|]; [destruct (c_lock_only_if_exists a); [discriminate|]|]; ccv_tail IH H r.
  - ccv_tail IH H r.
  - destruct nsne; [discriminate|]. destruct (negb (as_eqb (c_assert a) AsNone) && negb (c_pess_op a) && ao && as_eqb (c_assert a) AsNotExist); [discriminate|].
    ccv_tail IH H r.
Qed.

Lemma newest_data_cons w r : newest_data (w :: r) = if is_data w then Some w else newest_data r.
Proof. reflexivity. Qed.

(* with get_val: the value of the newest Put/Delete record (an empty Put value reads as none) *)
Lemma ccv_loop_val a ao cf : forall ws nsne ncr ret v, ccv_loop a ao cf ws nsne true ncr ret = inr v ->
  v = match newest_data ws with Some w => data_val w | None => ret end.
Proof.
  induction ws as [|w r IH]; intros nsne ncr ret v H; cbn [ccv_loop] in H; [inversion H; reflexivity|].
  destruct (ncr && is_rollback w && (w_commit w =? c_start a)); [discriminate|].
  rewrite newest_data_cons. unfold is_data, data_val.
  assert (Tdata : forall ns x, (if negb ns && negb false && negb (ncr && negb (w_commit w <? c_start a)) then inr x
                               else match r with
                                    | [] => if as_eqb (c_assert a) AsExist && ao then inl (EAssertionFailed 0 0) else inr x
                                    | _ :: _ => ccv_loop a ao cf r ns false (ncr && negb (w_commit w <? c_start a)) x
                                    end) = inr v -> v = x).
  { intros ns x E. destruct (negb ns && negb false && negb (ncr && negb (w_commit w <? c_start a))); [inversion E; reflexivity|].
    destruct r as [|w' r']; [destruct (as_eqb (c_assert a) AsExist && ao); [discriminate|inversion E; reflexivity]|].
    eapply ccv_loop_keep; exact E. }
  assert (Tskip : forall ns, (if negb ns && negb true && negb (ncr && negb (w_commit w <? c_start a)) then inr ret
                              else match r with
                                   | [] => if as_eqb (c_assert a) AsExist && ao then inl (EAssertionFailed 0 0) else inr ret
                                   | _ :: _ => ccv_loop a ao cf r ns true (ncr && negb (w_commit w <? c_start a)) ret
                                   end) = inr v -> v = match newest_data r with Some w0 => data_val w0 | None => ret end).
  { intros ns E. assert (negb ns && negb true && negb (ncr && negb (w_commit w <? c_start a)) = false) as Eb by (destruct ns; reflexivity).
    rewrite Eb in E. destruct r as [|w' r']; [destruct (as_eqb (c_assert a) AsExist && ao); [discriminate|inversion E; reflexivity]|].
    apply IH in E. exact E. }
  destruct (w_kind w) eqn:Ek.
  - destruct nsne; [discriminate|]. destruct (negb (as_eqb (c_assert a) AsNone) && negb (c_pess_op a) && ao && as_eqb (c_assert a) AsNotExist); [discriminate|].
    cbv beta iota zeta in H. rewrite Ek. unfold nonempty. apply (Tdata false). exact H.
  - rewrite Ek. destruct cf as [c|]; [destruct (c_lock_only_if_exists a); [discriminate|]|]; cbv beta iota zeta in H; apply (Tdata false); exact H.
  - cbv beta iota zeta in H. apply (Tskip nsne). exact H.
  - destruct nsne; [discriminate|]. destruct (negb (as_eqb (c_assert a) AsNone) && negb (c_pess_op a) && ao && as_eqb (c_assert a) AsNotExist); [discriminate|].
    cbv beta iota zeta in H. apply (Tskip false). exact H.
Qed.

(* when no record lies above t, the newest Put/Delete value is the read at t *)
Lemma read_newest ws t : (forall w, In w ws -> w_commit w <= t) -> nonempty (option_map fst (read_writes ws t)) = newest_val ws.
Proof.
  unfold newest_val. induction ws as [|w r IH]; intros Hle; [reflexivity|].
  rewrite newest_data_cons. cbn [read_writes]. unfold is_data, data_val.
  pose proof (Hle w (or_introl eq_refl)) as Hw. assert (Hr : forall x, In x r -> w_commit x <= t) by (intros x Hx; apply Hle; right; exact Hx).
  destruct (w_kind w) eqn:Ek; try (apply IH; exact Hr).
  - destruct (N.leb_spec (w_commit w) t); [|lia]. rewrite Ek. reflexivity.
  - destruct (N.leb_spec (w_commit w) t); [|lia]. rewrite Ek. reflexivity.
Qed.

(* ------------------------------------------------------------------ the per-key answer of a pessimistic lock request *)
Definition lock_answer (ws : list write) (r : pess_req) : pres :=
  if p_for_update r <? head_commit ws
  then PRConflict (newest_val ws) (is_some (newest_val ws)) (head_commit ws)
  else PRNormal (nonempty (option_map fst (read_writes ws (p_for_update r)))) (is_some (nonempty (option_map fst (read_writes ws (p_for_update r))))).

Lemma ccv_get_val a ao ac ws v cf : ccv a true ao ac ws = COk v cf -> v = newest_val ws.
Proof.
  unfold ccv, newest_val. destruct ws as [|w0 rest]; [destruct (as_eqb (c_assert a) AsExist && ao && negb (c_pess_op a)); [discriminate|intros E; inversion E; reflexivity]|].
  intros H.
  set (cf0 := if c_for_update a <? w_commit w0 then Some (EWriteConflict (c_for_update a) (w_start w0) (w_commit w0) (c_key a)) else None) in *.
  assert (G : forall ao', match ccv_loop a ao' cf0 (w0 :: rest) (as_eqb (c_assert a) AsNotExist && c_pess_op a) true true None with
                         | inl e => CErr e | inr ret => COk ret cf0 end = COk v cf -> v = match newest_data (w0 :: rest) with Some w => data_val w | None => None end).
  { intros ao' E. destruct (ccv_loop a ao' cf0 (w0 :: rest) _ true true None) as [e|ret] eqn:El; [discriminate|].
    inversion E; subst. eapply ccv_loop_val; exact El. }
  destruct cf0 as [c|]; [destruct ac; [|discriminate]|]; eapply G; exact H.
Qed.

Lemma pess_lock_key_answer ks r k ne res o : desc (ks_writes ks) -> p_return_values r = true ->
  pess_lock_key ks r k ne = inr (res, o) -> res = lock_answer (ks_writes ks) r.
Proof.
  intros Hd Hrv. unfold pess_lock_key. rewrite Hrv. rewrite andb_false_r.
  assert (G : forall already, pess_lock_go ks r k ne already = inr (res, o) -> res = lock_answer (ks_writes ks) r).
  { intros already. unfold pess_lock_go, lock_answer. rewrite Hrv.
    destruct (ccv _ true false (p_force r) (ks_writes ks)) as [e|v cf] eqn:Ec; [discriminate|].
    pose proof (ccv_get_val _ _ _ _ _ _ Ec) as Ev. subst v.
    unfold ccv in Ec. destruct (ks_writes ks) as [|w0 rest] eqn:Ew.
    - cbn [head_commit]. rewrite N.ltb_irrefl || idtac. destruct (as_eqb _ AsExist && false && _); [discriminate|]. inversion Ec; subst cf.
      cbv zeta. destruct (p_lock_only_if_exists r && _); [intros E; inversion E; subst|destruct (match already with None => true | Some l => _ end); intros E; inversion E; subst];
        (destruct (p_for_update r <? 0) eqn:E0; [apply N.ltb_lt in E0; lia|reflexivity]).
    - cbn [head_commit c_for_update c_start c_key] in *.
      destruct (N.ltb_spec (p_for_update r) (w_commit w0)) as [Hlt|Hge].
      + (* a newer record: only the forced path goes on, and reports the conflict *)
        destruct (p_force r); [|discriminate].
        destruct (ccv_loop _ false _ (w0 :: rest) _ true true None) as [e|ret]; [discriminate|]. inversion Ec; subst cf.
        cbv zeta. destruct (p_lock_only_if_exists r && _); [intros E; inversion E; reflexivity|].
        destruct (match already with None => true | Some l => _ end); intros E; inversion E; reflexivity.
      + assert (Ecf : cf = None).
        { destruct (p_force r); destruct (ccv_loop _ false None (w0 :: rest) _ true true None); try discriminate; inversion Ec; reflexivity. }
        subst cf. cbv zeta.
        assert (Hrn : nonempty (option_map fst (read_writes (w0 :: rest) (p_for_update r))) = newest_val (w0 :: rest)).
        { apply read_newest. intros w Hw. rewrite <- Ew in Hw. rewrite <- Ew in Hd. pose proof (desc_head_max w0 rest w). rewrite Ew in *. specialize (H Hd Hw). lia. }
        rewrite Hrn.
        destruct (p_lock_only_if_exists r && _); [intros E; inversion E; reflexivity|].
        destruct (match already with None => true | Some l => _ end); intros E; inversion E; reflexivity. }
  destruct (ks_lock ks) as [l|]; [|apply G].
  destruct (negb (l_start l =? p_start r)); [discriminate|]. destruct (negb (is_pess l)); [discriminate|]. apply G.
Qed.

Lemma pess_lock_all_answers st r : p_return_values r = true -> (forall k0, desc (ks_writes (get_ks st k0))) ->
  forall keys acc a rs, pess_lock_all st acc r keys = (a, [], rs) ->
  rs = map (fun kb => lock_answer (ks_writes (get_ks st (fst kb))) r) keys /\
  (p_force r = false -> forall kb, In kb keys -> p_for_update r <? head_commit (ks_writes (get_ks st (fst kb))) = false).
Proof.
  intros Hrv Hd. induction keys as [|[k0 ne0] rest IH]; intros acc a rs H; cbn [pess_lock_all] in H.
  - inversion H; subst. split; [reflexivity|intros _ kb []].
  - destruct (pess_lock_key (get_ks st k0) r k0 ne0) as [e|[res o]] eqn:E.
    + destruct (if p_no_wait r && match e with ELocked _ _ => true | _ => false end then (acc, [], [])
                else pess_lock_all st acc r rest) as [[a' es'] rs']. discriminate.
    + destruct (pess_lock_all st (apply_opt acc k0 o) r rest) as [[a' es'] rs'] eqn:Er. inversion H; subst.
      destruct (IH _ _ _ Er) as [IH1 IH2]. cbn [map fst]. split.
      * rewrite <- IH1. f_equal. eapply pess_lock_key_answer; [apply Hd|exact Hrv|exact E].
      * intros Hf kb [Ekb|Hin]; [|apply IH2; assumption]. subst kb. cbn [fst].
        (* not forced: an accepted request found no record above its for-update ts *)
        unfold pess_lock_key in E. rewrite Hrv, andb_false_r in E.
        assert (G : forall already, pess_lock_go (get_ks st k0) r k0 ne0 already = inr (res, o) ->
                                    p_for_update r <? head_commit (ks_writes (get_ks st k0)) = false).
        { intros already. unfold pess_lock_go. rewrite Hf.
          destruct (ccv _ true false false (ks_writes (get_ks st k0))) as [e|v cf] eqn:Ec; [discriminate|]. intros _.
          pose proof (ccv_ok_below _ _ _ _ _ _ (Hd k0) Ec) as Hle. cbn [c_for_update] in Hle.
          destruct (ks_writes (get_ks st k0)) as [|w0 r0]; cbn [head_commit]; apply N.ltb_ge; [lia|]. apply Hle. left; reflexivity. }
        destruct (ks_lock (get_ks st k0)) as [l|]; [|eapply G; exact E].
        destruct (negb (l_start l =? p_start r)); [discriminate|]. destruct (negb (is_pess l)); [discriminate|]. eapply G; exact E.
Qed.

Definition locking_read_stmt (cmds : list cmd) (r : pess_req) (rs : list pres) : Prop :=
  rs = map (fun kb => lock_answer (writes_of (run cmds) (fst kb)) r) (p_keys r) /\
  (p_force r = false -> forall kb, In kb (p_keys r) ->
     lock_answer (writes_of (run cmds) (fst kb)) r =
     PRNormal (nonempty (hist_read (history (run cmds) (fst kb)) (p_for_update r)))
              (is_some (nonempty (hist_read (history (run cmds) (fst kb)) (p_for_update r))))).

Lemma locking_read cmds r rs : p_return_values r = true -> snd (step (run cmds) (PessLock r)) = RPess [] rs ->
  locking_read_stmt cmds r rs.
Proof.
  intros Hrv Hst. pose proof (proj2 (run_sorted cmds)) as Hd. cbn [step] in Hst.
  destruct (pess_lock_all (run cmds) (run cmds) r (p_keys r)) as [[acc es] rs0] eqn:Ea.
  destruct es as [|e es].
  2:{ destruct (p_force r && negb (Nat.eqb (length rs0) (length (p_keys r)))); cbn [snd] in Hst; discriminate. }
  destruct (pess_lock_all_answers (run cmds) r Hrv Hd _ _ _ _ Ea) as [H1 H2].
  assert (Ers : rs = rs0).
  { destruct (true && negb (Nat.eqb (length rs0) (length (p_keys r)))); cbn [snd] in Hst; [discriminate|].
    rewrite Hrv, orb_true_r in Hst. cbn [orb] in Hst. inversion Hst. reflexivity. }
  rewrite Ers. split; [exact H1|]. intros Hf kb Hin. unfold lock_answer, writes_of. rewrite (H2 Hf kb Hin).
  rewrite <- read_is_history. reflexivity.
Qed.

(* ------------------------------------------------------------------ the lock excludes other commits *)
(* a record of another transaction that is older than the owner's commit is older than the owner's lock point:
   nothing commits on the key in [lock point, owner's commit) *)
Lemma lock_excludes cmds : oracle_ts cmds = true -> ww_discipline cmds = true ->
  forall k w1 w2, In w1 (writes_of (run cmds) k) -> In w2 (writes_of (run cmds) k) ->
    is_rollback w1 = false -> is_rollback w2 = false -> w_start w1 <> w_start w2 -> w_commit w1 < w_commit w2 ->
    w_commit w1 < lock_point cmds k (w_start w2).
Proof.
  intros Ho Hd k w1 w2 H1 H2 R1 R2 Hne Hlt.
  pose proof (oracle_run_wf cmds Ho) as Hwf.
  unfold oracle_ts in Ho. apply andb_true_iff in Ho. destruct Ho as [Hw Hdis]. apply world_ok_spec in Hw.
  assert (Hg : ginv (world_of cmds) (run cmds) (lock_point cmds)).
  { unfold lock_point. rewrite run_is_run_from. apply run_from_ginv; auto.
    - apply wf_store_nil.
    - intros c Hc. apply cmd_in_world_of; exact Hc.
    - intros k0. apply kinv_empty. }
  eapply (ki_ww _ _ _ (Hg k)); eassumption.
Qed.

Lemma ghost_run_app : forall x g st y, ghost_run g st (x ++ y) = ghost_run (ghost_run g st x) (run_from st x) y.
Proof. induction x as [|c r IH]; intros g st y; [reflexivity|]. cbn [app ghost_run run_from fold_left]. apply IH. Qed.

(* while a transaction holds a pessimistic lock on k its lock point is that lock's for-update ts *)
Lemma lock_point_pess cmds c k l : lock_of (run (cmds ++ [c])) k = Some l -> is_pess l = true ->
  lock_point (cmds ++ [c]) k (l_start l) = l_for_update l.
Proof.
  intros El Hp. unfold lock_point. rewrite ghost_run_app. cbn [ghost_run]. unfold ghost_upd, gk_upd.
  change (run_from [] cmds) with (run cmds). rewrite run_app in El. cbn [run_from fold_left] in El.
  rewrite El, N.eqb_refl, Hp. reflexivity.
Qed.
