(* SI/AsyncStore.v — the store-side mechanics of async commit and 1PC as a layer over the Mvcc store
   (Mvcc/*.v untouched): [max_ts] (bumped by every read ts and by every prewrite's start / for-update ts),
   async prewrite computing min_commit_ts = max(request min_commit, max_ts + 1) after the bump (hence also
   > start ts and > for-update ts) and recording it with the lock, commit / resolve refused below the
   recorded min_commit_ts of the key, 1PC committing directly at that ts, CheckSecondaryLocks.
   Every request of the layer issues base commands ([abase]); the base store is [run] of the issued commands,
   so all SI theorems apply to it. Executable definitions + proofs. *)
From Verif Require Import SI.Model SI.ProofsTrans SI.ProofsRead SI.ProofsKeyed Mvcc.ProofsStore Mvcc.ProofsKey
     Mvcc.ProofsKstep Mvcc.ProofsShape Mvcc.ProofsStep Mvcc.ProofsMarker.

(* ------------------------------------------------------------------ model *)
(* the store of ONE region (the one holding the keys under consideration; requests naming a key go to its region, other
   regions are independent copies): a_max is that region's max_ts on its current leader, a_sync = "max_ts synced" *)
Record astore := mkA { a_st : store; a_max : ts; a_tbl : list (key * ts * ts) (* key, start, min_commit_ts of the lock *);
                       a_sync : bool }.

Inductive acmd :=
| ABase (c : cmd)                                                              (* a request of the base protocol *)
| AsyncPrewrite (ms : list mutation) (primary : key) (start fu : ts) (ttl req_mc : N) (ao : bool)
| OnePC (ms : list mutation) (primary : key) (start fu : ts) (ttl req_mc : N) (ao : bool)
| ACheckSecondary (ks : list key) (start : ts)
| ATransfer (m : ts)      (* the region's leader moves: the new leader's max_ts is whatever it had seen (m, possibly stale or 0)
                             and is not synced; async prewrites / 1PC are refused (MaxTimestampNotSynced) until ... *)
| ARefresh (f : ts).      (* ... the new leader installs a fresh oracle timestamp f: max_ts := max(max_ts, f), synced *)

(* the timestamp by which a base request bumps max_ts (the max-ts sentinel of a point get does not) *)
Definition bump_ts (c : cmd) : ts :=
  match c with
  | Get _ t _ | BatchGet _ t _ | Scan _ _ _ t _ | ReverseScan _ _ _ t _ => if t =? max_ts then 0 else t
  | Prewrite _ _ s fu _ _ _ => N.max s fu
  | PessLock r => N.max (p_start r) (p_for_update r)
  | _ => 0
  end.

(* a commit / resolve is refused for a key whose lock recorded a larger min_commit_ts *)
Definition entry_ok (c : cmd) (e : key * ts * ts) : bool :=
  forallb (fun p => negb (fst p =? snd (fst e)) || (snd e <=? snd p)) (key_pairs c (fst (fst e))).
Definition commit_allowed (tbl : list (key * ts * ts)) (c : cmd) : bool := forallb (entry_ok c) tbl.

Definition lockable_keys (ms : list mutation) : list key :=
  map m_key (filter (fun m => match m_op m with MCheckNotExists => false | _ => true end) ms).
(* the key already carries this transaction's prewrite lock: a repeated prewrite keeps the recorded min_commit_ts *)
Definition is_retry (st : store) (s : ts) (k : key) : bool :=
  match lock_of st k with Some l => (l_start l =? s) && negb (is_pess l) | None => false end.
Definition fresh_keys (st : store) (ms : list mutation) (s : ts) : list key :=
  filter (fun k => negb (is_retry st s k)) (map m_key ms).
Definition tbl_update (tbl : list (key * ts * ts)) (ks : list key) (s mc : ts) : list (key * ts * ts) :=
  map (fun k => (k, s, mc)) ks
  ++ filter (fun e => negb ((snd (fst e) =? s) && existsb (N.eqb (fst (fst e))) ks)) tbl.

Definition async_mc (a : astore) (start fu req_mc : ts) : ts := N.max req_mc (N.max (a_max a) (N.max start fu) + 1).
Definition resp_err (r : resp) : bool := match r with RErrs es => has_err es | _ => true end.

(* the base commands a request issues on the store it finds *)
Definition abase (a : astore) (c : acmd) : list cmd :=
  match c with
  | ABase c => if commit_allowed (a_tbl a) c then [c] else []
  | AsyncPrewrite ms p s fu ttl rmc ao => if a_sync a then [Prewrite ms p s fu ttl (async_mc a s fu rmc) ao] else []
  | OnePC ms p s fu ttl rmc ao =>
    let pw := Prewrite ms p s fu ttl (async_mc a s fu rmc) ao in
    if a_sync a then
      if resp_err (snd (step (a_st a) pw)) then [pw] else [pw; Commit (lockable_keys ms) s (async_mc a s fu rmc)]
    else []
  | ACheckSecondary ks s =>
    [Rollback (filter (fun k => match own_lock (get_ks (a_st a) k) s with Some _ => false | None => negb (committed (a_st a) k s) end) ks) s]
  | ATransfer _ | ARefresh _ => []
  end.

Definition astep (a : astore) (c : acmd) : astore :=
  let st' := run_from (a_st a) (abase a c) in
  match c with
  | ABase c0 => if commit_allowed (a_tbl a) c0 then mkA st' (N.max (a_max a) (bump_ts c0)) (a_tbl a) (a_sync a) else a
  | AsyncPrewrite ms p s fu ttl rmc ao | OnePC ms p s fu ttl rmc ao =>
    let mc := async_mc a s fu rmc in
    let ok := negb (resp_err (snd (step (a_st a) (Prewrite ms p s fu ttl mc ao)))) in
    if a_sync a then
      mkA st' (N.max (a_max a) (N.max s fu)) (if ok then tbl_update (a_tbl a) (fresh_keys (a_st a) ms s) s mc else a_tbl a) true
    else a
  | ACheckSecondary _ _ => mkA st' (a_max a) (a_tbl a) (a_sync a)
  | ATransfer m => mkA (a_st a) m (a_tbl a) false
  | ARefresh f => mkA (a_st a) (N.max (a_max a) f) (a_tbl a) true
  end.
(* the min_commit_ts an async prewrite / 1PC returns (1PC: its commit ts) *)
Definition returned_mc (a : astore) (c : acmd) : list ts :=
  match c with
  | AsyncPrewrite _ _ s fu _ rmc _ | OnePC _ _ s fu _ rmc _ => if a_sync a then [async_mc a s fu rmc] else []
  | _ => []
  end.

Definition a0 : astore := mkA [] 0 [] true.
Definition arun_from (a : astore) (cs : list acmd) : astore := fold_left astep cs a.
Definition arun (cs : list acmd) : astore := arun_from a0 cs.
Fixpoint abase_run (a : astore) (cs : list acmd) : list cmd :=
  match cs with [] => [] | c :: r => abase a c ++ abase_run (astep a c) r end.

(* what is still assumed about requests of the BASE protocol that follow a read of k at t (2PC prewrites: commit ts
   fetched from the oracle afterwards; or min_commit_ts rule obeyed by the client); nothing is assumed about async
   prewrites / 1PC *)
(* ... and the timestamp a refresh installs was fetched from the oracle after the transfer, hence after t was issued *)
Definition base_rule (k : key) (t : ts) (P : list (ts * ts)) (c : acmd) : bool :=
  match c with ABase c0 => prewrite_rule k t P c0 | ARefresh f => t <=? f | _ => true end.

(* ------------------------------------------------------------------ the base store is a run of the issued commands *)
Lemma astep_st a c : a_st (astep a c) = run_from (a_st a) (abase a c).
Proof.
  destruct c; cbn [astep abase a_st]; cbv zeta; try reflexivity.
  - destruct (commit_allowed (a_tbl a) c); reflexivity.
  - destruct (a_sync a); reflexivity.
  - destruct (a_sync a); reflexivity.
Qed.

Lemma run_from_app st x y : run_from st (x ++ y) = run_from (run_from st x) y.
Proof. unfold run_from. apply fold_left_app. Qed.

Lemma arun_from_st : forall cs a, a_st (arun_from a cs) = run_from (a_st a) (abase_run a cs).
Proof.
  induction cs as [|c r IH]; intros a; [reflexivity|]. cbn [arun_from fold_left abase_run].
  change (fold_left astep r (astep a c)) with (arun_from (astep a c) r). rewrite IH, run_from_app, astep_st. reflexivity.
Qed.

Lemma arun_app x y : arun (x ++ y) = arun_from (arun x) y.
Proof. unfold arun, arun_from. apply fold_left_app. Qed.

Lemma abase_run_app : forall x a y, abase_run a (x ++ y) = abase_run a x ++ abase_run (arun_from a x) y.
Proof.
  induction x as [|c r IH]; intros a y; [reflexivity|]. cbn [app abase_run arun_from fold_left]. rewrite IH, app_assoc. reflexivity.
Qed.

(* ------------------------------------------------------------------ max_ts *)
(* a served point get (scan, batch get) leaves max_ts at or above its read ts *)
Lemma read_bumps a c : key_pairs c = (fun _ => []) -> bump_ts c <= a_max (astep a (ABase c)).
Proof.
  intros Hk. cbn [astep]. assert (commit_allowed (a_tbl a) c = true) as ->.
  { unfold commit_allowed, entry_ok. apply forallb_forall. intros e _. rewrite Hk. reflexivity. }
  cbn [a_max]. lia.
Qed.
Lemma async_mc_above a s fu rmc : a_max a < async_mc a s fu rmc /\ s < async_mc a s fu rmc /\ fu < async_mc a s fu rmc /\ rmc <= async_mc a s fu rmc.
Proof. unfold async_mc. lia. Qed.

(* ------------------------------------------------------------------ stability of reads served before an async prewrite *)
Lemma stable_suffix_k_app k t : forall x st y,
  stable_suffix_k st k t (x ++ y) = stable_suffix_k st k t x && stable_suffix_k (run_from st x) k t y.
Proof.
  induction x as [|c r IH]; intros st y; [reflexivity|]. cbn [app stable_suffix_k run_from fold_left].
  rewrite IH, andb_assoc. reflexivity.
Qed.

Section AStable.
  Variables (k : key) (t : ts) (P : list (ts * ts)).

  (* the lock on k, if it is a Put/Delete lock: its transaction commits above t by one of the rules, or the lock
     recorded a min_commit_ts above t *)
  Definition good3 (st : store) (tbl : list (key * ts * ts)) : Prop :=
    forall l, lock_of st k = Some l ->
      data_lock l = false \/ pairs_above t (l_start l) P = true \/ exists mc, In (k, l_start l, mc) tbl /\ t < mc.

  Lemma lock_after st c l' : keys_sorted st -> lock_of (fst (step st c)) k = Some l' ->
    (exists l, lock_of st k = Some l /\ l_start l' = l_start l /\ l_op l' = l_op l)
    \/ (exists ms p s fu ttl mc ao m, c = Prewrite ms p s fu ttl mc ao /\ In m ms /\ m_key m = k /\ l_start l' = s
                                       /\ is_retry st s k = false)
    \/ data_lock l' = false.
  Proof.
    intros Hs El'. unfold lock_of in *. destruct (step_ktrans st c k Hs) as [E|Ht].
    { rewrite E in El'. left. exists l'. auto. }
    remember (get_ks (fst (step st c)) k) as x eqn:Ex. clear Ex.
    destruct Ht; cbn [ks_lock] in El'; try discriminate.
    - inversion El'; subst l'0. right; left. exists ms, p, s, fu, ttl, mc, ao, m. repeat split; auto.
      unfold is_retry, lock_of. rewrite H2. reflexivity.
    - inversion El'; subst l'0. right; left. exists ms, p, s, fu, ttl, mc, ao, m. repeat split; auto.
      unfold is_retry, lock_of. rewrite H2, H4. apply andb_false_r.
    - inversion El'; subst l'. right; right. reflexivity.
    - destruct H0 as [E|E]; rewrite E in El'; [discriminate|]. left. exists l'. auto.
    - inversion El'; subst l'0. left. exists l. auto.
    - left. exists l'. auto.
  Qed.

  Lemma step_good3 st c tbl tbl' : keys_sorted st -> good3 st tbl ->
    (forall l mc0, lock_of st k = Some l -> In (k, l_start l, mc0) tbl -> data_lock l = false \/ In (k, l_start l, mc0) tbl') ->
    (forall ms p s fu ttl mc ao m, c = Prewrite ms p s fu ttl mc ao -> In m ms -> m_key m = k -> is_retry st s k = false ->
        pairs_above t s P = true \/ exists mc', In (k, s, mc') tbl' /\ t < mc') ->
    good3 (fst (step st c)) tbl'.
  Proof.
    intros Hs Hg Hkeep Hpw l' El'.
    destruct (lock_after st c l' Hs El') as [[l [El [Es Eo]]]|[[ms [p [s [fu [ttl [mc [ao [m [Ec [Hin [Ek [Es Er]]]]]]]]]]]]|Hd]].
    - assert (Ed : data_lock l' = data_lock l) by (unfold data_lock; rewrite Eo; reflexivity).
      destruct (Hg l El) as [H|[H|[mc0 [Hin Hlt]]]].
      + left. congruence.
      + right; left. rewrite Es. exact H.
      + destruct (Hkeep l mc0 El Hin) as [H|H]; [left; congruence|]. right; right. exists mc0. rewrite Es. auto.
    - rewrite Es. destruct (Hpw _ _ _ _ _ _ _ m Ec Hin Ek Er) as [H|H]; auto.
    - left; exact Hd.
  Qed.

  (* an allowed base command is safe for reads of k at t when the lock on k is good *)
  Lemma allowed_safe st tbl c : good3 st tbl -> incl (cmd_pairs c) P -> gc_ok t c = true -> commit_allowed tbl c = true ->
    safe_step_k st c k t = true.
  Proof.
    intros Hg Hi Hgc Ha. unfold safe_step_k. rewrite Hgc. cbn [andb].
    destruct (lock_of st k) as [l|] eqn:El; [|reflexivity].
    destruct (Hg l El) as [H|[H|[mc [Hin Hlt]]]].
    - rewrite H. reflexivity.
    - apply orb_true_iff; right. eapply pairs_above_incl; [|exact H]. intros x Hx. apply Hi. apply (key_pairs_incl c k); exact Hx.
    - apply orb_true_iff; right. unfold commit_allowed in Ha. rewrite forallb_forall in Ha. specialize (Ha _ Hin).
      unfold entry_ok in Ha. cbn [fst snd] in Ha. unfold pairs_above. rewrite forallb_forall in *. intros x Hx. specialize (Ha x Hx).
      destruct (fst x =? l_start l); cbn [negb orb] in *; [|reflexivity]. apply N.leb_le in Ha. apply N.ltb_lt. lia.
  Qed.

  Lemma tbl_update_new tbl ks s mc k0 : In k0 ks -> In (k0, s, mc) (tbl_update tbl ks s mc).
  Proof. intros H. unfold tbl_update. apply in_or_app; left. apply in_map_iff. exists k0. auto. Qed.
  Lemma tbl_update_keep tbl ks s mc e : In e tbl -> (snd (fst e) =? s) && existsb (N.eqb (fst (fst e))) ks = false ->
    In e (tbl_update tbl ks s mc).
  Proof. intros H Hn. unfold tbl_update. apply in_or_app; right. apply filter_In. split; [exact H|]. rewrite Hn. reflexivity. Qed.

  (* max_ts covers the read ts whenever the region's leader is synced *)
  Definition ainv (a : astore) : Prop := keys_sorted (a_st a) /\ (a_sync a = true -> t <= a_max a) /\ good3 (a_st a) (a_tbl a).

  (* the prewrite of an async prewrite / 1PC *)
  Lemma async_prewrite_step a ms p s fu ttl rmc ao :
    let mc := async_mc a s fu rmc in
    let pw := Prewrite ms p s fu ttl mc ao in
    let ok := negb (resp_err (snd (step (a_st a) pw))) in
    ainv a -> a_sync a = true ->
    safe_step_k (a_st a) pw k t = true /\
    good3 (fst (step (a_st a) pw)) (if ok then tbl_update (a_tbl a) (fresh_keys (a_st a) ms s) s mc else a_tbl a).
  Proof.
    intros mc pw ok [Hs [Hmax0 Hg]] Hsy. pose proof (Hmax0 Hsy) as Hmax. split.
    - unfold safe_step_k. cbn [gc_ok pw andb key_pairs]. destruct (lock_of (a_st a) k); [|reflexivity]. apply orb_true_r.
    - subst ok. destruct (resp_err (snd (step (a_st a) pw))) eqn:Ee; cbn [negb].
      + (* refused: nothing changed *)
        assert (Est : fst (step (a_st a) pw) = a_st a).
        { subst pw. cbn [step] in *. destruct (prewrite_all (a_st a) (a_st a) ms p s fu ttl mc ao) as [acc es]. cbn [snd resp_err fst] in *. rewrite Ee. reflexivity. }
        rewrite Est. exact Hg.
      + apply (step_good3 (a_st a) pw (a_tbl a)); [exact Hs|exact Hg| |].
        * intros l mc0 El Hin.
          destruct ((l_start l =? s) && existsb (N.eqb k) (fresh_keys (a_st a) ms s)) eqn:Ex.
          -- left. apply andb_true_iff in Ex. destruct Ex as [E1 E2]. apply existsb_exists in E2. destruct E2 as [k0 [Hk0 Ek0]].
             apply N.eqb_eq in Ek0. subst k0. unfold fresh_keys in Hk0. apply filter_In in Hk0. destruct Hk0 as [_ Hr].
             apply negb_true_iff in Hr. unfold is_retry in Hr. rewrite El, E1 in Hr. cbn [andb] in Hr. apply negb_false_iff in Hr.
             unfold data_lock. unfold is_pess in Hr. destruct (l_op l); try discriminate; reflexivity.
          -- right. apply tbl_update_keep; [exact Hin|exact Ex].
        * intros ms0 p0 s0 fu0 ttl0 mc0 ao0 m Ec Hin Ek Er. subst pw. inversion Ec; subst. right. exists mc. split.
          -- apply tbl_update_new. unfold fresh_keys. apply filter_In. split; [rewrite <- Ek; apply in_map; exact Hin|]. rewrite Er. reflexivity.
          -- pose proof (async_mc_above a s0 fu0 rmc). subst mc. lia.
  Qed.

  Lemma astep_stable a c : ainv a -> incl (flat_map cmd_pairs (abase a c)) P -> forallb (gc_ok t) (abase a c) = true ->
    base_rule k t P c = true ->
    stable_suffix_k (a_st a) k t (abase a c) = true /\ ainv (astep a c).
  Proof.
    intros Hi Hinc Hgc Hrule. pose proof Hi as [Hs [Hmax Hg]].
    destruct c as [c|ms p s fu ttl rmc ao|ms p s fu ttl rmc ao|ks s|m|f].
    - (* base request *)
      cbn [abase astep] in *. destruct (commit_allowed (a_tbl a) c) eqn:Ea; [|split; [reflexivity|exact Hi]].
      cbn [flat_map forallb stable_suffix_k] in *. rewrite app_nil_r in Hinc. rewrite andb_true_r in *.
      split; [eapply allowed_safe; eassumption|].
      split; [apply (step_kstep (a_st a) c Hs)|]. split; [cbn [a_max a_sync]; intros Hsy; specialize (Hmax Hsy); lia|]. cbn [a_st a_tbl run_from fold_left].
      apply (step_good3 (a_st a) c (a_tbl a)); [exact Hs|exact Hg|intros; right; assumption|].
      intros ms p s fu ttl mc ao m Ec Hin Ek _. left. subst c. cbn [base_rule] in Hrule. eapply prewrite_rule_above; eassumption.
    - (* async prewrite *)
      cbn [abase astep]. cbv zeta. destruct (a_sync a) eqn:Esy; [|split; [reflexivity|exact Hi]].
      destruct (async_prewrite_step a ms p s fu ttl rmc ao Hi Esy) as [Hsafe Hgood]. specialize (Hmax eq_refl).
      cbn [stable_suffix_k a_st a_tbl a_max run_from fold_left]. rewrite Hsafe. split; [reflexivity|].
      split; [apply (step_kstep (a_st a) _ Hs)|]. split; [cbn [a_max]; intros _; lia|exact Hgood].
    - (* 1PC: prewrite, then commit at the computed ts *)
      cbn [abase astep] in *. cbv zeta in *. destruct (a_sync a) eqn:Esy; [|split; [reflexivity|exact Hi]].
      destruct (async_prewrite_step a ms p s fu ttl rmc ao Hi Esy) as [Hsafe Hgood]. specialize (Hmax eq_refl).
      cbv zeta in *. set (mc := async_mc a s fu rmc) in *. set (pw := Prewrite ms p s fu ttl mc ao) in *.
      destruct (resp_err (snd (step (a_st a) pw))) eqn:Ee; cbn [negb] in *.
      + cbn [stable_suffix_k a_st a_tbl a_max run_from fold_left]. rewrite Hsafe. split; [reflexivity|].
        split; [apply (step_kstep (a_st a) _ Hs)|]. split; [cbn [a_max]; intros _; lia|exact Hgood].
      + cbn [stable_suffix_k a_st a_tbl a_max run_from fold_left]. rewrite Hsafe. cbn [andb].
        assert (Hs1 : keys_sorted (fst (step (a_st a) pw))) by (apply (step_kstep (a_st a) _ Hs)).
        assert (Hlt : t < mc) by (pose proof (async_mc_above a s fu rmc); subst mc; lia).
        split.
        * rewrite andb_true_r. unfold safe_step_k. cbn [gc_ok andb key_pairs].
          destruct (lock_of (fst (step (a_st a) pw)) k) as [l|]; [|reflexivity]. apply orb_true_iff; right.
          destruct (existsb (N.eqb k) (lockable_keys ms)); [|reflexivity]. unfold pairs_above. cbn [forallb fst snd].
          rewrite andb_true_r. apply orb_true_iff; right. apply N.ltb_lt; exact Hlt.
        * split; [apply (step_kstep _ _ Hs1)|]. split; [cbn [a_max]; intros _; lia|].
          eapply step_good3; [exact Hs1|exact Hgood|intros; right; assumption|]. intros; discriminate.
    - (* CheckSecondaryLocks: rollback records for the missing locks *)
      cbn [abase astep stable_suffix_k a_st a_tbl a_max run_from fold_left]. split.
      + rewrite andb_true_r. unfold safe_step_k. cbn [gc_ok andb key_pairs]. destruct (lock_of (a_st a) k); [|reflexivity]. apply orb_true_r.
      + split; [apply (step_kstep (a_st a) _ Hs)|]. split; [exact Hmax|].
        eapply step_good3; [exact Hs|exact Hg|intros; right; assumption|]. intros; discriminate.
    - (* leader transfer: max_ts is unknown, nothing async is served until the refresh *)
      cbn [abase astep stable_suffix_k]. split; [reflexivity|]. split; [exact Hs|]. split; [cbn [a_sync]; discriminate|exact Hg].
    - (* refresh with a timestamp issued after t *)
      cbn [abase astep stable_suffix_k base_rule] in *. apply N.leb_le in Hrule.
      split; [reflexivity|]. split; [exact Hs|]. split; [cbn [a_max]; intros _; lia|exact Hg].
  Qed.

  Lemma arun_stable : forall b a, ainv a -> incl (flat_map cmd_pairs (abase_run a b)) P ->
    forallb (gc_ok t) (abase_run a b) = true -> forallb (base_rule k t P) b = true ->
    stable_suffix_k (a_st a) k t (abase_run a b) = true.
  Proof.
    induction b as [|c r IH]; intros a Hi Hinc Hgc Hr; [reflexivity|].
    cbn [abase_run forallb] in *. rewrite flat_map_app in Hinc. rewrite forallb_app in Hgc.
    apply andb_true_iff in Hgc. destruct Hgc as [Hgc1 Hgc2]. apply andb_true_iff in Hr. destruct Hr as [Hr1 Hr2].
    destruct (astep_stable a c Hi) as [H1 H2]; [intros x Hx; apply Hinc; apply in_or_app; left; exact Hx|exact Hgc1|exact Hr1|].
    rewrite stable_suffix_k_app, H1. cbn [andb]. rewrite <- astep_st.
    apply IH; [exact H2|intros x Hx; apply Hinc; apply in_or_app; right; exact Hx|exact Hgc2|exact Hr2].
  Qed.
End AStable.

(* a read of k at t was served (max_ts >= t) on the store reached by [a]; [b] follows. No hypothesis on the async
   prewrites / 1PC requests in [b]. *)
Theorem async_read_stable a b k t :
  let A := arun a in
  let B := abase_run A b in
  oracle_ts (abase_run a0 a ++ B) = true -> t <= a_max A ->
  forallb (gc_ok t) B = true -> forallb (base_rule k t (flat_map cmd_pairs B)) b = true ->
  met_rule (a_st A) k t (flat_map cmd_pairs B) = true ->
  a_st (arun (a ++ b)) = run (abase_run a0 a ++ B) /\
  read_at (a_st (arun (a ++ b))) k t = read_at (a_st A) k t.
Proof.
  intros A B Ho Hmax Hgc Hrule Hmet.
  assert (EA : a_st A = run (abase_run a0 a)) by (unfold A, arun; rewrite arun_from_st; reflexivity).
  assert (E : a_st (arun (a ++ b)) = run (abase_run a0 a ++ B)).
  { rewrite arun_app. fold A. rewrite arun_from_st. fold B. rewrite run_app, <- EA. reflexivity. }
  split; [exact E|]. rewrite E, EA. apply read_stable_k; [exact Ho|]. rewrite <- EA.
  destruct (oracle_app_wf _ _ Ho) as [HW [Hwf _]]. rewrite <- EA in Hwf.
  apply arun_stable with (P := flat_map cmd_pairs B); [|apply incl_refl|exact Hgc|exact Hrule].
  split; [exact (proj1 Hwf)|]. split; [intros _; exact Hmax|].
  intros l El. unfold met_rule in Hmet. rewrite El in Hmet.
  apply orb_true_iff in Hmet. destruct Hmet as [Hmet|Hmet]; [|right; left; exact Hmet].
  apply orb_true_iff in Hmet. destruct Hmet as [Hmet|Hmet]; [left; apply negb_true_iff; exact Hmet|right; left].
  apply N.ltb_lt in Hmet. unfold pairs_above. apply forallb_forall. intros [s c] Hx. cbn [fst snd].
  destruct (N.eqb_spec s (l_start l)) as [Es|Es]; cbn [negb orb]; [|reflexivity]. apply N.ltb_lt.
  assert (Hin : In (s, c) (w_pairs (world_of (abase_run a0 a ++ B)))).
  { cbn [world_of w_pairs]. rewrite flat_map_app. apply in_or_app; right; exact Hx. }
  pose proof (wo_lt _ HW _ _ Hin). lia.
Qed.

(* ------------------------------------------------------------------ external consistency from the mechanics *)
(* client rule: every timestamp in a request was issued by the oracle earlier (<= T, the latest one issued); a
   requested min_commit_ts is at most T + 1 (client-go: latest ts seen + 1) *)
Definition acmd_ok (T : ts) (c : acmd) : bool :=
  match c with
  | ABase c0 => bump_ts c0 <=? T
  | AsyncPrewrite _ _ s fu _ rmc _ | OnePC _ _ s fu _ rmc _ => (s <=? T) && (fu <=? T) && (rmc <=? T + 1)
  | ACheckSecondary _ _ => true
  | ATransfer m => m <=? T        (* the new leader has only seen timestamps the oracle issued *)
  | ARefresh f => f =? T          (* the refresh installs the timestamp just fetched from the oracle *)
  end.
Inductive jev :=
| JTso (t : ts)        (* the oracle issues t *)
| JReq (c : acmd)      (* the store executes a request *)
| JAck (c : ts).       (* an async-commit / 1PC transaction is acknowledged with commit ts c *)
(* rules along a joint trace: the oracle is strictly increasing; requests obey [acmd_ok]; an acknowledged commit ts
   is one of the min_commit_ts values the store returned (async commit: the maximum of the prewrite responses; 1PC:
   the one-pc commit ts) *)
Fixpoint jrules (a : astore) (T : ts) (ret : list ts) (tr : list jev) : bool :=
  match tr with
  | [] => true
  | JTso t :: r => (T <? t) && jrules a t ret r
  | JReq c :: r => acmd_ok T c && jrules (astep a c) T (returned_mc a c ++ ret) r
  | JAck c :: r => existsb (N.eqb c) ret && jrules a T ret r
  end.

Lemma astep_bound a T c : acmd_ok T c = true -> a_max a <= T ->
  a_max (astep a c) <= T /\ forall x, In x (returned_mc a c) -> x <= T + 1.
Proof.
  intros Hok Hm. destruct c as [c|ms p s fu ttl rmc ao|ms p s fu ttl rmc ao|ks s|m|f]; cbn [acmd_ok returned_mc astep] in *.
  - split; [|intros x []]. apply N.leb_le in Hok. destruct (commit_allowed (a_tbl a) c); cbn [a_max]; lia.
  - apply andb_true_iff in Hok. destruct Hok as [Hok H3]. apply andb_true_iff in Hok. destruct Hok as [H1 H2].
    apply N.leb_le in H1, H2, H3. cbv zeta. destruct (a_sync a); [|split; [exact Hm|intros x []]].
    cbn [a_max]. split; [lia|]. intros x [E|[]]. subst x. unfold async_mc. lia.
  - apply andb_true_iff in Hok. destruct Hok as [Hok H3]. apply andb_true_iff in Hok. destruct Hok as [H1 H2].
    apply N.leb_le in H1, H2, H3. cbv zeta. destruct (a_sync a); [|split; [exact Hm|intros x []]].
    cbn [a_max]. split; [lia|]. intros x [E|[]]. subst x. unfold async_mc. lia.
  - cbn [a_max]. split; [exact Hm|intros x []].
  - apply N.leb_le in Hok. cbn [a_max]. split; [exact Hok|intros x []].
  - apply N.eqb_eq in Hok. cbn [a_max]. split; [lia|intros x []].
Qed.

Lemma jprefix : forall p a T ret rest, jrules a T ret (p ++ rest) = true -> a_max a <= T -> (forall x, In x ret -> x <= T + 1) ->
  exists a' T' ret', T <= T' /\ a_max a' <= T' /\ (forall x, In x ret' -> x <= T' + 1) /\ jrules a' T' ret' rest = true.
Proof.
  induction p as [|e r IH]; intros a T ret rest H Hm Hr.
  - exists a, T, ret. repeat split; auto. lia.
  - cbn [app jrules] in H. destruct e as [t|c|c]; apply andb_true_iff in H; destruct H as [H1 H2].
    + apply N.ltb_lt in H1. destruct (IH a t ret rest H2) as [a' [T' [ret' [Hle Hrest]]]]; [lia|intros x Hx; specialize (Hr x Hx); lia|].
      exists a', T', ret'. split; [lia|exact Hrest].
    + destruct (astep_bound a T c H1 Hm) as [Hm' Hret].
      destruct (IH (astep a c) T (returned_mc a c ++ ret) rest H2 Hm') as [a' [T' [ret' Hrest]]].
      * intros x Hx. apply in_app_or in Hx. destruct Hx as [Hx|Hx]; [apply Hret; exact Hx|apply Hr; exact Hx].
      * exists a', T', ret'. exact Hrest.
    + apply (IH a T ret rest H2 Hm Hr).
Qed.

(* every timestamp the oracle issues after the acknowledgement of an async-commit / 1PC transaction is at or above
   its commit ts: a transaction that begins afterwards sees it *)
Theorem async_external_consistency p c q s r :
  jrules a0 0 [] (p ++ JAck c :: q ++ JTso s :: r) = true -> c <= s.
Proof.
  intros H. destruct (jprefix p a0 0 [] _ H) as [a1 [T1 [ret1 [_ [Hm1 [Hr1 H1]]]]]]; [cbn; lia|intros x []|].
  cbn [jrules] in H1. apply andb_true_iff in H1. destruct H1 as [Hack H1].
  apply existsb_exists in Hack. destruct Hack as [x [Hx Ex]]. apply N.eqb_eq in Ex. subst x. pose proof (Hr1 c Hx) as Hc.
  destruct (jprefix q a1 T1 ret1 _ H1 Hm1 Hr1) as [a2 [T2 [ret2 [Hle [_ [_ H2]]]]]].
  cbn [jrules] in H2. apply andb_true_iff in H2. destruct H2 as [Hlt _]. apply N.ltb_lt in Hlt. lia.
Qed.

(* a served point get at t (not the max-ts sentinel) leaves max_ts at or above t *)
Lemma served_get_max a k t rs : t <> max_ts -> t <= a_max (astep a (ABase (Get k t rs))).
Proof.
  intros Hne. pose proof (read_bumps a (Get k t rs) eq_refl) as H. cbn [bump_ts] in H.
  destruct (N.eqb_spec t max_ts); [contradiction|]. exact H.
Qed.

(* the refresh rule of [base_rule] follows from the joint-trace rules: once the oracle has issued t, every later refresh
   installs a timestamp >= t *)
Fixpoint reqs_of (tr : list jev) : list acmd :=
  match tr with [] => [] | JReq c :: r => c :: reqs_of r | _ :: r => reqs_of r end.
Lemma jrules_refresh t : forall tr a T ret, jrules a T ret tr = true -> t <= T ->
  forallb (fun c => match c with ARefresh f => t <=? f | _ => true end) (reqs_of tr) = true.
Proof.
  induction tr as [|[t'|c|c] r IH]; intros a T ret H HT; cbn [jrules reqs_of forallb] in *; [reflexivity| | |];
    apply andb_true_iff in H; destruct H as [H1 H2].
  - apply N.ltb_lt in H1. apply (IH a t' ret H2). lia.
  - apply andb_true_iff; split; [|apply (IH _ _ _ H2 HT)].
    destruct c; try reflexivity. cbn [acmd_ok] in H1. apply N.eqb_eq in H1. apply N.leb_le. lia.
  - apply (IH a T ret H2 HT).
Qed.
