(* SI/ProofsExt.v — external consistency from the order of oracle / acknowledgement / begin events. *)
From Verif Require Import SI.Model.

Lemma increasing_tail x l : increasing (x :: l) = true -> increasing l = true.
Proof. cbn [increasing]. intros H. apply andb_true_iff in H. tauto. Qed.

Lemma tso_vals_cons e r : tso_vals (e :: r) = match e with EvTso t => [t] | _ => [] end ++ tso_vals r.
Proof. reflexivity. Qed.

Lemma tso_in r i s : nth_error r i = Some (EvTso s) -> In s (tso_vals r).
Proof.
  intros H. apply nth_error_In in H. unfold tso_vals. apply in_flat_map. exists (EvTso s). split; [exact H|left; reflexivity].
Qed.

Lemma increasing_nth : forall tr i j t s, oracle_monotonic tr = true -> (i < j)%nat ->
  nth_error tr i = Some (EvTso t) -> nth_error tr j = Some (EvTso s) -> t < s.
Proof.
  unfold oracle_monotonic. induction tr as [|e r IH]; intros i j t s Hm Hij Hi Hj; [destruct i; discriminate|].
  destruct j as [|j]; [inversion Hij|]. cbn [nth_error] in Hj.
  rewrite tso_vals_cons in Hm. destruct i as [|i].
  - cbn [nth_error] in Hi. inversion Hi; subst e. cbn [app increasing] in Hm.
    apply andb_true_iff in Hm. destruct Hm as [Hm _]. rewrite forallb_forall in Hm.
    apply N.ltb_lt. apply Hm. eapply tso_in; exact Hj.
  - cbn [nth_error] in Hi. apply (IH i j t s); [|lia|exact Hi|exact Hj].
    destruct e; cbn [app] in Hm; try exact Hm. eapply increasing_tail; exact Hm.
Qed.

Lemma nth_in_seq {A} (l : list A) i x : nth_error l i = Some x -> In i (seq 0 (length l)).
Proof. intros H. apply in_seq. split; [apply PeanoNat.Nat.le_0_l|]. cbn. apply nth_error_Some. congruence. Qed.

(* d = 0 (2PC): c < s.  d = 1 (async commit / 1PC): c <= s. *)
Lemma ext_consistent tr d j x c r y s :
  oracle_monotonic tr = true -> begin_rule tr = true -> commit_rule d tr = true ->
  nth_error tr j = Some (EvAck x c) -> nth_error tr r = Some (EvBeginRet y s) -> begins_after tr j y = true ->
  c < s + d.
Proof.
  intros Hm Hb Hc Hj Hr Ha.
  unfold commit_rule in Hc. rewrite forallb_forall in Hc. specialize (Hc j (nth_in_seq _ _ _ Hj)). rewrite Hj in Hc.
  apply existsb_exists in Hc. destruct Hc as [i [Hi Hc]]. apply in_seq in Hi.
  destruct (nth_error tr i) as [[t| | |]|] eqn:Ei; try discriminate. apply N.leb_le in Hc.
  unfold begin_rule in Hb. rewrite forallb_forall in Hb. specialize (Hb r (nth_in_seq _ _ _ Hr)). rewrite Hr in Hb.
  apply existsb_exists in Hb. destruct Hb as [i' [Hi' Hb]]. apply in_seq in Hi'.
  destruct (nth_error tr i') as [[t'| | |]|] eqn:Ei'; try discriminate.
  apply andb_true_iff in Hb. destruct Hb as [Et Hb]. apply N.eqb_eq in Et. subst t'.
  apply existsb_exists in Hb. destruct Hb as [b [Hbi Hb]]. apply in_seq in Hbi.
  destruct (nth_error tr b) as [[| |y'|]|] eqn:Eb; try discriminate. apply N.eqb_eq in Hb. subst y'.
  unfold begins_after in Ha. rewrite forallb_forall in Ha. specialize (Ha b (nth_in_seq _ _ _ Eb)). rewrite Eb in Ha.
  rewrite N.eqb_refl in Ha. cbn [negb orb] in Ha. apply PeanoNat.Nat.ltb_lt in Ha.
  assert (Hlt : t < s). { apply (increasing_nth tr i i' t s Hm); [lia|exact Ei|exact Ei']. }
  lia.
Qed.
