(* SI/ProofsTrans.v — what one command can do to one key: the eight per-key transitions
   ([ktrans]) with the facts the C01 invariants need (which lock appears under which conflict
   check, which record is written for which (start, commit) pair). Derived from Mvcc's [kstep]. *)
From Verif Require Import SI.Model Mvcc.ProofsStore Mvcc.ProofsKey Mvcc.ProofsKstep Mvcc.ProofsShape.

Inductive ktrans (c : cmd) (k : key) (ks : kstate) : kstate -> Prop :=
| kt_prewrite_fresh ms p s fu ttl mc ao m v cf l' :
    c = Prewrite ms p s fu ttl mc ao -> In m ms -> m_key m = k -> ks_lock ks = None -> m_pess_check m = false ->
    ccv (mkCcv k s s false (m_assert m) false) false ao false (ks_writes ks) = COk v cf ->
    l_start l' = s -> is_pess l' = false ->
    ktrans c k ks (mkKs (Some l') (ks_writes ks))
| kt_prewrite_pess ms p s fu ttl mc ao m l l' :
    c = Prewrite ms p s fu ttl mc ao -> In m ms -> m_key m = k ->
    ks_lock ks = Some l -> l_start l = s -> is_pess l = true ->
    l_start l' = s -> is_pess l' = false ->
    ktrans c k ks (mkKs (Some l') (ks_writes ks))
| kt_pesslock r ne v cf :
    c = PessLock r -> In (k, ne) (p_keys r) ->
    (ks_lock ks = None \/ exists l, ks_lock ks = Some l /\ l_start l = p_start r /\ is_pess l = true) ->
    ccv (mkCcv k (p_start r) (p_for_update r) true (if ne then AsNotExist else AsNone) (p_lock_only_if_exists r))
        true false (p_force r) (ks_writes ks) = COk v cf ->
    ktrans c k ks (mkKs (Some (mkLock (p_start r) (p_primary r) LPess 0 (p_ttl r) (p_for_update r) (p_min_commit r)))
                        (ks_writes ks))
| kt_unlock : ktrans c k ks (mkKs None (ks_writes ks))
| kt_commit l cm :
    ks_lock ks = Some l -> In (l_start l, cm) (cmd_pairs c) ->
    ktrans c k ks (mkKs None (put_write (mkWrite (wkind_of_op (l_op l)) (l_start l) cm (l_value l)) (ks_writes ks)))
| kt_rollback s lk :
    In s (cmd_starts c) -> lk = None \/ lk = ks_lock ks ->
    ktrans c k ks (mkKs lk (put_write (rollback_write s) (ks_writes ks)))
| kt_relock l l' :
    ks_lock ks = Some l -> l_start l' = l_start l -> l_op l' = l_op l -> l_for_update l' = l_for_update l ->
    ktrans c k ks (mkKs (Some l') (ks_writes ks))
| kt_gc s e sp : c = GC s e sp -> ktrans c k ks (mkKs (ks_lock ks) (gc_writes sp true (ks_writes ks)))
| kt_delrange s e : c = DeleteRange s e -> ktrans c k ks empty_ks.

Lemma is_pess_mop o : op_eqb (mop_lock_op o) LPess = false.
Proof. destruct o; reflexivity. Qed.

Lemma prewrite_key_trans ms p s fu ttl mc ao m ks x :
  In m ms -> prewrite_key ks m s p ttl mc ao = KOk (Some x) ->
  ktrans (Prewrite ms p s fu ttl mc ao) (m_key m) ks x.
Proof.
  intros Hin. unfold prewrite_key. destruct (ks_lock ks) as [l|] eqn:El.
  - destruct (N.eqb_spec (l_start l) s) as [Es|Es]; cbn [negb]; [|discriminate].
    destruct (is_pess l) eqn:Ep; cbn [negb]; [|discriminate].
    destruct (ccv _ false ao false (ks_writes ks)); [discriminate|].
    intros E; inversion E; subst.
    eapply kt_prewrite_pess; try reflexivity; try eassumption; try reflexivity.
    unfold is_pess; cbn [l_op]. apply is_pess_mop.
  - destruct (m_pess_check m) eqn:Epc; [discriminate|].
    destruct (ccv _ false ao false (ks_writes ks)) as [|v cf] eqn:Ec; [discriminate|].
    intros E; inversion E; subst.
    eapply kt_prewrite_fresh; try reflexivity; try eassumption; try reflexivity.
    unfold is_pess; cbn [l_op]. apply is_pess_mop.
Qed.

Lemma pess_lock_key_trans r k ne res ks x :
  In (k, ne) (p_keys r) -> pess_lock_key ks r k ne = inr (res, Some x) -> ktrans (PessLock r) k ks x.
Proof.
  intros Hin. unfold pess_lock_key.
  destruct (p_lock_only_if_exists r && negb (p_return_values r)); [discriminate|].
  assert (G : forall already,
             (ks_lock ks = None \/ exists l, ks_lock ks = Some l /\ l_start l = p_start r /\ is_pess l = true) ->
             pess_lock_go ks r k ne already = inr (res, Some x) -> ktrans (PessLock r) k ks x).
  { intros already Hl. unfold pess_lock_go.
    destruct (ccv _ true false (p_force r) (ks_writes ks)) as [e|v conflict] eqn:Ec; [discriminate|].
    cbv zeta. destruct (match conflict with Some (EWriteConflict _ _ cc _) => _ | Some e => _ | None => _ end) as [e|res0]; [discriminate|].
    destruct (p_lock_only_if_exists r && negb match v with Some _ => true | None => false end); [discriminate|].
    destruct (match already with None => true | Some l => l_for_update l <? p_for_update r end); [|discriminate].
    intros E; inversion E; subst. eapply kt_pesslock; try reflexivity; eassumption. }
  destruct (ks_lock ks) as [l|] eqn:El; [|apply G; left; reflexivity].
  destruct (N.eqb_spec (l_start l) (p_start r)) as [Es|Es]; cbn [negb]; [|discriminate].
  destruct (is_pess l) eqn:Ep; cbn [negb]; [|discriminate].
  apply G. right. exists l. repeat split; assumption.
Qed.

Lemma resolve_key_trans c k ks s cm x :
  (0 <? cm = true -> In (s, cm) (cmd_pairs c)) -> In s (cmd_starts c) ->
  resolve_key s cm k ks = Some x -> ktrans c k ks x.
Proof.
  intros Hp Hs. unfold resolve_key. destruct (own_lock ks s) as [l|] eqn:Eo; [|discriminate].
  apply own_lock_some in Eo. destruct Eo as [El Es]. intros E; inversion E; subst.
  destruct (0 <? cm) eqn:Ec.
  - unfold commit_lock. apply kt_commit; [exact El|]. apply Hp; reflexivity.
  - unfold rollback_lock. apply kt_rollback; [exact Hs|left; reflexivity].
Qed.

Lemma rollback_key_trans c k ks s x : In s (cmd_starts c) -> rollback_key ks s = KOk (Some x) -> ktrans c k ks x.
Proof.
  intros Hs. unfold rollback_key. destruct (own_lock ks s) as [l|] eqn:Eo.
  - intros E; inversion E; subst. unfold rollback_lock. apply kt_rollback; [exact Hs|left; reflexivity].
  - destruct (find_start s (ks_writes ks)) as [w|]; [destruct (is_rollback w); discriminate|].
    intros E; inversion E; subst. unfold write_rollback. apply kt_rollback; [exact Hs|right; reflexivity].
Qed.

Lemma pess_rollback_key_trans c k ks s fu x : pess_rollback_key ks s fu = Some x -> ktrans c k ks x.
Proof.
  unfold pess_rollback_key. destruct (pess_rollback_match ks s fu); [|discriminate].
  intros E; inversion E; subst. apply kt_unlock.
Qed.

Theorem kstep_ktrans st c k x : kstep st c k x -> ktrans c k (get_ks st k) x.
Proof.
  destruct c; cbn [kstep]; intros H.
  - destruct H as [m [Hin [Ek H]]]. subst k. eapply prewrite_key_trans; eassumption.
  - destruct H as [ne [res [Hin H]]]. eapply pess_lock_key_trans; eassumption.
  - eapply pess_rollback_key_trans; exact H.
  - (* Commit *)
    unfold commit_key in H. destruct (own_lock (get_ks st k) start) as [l|] eqn:Eo.
    + apply own_lock_some in Eo. destruct Eo as [El Es]. destruct (commit <? l_min_commit l); [discriminate|].
      inversion H; subst. unfold commit_lock. apply kt_commit; [exact El|]. cbn [cmd_pairs]. left; reflexivity.
    + destruct (find_start start (ks_writes (get_ks st k))) as [w|]; [destruct (is_rollback w)|]; discriminate.
  - eapply rollback_key_trans; [|exact H]. cbn [cmd_starts]. left; reflexivity.
  - (* Cleanup *)
    destruct H as [_ H]. unfold cleanup_key in H. destruct (own_lock (get_ks st k) start) as [l|] eqn:Eo.
    + destruct ((current =? 0) || ttl_expired l current); [|discriminate]. inversion H; subst.
      unfold rollback_lock. apply kt_rollback; [left; reflexivity|left; reflexivity].
    + eapply rollback_key_trans; [|exact H]. left; reflexivity.
  - (* CheckTxnStatus *)
    destruct H as [_ [r H]]. unfold check_txn_status_key in H.
    destruct (own_lock (get_ks st k) lock_ts) as [l|] eqn:Eo.
    + apply own_lock_some in Eo. destruct Eo as [El Es]. destruct (ttl_expired l current).
      * destruct (resolving_pess && is_pess l).
        -- inversion H as [[E1 E2]]. eapply pess_rollback_key_trans; exact E1.
        -- inversion H; subst. unfold rollback_lock. apply kt_rollback; [left; reflexivity|left; reflexivity].
      * destruct (caller =? max_ts); [discriminate|]. destruct (0 <? l_min_commit l); [|discriminate].
        destruct (l_min_commit l <? caller + 1); [|discriminate].
        inversion H; subst. eapply kt_relock; [exact El|reflexivity..].
    + destruct (find_start lock_ts (ks_writes (get_ks st k))) as [w|]; [destruct (is_rollback w); discriminate|].
      destruct rollback_if_not_exist; [|discriminate]. destruct resolving_pess; [discriminate|].
      inversion H; subst. unfold write_rollback. apply kt_rollback; [left; reflexivity|right; reflexivity].
  - (* HeartBeat *)
    destruct H as [_ [r H]]. unfold heartbeat_key in H.
    destruct (own_lock (get_ks st k) start) as [l|] eqn:Eo; [|discriminate].
    apply own_lock_some in Eo. destruct Eo as [El Es]. destruct (negb (l_primary l =? k)); [discriminate|].
    destruct (l_ttl l <? advise); [|discriminate]. inversion H; subst. eapply kt_relock; [exact El|reflexivity..].
  - (* ResolveLock *)
    destruct H as [_ H]. eapply resolve_key_trans; [| |exact H].
    + intros Hc. cbn [cmd_pairs]. rewrite Hc. left; reflexivity.
    + left; reflexivity.
  - (* BatchResolveLock *)
    destruct H as [_ H]. unfold batch_resolve_key in H.
    destruct (ks_lock (get_ks st k)) as [l|] eqn:El; [|discriminate].
    destruct (assoc_ts (l_start l) infos) as [cm|] eqn:Ea; [|discriminate].
    apply assoc_ts_in in Ea. eapply resolve_key_trans; [| |exact H].
    + intros Hc. cbn [cmd_pairs]. apply filter_In. split; [exact Ea|exact Hc].
    + cbn [cmd_starts]. apply in_map_iff. exists (l_start l, cm). split; [reflexivity|exact Ea].
  - destruct H.
  - destruct H as [_ H]. unfold gc_key in H. inversion H; subst. eapply kt_gc; reflexivity.
  - destruct H. - destruct H. - destruct H. - destruct H.
  - destruct H.
  - destruct H as [_ H]. subst x. eapply kt_delrange; reflexivity.
  - destruct H.
Qed.

(* the step-level form: after a command, key k keeps its state or made one transition *)
Lemma step_ktrans st c k : keys_sorted st ->
  get_ks (fst (step st c)) k = get_ks st k \/ ktrans c k (get_ks st k) (get_ks (fst (step st c)) k).
Proof.
  intros Hs. destruct (step_kstep st c Hs) as [_ Hr]. destruct (Hr k) as [E|H]; [left; exact E|right].
  apply kstep_ktrans; exact H.
Qed.

(* an accepted conflict check (no forced locking): no record above the for-update ts *)
Lemma ccv_ok_below a gv ao ws v cf : desc ws -> ccv a gv ao false ws = COk v cf ->
  forall w, In w ws -> w_commit w <= c_for_update a.
Proof.
  intros Hd H w Hin. destruct ws as [|w0 r]; [destruct Hin|].
  unfold ccv in H. destruct (N.ltb_spec (c_for_update a) (w_commit w0)) as [Hlt|Hge]; [discriminate|].
  pose proof (desc_head_max _ _ _ Hd Hin). lia.
Qed.
