(* SI/Model.v — definitions of property C01 (snapshot isolation / external consistency) over the
   MVCC store model Mvcc/Model.v: the committed history of a key, the history read [hist_read]
   (= python oracle's read_at in checks/C01.py), the boolean history checker [si_ok], the
   stability predicate on command suffixes, the client/reader rules that imply it, the
   lock-point ghost (for-update ts under which a key was locked), the write-write discipline and
   the abstract event order for external consistency. Executable definitions only. *)
From Verif Require Export Mvcc.Model Mvcc.Spec.

(* ------------------------------------------------------------------ committed history of a key *)
(* (commit ts, start ts, Some value = Put / None = Delete), as checks/C01.py builds it from MvccGetByKey *)
Definition hrec : Type := ts * ts * option value.
Definition h_commit (r : hrec) : ts := fst (fst r).
Definition h_start (r : hrec) : ts := snd (fst r).
Definition h_val (r : hrec) : option value := snd r.

Definition hrec_of (w : write) : list hrec :=
  match w_kind w with
  | WPut => [(w_commit w, w_start w, Some (w_value w))]
  | WDel => [(w_commit w, w_start w, None)]
  | _ => []
  end.
Definition hist_of_writes (ws : list write) : list hrec := flat_map hrec_of ws.
Definition history (st : store) (k : key) : list hrec := hist_of_writes (writes_of st k).

(* the record of greatest commit ts <= t, whatever the order of the list *)
Fixpoint hist_newest (h : list hrec) (t : ts) : option hrec :=
  match h with
  | [] => None
  | r :: rest => match hist_newest rest t with
                 | Some x => if (h_commit r <=? t) && (h_commit x <? h_commit r) then Some r else Some x
                 | None => if h_commit r <=? t then Some r else None
                 end
  end.
Definition hist_read_full (h : list hrec) (t : ts) : option (value * ts) :=
  match hist_newest h t with
  | Some r => match h_val r with Some v => Some (v, h_commit r) | None => None end
  | None => None
  end.
Definition hist_read (h : list hrec) (t : ts) : option value := option_map fst (hist_read_full h t).

(* the whole committed history: key -> records (python: hist) *)
Definition histories : Type := list (key * list hrec).
Definition full_history (st : store) : histories := map (fun kv => (fst kv, hist_of_writes (ks_writes (snd kv)))) st.
Fixpoint hist_lookup (H : histories) (k : key) : list hrec :=
  match H with
  | [] => []
  | (k', h) :: r => if k' =? k then h else if k <? k' then [] else hist_lookup r k
  end.

(* the timestamp a point get really reads at (the max-ts exception of mvccLock.check) *)
Definition eff_ts (st : store) (k : key) (t : ts) : ts :=
  match lock_of st k with
  | Some l => if (l_start l <=? t) && data_lock l && max_ts_exception l k t then l_start l - 1 else t
  | None => t
  end.

(* ------------------------------------------------------------------ the history checker (reads) *)
(* one observed read: reader's start ts, key, its own buffered write at that moment (Some (Some v) = set/insert,
   Some None = delete, None = nothing buffered), value returned (None = not found) *)
Record read_obs := mkObs { ro_ts : ts; ro_key : key; ro_own : option (option value); ro_val : option value }.
Definition optv_eqb (a b : option value) : bool :=
  match a, b with Some x, Some y => x =? y | None, None => true | _, _ => false end.
Definition obs_ok (H : histories) (o : read_obs) : bool :=
  match ro_own o with
  | Some w => optv_eqb (ro_val o) w
  | None => optv_eqb (ro_val o) (hist_read (hist_lookup H (ro_key o)) (ro_ts o))
  end.
Definition si_ok (H : histories) (obs : list read_obs) : bool := forallb (obs_ok H) obs.

(* a range read (scan): reader's start ts, the keys of the range (ascending; every key the checker knows), the reader's
   buffered writes, the returned pairs. Accepted iff the result is exactly the own-write-or-history read of every key
   of the range that has a value, in key order - none missing, none extra (python: the scan clause of si_history_ok) *)
Record scan_obs := mkScan { so_ts : ts; so_keys : list key; so_own : list (key * option value); so_res : list (key * value) }.
Fixpoint own_lookup (own : list (key * option value)) (k : key) : option (option value) :=
  match own with [] => None | (k', w) :: r => if k' =? k then Some w else own_lookup r k end.
Definition scan_expect (H : histories) (o : scan_obs) (k : key) : option value :=
  match own_lookup (so_own o) k with Some w => w | None => hist_read (hist_lookup H k) (so_ts o) end.
Fixpoint pairs_eqb (a b : list (key * value)) : bool :=
  match a, b with
  | [], [] => true
  | (k1, v1) :: r1, (k2, v2) :: r2 => (k1 =? k2) && (v1 =? v2) && pairs_eqb r1 r2
  | _, _ => false
  end.
Definition scan_want (H : histories) (o : scan_obs) : list (key * value) :=
  flat_map (fun k => match scan_expect H o k with Some v => [(k, v)] | None => [] end) (so_keys o).
Definition scan_ok (H : histories) (o : scan_obs) : bool := pairs_eqb (scan_want H o) (so_res o).
(* the point observation a scan implies for one key of its range *)
Definition scan_point (o : scan_obs) (k : key) : read_obs :=
  mkObs (so_ts o) k (own_lookup (so_own o) k)
        ((fix find (l : list (key * value)) : option value :=
            match l with [] => None | (k', v) :: r => if k' =? k then Some v else find r end) (so_res o)).

(* ------------------------------------------------------------------ read stability *)
(* no GC above the read ts and no DeleteRange (unsafe destroy range) *)
Definition gc_ok (t : ts) (c : cmd) : bool := match c with GC _ _ sp => sp <=? t | DeleteRange _ _ => false | _ => true end.
(* every pair of P naming transaction s commits above t *)
Definition pairs_above (t s : ts) (P : list (ts * ts)) : bool :=
  forallb (fun p => negb (fst p =? s) || (t <? snd p)) P.
(* command c, executed on st, cannot change what a read of k at t sees: a commit / resolve that names the
   transaction currently holding a Put/Delete lock on k carries a commit ts above t; no GC above t *)
Definition safe_step (st : store) (c : cmd) (k : key) (t : ts) : bool :=
  gc_ok t c &&
  match lock_of st k with
  | Some l => negb (data_lock l) || pairs_above t (l_start l) (cmd_pairs c)
  | None => true
  end.
Fixpoint stable_suffix (st : store) (k : key) (t : ts) (b : list cmd) : bool :=
  match b with
  | [] => true
  | c :: r => safe_step st c k t && stable_suffix (fst (step st c)) k t r
  end.

(* per-key refinement: only the pairs a command applies to key k matter for reads of k *)
Definition key_pairs (c : cmd) (k : key) : list (ts * ts) :=
  match c with
  | Commit ks s cm => if existsb (N.eqb k) ks then [(s, cm)] else []
  | ResolveLock s0 e0 s cm => if in_range s0 e0 k && (0 <? cm) then [(s, cm)] else []
  | BatchResolveLock s0 e0 infos => if in_range s0 e0 k then filter (fun p => 0 <? snd p) infos else []
  | _ => []
  end.
Definition safe_step_k (st : store) (c : cmd) (k : key) (t : ts) : bool :=
  gc_ok t c &&
  match lock_of st k with
  | Some l => negb (data_lock l) || pairs_above t (l_start l) (key_pairs c k)
  | None => true
  end.
Fixpoint stable_suffix_k (st : store) (k : key) (t : ts) (b : list cmd) : bool :=
  match b with
  | [] => true
  | c :: r => safe_step_k st c k t && stable_suffix_k (fst (step st c)) k t r
  end.
(* the command as far as key k is concerned *)
Definition restrict (c : cmd) (k : key) : cmd :=
  match c with
  | Commit ks _ _ => if existsb (N.eqb k) ks then c else ScanLock 0 0 0
  | ResolveLock s0 e0 _ _ => if in_range s0 e0 k then c else ScanLock 0 0 0
  | BatchResolveLock s0 e0 _ => if in_range s0 e0 k then c else ScanLock 0 0 0
  | _ => c
  end.

(* the client-side rules that give stability for a read of k at t served on st, b = what follows:
   (gc)  no GC with a safe point above t;
   (pw)  a prewrite of k after the read either carries min_commit_ts > t and its transaction commits at or
         above that min_commit_ts (async commit / 1PC: the store's max_ts rule; C04: commit ts >= every
         min_commit_ts), or its transaction's commit ts is above t outright (2PC: fetched from the oracle
         after the prewrites, hence after t was issued);
   (met) the lock the reader met on k, if it is a Put/Delete lock with start <= t that did not block
         (resolved / pushed), belongs to a transaction that commits above t. *)
Definition prewrites_key (k : key) (c : cmd) : option (ts * ts) :=
  match c with
  | Prewrite ms _ s _ _ mc _ => if existsb (fun m => m_key m =? k) ms then Some (s, mc) else None
  | _ => None
  end.
Definition prewrite_rule (k : key) (t : ts) (P : list (ts * ts)) (c : cmd) : bool :=
  match prewrites_key k c with
  | Some (s, mc) => ((t <? mc) && forallb (fun p => negb (fst p =? s) || (mc <=? snd p)) P) || pairs_above t s P
  | None => true
  end.
Definition met_rule (st : store) (k : key) (t : ts) (P : list (ts * ts)) : bool :=
  match lock_of st k with
  | Some l => negb (data_lock l) || (t <? l_start l) || pairs_above t (l_start l) P
  | None => true
  end.
Definition reader_rules (st : store) (k : key) (t : ts) (b : list cmd) : bool :=
  let P := flat_map cmd_pairs b in
  forallb (gc_ok t) b && forallb (prewrite_rule k t P) b && met_rule st k t P.

(* ------------------------------------------------------------------ write-write: lock points *)
(* ghost: the timestamp at which transaction s conflict-checked key k when it locked it: the for-update ts of
   its pessimistic lock, else (optimistic prewrite) its start ts. The write record does not carry it. *)
Definition ghost : Type := key -> ts -> ts.
Definition gk_upd (gk : ts -> ts) (old new : option lock) : ts -> ts := fun s =>
  match new with
  | Some l' =>
    if l_start l' =? s then
      if is_pess l' then l_for_update l'
      else match old with
           | Some l => if l_start l =? s then gk s else s
           | None => s
           end
    else gk s
  | None => gk s
  end.
Definition ghost_upd (g : ghost) (st st' : store) : ghost := fun k => gk_upd (g k) (lock_of st k) (lock_of st' k).
Fixpoint ghost_run (g : ghost) (st : store) (cmds : list cmd) : ghost :=
  match cmds with
  | [] => g
  | c :: r => ghost_run (ghost_upd g st (fst (step st c))) (fst (step st c)) r
  end.
Definition ghost0 : ghost := fun _ s => s.
Definition lock_point (cmds : list cmd) (k : key) (s : ts) : ts := ghost_run ghost0 [] cmds k s.

(* discipline for write-write disjointness: pessimistic lock requests do not force-lock over a conflict
   (fair locking returns the conflict instead), their for-update ts is below every commit ts of their
   transaction and is nobody's commit ts (all from one oracle) *)
Definition pess_req_ok (P : list (ts * ts)) (c : cmd) : bool :=
  match c with
  | PessLock r => negb (p_force r)
                  && forallb (fun p => (negb (fst p =? p_start r) || (p_for_update r <? snd p))
                                       && negb (snd p =? p_for_update r)) P
  | _ => true
  end.
Definition ww_discipline (cmds : list cmd) : bool := forallb (pess_req_ok (flat_map cmd_pairs cmds)) cmds.
Definition no_pess (cmds : list cmd) : bool := forallb (fun c => match c with PessLock _ => false | _ => true end) cmds.

(* discipline for the insert commit point of transaction s on key k: every prewrite of s that names k is an
   Insert of k (the client re-sends the same mutation), either optimistic (for-update ts 0: checked at the start ts)
   or marked "pessimistic lock required"; every pessimistic lock request of s that names k carries the not-exist
   assertion (checked at the for-update ts) *)
Definition is_ins_op (o : mop) : bool := match o with MInsert => true | _ => false end.
Definition ins_cmd_ok (k : key) (s : ts) (c : cmd) : bool :=
  match c with
  | Prewrite ms _ s' fu _ _ _ =>
    negb (s' =? s) || forallb (fun m => negb (m_key m =? k) || (is_ins_op (m_op m) && ((fu =? 0) || m_pess_check m))) ms
  | PessLock r => negb (p_start r =? s) || forallb (fun kb => negb (fst kb =? k) || snd kb) (p_keys r)
  | _ => true
  end.
Definition ins_discipline (cmds : list cmd) (k : key) (s : ts) : bool := forallb (ins_cmd_ok k s) cmds.

(* locking reads: what a pessimistic lock request returns for a key (return_values) *)
Fixpoint newest_data (ws : list write) : option write :=
  match ws with [] => None | w :: r => if is_data w then Some w else newest_data r end.
(* an empty Put value reads as "no value" in the lock response (the mock's retVal stays nil) *)
Definition nonempty (v : option value) : option value :=
  match v with Some x => if x =? 0 then None else Some x | None => None end.
Definition data_val (w : write) : option value :=
  match w_kind w with WPut => nonempty (Some (w_value w)) | _ => None end.
Definition newest_val (ws : list write) : option value :=
  match newest_data ws with Some w => data_val w | None => None end.
Definition is_some {A} (o : option A) : bool := match o with Some _ => true | None => false end.
(* commit ts of the newest record of any kind (the conflict ts a forced lock reports) *)
Definition head_commit (ws : list write) : ts := match ws with w :: _ => w_commit w | [] => 0 end.

(* ------------------------------------------------------------------ the resolver's status cache *)
(* TxnStatus.IsStatusDetermined = StatusCacheable (txnkv/txnlock/lock_resolver.go): a CheckTxnStatus answer may be
   memoised only when it is final - committed (commit ts > 0), or rolled back: ttl = 0, commit ts = 0 and the action is
   NoAction / LockNotExistRollback / TTLExpireRollback. LockNotExistDoNothing, TTLExpirePessimisticRollback and
   MinCommitTSPushed answers are not final. *)
Inductive det := DCommitted (c : ts) | DRolledBack.
Definition rollback_action (a : action) : bool :=
  match a with ANoAction | ALockNotExistRollback | ATTLExpireRollback => true | _ => false end.
Definition determined3 (ttl commit : N) (a : action) : option det :=
  if 0 <? commit then Some (DCommitted commit)
  else if (ttl =? 0) && rollback_action a then Some DRolledBack else None.
Definition determined (r : resp) : option det :=
  match r with RStatus ttl c a => determined3 ttl c a | _ => None end.
(* the store holds the record that makes the status final: the commit record with that commit ts / the rollback record *)
Definition krec (ws : list write) (s : ts) (d : det) : bool :=
  existsb (fun w => (w_start w =? s) && match d with
                                        | DCommitted c => negb (is_rollback w) && (w_commit w =? c)
                                        | DRolledBack => is_rollback w
                                        end) ws.
Definition record_is (st : store) (k : key) (s : ts) (d : det) : bool := krec (writes_of st k) s d.
(* locks are written with a positive TTL (client-go: defaultLockTTL 3 s / ManagedLockTTL 20 s at least) *)
Definition ttl_cmd_ok (c : cmd) : bool :=
  match c with
  | Prewrite _ _ _ _ ttl _ _ => 0 <? ttl
  | PessLock r => 0 <? p_ttl r
  | _ => true
  end.
Definition ttl_discipline (cmds : list cmd) : bool := forallb ttl_cmd_ok cmds.
Definition is_cts_for (k : key) (s : ts) (c : cmd) : bool :=
  match c with CheckTxnStatus k' s' _ _ _ _ => (k' =? k) && (s' =? s) | _ => false end.

(* the client glue around the cache (LockResolver.getTxnStatus): a memo hit answers without a request; otherwise the
   answer (lock_ttl, commit_version, action) is read as TxnStatus - ttl /= 0: alive (commit ts not looked at), ttl = 0:
   finished with that commit ts - and memoised iff cacheable. Result: (status returned, cache, request sent). *)
Definition cstatus : Type := N * N * action.
Definition cview (ans : cstatus) : cstatus :=
  let '(ttl, c, a) := ans in if ttl =? 0 then (0, c, a) else (ttl, 0, a).
Definition cs_committed (v : cstatus) : bool := let '(_, c, _) := v in 0 <? c.
Definition cs_rolledback (v : cstatus) : bool := let '(ttl, c, a) := v in (ttl =? 0) && (c =? 0) && rollback_action a.
Definition cacheable (v : cstatus) : bool :=
  let '(ttl, c, a) := v in match determined3 ttl c a with Some _ => true | None => false end.
Fixpoint memo_get (cache : list (ts * cstatus)) (txn : ts) : option cstatus :=
  match cache with [] => None | (t, v) :: r => if t =? txn then Some v else memo_get r txn end.
Definition get_txn_status (cache : list (ts * cstatus)) (txn : ts) (ans : cstatus) : cstatus * list (ts * cstatus) * bool :=
  match memo_get cache txn with
  | Some v => (v, cache, false)
  | None => let v := cview ans in (v, if cacheable v then (txn, v) :: cache else cache, true)
  end.

(* the loop around it (LockResolver.getTxnStatusFromLock): the status of the transaction that owns a lock the caller met.
   li_age = milliseconds since the lock's start ts on the oracle's clock; the lock has expired iff ttl <= age
   (UntilExpired <= 0). A TTL of 0 is the "resolve unconditionally" protocol: current ts = max. The store's answers are
   scripted: a status triple or TxnNotFound (primary lock not written yet / already gone). On TxnNotFound: an expired lock
   is asked again with rollback_if_not_exist; a live pessimistic lock is reported alive with its own TTL (never final);
   a live prewrite lock is asked again after a back-off. *)
Inductive ans := AnsStatus (v : cstatus) | AnsNotFound.
Record lockinfo := mkLi { li_txn : ts; li_ttl : N; li_age : N; li_pess : bool }.
Record sreq := mkReq { rq_rine : bool; rq_cur_max : bool; rq_pess : bool }.
Definition li_expired (l : lockinfo) : bool := li_ttl l <=? li_age l.
Inductive sres := SrStatus (v : cstatus) | SrScriptEnd.
Fixpoint status_loop (fuel : nat) (cache : list (ts * cstatus)) (l : lockinfo) (script : list ans) (rine : bool)
  : sres * list (ts * cstatus) * list sreq * list ans :=
  match fuel with
  | O => (SrScriptEnd, cache, [], script)
  | S fuel' =>
    match memo_get cache (li_txn l) with
    | Some v => (SrStatus v, cache, [], script)
    | None =>
      let rq := mkReq rine (li_ttl l =? 0) (li_pess l) in
      match script with
      | [] => (SrScriptEnd, cache, [rq], [])
      | AnsStatus a :: rest =>
        let v := cview a in (SrStatus v, if cacheable v then (li_txn l, v) :: cache else cache, [rq], rest)
      | AnsNotFound :: rest =>
        if li_expired l then
          let '(r, c, rqs, lft) := status_loop fuel' cache l rest true in (r, c, rq :: rqs, lft)
        else if li_pess l then (SrStatus (li_ttl l, 0, ANoAction), cache, [rq], rest)
        else let '(r, c, rqs, lft) := status_loop fuel' cache l rest rine in (r, c, rq :: rqs, lft)
      end
    end
  end.
Definition status_from_lock (cache : list (ts * cstatus)) (l : lockinfo) (script : list ans) :=
  status_loop (S (length script)) cache l script false.

(* ------------------------------------------------------------------ a pushed primary lock *)
(* a command that changes nothing: a commit request the store refuses (commit ts below the lock's min_commit_ts, lock gone) *)
Definition is_noop (st : store) (c : cmd) : bool :=
  match c with Commit _ _ _ => resp_has_error (snd (step st c)) | _ => false end.
Definition safe_step_e (st : store) (c : cmd) (k : key) (t : ts) : bool := is_noop st c || safe_step st c k t.
Fixpoint stable_suffix_e (st : store) (k : key) (t : ts) (b : list cmd) : bool :=
  match b with
  | [] => true
  | c :: r => safe_step_e st c k t && stable_suffix_e (fst (step st c)) k t r
  end.
(* the primary kp of transaction s holds s's prewrite lock with min_commit_ts above t: what a CheckTxnStatus answer
   MinCommitTSPushed for caller ts t establishes *)
Definition pushed (st : store) (kp : key) (s t : ts) : bool :=
  match lock_of st kp with
  | Some lp => (l_start lp =? s) && negb (is_pess lp) && (t <? l_min_commit lp)
  | None => false
  end.
(* C04 "secondaries / resolvers only after the primary is committed": a (start, commit) pair of s is carried either by a
   commit request that names the primary, or once the primary holds the commit record with that commit ts *)
Definition names_primary (kp : key) (c : cmd) : bool :=
  match c with Commit ks _ _ => existsb (N.eqb kp) ks | _ => false end.
Definition pf_ok (kp : key) (s : ts) (st : store) (c : cmd) : bool :=
  forallb (fun p => negb (fst p =? s) || names_primary kp c || record_is st kp s (DCommitted (snd p))) (cmd_pairs c).

(* the lock met at read time: as [met_rule], or it belongs to the transaction whose primary was pushed *)
Definition met_rule_p (st : store) (k : key) (s t : ts) (P : list (ts * ts)) : bool :=
  match lock_of st k with
  | Some l => negb (data_lock l) || (t <? l_start l) || pairs_above t (l_start l) P || (l_start l =? s)
  | None => true
  end.

(* ------------------------------------------------------------------ external consistency: event order *)
Inductive ev :=
| EvTso (t : ts)                   (* the oracle issued t *)
| EvAck (txn : N) (c : ts)         (* Commit of txn returned success, commit ts c *)
| EvBeginCall (txn : N)            (* Begin of txn was called *)
| EvBeginRet (txn : N) (s : ts).   (* Begin of txn returned, start ts s *)
Definition tso_vals (tr : list ev) : list ts := flat_map (fun e => match e with EvTso t => [t] | _ => [] end) tr.
Fixpoint increasing (l : list ts) : bool :=
  match l with
  | [] => true
  | x :: r => forallb (fun y => x <? y) r && increasing r
  end.
Definition oracle_monotonic (tr : list ev) : bool := increasing (tso_vals tr).
(* begin rule: the start ts a Begin returns was issued by the oracle between the call and the return *)
Definition begin_rule (tr : list ev) : bool :=
  forallb (fun r => match nth_error tr r with
                    | Some (EvBeginRet x s) =>
                      existsb (fun i => match nth_error tr i with
                                        | Some (EvTso t) =>
                                          (t =? s) && existsb (fun b => match nth_error tr b with
                                                                        | Some (EvBeginCall y) => y =? x
                                                                        | _ => false
                                                                        end) (seq 0 i)
                                        | _ => false
                                        end) (seq 0 r)
                    | _ => true
                    end) (seq 0 (length tr)).
(* commit rule with slack d: an acknowledged commit ts is at most d above a timestamp the oracle issued before
   the acknowledgement. d = 0: 2PC (commit ts fetched from the oracle after all prewrites). d = 1: async commit /
   1PC (commit ts = max min_commit_ts <= max_ts + 1, max_ts = a timestamp issued earlier; store assumption) *)
Definition commit_rule (d : N) (tr : list ev) : bool :=
  forallb (fun j => match nth_error tr j with
                    | Some (EvAck _ c) =>
                      existsb (fun i => match nth_error tr i with
                                        | Some (EvTso t) => c <=? t + d
                                        | _ => false
                                        end) (seq 0 j)
                    | _ => true
                    end) (seq 0 (length tr)).
(* every Begin call of transaction x comes after position j (the acknowledgement) *)
Definition begins_after (tr : list ev) (j : nat) (x : N) : bool :=
  forallb (fun b => match nth_error tr b with
                    | Some (EvBeginCall y) => negb (y =? x) || Nat.ltb j b
                    | _ => true
                    end) (seq 0 (length tr)).
