(* SI/ProofsIns.v — insert semantics: a prewrite with op Insert / CheckNotExists passes only if a
   snapshot read at the start ts finds no value (optimistic); a pessimistic lock request with the
   not-exist assertion passes only if there is no value at the for-update ts. *)
From Verif Require Import SI.Model SI.ProofsTrans Mvcc.ProofsStore Mvcc.ProofsKey Mvcc.ProofsKstep Mvcc.ProofsShape
     Mvcc.ProofsRead Mvcc.ProofsLate.

Definition is_insert (m : mutation) : bool := match m_op m with MInsert | MCheckNotExists => true | _ => false end.

(* ------------------------------------------------------------------ optimistic *)
Lemma prewrite_all_err_in st primary s fu ttl mc ao m e : forall ms acc,
  In m ms -> prewrite_item st m primary s fu ttl mc ao = Some (KErr e) ->
  In (Some e) (snd (prewrite_all st acc ms primary s fu ttl mc ao)).
Proof.
  induction ms as [|m0 r IH]; intros acc Hin He; [destruct Hin|]. cbn [prewrite_all].
  destruct Hin as [E|Hin].
  - subst m0. rewrite He. destruct (prewrite_all st acc r primary s fu ttl mc ao). left; reflexivity.
  - destruct (prewrite_item st m0 primary s fu ttl mc ao) as [[e0|o]|].
    + specialize (IH acc Hin He). destruct (prewrite_all st acc r primary s fu ttl mc ao). right; exact IH.
    + specialize (IH (apply_opt acc (m_key m0) o) Hin He).
      destruct (prewrite_all st (apply_opt acc (m_key m0) o) r primary s fu ttl mc ao). right; exact IH.
    + apply IH; assumption.
Qed.

Lemma insert_exists_rejected st ms p s ttl mc ao m vc :
  In m ms -> is_insert m = true -> get st (m_key m) s [] = RGet (Some vc) ->
  exists es, step st (Prewrite ms p s 0 ttl mc ao) = (st, RErrs es)
             /\ In (Some (EAlreadyExist (m_key m))) es /\ has_err es = true.
Proof.
  intros Hin Hop Hget. rewrite get_unfold in Hget.
  assert (He : prewrite_item st m p s 0 ttl mc ao = Some (KErr (EAlreadyExist (m_key m)))).
  { unfold prewrite_item. unfold is_insert in Hop. rewrite N.eqb_refl.
    destruct (get_ks_value (get_ks st (m_key m)) (m_key m) s []) as [l|[vc'|]]; cbn [rd_resp] in Hget; try discriminate.
    destruct (m_op m); try discriminate; reflexivity. }
  pose proof (prewrite_all_err_in st p s 0 ttl mc ao m _ ms st Hin He) as H.
  cbn [step]. destruct (prewrite_all st st ms p s 0 ttl mc ao) as [acc es]. cbn [snd] in H.
  assert (Hh : has_err es = true). { unfold has_err. apply existsb_exists. eexists; split; [exact H|reflexivity]. }
  exists es. rewrite Hh. repeat split; assumption.
Qed.

Lemma insert_accepted_absent st ms p s ttl mc ao m es :
  In m ms -> is_insert m = true -> snd (step st (Prewrite ms p s 0 ttl mc ao)) = RErrs es -> has_err es = false ->
  get st (m_key m) s [] = RGet None \/ exists l, lock_of st (m_key m) = Some l /\ l_start l = s.
Proof.
  intros Hin Hop Hst Hes. rewrite get_unfold.
  assert (Hn : forall e, prewrite_item st m p s 0 ttl mc ao <> Some (KErr e)).
  { intros e He. pose proof (prewrite_all_err st p s 0 ttl mc ao m e ms st Hin He) as H.
    cbn [step] in Hst. destruct (prewrite_all st st ms p s 0 ttl mc ao) as [acc es']. cbn [snd] in *. inversion Hst; subst. congruence. }
  unfold prewrite_item in Hn. unfold is_insert in Hop. rewrite N.eqb_refl in Hn.
  unfold get_ks_value in *. unfold lock_of.
  destruct (ks_lock (get_ks st (m_key m))) as [l|] eqn:El.
  - destruct (lock_check l s (m_key m) []) as [t'|] eqn:Elc.
    + destruct (read_writes (ks_writes (get_ks st (m_key m))) t') as [vc|]; [|left; reflexivity].
      exfalso. destruct (m_op m); try discriminate; eapply Hn; reflexivity.
    + destruct (N.eqb_spec (l_start l) s) as [E|E]; [right; exists l; split; [reflexivity|exact E]|].
      exfalso. destruct (m_op m); try discriminate; eapply Hn; reflexivity.
  - destruct (read_writes (ks_writes (get_ks st (m_key m))) s) as [vc|]; [|left; reflexivity].
    exfalso. destruct (m_op m); try discriminate; eapply Hn; reflexivity.
Qed.

(* ------------------------------------------------------------------ pessimistic *)
Lemma ccv_loop_notexist a ao t : forall ws ngv ncr ret r, (forall w, In w ws -> w_commit w <= t) ->
  ccv_loop a ao None ws true ngv ncr ret = inr r -> read_writes ws t = None.
Proof.
  induction ws as [|w rest IH]; intros ngv ncr ret r Hle H; [reflexivity|].
  cbn [ccv_loop] in H. cbv zeta in H.
  destruct (ncr && is_rollback w && (w_commit w =? c_start a)); [discriminate|].
  cbn [read_writes]. destruct (w_kind w) eqn:Ek.
  - discriminate.
  - destruct (N.leb_spec (w_commit w) t) as [_|Hgt]; [reflexivity|]. specialize (Hle w (or_introl eq_refl)). lia.
  - cbn [negb andb] in H. destruct rest as [|w' r']; [reflexivity|].
    eapply IH; [|exact H]. intros x Hx. apply Hle. right; exact Hx.
  - discriminate.
Qed.

Lemma pess_lock_key_notexist ks r k res o t :
  desc (ks_writes ks) -> p_force r = false -> p_for_update r <= t ->
  pess_lock_key ks r k true = inr (res, o) -> read_writes (ks_writes ks) t = None.
Proof.
  intros Hd Hf Ht. unfold pess_lock_key.
  destruct (p_lock_only_if_exists r && negb (p_return_values r)); [discriminate|].
  assert (G : forall already, pess_lock_go ks r k true already = inr (res, o) -> read_writes (ks_writes ks) t = None).
  { intros already. unfold pess_lock_go. rewrite Hf.
    destruct (ccv _ true false false (ks_writes ks)) as [e|v conflict] eqn:Ec; [discriminate|]. intros _.
    pose proof (ccv_ok_below _ _ _ _ _ _ Hd Ec) as Hle. cbn [c_for_update] in Hle.
    unfold ccv in Ec. destruct (ks_writes ks) as [|w0 rest] eqn:Ew; [reflexivity|].
    cbn [c_for_update c_assert c_pess_op as_eqb andb] in Ec.
    destruct (p_for_update r <? w_commit w0); [discriminate|].
    destruct (ccv_loop _ false None (w0 :: rest) true true true None) as [e|ret] eqn:El; [discriminate|].
    eapply ccv_loop_notexist; [|exact El]. intros w Hw. specialize (Hle w Hw). lia. }
  destruct (ks_lock ks) as [l|]; [|apply G].
  destruct (negb (l_start l =? p_start r)); [discriminate|]. destruct (negb (is_pess l)); [discriminate|]. apply G.
Qed.

Lemma pess_lock_all_ok st r : forall keys acc a rs, pess_lock_all st acc r keys = (a, [], rs) ->
  forall k ne, In (k, ne) keys -> exists res o, pess_lock_key (get_ks st k) r k ne = inr (res, o).
Proof.
  induction keys as [|[k0 ne0] rest IH]; intros acc a rs H k ne Hin; [destruct Hin|].
  cbn [pess_lock_all] in H. destruct (pess_lock_key (get_ks st k0) r k0 ne0) as [e|[res o]] eqn:E.
  - destruct (if p_no_wait r && match e with ELocked _ _ => true | _ => false end then (acc, [], [])
              else pess_lock_all st acc r rest) as [[a' es'] rs']. discriminate.
  - destruct (pess_lock_all st (apply_opt acc k0 o) r rest) as [[a' es'] rs'] eqn:Er. inversion H; subst.
    destruct Hin as [Ei|Hin]; [inversion Ei; subst; eauto|]. eapply IH; [exact Er|exact Hin].
Qed.

Lemma pess_insert_absent st r k rs :
  (forall k0, desc (ks_writes (get_ks st k0))) -> p_force r = false -> In (k, true) (p_keys r) ->
  snd (step st (PessLock r)) = RPess [] rs -> read_at st k (p_for_update r) = None.
Proof.
  intros Hd Hf Hin Hst. cbn [step] in Hst.
  destruct (pess_lock_all st st r (p_keys r)) as [[acc es] rs0] eqn:Ea.
  destruct es as [|e es].
  2:{ destruct (p_force r && negb (Nat.eqb (length rs0) (length (p_keys r)))); cbn [snd] in Hst; discriminate. }
  clear Hst. destruct (pess_lock_all_ok st r _ _ _ _ Ea k true Hin) as [res [o Hk]].
  unfold read_at, writes_of. erewrite pess_lock_key_notexist; [reflexivity|apply Hd|exact Hf|apply N.le_refl|exact Hk].
Qed.

(* the three parts in one statement *)
Definition insert_semantics_stmt : Prop :=
  (* (i) optimistic, a value is visible at the start ts: AlreadyExist, nothing changes *)
  (forall st ms p s ttl mc ao m vc,
      In m ms -> is_insert m = true -> get st (m_key m) s [] = RGet (Some vc) ->
      exists es, step st (Prewrite ms p s 0 ttl mc ao) = (st, RErrs es)
                 /\ In (Some (EAlreadyExist (m_key m))) es /\ has_err es = true) /\
  (* (ii) optimistic, accepted: the snapshot read at the start ts finds nothing (or the key already holds this
     transaction's own lock: a repeated prewrite) *)
  (forall st ms p s ttl mc ao m es,
      In m ms -> is_insert m = true -> snd (step st (Prewrite ms p s 0 ttl mc ao)) = RErrs es -> has_err es = false ->
      get st (m_key m) s [] = RGet None \/ exists l, lock_of st (m_key m) = Some l /\ l_start l = s) /\
  (* (iii) pessimistic: the lock request carrying the not-exist assertion succeeds only if there is no value at
     the for-update ts *)
  (forall cmds r k rs,
      p_force r = false -> In (k, true) (p_keys r) -> snd (step (run cmds) (PessLock r)) = RPess [] rs ->
      read_at (run cmds) k (p_for_update r) = None).

Lemma insert_semantics : insert_semantics_stmt.
Proof.
  split; [|split].
  - intros. eapply insert_exists_rejected; eassumption.
  - intros. eapply insert_accepted_absent; eassumption.
  - intros cmds r k rs Hf Hin Hst. eapply pess_insert_absent; try eassumption. apply (proj2 (run_sorted cmds)).
Qed.
