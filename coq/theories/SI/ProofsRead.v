(* SI/ProofsRead.v — reads as a function of the committed history, and their stability under
   later commands ([stable_suffix]); the client/reader rules imply the stability predicate. *)
From Verif Require Import SI.Model SI.ProofsTrans Mvcc.ProofsStore Mvcc.ProofsKey Mvcc.ProofsKstep Mvcc.ProofsShape
     Mvcc.ProofsStep Mvcc.ProofsRead Mvcc.ProofsMarker.
From Coq Require Import Sorted.

(* ------------------------------------------------------------------ hist_newest is the maximum *)
Lemma hist_newest_max h t :
  match hist_newest h t with
  | Some r => In r h /\ h_commit r <= t /\ forall x, In x h -> h_commit x <= t -> h_commit x <= h_commit r
  | None => forall x, In x h -> t < h_commit x
  end.
Proof.
  induction h as [|r rest IH]; cbn [hist_newest]; [intros x []|].
  destruct (hist_newest rest t) as [y|].
  - destruct IH as [Hy [Hv Hm]]. destruct (N.leb_spec (h_commit r) t) as [Hle|Hgt]; cbn [andb].
    + destruct (N.ltb_spec (h_commit y) (h_commit r)) as [Hlt|Hge].
      * split; [left; reflexivity|]. split; [exact Hle|]. intros x [E|Hx] Hvx; [subst; lia|]. specialize (Hm x Hx Hvx). lia.
      * split; [right; exact Hy|]. split; [exact Hv|]. intros x [E|Hx] Hvx; [subst; lia|]. apply Hm; assumption.
    + split; [right; exact Hy|]. split; [exact Hv|]. intros x [E|Hx] Hvx; [subst; lia|]. apply Hm; assumption.
  - destruct (N.leb_spec (h_commit r) t) as [Hle|Hgt].
    + split; [left; reflexivity|]. split; [exact Hle|]. intros x [E|Hx] Hvx; [subst; lia|]. specialize (IH x Hx). lia.
    + intros x [E|Hx]; [subst; exact Hgt|apply IH; exact Hx].
Qed.

Lemma hist_of_writes_in ws x : In x (hist_of_writes ws) -> exists w, In w ws /\ w_commit w = h_commit x.
Proof.
  unfold hist_of_writes. rewrite in_flat_map. intros [w [Hw Hx]]. exists w. split; [exact Hw|].
  unfold hrec_of in Hx. destruct (w_kind w); cbn [In] in Hx; try tauto; destruct Hx as [E|[]]; subst x; reflexivity.
Qed.

Lemma hist_of_writes_cons w r : hist_of_writes (w :: r) = hrec_of w ++ hist_of_writes r.
Proof. reflexivity. Qed.

(* on the store's layout (descending commit ts) the model's read is the history read *)
Lemma read_writes_hist ws t : desc ws -> read_writes ws t = hist_read_full (hist_of_writes ws) t.
Proof.
  unfold desc. induction ws as [|w r IH]; intros Hd; [reflexivity|].
  inversion Hd as [|? ? Hr Hf]; subst. specialize (IH Hr). rewrite Forall_forall in Hf.
  rewrite hist_of_writes_cons. cbn [read_writes]. unfold hrec_of.
  assert (Hbelow : forall y, hist_newest (hist_of_writes r) t = Some y -> h_commit y < w_commit w).
  { intros y Ey. pose proof (hist_newest_max (hist_of_writes r) t) as Hm. rewrite Ey in Hm.
    destruct Hm as [Hin _]. apply hist_of_writes_in in Hin. destruct Hin as [w' [Hw' Ec]]. specialize (Hf _ Hw'). lia. }
  destruct (w_kind w); cbn [app]; try exact IH.
  - unfold hist_read_full. cbn [hist_newest h_commit fst].
    destruct (N.leb_spec (w_commit w) t) as [Hle|Hgt].
    + destruct (hist_newest (hist_of_writes r) t) as [y|] eqn:Ey; cbn [andb].
      * specialize (Hbelow y eq_refl). destruct (N.ltb_spec (h_commit y) (w_commit w)); [reflexivity|lia].
      * reflexivity.
    + rewrite IH. unfold hist_read_full. destruct (hist_newest (hist_of_writes r) t); reflexivity.
  - unfold hist_read_full. cbn [hist_newest h_commit fst].
    destruct (N.leb_spec (w_commit w) t) as [Hle|Hgt].
    + destruct (hist_newest (hist_of_writes r) t) as [y|] eqn:Ey; cbn [andb].
      * specialize (Hbelow y eq_refl). destruct (N.ltb_spec (h_commit y) (w_commit w)); [reflexivity|lia].
      * reflexivity.
    + rewrite IH. unfold hist_read_full. destruct (hist_newest (hist_of_writes r) t); reflexivity.
Qed.

Lemma read_at_hist st k t : desc (writes_of st k) -> read_at st k t = hist_read (history st k) t.
Proof. intros Hd. unfold read_at, hist_read, history. rewrite read_writes_hist by exact Hd. reflexivity. Qed.

Lemma read_is_history cmds k t : read_at (run cmds) k t = hist_read (history (run cmds) k) t.
Proof. apply read_at_hist. apply (proj2 (run_sorted cmds)). Qed.

Lemma hist_lookup_full st k : hist_lookup (full_history st) k = history st k.
Proof.
  unfold history, writes_of. induction st as [|[k' v] r IH]; [reflexivity|].
  cbn [full_history map hist_lookup get_ks fst snd]. destruct (k' =? k); [reflexivity|]. destruct (k <? k'); [reflexivity|exact IH].
Qed.

(* ------------------------------------------------------------------ C01_snapshot_read *)
Definition snapshot_read_stmt (st : store) (k : key) (t : ts) (rs : list ts) : Prop :=
  match get st k t rs with
  | RGet v => v = hist_read_full (history st k) (eff_ts st k t) /\ (t <> max_ts -> eff_ts st k t = t)
  | RErr (Some (ELocked k' l)) =>
    k' = k /\ lock_of st k = Some l /\ l_start l <= t /\ data_lock l = true /\ existsb (N.eqb (l_start l)) rs = false
  | _ => False
  end.

Lemma snapshot_read cmds k t rs : snapshot_read_stmt (run cmds) k t rs.
Proof.
  unfold snapshot_read_stmt. rewrite read_correct. unfold spec_get, spec_get_ks, eff_ts, lock_of, history, writes_of.
  pose proof (proj2 (run_sorted cmds) k) as Hd.
  destruct (ks_lock (get_ks (run cmds) k)) as [l|] eqn:El.
  - destruct (blocking l k t rs) eqn:Eb; cbn [rd_resp].
    + unfold blocking in Eb. repeat (apply andb_true_iff in Eb; destruct Eb as [Eb ?]).
      split; [reflexivity|]. split; [reflexivity|]. split; [apply N.leb_le; exact Eb|]. split; [assumption|].
      apply negb_true_iff; assumption.
    + destruct ((l_start l <=? t) && data_lock l && max_ts_exception l k t) eqn:Ex; cbn [rd_resp].
      * rewrite <- read_writes_spec by exact Hd. split; [apply read_writes_hist; exact Hd|].
        intros Hne. exfalso. apply andb_true_iff in Ex. destruct Ex as [_ Ex]. unfold max_ts_exception in Ex.
        apply andb_true_iff in Ex. destruct Ex as [Ex _]. apply N.eqb_eq in Ex. contradiction.
      * rewrite <- read_writes_spec by exact Hd. split; [apply read_writes_hist; exact Hd|reflexivity].
  - cbn [rd_resp]. rewrite <- read_writes_spec by exact Hd. split; [apply read_writes_hist; exact Hd|reflexivity].
Qed.

(* ------------------------------------------------------------------ one step cannot change a stable read *)
Lemma read_skip w r t : is_data w = false \/ t < w_commit w -> read_writes (w :: r) t = read_writes r t.
Proof.
  intros H. cbn [read_writes]. unfold is_data in H. destruct (w_kind w); try reflexivity.
  - destruct H as [H|H]; [discriminate|]. destruct (N.leb_spec (w_commit w) t); [lia|reflexivity].
  - destruct H as [H|H]; [discriminate|]. destruct (N.leb_spec (w_commit w) t); [lia|reflexivity].
Qed.

Lemma read_put_inert w ws t :
  is_data w = false \/ t < w_commit w ->
  (forall x, In x ws -> w_commit x = w_commit w -> is_data x = false \/ t < w_commit x) ->
  read_writes (put_write w ws) t = read_writes ws t.
Proof.
  intros Hw. induction ws as [|y r IH]; intros Hx; cbn [put_write].
  - apply read_skip; exact Hw.
  - destruct (w_commit y <? w_commit w); [apply read_skip; exact Hw|].
    destruct (N.eqb_spec (w_commit y) (w_commit w)) as [E|E].
    + rewrite (read_skip w r t Hw). symmetry. apply read_skip. apply Hx; [left; reflexivity|exact E].
    + cbn [read_writes]. rewrite IH; [reflexivity|]. intros x Hin. apply Hx. right; exact Hin.
Qed.

Section Stable.
  Variable W : world.
  Hypothesis HW : World_ok W.

  (* a record that shares its commit ts with the commit record of the lock holder cannot exist *)
  Lemma no_same_commit ks l cm x : wf_ks W ks -> ks_lock ks = Some l -> In (l_start l, cm) (w_pairs W) ->
    In x (ks_writes ks) -> w_commit x = cm -> False.
  Proof.
    intros Hwf El Hp Hx Ec. destruct (wf_lock _ _ Hwf l El) as [_ Hn].
    pose proof (wf_wok _ _ Hwf) as Hok. rewrite Forall_forall in Hok. destruct (Hok _ Hx) as [Hs Hr].
    destruct (is_rollback x).
    - apply (wo_disj W HW _ _ (w_start x) Hp Hs). congruence.
    - rewrite Ec in Hr. apply Hn. apply in_map_iff. exists x. split; [|exact Hx].
      apply (proj2 (wo_inj W HW _ _ _ _ Hr Hp)). reflexivity.
  Qed.
  (* a record that shares its commit ts with a rollback record of a known start ts is a rollback record *)
  Lemma same_commit_rollback ks s x : wf_ks W ks -> In s (w_starts W) -> In x (ks_writes ks) -> w_commit x = s ->
    is_data x = false.
  Proof.
    intros Hwf Hs Hx Ec. pose proof (wf_wok _ _ Hwf) as Hok. rewrite Forall_forall in Hok. destruct (Hok _ Hx) as [_ Hr].
    unfold is_rollback in Hr. unfold is_data. destruct (w_kind x); try reflexivity.
    - exfalso. apply (wo_disj W HW _ _ s Hr Hs). exact Ec.
    - exfalso. apply (wo_disj W HW _ _ s Hr Hs). exact Ec.
  Qed.

  Lemma ktrans_read_stable c k ks x t : wf_ks W ks -> cmd_in W c -> ktrans c k ks x ->
    gc_ok t c = true ->
    (forall l, ks_lock ks = Some l -> data_lock l = false \/ pairs_above t (l_start l) (cmd_pairs c) = true) ->
    read_writes (ks_writes x) t = read_writes (ks_writes ks) t.
  Proof.
    intros Hwf [Hcs Hcp] Ht Hgc Hl. destruct Ht; cbn [ks_writes]; try reflexivity.
    - (* commit *)
      apply read_put_inert; cbn [w_commit].
      + destruct (Hl l H) as [Hd|Hp].
        * left. unfold data_lock in Hd. unfold is_data. cbn [w_kind]. destruct (l_op l); cbn in Hd |- *; try discriminate; reflexivity.
        * right. unfold pairs_above in Hp. rewrite forallb_forall in Hp. specialize (Hp _ H0). cbn [fst snd] in Hp.
          rewrite N.eqb_refl in Hp. cbn [negb orb] in Hp. apply N.ltb_lt; exact Hp.
      + intros x Hx Ec. exfalso. eapply no_same_commit; [exact Hwf|exact H|apply Hcp; exact H0|exact Hx|exact Ec].
    - (* rollback *)
      apply read_put_inert; cbn [w_commit rollback_write].
      + left; reflexivity.
      + intros x Hx Ec. left. eapply same_commit_rollback; [exact Hwf|apply Hcs; exact H|exact Hx|exact Ec].
    - (* gc *)
      subst c. cbn [gc_ok] in Hgc. apply gc_writes_read; [exact (wf_desc _ _ Hwf)|apply N.leb_le; exact Hgc].
    - subst c. discriminate.
  Qed.

  Lemma step_read_stable st c k t : wf_store W st -> cmd_in W c -> safe_step st c k t = true ->
    read_at (fst (step st c)) k t = read_at st k t.
  Proof.
    intros [Hs Hk] Hc Hsafe. unfold read_at, writes_of. destruct (step_ktrans st c k Hs) as [E|Ht]; [rewrite E; reflexivity|].
    unfold safe_step in Hsafe. apply andb_true_iff in Hsafe. destruct Hsafe as [Hgc Hl].
    f_equal. eapply ktrans_read_stable; [apply Hk|exact Hc|exact Ht|exact Hgc|].
    intros l El. unfold lock_of in Hl. rewrite El in Hl. apply orb_true_iff in Hl. destruct Hl as [Hl|Hl]; [left|right; exact Hl].
    apply negb_true_iff; exact Hl.
  Qed.

  Lemma run_from_read_stable k t : forall b st, wf_store W st -> (forall c, In c b -> cmd_in W c) ->
    disciplined_from st b = true -> stable_suffix st k t b = true ->
    read_at (run_from st b) k t = read_at st k t.
  Proof.
    induction b as [|c r IH]; intros st Hst Hin Hd Hsf; cbn [run_from fold_left]; [reflexivity|].
    cbn [disciplined_from] in Hd. apply andb_true_iff in Hd. destruct Hd as [Hreq Hd].
    cbn [stable_suffix] in Hsf. apply andb_true_iff in Hsf. destruct Hsf as [Hsafe Hsf].
    change (fold_left (fun st0 c0 => fst (step st0 c0)) r (fst (step st c))) with (run_from (fst (step st c)) r).
    rewrite IH; [apply step_read_stable; [exact Hst|apply Hin; left; reflexivity|exact Hsafe]| | |exact Hd|exact Hsf].
    - apply step_wf; [exact HW|exact Hst|apply Hin; left; reflexivity|exact Hreq].
    - intros c' Hc'. apply Hin; right; exact Hc'.
  Qed.
End Stable.

Lemma read_stable a b k t : oracle_ts (a ++ b) = true -> stable_suffix (run a) k t b = true ->
  read_at (run (a ++ b)) k t = read_at (run a) k t.
Proof.
  intros Ho Hsf. destruct (oracle_app_wf a b Ho) as [HW [Hwf Hd]]. rewrite run_app.
  apply run_from_read_stable with (W := world_of (a ++ b)); auto.
  intros c Hc. apply cmd_in_world_of. apply in_or_app; right; exact Hc.
Qed.

(* ------------------------------------------------------------------ the rules imply the stability predicate *)
Section Rules.
  Variables (k : key) (t : ts) (P : list (ts * ts)).

  Definition lock_good (st : store) : Prop :=
    forall l, lock_of st k = Some l -> data_lock l = false \/ pairs_above t (l_start l) P = true.

  Lemma pairs_above_incl s Q : incl Q P -> pairs_above t s P = true -> pairs_above t s Q = true.
  Proof.
    unfold pairs_above. rewrite !forallb_forall. intros Hi H x Hx. apply H. apply Hi; exact Hx.
  Qed.

  Lemma prewrite_rule_above ms p s fu ttl mc ao m :
    prewrite_rule k t P (Prewrite ms p s fu ttl mc ao) = true -> In m ms -> m_key m = k -> pairs_above t s P = true.
  Proof.
    unfold prewrite_rule, prewrites_key. intros H Hin Ek.
    assert (Ex : existsb (fun m0 => m_key m0 =? k) ms = true).
    { apply existsb_exists. exists m. split; [exact Hin|apply N.eqb_eq; exact Ek]. }
    rewrite Ex in H. apply orb_true_iff in H. destruct H as [H|H]; [|exact H].
    apply andb_true_iff in H. destruct H as [Hmc Hall]. apply N.ltb_lt in Hmc.
    unfold pairs_above. rewrite forallb_forall in *. intros x Hx. specialize (Hall x Hx).
    destruct (fst x =? s); cbn [negb orb] in *; [|reflexivity]. apply N.leb_le in Hall. apply N.ltb_lt. lia.
  Qed.

  Lemma ktrans_lock_good c ks x :
    prewrite_rule k t P c = true -> ktrans c k ks x ->
    (forall l, ks_lock ks = Some l -> data_lock l = false \/ pairs_above t (l_start l) P = true) ->
    forall l, ks_lock x = Some l -> data_lock l = false \/ pairs_above t (l_start l) P = true.
  Proof.
    intros Hr Ht Hg l' El'. destruct Ht; cbn [ks_lock] in El'; try discriminate.
    - inversion El'; subst l'0. right. subst c. rewrite H5. eapply prewrite_rule_above; eassumption.
    - inversion El'; subst l'0. right. subst c. rewrite H5. eapply prewrite_rule_above; eassumption.
    - inversion El'; subst l'. left. reflexivity.
    - destruct H0 as [E|E]; [subst lk; discriminate|]. subst lk. apply Hg; exact El'.
    - inversion El'; subst l'0. destruct (Hg l H) as [Hd|Hp].
      + left. unfold data_lock in *. rewrite H1. exact Hd.
      + right. rewrite H0. exact Hp.
    - apply Hg; exact El'.
  Qed.

  Lemma rules_stable : forall b st, keys_sorted st -> incl (flat_map cmd_pairs b) P ->
    forallb (gc_ok t) b = true -> forallb (prewrite_rule k t P) b = true -> lock_good st ->
    stable_suffix st k t b = true.
  Proof.
    induction b as [|c r IH]; intros st Hs Hi Hgc Hpw Hg; [reflexivity|].
    cbn [stable_suffix]. cbn [forallb] in Hgc, Hpw. apply andb_true_iff in Hgc. apply andb_true_iff in Hpw.
    destruct Hgc as [Hgc1 Hgc]. destruct Hpw as [Hpw1 Hpw].
    cbn [flat_map] in Hi. apply andb_true_iff; split.
    - unfold safe_step. rewrite Hgc1. cbn [andb]. destruct (lock_of st k) as [l|] eqn:El; [|reflexivity].
      destruct (Hg l El) as [Hd|Hp]; [rewrite Hd; reflexivity|]. apply orb_true_iff; right.
      eapply pairs_above_incl; [|exact Hp]. intros x Hx. apply Hi. apply in_or_app; left; exact Hx.
    - apply IH; [apply (step_kstep st c Hs)| |exact Hgc|exact Hpw|].
      + intros x Hx. apply Hi. apply in_or_app; right; exact Hx.
      + unfold lock_good, lock_of. destruct (step_ktrans st c k Hs) as [E|Ht]; [rewrite E; exact Hg|].
        eapply ktrans_lock_good; [exact Hpw1|exact Ht|exact Hg].
  Qed.
End Rules.

Lemma rules_imply_stable a b k t : oracle_ts (a ++ b) = true -> reader_rules (run a) k t b = true ->
  stable_suffix (run a) k t b = true.
Proof.
  intros Ho Hr. unfold reader_rules in Hr. cbv zeta in Hr.
  apply andb_true_iff in Hr. destruct Hr as [Hr Hmet]. apply andb_true_iff in Hr. destruct Hr as [Hgc Hpw].
  destruct (oracle_app_wf a b Ho) as [HW [Hwf Hd]].
  apply rules_stable with (P := flat_map cmd_pairs b); [exact (proj1 Hwf)|apply incl_refl|exact Hgc|exact Hpw|].
  intros l El. unfold met_rule in Hmet. rewrite El in Hmet.
  apply orb_true_iff in Hmet. destruct Hmet as [Hmet|Hmet]; [|right; exact Hmet].
  apply orb_true_iff in Hmet. destruct Hmet as [Hmet|Hmet]; [left; apply negb_true_iff; exact Hmet|right].
  (* start above t: every commit ts of that transaction is above its start *)
  apply N.ltb_lt in Hmet. unfold pairs_above. apply forallb_forall. intros [s c] Hx. cbn [fst snd].
  destruct (N.eqb_spec s (l_start l)) as [E|E]; cbn [negb orb]; [|reflexivity]. apply N.ltb_lt.
  assert (Hin : In (s, c) (w_pairs (world_of (a ++ b)))).
  { cbn [world_of w_pairs]. rewrite flat_map_app. apply in_or_app; right; exact Hx. }
  pose proof (wo_lt _ HW _ _ Hin). lia.
Qed.
