(* SI/Props.v — theorems of property C01 (snapshot isolation and external consistency), over the MVCC store
   model Mvcc/Model.v ([step], [run]) for ALL command sequences obeying the timestamp discipline [oracle_ts]
   (Mvcc/Spec.v), plus an abstract event order for external consistency. Definitions: SI/Model.v. *)
From Verif Require Import SI.Model SI.ProofsTrans SI.ProofsRead SI.ProofsKeyed SI.AsyncStore SI.TwoPC SI.Committer SI.ProofsWW SI.ProofsIns SI.ProofsInsPoint SI.ProofsLockRead SI.Resolver SI.Push SI.ProofsExt SI.ProofsOracle.

(* ---- 1. reads are a function of the committed history restricted to commit ts <= read ts *)
(* a point get on any reachable store answers either the history read at its read ts (at [eff_ts], which is the
   read ts unless it is the max-ts sentinel) or Locked, and Locked only for a Put/Delete lock with start <= ts
   that is not in the resolved list *)
Theorem C01_snapshot_read : forall cmds k t rs,
  match get (run cmds) k t rs with
  | RGet v => v = hist_read_full (history (run cmds) k) (eff_ts (run cmds) k t) /\ (t <> max_ts -> eff_ts (run cmds) k t = t)
  | RErr (Some (ELocked k' l)) =>
    k' = k /\ lock_of (run cmds) k = Some l /\ l_start l <= t /\ data_lock l = true /\ existsb (N.eqb (l_start l)) rs = false
  | _ => False
  end.
Proof. exact snapshot_read. Qed.
Print Assumptions C01_snapshot_read.

Theorem C01_read_is_history : forall cmds k t, read_at (run cmds) k t = hist_read (history (run cmds) k) t.
Proof. exact read_is_history. Qed.
Print Assumptions C01_read_is_history.

(* [hist_read] is the value of the record of greatest commit ts <= t, independent of the order of the list *)
Theorem C01_hist_read_newest : forall h t,
  match hist_newest h t with
  | Some r => In r h /\ h_commit r <= t /\ forall x, In x h -> h_commit x <= t -> h_commit x <= h_commit r
  | None => forall x, In x h -> t < h_commit x
  end.
Proof. exact hist_newest_max. Qed.
Print Assumptions C01_hist_read_newest.

(* later commands that satisfy the stability predicate never change what a read of k at t sees *)
Theorem C01_read_stable : forall a b k t, oracle_ts (a ++ b) = true -> stable_suffix (run a) k t b = true ->
  read_at (run (a ++ b)) k t = read_at (run a) k t.
Proof. exact read_stable. Qed.
Print Assumptions C01_read_stable.

(* the stability predicate follows from the client / reader rules (no GC above t; a transaction prewriting k after
   the read commits above t - via min_commit_ts > t or directly; the Put/Delete lock the reader passed commits above t) *)
Theorem C01_stable_from_rules : forall a b k t, oracle_ts (a ++ b) = true -> reader_rules (run a) k t b = true ->
  stable_suffix (run a) k t b = true.
Proof. exact rules_imply_stable. Qed.
Print Assumptions C01_stable_from_rules.

(* per-key form: only the pairs a command applies to key k count (a commit of the lock holder on OTHER keys is free) *)
Theorem C01_read_stable_key : forall a b k t, oracle_ts (a ++ b) = true -> stable_suffix_k (run a) k t b = true ->
  read_at (run (a ++ b)) k t = read_at (run a) k t.
Proof. exact read_stable_k. Qed.
Print Assumptions C01_read_stable_key.

(* async commit / 1PC from the store's mechanics (SI/AsyncStore.v: max_ts, min_commit_ts = max(requested, max_ts + 1)
   recorded with the lock, commit / resolve refused below it, 1PC committing at it): after a read of k at t was served
   (max_ts >= t), no sequence of requests changes that read - with NO hypothesis on the async prewrites and 1PC
   requests; requests of the base protocol (2PC) keep the rules of C01_stable_from_rules *)
Theorem C01_async_read_stable : forall a b k t,
  oracle_ts (abase_run a0 a ++ abase_run (arun a) b) = true -> t <= a_max (arun a) ->
  forallb (gc_ok t) (abase_run (arun a) b) = true ->
  forallb (base_rule k t (flat_map cmd_pairs (abase_run (arun a) b))) b = true ->
  met_rule (a_st (arun a)) k t (flat_map cmd_pairs (abase_run (arun a) b)) = true ->
  a_st (arun (a ++ b)) = run (abase_run a0 a ++ abase_run (arun a) b) /\
  read_at (a_st (arun (a ++ b))) k t = read_at (a_st (arun a)) k t.
Proof. exact async_read_stable. Qed.
Print Assumptions C01_async_read_stable.

Theorem C01_async_served_read_bumps_max_ts : forall a k t rs, t <> max_ts -> t <= a_max (astep a (ABase (Get k t rs))).
Proof. exact served_get_max. Qed.
Print Assumptions C01_async_served_read_bumps_max_ts.

(* per-region max_ts: the store of C01_async_read_stable is ONE region; [ATransfer m] moves its leader (max_ts := whatever
   the new leader had seen, not synced: async prewrites / 1PC are refused, MaxTimestampNotSynced), [ARefresh f] installs a
   fresh oracle ts and re-enables them. C01_async_read_stable holds across any number of moves; its only demand on a
   refresh is t <= f ([base_rule]), which the joint-trace rules give (the refresh ts is the one just fetched): *)
Theorem C01_async_refresh_rule : forall t tr a T ret, jrules a T ret tr = true -> t <= T ->
  forallb (fun c => match c with ARefresh f => t <=? f | _ => true end) (reqs_of tr) = true.
Proof. exact jrules_refresh. Qed.
Print Assumptions C01_async_refresh_rule.

(* 2PC with no oracle-order hypothesis (SI/TwoPC.v): along a joint trace of oracle issues, store requests and
   acknowledgements the rules [trules] are checked - (T1) oracle strictly increasing, (T2) a commit ts carried by a commit /
   resolve request was issued after every prewrite of its transaction that placed a lock on k was executed, (T3) an
   acknowledged commit ts had been issued; the reader's ts was issued before the read was sent. Then the stability
   predicate holds and the read never changes. Left: GC safe point, the lock met at read time, oracle_ts. *)
Theorem C01_twopc_read_stable : forall A B k t,
  trules k [] 0 [] (A ++ B) = true -> t <= tlast 0 A ->
  oracle_ts (cmds_of A ++ cmds_of B) = true -> forallb (gc_ok t) (cmds_of B) = true ->
  met_rule (run (cmds_of A)) k t (flat_map cmd_pairs (cmds_of B)) = true ->
  stable_suffix (run (cmds_of A)) k t (cmds_of B) = true /\
  read_at (run (cmds_of A ++ cmds_of B)) k t = read_at (run (cmds_of A)) k t.
Proof. exact twopc_read_stable. Qed.
Print Assumptions C01_twopc_read_stable.

(* ---- 2. write-write: committed records of two transactions on one key have disjoint
   [lock point, commit ts] intervals; lock point = for-update ts of the pessimistic lock, else the start ts *)
Theorem C01_ww_disjoint : forall cmds, oracle_ts cmds = true -> ww_discipline cmds = true ->
  forall k w1 w2, In w1 (writes_of (run cmds) k) -> In w2 (writes_of (run cmds) k) ->
    is_rollback w1 = false -> is_rollback w2 = false -> w_start w1 <> w_start w2 ->
    w_commit w1 < lock_point cmds k (w_start w2) \/ w_commit w2 < lock_point cmds k (w_start w1).
Proof. exact ww_disjoint. Qed.
Print Assumptions C01_ww_disjoint.

Theorem C01_lock_point_optimistic : forall cmds k s, no_pess cmds = true -> lock_point cmds k s = s.
Proof. exact lock_point_opt. Qed.
Print Assumptions C01_lock_point_optimistic.

(* locking reads: a successful pessimistic lock request with return_values answers, key by key and in order,
   [lock_answer]: not forced - the history read at the for-update ts (an empty Put value reads as none) with its existence
   flag; forced (fair locking) with a record above the for-update ts - the newest committed value together with the
   conflict ts (the commit ts of the newest record, > for-update ts: LockedWithConflictTS) *)
Theorem C01_locking_read : forall cmds r rs,
  p_return_values r = true -> snd (step (run cmds) (PessLock r)) = RPess [] rs ->
  rs = map (fun kb => lock_answer (writes_of (run cmds) (fst kb)) r) (p_keys r) /\
  (p_force r = false -> forall kb, In kb (p_keys r) ->
     lock_answer (writes_of (run cmds) (fst kb)) r =
     PRNormal (nonempty (hist_read (history (run cmds) (fst kb)) (p_for_update r)))
              (is_some (nonempty (hist_read (history (run cmds) (fst kb)) (p_for_update r))))).
Proof. exact locking_read. Qed.
Print Assumptions C01_locking_read.

(* ... and the lock then excludes other commits: in every reachable store a record of another transaction that is older
   than the owner's commit is older than the owner's lock point - nothing else commits on the key in
   [lock point, owner's commit); while the pessimistic lock is held the lock point is its for-update ts *)
Theorem C01_lock_excludes_commits : forall cmds, oracle_ts cmds = true -> ww_discipline cmds = true ->
  forall k w1 w2, In w1 (writes_of (run cmds) k) -> In w2 (writes_of (run cmds) k) ->
    is_rollback w1 = false -> is_rollback w2 = false -> w_start w1 <> w_start w2 -> w_commit w1 < w_commit w2 ->
    w_commit w1 < lock_point cmds k (w_start w2).
Proof. exact lock_excludes. Qed.
Print Assumptions C01_lock_excludes_commits.

Theorem C01_lock_point_pessimistic : forall cmds c k l, lock_of (run (cmds ++ [c])) k = Some l -> is_pess l = true ->
  lock_point (cmds ++ [c]) k (l_start l) = l_for_update l.
Proof. exact lock_point_pess. Qed.
Print Assumptions C01_lock_point_pessimistic.

(* ---- 3. insert semantics *)
Theorem C01_insert_semantics :
  (forall st ms p s ttl mc ao m vc,
      In m ms -> is_insert m = true -> get st (m_key m) s [] = RGet (Some vc) ->
      exists es, step st (Prewrite ms p s 0 ttl mc ao) = (st, RErrs es)
                 /\ In (Some (EAlreadyExist (m_key m))) es /\ has_err es = true) /\
  (forall st ms p s ttl mc ao m es,
      In m ms -> is_insert m = true -> snd (step st (Prewrite ms p s 0 ttl mc ao)) = RErrs es -> has_err es = false ->
      get st (m_key m) s [] = RGet None \/ exists l, lock_of st (m_key m) = Some l /\ l_start l = s) /\
  (forall cmds r k rs,
      p_force r = false -> In (k, true) (p_keys r) -> snd (step (run cmds) (PessLock r)) = RPess [] rs ->
      read_at (run cmds) k (p_for_update r) = None).
Proof. exact insert_semantics. Qed.
Print Assumptions C01_insert_semantics.

(* a committed insert, optimistic (checked by the prewrite at the start ts) or pessimistic (checked by the lock request
   at the for-update ts, the lock excluding other commits up to the commit): in every reachable store the key has no
   value just below the insert's commit ts (the history oracle's insert clause, evaluated on the final history) *)
Theorem C01_insert_commit_point : forall cmds k s,
  oracle_ts cmds = true -> ww_discipline cmds = true -> ins_discipline cmds k s = true ->
  forall w, In w (writes_of (run cmds) k) -> w_start w = s -> w_kind w = WPut ->
    hist_read (history (run cmds) k) (w_commit w - 1) = None.
Proof. exact insert_commit_point. Qed.
Print Assumptions C01_insert_commit_point.

(* ---- 4. external consistency: oracle strictly increasing, start ts fetched inside Begin, acknowledged commit
   ts at most d above a timestamp issued before the acknowledgement (d = 0: 2PC, d = 1: async commit / 1PC),
   every Begin call of y after the acknowledgement of x: then commit(x) < start(y) + d.
   This is the "rules => order" form over an abstract event list: [commit_rule d] is a hypothesis here; it is DERIVED from the
   committer model for 2PC (C01_committer_external_consistency) and from the store mechanics for async commit / 1PC
   (C01_async_external_consistency) *)
Theorem C01_external_consistency : forall tr d j x c r y s,
  oracle_monotonic tr = true -> begin_rule tr = true -> commit_rule d tr = true ->
  nth_error tr j = Some (EvAck x c) -> nth_error tr r = Some (EvBeginRet y s) -> begins_after tr j y = true ->
  c < s + d.
Proof. exact ext_consistent. Qed.
Print Assumptions C01_external_consistency.

(* 2PC, trace-rule form: "trace rule => order". [trules] CHECKS at TAck that the commit ts had been issued (c <= T) and at TTso
   that the oracle increases, so this statement is arithmetic on the rule the property demands of the client; the rule
   itself is derived from the committer model in C01_committer_trules / C01_committer_external_consistency below, and is
   checked on the implementation's traces by the txn harness (C04 acceptor: GetTs after the prewrite acks) *)
Theorem C01_twopc_external_consistency : forall k p c q s r,
  trules k [] 0 [] (p ++ TAck c :: q ++ TTso s :: r) = true -> c < s.
Proof. exact twopc_external_consistency. Qed.
Print Assumptions C01_twopc_external_consistency.

(* 2PC from the CLIENT MODEL (SI/Committer.v): [maccept] generates the joint traces of modelled committers - prewrites only
   before the commit ts is fetched, the commit ts IS the oracle's answer to the committer's own request, commit requests
   carry exactly it, success is acknowledged only after a commit request succeeded; everybody else's requests carry no
   commit ts. Every generated trace obeys the trace rules [trules] for every key (T2, T3 derived; T1 = the oracle is
   strictly increasing stays an assumption about PD, checked by the acceptor) ... *)
Theorem C01_committer_trules : forall tr k, maccept [] 0 [] tr = true -> trules k [] 0 [] (map to_tev tr) = true.
Proof. exact committer_trules. Qed.
Print Assumptions C01_committer_trules.

(* ... hence: every timestamp issued after a modelled 2PC committer returned success is above its commit ts ... *)
Theorem C01_committer_external_consistency : forall p x c q s r,
  maccept [] 0 [] (p ++ MAck x c :: q ++ MTso s :: r) = true -> c < s.
Proof. exact committer_external_consistency. Qed.
Print Assumptions C01_committer_external_consistency.

(* ... and reads are stable in every trace of modelled committers (left: GC safe point, the lock met, oracle_ts) *)
Theorem C01_committer_read_stable : forall A B k t,
  maccept [] 0 [] (A ++ B) = true -> t <= tlast 0 (map to_tev A) ->
  oracle_ts (cmds_of (map to_tev A) ++ cmds_of (map to_tev B)) = true -> forallb (gc_ok t) (cmds_of (map to_tev B)) = true ->
  met_rule (run (cmds_of (map to_tev A))) k t (flat_map cmd_pairs (cmds_of (map to_tev B))) = true ->
  read_at (run (cmds_of (map to_tev A) ++ cmds_of (map to_tev B))) k t = read_at (run (cmds_of (map to_tev A))) k t.
Proof. exact committer_read_stable. Qed.
Print Assumptions C01_committer_read_stable.

(* async commit / 1PC: commit_rule 1 is not assumed but derived from the store mechanics along a joint trace of oracle
   issues, store requests and acknowledgements ([jrules]: oracle increasing; request timestamps were issued earlier,
   requested min_commit_ts <= latest + 1; the acknowledged commit ts is a min_commit_ts the store returned):
   every timestamp issued after the acknowledgement - in particular a later Begin's start ts - is >= the commit ts *)
Theorem C01_async_external_consistency : forall p c q s r,
  jrules a0 0 [] (p ++ JAck c :: q ++ JTso s :: r) = true -> c <= s.
Proof. exact async_external_consistency. Qed.
Print Assumptions C01_async_external_consistency.

(* ---- 5. the history oracle is sound: observations produced by point gets on the intermediate stores (or by own
   writes) are accepted by the checker run on the FINAL committed history *)
Theorem C01_history_oracle_sound : forall cmds obs, oracle_ts cmds = true -> Forall (served cmds) obs ->
  si_ok (full_history (run cmds)) obs = true.
Proof. exact history_oracle_sound. Qed.
Print Assumptions C01_history_oracle_sound.

Theorem C01_history_oracle_sound_rules : forall cmds obs, oracle_ts cmds = true -> Forall (served_by_rules cmds) obs ->
  si_ok (full_history (run cmds)) obs = true.
Proof. exact history_oracle_sound_rules. Qed.
Print Assumptions C01_history_oracle_sound_rules.

(* range reads: the scan checker of the oracle differential accepts exactly the complete answers *)
Theorem C01_scan_ok_exact : forall H o, scan_ok H o = true <->
  so_res o = flat_map (fun k => match scan_expect H o k with Some v => [(k, v)] | None => [] end) (so_keys o).
Proof. exact scan_ok_exact. Qed.
Print Assumptions C01_scan_ok_exact.

(* ---- 6. the resolver's status cache ([determined] = TxnStatus.StatusCacheable / IsStatusDetermined) *)
(* (A) an answer the client may memoise is final in the store: the commit record with that commit ts, resp. the rollback
   record, lies on the checked key. Locks carry a positive TTL (client-go: >= 3 s; see ex_ttl0_not_final). *)
Theorem C01_status_cacheable_final : forall cmds k s caller cur rine rp d,
  oracle_ts (cmds ++ [CheckTxnStatus k s caller cur rine rp]) = true ->
  (forall l, lock_of (run cmds) k = Some l -> 0 < l_ttl l) ->
  determined (snd (step (run cmds) (CheckTxnStatus k s caller cur rine rp))) = Some d ->
  record_is (run (cmds ++ [CheckTxnStatus k s caller cur rine rp])) k s d = true.
Proof. exact cacheable_final. Qed.
Print Assumptions C01_status_cacheable_final.

(* (A') with the TTL hypothesis as a discipline on the command sequence: every prewrite / pessimistic lock request carries a
   positive TTL (invariant: every lock in the store has one) *)
Theorem C01_status_cacheable_final_disc : forall cmds k s caller cur rine rp d,
  oracle_ts (cmds ++ [CheckTxnStatus k s caller cur rine rp]) = true -> ttl_discipline cmds = true ->
  determined (snd (step (run cmds) (CheckTxnStatus k s caller cur rine rp))) = Some d ->
  record_is (run (cmds ++ [CheckTxnStatus k s caller cur rine rp])) k s d = true.
Proof. exact cacheable_final_disc. Qed.
Print Assumptions C01_status_cacheable_final_disc.

(* (B) the memoised answer remains the store's answer: after any further commands (no GC over the start ts, no destroyed
   range) a status check of that transaction changes nothing and answers the same determined status *)
Theorem C01_memo_agrees : forall a b k s d caller cur rine rp,
  oracle_ts (a ++ b) = true -> record_is (run a) k s d = true -> (forall c, In c b -> is_gc_over c s = false) ->
  exists r, step (run (a ++ b)) (CheckTxnStatus k s caller cur rine rp) = (run (a ++ b), r) /\ determined r = Some d.
Proof. exact memo_agrees. Qed.
Print Assumptions C01_memo_agrees.

(* (C) a resolver that skips the request because of a memoised final answer produces the same store, hence the same
   committed history and the same verdict of the history checker, as one that asks again *)
Theorem C01_memo_same_history : forall a b k s d caller cur rine rp obs,
  oracle_ts (a ++ CheckTxnStatus k s caller cur rine rp :: b) = true -> record_is (run a) k s d = true ->
  determined (snd (step (run a) (CheckTxnStatus k s caller cur rine rp))) = Some d /\
  run (a ++ CheckTxnStatus k s caller cur rine rp :: b) = run (a ++ b) /\
  si_ok (full_history (run (a ++ CheckTxnStatus k s caller cur rine rp :: b))) obs = si_ok (full_history (run (a ++ b))) obs.
Proof. exact memo_skip. Qed.
Print Assumptions C01_memo_same_history.

(* ---- 7. the (met) rule derived: a reader may pass a Put/Delete lock of s once CheckTxnStatus pushed the min_commit_ts of
   s's primary above its ts *)
(* the store side of the push: answer MinCommitTSPushed for caller ts t on a prewrite lock => primary's min_commit_ts > t *)
Theorem C01_cts_pushes : forall st kp s t cur rine rp ttl, Mvcc.ProofsStore.keys_sorted st -> t <> max_ts ->
  (forall lp, lock_of st kp = Some lp -> is_pess lp = false) ->
  snd (step st (CheckTxnStatus kp s t cur rine rp)) = RStatus ttl 0 AMinCommitTSPushed ->
  pushed (fst (step st (CheckTxnStatus kp s t cur rine rp))) kp s t = true.
Proof. exact cts_pushes. Qed.
Print Assumptions C01_cts_pushes.

(* joint trace as in C01_twopc_read_stable; the lock met on k may belong to s, whose primary kp is pushed above t on the
   store the read is served on. Rules for what follows: [trules] (T1-T3) and [prules]: a (start, commit) pair of s is
   carried only by a commit request naming the primary or once the primary holds that commit record (C04: secondaries are
   committed, and resolvers act, only after the primary is committed / on the status it reported), no GC over s. The
   store refuses a primary commit below min_commit_ts (a refused request is a no-op: [stable_suffix_e]), min_commit_ts never
   decreases while the lock is held, and one transaction has one commit ts: the read never changes. *)
Theorem C01_pushed_read_stable : forall A B k kp s t,
  trules k [] 0 [] (A ++ B) = true -> prules kp s (run (cmds_of A)) B = true -> t <= tlast 0 A ->
  oracle_ts (cmds_of A ++ cmds_of B) = true -> forallb (gc_ok t) (cmds_of B) = true ->
  pushed (run (cmds_of A)) kp s t = true -> met_rule_p (run (cmds_of A)) k s t (flat_map cmd_pairs (cmds_of B)) = true ->
  stable_suffix_e (run (cmds_of A)) k t (cmds_of B) = true /\
  read_at (run (cmds_of A ++ cmds_of B)) k t = read_at (run (cmds_of A)) k t.
Proof. exact pushed_read_stable. Qed.
Print Assumptions C01_pushed_read_stable.

Theorem C01_read_stable_noop : forall a b k t, oracle_ts (a ++ b) = true -> stable_suffix_e (run a) k t b = true ->
  read_at (run (a ++ b)) k t = read_at (run a) k t.
Proof. exact read_stable_e. Qed.
Print Assumptions C01_read_stable_noop.

(* the history oracle over ONE joint trace with many readers: every observation is an own write, or a point get served at
   some cut A | B of the trace under the rules of C01_twopc_read_stable, or of C01_pushed_read_stable; then the checker run
   on the FINAL committed history accepts them all - no stability predicate, no oracle-order hypothesis *)
Theorem C01_history_oracle_sound_trace : forall tr obs, oracle_ts (cmds_of tr) = true -> Forall (served_trace tr) obs ->
  si_ok (full_history (run (cmds_of tr))) obs = true.
Proof. exact history_oracle_sound_trace. Qed.
Print Assumptions C01_history_oracle_sound_trace.

(* the client glue (getTxnStatus, differentially tested against the code by driver `sistatus`): only cacheable statuses
   are ever memoised; a hit answers the memoised status without a request; a miss sends one and memoises iff cacheable;
   cacheable = committed or rolled back *)
Theorem C01_memo_glue : forall cache txn ans, Forall (fun e => cacheable (snd e) = true) cache ->
  let '(v, cache', sent) := get_txn_status cache txn ans in
  Forall (fun e => cacheable (snd e) = true) cache' /\
  (sent = false -> memo_get cache txn = Some v /\ cache' = cache /\ cacheable v = true) /\
  (sent = true -> memo_get cache txn = None /\ v = cview ans /\ memo_get cache' txn = (if cacheable v then Some v else None)).
Proof. exact get_txn_status_inv. Qed.
Print Assumptions C01_memo_glue.

Theorem C01_cacheable_spec : forall v, cacheable v = cs_committed v || cs_rolledback v.
Proof. exact cacheable_spec. Qed.
Print Assumptions C01_cacheable_spec.

(* the loop around it (getTxnStatusFromLock, driven by `sistatus` mode L), for ALL scripts of store answers: only cacheable
   statuses are memoised; rollback_if_not_exist is requested only for a lock whose TTL has expired (C04: "CheckTxnStatus with
   rollback_if_not_exist only if the lock's ttl elapsed"); current ts = max exactly for the TTL-0 protocol; a final result is
   the memoised one; a non-final result (alive, pushed, do-nothing, the synthetic "alive with the lock's own TTL" for a live
   pessimistic lock whose primary is not found) leaves the cache untouched *)
Theorem C01_status_from_lock : forall cache l script, Forall (fun e => cacheable (snd e) = true) cache ->
  let '(r, c', rqs, lft) := status_from_lock cache l script in
  Forall (fun e => cacheable (snd e) = true) c' /\
  (forall rq, In rq rqs -> (rq_rine rq = true -> li_expired l = true) /\ rq_cur_max rq = (li_ttl l =? 0) /\ rq_pess rq = li_pess l) /\
  (forall v, r = SrStatus v -> cacheable v = true -> memo_get c' (li_txn l) = Some v) /\
  (forall v, r = SrStatus v -> cacheable v = false -> c' = cache).
Proof. exact status_from_lock_spec. Qed.
Print Assumptions C01_status_from_lock.

(* ------------------------------------------------------------------ non-vacuity *)
Definition T (r : N) : N := r * 262144.
Definition ex_cmds : list cmd :=
  [ Prewrite [mkMut MPut 1 17 AsNone false] 1 (T 1) 0 1 0 false; Commit [1] (T 1) (T 3);       (* T1 writes k1, [1,3] *)
    Get 1 (T 5) [];                                                                              (* reader at 5 *)
    PessLock (mkPessReq [(1, false)] 1 (T 2) (T 6) 3 0 true false false false true);            (* T2 started at 2 < 3, locks at 6 *)
    Prewrite [mkMut MPut 1 33 AsNone true] 1 (T 2) (T 6) 1 0 false; Commit [1] (T 2) (T 8);
    Get 1 (T 5) []; Get 1 (T 9) [];
    Prewrite [mkMut MInsert 2 44 AsNone false] 2 (T 10) 0 1 0 false; Commit [2] (T 10) (T 11);   (* insert of an absent key *)
    Prewrite [mkMut MInsert 1 55 AsNone false] 1 (T 12) 0 1 0 false;                             (* insert of a present key *)
    PessLock (mkPessReq [(3, true)] 3 (T 13) (T 14) 3 0 false true false false true);            (* pessimistic insert of k3 *)
    Prewrite [mkMut MInsert 3 66 AsNone true] 3 (T 13) (T 14) 1 0 false; Commit [3] (T 13) (T 15) ].
Example ex_discipline : oracle_ts ex_cmds = true /\ ww_discipline ex_cmds = true.
Proof. vm_compute. split; reflexivity. Qed.
Example ex_read : get (run (firstn 2 ex_cmds)) 1 (T 5) [] = RGet (Some (17, T 3))
  /\ reader_rules (run (firstn 2 ex_cmds)) 1 (T 5) (skipn 2 ex_cmds) = true
  /\ stable_suffix (run (firstn 2 ex_cmds)) 1 (T 5) (skipn 2 ex_cmds) = true
  /\ hist_read (history (run ex_cmds) 1) (T 5) = Some 17 /\ hist_read (history (run ex_cmds) 1) (T 9) = Some 33.
Proof. vm_compute. repeat split. Qed.
Example ex_ww : writes_of (run ex_cmds) 1 = [mkWrite WPut (T 2) (T 8) 33; mkWrite WPut (T 1) (T 3) 17]
  /\ lock_point ex_cmds 1 (T 2) = T 6 /\ lock_point ex_cmds 1 (T 1) = T 1 /\ T 3 < T 6.
Proof. vm_compute. repeat split. Qed.
Example ex_locking_read :
  snd (step (run (firstn 3 ex_cmds)) (nth 3 ex_cmds (GC 0 0 0))) = RPess [] [PRNormal (Some 17) true]
  /\ snd (step (run (firstn 3 ex_cmds)) (PessLock (mkPessReq [(1, false); (2, false)] 1 (T 2) (T 2) 3 0 true false false true true)))
     = RPess [] [PRConflict (Some 17) true (T 3); PRNormal None false]                  (* forced: conflict ts 3 > for-update ts 2 *)
  /\ lock_point (firstn 4 ex_cmds) 1 (T 2) = T 6.
Proof. vm_compute. repeat split. Qed.
Example ex_insert : snd (step (run (firstn 8 ex_cmds)) (nth 8 ex_cmds (GC 0 0 0))) = RErrs [None]
  /\ step (run (firstn 10 ex_cmds)) (nth 10 ex_cmds (GC 0 0 0)) = (run (firstn 10 ex_cmds), RErrs [Some (EAlreadyExist 1)]).
Proof. vm_compute. split; reflexivity. Qed.
Example ex_insert_point_pess : ins_discipline ex_cmds 3 (T 13) = true /\ lock_point ex_cmds 3 (T 13) = T 14
  /\ writes_of (run ex_cmds) 3 = [mkWrite WPut (T 13) (T 15) 66] /\ hist_read (history (run ex_cmds) 3) (T 15 - 1) = None.
Proof. vm_compute. repeat split. Qed.
Example ex_insert_point : ins_discipline ex_cmds 2 (T 10) = true
  /\ writes_of (run ex_cmds) 2 = [mkWrite WPut (T 10) (T 11) 44] /\ hist_read (history (run ex_cmds) 2) (T 11 - 1) = None.
Proof. vm_compute. repeat split. Qed.
Definition ex_obs : list read_obs :=
  [ mkObs (T 5) 1 None (Some 17); mkObs (T 9) 1 None (Some 33); mkObs (T 2) 1 None None; mkObs (T 9) 1 (Some None) None;
    mkObs (T 12) 2 None (Some 44) ].
Example ex_si_ok : si_ok (full_history (run ex_cmds)) ex_obs = true
  /\ si_ok (full_history (run ex_cmds)) [mkObs (T 5) 1 None (Some 33)] = false      (* a stale / future read is refused *)
  /\ si_ok (full_history (run ex_cmds)) [mkObs (T 9) 1 None None] = false.
Proof. vm_compute. repeat split. Qed.
Example ex_scan_ok : scan_ok (full_history (run ex_cmds)) (mkScan (T 9) [1; 2; 3] [] [(1, 33)]) = true
  /\ scan_ok (full_history (run ex_cmds)) (mkScan (T 16) [1; 2; 3] [(2, None)] [(1, 33); (3, 66)]) = true
  /\ scan_ok (full_history (run ex_cmds)) (mkScan (T 16) [1; 2; 3] [] [(1, 33); (3, 66)]) = false.     (* k2 missing *)
Proof. vm_compute. repeat split. Qed.
Example ex_served : served_by_rules ex_cmds (mkObs (T 5) 1 None (Some 17)).
Proof. eapply (sr_store ex_cmds _ 2%nat [] (Some (17, T 3))); try reflexivity. vm_compute. discriminate. Qed.
(* the stability hypothesis is needed: a reader that passes a Put lock with start <= ts (here by listing it as
   resolved) and a commit below the read ts afterwards change the answer *)
Definition ex_unstable : list cmd :=
  [ Prewrite [mkMut MPut 1 17 AsNone false] 1 (T 1) 0 1 0 false; Get 1 (T 5) [T 1]; Commit [1] (T 1) (T 3) ].
Example ex_unstable_changes : oracle_ts ex_unstable = true
  /\ get (run (firstn 1 ex_unstable)) 1 (T 5) [T 1] = RGet None
  /\ stable_suffix (run (firstn 1 ex_unstable)) 1 (T 5) (skipn 1 ex_unstable) = false
  /\ read_at (run (firstn 1 ex_unstable)) 1 (T 5) = None /\ read_at (run ex_unstable) 1 (T 5) = Some 17.
Proof. vm_compute. repeat split. Qed.
(* async commit: reader at 5, then an async prewrite of k1 by the transaction started at 4: the store answers
   min_commit_ts = 5 + 1, refuses its commit at 4 + 1 and accepts it at 8; the read at 5 is unchanged *)
Definition ex_async : list acmd :=
  [ ABase (Prewrite [mkMut MPut 1 17 AsNone false] 1 (T 1) 0 1 0 false); ABase (Commit [1] (T 1) (T 3));
    ABase (Get 1 (T 5) []);
    AsyncPrewrite [mkMut MPut 1 33 AsNone false] 1 (T 4) 0 1 0 false;
    ABase (Commit [1] (T 4) (T 4 + 1)); ABase (Commit [1] (T 4) (T 8)) ].
Example ex_async_run : a_max (arun (firstn 3 ex_async)) = T 5
  /\ returned_mc (arun (firstn 3 ex_async)) (nth 3 ex_async (ACheckSecondary [] 0)) = [T 5 + 1]
  /\ abase (arun (firstn 4 ex_async)) (nth 4 ex_async (ACheckSecondary [] 0)) = []
  /\ oracle_ts (abase_run a0 (firstn 3 ex_async) ++ abase_run (arun (firstn 3 ex_async)) (skipn 3 ex_async)) = true
  /\ forallb (base_rule 1 (T 5) (flat_map cmd_pairs (abase_run (arun (firstn 3 ex_async)) (skipn 3 ex_async)))) (skipn 3 ex_async) = true
  /\ read_at (a_st (arun ex_async)) 1 (T 5) = Some 17 /\ read_at (a_st (arun ex_async)) 1 (T 8) = Some 33.
Proof. vm_compute. repeat split. Qed.
(* the same across a leader transfer: the new leader knows nothing (max_ts 0), refuses the async prewrite until it is
   refreshed with a timestamp issued after the read; then min_commit_ts = 7 + 1 *)
Definition ex_async_move : list acmd :=
  [ ABase (Prewrite [mkMut MPut 1 17 AsNone false] 1 (T 1) 0 1 0 false); ABase (Commit [1] (T 1) (T 3));
    ABase (Get 1 (T 5) []);
    ATransfer 0; AsyncPrewrite [mkMut MPut 1 33 AsNone false] 1 (T 4) 0 1 0 false;
    ARefresh (T 7); AsyncPrewrite [mkMut MPut 1 33 AsNone false] 1 (T 4) 0 1 0 false;
    ABase (Commit [1] (T 4) (T 5)); ABase (Commit [1] (T 4) (T 8)) ].
Example ex_async_move_run :
  abase (arun (firstn 4 ex_async_move)) (nth 4 ex_async_move (ACheckSecondary [] 0)) = []
  /\ returned_mc (arun (firstn 6 ex_async_move)) (nth 6 ex_async_move (ACheckSecondary [] 0)) = [T 7 + 1]
  /\ abase (arun (firstn 7 ex_async_move)) (nth 7 ex_async_move (ACheckSecondary [] 0)) = []
  /\ oracle_ts (abase_run a0 (firstn 3 ex_async_move) ++ abase_run (arun (firstn 3 ex_async_move)) (skipn 3 ex_async_move)) = true
  /\ forallb (base_rule 1 (T 5) (flat_map cmd_pairs (abase_run (arun (firstn 3 ex_async_move)) (skipn 3 ex_async_move)))) (skipn 3 ex_async_move) = true
  /\ read_at (a_st (arun ex_async_move)) 1 (T 5) = Some 17 /\ read_at (a_st (arun ex_async_move)) 1 (T 8) = Some 33.
Proof. vm_compute. repeat split. Qed.
(* without the sync guard the read breaks: a refresh below the read ts (rule violated) lets the commit at 5 through *)
Example ex_async_move_bad :
  let bad := firstn 5 ex_async_move ++ [ARefresh (T 2); AsyncPrewrite [mkMut MPut 1 33 AsNone false] 1 (T 4) 0 1 0 false; ABase (Commit [1] (T 4) (T 4 + 1))] in
  forallb (base_rule 1 (T 5) []) (skipn 3 bad) = false /\ read_at (a_st (arun bad)) 1 (T 5) = Some 33.
Proof. vm_compute. split; reflexivity. Qed.
Example ex_jrules : jrules a0 0 [] [JTso 10; JReq (AsyncPrewrite [mkMut MPut 1 33 AsNone false] 1 10 0 1 11 false); JAck 11; JTso 20] = true
  /\ jrules a0 0 [] [JTso 10; JReq (OnePC [mkMut MPut 1 33 AsNone false] 1 10 0 1 0 false); JAck 9; JTso 11] = false.
Proof. vm_compute. split; reflexivity. Qed.
(* 2PC joint trace: writer T1 commits at 3, reader takes 5 and reads, writer started at 6 prewrites, fetches 8, commits *)
Definition ex_trace_A : list tev :=
  [ TTso (T 1); TReq (Prewrite [mkMut MPut 1 17 AsNone false] 1 (T 1) 0 1 0 false); TTso (T 3); TReq (Commit [1] (T 1) (T 3)); TAck (T 3);
    TTso (T 5); TReq (Get 1 (T 5) []) ].
Definition ex_trace_B : list tev :=
  [ TTso (T 6); TReq (Prewrite [mkMut MPut 1 33 AsNone false] 1 (T 6) 0 1 0 false); TTso (T 8); TReq (Commit [1] (T 6) (T 8)); TAck (T 8) ].
Example ex_trules : trules 1 [] 0 [] (ex_trace_A ++ ex_trace_B) = true /\ tlast 0 ex_trace_A = T 5
  /\ oracle_ts (cmds_of ex_trace_A ++ cmds_of ex_trace_B) = true /\ forallb (gc_ok (T 5)) (cmds_of ex_trace_B) = true
  /\ met_rule (run (cmds_of ex_trace_A)) 1 (T 5) (flat_map cmd_pairs (cmds_of ex_trace_B)) = true
  /\ pl_run 1 [] 0 [] (ex_trace_A ++ ex_trace_B) = [(T 6, T 6); (T 1, T 1)].
Proof. vm_compute. repeat split. Qed.
(* the same history generated by the committer model; a committer that fetches its commit ts before prewriting is not one *)
Definition ex_mtrace : list mev :=
  [ MTso (T 1); MPrewrite (T 1) (Prewrite [mkMut MPut 1 17 AsNone false] 1 (T 1) 0 1 0 false); MGetTs (T 1) (T 3);
    MCommit (T 1) (Commit [1] (T 1) (T 3)); MAck (T 1) (T 3); MTso (T 5); MOther (Get 1 (T 5) []);
    MTso (T 6); MPrewrite (T 6) (Prewrite [mkMut MPut 1 33 AsNone false] 1 (T 6) 0 1 0 false); MGetTs (T 6) (T 8);
    MCommit (T 6) (Commit [1] (T 6) (T 8)); MAck (T 6) (T 8) ].
Example ex_committer : maccept [] 0 [] ex_mtrace = true /\ map to_tev ex_mtrace = ex_trace_A ++ ex_trace_B
  /\ maccept [] 0 [] [MTso (T 4); MGetTs (T 4) (T 4 + 1); MPrewrite (T 4) (Prewrite [mkMut MPut 1 33 AsNone false] 1 (T 4) 0 1 0 false)] = false
  /\ maccept [] 0 [] [MTso (T 4); MPrewrite (T 4) (Prewrite [mkMut MPut 1 33 AsNone false] 1 (T 4) 0 1 0 false); MAck (T 4) (T 4 + 1)] = false.
Proof. vm_compute. repeat split. Qed.
(* (T2) is needed: a commit ts fetched before the prewrite was executed (here: before the reader's ts) breaks the read *)
Definition ex_trace_bad : list tev :=
  [ TTso (T 4); TTso (T 4 + 1); TTso (T 5); TReq (Get 1 (T 5) []);
    TReq (Prewrite [mkMut MPut 1 33 AsNone false] 1 (T 4) 0 1 0 false); TReq (Commit [1] (T 4) (T 4 + 1)) ].
Example ex_trules_bad : trules 1 [] 0 [] ex_trace_bad = false /\ oracle_ts (cmds_of ex_trace_bad) = true
  /\ read_at (run (cmds_of (firstn 4 ex_trace_bad))) 1 (T 5) = None /\ read_at (run (cmds_of ex_trace_bad)) 1 (T 5) = Some 33.
Proof. vm_compute. repeat split. Qed.
(* pushed primary: transaction 4 prewrites k1 (primary) and k2; the reader takes 5, has the primary's min_commit_ts pushed to
   5 + 1, passes the lock on k2 (resolved list) and reads nothing; the writer then commits at 8: k2 at 5 stays empty *)
Definition ex_push_A : list tev :=
  [ TTso (T 4); TReq (Prewrite [mkMut MPut 1 33 AsNone false; mkMut MPut 2 44 AsNone false] 1 (T 4) 0 3 (T 4 + 1) false);
    TTso (T 5); TReq (CheckTxnStatus 1 (T 4) (T 5) (T 5) false false); TReq (Get 2 (T 5) [T 4]) ].
Definition ex_push_B : list tev :=
  [ TTso (T 8); TReq (Commit [1] (T 4) (T 8)); TAck (T 8); TReq (Commit [2] (T 4) (T 8)) ].
Example ex_pushed :
  snd (step (run (cmds_of (firstn 3 ex_push_A))) (CheckTxnStatus 1 (T 4) (T 5) (T 5) false false)) = RStatus 3 0 AMinCommitTSPushed
  /\ get (run (cmds_of (firstn 4 ex_push_A))) 2 (T 5) [T 4] = RGet None
  /\ pushed (run (cmds_of ex_push_A)) 1 (T 4) (T 5) = true
  /\ trules 2 [] 0 [] (ex_push_A ++ ex_push_B) = true /\ prules 1 (T 4) (run (cmds_of ex_push_A)) ex_push_B = true
  /\ tlast 0 ex_push_A = T 5 /\ oracle_ts (cmds_of ex_push_A ++ cmds_of ex_push_B) = true
  /\ met_rule_p (run (cmds_of ex_push_A)) 2 (T 4) (T 5) (flat_map cmd_pairs (cmds_of ex_push_B)) = true
  /\ met_rule (run (cmds_of ex_push_A)) 2 (T 5) (flat_map cmd_pairs (cmds_of ex_push_B)) = true
  /\ read_at (run (cmds_of (ex_push_A ++ ex_push_B))) 2 (T 5) = None /\ read_at (run (cmds_of (ex_push_A ++ ex_push_B))) 2 (T 8) = Some 44.
Proof. vm_compute. repeat split. Qed.
Example ex_served_trace : served_trace (ex_push_A ++ ex_push_B) (mkObs (T 5) 2 None None)
  /\ si_ok (full_history (run (cmds_of (ex_push_A ++ ex_push_B)))) [mkObs (T 5) 2 None None; mkObs (T 8) 2 None (Some 44)] = true.
Proof.
  split; [|vm_compute; reflexivity].
  eapply (stt_push _ _ ex_push_A ex_push_B [T 4] None 1 (T 4)); try reflexivity. vm_compute. discriminate.
Qed.
(* a primary commit below the pushed min_commit_ts is refused as a whole - a no-op - also for the secondary in the batch *)
Example ex_pushed_refused :
  is_noop (run (cmds_of ex_push_A)) (Commit [1; 2] (T 4) (T 4 + 1)) = true
  /\ snd (step (run (cmds_of ex_push_A)) (Commit [1; 2] (T 4) (T 4 + 1))) = RErr (Some (ECommitTsExpired (T 5 + 1)))
  /\ safe_step (run (cmds_of ex_push_A)) (Commit [1; 2] (T 4) (T 4 + 1)) 2 (T 5) = false
  /\ safe_step_e (run (cmds_of ex_push_A)) (Commit [1; 2] (T 4) (T 4 + 1)) 2 (T 5) = true.
Proof. vm_compute. repeat split. Qed.
(* [prules] is needed: a secondary committed before the primary (below the pushed min_commit_ts) changes the read *)
Example ex_pushed_bad :
  prules 1 (T 4) (run (cmds_of ex_push_A)) [TReq (Commit [2] (T 4) (T 4 + 1))] = false
  /\ read_at (run (cmds_of ex_push_A ++ [Commit [2] (T 4) (T 4 + 1)])) 2 (T 5) = Some 44.
Proof. vm_compute. split; reflexivity. Qed.
(* getTxnStatusFromLock: an expired prewrite lock whose primary is not found is asked again with rollback_if_not_exist and
   the rollback answer is memoised; a live pessimistic lock is reported alive with its own TTL after one request *)
Example ex_from_lock :
  status_from_lock [] (mkLi 7 1 10000 false) [AnsNotFound; AnsStatus (0, 0, ALockNotExistRollback)]
  = (SrStatus (0, 0, ALockNotExistRollback), [(7, (0, 0, ALockNotExistRollback))], [mkReq false false false; mkReq true false false], [])
  /\ status_from_lock [] (mkLi 7 3600000 10000 true) [AnsNotFound; AnsStatus (0, 9, ANoAction)]
  = (SrStatus (3600000, 0, ANoAction), [], [mkReq false false true], [AnsStatus (0, 9, ANoAction)])
  /\ status_from_lock [] (mkLi 7 0 10000 false) [AnsStatus (0, 0, ATTLExpireRollback)]
  = (SrStatus (0, 0, ATTLExpireRollback), [(7, (0, 0, ATTLExpireRollback))], [mkReq false true false], []).
Proof. vm_compute. repeat split. Qed.
(* resolver cache: a committed answer is final ... *)
Example ex_status_final :
  let c := CheckTxnStatus 1 (T 1) (T 5) (T 5) true false in
  snd (step (run (firstn 2 ex_cmds)) c) = RStatus 0 (T 3) ANoAction
  /\ determined (snd (step (run (firstn 2 ex_cmds)) c)) = Some (DCommitted (T 3))
  /\ oracle_ts (firstn 2 ex_cmds ++ [c]) = true /\ ttl_discipline ex_cmds = true
  /\ record_is (run (firstn 2 ex_cmds)) 1 (T 1) (DCommitted (T 3)) = true
  /\ record_is (run ex_cmds) 1 (T 1) (DCommitted (T 3)) = true.
Proof. vm_compute. repeat split. Qed.
(* ... a LockNotExistDoNothing answer (pessimistic primary lock not there yet) is not: the transaction commits later.
   [determined] refuses it; memoising it as rolled back would contradict the store's later answer *)
Definition ex_dn : list cmd :=
  [ CheckTxnStatus 1 (T 2) (T 5) (T 5) true true;
    PessLock (mkPessReq [(1, false)] 1 (T 2) (T 6) 3 0 false false false false true);
    Prewrite [mkMut MPut 1 33 AsNone true] 1 (T 2) (T 6) 3 0 false; Commit [1] (T 2) (T 8);
    CheckTxnStatus 1 (T 2) (T 9) (T 9) true true ].
Example ex_do_nothing_not_final : oracle_ts ex_dn = true
  /\ snd (step [] (nth 0 ex_dn (GC 0 0 0))) = RStatus 0 0 ALockNotExistDoNothing
  /\ determined (snd (step [] (nth 0 ex_dn (GC 0 0 0)))) = None
  /\ determined (snd (step (run (firstn 4 ex_dn)) (nth 4 ex_dn (GC 0 0 0)))) = Some (DCommitted (T 8)).
Proof. vm_compute. repeat split. Qed.
(* the TTL hypothesis of (A) is needed: over a live lock with TTL 0 the store answers ttl 0 / NoAction, which the client
   reads as rolled back, although the transaction then commits (client-go never writes such a lock) *)
Definition ex_ttl0 : list cmd :=
  [ Prewrite [mkMut MPut 1 17 AsNone false] 1 (T 1) 0 0 0 false; CheckTxnStatus 1 (T 1) (T 1 + 5) (T 1 + 5) true false;
    Commit [1] (T 1) (T 3) ].
Example ex_ttl0_not_final : oracle_ts ex_ttl0 = true /\ ttl_discipline ex_ttl0 = false
  /\ determined (snd (step (run (firstn 1 ex_ttl0)) (nth 1 ex_ttl0 (GC 0 0 0)))) = Some DRolledBack
  /\ record_is (run (firstn 2 ex_ttl0)) 1 (T 1) DRolledBack = false
  /\ record_is (run ex_ttl0) 1 (T 1) (DCommitted (T 3)) = true.
Proof. vm_compute. repeat split. Qed.
(* event order: x commits (2PC) and is acknowledged, then y begins *)
Definition ex_trace : list ev :=
  [ EvBeginCall 1; EvTso 10; EvBeginRet 1 10; EvTso 20; EvAck 1 20; EvBeginCall 2; EvTso 30; EvBeginRet 2 30 ].
Example ex_events : oracle_monotonic ex_trace = true /\ begin_rule ex_trace = true /\ commit_rule 0 ex_trace = true
  /\ begins_after ex_trace 4 2 = true /\ nth_error ex_trace 4 = Some (EvAck 1 20) /\ nth_error ex_trace 7 = Some (EvBeginRet 2 30).
Proof. vm_compute. repeat split. Qed.
(* a Begin that was called before the acknowledgement (racing with it) is not constrained *)
Example ex_events_race : begins_after [EvBeginCall 2; EvTso 10; EvTso 20; EvAck 1 20; EvBeginRet 2 10] 3 2 = false.
Proof. vm_compute. reflexivity. Qed.
