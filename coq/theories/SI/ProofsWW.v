(* SI/ProofsWW.v — write-write disjointness: committed records of two transactions on one key have
   disjoint [lock point, commit ts] intervals. Invariant over (store, ghost lock points). *)
From Verif Require Import SI.Model SI.ProofsTrans Mvcc.ProofsStore Mvcc.ProofsKey Mvcc.ProofsKstep Mvcc.ProofsShape
     Mvcc.ProofsStep Mvcc.ProofsMarker.

Section WW.
  Variable W : world.
  Hypothesis HW : World_ok W.

  Record kinv (ks : kstate) (gk : ts -> ts) : Prop := {
    ki_ww : forall w1 w2, In w1 (ks_writes ks) -> In w2 (ks_writes ks) ->
            is_rollback w1 = false -> is_rollback w2 = false -> w_start w1 <> w_start w2 ->
            w_commit w1 < w_commit w2 -> w_commit w1 < gk (w_start w2);
    ki_lock : forall l, ks_lock ks = Some l ->
              forall w, In w (ks_writes ks) -> is_rollback w = false -> w_commit w < gk (l_start l);
    ki_pt : forall l, ks_lock ks = Some l -> forall c, In (l_start l, c) (w_pairs W) -> gk (l_start l) < c;
    ki_pess : forall l, ks_lock ks = Some l -> is_pess l = true -> gk (l_start l) = l_for_update l }.

  Lemma kinv_ext ks gk gk' : (forall s, gk' s = gk s) -> kinv ks gk -> kinv ks gk'.
  Proof.
    intros E [H1 H2 H3 H4]. split; intros.
    - rewrite E. eapply H1; eassumption.
    - rewrite E. eapply H2; eassumption.
    - rewrite E. eapply H3; eassumption.
    - rewrite E. eapply H4; eassumption.
  Qed.

  Lemma kinv_empty gk : kinv empty_ks gk.
  Proof. split; cbn [empty_ks ks_writes ks_lock]; intros; try discriminate; contradiction. Qed.

  (* same lock start (and, if pessimistic, same for-update ts) before and after: the ghost does not move *)
  Lemma gk_upd_keep gk l l' s : l_start l' = l_start l ->
    (is_pess l' = true -> gk (l_start l) = l_for_update l') ->
    gk_upd gk (Some l) (Some l') s = gk s.
  Proof.
    intros Es Hp. unfold gk_upd. rewrite Es. destruct (N.eqb_spec (l_start l) s) as [E|E]; [|reflexivity].
    destruct (is_pess l') eqn:Ep; [|reflexivity]. rewrite <- E. symmetry. apply Hp. reflexivity.
  Qed.

  Lemma gk_upd_same ks gk s : kinv ks gk -> gk_upd gk (ks_lock ks) (ks_lock ks) s = gk s.
  Proof.
    intros Hi. destruct (ks_lock ks) as [l|] eqn:El; [|reflexivity].
    apply gk_upd_keep; [reflexivity|]. intros Hp. apply (ki_pess _ _ Hi l El Hp).
  Qed.

  Lemma nonrb_pair ks w : wf_ks W ks -> In w (ks_writes ks) -> is_rollback w = false -> In (w_start w, w_commit w) (w_pairs W).
  Proof.
    intros Hwf Hin Hr. pose proof (wf_wok _ _ Hwf) as Hok. rewrite Forall_forall in Hok.
    destruct (Hok _ Hin) as [_ H]. rewrite Hr in H. exact H.
  Qed.

  Lemma ktrans_kinv c k ks x gk :
    wf_ks W ks -> wf_ks W x -> cmd_in W c -> pess_req_ok (w_pairs W) c = true ->
    ktrans c k ks x -> kinv ks gk -> kinv x (gk_upd gk (ks_lock ks) (ks_lock x)).
  Proof.
    intros Hwf Hwx [Hcs Hcp] Hreq Ht Hi. destruct Ht.
    - (* fresh prewrite: conflict check at the start ts *)
      subst c. cbn [ks_lock]. rewrite H2.
      assert (Hs : In s (w_starts W)) by (apply Hcs; left; reflexivity).
      destruct (wf_lock _ _ Hwx l' eq_refl) as [_ Hnl]. cbn [ks_writes] in Hnl. rewrite H5 in Hnl.
      assert (Hupd : forall s0, s0 <> s -> gk_upd gk None (Some l') s0 = gk s0).
      { intros s0 Hne. unfold gk_upd. rewrite H5. destruct (N.eqb_spec s s0); [congruence|reflexivity]. }
      assert (Hself : gk_upd gk None (Some l') s = s).
      { unfold gk_upd. rewrite H5, N.eqb_refl, H6. reflexivity. }
      split; cbn [ks_writes ks_lock].
      + intros w1 w2 H1' H2' R1 R2 Hne Hlt. rewrite Hupd; [eapply (ki_ww _ _ Hi); eassumption|].
        intros E. apply Hnl. rewrite <- E. apply in_map; exact H2'.
      + intros l El w Hin Hr. inversion El; subst l. rewrite H5, Hself.
        pose proof (ccv_ok_below _ _ _ _ _ _ (wf_desc _ _ Hwf) H4 w Hin) as Hle. cbn [c_for_update] in Hle.
        pose proof (nonrb_pair ks w Hwf Hin Hr) as Hp. pose proof (wo_disj W HW _ _ s Hp Hs). lia.
      + intros l El cm Hp. inversion El; subst l. rewrite H5, Hself. apply (wo_lt W HW); rewrite H5 in Hp; exact Hp.
      + intros l El Hp. inversion El; subst l. congruence.
    - (* prewrite over the own pessimistic lock: the ghost stays *)
      subst c. cbn [ks_lock]. rewrite H2.
      apply kinv_ext with (gk := gk).
      { intros s0. apply gk_upd_keep; [congruence|]. intros Hp; congruence. }
      destruct Hi as [I1 I2 I3 I4]. split; cbn [ks_writes ks_lock].
      + exact I1.
      + intros l0 El w Hin Hr. inversion El; subst l0. rewrite H5, <- H3. eapply I2; eassumption.
      + intros l0 El cm Hp. inversion El; subst l0. rewrite H5, <- H3 in *. eapply I3; eassumption.
      + intros l0 El Hp. inversion El; subst l0. congruence.
    - (* pessimistic lock: conflict check at the for-update ts *)
      subst c. cbn [ks_lock pess_req_ok] in *.
      apply andb_true_iff in Hreq. destruct Hreq as [Hforce Hreq]. apply negb_true_iff in Hforce. rewrite Hforce in H2.
      rewrite forallb_forall in Hreq.
      set (l' := mkLock (p_start r) (p_primary r) LPess 0 (p_ttl r) (p_for_update r) (p_min_commit r)) in *.
      destruct (wf_lock _ _ Hwx l' eq_refl) as [_ Hnl]. cbn [ks_writes l_start l'] in Hnl.
      assert (Hupd : forall s0, s0 <> p_start r -> gk_upd gk (ks_lock ks) (Some l') s0 = gk s0).
      { intros s0 Hne. unfold gk_upd. cbn [l_start l']. destruct (N.eqb_spec (p_start r) s0); [congruence|reflexivity]. }
      assert (Hself : gk_upd gk (ks_lock ks) (Some l') (p_start r) = p_for_update r).
      { unfold gk_upd. cbn [l_start l' is_pess l_op op_eqb l_for_update]. rewrite N.eqb_refl. reflexivity. }
      split; cbn [ks_writes ks_lock].
      + intros w1 w2 H1' H2' R1 R2 Hne Hlt. rewrite Hupd; [eapply (ki_ww _ _ Hi); eassumption|].
        intros E. apply Hnl. rewrite <- E. apply in_map; exact H2'.
      + intros l El w Hin Hr. inversion El; subst l. cbn [l_start l']. rewrite Hself.
        pose proof (ccv_ok_below _ _ _ _ _ _ (wf_desc _ _ Hwf) H2 w Hin) as Hle. cbn [c_for_update] in Hle.
        pose proof (nonrb_pair ks w Hwf Hin Hr) as Hp. specialize (Hreq _ Hp). cbn [fst snd] in Hreq.
        apply andb_true_iff in Hreq. destruct Hreq as [_ Hneq]. apply negb_true_iff in Hneq. apply N.eqb_neq in Hneq. lia.
      + intros l El cm Hp. inversion El; subst l. cbn [l_start l'] in *. rewrite Hself.
        specialize (Hreq _ Hp). cbn [fst snd] in Hreq. rewrite N.eqb_refl in Hreq. cbn [negb orb] in Hreq.
        apply andb_true_iff in Hreq. destruct Hreq as [Hlt _]. apply N.ltb_lt; exact Hlt.
      + intros l El Hp. inversion El; subst l. cbn [l_start l' l_for_update]. exact Hself.
    - (* unlock *)
      cbn [ks_lock]. apply kinv_ext with (gk := gk); [intros s0; reflexivity|].
      destruct Hi as [I1 I2 I3 I4]. split; cbn [ks_writes ks_lock]; try (intros; discriminate). exact I1.
    - (* commit of the lock holder: its record is the newest one *)
      cbn [ks_lock]. apply kinv_ext with (gk := gk); [intros s0; reflexivity|].
      split; cbn [ks_writes ks_lock]; try (intros; discriminate).
      intros w1 w2 H1' H2' R1 R2 Hne Hlt.
      apply put_write_in in H1'. apply put_write_in in H2'.
      assert (Hp : In (l_start l, cm) (w_pairs W)) by (apply Hcp; exact H0).
      destruct H1' as [E1|H1'], H2' as [E2|H2'].
      + subst w1 w2. cbn [w_start] in Hne. congruence.
      + subst w1. cbn [w_commit] in *. pose proof (ki_lock _ _ Hi l H w2 H2' R2). pose proof (ki_pt _ _ Hi l H cm Hp). lia.
      + subst w2. cbn [w_commit w_start] in *. apply (ki_lock _ _ Hi l H w1 H1' R1).
      + eapply (ki_ww _ _ Hi); eassumption.
    - (* rollback record *)
      assert (Hsub : forall w, In w (put_write (rollback_write s) (ks_writes ks)) -> is_rollback w = false -> In w (ks_writes ks)).
      { intros w Hin Hr. apply put_write_in in Hin. destruct Hin as [E|Hin]; [subst w; discriminate|exact Hin]. }
      cbn [ks_lock]. destruct H0 as [E|E]; subst lk.
      + apply kinv_ext with (gk := gk); [intros s0; reflexivity|].
        split; cbn [ks_writes ks_lock]; try (intros; discriminate).
        intros w1 w2 H1' H2' R1 R2. apply (ki_ww _ _ Hi); auto.
      + apply kinv_ext with (gk := gk); [intros s0; apply gk_upd_same; exact Hi|].
        destruct Hi as [I1 I2 I3 I4]. split; cbn [ks_writes ks_lock]; auto.
    - (* lock fields other than start / op / for-update ts change *)
      cbn [ks_lock]. rewrite H.
      assert (Hpe : is_pess l' = is_pess l) by (unfold is_pess; rewrite H1; reflexivity).
      apply kinv_ext with (gk := gk).
      { intros s0. apply gk_upd_keep; [exact H0|]. intros Hp. rewrite H2. apply (ki_pess _ _ Hi l H). congruence. }
      destruct Hi as [I1 I2 I3 I4]. split; cbn [ks_writes ks_lock].
      + exact I1.
      + intros l0 El w Hin Hr. inversion El; subst l0. rewrite H0. eapply I2; eassumption.
      + intros l0 El cm Hp. inversion El; subst l0. rewrite H0 in *. eapply I3; eassumption.
      + intros l0 El Hp. inversion El; subst l0. rewrite H0, H2. apply I4; [exact H|congruence].
    - (* gc *)
      cbn [ks_lock]. apply kinv_ext with (gk := gk); [intros s0; apply gk_upd_same; exact Hi|].
      destruct Hi as [I1 I2 I3 I4]. split; cbn [ks_writes ks_lock]; auto.
      + intros w1 w2 H1' H2'. apply gc_writes_in in H1'. apply gc_writes_in in H2'. apply I1; assumption.
      + intros l El w Hin. apply gc_writes_in in Hin. apply (I2 l El); assumption.
    - (* delete range *)
      cbn [empty_ks ks_lock]. apply kinv_ext with (gk := gk); [intros s0; reflexivity|apply kinv_empty].
  Qed.

  Definition ginv (st : store) (g : ghost) : Prop := forall k, kinv (get_ks st k) (g k).

  Lemma step_ginv st c g : wf_store W st -> cmd_in W c -> lock_req_ok st c = true ->
    pess_req_ok (w_pairs W) c = true -> ginv st g -> ginv (fst (step st c)) (ghost_upd g st (fst (step st c))).
  Proof.
    intros Hwf Hc Hreq Hp Hg k. unfold ghost_upd, lock_of.
    pose proof (step_wf W HW st c Hwf Hc Hreq) as [_ Hwf'].
    destruct Hwf as [Hs Hk]. destruct (step_ktrans st c k Hs) as [E|Ht].
    - rewrite E. apply kinv_ext with (gk := g k); [intros s; apply gk_upd_same; apply Hg|apply Hg].
    - eapply ktrans_kinv; [apply Hk|apply Hwf'|exact Hc|exact Hp|exact Ht|apply Hg].
  Qed.

  Lemma run_from_ginv : forall b st g, wf_store W st -> (forall c, In c b -> cmd_in W c) ->
    disciplined_from st b = true -> forallb (pess_req_ok (w_pairs W)) b = true -> ginv st g ->
    ginv (run_from st b) (ghost_run g st b).
  Proof.
    induction b as [|c r IH]; intros st g Hwf Hin Hd Hp Hg; cbn [run_from fold_left ghost_run]; [exact Hg|].
    cbn [disciplined_from] in Hd. apply andb_true_iff in Hd. destruct Hd as [Hreq Hd].
    cbn [forallb] in Hp. apply andb_true_iff in Hp. destruct Hp as [Hp1 Hp].
    apply IH.
    - apply step_wf; [exact HW|exact Hwf|apply Hin; left; reflexivity|exact Hreq].
    - intros c' Hc'. apply Hin; right; exact Hc'.
    - exact Hd.
    - exact Hp.
    - apply step_ginv; [exact Hwf|apply Hin; left; reflexivity|exact Hreq|exact Hp1|exact Hg].
  Qed.
End WW.

Definition ww_stmt (cmds : list cmd) : Prop :=
  forall k w1 w2, In w1 (writes_of (run cmds) k) -> In w2 (writes_of (run cmds) k) ->
    is_rollback w1 = false -> is_rollback w2 = false -> w_start w1 <> w_start w2 ->
    w_commit w1 < lock_point cmds k (w_start w2) \/ w_commit w2 < lock_point cmds k (w_start w1).

Lemma ww_disjoint cmds : oracle_ts cmds = true -> ww_discipline cmds = true -> ww_stmt cmds.
Proof.
  intros Ho Hd k w1 w2 H1 H2 R1 R2 Hne.
  pose proof (oracle_run_wf cmds Ho) as Hwf.
  unfold oracle_ts in Ho. apply andb_true_iff in Ho. destruct Ho as [Hw Hdis]. apply world_ok_spec in Hw.
  assert (Hg : ginv (world_of cmds) (run cmds) (lock_point cmds)).
  { unfold lock_point. rewrite run_is_run_from. apply run_from_ginv; auto.
    - apply wf_store_nil.
    - intros c Hc. apply cmd_in_world_of; exact Hc.
    - intros k0. apply kinv_empty. }
  specialize (Hg k). unfold writes_of in *.
  pose proof (nonrb_pair _ _ w1 (proj2 Hwf k) H1 R1) as P1. pose proof (nonrb_pair _ _ w2 (proj2 Hwf k) H2 R2) as P2.
  assert (Hc : w_commit w1 <> w_commit w2).
  { intros E. apply Hne. apply (proj2 (wo_inj _ Hw _ _ _ _ P1 P2)). exact E. }
  destruct (N.lt_total (w_commit w1) (w_commit w2)) as [Hlt|[E|Hgt]]; [|contradiction|].
  - left. eapply (ki_ww _ _ _ Hg); eassumption.
  - right. eapply (ki_ww _ _ _ Hg); try eassumption. intros E; apply Hne; symmetry; exact E.
Qed.

(* ------------------------------------------------------------------ optimistic case: the lock point is the start ts *)
Definition no_pess_lock (st : store) : Prop := forall k l, lock_of st k = Some l -> is_pess l = false.

Lemma step_no_pess_lock st c : keys_sorted st -> (match c with PessLock _ => false | _ => true end) = true ->
  no_pess_lock st -> no_pess_lock (fst (step st c)).
Proof.
  intros Hs Hc Hn k l El. unfold lock_of in *. destruct (step_ktrans st c k Hs) as [E|Ht]; [rewrite E in El; eapply Hn; exact El|].
  remember (get_ks (fst (step st c)) k) as x eqn:Ex. clear Ex.
  destruct Ht; cbn [ks_lock] in El; try discriminate.
  - inversion El; subst; assumption.
  - inversion El; subst; assumption.
  - subst c; discriminate.
  - destruct H0 as [E|E]; rewrite E in El; [discriminate|eapply Hn; exact El].
  - inversion El; subst l'. unfold is_pess. rewrite H1. apply (Hn k l0 H).
  - eapply Hn; exact El.
Qed.

Lemma ghost_run_opt : forall b st g, sorted_store st -> no_pess b = true -> no_pess_lock st ->
  (forall k s, g k s = s) -> forall k s, ghost_run g st b k s = s.
Proof.
  induction b as [|c r IH]; intros st g Hs Hn Hl Hg k s; cbn [ghost_run]; [apply Hg|].
  cbn [no_pess forallb] in Hn. apply andb_true_iff in Hn. destruct Hn as [Hc Hn].
  apply IH; [apply step_sorted; exact Hs|exact Hn|apply step_no_pess_lock; [exact (proj1 Hs)|exact Hc|exact Hl]|].
  intros k0 s0. unfold ghost_upd, gk_upd.
  destruct (lock_of (fst (step st c)) k0) as [l'|] eqn:El; [|apply Hg].
  destruct (N.eqb_spec (l_start l') s0) as [E|E]; [|apply Hg].
  rewrite (step_no_pess_lock st c (proj1 Hs) Hc Hl k0 l' El).
  destruct (lock_of st k0) as [l|]; [|reflexivity]. destruct (l_start l =? s0); [apply Hg|reflexivity].
Qed.

Lemma lock_point_opt cmds k s : no_pess cmds = true -> lock_point cmds k s = s.
Proof.
  intros Hn. unfold lock_point. apply ghost_run_opt; [|exact Hn| |reflexivity].
  - split; [apply keys_sorted_nil|]. intros k0. constructor.
  - intros k0 l El. discriminate.
Qed.
