(* Percolator/Heartbeat.v — the ttl advice of the ttl manager, keepAlive in
   txnkv/transaction/2pc.go (:1299-1425) and sendTxnHeartBeat (:1506-1548).

   At every tick (period ManagedLockTTL/2, read once when keepAlive starts) keepAlive
     now    := GetTimestampWithRetry                                       (:1322)
     uptime := ExtractPhysical(now) - ExtractPhysical(startTS)   [ms]      (:1329)
     if uptime > maxTtl then return (no more heartbeats)                   (:1334-1355)
     newTTL := uptime + atomic.LoadUint64(&ManagedLockTTL)                 (:1365)
     sendTxnHeartBeat(primary, startTS, AdviseLockTtl := newTTL, ...)      (:1372)
   and a failed heartbeat is skipped (`continue`) or ends the loop.  So the advised ttls are
   `advise managed` applied to a subsequence of the uptime readings, and the readings are
   non-decreasing when the TSO timestamps are (that is the sortedness hypothesis on `ups` below;
   uptime is uint64(int64 difference): a `now` older than startTS would wrap to a huge value
   and hit the max-lifetime cut-off, it is not modelled).

   ManagedLockTTL is a package variable (default 20000) that is re-read with an atomic load at
   every tick; production code never writes it, tests do.  `heartbeat_ttl` is the statement for
   a constant value; `heartbeat_ttl_varying` is the per-tick version (value g_i read at tick i):
   the advice always exceeds the age, and it is monotone provided the g_i do not decrease;
   `heartbeat_ttl_varying_decrease` shows the proviso is needed. *)
From Coq Require Import Lia NArith List Sorting.Sorted.
Import ListNotations.
Local Open Scope N_scope.

Definition advise (managed : N) (uptime : N) : N := uptime + managed.

(* one tick including the max-lifetime cut-off (:1334): None = the manager stops *)
Definition tick (max_ttl managed uptime : N) : option N :=
  if max_ttl <? uptime then None else Some (advise managed uptime).

Lemma advise_mono : forall managed u v, u <= v -> advise managed u <= advise managed v.
Proof. unfold advise; intros; lia. Qed.

Lemma advise_gt : forall managed u, 0 < managed -> u < advise managed u.
Proof. unfold advise; intros; lia. Qed.

Lemma ssorted_advise : forall managed ups,
  StronglySorted N.le ups -> StronglySorted N.le (map (advise managed) ups).
Proof.
  induction 1 as [|u ups Hs IH Hall]; cbn [map]; constructor; auto.
  rewrite Forall_forall in *. intros y Hy. apply in_map_iff in Hy.
  destruct Hy as (v & <- & Hv). apply advise_mono; auto.
Qed.

Lemma N_le_transitive : Relations_1.Transitive N.le.
Proof. intros x y z; apply N.le_trans. Qed.

(* ======================================================================================== *)

Theorem heartbeat_ttl : forall managed (ups : list N),
  0 < managed ->
  StronglySorted N.le ups ->
  StronglySorted N.le (map (advise managed) ups) /\
  (forall u, In u ups -> u < advise managed u).
Proof.
  intros managed ups Hm Hs. split.
  - apply ssorted_advise; auto.
  - intros; apply advise_gt; auto.
Qed.
Print Assumptions heartbeat_ttl.

(* the same with the local (adjacent elements) sortedness predicate *)
Theorem heartbeat_ttl_sorted : forall managed (ups : list N),
  0 < managed ->
  Sorted N.le ups ->
  Sorted N.le (map (advise managed) ups) /\
  (forall u, In u ups -> u < advise managed u).
Proof.
  intros managed ups Hm Hs.
  apply (Sorted_StronglySorted N_le_transitive) in Hs.
  destruct (heartbeat_ttl managed ups Hm Hs) as [A B].
  split; auto using StronglySorted_Sorted.
Qed.
Print Assumptions heartbeat_ttl_sorted.

(* per-tick value of ManagedLockTTL: ticks are (uptime, g) *)
Definition tick_le (p q : N * N) : Prop := fst p <= fst q /\ snd p <= snd q.
Definition advise_tick (p : N * N) : N := advise (snd p) (fst p).

Theorem heartbeat_ttl_varying : forall (ticks : list (N * N)),
  (forall p, In p ticks -> 0 < snd p) ->
  (forall p, In p ticks -> fst p < advise_tick p) /\
  (StronglySorted tick_le ticks -> StronglySorted N.le (map advise_tick ticks)).
Proof.
  intros ticks Hpos. split.
  - intros p Hp. specialize (Hpos p Hp). unfold advise_tick, advise; lia.
  - clear Hpos. induction 1 as [|p ps Hs IH Hall]; cbn [map]; constructor; auto.
    rewrite Forall_forall in *. intros y Hy. apply in_map_iff in Hy.
    destruct Hy as (q & <- & Hq). destruct (Hall q Hq) as [A B].
    unfold advise_tick, advise; lia.
Qed.
Print Assumptions heartbeat_ttl_varying.

(* if ManagedLockTTL is lowered between two ticks the advice can go down (the store keeps the
   max of the current and the advised ttl, so the lock's ttl itself does not) *)
Theorem heartbeat_ttl_varying_decrease : exists ticks : list (N * N),
  (forall p, In p ticks -> 0 < snd p) /\
  StronglySorted N.le (map fst ticks) /\
  ~ StronglySorted N.le (map advise_tick ticks).
Proof.
  exists [(10000, 20000); (20000, 5000)]. split; [|split].
  - intros p [<-|[<-|[]]]; cbn [snd]; lia.
  - cbn [map fst]. repeat constructor. lia.
  - cbn [map]. unfold advise_tick, advise; cbn [fst snd]. intros H.
    inversion H as [|? ? _ Hall]; subst. inversion Hall as [|? ? Hle _]; subst. lia.
Qed.
Print Assumptions heartbeat_ttl_varying_decrease.

(* with the max-lifetime cut-off the advice that is sent is bounded *)
Theorem heartbeat_bounded : forall max_ttl managed uptime ttl,
  tick max_ttl managed uptime = Some ttl ->
  ttl = advise managed uptime /\ uptime <= max_ttl /\ ttl <= max_ttl + managed.
Proof.
  unfold tick, advise; intros max_ttl managed uptime ttl.
  destruct (N.ltb_spec max_ttl uptime) as [Hlt|Hge]; [discriminate|].
  intros H; inversion H; subst; lia.
Qed.
Print Assumptions heartbeat_bounded.

(* non-vacuity: ManagedLockTTL = 20000 ms, ticks every 10 s (one repeated reading) *)
Example heartbeat_ttl_sat :
  let ups := [10000; 20001; 20001; 30007] in
  StronglySorted N.le ups /\
  map (advise 20000) ups = [30000; 40001; 40001; 50007] /\
  StronglySorted N.le (map (advise 20000) ups).
Proof.
  cbv zeta.
  assert (S : StronglySorted N.le [10000; 20001; 20001; 30007]).
  { repeat constructor; lia. }
  split; [exact S|]. split; [reflexivity|].
  apply (heartbeat_ttl 20000 _ ltac:(lia) S).
Qed.
