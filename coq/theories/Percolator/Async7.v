(* Percolator/Async7.v — ainv and the prewrite events. *)
From Verif Require Export Percolator.Async6.

Lemma NSa_not_flavor2 : forall s T, F s T FTold = 0 -> F s T FDead = 0 -> NSa s T ->
  exists k0, In k0 (lm s T) /\ lamk s T k0 = None /\ kget s T k0 = RolledBack.
Proof. intros s T H1 H2 [k0 [K1 [K2 [K3 | [_ [[K3 | K3] _]]]]]]; eauto; contradiction. Qed.

Lemma ainv_pw_send : forall s s' r T p ks a o m f secs, Inv s -> Linv s -> Zinv s -> Yinv s ->
  stepr s (EPwSend r T p ks a o m f secs) = Ok s' -> (asyncm s T -> ainv s T) -> asyncm s' T -> ainv s' T.
Proof.
  intros s s' r T p ks a o m f secs HI HL HZ HY H AI [Hm' [H1' [H2' [H3' H4']]]].
  destruct (HI T) as [G _]. pose proof (HL T) as L. pose proof (HZ T) as Z. pose proof (HY T) as Y.
  cbn [stepr] in H. unfold step_pw_send in H. chks H. okinv H. b2p.
  destruct a; [| exfalso; unfold F in H3'; destruct o; rd; discriminate].
  assert (H2 : no1pc s T) by (intros r0 ks0 m0 o0 Hi; apply (H2' r0 ks0 m0 o0); exact Hi). clear H2'.
  match goal with |- ainv (setc _ T ?cc) T => set (c' := cc) in * end.
  assert (RC : (forall f0, f0 <> FPwSent -> f0 <> FTriedA -> f0 <> FFb1 -> f0 <> FTried1 -> cn c' f0 = cn (getc s T) f0) /\
               c_lm c' = c_lm (getc s T) /\ c_all c' = c_all (getc s T) /\ c_pwok c' = c_pwok (getc s T) /\ c_lam c' = c_lam (getc s T) /\
               forall t k, kcnt c' t k = (if KSent =? t then occ k ks else 0) + kcnt (getc s T) t k).
  { unfold c'. destruct o; repeat split; try reflexivity.
    1,3: intros f0 A1 A2 A3 A4; rewrite !cn_setn_ne, cn_add_kl, cn_incn_ne; auto.
    all: intros; rewrite !kcnt_setn; rewrite kcnt_add_kl, kcnt_incn; reflexivity. }
  destruct RC as [Rf [R8 [R9 [R10 [R11 R12]]]]]. clearbody c'.
  unfold hasm, F in *. rewrite getc_setc_eq in *.
  rewrite (Rf FHasm), (Rf FFb), (Rf FStFb) in * by discriminate.
  assert (NoRb : forall r0 ks0, ~ In (ERbSend r0 T ks0) (s_sent s)).
  { intros r0 ks0 Hi. apply (g_rb_dead _ _ G) in Hi. unfold F in Hi. congruence. }
  assert (El : forall k, lam c' k = lam (getc s T) k) by (intros; unfold lam; rewrite R11; auto).
  destruct (N.eq_dec (cn (getc s T) FPwSent) 0) as [E0 | En0].
  - (* the first prewrite request: nothing has happened yet *)
    assert (NoS : forall r0 p0 ks0 a0 o0 m0 f0 secs0, ~ In (EPwSend r0 T p0 ks0 a0 o0 m0 f0 secs0) (s_sent s)).
    { intros. intros Hi. apply (g_pwsent_cnt _ _ G) in Hi. unfold F in Hi. congruence. }
    assert (NoD : forall r0 ks0 x0, ~ In (EPwReply r0 T ks0 x0) (s_dlv s)).
    { intros r0 ks0 x0 Hi. apply (g_pw_sent _ _ G) in Hi. destruct Hi as [p0 [a0 [o0 [m0 [f0 [secs0 Hi]]]]]]. eapply NoS; eauto. }
    destruct (y_lam0 _ _ Y E0) as [Y1 [Y2 Y3]]. pose proof (z_cnt0 _ _ Z E0) as Ekl.
    assert (K0 : forall t k, kcnt (getc s T) t k = 0) by (intros; unfold kcnt; rewrite Ekl; reflexivity).
    assert (L0 : forall k, lam (getc s T) k = None) by (intros; unfold lam; rewrite Y1; reflexivity).
    assert (NoA : cn (getc s T) FTriedA = 0).
    { destruct (N.eq_dec (cn (getc s T) FTriedA) 0); auto. exfalso. apply (z_tried _ _ Z); auto. }
    assert (KF : forall k, kget s T k = Unlocked \/ kget s T k = RolledBack) by (intros; apply (g_kst_fresh _ _ G); auto).
    constructor; unfold call, kc, lm, lamk, prim, pwok, F, Sealed, NSa; intros; rd; rewrite ?El, ?R8, ?R9, ?R10 in *;
      try rewrite (Rf FPrim) in * by discriminate; try rewrite (Rf FMinc) in * by discriminate; try rewrite (Rf FTold) in * by discriminate;
      insplit.
    + auto.
    + exfalso; eapply NoS; eauto.
    + exfalso; eapply NoD; eauto.
    + rewrite (Rf F1pcTs) by discriminate. destruct (N.eq_dec (cn (getc s T) F1pcTs) 0) as [Ez | Ez]; auto.
      exfalso. apply (z_tried _ _ Z); [right; apply (g_1pcts _ _ G); auto | auto].
    + rewrite L0 in H. discriminate.
    + rewrite !R12, !K0. cbn. split; lia.
    + exfalso. destruct (KF k); congruence.
    + (* a key with a rollback marker and no prewrite at all *)
      exists k. unfold lm, lamk, F. rd. rewrite El, R8, L0. repeat split; auto.
    + exfalso; apply (y_cm _ _ Y) in H; auto; unfold F in *; try contradiction; try congruence.
    + eapply (y_rsk _ _ Y); eauto.
    + exfalso; apply (g_jasync _ _ G) in H; unfold F in *; try contradiction; try congruence.
    + exfalso; apply (g_async_cts _ _ G) in H; unfold F in *; try contradiction; try congruence.
    + exfalso; apply (l_csl_sent _ _ L) in H; apply (y_csl _ _ Y) in H; unfold F in *; try contradiction; try congruence.
    + exfalso; apply (l_csl_sent _ _ L) in H; apply (y_csl _ _ Y) in H; unfold F in *; try contradiction; try congruence.
    + exfalso; apply (y_csl _ _ Y) in H; unfold F in *; try contradiction; try congruence.
    + exfalso. rewrite Y2 in H0. destruct H0.
    + left. unfold F in Y3. auto.
    + exfalso. destruct H as [H | [r0 [ks0 H]]]; [congruence | insplit; eapply NoRb; eauto].
    + exfalso. congruence.
  - (* a further request of an async-commit transaction *)
    assert (HA : ainv s T).
    { apply AI. destruct (z_mode _ _ Z En0) as [_ [B | B]]; repeat split; auto; unfold F in *; congruence. }
    assert (Es : Sealed (setc (add_sent s (EPwSend r T p ks true o m f secs)) T c') T <-> Sealed s T).
    { unfold Sealed, lm, lamk. rd. rewrite R8. split; intros S k Hk; specialize (S k Hk); rewrite ?El in *; auto. }
    assert (Ec : cstar (setc (add_sent s (EPwSend r T p ks true o m f secs)) T c') T = cstar s T).
    { unfold cstar, lm. rd. rewrite R8. apply fold_max_ext. intros k. unfold lam0, lamk. rd. rewrite El. auto. }
    assert (En : NSa s T -> NSa (setc (add_sent s (EPwSend r T p ks true o m f secs)) T c') T).
    { intros N. destruct (NSa_not_flavor2 s T) as [k0 [K1 [K2 K3]]]; auto.
      exists k0. unfold lm, lamk, F in *. rd. rewrite El, R8. auto. }
    constructor; intros; rewrite ?Ec, ?Es; unfold call, kc, lm, lamk, prim, pwok, F in *; rd; rewrite ?El, ?R8, ?R9, ?R10 in *;
      try setoid_rewrite El; try setoid_rewrite R8;
      try rewrite (Rf FPrim) in * by discriminate; try rewrite (Rf FMinc) in * by discriminate; try rewrite (Rf FTold) in * by discriminate;
      insplit.
    + auto.
    + eapply (a_send _ _ HA); eauto.
    + apply (a_entry _ _ HA _ _ _ _ H).
    + rewrite (Rf F1pcTs) by discriminate. apply (a_1pcts _ _ HA).
    + eapply (a_lam _ _ HA); eauto.
    + rewrite !R12. cbn. destruct (a_cnt _ _ HA k) as [B1 B2]. unfold kc in *. split; lia.
    + apply (a_commit _ _ HA _ _ H).
    + apply En. eapply (a_rb _ _ HA); eauto.
    + apply (a_cmsent _ _ HA _ _ _ H).
    + eapply (a_rsk _ _ HA); eauto.
    + destruct (a_rsa _ _ HA _ H) as [B1 B2]. split; auto.
    + apply (a_ctsl _ _ HA _ _ _ _ _ H).
    + apply (a_csll _ _ HA _ _ _ H).
    + destruct (a_cslc _ _ HA _ _ _ H) as [B1 B2]. split; auto.
    + eapply (a_cslsent _ _ HA); eauto.
    + apply (a_minc _ _ HA _ H H0).
    + apply (a_minc2 _ _ HA).
    + apply En. apply (a_dead _ _ HA). destruct H as [H | [r0 [ks0 H]]]; [left; auto | insplit; right; eauto].
    + exfalso. congruence.
Qed.

Lemma ainv_pw_reply : forall s s' r T ks x, Inv s -> Linv s -> stepr s (EPwReply r T ks x) = Ok s' ->
  (asyncm s T -> ainv s T) -> asyncm s' T -> ainv s' T.
Proof.
  intros s s' r T ks x HI HL H AI [Hm' [H1' [H2' [H3' H4']]]]. destruct (HI T) as [G _]. pose proof (HL T) as L.
  cbn [stepr] in H. unfold step_pw_reply in H. chks H. okinv H. apply delivered_In in C0.
  assert (H2 : no1pc s T) by (intros r0 ks0 m0 o0 Hi; apply (H2' r0 ks0 m0 o0); exact Hi). clear H2'.
  match goal with |- ainv (setc _ T ?cc) T => set (c' := cc) in * end.
  set (bm := negb (fb (getc s T) FHasm) || existsb (fun k => mem k (c_lm (getc s T))) ks).
  assert (RC : (forall f0, f0 <> FPwRep -> f0 <> FPwErr -> f0 <> FMinc -> f0 <> FFb -> f0 <> FFb1 -> f0 <> F1pcTs -> cn c' f0 = cn (getc s T) f0) /\
               (cn c' FFb = 0 -> cn (getc s T) FFb = 0 /\ forall m o, x = PwOk m o -> m <> 0) /\
               ((exists m o, x = PwOk m o /\ o <> 0) \/ cn c' F1pcTs = cn (getc s T) F1pcTs) /\
               c_lm c' = c_lm (getc s T) /\ c_all c' = c_all (getc s T) /\ c_lam c' = c_lam (getc s T) /\
               c_pwok c' = (match x with PwOk _ _ => ks | _ => [] end) ++ c_pwok (getc s T) /\
               cn c' FMinc = (match x with PwOk m _ => if bm then N.max (cn (getc s T) FMinc) m else cn (getc s T) FMinc | _ => cn (getc s T) FMinc end) /\
               (forall k, kcnt c' KSent k = kcnt (getc s T) KSent k /\ kcnt c' KDlv k = kcnt (getc s T) KDlv k /\
                          kcnt c' KNegD k = kcnt (getc s T) KNegD k /\ kcnt c' KRep k = occ k ks + kcnt (getc s T) KRep k /\
                          kcnt c' KNeg k = (match x with PwOk _ _ => 0 | _ => occ k ks end) + kcnt (getc s T) KNeg k)).
  { unfold c'. destruct x as [m o | kd |].
    - cbn [c_lm add_pwok add_kl incn setn]. unfold onepc_on.
      repeat (rewrite ?fb_add_pwok, ?fb_add_kl; try rewrite fb_setn_ne by discriminate; try rewrite fb_incn_ne by discriminate).
      fold bm. destruct bm;
      repeat (rewrite ?fb_add_pwok, ?fb_add_kl; try rewrite fb_setn_ne by discriminate; try rewrite fb_incn_ne by discriminate);
      destruct (o =? 0) eqn:Eo, (m =? 0) eqn:Em0, (fb (getc s T) FTried1) eqn:Et, (fb (getc s T) FFb1) eqn:Ef1; cbn [andb negb]; rd; repeat split; try reflexivity; intros;
        try discriminate;
        try (repeat rewrite cn_setn_ne by auto; rewrite ?cn_add_pwok, ?cn_add_kl; rewrite cn_incn_ne by auto; reflexivity);
        try (match goal with Hx : PwOk _ _ = PwOk _ _ |- _ => inversion Hx; subst end; apply N.eqb_neq in Em0; auto; fail);
        try (right; reflexivity); try (left; eexists; eexists; split; [reflexivity | apply N.eqb_neq; exact Eo]);
        rewrite ?kcnt_setn, ?kcnt_add_pwok; repeat rewrite kcnt_add_kl; rewrite ?kcnt_incn; cbn; try lia; try reflexivity.
    - rd. repeat split; try reflexivity; intros; try discriminate;
        try (repeat rewrite cn_setn_ne by auto; rewrite ?cn_add_kl; rewrite cn_incn_ne by auto; reflexivity);
        try (right; reflexivity);
        rewrite ?kcnt_setn; repeat rewrite kcnt_add_kl; rewrite ?kcnt_incn; cbn; try lia; reflexivity.
    - rd. repeat split; try reflexivity; intros; try discriminate;
        try (rewrite ?cn_add_kl; rewrite cn_incn_ne by auto; reflexivity);
        try (right; reflexivity);
        repeat rewrite kcnt_add_kl; rewrite ?kcnt_incn; cbn; try lia; reflexivity. }
  destruct RC as [Rf [Rfb [R1p [R8 [R9 [R11 [R10 [Rm Rk]]]]]]]]. clearbody c'.
  unfold hasm, F in *. rewrite getc_setc_eq in *.
  rewrite (Rf FHasm), (Rf FTriedA), (Rf FStFb) in * by discriminate. destruct (Rfb H3') as [H3 Hm0].
  assert (Ebm : bm = existsb (fun k => mem k (c_lm (getc s T))) ks).
  { unfold bm. rewrite (proj2 (fb_true _ _) Hm'). reflexivity. }
  assert (Am : asyncm s T) by (repeat split; auto).
  pose proof (AI Am) as HA. destruct (asyncm_cp _ _ Am) as [Hcp _]. rewrite Hcp in C1, C2. cbn [negb orb] in C1, C2.
  set (s1 := setc s T c') in *.
  assert (El : forall k, lamk s1 T k = lamk s T k) by (intros; unfold lamk, lam, s1; rd; rewrite R11; auto).
  assert (Em : lm s1 T = lm s T) by (unfold lm, s1; rd; auto).
  assert (Es : Sealed s1 T <-> Sealed s T) by (unfold Sealed; rewrite Em; split; intros S k Hk; specialize (S k Hk); rewrite ?El in *; auto).
  assert (Ec : cstar s1 T = cstar s T) by (unfold cstar; rewrite Em; apply fold_max_ext; intros k; unfold lam0; rewrite El; auto).
  assert (Ep : prim s1 T = prim s T) by (unfold prim, F, s1; rd; apply Rf; discriminate).
  assert (Et : F s1 T FTold = F s T FTold) by (unfold F, s1; rd; apply Rf; discriminate).
  assert (Ed : F s1 T FDead = F s T FDead) by (unfold F, s1; rd; apply Rf; discriminate).
  assert (Kg : forall k, kget s1 T k = kget s T k) by reflexivity.
  assert (Ekc : forall k, kc s1 T KSent k = kc s T KSent k /\ kc s1 T KNegD k = kc s T KNegD k /\ kc s1 T KDlv k = kc s T KDlv k).
  { intros k. unfold kc, s1. rd. destruct (Rk k) as [E1 [E2 [E3 _]]]. auto. }
  assert (En : NSa s T -> NSa s1 T).
  { intros [k0 [K1 [K2 K3]]]. exists k0. rewrite Em, El, Kg, Et, Ed. destruct (Ekc k0) as [E1 [E2 _]]. rewrite E1, E2. auto. }
  assert (Emc : F s1 T FMinc = match x with PwOk m _ => if bm then N.max (F s T FMinc) m else F s T FMinc | _ => F s T FMinc end) by (unfold F, s1; rd; exact Rm).
  assert (Epw : pwok s1 T = (match x with PwOk _ _ => ks | _ => [] end) ++ pwok s T) by (unfold pwok, s1; rd; exact R10).
  (* what an ok reply tells about its keys *)
  assert (Hent : forall m o, x = PwOk m o -> o = 0 /\ m <> 0 /\
                  forall k, In k ks -> lamk s T k = Some m \/ kget s T k = Committed m).
  { intros m o ->. apply (a_entry _ _ HA _ _ _ _ C0). }
  assert (Hbm : bm = true <-> exists k, In k ks /\ In k (lm s T)).
  { rewrite Ebm. unfold lm. rewrite existsb_exists. split; intros [k [K1 K2]]; exists k; split; auto; apply mem_In; auto. }
  constructor; intros; rewrite ?El, ?Em, ?Es, ?Ec, ?Ep, ?Et, ?Kg in *.
  - eapply (a_send _ _ HA); eauto.
  - destruct (a_entry _ _ HA _ _ _ _ H) as [B1 [B2 B4]]. repeat split; auto. intros k Hk. rewrite ?El, ?Kg. auto.
  - unfold F, s1. rd. destruct R1p as [[m [o [-> Ho]]] | R1p]; [| rewrite R1p; apply (a_1pcts _ _ HA)].
    exfalso. apply Ho. apply (Hent m o eq_refl).
  - eapply (a_lam _ _ HA); eauto.
  - destruct (Ekc k) as [E1 [E2 E3]]. rewrite E1, E3, E2. destruct (a_cnt _ _ HA k) as [B1 B2]. split; auto.
    unfold kc, s1. rd. destruct (Rk k) as [_ [_ [_ [_ E5]]]]. rewrite E5. unfold kc in *.
    destruct x as [m o | kd |]; try lia.
    + destruct (in_dec N.eq_dec k ks) as [Hk | Hk]; [| rewrite (occ_zero _ _ Hk); lia].
      pose proof (forallb_In _ _ _ C1 Hk) as Cx. cbn beta in Cx. apply N.leb_le in Cx. lia.
    + destruct (in_dec N.eq_dec k ks) as [Hk | Hk]; [| rewrite (occ_zero _ _ Hk); lia].
      pose proof (forallb_In _ _ _ C1 Hk) as Cx. cbn beta in Cx. apply N.leb_le in Cx. lia.
  - apply (a_commit _ _ HA _ _ H).
  - apply En. eapply (a_rb _ _ HA); eauto.
  - apply (a_cmsent _ _ HA _ _ _ H).
  - eapply (a_rsk _ _ HA); eauto.
  - destruct (a_rsa _ _ HA _ H) as [B1 B2]. split; auto.
  - apply (a_ctsl _ _ HA _ _ _ _ _ H).
  - destruct (a_csll _ _ HA _ _ _ H) as [B1 B2]. split; auto. intros k M Hk. rewrite El. auto.
  - destruct (a_cslc _ _ HA _ _ _ H) as [B1 B2]. split; auto.
  - eapply (a_cslsent _ _ HA); eauto.
  - (* the owner's view of the min-commit ts *)
    rewrite Epw in H0. rewrite Emc. apply in_app_or in H0. destruct H0 as [H0 | H0].
    + destruct x as [m o | |]; try (destruct H0; fail). destruct (Hent m o eq_refl) as [_ [_ B4]].
      assert (Eb : bm = true) by (apply Hbm; exists k; auto). rewrite Eb.
      exists m. split; [lia | apply B4; auto].
    + destruct (a_minc _ _ HA _ H H0) as [m' [B1 B2]]. exists m'. split; auto. destruct x; try destruct bm; lia.
  - rewrite Emc. destruct x as [m o | |]; try (solve [destruct (a_minc2 _ _ HA) as [Bz | [k0 [Bz1 Bz2]]]; [left; auto | right; exists k0; rewrite El, Kg; auto]]).
    destruct bm eqn:Eb; [| solve [destruct (a_minc2 _ _ HA) as [Bz | [k0 [Bz1 Bz2]]]; [left; auto | right; exists k0; rewrite El, Kg; auto]]].
    destruct (Hent m o eq_refl) as [_ [Hn B4]]. destruct (proj1 Hbm eq_refl) as [k [K1 K2]].
    destruct (N.le_gt_cases m (F s T FMinc)) as [Le | Gt].
    + replace (N.max (F s T FMinc) m) with (F s T FMinc) by lia. (destruct (a_minc2 _ _ HA) as [Bz | [k0 [Bz1 Bz2]]]; [left; auto | right; exists k0; rewrite El, Kg; auto]).
    + replace (N.max (F s T FMinc) m) with m by lia. right. exists k. rewrite El, Kg. split; auto.
  - apply En. apply (a_dead _ _ HA). auto.
  - destruct (a_told _ _ HA H) as [B1 B2]. split; auto. intros k Hk. unfold call, s1 in Hk. rd. rewrite R9 in Hk.
    destruct (Ekc k) as [E1 [_ E3]]. rewrite E1. unfold kc, s1. rd. destruct (Rk k) as [_ [_ [_ [E4 _]]]]. rewrite E4.
    specialize (B2 k Hk). unfold kc in *. destruct (in_dec N.eq_dec k ks) as [Hk2 | Hk2]; [| rewrite (occ_zero _ _ Hk2); lia].
    pose proof (forallb_In _ _ _ C2 Hk2) as Cx. cbn beta in Cx. apply N.leb_le in Cx. destruct (a_cnt _ _ HA k) as [B3 _]. unfold kc in B3.
    pose proof (occ_pos _ _ Hk2). lia.
Qed.

Lemma fold_max_ext_in : forall (f g : N -> N) l, (forall k, In k l -> f k = g k) ->
  fold_right (fun k acc => N.max (f k) acc) 0 l = fold_right (fun k acc => N.max (g k) acc) 0 l.
Proof.
  induction l as [| a l IH]; intros H; cbn [fold_right]; auto. rewrite H by (left; auto). rewrite IH; auto. intros; apply H; right; auto.
Qed.
Lemma sealed_ext : forall s s' T, lm s' T = lm s T -> (forall k m, lamk s T k = Some m -> lamk s' T k = Some m) ->
  Sealed s T -> Sealed s' T /\ cstar s' T = cstar s T.
Proof.
  intros s s' T Em Hl S. split.
  - intros k Hk. rewrite Em in Hk. specialize (S k Hk). destruct (lamk s T k) eqn:E; [| contradiction]. rewrite (Hl _ _ E). discriminate.
  - unfold cstar. rewrite Em. apply fold_max_ext_in. intros k Hk. unfold lam0. specialize (S k Hk).
    destruct (lamk s T k) eqn:E; [| contradiction]. rewrite (Hl _ _ E). auto.
Qed.

Lemma ainv_pw_deliver : forall s s' r T ks x, Inv s -> Linv s -> stepr s (EPwDeliver r T ks x) = Ok s' ->
  (asyncm s T -> ainv s T) -> asyncm s' T -> ainv s' T.
Proof.
  intros s s' r T ks x HI HL H AI [Hm' [H1' [H2' [H3' H4']]]]. destruct (HI T) as [G _]. pose proof (HL T) as L.
  pose proof (stepr_kmono _ _ _ H) as KM. pose proof (stepr_lists _ _ _ H) as [Ls [_ [_ [_ [Lr _]]]]].
  assert (Hsent : forall y, y <> EPwDeliver r T ks x -> In y (s_sent s') -> In y (s_sent s)).
  { intros y Hne Hy. destruct Ls as [Ls | Ls]; rewrite Ls in Hy; auto. destruct Hy as [Hy | Hy]; auto. congruence. }
  assert (Hrs : s_rs s' = s_rs s) by (destruct Lr as [Lr | [r0 [T1 [c [ks0 [j [Ee _]]]]]]]; [auto | discriminate Ee]).
  cbn [stepr] in H. unfold step_pw_deliver in H. chks H.
  apply sent_by_In in C. destruct C as [e0 [Ce1 Ce2]]. destruct e0; try discriminate. beq. subst.
  assert (Hsnd : exists p0 a0 o0 m0 f0 secs0, In (EPwSend r T p0 ks a0 o0 m0 f0 secs0) (s_sent s)) by eauto 10.
  clear Ce1. clear p async onepc m f secs.
  match type of H with context [sent_by s ?pp] => set (req1 := sent_by s pp) in * end. clearbody req1.
  match type of H with context [setc (add_dlv s ?ee) T ?cc] => set (c' := cc) in *; set (e' := ee) in * end.
  change (setc (add_dlv s e') T c') with (add_dlv (setc s T c') e') in H.
  set (b := setc s T c') in *.
  assert (Kb : forall k, kget b T k = kget s T k) by reflexivity.
  assert (exists tr kk, tr_ok tr /\ tr_idem tr /\ tr_total_locked tr /\ step_keys (add_dlv b e') T kk tr = Some s' /\
            match x with PwOk m o => kk = ks /\ tr = (if o =? 0 then tr_pw m else tr_1pc o) | _ => kk = [] end)
    as [tr [kk [Hok [Hid [Htot [E Hx]]]]]].
  { destruct x as [m0 o0 | |]; [destruct (o0 =? 0) eqn:Eo | |].
    - destruct (step_keys _ _ _ _) as [s2 |] eqn:E; [| discriminate]. okinv H. exists (tr_pw m0), ks.
      repeat split; auto using tr_pw_ok, tr_pw_idem, tr_pw_total.
    - destruct (step_keys _ _ _ _) as [s2 |] eqn:E; [| discriminate]. okinv H. exists (tr_1pc o0), ks.
      repeat split; auto using tr_1pc_ok, tr_1pc_idem, tr_1pc_total.
    - okinv H. exists tr_rb, []. repeat split; auto using tr_rb_ok, tr_rb_idem, tr_rb_total.
    - okinv H. exists tr_rb, []. repeat split; auto using tr_rb_ok, tr_rb_idem, tr_rb_total. }
  pose proof (step_keys_char _ _ _ _ _ _ Hok Hid Htot E) as Ch.
  assert (Gc : getc s' T = c') by (rewrite (step_keys_getc _ _ _ _ _ T E); unfold b; rd; reflexivity).
  destruct (step_keys_lists _ _ _ _ _ E) as [_ [Ed _]]. cbn [s_dlv add_dlv w_dlv] in Ed.
  assert (Hd' : s_dlv s' = e' :: s_dlv s) by (rewrite Ed; reflexivity).
  set (fresh := filter (fun k => match kget s T k with Unlocked => true | _ => false end) ks) in *.
  assert (RC : (forall f0, f0 <> FStFb -> cn c' f0 = cn (getc s T) f0) /\
               c_lm c' = c_lm (getc s T) /\ c_all c' = c_all (getc s T) /\ c_pwok c' = c_pwok (getc s T) /\
               (cn c' FStFb = 0 -> cn (getc s T) FStFb = 0 /\
                  (fb (getc s T) FTriedA = true -> forall m o, x = PwOk m o -> o = 0 -> m <> 0)) /\
               (forall k, lam c' k = match x with PwOk m o => if (o =? 0) && mem k fresh then Some m else lam (getc s T) k
                                                 | _ => lam (getc s T) k end) /\
               forall k, kcnt c' KSent k = kcnt (getc s T) KSent k /\ kcnt c' KNeg k = kcnt (getc s T) KNeg k /\
                         kcnt c' KRep k = kcnt (getc s T) KRep k /\
                         kcnt c' KDlv k = occ k ks + kcnt (getc s T) KDlv k /\
                         kcnt c' KNegD k = (match x with PwOk _ _ => 0 | _ => occ k ks end) + kcnt (getc s T) KNegD k).
  { unfold c'. destruct x as [m0 o0 | kd |].
    - unfold commit_point_pw. repeat (rewrite ?fb_add_kl; try rewrite fb_setn_ne by discriminate).
      assert (Efb : forall g cc lst mm, fb (add_lam cc lst mm) g = fb cc g) by reflexivity.
      destruct (o0 =? 0) eqn:Eo; rewrite ?Efb, ?fb_add_kl;
        destruct (fb (getc s T) FTriedA), (fb (getc s T) FTried1) eqn:Et, (m0 =? 0) eqn:Em0, req1; cbn [orb andb]; rd;
        repeat split; try reflexivity; intros; try discriminate;
        try (rewrite ?cn_setn_ne by auto; reflexivity);
        try (match goal with Hx : PwOk _ _ = PwOk _ _ |- _ => inversion Hx; subst end; apply N.eqb_neq in Em0; auto; fail);
        try (match goal with Hx : PwOk _ _ = PwOk _ _ |- _ => inversion Hx; subst end; apply N.eqb_neq in Eo; contradiction);
        rewrite ?lam_setn, ?lam_add_lam, ?lam_add_kl;
        rewrite ?kcnt_setn, ?kcnt_add_lam; repeat rewrite kcnt_add_kl; cbn; try lia; auto.
    - rd. repeat split; try reflexivity; intros; try discriminate; repeat rewrite kcnt_add_kl; cbn; lia.
    - rd. repeat split; try reflexivity; intros; try discriminate; repeat rewrite kcnt_add_kl; cbn; lia. }
  destruct RC as [Rf [R8 [R9 [R10 [Rst [Rl Rk]]]]]]. clearbody c'.
  unfold hasm, F in *. rewrite Gc in *.
  rewrite (Rf FHasm), (Rf FTriedA), (Rf FFb) in * by discriminate. destruct (Rst H4') as [H4 Hm0].
  assert (H2 : no1pc s T) by (intros r0 ks0 m0 o0 Hi; apply (H2' r0 ks0 m0 o0); rewrite Hd'; right; exact Hi).
  assert (Am : asyncm s T) by (repeat split; auto).
  pose proof (AI Am) as HA. destruct (asyncm_cp _ _ Am) as [Hcp [_ Hh]]. rewrite Hcp in C1. cbn [negb orb] in C1.
  assert (Hcnt : forall k, In k ks -> kcnt (getc s T) KDlv k + occ k ks <= kcnt (getc s T) KSent k).
  { intros k Hk. pose proof (forallb_In _ _ _ C1 Hk) as Cx. cbn beta in Cx. apply N.leb_le in Cx. auto. }
  (* the shape of the result *)
  assert (Hx2 : forall m o, x = PwOk m o -> o = 0 /\ m <> 0).
  { intros m o ->. assert (o = 0) as -> by (apply (H2' r ks m o); rewrite Hd'; left; reflexivity).
    split; auto. apply (Hm0 (proj2 (fb_true _ _) H1') m 0 eq_refl eq_refl). }
  (* per-key effect *)
  assert (Kk : forall k, (In k ks /\ exists m, x = PwOk m 0 /\
                          ((kget s T k = Unlocked /\ kget s' T k = Locked m /\ mem k fresh = true) \/
                           (kget s' T k = kget s T k /\ mem k fresh = false /\ (lam (getc s T) k = Some m \/ kget s T k = Committed m)))) \/
                         (kget s' T k = kget s T k /\ (forall m o, x = PwOk m o -> ~ In k ks))).
  { intros k. destruct (Ch k) as [[Hk A] | [Hk A]].
    - destruct x as [m o | |]; [| subst kk; destruct Hk | subst kk; destruct Hk]. destruct Hx as [-> ->].
      destruct (Hx2 m o eq_refl) as [-> Hmn]. cbn [N.eqb] in *. left. split; auto. exists m. split; auto.
      rewrite Kb in A. pose proof (forallb_In _ _ _ C3 Hk) as Mc. unfold mc_consistent in Mc.
      destruct (kget s T k) eqn:Ek; cbn in A; inversion A.
      + left. repeat split; auto. unfold fresh. apply mem_filter. rewrite Ek. auto.
      + right. assert (Nf : mem k fresh = false).
        { destruct (mem k fresh) eqn:M; auto. unfold fresh in M. apply mem_filter in M. rewrite Ek in M. destruct M. discriminate. }
        repeat split; auto. left. pose proof (l_locked _ _ L _ _ Ek) as El. unfold lamk in El.
        pose proof (a_lam _ _ HA _ _ El). apply orb_true_iff in Mc. destruct Mc as [Mc | Mc]; apply N.eqb_eq in Mc; congruence.
      + right. assert (Nf : mem k fresh = false).
        { destruct (mem k fresh) eqn:M; auto. unfold fresh in M. apply mem_filter in M. rewrite Ek in M. destruct M. discriminate. }
        repeat split; auto. right. apply orb_true_iff in Mc. destruct Mc as [Mc | Mc]; apply N.eqb_eq in Mc; congruence.
    - right. rewrite Kb in A. split; auto. intros m o ->. destruct Hx as [-> _]. auto. }
  (* the ghost map is only extended, on keys that had no entry *)
  assert (El1 : forall k m, lam (getc s T) k = Some m -> lam c' k = Some m).
  { intros k m Hl. rewrite Rl. destruct x as [m0 o | |]; auto. destruct (o =? 0); cbn [andb]; auto.
    destruct (mem k fresh) eqn:M; auto. exfalso. unfold fresh in M. apply mem_filter in M. destruct M as [_ M].
    destruct (kget s T k) eqn:Ek; try discriminate. eapply (l_nu _ _ L); eauto. }
  assert (El2 : forall k m, lam c' k = Some m -> lam (getc s T) k = Some m \/ (exists o, x = PwOk m o /\ o = 0 /\ mem k fresh = true)).
  { intros k m Hl. rewrite Rl in Hl. destruct x as [m0 o | |]; auto. destruct (o =? 0) eqn:Eo; cbn [andb] in Hl; auto.
    destruct (mem k fresh) eqn:M; auto. inversion Hl. subst. right. exists o. apply N.eqb_eq in Eo. auto. }
  assert (Em : lm s' T = lm s T) by (unfold lm; rewrite Gc; auto).
  assert (Elk : forall k m, lamk s T k = Some m -> lamk s' T k = Some m) by (intros k m; unfold lamk; rewrite Gc; apply El1).
  assert (Kc : forall k c, kget s' T k = Committed c -> kget s T k = Committed c).
  { intros k c Hc. destruct (Kk k) as [[_ [m [_ [[_ [A _]] | [A _]]]]] | [A _]]; congruence. }
  assert (Kr : forall k, kget s' T k = RolledBack -> kget s T k = RolledBack).
  { intros k Hc. destruct (Kk k) as [[_ [m [_ [[_ [A _]] | [A _]]]]] | [A _]]; congruence. }
  assert (Eor : forall k m, lamk s T k = Some m \/ kget s T k = Committed m -> lamk s' T k = Some m \/ kget s' T k = Committed m).
  { intros k m [A | A]; [left; auto | right; eapply km_committed; eauto]. }
  assert (En : NSa s T -> NSa s' T).
  { intros [k0 [K1 [K2 K3]]]. exists k0. rewrite Em. split; auto.
    assert (Nk : forall m o, x = PwOk m o -> ~ In k0 ks \/ False).
    { intros m o Ex. destruct (in_dec N.eq_dec k0 ks) as [Hk | Hk]; auto. right.
      destruct (Kk k0) as [[_ [m1 [_ [[A1 _] | [_ [_ A1]]]]]] | [_ A1]].
      - destruct K3 as [K3 | [_ [_ K5]]]; [congruence |]. pose proof (Hcnt k0 Hk). pose proof (occ_pos _ _ Hk).
        pose proof (l_cntle _ _ L k0) as D. unfold kc in *. lia.
      - unfold lamk in K2. destruct A1 as [A1 | A1]; [congruence |]. destruct K3 as [K3 | [K3 _]]; congruence.
      - eapply A1; eauto. }
    assert (Same : kget s' T k0 = kget s T k0 /\ lamk s' T k0 = None /\ kc s' T KNegD k0 = kc s T KNegD k0 \/
                   (kc s T KSent k0 = kc s T KNegD k0 -> False)).
    { destruct x as [m o | kd |].
      - destruct (Nk m o eq_refl) as [Hk | []]. left.
        destruct (Kk k0) as [[Hk2 _] | [A _]]; [contradiction |]. split; auto. split.
        + unfold lamk. rewrite Gc, Rl. destruct (o =? 0); cbn [andb]; auto. destruct (mem k0 fresh) eqn:M; auto.
          exfalso. unfold fresh in M. apply mem_filter in M. destruct M. contradiction.
        + unfold kc. rewrite Gc. destruct (Rk k0) as [_ [_ [_ [_ E5]]]]. rewrite E5. lia.
      - destruct (in_dec N.eq_dec k0 ks) as [Hk | Hk].
        + right. intros Kc0. pose proof (Hcnt k0 Hk). pose proof (occ_pos _ _ Hk). pose proof (l_cntle _ _ L k0) as D. unfold kc in *. lia.
        + left. destruct (Kk k0) as [[Hk2 _] | [A _]]; [contradiction |]. split; auto. split; [unfold lamk; rewrite Gc, Rl; auto |].
          unfold kc. rewrite Gc. destruct (Rk k0) as [_ [_ [_ [_ E5]]]]. rewrite E5, (occ_zero _ _ Hk). lia.
      - destruct (in_dec N.eq_dec k0 ks) as [Hk | Hk].
        + right. intros Kc0. pose proof (Hcnt k0 Hk). pose proof (occ_pos _ _ Hk). pose proof (l_cntle _ _ L k0) as D. unfold kc in *. lia.
        + left. destruct (Kk k0) as [[Hk2 _] | [A _]]; [contradiction |]. split; auto. split; [unfold lamk; rewrite Gc, Rl; auto |].
          unfold kc. rewrite Gc. destruct (Rk k0) as [_ [_ [_ [_ E5]]]]. rewrite E5, (occ_zero _ _ Hk). lia. }
    destruct K3 as [K3 | [K3 [K4 K5]]].
    - destruct Same as [[S1 [S2 S3]] | S1].
      + split; auto. left. congruence.
      + split; [| left; eapply km_rolledback; eauto]. destruct (lamk s' T k0) eqn:E0; auto. exfalso.
        unfold lamk in E0. rewrite Gc in E0. apply El2 in E0. destruct E0 as [E0 | [o [_ [_ M]]]]; [unfold lamk in K2; congruence |].
        unfold fresh in M. apply mem_filter in M. rewrite K3 in M. destruct M. discriminate.
    - destruct Same as [[S1 [S2 S3]] | S1]; [| exfalso; auto]. split; auto. right. rewrite S1. split; auto. split.
      + unfold F. rewrite Gc, (Rf FTold), (Rf FDead) by discriminate. auto.
      + rewrite S3. unfold kc. rewrite Gc. destruct (Rk k0) as [E1 _]. rewrite E1. auto. }
  assert (Ese : Sealed s T -> Sealed s' T /\ cstar s' T = cstar s T) by (apply sealed_ext; auto).
  assert (Old : forall y, In y (s_dlv s) -> In y (s_dlv s')) by (intros; rewrite Hd'; right; auto).
  clear H. constructor; intros.
  - apply Hsent in H; [| discriminate]. eapply (a_send _ _ HA); eauto.
  - rewrite Hd' in H. destruct H as [H | H].
    + unfold e' in H. inversion H. subst r0 ks0 x. destruct (Hx2 m o eq_refl) as [-> Hmn]. repeat split; auto.
      intros k Hk. destruct (Kk k) as [[_ [m1 [Ex [[A1 [A2 A3]] | [A1 [A2 A3]]]]]] | [_ A1]].
      * inversion Ex. subst m1. left. unfold lamk. rewrite Gc, Rl. cbn [N.eqb andb]. rewrite A3. auto.
      * inversion Ex. subst m1. apply Eor. auto.
      * exfalso. eapply A1; eauto.
    + destruct (a_entry _ _ HA _ _ _ _ H) as [B1 [B2 B4]]. repeat split; auto.
  - unfold F. rewrite Gc, (Rf F1pcTs) by discriminate. apply (a_1pcts _ _ HA).
  - unfold lamk in H. rewrite Gc in H. apply El2 in H. destruct H as [H | [o [Ex [_ _]]]]; [eapply (a_lam _ _ HA); eauto |].
    destruct (Hx2 _ _ Ex). auto.
  - unfold kc. rewrite Gc. destruct (Rk k) as [E1 [E2 [_ [E4 E5]]]]. rewrite E1, E2, E4, E5. destruct (a_cnt _ _ HA k) as [B1 B2]. unfold kc in *.
    pose proof (l_cntle _ _ L k) as D. unfold kc in D. split.
    + destruct (in_dec N.eq_dec k ks) as [Hk | Hk]; [apply Hcnt in Hk; lia | rewrite (occ_zero _ _ Hk); lia].
    + destruct x; lia.
  - apply Kc in H. destruct (a_commit _ _ HA _ _ H) as [S1 S2]. destruct (Ese S1) as [S3 S4]. split; auto. congruence.
  - rewrite Em in H. apply En. eapply (a_rb _ _ HA); eauto.
  - apply Hsent in H; [| discriminate]. destruct (a_cmsent _ _ HA _ _ _ H) as [S1 S2]. destruct (Ese S1) as [S3 S4]. split; auto. congruence.
  - rewrite Hrs in H. unfold prim, F. rewrite Gc, (Rf FPrim) by discriminate. eapply (a_rsk _ _ HA); eauto.
  - rewrite Hrs in H. destruct (a_rsa _ _ HA _ H) as [B1 B2]. split; auto. intros HC. destruct (B1 HC) as [S1 S2]. destruct (Ese S1) as [S3 S4]. split; auto. congruence.
  - rewrite Hd' in H. destruct H as [H | H]; [discriminate H |]. destruct (a_ctsl _ _ HA _ _ _ _ _ H) as [B1 [B2 B3]].
    unfold prim, F. rewrite Gc, (Rf FPrim) by discriminate. rewrite Em. auto.
  - rewrite Hd' in H. destruct H as [H | H]; [discriminate H |]. destruct (a_csll _ _ HA _ _ _ H) as [B1 B2]. split; auto.
  - rewrite Hd' in H. destruct H as [H | H]; [discriminate H |]. destruct (a_cslc _ _ HA _ _ _ H) as [B1 B2]. split; auto.
    intros HC. destruct (B1 HC) as [S1 S2]. destruct (Ese S1) as [S3 S4]. split; auto. congruence.
  - apply Hsent in H; [| discriminate]. rewrite Em. eapply (a_cslsent _ _ HA); eauto.
  - rewrite Em in H. unfold pwok in H0. rewrite Gc, R10 in H0. destruct (a_minc _ _ HA _ H H0) as [m [B1 B2]]. exists m.
    unfold F. rewrite Gc, (Rf FMinc) by discriminate. split; auto.
  - unfold F. rewrite Gc, (Rf FMinc) by discriminate. rewrite Em.
    destruct (a_minc2 _ _ HA) as [B | [k [B1 B2]]]; [left; auto | right; exists k; auto].
  - apply En. apply (a_dead _ _ HA). unfold F in H. rewrite Gc, (Rf FTold) in H by discriminate.
    destruct H as [H | [r0 [ks0 H]]]; [left; auto | right; exists r0, ks0; apply Hsent; auto; discriminate].
  - unfold F in H. rewrite Gc, (Rf FTold) in H by discriminate. destruct (a_told _ _ HA H) as [B1 B2]. destruct (Ese B1) as [S3 _]. split; auto.
    intros k Hk. unfold call in Hk. rewrite Gc, R9 in Hk. specialize (B2 k Hk). unfold kc in *. rewrite Gc.
    destruct (Rk k) as [E1 [_ [E3 _]]]. rewrite E1, E3. auto.
Qed.
