(* Percolator/Layer2b.v — general invariants of the ghost min-commit map and of the per-key prewrite
   accounting (linv), preserved by every accepted step. *)
From Verif Require Export Percolator.Layer2.

Lemma occ_pos : forall k ks, In k ks -> 0 < occ k ks.
Proof.
  induction ks as [| k' ks IH]; intros H; [destruct H |]. cbn [occ]. destruct H as [-> | H].
  - rewrite N.eqb_refl. lia.
  - specialize (IH H). destruct (k' =? k); lia.
Qed.
Lemma occ_zero : forall k ks, ~ In k ks -> occ k ks = 0.
Proof.
  induction ks as [| k' ks IH]; intros H; auto. cbn [occ]. destruct (N.eqb_spec k' k) as [-> | Hne].
  - exfalso. apply H. left. auto.
  - rewrite IH; auto. intros Hi. apply H. right. auto.
Qed.
Lemma kcnt_l_app : forall t k a b, kcnt_l t k (a ++ b) = kcnt_l t k a + kcnt_l t k b.
Proof. induction a as [| [t' k'] a IH]; intros; cbn [kcnt_l app]; auto. rewrite IH. lia. Qed.
Lemma kcnt_l_map : forall t t' k ks, kcnt_l t' k (map (fun k0 => (t, k0)) ks) = if t =? t' then occ k ks else 0.
Proof.
  induction ks as [| k0 ks IH]; cbn [kcnt_l map occ]; [destruct (t =? t'); auto |].
  rewrite IH. destruct (t =? t'); cbn [andb]; lia.
Qed.
Lemma kcnt_add_kl : forall c t ks t' k, kcnt (add_kl c t ks) t' k = (if t =? t' then occ k ks else 0) + kcnt c t' k.
Proof. intros. unfold kcnt, add_kl. cbn [c_kl]. rewrite kcnt_l_app, kcnt_l_map. reflexivity. Qed.
Lemma kcnt_setn : forall c f v t k, kcnt (setn c f v) t k = kcnt c t k. Proof. reflexivity. Qed.
Lemma kcnt_incn : forall c f t k, kcnt (incn c f) t k = kcnt c t k. Proof. reflexivity. Qed.
Lemma kcnt_add_pwok : forall c ks t k, kcnt (add_pwok c ks) t k = kcnt c t k. Proof. reflexivity. Qed.
Lemma kcnt_add_lam : forall c ks m t k, kcnt (add_lam c ks m) t k = kcnt c t k. Proof. reflexivity. Qed.
Lemma kcnt_set_muts : forall c a b t k, kcnt (set_muts c a b) t k = kcnt c t k. Proof. reflexivity. Qed.

Lemma lam_l_app_map : forall ks m l k, lam_l (map (fun k0 => (k0, m)) ks ++ l) k = if mem k ks then Some m else lam_l l k.
Proof.
  induction ks as [| k0 ks IH]; intros; cbn [map app lam_l mem existsb]; auto.
  rewrite IH. rewrite (N.eqb_sym k k0). destruct (k0 =? k); cbn [orb]; auto.
Qed.
Lemma lam_add_lam : forall c ks m k, lam (add_lam c ks m) k = if mem k ks then Some m else lam c k.
Proof. intros. unfold lam, add_lam. cbn [c_lam]. apply lam_l_app_map. Qed.
Lemma lam_setn : forall c f v k, lam (setn c f v) k = lam c k. Proof. reflexivity. Qed.
Lemma lam_add_kl : forall c t ks k, lam (add_kl c t ks) k = lam c k. Proof. reflexivity. Qed.

Definition lamk (s : sys) (T k : N) : option N := lam (getc s T) k.
Definition kc (s : sys) (T tag k : N) : N := kcnt (getc s T) tag k.

Record linv (s : sys) (T : N) : Prop := {
  l_locked : forall k m, kget s T k = Locked m -> lamk s T k = Some m;
  l_nu : forall k m, lamk s T k = Some m -> kget s T k <> Unlocked;
  l_okcnt : forall r ks m o k, In (EPwReply r T ks (PwOk m o)) (s_dlv s) -> In k ks -> kc s T KNegD k < kc s T KDlv k;
  l_cntle : forall k, kc s T KNegD k <= kc s T KDlv k;
  l_lamcnt : forall k m, lamk s T k = Some m -> kc s T KNegD k < kc s T KDlv k;
  l_csl_sub : forall r ks st, In (ECslReply r T ks st) (s_csl s) -> In (ECslReply r T ks st) (s_dlv s);
  l_csl_sent : forall r ks st, In (ECslReply r T ks st) (s_dlv s) -> In (ECslSend r T ks) (s_sent s);
  l_pcok : hasm s T -> F s T FPcOk <> 0 -> kget s T (prim s T) = Committed (F s T FPcOk);
  l_lm_all : forall k, In k (lm s T) -> In k (c_all (getc s T));
  l_prim : hasm s T -> In (prim s T) (lm s T)
}.

Lemma lock_keys_sub : forall ms k, In k (lock_keys ms) -> In k (map fst ms).
Proof.
  unfold lock_keys. intros ms k H. apply in_map_iff in H. destruct H as [[k' o] [H1 H2]]. cbn in H1. subst.
  apply filter_In in H2. destruct H2 as [H2 _]. apply in_map_iff. exists (k, o). auto.
Qed.

(* every step except a prewrite delivery and the logging of the mutations keeps the ghost map, the
   mutation list and the delivery counters *)
Definition quiet2 (e : event) : bool :=
  match e with EMutations _ _ _ | EPwDeliver _ _ _ _ => false | _ => true end.
Record same_acct2 (c c' : crec) : Prop := {
  s2_lam : c_lam c' = c_lam c; s2_lm : c_lm c' = c_lm c; s2_all : c_all c' = c_all c;
  s2_dlv : forall k, kcnt c' KDlv k = kcnt c KDlv k; s2_negd : forall k, kcnt c' KNegD k = kcnt c KNegD k;
  s2_hasm : cn c' FHasm = cn c FHasm; s2_prim : cn c' FPrim = cn c FPrim }.
Lemma same_acct_2 : forall c c', same_acct c c' -> same_acct2 c c'.
Proof.
  intros c c' [A1 A2 A3 A4 A5 A6]. constructor; auto; try (intros k; unfold kcnt; rewrite A1; reflexivity); apply A6; reflexivity.
Qed.

Lemma stepr_quiet2 : forall s e s' T0, quiet2 e = true -> stepr s e = Ok s' -> same_acct2 (getc s T0) (getc s' T0).
Proof.
  intros s e s' T0 Hq H.
  destruct (quiet e) eqn:Q; [apply same_acct_2; eapply stepr_quiet; eauto |].
  destruct (option_map (N.eqb T0) (txn_of e)) as [[|] |] eqn:Et.
  2: { assert (A : agree s s' T0) by (apply (step_agree s e s' T0 H); intros E'; rewrite E' in Et; cbn in Et; rewrite N.eqb_refl in Et; discriminate).
       destruct_event e; cbn [quiet] in Q; try discriminate Q; cbn [quiet2] in Hq; try discriminate Hq; cbn [txn_of option_map] in Et;
         inversion Et as [Et1]; apply N.eqb_neq in Et1; cbn [stepr] in H;
         unfold step_pw_send, step_pw_reply, step_rb_send, step_cts_deliver, step_told in H; chks H.
       all: repeat match type of H with
              | (match ?d with _ => _ end) = Ok _ => destruct d eqn:?; chks H; try discriminate H
              | (if ?d then _ else _) = Ok _ => destruct d eqn:?; chks H; try discriminate H
              end.
       all: try (okinv H).
       all: repeat (first [ rewrite getc_setc_ne by congruence | progress getc_keys | progress rd
                          | match goal with |- context [if ?d then _ else _] => destruct d eqn:? end ]).
       all: constructor; reflexivity. }
  2: { destruct_event e; cbn [quiet] in Q; try discriminate Q; cbn [txn_of option_map] in Et; discriminate Et. }
  destruct (txn_of e) as [T1 |] eqn:Et'; cbn [option_map] in Et; inversion Et as [Et1]. apply N.eqb_eq in Et1. subst T1.
  destruct_event e; cbn [quiet] in Q; try discriminate Q; cbn [quiet2] in Hq; try discriminate Hq; cbn [txn_of] in Et'; inversion Et'; subst;
    cbn [stepr] in H; unfold step_pw_send, step_pw_reply, step_rb_send, step_cts_deliver, step_told in H; chks H.
  all: repeat match type of H with
              | (match ?d with _ => _ end) = Ok _ => destruct d eqn:?; chks H; try discriminate H
              | (if ?d then _ else _) = Ok _ => destruct d eqn:?; chks H; try discriminate H
              end.
  all: try (okinv H).
  all: repeat match goal with |- context [match ?d with _ => _ end] => is_var d; destruct d eqn:? end.
  all: repeat (first [ progress getc_keys | progress rd | match goal with |- context [if ?d then _ else _] => destruct d eqn:? end ]).
  all: constructor; try reflexivity; intros; rewrite ?kcnt_setn, ?kcnt_incn, ?kcnt_add_pwok; repeat rewrite kcnt_add_kl; cbn; try lia; reflexivity.
Qed.

Lemma stepr_pcok : forall s e s' T0, stepr s e = Ok s' ->
  F s' T0 FPcOk = F s T0 FPcOk \/
  (exists r ks, In (ECmReply r T0 (F s' T0 FPcOk) ks CmOk) (s_dlv s) /\ In (prim s T0) ks).
Proof.
  intros s e s' T0 H. unfold F, prim, F.
  destruct (option_map (N.eqb T0) (txn_of e)) as [[|] |] eqn:Et.
  2: { left. assert (A : agree s s' T0) by (apply (step_agree s e s' T0 H); intros E'; rewrite E' in Et; cbn in Et; rewrite N.eqb_refl in Et; discriminate).
       apply (a_c _ _ _ A). reflexivity. }
  2: { left. assert (A : agree s s' T0) by (apply (step_agree s e s' T0 H); intros E'; rewrite E' in Et; discriminate).
       apply (a_c _ _ _ A). reflexivity. }
  destruct (txn_of e) as [T1 |] eqn:Et'; cbn [option_map] in Et; inversion Et as [Et1]. apply N.eqb_eq in Et1. subst T1.
  destruct_event e; cbn [txn_of] in Et'; inversion Et'; subst; cbn [stepr] in H;
    unfold step_pw_send, step_pw_deliver, step_pw_reply, step_cm_send, step_cm_deliver, step_cm_reply, step_rb_send,
           step_rb_deliver, step_cts_send, step_cts_deliver, step_csl_deliver, step_rs_send, step_rs_deliver, step_hb_send,
           step_told, plain_send, plain_reply in H; chks H.
  all: repeat match type of H with
              | (match ?d with _ => _ end) = Ok _ => destruct d eqn:?; chks H; try discriminate H
              | (if ?d then _ else _) = Ok _ => destruct d eqn:?; chks H; try discriminate H
              end.
  all: try (okinv H).
  all: repeat match goal with |- context [match ?d with _ => _ end] => is_var d; destruct d eqn:? end.
  all: repeat (first [ progress getc_keys | progress rd | match goal with |- context [if ?d then _ else _] => destruct d eqn:? end ]).
  all: try (left; reflexivity).
  (* the commit reply carrying the primary *)
  all: right; unfold has_prim in *; b2p;
    match goal with Hd : delivered _ _ = true |- _ => apply delivered_In in Hd; eauto end.
Qed.
