(* Percolator/Async5.v — ainv is preserved by the quiet events of the transaction itself. *)
From Verif Require Export Percolator.Async4.

Section CslJust.
  Variables (s s' : sys) (T : N).
  Hypothesis G : ginv s T.
  Hypothesis L : linv s T.
  Hypothesis Am : asyncm s T.
  Hypothesis A : ainv s T.
  Let Hm : hasm s T := proj1 Am.

  Lemma wr_just : forall C, In (T, C) (s_wr s) -> (C <> 0 -> Sealed s T /\ C = cstar s T) /\ (C = 0 -> NSa s T).
  Proof. intros C H. destruct (g_wr _ _ G _ H) as [j Hj]. eapply (rs_just s T G L Hm A); eauto. Qed.

  Lemma csl_deliver_just : forall r ks st, stepr s (ECslDeliver r T ks st) = Ok s' ->
    match st with
    | CslLocks l => (forall k M, In (k, M) l -> lamk s T k = Some M) /\ (forall k, In k ks -> exists M, In (k, M) l)
    | CslCommit C => (C <> 0 -> Sealed s T /\ C = cstar s T) /\ (C = 0 -> NSa s' T)
    | CslRegion => True
    end.
  Proof.
    intros r ks st H. assert (J : forall k, jstep s s' T k) by (eapply jstep_csl_deliver; eauto).
    pose proof (stepr_quiet s (ECslDeliver r T ks st) s' T eq_refl H) as SA.
    cbn [stepr] in H. unfold step_csl_deliver in H. chks H.
    apply sent_by_In in C. destruct C as [e0 [Ce1 Ce2]]. destruct e0; try discriminate. beq. subst.
    pose proof (a_cslsent _ _ A _ _ Ce1) as Hks.
    destruct st as [l | cc |]; auto.
    - chks H. split.
      + intros k M Hk. rewrite forallb_forall in C0. specialize (C0 _ Hk). cbn [fst snd] in C0.
        destruct (kget s T k) eqn:Ek; try discriminate. pose proof (l_locked _ _ L _ _ Ek) as El.
        apply N.eqb_eq in C0. congruence.
      + intros k Hk. rewrite forallb_forall in C. specialize (C _ Hk). apply existsb_exists in C. destruct C as [[k' M] [C1 C2]].
        cbn [fst] in C2. apply N.eqb_eq in C2. subst. eauto.
    - destruct (N.eq_dec cc 0) as [-> | HC].
      + cbn [N.eqb] in H. chks H. split; [intros; contradiction | intros _].
        destruct (first_gone_spec _ _ _ C) as [k [Fg [K1 K2]]]. rewrite Fg in H. unfold gone_key in K2.
        destruct (step_keys _ _ _ _) as [s2 |] eqn:E; try discriminate. okinv H.
        destruct (kget s T k) eqn:Ek; try discriminate.
        * (* an unlocked key: it gets its rollback marker now *)
          exists k. rewrite (tr_lm s s' T SA), (tr_lamk s s' T SA). split; [apply Hks; auto |].
          split; [destruct (lamk s T k) eqn:El; auto; exfalso; eapply (l_nu _ _ L); eauto |]. left.
          destruct (step_keys_char _ _ _ _ _ _ tr_csl_rb_ok tr_csl_rb_idem tr_csl_rb_total E k) as [[_ Ch] | [Ch _]]; [| exfalso; apply Ch; left; reflexivity].
          change (kget (add_dlv s _) T k) with (kget s T k) in Ch. rewrite Ek in Ch. cbn in Ch. inversion Ch. auto.
        * apply existsb_exists in K2. destruct K2 as [[T' c] [W1 W2]]. cbn [fst snd] in W2. b2p. subst.
          apply (tr_NSa s s' T J SA). apply (wr_just 0 W1). auto.
        * apply (tr_NSa s s' T J SA). eapply (a_rb _ _ A); eauto.
      + apply N.eqb_neq in HC. rewrite HC in H. chks H. apply N.eqb_neq in HC. split; [intros _ | intros; contradiction].
        apply existsb_exists in C. destruct C as [k [K1 K2]]. destruct (kget s T k) eqn:Ek; try discriminate.
        * apply existsb_exists in K2. destruct K2 as [[T' c] [W1 W2]]. cbn [fst snd] in W2. b2p. subst. apply (wr_just cc W1). auto.
        * apply N.eqb_eq in K2. subst. apply (a_commit _ _ A _ _ Ek).
  Qed.
End CslJust.

Lemma asyncm_back : forall s e s' T, stepr s e = Ok s' -> same_acct (getc s T) (getc s' T) -> asyncm s' T -> asyncm s T.
Proof.
  intros s e s' T H [_ _ _ _ _ A] [H1 [H2 [H3 [H4 H5]]]]. apply (no1pc_back _ _ _ _ H) in H3. unfold asyncm, hasm, F in *.
  rewrite (A FHasm), (A FTriedA), (A FFb), (A FStFb) in * by reflexivity. auto.
Qed.

Lemma ainv_other : forall s e s' T, linv s T -> stepr s e = Ok s' -> txn_of e <> Some T -> ainv s T -> ainv s' T.
Proof.
  intros s e s' T L H Hne A. pose proof (step_agree _ _ _ T H Hne) as Ag. pose proof (stepr_getc_other _ _ _ T H Hne) as Gc.
  pose proof (stepr_lists _ _ _ H) as [Ls [Ld _]].
  assert (Hs : forall x, In x (s_sent s') -> txn_of x = Some T -> In x (s_sent s)).
  { intros x Hx Ht. destruct Ls as [Ls | Ls]; rewrite Ls in Hx; auto. destruct Hx as [Hx | Hx]; auto. subst. contradiction. }
  assert (Hd : forall x, In x (s_dlv s') -> txn_of x = Some T -> In x (s_dlv s)).
  { intros x Hx Ht. destruct Ld as [Ld | [e' [R1 Ld]]]; rewrite Ld in Hx; auto. destruct Hx as [Hx | Hx]; auto. subst e'.
    exfalso. apply Hne. destruct e; cbn [reply_of] in R1; try discriminate R1; inversion R1; subst; exact Ht. }
  apply (ainv_stable s s' T L); try exact A.
  - intros k. left. apply (a_k _ _ _ Ag).
  - rewrite Gc. apply same_acct_refl.
  - intros. apply Hs; auto.
  - intros. apply Hs; auto.
  - intros. apply Hd; auto.
  - intros. left. apply Hs; auto.
  - intros. left. apply (a_rs _ _ _ Ag). auto.
  - intros. left. apply (a_rs _ _ _ Ag). auto.
  - intros. left. apply Hd; auto.
  - intros. left. apply Hd; auto.
  - intros. left. apply Hd; auto.
  - intros. left. apply Hs; auto.
Qed.

Lemma ainv_quiet : forall s e s' T, Inv s -> Linv s -> quiet e = true -> txn_of e = Some T -> stepr s e = Ok s' ->
  asyncm s T -> ainv s T -> ainv s' T.
Proof.
  intros s e s' T HI HL Hq Ht H Am A. destruct (HI T) as [G _]. pose proof (HL T) as L. pose proof (proj1 Am) as Hm.
  pose proof (stepr_quiet _ _ _ T Hq H) as SA.
  assert (J : forall k, jstep s s' T k).
  { destruct (kchange e) eqn:Kc; [| intros k; left; apply kget_of_kst; eapply stepr_kst_same; eauto].
    destruct e; cbn [kchange] in Kc; try discriminate Kc; cbn [quiet] in Hq; try discriminate Hq; cbn [txn_of] in Ht; inversion Ht; subst.
    - eapply jstep_cm_deliver; eauto.
    - eapply jstep_rb_deliver; eauto.
    - eapply jstep_csl_deliver; eauto.
    - eapply jstep_rs_deliver; eauto. }
  pose proof (stepr_lists _ _ _ H) as [Ls [Ld [_ [_ [Lr _]]]]].
  pose proof (tr_Sealed s s' T SA) as Es. pose proof (tr_cstar s s' T SA) as Ec. pose proof (tr_lm s s' T SA) as Em.
  pose proof (tr_lamk s s' T SA) as El. pose proof (tr_NSa s s' T J SA) as En.
  assert (Ep : prim s' T = prim s T) by (apply (tr_F s s' T SA); reflexivity).
  (* a new item in sent is the event itself; in dlv, its reply *)
  assert (Hs : forall x, In x (s_sent s') -> In x (s_sent s) \/ x = e).
  { intros x Hx. destruct Ls as [Ls | Ls]; rewrite Ls in Hx; auto. destruct Hx as [Hx | Hx]; auto. }
  assert (Hd : forall x, In x (s_dlv s') -> In x (s_dlv s) \/ reply_of e = Some x).
  { intros x Hx. destruct Ld as [Ld | [e' [R1 Ld]]]; rewrite Ld in Hx; auto. destruct Hx as [Hx | Hx]; auto. subst. auto. }
  apply (ainv_stable s s' T L J SA); try exact A.
  - intros. destruct (Hs _ H0) as [B | B]; auto. subst e. discriminate Hq.
  - intros. destruct (Hs _ H0) as [B | B]; auto. subst e. discriminate Hq.
  - intros. destruct (Hd _ H0) as [B | B]; auto. destruct e; cbn [reply_of] in B; try discriminate B; discriminate Hq.
  - intros r C ks H0. destruct (Hs _ H0) as [B | B]; auto. subst e. right. rewrite Es, Ec. eapply cm_send_just; eauto.
  - intros C p H0. destruct Lr as [Lr | [r [T1 [c [ks [j [Ee Lr]]]]]]]; rewrite Lr in H0; auto.
    destruct H0 as [H0 | H0]; auto. inversion H0. subst. right. rewrite Ep.
    destruct (rs_send_just s T G L Am A _ _ _ _ H) as [[p0 [R1 R2]] | [R1 _]]; rewrite R1 in Lr; inversion Lr; subst; auto.
  - intros C H0. destruct Lr as [Lr | [r [T1 [c [ks [j [Ee Lr]]]]]]]; rewrite Lr in H0; auto.
    destruct H0 as [H0 | H0]; auto. inversion H0. subst. right. rewrite Es, Ec.
    destruct (rs_send_just s T G L Am A _ _ _ _ H) as [[p0 [R1 R2]] | [R1 [R2 R3]]]; rewrite R1 in Lr; inversion Lr; subst.
    split; auto.
  - intros r p ttl m secs H0. destruct (Hd _ H0) as [B | B]; auto. destruct e; cbn [reply_of] in B; try discriminate B. discriminate Hq.
  - intros r ks l H0. destruct (Hd _ H0) as [B | B]; auto. destruct e; cbn [reply_of] in B; try discriminate B.
    inversion B. subst. right. cbn [txn_of] in Ht. inversion Ht. subst.
    pose proof (csl_deliver_just s s' T G L Am A _ _ _ H) as Cj. cbn beta iota in Cj. destruct Cj as [C1 C2]. split; auto.
    intros k M Hk. rewrite El. auto.
  - intros r ks C H0. destruct (Hd _ H0) as [B | B]; auto. destruct e; cbn [reply_of] in B; try discriminate B.
    inversion B. subst. right. cbn [txn_of] in Ht. inversion Ht. subst.
    pose proof (csl_deliver_just s s' T G L Am A _ _ _ H) as Cj. cbn beta iota in Cj. rewrite Es, Ec. exact Cj.
  - intros r ks H0. destruct (Hs _ H0) as [B | B]; auto. subst e. right. rewrite Em. eapply csl_send_just; eauto.
Qed.
