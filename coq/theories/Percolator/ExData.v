(* Percolator/ExData.v — the example traces used by the non-vacuity Examples of Props.v (data only, nothing is proved here) *)
From Verif Require Export Percolator.System.
From Coq Require Import NArith List.
Import ListNotations.
Local Open Scope N_scope.

Definition S0 : N := 262144.   (* start ts, physical 1 ms *)
Definition happy_prefix : list event :=
  [ ETso S0; EBegin 1 S0; ETso (S0 + 1); ECommitCall S0 false; EMutations S0 10 [(10, OpPut); (11, OpDel)];
    EPwSend 1 S0 10 [10] false false (S0 + 1) 0 []; EPwSend 1 S0 10 [11] false false (S0 + 1) 0 [];
    EPwDeliver 1 S0 [11] (PwOk 0 0); EPwDeliver 1 S0 [10] (PwOk 0 0);
    EPwReply 1 S0 [10] (PwOk 0 0); EPwReply 1 S0 [11] (PwOk 0 0); ETso (S0 + 2) ].
Definition happy : list event :=
  happy_prefix ++
  [ ECmSend 1 S0 (S0 + 2) [10]; ECmDeliver 1 S0 (S0 + 2) [10] CmOk; ECmReply 1 S0 (S0 + 2) [10] CmOk; ETold S0 TOk;
    ECmSend 1 S0 (S0 + 2) [11]; ECmDeliver 1 S0 (S0 + 2) [11] CmOk; ECmReply 1 S0 (S0 + 2) [11] CmOk ].
Definition async_happy : list event :=
  [ ETso S0; EBegin 1 S0; ECommitCall S0 false; ETso (S0 + 1); EMutations S0 10 [(10, OpPut); (11, OpPut)];
    EPwSend 1 S0 10 [10] true false (S0 + 2) 0 [11]; EPwSend 1 S0 10 [11] true false (S0 + 2) 0 [];
    EPwDeliver 1 S0 [10] (PwOk (S0 + 3) 0); EPwDeliver 1 S0 [11] (PwOk (S0 + 4) 0);
    EPwReply 1 S0 [10] (PwOk (S0 + 3) 0); EPwReply 1 S0 [11] (PwOk (S0 + 4) 0); ETold S0 TOk;
    ECmSend 1 S0 (S0 + 4) [11]; ECmDeliver 1 S0 (S0 + 4) [11] CmOk ].
Definition onepc_happy : list event :=
  [ ETso S0; EBegin 1 S0; ECommitCall S0 false; ETso (S0 + 1); EMutations S0 10 [(10, OpPut); (11, OpPut)];
    EPwSend 1 S0 10 [10; 11] true true (S0 + 2) 0 [11]; EPwDeliver 1 S0 [10; 11] (PwOk 0 (S0 + 3));
    EPwReply 1 S0 [10; 11] (PwOk 0 (S0 + 3)); ETold S0 TOk ].
Definition async1pc_resplit : list event :=
  [ ETso S0; EBegin 1 S0; ECommitCall S0 false; ETso (S0 + 1); EMutations S0 10 [(10, OpPut); (11, OpPut)];
    EPwSend 1 S0 10 [10; 11] true true (S0 + 2) 0 [11]; EPwDeliver 1 S0 [10; 11] PwRegion; EPwReply 1 S0 [10; 11] PwRegion;
    EPwSend 1 S0 10 [11] true false (S0 + 2) 0 []; EPwSend 1 S0 10 [10] true false (S0 + 2) 0 [11];
    EPwDeliver 1 S0 [11] (PwOk (S0 + 3) 0); EPwReply 1 S0 [11] (PwOk (S0 + 3) 0);
    EPwDeliver 1 S0 [10] (PwOk (S0 + 4) 0); EPwReply 1 S0 [10] (PwOk (S0 + 4) 0); ETold S0 TOk;
    ECmSend 1 S0 (S0 + 4) [11]; ECmDeliver 1 S0 (S0 + 4) [11] CmOk ].
