(* Percolator/Event.v — the event vocabulary of docs/PERC_EVENTS.md as an inductive type,
   result types, and boolean equalities. Keys, timestamps and client ids are N. *)
From Coq Require Export List NArith Lia Bool.
Export ListNotations.
Open Scope N_scope.

(* abstract per-(transaction,key) store state; justified by the C12 theorems of the Mvcc model:
   one outcome per key, commit/rollback records never change, late prewrite rejected. *)
Inductive kstate := Unlocked | Locked (m : N) | Committed (c : N) | RolledBack.

Inductive op := OpPut | OpDel | OpLock | OpIns | OpCne.

(* prewrite result: ok:M:O / key error (kind code) / region error *)
Inductive pw_res := PwOk (m o : N) | PwErr (kind : N) | PwRegion.
(* commit result: ok / expired:M / notfound|rolledback / other key error / region error *)
Inductive cm_res := CmOk | CmExpired (m : N) | CmGone | CmErr | CmRegion.
Inductive rb_res := RbOk | RbCommitted | RbErr | RbRegion.
Inductive g_res := GOk | GErr | GRegion.
Inductive cts_st :=
| StLocked (ttl m : N) (async : bool) (secs : list N)
| StCommitted (c : N)
| StRolledBack                 (* ttl 0, commit 0, action NoAction / LockNotExistRollback / TTLExpireRollback *)
| StNoInfo                     (* ttl 0, commit 0, any other action (pessimistic rollback, do-nothing) *)
| StNotFound | StRegion | StErr.
Inductive csl_st := CslLocks (l : list (N * N)) | CslCommit (c : N) | CslRegion.
Inductive told_res := TOk | TUndet | TErr.

Definition maxts : N := 18446744073709551615.

Inductive event :=
| ETso (t : N)
| EBegin (r s : N)
| ECommitCall (s : N) (causal : bool)
| EMutations (s p : N) (ms : list (N * op))
| EPwSend (r s p : N) (ks : list N) (async onepc : bool) (m f : N) (secs : list N)
| EPwDeliver (r s : N) (ks : list N) (res : pw_res)
| EPwReply (r s : N) (ks : list N) (res : pw_res)
| ECmSend (r s c : N) (ks : list N)
| ECmDeliver (r s c : N) (ks : list N) (res : cm_res)
| ECmReply (r s c : N) (ks : list N) (res : cm_res)
| ERbSend (r s : N) (ks : list N)
| ERbDeliver (r s : N) (ks : list N) (res : rb_res)
| ERbReply (r s : N) (ks : list N) (res : rb_res)
| EPlSend (r s p f : N) (ks : list N)
| EPlDeliver (r s f : N) (ks : list N) (res : g_res)
| EPlReply (r s f : N) (ks : list N) (res : g_res)
| EPrSend (r s f : N) (ks : list N)
| EPrDeliver (r s f : N) (ks : list N) (res : g_res)
| EPrReply (r s f : N) (ks : list N) (res : g_res)
| ECtsSend (r s p caller cur : N) (rbine force respess : bool)
| ECtsDeliver (r s p : N) (st : cts_st)
| ECtsReply (r s p : N) (st : cts_st)
| ECslSend (r s : N) (ks : list N)
| ECslDeliver (r s : N) (ks : list N) (st : csl_st)
| ECslReply (r s : N) (ks : list N) (st : csl_st)
| ERsSend (r s c : N) (ks : list N)
| ERsDeliver (r s c : N) (ks : list N) (res : g_res)
| ERsReply (r s c : N) (ks : list N) (res : g_res)
| EHbSend (r s p ttl : N)
| EHbDeliver (r s p : N) (ok : bool) (ttl : N)
| ELockSeen (r s ttl : N)
| ETold (s : N) (res : told_res)
| ERollbackTold (s : N)
| ECrash (r : N)
| EGcBegin (r sp : N)
| EGcEnd (r : N).

(* ---- small boolean helpers ---- *)
Definition mem (k : N) (l : list N) : bool := existsb (N.eqb k) l.
Definition subset (a b : list N) : bool := forallb (fun k => mem k b) a.
Fixpoint leqb (a b : list N) : bool :=
  match a, b with
  | [], [] => true
  | x :: a', y :: b' => (x =? y) && leqb a' b'
  | _, _ => false
  end.
Fixpoint lpeqb (a b : list (N * N)) : bool :=
  match a, b with
  | [], [] => true
  | (x1, x2) :: a', (y1, y2) :: b' => (x1 =? y1) && (x2 =? y2) && lpeqb a' b'
  | _, _ => false
  end.

Definition pw_res_eqb (a b : pw_res) : bool :=
  match a, b with
  | PwOk m o, PwOk m' o' => (m =? m') && (o =? o')
  | PwErr k, PwErr k' => k =? k'
  | PwRegion, PwRegion => true
  | _, _ => false
  end.
Definition cm_res_eqb (a b : cm_res) : bool :=
  match a, b with
  | CmOk, CmOk | CmGone, CmGone | CmErr, CmErr | CmRegion, CmRegion => true
  | CmExpired m, CmExpired m' => m =? m'
  | _, _ => false
  end.
Definition rb_res_eqb (a b : rb_res) : bool :=
  match a, b with
  | RbOk, RbOk | RbCommitted, RbCommitted | RbErr, RbErr | RbRegion, RbRegion => true
  | _, _ => false
  end.
Definition g_res_eqb (a b : g_res) : bool :=
  match a, b with GOk, GOk | GErr, GErr | GRegion, GRegion => true | _, _ => false end.
Definition cts_st_eqb (a b : cts_st) : bool :=
  match a, b with
  | StLocked t m a s, StLocked t' m' a' s' => (t =? t') && (m =? m') && Bool.eqb a a' && leqb s s'
  | StCommitted c, StCommitted c' => c =? c'
  | StRolledBack, StRolledBack | StNoInfo, StNoInfo | StNotFound, StNotFound
  | StRegion, StRegion | StErr, StErr => true
  | _, _ => false
  end.
Definition csl_st_eqb (a b : csl_st) : bool :=
  match a, b with
  | CslLocks l, CslLocks l' => lpeqb l l'
  | CslCommit c, CslCommit c' => c =? c'
  | CslRegion, CslRegion => true
  | _, _ => false
  end.

(* equality on the reply events (the only ones stored for matching); false elsewhere *)
Definition reply_eqb (a b : event) : bool :=
  match a, b with
  | EPwReply r s ks x, EPwReply r' s' ks' x' => (r =? r') && (s =? s') && leqb ks ks' && pw_res_eqb x x'
  | ECmReply r s c ks x, ECmReply r' s' c' ks' x' => (r =? r') && (s =? s') && (c =? c') && leqb ks ks' && cm_res_eqb x x'
  | ERbReply r s ks x, ERbReply r' s' ks' x' => (r =? r') && (s =? s') && leqb ks ks' && rb_res_eqb x x'
  | EPlReply r s f ks x, EPlReply r' s' f' ks' x' => (r =? r') && (s =? s') && (f =? f') && leqb ks ks' && g_res_eqb x x'
  | EPrReply r s f ks x, EPrReply r' s' f' ks' x' => (r =? r') && (s =? s') && (f =? f') && leqb ks ks' && g_res_eqb x x'
  | ECtsReply r s p x, ECtsReply r' s' p' x' => (r =? r') && (s =? s') && (p =? p') && cts_st_eqb x x'
  | ECslReply r s ks x, ECslReply r' s' ks' x' => (r =? r') && (s =? s') && leqb ks ks' && csl_st_eqb x x'
  | ERsReply r s c ks x, ERsReply r' s' c' ks' x' => (r =? r') && (s =? s') && (c =? c') && leqb ks ks' && g_res_eqb x x'
  | _, _ => false
  end.

Lemma leqb_eq : forall a b, leqb a b = true -> a = b.
Proof.
  induction a as [|x a IH]; destruct b as [|y b]; cbn [leqb]; intros H; try discriminate; auto.
  apply andb_true_iff in H. destruct H as [H1 H2]. apply N.eqb_eq in H1. f_equal; auto.
Qed.
Lemma leqb_refl : forall a, leqb a a = true.
Proof. induction a; cbn [leqb]; auto. rewrite N.eqb_refl. auto. Qed.
Lemma lpeqb_eq : forall a b, lpeqb a b = true -> a = b.
Proof.
  induction a as [|[x1 x2] a IH]; destruct b as [|[y1 y2] b]; cbn [lpeqb]; intros H; try discriminate; auto.
  apply andb_true_iff in H. destruct H as [H H3]. apply andb_true_iff in H. destruct H as [H1 H2].
  apply N.eqb_eq in H1. apply N.eqb_eq in H2. subst. f_equal; auto.
Qed.
Lemma mem_In : forall k l, mem k l = true <-> In k l.
Proof.
  unfold mem. intros k l. rewrite existsb_exists. split.
  - intros [x [H1 H2]]. apply N.eqb_eq in H2. subst. auto.
  - intros H. exists k. split; auto. apply N.eqb_refl.
Qed.
Lemma subset_In : forall a b, subset a b = true -> forall k, In k a -> In k b.
Proof. unfold subset. intros a b H k Hk. rewrite forallb_forall in H. apply mem_In. auto. Qed.
