(* Percolator/OwnA.v — preservation of the invariants of T by T's own send / reply / told events
   (the abstract store does not change). *)
From Verif Require Export Percolator.Upd.

Ltac same_k := apply kmono_same; reflexivity.
Ltac classic_back Hc' :=
  let A := fresh in let B := fresh in let D := fresh in
  destruct Hc' as [A [B D]]; unf2; rd; repeat split; auto; try discriminate; try congruence.
Ltac prep := intros; unf2; rd.
Ltac useG G := destruct G; unf2; insplit; fin2.
Ltac useGI G I := destruct I; destruct G; unf2; insplit; fin2.
Ltac sc := rd; intros; try reflexivity; try assumption; try discriminate; try lia; auto.
Ltac t_some_rb s := try match goal with |- some_rb _ _ => apply (some_rb_mono s); [same_k | rd; reflexivity | eauto] end.
Ltac t_Dn s := try match goal with |- Dn _ _ => apply (Dn_mono s); [same_k | sc | sc | sc | eauto] end.
Ltac t_Dd s := try match goal with |- Dd _ _ => apply (Dd_mono s); [same_k | sc | sc | sc | sc | sc | eauto] end.

Lemma own_cm_send : forall s s' r T C ks, invT s T -> stepr s (ECmSend r T C ks) = Ok s' -> invT s' T.
Proof.
  intros s s' r T C ks [G I] H. cbn [stepr] in H. unfold step_cm_send in H. chks H.
  destruct (fb (getc s T) FHasm) eqn:Hh; chks H.
  - assert (Hm : hasm s T) by (unf2; apply fb_true in Hh; auto).
    assert (HD0 : cn (getc s T) FDead = 0) by (b2p; auto).
    destruct (mem (cn (getc s T) FPrim) ks) eqn:Hp; chks H; okinv H.
    + split.
      * constructor; prep; useG G.
      * intros Hh' Hc'. assert (Hc : classic s T) by (classic_back Hc').
        specialize (I Hm Hc). destruct I. constructor; prep; useG G.
        all: try (eapply subset_In; eauto; fail).
        all: try (split; [intros k Hk; eapply subset_In; eauto | intros Hn; apply mem_In in Hp; contradiction]).
        all: t_some_rb s.
        all: try match goal with Hx : In (ERbSend _ _ _) _ |- Dn _ _ => destruct (t_rb_sent _ _ Hx) as [A _]; unf2; congruence end.
        all: try match goal with Hx : _ = 3 |- Dn _ _ => destruct (t_told_err Hx) as [A _]; unf2; congruence end.
        all: try match goal with |- Dd _ _ => apply (Dd_mono s); try same_k; rd; try reflexivity; try congruence; eauto end.
    + apply mem_false in Hp. split.
      * constructor; prep; useG G.
      * intros Hh' Hc'. assert (Hc : classic s T) by (classic_back Hc').
        specialize (I Hm Hc). destruct I. constructor; prep; useG G.
        all: t_some_rb s; t_Dn s; t_Dd s.
        split; [intros k Hk; eapply subset_In; eauto |]. intros _.
        match goal with Hx : (cn _ FPcOk =? _) || async_kept _ = true |- _ =>
          apply orb_true_iff in Hx; destruct Hx as [C7' | C7'] end.
        -- b2p. rewrite <- C7'. apply t_pcok. lia.
        -- unfold async_kept in C7'. b2p. destruct Hc as [A _]. unf2. congruence.
  - okinv H. apply fb_false in Hh. split.
    + constructor; prep; useG G.
    + intros Hh'. unf2. rd. congruence.
Qed.

Lemma own_cm_reply : forall s s' r T C ks x, invT s T -> stepr s (ECmReply r T C ks x) = Ok s' -> invT s' T.
Proof.
  intros s s' r T C ks x [G I] H. cbn [stepr] in H. unfold step_cm_reply in H. chks H.
  destruct (has_prim (getc s T) ks) eqn:HP; [| okinv H; split; auto].
  unfold has_prim in HP. apply delivered_In in C1. b2p.
  assert (Hm : hasm s T) by (unf2; auto).
  destruct x; chks H; okinv H; b2p; rd.
  all: split; [constructor; prep; useG G; try tauto |].
  all: intros Hh' Hc'; assert (Hc : classic s T) by (classic_back Hc');
    specialize (I Hm Hc); constructor; prep; useGI G I.
  all: t_some_rb s.
  all: try match goal with |- Dn _ _ => apply (Dn_mono s); [same_k | rd; reflexivity | rd; auto | rd; intros; lia | eauto] end.
  all: try match goal with |- Dd _ _ =>
    apply (Dd_mono s); [same_k | rd; reflexivity | rd; auto | rd; intros; lia | rd; reflexivity | rd; auto | eauto] end.
  all: try (eapply g_cm; eauto; fail).
  all: try (apply (some_rb_mono s); [same_k | rd; reflexivity |]; eapply t_gone; eauto).
Qed.


Lemma neg_ok_Dn : forall s T s', tinv s T -> neg_ok (getc s T) = true ->
  (forall k, kget s' T k = kget s T k) ->
  c_lm (getc s' T) = c_lm (getc s T) -> cn (getc s' T) FDead <> 0 ->
  cn (getc s' T) FPcNeg = cn (getc s T) FPcNeg -> cn (getc s' T) FPcSent = cn (getc s T) FPcSent -> Dn s' T.
Proof.
  intros s T s' I Hn K L D N1 N2. unfold neg_ok in Hn. b2p. unfold Dn, F. split; auto.
  apply orb_true_iff in Hn0. destruct Hn0 as [Hn0 | Hn0]; b2p.
  - left. congruence.
  - right. destruct (t_rbflag _ _ I Hn0) as [k [H1 H2]]. exists k. unfold lm. rewrite L. split; auto. rewrite K. auto.
Qed.

Ltac t_negok s T I' :=
  try match goal with |- Dn _ _ =>
    solve [apply (neg_ok_Dn s T); [exact I' | assumption | reflexivity | rd; reflexivity | rd; discriminate | rd; reflexivity | rd; reflexivity]] end.

Lemma own_rb_send : forall s s' r T ks, invT s T -> stepr s (ERbSend r T ks) = Ok s' -> invT s' T.
Proof.
  intros s s' r T ks [G I] H. cbn [stepr] in H. unfold step_rb_send in H. chks H. okinv H.
  apply andb_true_iff in C0. destruct C0 as [C0 C0e].
  split; [constructor; prep; useG G |].
  intros Hh' Hc'. assert (Hm : hasm s T) by (unf2; rd; auto). assert (Hc : classic s T) by (classic_back Hc').
  specialize (I Hm Hc). pose proof I as I'. constructor; prep; useGI G I.
  all: t_some_rb s; t_negok s T I'; t_Dn s; t_Dd s.
  all: try discriminate.
Qed.


Lemma own_told : forall s s' T x, invT s T -> stepr s (ETold T x) = Ok s' -> invT s' T.
Proof.
  intros s s' T x [G I] H. cbn [stepr] in H. unfold step_told in H. chks H. b2p.
  destruct x; chks H; okinv H; b2p.
  all: split; [constructor; prep; useG G; try (exfalso; lia) |].
  all: intros Hh' Hc'; assert (Hm : hasm s T) by (unf2; rd; auto); assert (Hc : classic s T) by (classic_back Hc');
    specialize (I Hm Hc); pose proof I as I'; pose proof G as G'; constructor; prep; useGI G I.
  all: t_some_rb s; t_negok s T I'; t_Dn s; t_Dd s.
  all: try discriminate; try lia.
  (* told ok: the primary is committed *)
  match goal with Hx : negb (cn _ FPcOk =? 0) || _ || _ || _ = true |- _ => rename Hx into CR end.
    apply orb_true_iff in CR. destruct CR as [CR | CD]; [| exfalso; b2p; unf2; congruence].
    apply orb_true_iff in CR. destruct CR as [CR | CR]; [apply orb_true_iff in CR; destruct CR as [CR | CR] |]; b2p.
  - eexists. apply t_pcok. auto.
  - exfalso. destruct Hc as [_ [B _]]. unf2. apply g_1pcts in CR. congruence.
  - exfalso. unfold async_kept in CR. b2p. destruct Hc as [A _]. unf2. congruence.
Qed.
