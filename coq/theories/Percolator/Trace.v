(* Percolator/Trace.v — automaton-independent trace predicates (rules of docs/PERC_EVENTS.md as
   first-order statements over the whole event list).  Imports only Event.v.
   "e occurs with history pre" is written  evs = pre ++ e :: post. *)
From Verif Require Import Percolator.Event.

Definition has_muts (pre : list event) (s p : N) (ms : list (N * op)) : Prop :=
  In (EMutations s p ms) pre.
Definition lock_keys_of (ms : list (N * op)) : list N :=
  map fst (filter (fun ko => match snd ko with OpCne => false | _ => true end) ms).

Fixpoint count_if (f : event -> bool) (l : list event) : nat :=
  match l with
  | [] => 0%nat
  | e :: r => ((if f e then 1 else 0) + count_if f r)%nat
  end.

Definition is_cmok (x : cm_res) : bool := match x with CmOk => true | _ => false end.
(* commit request of s containing the primary p / its replies / its negative replies *)
Definition is_pc_send (s p : N) (e : event) : bool :=
  match e with ECmSend _ s' _ ks => (s' =? s) && mem p ks | _ => false end.
Definition is_pc_reply (s p : N) (e : event) : bool :=
  match e with ECmReply _ s' _ ks _ => (s' =? s) && mem p ks | _ => false end.
Definition is_pc_neg (s p : N) (e : event) : bool :=
  match e with ECmReply _ s' _ ks x => (s' =? s) && mem p ks && negb (is_cmok x) | _ => false end.
Definition is_pw_send (s : N) (e : event) : bool :=
  match e with EPwSend _ s' _ _ _ _ _ _ _ => s' =? s | _ => false end.
Definition is_pw_reply (s : N) (e : event) : bool :=
  match e with EPwReply _ s' _ _ => s' =? s | _ => false end.
(* per-key prewrite accounting: requests of s whose key list contains k / negative replies (key error
   or region error) of s whose key list contains k *)
Definition is_pwneg (x : pw_res) : bool := match x with PwOk _ _ => false | _ => true end.
Definition is_pw_send_k (s k : N) (e : event) : bool :=
  match e with EPwSend _ s' _ ks _ _ _ _ _ => (s' =? s) && mem k ks | _ => false end.
Definition is_pw_negreply_k (s k : N) (e : event) : bool :=
  match e with EPwReply _ s' ks x => (s' =? s) && mem k ks && is_pwneg x | _ => false end.
(* the same with multiplicity (a key list may mention k several times) *)
Fixpoint occ (k : N) (ks : list N) : nat :=
  match ks with [] => 0%nat | x :: r => ((if x =? k then 1 else 0) + occ k r)%nat end.
Fixpoint sum_of (w : event -> nat) (l : list event) : nat :=
  match l with [] => 0%nat | e :: r => (w e + sum_of w r)%nat end.
Definition pw_send_occ (s k : N) (e : event) : nat :=
  match e with EPwSend _ s' _ ks _ _ _ _ _ => if s' =? s then occ k ks else 0%nat | _ => 0%nat end.
Definition pw_negreply_occ (s k : N) (e : event) : nat :=
  match e with EPwReply _ s' ks x => if (s' =? s) && is_pwneg x then occ k ks else 0%nat | _ => 0%nat end.

(* 1 *)
Definition commit_after_all_prewrites (evs : list event) : Prop :=
  forall pre post r s c ks p ms, evs = pre ++ ECmSend r s c ks :: post ->
    In (EMutations s p ms) pre ->
    forall k, In k (lock_keys_of ms) ->
      exists r' ks' m o, In (EPwReply r' s ks' (PwOk m o)) pre /\ In k ks'.

(* 2 *)
Definition secondaries_after_primary (evs : list event) : Prop :=
  forall pre post r s c ks p ms, evs = pre ++ ECmSend r s c ks :: post ->
    In (EMutations s p ms) pre -> ~ In p ks ->
    (exists r' ks', In (ECmReply r' s c ks' CmOk) pre /\ In p ks') \/
    (exists r' p' ks' o m f secs, In (EPwSend r' s p' ks' true o m f secs) pre).

(* 3 *)
Definition no_rollback_after_possible_commit (evs : list event) : Prop :=
  (forall pre post r s ks p ms, evs = pre ++ ERbSend r s ks :: post ->
     In (EMutations s p ms) pre ->
     (forall r' c' ks', In (ECmReply r' s c' ks' CmOk) pre -> ~ In p ks') /\
     (count_if (is_pc_send s p) pre = count_if (is_pc_neg s p) pre \/
      exists r' c' ks', In (ECmReply r' s c' ks' CmGone) pre /\ In p ks')) /\
  (forall pre post r s c ks p ms, evs = pre ++ ECmSend r s c ks :: post ->
     In (EMutations s p ms) pre -> forall r' ks', ~ In (ERbSend r' s ks') pre).

(* 4 — fourth disjunct (async route) differs from the first draft: System.csl_all_locked accepts a
   resolve justified by a CheckTxnStatus reply "locked, async, secs" plus CheckSecondaryLocks replies
   for every listed secondary; with secs = [] no csl_reply is needed at all.  The third disjunct
   (CheckSecondaryLocks answered with a commit ts) also needs the async primary lock reported to r. *)
Definition resolve_uses_reported_status (evs : list event) : Prop :=
  forall pre post r s c ks, evs = pre ++ ERsSend r s c ks :: post ->
    (c <> 0 /\ exists p, In (ECtsReply r s p (StCommitted c)) pre) \/
    (c = 0 /\ exists p, In (ECtsReply r s p StRolledBack) pre) \/
    ((exists ks', In (ECslReply r s ks' (CslCommit c)) pre) /\
     (exists p ttl m secs, In (ECtsReply r s p (StLocked ttl m true secs)) pre)) \/
    (exists p ttl m secs, In (ECtsReply r s p (StLocked ttl m true secs)) pre /\ m <= c /\
       forall k, In k secs ->
         exists ks' l m', In (ECslReply r s ks' (CslLocks l)) pre /\ In (k, m') l /\ m' <= c /\ m' <> 0).

(* 5 — the tso bound is stated for the LAST commit_call of s before the send (System keeps the
   causal flag / watermark of the latest commit_call only). *)
Definition commit_ts_bounds (evs : list event) : Prop :=
  forall pre post r s c ks p ms, evs = pre ++ ECmSend r s c ks :: post ->
    In (EMutations s p ms) pre ->
    s < c /\
    (* every min-commit ts returned for a request that locks something (a request holding only
       CheckNotExists keys writes no lock: resolvers never see its answer) *)
    (forall r' ks' m o, In (EPwReply r' s ks' (PwOk m o)) pre ->
       (exists k, In k ks' /\ In k (lock_keys_of ms)) -> m <= c) /\
    (forall pre1 pre2, pre = pre1 ++ ECommitCall s false :: pre2 ->
       (forall cz, ~ In (ECommitCall s cz) pre2) ->
       forall t, In (ETso t) pre1 -> t < c) /\
    (* async commit kept (every prewrite request async and not 1PC, no reply with min-commit 0):
       the commit ts is exactly the maximum of the returned min-commit ts *)
    ((forall r' p' ks' a o m f secs, In (EPwSend r' s p' ks' a o m f secs) pre -> a = true /\ o = false) ->
     (forall r' ks' o, ~ In (EPwReply r' s ks' (PwOk 0 o)) pre) ->
     exists r' ks' o, In (EPwReply r' s ks' (PwOk c o)) pre).

(* 6 (rule 4) *)
Definition expire_only_expired (evs : list event) : Prop :=
  forall pre post r s p caller cur rbine force respess,
    evs = pre ++ ECtsSend r s p caller cur rbine force respess :: post ->
    (cur = maxts \/ rbine = true) ->
    (exists ttl, In (ELockSeen r s ttl) pre /\
       (ttl = 0 \/ exists t, In (ETso t) pre /\ (s / 262144) + ttl <= t / 262144)) \/
    (exists sp, In (EGcBegin r sp) pre /\ s <= sp).

(* 7 (rule 7, ok part) *)
Definition told_ok_after_commit (evs : list event) : Prop :=
  forall pre post s p ms, evs = pre ++ ETold s TOk :: post ->
    In (EMutations s p ms) pre ->
    (exists r c ks, In (ECmReply r s c ks CmOk) pre /\ In p ks) \/
    (exists r ks m o, In (EPwReply r s ks (PwOk m o)) pre /\ o <> 0) \/
    (* async commit in force: every prewrite request asked for it, no answer declined it (min-commit 0),
       every locked mutation has a successful answer *)
    ((exists r' p' ks' o m f secs, In (EPwSend r' s p' ks' true o m f secs) pre) /\
     (forall r' p' ks' a o m f secs, In (EPwSend r' s p' ks' a o m f secs) pre -> a = true) /\
     (forall r' ks' o, ~ In (EPwReply r' s ks' (PwOk 0 o)) pre) /\
     (forall k, In k (lock_keys_of ms) -> exists r' ks' m o, In (EPwReply r' s ks' (PwOk m o)) pre /\ In k ks')).

(* 8 (C03) *)
Definition undetermined_only_if (evs : list event) : Prop :=
  forall pre post s p ms, evs = pre ++ ETold s TUndet :: post ->
    In (EMutations s p ms) pre ->
    (count_if (is_pc_reply s p) pre < count_if (is_pc_send s p) pre)%nat \/
    ((exists r p' ks a o m f secs, In (EPwSend r s p' ks a o m f secs) pre /\ (a = true \/ o = true)) /\
     (count_if (is_pw_reply s) pre < count_if (is_pw_send s) pre)%nat).

(* 9 (rule 7, definite error).  (c): while async commit / 1PC is in force a successful prewrite is a
   commit point, so "error" needs a locked mutation that can never be locked any more: every request sent
   for it was answered negatively.  [told_err_only_if] counts requests/replies whose key list
   contains k, for duplicate-free key lists; [told_err_only_if_occ] counts with multiplicity and
   needs no such premise (System.v counts once per occurrence). *)
(* async commit or 1PC still in force as far as the owner can tell: every prewrite request asked for
   async commit (and none for 1PC) and no answer reported min-commit 0; or every request asked for 1PC
   and no answer reported "not committed in one phase".  (After a fallback the owner is a plain 2PC
   committer: part (c) does not apply, see System.cp_active.) *)
Definition commit_point_in_force (pre : list event) (s : N) : Prop :=
  (exists r p' ks a o m f secs, In (EPwSend r s p' ks a o m f secs) pre) /\
  (((forall r p' ks a o m f secs, In (EPwSend r s p' ks a o m f secs) pre -> a = true /\ o = false) /\
    (forall r ks o, ~ In (EPwReply r s ks (PwOk 0 o)) pre)) \/
   ((forall r p' ks a o m f secs, In (EPwSend r s p' ks a o m f secs) pre -> o = true) /\
    (forall r ks m, ~ In (EPwReply r s ks (PwOk m 0)) pre))).
Definition told_err_only_if (evs : list event) : Prop :=
  forall pre post s p ms, evs = pre ++ ETold s TErr :: post ->
    In (EMutations s p ms) pre ->
    (forall r c ks, In (ECmReply r s c ks CmOk) pre -> ~ In p ks) /\
    (count_if (is_pc_send s p) pre = count_if (is_pc_neg s p) pre \/
     exists r c ks, In (ECmReply r s c ks CmGone) pre /\ In p ks) /\
    (commit_point_in_force pre s ->
     (forall r p' ks a o m f secs, In (EPwSend r s p' ks a o m f secs) pre -> NoDup ks) ->
     exists k, In k (lock_keys_of ms) /\
       count_if (is_pw_send_k s k) pre = count_if (is_pw_negreply_k s k) pre).
Definition told_err_only_if_occ (evs : list event) : Prop :=
  forall pre post s p ms, evs = pre ++ ETold s TErr :: post ->
    In (EMutations s p ms) pre ->
    commit_point_in_force pre s ->
    exists k, In k (lock_keys_of ms) /\
      sum_of (pw_send_occ s k) pre = sum_of (pw_negreply_occ s k) pre.

(* 10 (rule 3): CheckSecondaryLocks is only sent for secondaries listed in an async primary lock
   that was reported to r *)
Definition csl_only_listed (evs : list event) : Prop :=
  forall pre post r s ks, evs = pre ++ ECslSend r s ks :: post ->
    exists p ttl m secs, In (ECtsReply r s p (StLocked ttl m true secs)) pre /\
      forall k, In k ks -> In k secs.

(* 11 (rule 3, nonAsyncCommitLock): a forced (force_sync_commit) CheckTxnStatus only after CheckSecondaryLocks
   reported to r a lock of s that is not an async-commit lock (reported min-commit 0) *)
Definition force_only_after_nonasync (evs : list event) : Prop :=
  forall pre post r s p caller cur rbine respess, evs = pre ++ ECtsSend r s p caller cur rbine true respess :: post ->
    exists ks l k, In (ECslReply r s ks (CslLocks l)) pre /\ In (k, 0) l.
