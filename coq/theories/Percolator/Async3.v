(* Percolator/Async3.v — how the quiet events move the keys of an async-commit transaction (jstep). *)
From Verif Require Export Percolator.Async2.

Definition kchange (e : event) : bool :=
  match e with
  | EPwDeliver _ _ _ _ | ECmDeliver _ _ _ _ _ | ERbDeliver _ _ _ _ | ECtsDeliver _ _ _ _ | ECslDeliver _ _ _ _
  | ERsDeliver _ _ _ _ _ => true
  | _ => false
  end.
Lemma stepr_kst_same : forall s e s', kchange e = false -> stepr s e = Ok s' -> s_kst s' = s_kst s.
Proof.
  intros s e s' Hk H. destruct_event e; cbn [kchange] in Hk; try discriminate Hk; cbn [stepr] in H;
    unfold step_pw_send, step_pw_reply, step_cm_send, step_cm_reply, step_rb_send, step_cts_send, step_rs_send, step_hb_send,
           step_told, plain_send, plain_reply in H; chks H.
  all: repeat match type of H with
              | (match ?d with _ => _ end) = Ok _ => destruct d eqn:?; chks H; try discriminate H
              | (if ?d then _ else _) = Ok _ => destruct d eqn:?; chks H; try discriminate H
              end.
  all: okinv H; reflexivity.
Qed.
Lemma kget_of_kst : forall s s' T k, s_kst s' = s_kst s -> kget s' T k = kget s T k.
Proof. intros. unfold kget. rewrite H. auto. Qed.

Lemma jstep_same : forall s s' T k, kget s' T k = kget s T k -> jstep s s' T k.
Proof. intros. left. auto. Qed.

Section JS.
  Variables (s s' : sys) (T : N).
  Hypothesis G : ginv s T.
  Hypothesis L : linv s T.
  Hypothesis Hm : hasm s T.
  Hypothesis A : ainv s T.

  (* what a resolve with commit ts C may do to a lock *)
  Lemma rs_just : forall C j, In (T, C, j) (s_rs s) -> (C <> 0 -> Sealed s T /\ C = cstar s T) /\ (C = 0 -> NSa s T).
  Proof.
    intros C j H. destruct j as [p |]; [| apply (a_rsa _ _ A); auto].
    pose proof (a_rsk _ _ A _ _ H) as ->. pose proof (g_rs _ _ G _ _ H) as E. unfold alt_of in E. split; intros HC.
    - apply N.eqb_neq in HC. rewrite HC in E. apply (a_commit _ _ A _ _ E).
    - subst C. cbn in E. eapply (a_rb _ _ A); eauto. apply (l_prim _ _ L Hm).
  Qed.

  Lemma jstep_cm_deliver : forall r C ks x, stepr s (ECmDeliver r T C ks x) = Ok s' -> forall k, jstep s s' T k.
  Proof.
    intros r C ks x H k. cbn [stepr] in H. unfold step_cm_deliver in H. chks H.
    apply sent_by_In in C0. destruct C0 as [e0 [Ce1 Ce2]]. destruct e0; try discriminate. beq. subst.
    destruct (a_cmsent _ _ A _ _ _ Ce1) as [S1 S2].
    destruct x; chks H.
    - destruct (step_keys _ _ _ _) as [s2 |] eqn:E; try discriminate.
      pose proof (step_keys_char _ _ _ _ _ _ (tr_cm_ok C) (tr_cm_idem C) (tr_cm_total C) E k) as Ch.
      assert (Kk : kget s' T k = kget s2 T k) by (destruct (has_prim (getc s T) ks); okinv H; reflexivity).
      rewrite <- Kk in Ch. destruct Ch as [[_ Ch] | [_ Ch]]; [| left; exact Ch]. change (kget (add_dlv s _) T k) with (kget s T k) in Ch.
      destruct (kget s T k) eqn:Ek; cbn in Ch; try discriminate.
      + inversion Ch. right. right. left. exists m, C. repeat split; auto; congruence.
      + destruct (c =? C); inversion Ch. left. congruence.
    - destruct (step_keys _ _ _ _) as [s2 |] eqn:E; try discriminate.
      pose proof (step_keys_char _ _ _ _ _ _ (tr_push_ok m) (tr_push_idem m) (tr_push_total m) E k) as Ch.
      assert (Kk : kget s' T k = kget s2 T k) by (destruct (has_prim (getc s T) ks); okinv H; reflexivity).
      rewrite <- Kk in Ch. destruct Ch as [[_ Ch] | [_ Ch]]; [| left; exact Ch]. change (kget (add_dlv s _) T k) with (kget s T k) in Ch.
      unfold tr_push in Ch. inversion Ch. left. congruence.
    - destruct (has_prim (getc s T) ks); okinv H; left; reflexivity.
    - destruct (has_prim (getc s T) ks); okinv H; left; reflexivity.
    - destruct (has_prim (getc s T) ks); okinv H; left; reflexivity.
  Qed.

  Lemma jstep_rb_deliver : forall r ks x, stepr s (ERbDeliver r T ks x) = Ok s' -> forall k, jstep s s' T k.
  Proof.
    intros r ks x H k. cbn [stepr] in H. unfold step_rb_deliver in H. chks H.
    apply sent_by_In in C. destruct C as [e0 [Ce1 Ce2]]. destruct e0; try discriminate. beq. subst.
    assert (N : NSa s T) by (apply (a_dead _ _ A); right; eauto).
    destruct x; try (okinv H; left; reflexivity).
    destruct (step_keys _ _ _ _) as [s2 |] eqn:E; try discriminate. okinv H.
    destruct (step_keys_char _ _ _ _ _ _ tr_rb_ok tr_rb_idem tr_rb_total E k) as [[_ Ch] | [_ Ch]]; [| left; exact Ch].
    change (kget (add_dlv s _) T k) with (kget s T k) in Ch.
    destruct (kget s T k) eqn:Ek; cbn in Ch; inversion Ch.
    - right. left. split; congruence.
    - right. right. right. exists m. repeat split; auto; congruence.
    - left. congruence.
  Qed.

  Lemma jstep_rs_deliver : forall r C ks x, stepr s (ERsDeliver r T C ks x) = Ok s' -> forall k, jstep s s' T k.
  Proof.
    intros r C ks x H k. cbn [stepr] in H. unfold step_rs_deliver in H. chks H.
    apply sent_by_In in C0. destruct C0 as [e0 [Ce1 Ce2]]. destruct e0; try discriminate. beq. subst.
    destruct (g_rs_sent _ _ G _ _ _ Ce1) as [j Hj]. destruct (rs_just _ _ Hj) as [J1 J2].
    destruct x; try (okinv H; left; reflexivity).
    destruct ks as [| k0 ks]; [okinv H; left; reflexivity |].
    destruct (step_keys _ _ _ _) as [s2 |] eqn:E; try discriminate. okinv H.
    destruct (step_keys_char _ _ _ _ _ _ (tr_rs_ok C) (tr_rs_idem C) (tr_rs_total C) E k) as [[_ Ch] | [_ Ch]]; [| left; exact Ch].
    change (kget (add_dlv s _) T k) with (kget s T k) in Ch.
    destruct (kget s T k) eqn:Ek; cbn in Ch; inversion Ch; try (left; congruence).
    unfold alt_of in *. destruct (C =? 0) eqn:EC.
    - apply N.eqb_eq in EC. right. right. right. exists m. repeat split; auto; congruence.
    - apply N.eqb_neq in EC. destruct (J1 EC) as [S1 S2]. right. right. left. exists m, C. repeat split; auto; congruence.
  Qed.

  Lemma jstep_csl_deliver : forall r ks st, stepr s (ECslDeliver r T ks st) = Ok s' -> forall k, jstep s s' T k.
  Proof.
    intros r ks st H k. cbn [stepr] in H. unfold step_csl_deliver in H. chks H.
    destruct st; chks H; try (okinv H; left; reflexivity).
    - destruct (step_csl_locks _ _ _) as [s2 |] eqn:E; try discriminate. okinv H.
      pose proof (step_csl_locks_kevos _ _ _ _ E T k) as Ke. change (kget (add_dlv s _) T k) with (kget s T k) in Ke.
      apply step_csl_locks_char in E. destruct E as [_ Ch]. destruct (Ch T k) as [E1 | [a [b [E1 E2]]]]; [left; exact E1 |].
      change (kget (add_dlv s _) T k) with (kget s T k) in E1. rewrite E1, E2 in Ke. apply kevo_locked in Ke. left. congruence.
    - destruct (c =? 0); chks H; [| okinv H; left; reflexivity].
      destruct (step_keys _ _ _ _) as [s2 |] eqn:E; try discriminate. okinv H.
      destruct (step_keys_char _ _ _ _ _ _ tr_csl_rb_ok tr_csl_rb_idem tr_csl_rb_total E k) as [[_ Ch] | [_ Ch]]; [| left; exact Ch].
      change (kget (add_dlv s _) T k) with (kget s T k) in Ch.
      destruct (kget s T k) eqn:Ek; cbn in Ch; inversion Ch; [right; left; split; congruence | left; congruence ..].
  Qed.
End JS.
