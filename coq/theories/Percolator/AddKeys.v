(* Percolator/AddKeys.v — the fold asyncResolveData.addKeys of txnkv/txnlock/lock_resolver.go
   (lines 1101-1173) as driven by checkAllSecondaries / checkSecondaries (lines 1175-1368).

   checkAllSecondaries creates   shared = { commitTs: primaryLock.MinCommitTs, missingLock: false }
   and lets one goroutine per region call  shared.addKeys(resp.Locks, len(keys), txnID, resp.CommitTs)
   under shared.mutex, in whatever order the CheckSecondaryLocks replies arrive.  The first error
   makes checkAllSecondaries fail (the shared data is dropped); otherwise resolveAsyncCommitLock
   uses  status.commitTS := shared.commitTs  (0 = rolled back, <> 0 = committed at that ts).

   The model is the sequential fold over the arrival order of the replies; the theorems say what
   the fold computes and how far it is independent of that order.  `keys` (the list of keys to
   resolve) is not modelled: it does not influence commitTs / missingLock / the error status. *)
From Coq Require Import Lia NArith List Bool Permutation.
Import ListNotations.
Local Open Scope N_scope.

(* One CheckSecondaryLocks reply, as addKeys sees it:
   Missing c   : len(locks) < expected, response commit ts c (0 = rolled back);
   Present ms  : every key still locked, every lock passes the per-lock checks, the locks'
                 MinCommitTs in response order are ms;
   NonAsync    : every key still locked but some lock fails a per-lock check (UseAsyncCommit =
                 false -> nonAsyncCommitLock; LockVersion <> startTS -> "unexpected timestamp").
   The Go loop checks each lock just before using its MinCommitTs, so a bad lock at position k is
   met after commitTs was raised by locks 0..k-1; since addKeys then returns an error and the
   caller discards `shared`, modelling it as a whole-reply error is observationally the same. *)
Inductive reply := Missing (commit_ts : N) | Present (min_commits : list N) | NonAsync.

Record ard := { commit_ts : N; missing : bool }.

Definition init (primary_min_commit : N) : ard :=
  {| commit_ts := primary_min_commit; missing := false |}.

(* loop body, lock_resolver.go:1166-1168 *)
Definition add_lock (a : ard) (m : N) : ard :=
  if negb (missing a) && (commit_ts a <? m)
  then {| commit_ts := m; missing := missing a |}
  else a.

(* None = addKeys returns an error *)
Definition add_keys (a : ard) (r : reply) : option ard :=
  match r with
  | Missing c =>                                                   (* :1135 *)
      if negb (missing a) && (negb (c =? 0) && (c <? commit_ts a)) (* :1138,:1140 *)
      then None                                                    (* :1141 *)
      else
        let ts := if missing a then commit_ts a else c in          (* :1143 *)
        if negb (ts =? c) then None                                (* :1147 *)
        else Some {| commit_ts := ts; missing := true |}           (* :1145,:1152 *)
  | Present ms => Some (fold_left add_lock ms a)                   (* :1157-1172 *)
  | NonAsync => None                                               (* :1164 / :1161 *)
  end.

Definition bind_step (o : option ard) (r : reply) : option ard :=
  match o with Some a => add_keys a r | None => None end.

Definition fold_replies (a : ard) (rs : list reply) : option ard :=
  fold_left bind_step rs (Some a).

(* max of m and every min-commit ts of every Present reply *)
Fixpoint max_all (m : N) (rs : list reply) : N :=
  match rs with
  | [] => m
  | Present ms :: rs' => max_all (fold_left N.max ms m) rs'
  | _ :: rs' => max_all m rs'
  end.

(* What a real store can report for one transaction: a single outcome (all "lock missing" replies
   carry the same commit ts) and, if committed, a commit ts that is >= the min-commit ts of the
   primary and of every lock that was ever observed. *)
Definition consistent (m0 : N) (rs : list reply) : Prop :=
  forall c, In (Missing c) rs ->
    (forall c', In (Missing c') rs -> c' = c) /\
    (c <> 0 -> m0 <= c /\ forall ms m, In (Present ms) rs -> In m ms -> m <= c).

(* ---------------------------------------------------------------------------------------- *)
(* basic facts                                                                                *)

Lemma fold_none : forall rs, fold_left bind_step rs None = None.
Proof. induction rs; cbn [fold_left bind_step]; auto. Qed.

Lemma fold_cons : forall a r rs,
  fold_replies a (r :: rs) =
  match add_keys a r with Some b => fold_replies b rs | None => None end.
Proof.
  intros. unfold fold_replies. cbn [fold_left bind_step].
  destruct (add_keys a r); auto using fold_none.
Qed.

Lemma fold_nil : forall a, fold_replies a [] = Some a.
Proof. reflexivity. Qed.

Lemma fold_max_acc : forall ms x, fold_left N.max ms x = N.max x (fold_left N.max ms 0).
Proof.
  induction ms as [|m ms IH]; intros x; cbn [fold_left].
  - lia.
  - rewrite IH. rewrite (IH (N.max 0 m)). lia.
Qed.

Lemma fold_max_le : forall ms x c,
  x <= c -> (forall m, In m ms -> m <= c) -> fold_left N.max ms x <= c.
Proof.
  induction ms as [|m ms IH]; intros x c Hx Hms; cbn [fold_left]; auto.
  apply IH.
  - pose proof (Hms m (or_introl eq_refl)). lia.
  - intros; apply Hms; right; auto.
Qed.

Lemma add_locks_missing : forall ms a, missing a = true -> fold_left add_lock ms a = a.
Proof.
  induction ms as [|m ms IH]; intros a Ha; cbn [fold_left]; auto.
  assert (E : add_lock a m = a) by (unfold add_lock; rewrite Ha; reflexivity).
  rewrite E; auto.
Qed.

Lemma add_locks_present : forall ms a, missing a = false ->
  fold_left add_lock ms a = {| commit_ts := fold_left N.max ms (commit_ts a); missing := false |}.
Proof.
  induction ms as [|m ms IH]; intros [t mi] Ha; cbn [missing commit_ts] in *; subst mi;
    cbn [fold_left].
  - reflexivity.
  - assert (E : add_lock {| commit_ts := t; missing := false |} m =
                {| commit_ts := N.max t m; missing := false |}).
    { unfold add_lock; cbn [missing commit_ts negb andb].
      destruct (N.ltb_spec t m); f_equal; lia. }
    rewrite E, IH by reflexivity. reflexivity.
Qed.

(* exact behaviour of one step *)
Lemma add_keys_missing_inv : forall a c b,
  add_keys a (Missing c) = Some b ->
  b = {| commit_ts := c; missing := true |} /\
  (if missing a then commit_ts a = c else c <> 0 -> commit_ts a <= c).
Proof.
  intros [t mi] c b; unfold add_keys; cbn [missing commit_ts]; destruct mi; cbn [negb andb].
  - destruct (N.eqb_spec t c); cbn [negb]; [|discriminate].
    intros H; inversion H; subst; auto.
  - rewrite N.eqb_refl; cbn [negb].
    destruct (N.eqb_spec c 0); cbn [negb andb].
    + intros H; inversion H; split; auto; intros; lia.
    + destruct (N.ltb_spec c t) as [Hlt|Hge]; [discriminate|].
      intros H; inversion H; split; auto.
Qed.

Lemma add_keys_missing_ok : forall a c,
  (if missing a then commit_ts a = c else c <> 0 -> commit_ts a <= c) ->
  add_keys a (Missing c) = Some {| commit_ts := c; missing := true |}.
Proof.
  intros [t mi] c; unfold add_keys; cbn [missing commit_ts]; destruct mi; cbn [negb andb].
  - intros ->. rewrite N.eqb_refl; reflexivity.
  - intros H. rewrite N.eqb_refl; cbn [negb].
    destruct (N.eqb_spec c 0); cbn [negb andb]; auto.
    destruct (N.ltb_spec c t) as [Hlt|Hge]; auto. specialize (H n); lia.
Qed.

Lemma add_keys_present : forall a ms,
  add_keys a (Present ms) =
  Some (if missing a then a
        else {| commit_ts := fold_left N.max ms (commit_ts a); missing := false |}).
Proof.
  intros a ms; unfold add_keys. destruct (missing a) eqn:E.
  - rewrite add_locks_missing; auto.
  - rewrite add_locks_present; auto.
Qed.

Lemma fold_nonasync : forall rs a, In NonAsync rs -> fold_replies a rs = None.
Proof.
  induction rs as [|r rs IH]; intros a H; [destruct H|].
  rewrite fold_cons. destruct H as [->|H]; [reflexivity|].
  destruct (add_keys a r); auto.
Qed.

(* ---------------------------------------------------------------------------------------- *)
(* what a successful fold computes, from an arbitrary state                                   *)

Lemma fold_general : forall rs a a',
  fold_replies a rs = Some a' ->
  (missing a' = true <-> missing a = true \/ exists c, In (Missing c) rs) /\
  (missing a = true ->
     commit_ts a' = commit_ts a /\ forall c, In (Missing c) rs -> c = commit_ts a) /\
  (missing a = false -> (forall c, ~ In (Missing c) rs) ->
     commit_ts a' = max_all (commit_ts a) rs) /\
  (missing a = false -> forall c, In (Missing c) rs -> commit_ts a' = c).
Proof.
  induction rs as [|r rs IH]; intros a a' H.
  - rewrite fold_nil in H; inversion H; subst a'. cbn [In max_all].
    split; [|split; [|split]].
    + split; [auto|]. intros [X|[c []]]; auto.
    + intros _; split; [auto|intros c []].
    + auto.
    + intros _ c [].
  - rewrite fold_cons in H. destruct (add_keys a r) as [b|] eqn:E; [|discriminate].
    destruct (IH _ _ H) as (I1 & I2 & I3 & I4); clear IH H.
    destruct r as [c|ms|].
    + (* Missing c *)
      apply add_keys_missing_inv in E. destruct E as [-> E].
      cbn [missing commit_ts] in I1, I2.
      destruct (I2 eq_refl) as [I2a I2b]. clear I2 I3 I4.
      assert (Hall : forall c0, In (Missing c0) (Missing c :: rs) -> c0 = c).
      { intros c0 [Hc|Hc]; [inversion Hc; auto|apply I2b; auto]. }
      split; [|split; [|split]].
      * split; [intros _; right; exists c; left; auto | intros _; apply I1; left; auto].
      * intros Ha. rewrite Ha in E. split; [congruence|].
        intros c0 Hc. rewrite (Hall _ Hc); auto.
      * intros _ Hno. exfalso. apply (Hno c). left; auto.
      * intros _ c0 Hc. rewrite (Hall _ Hc); auto.
    + (* Present ms *)
      assert (Hin : forall c, In (Missing c) (Present ms :: rs) <-> In (Missing c) rs).
      { intros c; split; [intros [X|X]; [discriminate|auto] | intros; right; auto]. }
      destruct (missing a) eqn:Ha.
      * rewrite add_keys_present, Ha in E. inversion E; subst b; clear E.
        rewrite Ha in I1. destruct (I2 Ha) as [I2a I2b].
        split; [|split; [|split]]; try (intros; congruence).
        -- split; [intros _; left; auto | intros _; apply I1; left; auto].
        -- intros _. split; auto. intros c Hc; apply I2b; apply Hin; auto.
      * rewrite add_keys_present, Ha in E. inversion E; subst b; clear E.
        cbn [missing commit_ts] in I1, I3, I4.
        split; [|split; [|split]]; try (intros; congruence).
        -- split.
           ++ intros X. apply I1 in X. destruct X as [X|[c X]]; [discriminate|].
              right; exists c; apply Hin; auto.
           ++ intros [X|[c X]]; [discriminate|]. apply I1. right. exists c. apply Hin; auto.
        -- intros _ Hno. cbn [max_all]. apply I3; auto.
           intros c Hc. apply (Hno c). apply Hin; auto.
        -- intros _ c Hc. apply I4; auto. apply Hin; auto.
    + discriminate.
Qed.

(* ---------------------------------------------------------------------------------------- *)
(* max_all: permutation invariance and meaning                                                *)

Lemma max_all_perm : forall rs rs', Permutation rs rs' -> forall m, max_all m rs = max_all m rs'.
Proof.
  induction 1; intros m.
  - reflexivity.
  - cbn [max_all]. destruct x; auto.
  - cbn [max_all]. destruct x as [c|ms|], y as [c'|ms'|]; auto.
    assert (C : forall p q, fold_left N.max p (fold_left N.max q m) =
                            fold_left N.max q (fold_left N.max p m)).
    { intros p q.
      rewrite (fold_max_acc p (fold_left N.max q m)), (fold_max_acc q m),
              (fold_max_acc q (fold_left N.max p m)), (fold_max_acc p m). lia. }
    rewrite C; reflexivity.
  - rewrite IHPermutation1; auto.
Qed.

Lemma fold_max_ge : forall ms x, x <= fold_left N.max ms x /\
  forall m, In m ms -> m <= fold_left N.max ms x.
Proof.
  induction ms as [|m ms IH]; intros x; cbn [fold_left].
  - split; [lia|intros ? []].
  - destruct (IH (N.max x m)) as [A B]. split; [lia|].
    intros m' [->|H]; [lia|auto].
Qed.

Lemma max_all_upper : forall rs m0,
  m0 <= max_all m0 rs /\
  forall ms m, In (Present ms) rs -> In m ms -> m <= max_all m0 rs.
Proof.
  induction rs as [|r rs IH]; intros m0; cbn [max_all].
  - split; [lia|intros ? ? []].
  - destruct r as [c|ms|].
    + destruct (IH m0) as [A B]; split; auto.
      intros ms m [X|X]; [discriminate|eauto].
    + destruct (IH (fold_left N.max ms m0)) as [A B].
      destruct (fold_max_ge ms m0) as [C D]. split; [lia|].
      intros ms' m [X|X] Hm.
      * inversion X; subst ms'. specialize (D _ Hm). lia.
      * eauto.
    + destruct (IH m0) as [A B]; split; auto.
      intros ms m [X|X]; [discriminate|eauto].
Qed.

Lemma fold_max_attained : forall ms x, fold_left N.max ms x = x \/ In (fold_left N.max ms x) ms.
Proof.
  induction ms as [|m ms IH]; intros x; cbn [fold_left]; auto.
  destruct (IH (N.max x m)) as [E|E].
  - rewrite E. destruct (N.max_spec x m) as [[_ ->]|[_ ->]]; [right; left|left]; auto.
  - right; right; auto.
Qed.

Lemma max_all_attained : forall rs m0,
  max_all m0 rs = m0 \/ exists ms, In (Present ms) rs /\ In (max_all m0 rs) ms.
Proof.
  induction rs as [|r rs IH]; intros m0; cbn [max_all]; auto.
  destruct r as [c|ms|].
  - destruct (IH m0) as [E|(ms & A & B)]; auto. right; exists ms; split; [right|]; auto.
  - destruct (IH (fold_left N.max ms m0)) as [E|(ms' & A & B)].
    + rewrite E. destruct (fold_max_attained ms m0) as [F|F]; [left; auto|].
      right; exists ms; split; [left|]; auto.
    + right; exists ms'; split; [right|]; auto.
  - destruct (IH m0) as [E|(ms & A & B)]; auto. right; exists ms; split; [right|]; auto.
Qed.

(* ---------------------------------------------------------------------------------------- *)
(* success under the consistency hypothesis                                                   *)

Definition cons_from (a : ard) (rs : list reply) : Prop :=
  forall c, In (Missing c) rs ->
    (forall c', In (Missing c') rs -> c' = c) /\
    (if missing a then c = commit_ts a
     else c <> 0 -> commit_ts a <= c /\ forall ms m, In (Present ms) rs -> In m ms -> m <= c).

Lemma cons_from_ok : forall rs a,
  ~ In NonAsync rs -> cons_from a rs -> exists a', fold_replies a rs = Some a'.
Proof.
  induction rs as [|r rs IH]; intros a Hna Hc.
  - exists a; reflexivity.
  - rewrite fold_cons.
    assert (Hna' : ~ In NonAsync rs) by (intros X; apply Hna; right; auto).
    destruct r as [c|ms|].
    + destruct (Hc c (or_introl eq_refl)) as [Hsame Hc2].
      rewrite add_keys_missing_ok.
      * apply IH; auto. intros c' Hc'. cbn [missing commit_ts]. split.
        -- intros c'' Hc''. rewrite (Hsame c'), (Hsame c''); auto; right; auto.
        -- apply Hsame; right; auto.
      * destruct (missing a); [auto|]. intros X; apply Hc2; auto.
    + rewrite add_keys_present. apply IH; auto.
      intros c Hin. destruct (Hc c (or_intror Hin)) as [Hsame Hc2]. split.
      * intros c' Hc'. apply Hsame; right; auto.
      * destruct (missing a) eqn:Ha; [rewrite Ha; auto|]. cbn [missing commit_ts].
        intros X. destruct (Hc2 X) as [A B]. split.
        -- apply fold_max_le; auto. intros m Hm. apply (B ms); [left|]; auto.
        -- intros ms' m Hms'. apply B; right; auto.
    + exfalso; apply Hna; left; auto.
Qed.

Lemma consistent_cons_from : forall m0 rs, consistent m0 rs -> cons_from (init m0) rs.
Proof. intros m0 rs H c Hc. destruct (H c Hc); split; auto. Qed.

Lemma consistent_perm : forall m0 rs rs',
  Permutation rs rs' -> consistent m0 rs -> consistent m0 rs'.
Proof.
  intros m0 rs rs' P H c Hc.
  assert (P' := Permutation_sym P).
  destruct (H c (Permutation_in _ P' Hc)) as [A B]. split.
  - intros c' Hc'. apply A. apply (Permutation_in _ P' Hc').
  - intros X. destruct (B X) as [B1 B2]. split; auto.
    intros ms m Hms. apply B2. apply (Permutation_in _ P' Hms).
Qed.

Lemma in_nonasync_dec : forall rs, {In NonAsync rs} + {~ In NonAsync rs}.
Proof.
  induction rs as [|r rs [IH|IH]].
  - right; intros [].
  - left; right; auto.
  - destruct r; [right|right|left; left; auto]; intros [X|X]; try discriminate; auto.
Qed.

(* ---------------------------------------------------------------------------------------- *)
(* the statements                                                                             *)
(* ======================================================================================== *)

(* 2. what a successful recovery computes *)
Theorem addKeys_result : forall m0 rs a,
  fold_replies (init m0) rs = Some a ->
  (missing a = true <-> exists c, In (Missing c) rs) /\
  ((forall c, ~ In (Missing c) rs) -> commit_ts a = max_all m0 rs) /\
  (forall c, In (Missing c) rs -> commit_ts a = c).
Proof.
  intros m0 rs a H. destruct (fold_general _ _ _ H) as (I1 & _ & I3 & I4).
  cbn [init missing commit_ts] in *. repeat split.
  - intros X. apply I1 in X. destruct X; [discriminate|auto].
  - intros X. apply I1; auto.
  - apply I3; auto.
  - apply I4; auto.
Qed.
Print Assumptions addKeys_result.

(* 1. if both arrival orders succeed they agree on (commit_ts, missing) *)
Theorem addKeys_order_independent_ok : forall m0 rs rs' a a',
  Permutation rs rs' ->
  fold_replies (init m0) rs = Some a ->
  fold_replies (init m0) rs' = Some a' ->
  a = a'.
Proof.
  intros m0 rs rs' a a' P H H'.
  destruct (addKeys_result _ _ _ H) as (A1 & A2 & A3).
  destruct (addKeys_result _ _ _ H') as (B1 & B2 & B3).
  assert (Em : missing a = missing a').
  { destruct (missing a) eqn:Ea, (missing a') eqn:Ea'; auto.
    - destruct (proj1 A1 eq_refl) as [c Hc].
      symmetry. apply B1. exists c. apply (Permutation_in _ P Hc).
    - destruct (proj1 B1 eq_refl) as [c Hc].
      apply A1. exists c. apply (Permutation_in _ (Permutation_sym P) Hc). }
  assert (Ec : commit_ts a = commit_ts a').
  { destruct (missing a) eqn:Ea.
    - destruct (proj1 A1 eq_refl) as [c Hc].
      rewrite (A3 _ Hc), (B3 c (Permutation_in _ P Hc)). reflexivity.
    - assert (N1 : forall c, ~ In (Missing c) rs).
      { intros c Hc. assert (X : false = true) by (apply A1; eauto). discriminate. }
      assert (N2 : forall c, ~ In (Missing c) rs').
      { intros c Hc. apply (N1 c). apply (Permutation_in _ (Permutation_sym P) Hc). }
      rewrite (A2 N1), (B2 N2). apply max_all_perm; auto. }
  destruct a, a'; cbn [missing commit_ts] in *; congruence.
Qed.
Print Assumptions addKeys_order_independent_ok.

(* 3. for replies a real store can produce, also the error status is order independent *)
Theorem addKeys_order_independent : forall m0 rs rs',
  Permutation rs rs' -> consistent m0 rs ->
  fold_replies (init m0) rs = fold_replies (init m0) rs'.
Proof.
  intros m0 rs rs' P C.
  destruct (in_nonasync_dec rs) as [Hn|Hn].
  - rewrite (fold_nonasync rs), (fold_nonasync rs'); auto.
    apply (Permutation_in _ P Hn).
  - assert (Hn' : ~ In NonAsync rs').
    { intros X; apply Hn. apply (Permutation_in _ (Permutation_sym P) X). }
    destruct (cons_from_ok rs (init m0) Hn (consistent_cons_from _ _ C)) as [a Ha].
    destruct (cons_from_ok rs' (init m0) Hn'
                (consistent_cons_from _ _ (consistent_perm _ _ _ P C))) as [a' Ha'].
    rewrite Ha, Ha'. f_equal. eapply addKeys_order_independent_ok; eauto.
Qed.
Print Assumptions addKeys_order_independent.

(* ... and under that hypothesis the only error is the per-lock check *)
Theorem addKeys_consistent_ok : forall m0 rs,
  consistent m0 rs -> ~ In NonAsync rs -> exists a, fold_replies (init m0) rs = Some a.
Proof. intros; apply cons_from_ok; auto using consistent_cons_from. Qed.
Print Assumptions addKeys_consistent_ok.

(* 4. without the hypothesis, whether the inconsistency is *detected* depends on the order:
   a region reports "committed at 15" while another still holds a lock with min-commit ts 20.
   Lock first: commitTs is raised to 20 and the later commit ts 15 < 20 is rejected.
   Commit first: commitTs := 15, missingLock := true, and the lock's min-commit 20 is ignored. *)
Theorem addKeys_error_order_dependent_refuted : exists m0 rs rs',
  Permutation rs rs' /\
  fold_replies (init m0) rs = None /\
  fold_replies (init m0) rs' <> None.
Proof.
  exists 10, [Present [20]; Missing 15], [Missing 15; Present [20]].
  split; [apply perm_swap|]. split; [vm_compute; reflexivity|vm_compute; discriminate].
Qed.
Print Assumptions addKeys_error_order_dependent_refuted.

(* max_all is the maximum it is claimed to be *)
Theorem max_all_is_max : forall m0 rs,
  m0 <= max_all m0 rs /\
  (forall ms m, In (Present ms) rs -> In m ms -> m <= max_all m0 rs) /\
  (max_all m0 rs = m0 \/ exists ms, In (Present ms) rs /\ In (max_all m0 rs) ms).
Proof.
  intros. destruct (max_all_upper rs m0). split; [|split]; auto using max_all_attained.
Qed.
Print Assumptions max_all_is_max.

(* non-vacuity: three replies, two arrival orders, both succeed (and agree) *)
Example addKeys_order_independent_ok_sat :
  let rs  := [Present [12; 30]; Missing 40; Present [25]] in
  let rs' := [Missing 40; Present [25]; Present [12; 30]] in
  Permutation rs rs' /\
  fold_replies (init 10) rs  = Some {| commit_ts := 40; missing := true |} /\
  fold_replies (init 10) rs' = Some {| commit_ts := 40; missing := true |} /\
  consistent 10 rs.
Proof.
  cbv zeta. split; [|split; [vm_compute; reflexivity|split; [vm_compute; reflexivity|]]].
  - eapply perm_trans; [apply perm_swap|]. apply perm_skip. apply perm_swap.
  - intros c [X|[X|[X|[]]]]; try discriminate. inversion X; subst c. split.
    + intros c' [Y|[Y|[Y|[]]]]; try discriminate. inversion Y; auto.
    + intros _. split; [lia|].
      intros ms m [Y|[Y|[Y|[]]]]; try discriminate; inversion Y; subst ms; cbn [In];
        intros Z; repeat (destruct Z as [Z|Z]; [subst m; lia|]); destruct Z.
Qed.

Example addKeys_no_missing_sat :
  fold_replies (init 10) [Present [12; 30]; Present []; Present [25]]
  = Some {| commit_ts := 30; missing := false |}.
Proof. vm_compute; reflexivity. Qed.

Example addKeys_rolled_back_sat :
  fold_replies (init 10) [Present [12; 30]; Missing 0; Present [25]; Missing 0]
  = Some {| commit_ts := 0; missing := true |}.
Proof. vm_compute; reflexivity. Qed.
