(* Percolator/OwnB.v — own-transaction preservation: prewrite send/reply, resolve send, cts reply, mutations. *)
From Verif Require Export Percolator.OwnA.

Lemma own_pw_send : forall s s' r T p ks a o m f secs, invT s T ->
  stepr s (EPwSend r T p ks a o m f secs) = Ok s' -> invT s' T.
Proof.
  intros s s' r T p ks a o m f secs [G I] H. cbn [stepr] in H. unfold step_pw_send in H. chks H. okinv H.
  split; [destruct a, o; constructor; prep; useG G |].
  intros Hh' Hc'. assert (Hm : hasm s T) by (destruct a, o; unf2; rd; auto).
  assert (Hc : classic s T) by (destruct a, o; classic_back Hc').
  assert (a = false /\ o = false) as [-> ->].
  { destruct Hc' as [A [B _]]. destruct a, o; unf2; rd; auto; discriminate. }
  specialize (I Hm Hc). constructor; prep; useGI G I.
  all: t_some_rb s; t_Dn s; t_Dd s.
Qed.

Lemma fb_setn_ne : forall c f v g, g <> f -> fb (setn c f v) g = fb c g.
Proof. intros. unfold fb. rewrite cn_setn_ne; auto. Qed.
Lemma fb_incn_ne : forall c f g, g <> f -> fb (incn c f) g = fb c g.
Proof. intros. unfold fb. rewrite cn_incn_ne; auto. Qed.
Lemma fb_add_pwok : forall c ks g, fb (add_pwok c ks) g = fb c g.
Proof. reflexivity. Qed.
Lemma fb_add_kl : forall c t ks g, fb (add_kl c t ks) g = fb c g.
Proof. reflexivity. Qed.

Lemma own_pw_reply : forall s s' r T ks x, invT s T -> stepr s (EPwReply r T ks x) = Ok s' -> invT s' T.
Proof.
  intros s s' r T ks x [G I] H. cbn [stepr] in H. unfold step_pw_reply in H. chks H. okinv H.
  apply delivered_In in C0.
  destruct x as [m o | k |].
  - match goal with |- context [if ?b then setn _ FMinc _ else _] => destruct b end;
    (unfold onepc_on; repeat (rewrite ?fb_add_pwok, ?fb_add_kl; try rewrite fb_setn_ne by discriminate; try rewrite fb_incn_ne by discriminate);
     destruct (N.eq_dec o 0) as [-> | Ho];
     [ cbn [N.eqb]; destruct (m =? 0), (fb (getc s T) FTried1), (fb (getc s T) FFb1); cbn [andb negb];
       (split;
        [ constructor; prep; useG G
        | intros Hh' Hc'; assert (Hm : hasm s T) by (unf2; rd; auto);
          assert (Hc : classic s T) by (classic_back Hc');
          specialize (I Hm Hc); constructor; prep; useGI G I ]);
       try match goal with Hx : In _ (_ ++ _) |- _ => apply in_app_or in Hx; destruct Hx as [Hx | Hx] end;
       try (exists r, ks, m, 0; split; auto; fail);
       try match goal with |- pwdlv _ _ _ => eapply pwdlv_incl; [| eauto]; rd; apply incl_refl end;
       try (apply in_or_app; right; eauto; fail);
       t_some_rb s; t_Dn s; t_Dd s
     | apply N.eqb_neq in Ho; rewrite Ho; apply N.eqb_neq in Ho;
       assert (HT1 : cn (getc s T) FTried1 <> 0) by (eapply g_1pc; eauto);
       destruct (m =? 0);
       (split;
        [ constructor; prep; useG G
        | intros Hh' [_ [B _]]; exfalso; unf2; rd; auto ]);
       try match goal with Hx : In _ (_ ++ _) |- _ => apply in_app_or in Hx; destruct Hx as [Hx | Hx] end;
       try (exists r, ks, m, o; split; auto; fail);
       try match goal with |- pwdlv _ _ _ => eapply pwdlv_incl; [| eauto]; rd; apply incl_refl end ]).
  - split;
      [ constructor; prep; useG G
      | intros Hh' Hc'; assert (Hm : hasm s T) by (unf2; rd; auto);
        assert (Hc : classic s T) by (classic_back Hc');
        specialize (I Hm Hc); constructor; prep; useGI G I ].
    all: t_some_rb s; t_Dn s; t_Dd s.
  - split;
      [ constructor; prep; useG G
      | intros Hh' Hc'; assert (Hm : hasm s T) by (unf2; rd; auto);
        assert (Hc : classic s T) by (classic_back Hc');
        specialize (I Hm Hc); constructor; prep; useGI G I ].
    all: t_some_rb s; t_Dn s; t_Dd s.
Qed.


Lemma just_cts_spec : forall s r T c p, just_cts s r T c = Some p ->
  (c <> 0 /\ In (ECtsReply r T p (StCommitted c)) (s_cts s)) \/ (c = 0 /\ In (ECtsReply r T p StRolledBack) (s_cts s)).
Proof.
  unfold just_cts. intros s r T c p H. destruct (find _ (s_cts s)) as [e |] eqn:E; try discriminate.
  apply find_some in E. destruct E as [E1 E2]. destruct e; try discriminate. inversion H. subst.
  destruct st; try discriminate; b2p; subst.
  - left. split; auto.
  - right. split; auto.
Qed.

Lemma async_cts_spec : forall l r T ks, async_cts l r T ks = true ->
  exists p ttl m secs, In (ECtsReply r T p (StLocked ttl m true secs)) l /\ subset ks secs = true.
Proof.
  unfold async_cts. intros l r T ks H. apply existsb_exists in H. destruct H as [e [H1 H2]].
  destruct e; try discriminate. destruct st; try discriminate. destruct async; try discriminate. b2p. subst. eauto 10.
Qed.
Lemma csl_all_locked_cts : forall s r T C, csl_all_locked s r T C = true ->
  exists p ttl m secs, In (ECtsReply r T p (StLocked ttl m true secs)) (s_cts s).
Proof.
  unfold csl_all_locked. intros s r T C H. apply existsb_exists in H. destruct H as [e [H1 H2]].
  destruct e; try discriminate. destruct st; try discriminate. destruct async; try discriminate. b2p. subst. eauto 10.
Qed.

Lemma own_rs_send : forall s s' r T C ks, invT s T -> stepr s (ERsSend r T C ks) = Ok s' -> invT s' T.
Proof.
  intros s s' r T C ks [G I] H. cbn [stepr] in H. unfold step_rs_send in H. chks H.
  destruct (just_cts s r T C) as [p |] eqn:J; chks H; okinv H.
  - assert (Hk : kget s T p = alt_of C).
    { apply just_cts_spec in J. destruct J as [[J1 J2] | [J1 J2]].
      - apply (g_cts_sub _ _ G) in J2. apply (g_cts_c _ _ G) in J2. unfold alt_of. apply N.eqb_neq in J1. rewrite J1. auto.
      - subst. apply (g_cts_sub _ _ G) in J2. apply (g_cts_r _ _ G) in J2. auto. }
    split; [constructor; prep; useG G |].
    intros Hh' Hc'. assert (Hm : hasm s T) by (unf2; rd; auto).
    assert (Hc : classic s T).
    { destruct Hc' as [A [B D]]. unf2. rd. repeat split; auto. intros c Hc. apply (D c). right. auto. }
    specialize (I Hm Hc). constructor; prep; useGI G I.
    all: t_some_rb s; t_Dn s; t_Dd s.
    b2p. apply orb_true_iff in C1. destruct C1 as [C1 | C1]; b2p; auto. congruence.
  - assert (HA : cn (getc s T) FTriedA <> 0).
    { assert (exists p ttl m secs, In (ECtsReply r T p (StLocked ttl m true secs)) (s_cts s)) as [p [ttl [m [secs Hi]]]].
      { apply orb_true_iff in C1. destruct C1 as [C1 | C1].
        - apply andb_true_iff in C1. destruct C1 as [_ C1]. apply async_cts_spec in C1. destruct C1 as [p [ttl [m [secs [C1 _]]]]]. eauto.
        - apply csl_all_locked_cts in C1. auto. }
      apply (g_cts_sub _ _ G) in Hi. apply (g_async_cts _ _ G) in Hi. auto. }
    split; [constructor; prep; useG G |].
    intros Hh' [_ [_ D]]. exfalso. apply (D C). rd. left. auto.
Qed.

Lemma own_cts_reply : forall s s' r T p st, invT s T -> stepr s (ECtsReply r T p st) = Ok s' -> invT s' T.
Proof.
  intros s s' r T p st [G I] H. cbn [stepr] in H. chks H. okinv H. apply delivered_In in C0.
  split; [constructor; prep; useG G |].
  intros Hh' Hc'. assert (Hm : hasm s T) by (unf2; rd; auto).
  assert (Hc : classic s T) by (classic_back Hc').
  specialize (I Hm Hc). constructor; prep; useGI G I.
  all: t_some_rb s; t_Dn s; t_Dd s.
Qed.
Lemma own_mutations : forall s s' T p ms, invT s T -> stepr s (EMutations T p ms) = Ok s' -> invT s' T.
Proof.
  intros s s' T p ms [G _] H. cbn [stepr] in H. chks H. okinv H. b2p.
  assert (NoCm : forall r c ks, ~ In (ECmSend r T c ks) (s_sent s)).
  { intros r c ks Hi. apply (g_cmsent_p _ _ G) in Hi. unf2. destruct Hi as [Hi | [Hi _]]; congruence. }
  assert (NoPw : forall r ks x, ~ In (EPwReply r T ks x) (s_dlv s)).
  { intros r ks x Hi. apply (g_pw_sent _ _ G) in Hi. destruct Hi as [p0 [a [o [m [f [secs Hi]]]]]].
    apply (g_pwsent_cnt _ _ G) in Hi. unf2. congruence. }
  assert (Fr := g_fresh_cnt _ _ G). unf2. destruct Fr as [F1 [F2 [F3 [F4 [F5 [F6 F7]]]]]]; [congruence |].
  split.
  - constructor; prep; useG G.
    exfalso. eapply NoCm; eauto.
  - intros _ Hc'. constructor; prep; destruct G; unf2; insplit; fin2.
    all: try (exfalso; eapply NoCm; eauto; fail).
    all: try (exfalso; eapply NoPw; eauto; fail).
    all: try (exfalso; lia).
    + rewrite forallb_forall in C1. specialize (C1 _ H). cbn in C1. rewrite N.eqb_refl in C1. cbn in C1. b2p. auto.
    + exfalso. destruct (g_kst_fresh k ltac:(assumption)) as [E | E]; congruence.
    + exfalso. destruct (g_kst_fresh p ltac:(assumption)) as [E | E]; congruence.
    + exfalso. apply g_rb_dead in H. congruence.
    + right. right. exists k. unfold lm, pwdlv. rd. repeat split; auto.
      intros [r [ks [m [o [Hi _]]]]]. eapply NoPw; eauto.
Qed.
