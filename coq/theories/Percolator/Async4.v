(* Percolator/Async4.v — justification of the commit-capable requests of an async-commit transaction:
   the owner's commit ts and the resolver's CheckSecondaryLocks fold both equal cstar. *)
From Verif Require Export Percolator.Async3.

Section Just.
  Variables (s : sys) (T : N).
  Hypothesis G : ginv s T.
  Hypothesis L : linv s T.
  Hypothesis Am : asyncm s T.
  Hypothesis A : ainv s T.
  Let Hm : hasm s T := proj1 Am.

  Lemma cm_send_just : forall s' r C ks, stepr s (ECmSend r T C ks) = Ok s' -> Sealed s T /\ C = cstar s T.
  Proof.
    intros s' r C ks H. pose proof Am as [_ [A1 [A2 [A3 A4]]]]. cbn [stepr] in H. unfold step_cm_send in H. chks H.
    assert (Hh : fb (getc s T) FHasm = true) by (apply fb_true; exact Hm). rewrite Hh in H. chks H.
    assert (Ek : async_kept (getc s T) = true).
    { unfold async_kept. unfold F in *. apply fb_true in A1. rewrite A1. rewrite (proj2 (fb_false _ _) A3). reflexivity. }
    rewrite Ek in C6. cbn [negb orb] in C6. apply N.eqb_eq in C6. subst C. clear H.
    assert (Hall : forall k, In k (lm s T) -> exists m, m <= F s T FMinc /\ (lamk s T k = Some m \/ kget s T k = Committed m)).
    { intros k Hk. apply (a_minc _ _ A); auto. unfold pwok. eapply subset_In; eauto. }
    assert (S : Sealed s T).
    { intros k Hk. destruct (Hall k Hk) as [m [_ [E | E]]]; [congruence |]. destruct (a_commit _ _ A _ _ E) as [S _]. apply S. auto. }
    assert (Le1 : cn (getc s T) FMinc <= cstar s T).
    { destruct (a_minc2 _ _ A) as [E | [k [K1 [E | E]]]]; unfold F in *.
      - rewrite E. lia.
      - eapply cstar_ge; eauto.
      - destruct (a_commit _ _ A _ _ E) as [_ E2]. rewrite <- E2. lia. }
    assert (Le2 : cstar s T <= cn (getc s T) FMinc).
    { apply cstar_le. intros k m' Hk El. destruct (Hall k Hk) as [m [M1 [E | E]]]; unfold F in *.
      - assert (m = m') by congruence. subst. auto.
      - destruct (a_commit _ _ A _ _ E) as [_ E2]. pose proof (cstar_ge _ _ _ _ Hk El). lia. }
    split; auto. lia.
  Qed.

  Lemma csl_send_just : forall s' r ks, stepr s (ECslSend r T ks) = Ok s' -> forall k, In k ks -> In k (lm s T).
  Proof.
    intros s' r ks H k Hk. cbn [stepr] in H. chks H. apply async_cts_spec in C0. destruct C0 as [p [ttl [m [secs [C1 C2]]]]].
    apply (g_cts_sub _ _ G) in C1. apply (a_ctsl _ _ A) in C1. destruct C1 as [_ [_ C1]].
    apply C1. eapply subset_In; eauto.
  Qed.

  Lemma fold_left_max_ge : forall l m, m <= fold_left N.max l m /\ forall x, In x l -> x <= fold_left N.max l m.
  Proof.
    induction l as [| a l IH]; intros m; cbn [fold_left]; [split; [lia | intros x []] |].
    destruct (IH (N.max m a)) as [I1 I2]. split; [lia |]. intros x [-> | Hx]; [lia | auto].
  Qed.
  Lemma fold_left_max_le : forall l m b, m <= b -> (forall x, In x l -> x <= b) -> fold_left N.max l m <= b.
  Proof.
    induction l as [| a l IH]; intros m b Hm0 Hl; cbn [fold_left]; auto.
    apply IH; [assert (a <= b) by (apply Hl; left; auto); lia | intros x Hx; apply Hl; right; auto].
  Qed.

  Lemma csl_lock_ms_spec : forall r k M, In (k, M) (csl_lock_ms s r T) ->
    exists ks l, In (ECslReply r T ks (CslLocks l)) (s_csl s) /\ In (k, M) l.
  Proof.
    unfold csl_lock_ms. intros r k M H. apply in_flat_map in H. destruct H as [e [H1 H2]].
    destruct e; try (destruct H2; fail). destruct st; try (destruct H2; fail).
    destruct ((r0 =? r) && (s0 =? T)) eqn:B; [| destruct H2]. b2p. subst. eauto.
  Qed.

  Lemma rs_async_just : forall r C, csl_all_locked s r T C = true -> Sealed s T /\ C = cstar s T /\ C <> 0.
  Proof.
    intros r C H. unfold csl_all_locked in H. apply existsb_exists in H. destruct H as [e [H1 H2]].
    destruct e; try discriminate. destruct st; try discriminate. destruct async; try discriminate.
    apply andb_true_iff in H2. destruct H2 as [H2 Hrest]. apply andb_true_iff in H2. destruct H2 as [Hr Hs].
    apply N.eqb_eq in Hr. apply N.eqb_eq in Hs. subst. cbv zeta in Hrest. apply andb_true_iff in Hrest.
    destruct Hrest as [H3 H0]. apply N.eqb_eq in H0. apply andb_true_iff in H3. destruct H3 as [H3 _].
    apply (g_cts_sub _ _ G) in H1. apply (a_ctsl _ _ A) in H1. destruct H1 as [-> [Lp Hsecs]].
    set (P := prim s T) in *. set (l := csl_lock_ms s r T) in *.
    assert (Hl : forall k M, In (k, M) l -> lamk s T k = Some M).
    { intros k M Hk. apply csl_lock_ms_spec in Hk. destruct Hk as [ks [l0 [K1 K2]]].
      apply (l_csl_sub _ _ L) in K1. apply (a_csll _ _ A) in K1. apply K1. auto. }
    assert (Hcov : forall k, In k secs -> exists M, In (k, M) l).
    { intros k Hk. rewrite forallb_forall in H3. specialize (H3 k Hk). apply existsb_exists in H3.
      destruct H3 as [[k' M] [K1 K2]]. cbn [fst] in K2. apply N.eqb_eq in K2. subst. eauto. }
    assert (S : Sealed s T).
    { intros k Hk. destruct (N.eq_dec k P) as [-> | Hne]; [congruence |].
      destruct (Hcov k) as [M HM]; [apply Hsecs; auto |]. rewrite (Hl _ _ HM). discriminate. }
    set (vals := map snd (filter (fun km => mem (fst km) secs) l)) in *.
    destruct (fold_left_max_ge vals m) as [F1 F2].
    assert (Ec : fold_left N.max vals m = cstar s T).
    { apply N.le_antisymm.
      - apply fold_left_max_le; [eapply cstar_ge; eauto; apply (l_prim _ _ L Hm) |].
        intros x Hx. unfold vals in Hx. apply in_map_iff in Hx. destruct Hx as [[k M] [X1 X2]]. cbn [snd] in X1. subst.
        apply filter_In in X2. destruct X2 as [X2 X3]. cbn [fst] in X3. apply mem_In in X3. apply Hsecs in X3.
        eapply cstar_ge; [apply X3 | apply Hl; auto].
      - apply cstar_le. intros k m' Hk El. destruct (N.eq_dec k P) as [-> | Hne]; [rewrite Lp in El; inversion El; subst; auto |].
        destruct (Hcov k) as [M HM]; [apply Hsecs; auto |]. rewrite (Hl _ _ HM) in El. inversion El. subst m'.
        apply F2. unfold vals. apply in_map_iff. exists (k, M). split; auto. apply filter_In. split; auto. cbn [fst].
        apply mem_In. apply Hsecs. auto. }
    repeat split; auto; [congruence |]. rewrite H0, Ec. pose proof (a_lam _ _ A _ _ Lp). pose proof (cstar_ge _ _ _ _ (l_prim _ _ L Hm) Lp). lia.
  Qed.

  Lemma rs_send_just : forall s' r C ks, stepr s (ERsSend r T C ks) = Ok s' ->
    (exists p, s_rs s' = (T, C, JKey p) :: s_rs s /\ p = prim s T) \/
    (s_rs s' = (T, C, JAsync) :: s_rs s /\ (C <> 0 -> Sealed s T /\ C = cstar s T) /\ (C = 0 -> NSa s T)).
  Proof.
    intros s' r C ks H. cbn [stepr] in H. unfold step_rs_send in H. chks H.
    destruct (just_cts s r T C) as [p |] eqn:J; chks H; okinv H.
    - left. exists p. split; [reflexivity |]. apply orb_true_iff in C1. destruct C1 as [C1 | C1]; [| apply N.eqb_eq in C1; auto].
      exfalso. apply negb_true_iff in C1. apply fb_false in C1. apply Hm. exact C1.
    - right. split; [reflexivity |]. apply orb_true_iff in C1. destruct C1 as [C1 | C1].
      + apply andb_true_iff in C1. destruct C1 as [C1 _]. unfold csl_missing in C1. apply existsb_exists in C1.
        destruct C1 as [e [E1 E2]]. destruct e; try discriminate. destruct st; try discriminate. b2p. subst.
        apply (l_csl_sub _ _ L) in E1. apply (a_cslc _ _ A) in E1. exact E1.
      + destruct (rs_async_just _ _ C1) as [S [E N]]. split; [auto | intros; contradiction].
  Qed.
End Just.
