(* Percolator/ProofsTrace5.v — the history invariant [H] and its preservation by accepted steps. *)
From Verif Require Import Percolator.Event Percolator.System Percolator.Trace
  Percolator.ProofsTrace0 Percolator.ProofsTrace1 Percolator.ProofsTrace2 Percolator.ProofsTrace3
  Percolator.ProofsTrace4.

Definition H (pre : list event) (v : view) : Prop := HG pre v /\ forall T, HT T pre (vgetc v T).

Lemma H_init : H [] (view_of init).
Proof. split; [apply HG_init | intros T; apply HT_init]. Qed.

Lemma vgetc_vcl v T0 c T : vgetc (vcl v T0 c) T = if T0 =? T then c else vgetc v T.
Proof. reflexivity. Qed.

Lemma other_T T0 T e pre c :
  (T0 =? T) = false -> txn_ev e = Some T0 -> HT T pre c -> HT T (pre ++ [e]) c.
Proof.
  intros E He. apply HT_frame. rewrite He. intros Hq. inversion Hq; subst.
  rewrite N.eqb_refl in E. discriminate.
Qed.

Ltac plain A T := apply HT_frame; [cbn [txn_ev]; discriminate | exact (A T)].
Ltac oth A T := eapply other_T; [eassumption | reflexivity | exact (A T)].
Ltac split_T T0 T :=
  rewrite vgetc_vcl; let E := fresh "E" in destruct (T0 =? T) eqn:E;
  [apply N.eqb_eq in E; subst T | ].
Ltac untr A T0 T :=
  split_T T0 T;
  [ apply HT_frame; [cbn [txn_ev]; discriminate|]; eapply HT_untracked; [| exact (A T0)]
  | plain A T ].

Lemma HT_step pre v e v' : H pre v -> vstep v e v' -> forall T, HT T (pre ++ [e]) (vgetc v' T).
Proof.
  intros [G A] St T. destruct e; cbn [vstep] in St; cbv zeta in St.
  - destruct St as [_ ->]. plain A T.
  - subst. plain A T.
  - subst. split_T s T.
    + apply ht_commit_call; auto.
    + oth A T.
  - destruct St as (Hh & Hpw & Hpc & Hlk & ->). apply fb_false in Hh. split_T s T.
    + eapply ht_mutations; eauto.
    + oth A T.
  - subst. split_T s T.
    + apply ht_pw_send. exact (A s).
    + oth A T.
  - destruct St as [_ (c' & Hsame & ->)]. untr A s T. apply dlv_tr_same. exact Hsame.
  - destruct St as [_ ->]. split_T s T.
    + apply ht_pw_reply. exact (A s).
    + oth A T.
  - destruct St as [_ St].
    pose proof (ht_cm_send pre s r c ks (vgetc v s) (A s)) as X.
    destruct (fb (vgetc v s) FHasm) eqn:Eh.
    + destruct St as (_ & Hts & _ & _ & _ & St). specialize (X (fun _ => Hts)).
      apply fb_true in Eh. apply N.eqb_neq in Eh. rewrite Eh in X. cbn [orb] in X.
      destruct (mem (cn (vgetc v s) FPrim) ks).
      * subst. split_T s T; [exact X | oth A T].
      * destruct St as [_ ->].
        destruct (s =? T) eqn:E.
        -- apply N.eqb_eq in E. subst T. exact X.
        -- oth A T.
    + apply fb_false in Eh.
      assert (X' := X (fun Hc => False_ind _ (Hc Eh))).
      apply N.eqb_eq in Eh. rewrite Eh in X'. cbn [orb] in X'.
      subst. split_T s T; [exact X' | oth A T].
  - destruct St as [Hs [-> | (f & Hf & ->)]].
    + plain A T.
    + untr A s T. destruct Hf; subst f; tr_same_tac.
  - destruct St as [Hd St]. destruct (has_prim (vgetc v s) ks) eqn:Hp.
    + subst. split_T s T; [| oth A T].
      unfold has_prim in Hp. apply andb_true_iff in Hp. destruct Hp as [Hh Hm]. apply fb_true in Hh.
      apply ht_cm_reply_prim; auto.
      intros _. pose proof (g_sent _ _ G _ (g_dlv _ _ G _ _ _ _ _ Hd)) as Hsd.
      pose proof (t_cmts _ _ _ (A s) Hh _ _ _ Hsd). lia.
    + subst. destruct (s =? T) eqn:E.
      * apply N.eqb_eq in E. subst T. apply ht_cm_reply_other; auto.
      * oth A T.
  - destruct St as [_ ->]. split_T s T.
    + apply ht_rb_send. exact (A s).
    + oth A T.
  - subst. plain A T.
  - subst. plain A T.
  - subst. untr A s T. destruct (fb (vgetc v s) FPlAny); tr_same_tac.
  - subst. plain A T.
  - subst. plain A T.
  - subst. plain A T.
  - subst. plain A T.
  - subst. plain A T.
  - destruct St as [_ [_ ->]]. plain A T.
  - destruct St as (c' & Hsame & [-> | ->]); [plain A T |]. untr A s T. apply dlv_tr_same. exact Hsame.
  - subst. plain A T.
  - destruct St as [_ ->]. plain A T.
  - subst. plain A T.
  - subst. plain A T.
  - destruct St as [_ ->]. plain A T.
  - subst. plain A T.
  - subst. plain A T.
  - subst. untr A s T. tr_same_tac.
  - subst. plain A T.
  - subst. plain A T.
  - destruct St as [_ ->]. untr A s T. destruct res; tr_same_tac.
  - subst. untr A s T. tr_same_tac.
  - subst. plain A T.
  - subst. plain A T.
  - subst. plain A T.
Qed.
