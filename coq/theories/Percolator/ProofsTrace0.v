(* Percolator/ProofsTrace0.v — the part of the state the trace predicates depend on ([view]) and an
   explicit description [vstep] of what an accepted step checks and does on it. *)
From Verif Require Import Percolator.Event Percolator.System Percolator.Trace.

Record view := { v_tso : N; v_sent : list event; v_dlv : list event; v_cl : list (N * crec);
                 v_cts : list event; v_csl : list event; v_seen : list (N * N * N); v_gc : list (N * N) }.
Definition view_of (s : sys) : view :=
  {| v_tso := s_tso s; v_sent := s_sent s; v_dlv := s_dlv s; v_cl := s_cl s;
     v_cts := s_cts s; v_csl := s_csl s; v_seen := s_seen s; v_gc := s_gc s |}.
Definition vgetc (v : view) (T : N) : crec := getc_l (v_cl v) T.
Definition vtso v x := {| v_tso := x; v_sent := v_sent v; v_dlv := v_dlv v; v_cl := v_cl v; v_cts := v_cts v; v_csl := v_csl v; v_seen := v_seen v; v_gc := v_gc v |}.
Definition vsent v x := {| v_tso := v_tso v; v_sent := x :: v_sent v; v_dlv := v_dlv v; v_cl := v_cl v; v_cts := v_cts v; v_csl := v_csl v; v_seen := v_seen v; v_gc := v_gc v |}.
Definition vdlv v x := {| v_tso := v_tso v; v_sent := v_sent v; v_dlv := x :: v_dlv v; v_cl := v_cl v; v_cts := v_cts v; v_csl := v_csl v; v_seen := v_seen v; v_gc := v_gc v |}.
Definition vcl v (T : N) (c : crec) := {| v_tso := v_tso v; v_sent := v_sent v; v_dlv := v_dlv v; v_cl := (T, c) :: v_cl v; v_cts := v_cts v; v_csl := v_csl v; v_seen := v_seen v; v_gc := v_gc v |}.
Definition vcts v x := {| v_tso := v_tso v; v_sent := v_sent v; v_dlv := v_dlv v; v_cl := v_cl v; v_cts := x :: v_cts v; v_csl := v_csl v; v_seen := v_seen v; v_gc := v_gc v |}.
Definition vcsl v x := {| v_tso := v_tso v; v_sent := v_sent v; v_dlv := v_dlv v; v_cl := v_cl v; v_cts := v_cts v; v_csl := x :: v_csl v; v_seen := v_seen v; v_gc := v_gc v |}.
Definition vseen v x := {| v_tso := v_tso v; v_sent := v_sent v; v_dlv := v_dlv v; v_cl := v_cl v; v_cts := v_cts v; v_csl := v_csl v; v_seen := x :: v_seen v; v_gc := v_gc v |}.
Definition vgc v x := {| v_tso := v_tso v; v_sent := v_sent v; v_dlv := v_dlv v; v_cl := v_cl v; v_cts := v_cts v; v_csl := v_csl v; v_seen := v_seen v; v_gc := x |}.

Definition pw_send_rec (c : crec) (ks : list N) (async onepc : bool) : crec :=
  let c := add_kl (incn c FPwSent) KSent ks in
  let c := if async then setn c FTriedA 1 else setn c FFb 1 in
  if onepc then setn c FTried1 1 else setn c FFb1 1.
(* a record update that leaves everything the history invariant reads unchanged (deliveries only
   touch the per-key delivery accounting, the ghost [c_lam] and the flag FStFb) *)
Definition dlv_same (c c' : crec) : Prop :=
  (forall f, f <> FStFb -> cn c' f = cn c f) /\ c_lm c' = c_lm c /\ c_pwok c' = c_pwok c /\
  (forall k, kcnt c' KSent k = kcnt c KSent k) /\ (forall k, kcnt c' KNeg k = kcnt c KNeg k).
Definition pw_reply_rec (c0 : crec) (ks : list N) (x : pw_res) : crec :=
  let c := add_kl (incn c0 FPwRep) KRep ks in
  match x with
  | PwOk m o =>
      let c := add_pwok c ks in
      let c := if negb (fb c FHasm) || existsb (fun k => mem k (c_lm c)) ks then setn c FMinc (N.max (cn c FMinc) m) else c in
      let c := if o =? 0 then (if onepc_on c then setn (setn c FFb1 1) FFb 1 else setn c FFb1 1) else setn c F1pcTs o in
      if m =? 0 then setn c FFb 1 else c
  | PwErr _ => setn (add_kl c KNeg ks) FPwErr 1
  | PwRegion => add_kl c KNeg ks
  end.
Definition cm_reply_rec (c : crec) (C : N) (x : cm_res) : crec :=
  match x with
  | CmOk => setn (incn c FPcRep) FPcOk C
  | CmGone => setn (incn (incn c FPcRep) FPcNeg) FPcRb 1
  | _ => incn (incn c FPcRep) FPcNeg
  end.
Definition told_guard (c : crec) (t : told_res) : bool :=
  match t with
  | TOk => negb (cn c FPcOk =? 0) || negb (cn c F1pcTs =? 0) ||
           (async_kept c && fb c FHasm && subset (c_lm c) (c_pwok c) && pw_closed c) ||
           (negb (fb c FHasm) && (cn c FPcSent =? 0) && (cn c FPwSent <=? cn c FPwRep) && negb (fb c FPwErr))
  | TErr => neg_ok c && (negb (cp_active c) || err_ok c) && (cn c F1pcTs =? 0)
  | TUndet => (cn c FPcRep <? cn c FPcSent) || (commit_point_pw c && (cn c FPwRep <? cn c FPwSent))
  end.
Definition told_rec (c : crec) (t : told_res) : crec :=
  match t with
  | TOk => setn c FTold 1
  | TErr => setn (setn c FTold 3) FDead 1
  | TUndet => setn (setn c FTold 2) FDead 1
  end.
Definition expire_ok (v : view) (r T : N) : Prop :=
  (exists ttl, In (r, T, ttl) (v_seen v) /\ (ttl = 0 \/ phys T + ttl <= phys (v_tso v))) \/
  (exists sp, In (r, sp) (v_gc v) /\ T <= sp).
Definition rs_just (v : view) (r T C : N) : Prop :=
  (C <> 0 /\ exists p, In (ECtsReply r T p (StCommitted C)) (v_cts v)) \/
  (C = 0 /\ exists p, In (ECtsReply r T p StRolledBack) (v_cts v)) \/
  ((exists ks, In (ECslReply r T ks (CslCommit C)) (v_csl v)) /\
   (exists p ttl m secs, In (ECtsReply r T p (StLocked ttl m true secs)) (v_cts v))) \/
  (exists p ttl m secs, In (ECtsReply r T p (StLocked ttl m true secs)) (v_cts v) /\ m <= C /\
     forall k, In k secs ->
       exists ks l m', In (ECslReply r T ks (CslLocks l)) (v_csl v) /\ In (k, m') l /\ m' <= C /\ m' <> 0).

Definition vstep (v : view) (e : event) (v' : view) : Prop :=
  match e with
  | ETso t => v_tso v < t /\ v' = vtso v t
  | ECommitCall T cz =>
      v' = vcl v T (setn (setn (setn (vgetc v T) FCalled 1) FCausal (if cz then 1 else 0)) FWm (v_tso v))
  | EMutations T p ms =>
      let c := vgetc v T in
      fb c FHasm = false /\ cn c FPwSent = 0 /\ cn c FPcSent = 0 /\ In p (lock_keys ms) /\
      v' = vcl v T (set_muts (setn (setn c FHasm 1) FPrim p) (lock_keys ms) (map fst ms))
  | EPwSend r T p ks a o m f secs => v' = vcl (vsent v e) T (pw_send_rec (vgetc v T) ks a o)
  | EPwDeliver r T ks x =>
      (exists p a o m f secs, In (EPwSend r T p ks a o m f secs) (v_sent v)) /\
      exists c', dlv_same (vgetc v T) c' /\ v' = vcl (vdlv v (EPwReply r T ks x)) T c'
  | EPwReply r T ks x => In e (v_dlv v) /\ v' = vcl v T (pw_reply_rec (vgetc v T) ks x)
  | ECmSend r T C ks =>
      let c := vgetc v T in
      fb c FDead = false /\
      if fb c FHasm then
        subset (c_lm c) (c_pwok c) = true /\ T < C /\ cn c FMinc <= C /\
        (negb (async_kept c) || (C =? cn c FMinc)) = true /\
        (negb (fb c FCalled) || fb c FCausal || (cn c FWm <? C)) = true /\
        if mem (cn c FPrim) ks then v' = vcl (vsent v e) T (incn c FPcSent)
        else ((cn c FPcOk =? C) || async_kept c) = true /\ v' = vsent v e
      else v' = vcl (vsent v e) T (incn c FPcSent)
  | ECmDeliver r T C ks x =>
      In (ECmSend r T C ks) (v_sent v) /\
      (v' = vdlv v (ECmReply r T C ks x) \/
       exists f, (f = FPcOkd \/ f = FPcFaild) /\
                 v' = vcl (vdlv v (ECmReply r T C ks x)) T (incn (incn (vgetc v T) FPcDlv) f))
  | ECmReply r T C ks x =>
      In e (v_dlv v) /\
      let c := vgetc v T in
      if has_prim c ks then v' = vcl v T (cm_reply_rec c C x) else v' = v
  | ERbSend r T ks =>
      (neg_ok (vgetc v T) && (negb (cp_active (vgetc v T)) || err_ok (vgetc v T))) = true /\ v' = vcl (vsent v e) T (setn (vgetc v T) FDead 1)
  | ERbDeliver r T ks x => v' = vdlv v (ERbReply r T ks x)
  | EPlSend r T p f ks =>
      let c := vgetc v T in
      v' = vcl (vsent v e) T (setn (setn c FPlAny 1) FPlPrim p)
  | EPlDeliver r T f ks x => v' = vdlv v (EPlReply r T f ks x)
  | EPrSend _ _ _ _ => v' = vsent v e
  | EPrDeliver r T f ks x => v' = vdlv v (EPrReply r T f ks x)
  | ECtsSend r T p caller cur rbine fo rp =>
      (cur = maxts \/ rbine = true -> expire_ok v r T) /\
      (fo = true -> exists ks l k, In (ECslReply r T ks (CslLocks l)) (v_csl v) /\ In (k, 0) l) /\ v' = vsent v e
  | ECtsDeliver r T p st =>
      exists c', dlv_same (vgetc v T) c' /\
        (v' = vdlv v (ECtsReply r T p st) \/ v' = vcl (vdlv v (ECtsReply r T p st)) T c')
  | ECtsReply _ _ _ _ => v' = vcts v e
  | ECslSend r T ks => async_cts (v_cts v) r T ks = true /\ v' = vsent v e
  | ECslDeliver r T ks st => v' = vdlv v (ECslReply r T ks st)
  | ECslReply _ _ _ _ => v' = vcsl v e
  | ERsSend r T C ks => rs_just v r T C /\ v' = vsent v e
  | ERsDeliver r T C ks x => v' = vdlv v (ERsReply r T C ks x)
  | EHbSend r T p ttl => v' = vcl (vsent v e) T (setn (vgetc v T) FHb ttl)
  | ELockSeen r T ttl => v' = vseen v (r, T, ttl)
  | ETold T t => told_guard (vgetc v T) t = true /\ v' = vcl v T (told_rec (vgetc v T) t)
  | ERollbackTold T => v' = vcl v T (setn (vgetc v T) FRbTold 1)
  | EGcBegin r sp => v' = vgc v ((r, sp) :: v_gc v)
  | EGcEnd r => v' = vgc v (filter (fun g => negb (fst g =? r)) (v_gc v))
  | EBegin _ _ | ERbReply _ _ _ _ | EPlReply _ _ _ _ _ | EPrReply _ _ _ _ _ | ERsReply _ _ _ _ _
  | EHbDeliver _ _ _ _ _ | ECrash _ => v' = v
  end.

(* ---- per-key accounting ---- *)
Lemma kcnt_l_add_same tag k ks l :
  kcnt_l tag k (map (fun k' => (tag, k')) ks ++ l) = N.of_nat (occ k ks) + kcnt_l tag k l.
Proof.
  induction ks as [|x ks IH]; [reflexivity|].
  cbn [map app kcnt_l occ]. rewrite IH, N.eqb_refl. cbn [andb]. destruct (x =? k); lia.
Qed.
Lemma kcnt_l_add_other tag tag' k ks l :
  (tag' =? tag) = false -> kcnt_l tag k (map (fun k' => (tag', k')) ks ++ l) = kcnt_l tag k l.
Proof.
  intros E. induction ks as [|x ks IH]; [reflexivity|].
  cbn [map app kcnt_l]. rewrite IH, E. reflexivity.
Qed.
Lemma dlv_same_refl c : dlv_same c c.
Proof. repeat split. Qed.
Lemma dlv_same_stfb c v : dlv_same c (setn c FStFb v).
Proof.
  split; [| repeat split]. intros f Hf. cbn [cn setn]. destruct f; try reflexivity. exfalso. apply Hf. reflexivity.
Qed.
Lemma dlv_same_trans a b c : dlv_same a b -> dlv_same b c -> dlv_same a c.
Proof.
  intros (A1 & A2 & A3 & A4 & A5) (B1 & B2 & B3 & B4 & B5).
  split; [intros f Hf; rewrite B1, A1; auto|]. split; [congruence|]. split; [congruence|].
  split; intros k; [rewrite B4 | rewrite B5]; auto.
Qed.
Lemma dlv_same_kl c tag ks : (tag =? KSent) = false -> (tag =? KNeg) = false -> dlv_same c (add_kl c tag ks).
Proof.
  intros E1 E2. split; [reflexivity|]. split; [reflexivity|]. split; [reflexivity|].
  split; intros k; unfold kcnt; cbn [c_kl add_kl]; apply kcnt_l_add_other; assumption.
Qed.
Lemma dlv_same_lam c ks m : dlv_same c (add_lam c ks m).
Proof. repeat split. Qed.

(* ---- store transitions do not touch the view ---- *)
Lemma step_key_view s T k tr s' : step_key s T k tr = Some s' -> view_of s' = view_of s.
Proof.
  unfold step_key. intros H.
  destruct (tr (kget s T k)).
  - inversion H. reflexivity.
  - destruct (kget s T k); try discriminate. destruct (wr_alt s T tr); try discriminate.
    inversion H. reflexivity.
Qed.
Lemma step_keys_view T tr ks : forall s s', step_keys s T ks tr = Some s' -> view_of s' = view_of s.
Proof.
  induction ks as [|k ks IH]; intros s s' H; cbn [step_keys] in H.
  - inversion H. reflexivity.
  - destruct (step_key s T k tr) eqn:E; try discriminate.
    rewrite (IH _ _ H). eapply step_key_view; eauto.
Qed.
Lemma step_csl_locks_view T l : forall s s', step_csl_locks s T l = Some s' -> view_of s' = view_of s.
Proof.
  induction l as [|[k m] l IH]; intros s s' H; cbn [step_csl_locks] in H.
  - inversion H. reflexivity.
  - destruct (step_key s T k (tr_csl_lock m)) eqn:E; try discriminate.
    rewrite (IH _ _ H). eapply step_key_view; eauto.
Qed.

(* ---- reply matching ---- *)
Lemma cm_res_eqb_eq a b : cm_res_eqb a b = true -> a = b.
Proof. destruct a, b; cbn [cm_res_eqb]; intros H; try discriminate; auto. apply N.eqb_eq in H. subst. auto. Qed.
Lemma reply_eqb_cm r T C ks x e : reply_eqb (ECmReply r T C ks x) e = true -> e = ECmReply r T C ks x.
Proof.
  destruct e; cbn [reply_eqb]; intros H; try discriminate.
  repeat (apply andb_true_iff in H; destruct H as [H ?]).
  apply N.eqb_eq in H. subst.
  repeat match goal with
         | X : (_ =? _) = true |- _ => apply N.eqb_eq in X; subst
         | X : leqb _ _ = true |- _ => apply leqb_eq in X; subst
         | X : cm_res_eqb _ _ = true |- _ => apply cm_res_eqb_eq in X; subst
         end.
  reflexivity.
Qed.
Lemma delivered_cm s r T C ks x : delivered s (ECmReply r T C ks x) = true -> In (ECmReply r T C ks x) (s_dlv s).
Proof.
  unfold delivered. intros H. apply existsb_exists in H. destruct H as [e [H1 H2]].
  apply reply_eqb_cm in H2. subst. auto.
Qed.

Lemma pw_res_eqb_eq a b : pw_res_eqb a b = true -> a = b.
Proof.
  destruct a, b; cbn [pw_res_eqb]; intros H; try discriminate; auto.
  - apply andb_true_iff in H. destruct H as [H1 H2]. apply N.eqb_eq in H1. apply N.eqb_eq in H2. subst. auto.
  - apply N.eqb_eq in H. subst. auto.
Qed.
Lemma delivered_pw s r T ks x : delivered s (EPwReply r T ks x) = true -> In (EPwReply r T ks x) (s_dlv s).
Proof.
  unfold delivered. intros H. apply existsb_exists in H. destruct H as [e [H1 H2]].
  destruct e; cbn [reply_eqb] in H2; try discriminate.
  repeat (apply andb_true_iff in H2; destruct H2 as [H2 ?]).
  apply N.eqb_eq in H2. subst.
  repeat match goal with
         | X : (_ =? _) = true |- _ => apply N.eqb_eq in X; subst
         | X : leqb _ _ = true |- _ => apply leqb_eq in X; subst
         | X : pw_res_eqb _ _ = true |- _ => apply pw_res_eqb_eq in X; subst
         end.
  exact H1.
Qed.
Lemma async_cts_In l r T ks : async_cts l r T ks = true ->
  exists p ttl m secs, In (ECtsReply r T p (StLocked ttl m true secs)) l /\ forall k, In k ks -> In k secs.
Proof.
  unfold async_cts. intros H. apply existsb_exists in H. destruct H as [e [H1 H2]].
  destruct e; try discriminate. destruct st; try discriminate. destruct async; try discriminate.
  apply andb_true_iff in H2. destruct H2 as [H2 H3]. apply andb_true_iff in H2. destruct H2 as [H2 H4].
  apply N.eqb_eq in H2. apply N.eqb_eq in H4. subst.
  exists p, ttl, m, secs. split; [exact H1 | exact (subset_In _ _ H3)].
Qed.

Lemma fold_max_ge l : forall a, a <= fold_left N.max l a /\ forall x, In x l -> x <= fold_left N.max l a.
Proof.
  induction l as [|y l IH]; intros a; cbn [fold_left].
  - split; [lia | intros x []].
  - destruct (IH (N.max a y)) as [I1 I2]. split; [lia|].
    intros x [Hx | Hx]; [subst; lia | auto].
Qed.

Ltac chk1 H E := match type of H with (if ?b then _ else _) = _ => destruct b eqn:E; [| discriminate H] end.
