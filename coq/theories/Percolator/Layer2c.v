(* Percolator/Layer2c.v — linv is preserved by every accepted step. *)
From Verif Require Export Percolator.Layer2b.

Lemma kevos_kmono : forall s s', kevos s s' -> kmono s s'.
Proof.
  intros s s' K T k. destruct (K T k) as [E | [[m [E1 [c E2]]] | [[m [E1 E2]] | [E1 E2]]]]; [left; auto | | |];
    right; rewrite ?E1, ?E2; split; eauto; discriminate.
Qed.

Lemma linv_quiet2 : forall s e s' T, Inv s -> quiet2 e = true -> stepr s e = Ok s' -> linv s T -> linv s' T.
Proof.
  intros s e s' T HI Hq H L.
  assert (Hn : npw e = true) by (destruct e; try reflexivity; discriminate Hq).
  pose proof (stepr_kevos _ _ _ Hn H) as K. pose proof (stepr_quiet2 _ _ _ T Hq H) as [A1 A2 A3 A4 A5 A6 A7].
  pose proof (stepr_lists _ _ _ H) as [Ls [Ld [_ [Lc _]]]].
  assert (Hh : hasm s' T <-> hasm s T) by (unfold hasm, F; rewrite A6; tauto).
  assert (Hp : prim s' T = prim s T) by (unfold prim, F; auto).
  assert (Elam : forall k, lam (getc s' T) k = lam (getc s T) k) by (intros; unfold lam; rewrite A1; auto).
  constructor; unfold lamk, kc, lm in *; intros; rewrite ?Elam, ?A2, ?A3, ?A4, ?A5, ?Hp in *.
  - apply (l_locked _ _ L). specialize (K T k). rewrite H0 in K. apply kevo_locked in K. auto.
  - intros E. specialize (K T k). rewrite E in K. apply kevo_unlocked in K. eapply (l_nu _ _ L); eauto.
  - destruct Ld as [Ld | [e' [R1 Ld]]]; rewrite Ld in H0.
    + eapply (l_okcnt _ _ L); eauto.
    + destruct H0 as [H0 | H0]; [| eapply (l_okcnt _ _ L); eauto]. subst e'.
      destruct e; cbn [reply_of] in R1; try discriminate R1; discriminate Hq.
  - apply (l_cntle _ _ L).
  - eapply (l_lamcnt _ _ L); eauto.
  - assert (Hd : In (ECslReply r T ks st) (s_dlv s) -> In (ECslReply r T ks st) (s_dlv s')).
    { destruct Ld as [Ld | [e' [_ Ld]]]; rewrite Ld; auto. intros; right; auto. }
    destruct Lc as [Lc | [[r0 [T0 [ks0 [st0 Ee]]]] Lc]]; rewrite Lc in H0.
    + apply Hd. apply (l_csl_sub _ _ L). auto.
    + destruct H0 as [H0 | H0]; [| apply Hd; apply (l_csl_sub _ _ L); auto].
      apply Hd. subst e. inversion H0. subst. cbn [stepr] in H. chks H. apply delivered_In in C0. auto.
  - assert (Hs : In (ECslSend r T ks) (s_sent s) -> In (ECslSend r T ks) (s_sent s')).
    { destruct Ls as [Ls | Ls]; rewrite Ls; auto. intros; right; auto. }
    destruct Ld as [Ld | [e' [R1 Ld]]]; rewrite Ld in H0.
    + apply Hs. eapply (l_csl_sent _ _ L); eauto.
    + destruct H0 as [H0 | H0]; [| apply Hs; eapply (l_csl_sent _ _ L); eauto]. subst e'.
      destruct e; cbn [reply_of] in R1; try discriminate R1. inversion R1. subst. apply Hs.
      cbn [stepr] in H. unfold step_csl_deliver in H. chks H. apply sent_by_In in C. destruct C as [e0 [C1 C2]].
      destruct e0; try discriminate. beq. subst. auto.
  - apply Hh in H0. destruct (stepr_pcok _ _ _ T H) as [E | [r [ks [E1 E2]]]].
    + rewrite E in *. eapply km_committed; [apply kevos_kmono; eauto |]. apply (l_pcok _ _ L); auto.
    + eapply km_committed; [apply kevos_kmono; eauto |]. destruct (HI T) as [G _]. eapply (g_cm _ _ G); eauto.
  - apply (l_lm_all _ _ L). auto.
  - apply (l_prim _ _ L). apply Hh. auto.
Qed.

Lemma linv_mutations : forall s s' T0 p ms T, Inv s -> stepr s (EMutations T0 p ms) = Ok s' -> linv s T -> linv s' T.
Proof.
  intros s s' T0 p ms T HI H L. cbn [stepr] in H. chks H. okinv H. b2p.
  destruct (N.eq_dec T0 T) as [-> | Hne].
  - constructor; unfold lamk, kc, lm, hasm, prim, F in *; intros; rd.
    + apply (l_locked _ _ L); auto.
    + apply (l_nu _ _ L _ _ H).
    + eapply (l_okcnt _ _ L); eauto.
    + apply (l_cntle _ _ L).
    + eapply (l_lamcnt _ _ L); eauto.
    + apply (l_csl_sub _ _ L); auto.
    + eapply (l_csl_sent _ _ L); eauto.
    + exfalso. destruct (HI T) as [G _]. destruct (g_fresh_cnt _ _ G) as [_ [_ [_ [_ [_ [E _]]]]]]; unfold hasm, F in *; congruence.
    + apply lock_keys_sub. auto.
    + auto.
  - constructor; unfold lamk, kc, lm, hasm, prim, F in *; intros; rewrite ?getc_setc_ne in * by auto; rd.
    + apply (l_locked _ _ L); auto.
    + apply (l_nu _ _ L _ _ H).
    + eapply (l_okcnt _ _ L); eauto.
    + apply (l_cntle _ _ L).
    + eapply (l_lamcnt _ _ L); eauto.
    + apply (l_csl_sub _ _ L); auto.
    + eapply (l_csl_sent _ _ L); eauto.
    + apply (l_pcok _ _ L); auto.
    + apply (l_lm_all _ _ L); auto.
    + apply (l_prim _ _ L); auto.
Qed.

Lemma mem_filter : forall k (f : N -> bool) ks, mem k (filter f ks) = true <-> In k ks /\ f k = true.
Proof. intros. rewrite mem_In, filter_In. tauto. Qed.

Lemma stepr_getc_other : forall s e s' T0, stepr s e = Ok s' -> txn_of e <> Some T0 -> getc s' T0 = getc s T0.
Proof.
  intros s e s' T0 H Hne.
  destruct_event e; cbn [txn_of] in Hne; cbn [stepr] in H;
    unfold step_pw_send, step_pw_deliver, step_pw_reply, step_cm_send, step_cm_deliver, step_cm_reply, step_rb_send,
      step_rb_deliver, step_cts_send, step_cts_deliver, step_csl_deliver, step_rs_send, step_rs_deliver, step_hb_send,
      step_told, plain_send, plain_reply in H; chks H.
  all: repeat match type of H with
         | (match ?d with _ => _ end) = Ok _ => destruct d eqn:?; chks H; try discriminate H
         | (if ?d then _ else _) = Ok _ => destruct d eqn:?; chks H; try discriminate H
         end.
  all: try (okinv H).
  all: repeat match goal with |- context [match ?d with _ => _ end] => is_var d; destruct d eqn:? end.
  all: repeat match goal with |- context [if ?d then _ else _] => destruct d eqn:? end.
  all: repeat (first [ rewrite getc_setc_ne by congruence | progress getc_keys | progress rd
                     | match goal with |- context [if ?d then _ else _] => destruct d eqn:? end ]); reflexivity.
Qed.

Lemma linv_other : forall s e s' T, stepr s e = Ok s' -> txn_of e <> Some T -> linv s T -> linv s' T.
Proof.
  intros s e s' T H Hne L. pose proof (step_agree _ _ _ T H Hne) as A. pose proof (stepr_getc_other _ _ _ T H Hne) as Gc.
  pose proof (stepr_lists _ _ _ H) as [Ls [Ld [_ [Lc _]]]].
  assert (Hd : forall x, In x (s_dlv s') -> txn_of x = Some T -> In x (s_dlv s)).
  { intros x Hx Ht. destruct Ld as [Ld | [e' [R1 Ld]]]; rewrite Ld in Hx; auto. destruct Hx as [Hx | Hx]; auto. subst e'.
    exfalso. apply Hne. destruct e; cbn [reply_of] in R1; try discriminate R1; inversion R1; subst; exact Ht. }
  assert (Hd' : forall x, In x (s_dlv s) -> In x (s_dlv s')).
  { intros x Hx. destruct Ld as [Ld | [e' [R1 Ld]]]; rewrite Ld; auto. right. auto. }
  assert (Hs' : forall x, In x (s_sent s) -> In x (s_sent s')).
  { intros x Hx. destruct Ls as [Ls | Ls]; rewrite Ls; auto. right. auto. }
  constructor; unfold lamk, kc, lm, hasm, prim, F in *; intros; rewrite ?Gc, ?(a_k _ _ _ A) in *.
  - apply (l_locked _ _ L); auto.
  - apply (l_nu _ _ L _ _ H0).
  - eapply (l_okcnt _ _ L); eauto.
  - apply (l_cntle _ _ L).
  - eapply (l_lamcnt _ _ L); eauto.
  - apply Hd'. apply (l_csl_sub _ _ L). destruct Lc as [Lc | [[r0 [T1 [ks0 [st0 Ee]]]] Lc]]; rewrite Lc in H0; auto.
    destruct H0 as [H0 | H0]; auto. exfalso. subst e. inversion H0. subst. apply Hne. reflexivity.
  - apply Hs'. eapply (l_csl_sent _ _ L). apply Hd; eauto.
  - apply (l_pcok _ _ L); auto.
  - apply (l_lm_all _ _ L); auto.
  - apply (l_prim _ _ L); auto.
Qed.

Lemma tr_1pc_res2 : forall o v v', tr_1pc o v = Some v' -> v' = Committed o.
Proof.
  intros o v v' H. destruct v; cbn in H; try (inversion H; auto; fail).
  destruct (c =? o) eqn:E; inversion H. apply N.eqb_eq in E. subst. auto.
Qed.

Lemma linv_pw_deliver_own : forall s s' r T ks x, stepr s (EPwDeliver r T ks x) = Ok s' -> linv s T -> linv s' T.
Proof.
  intros s s' r T ks x H L.
  pose proof (stepr_kmono _ _ _ H) as KM. pose proof (stepr_lists _ _ _ H) as [Ls [_ [_ [Lc _]]]].
  assert (Hcsl : s_csl s' = s_csl s) by (destruct Lc as [Lc | [[r0 [T1 [ks0 [st0 Ee]]]] _]]; [auto | discriminate Ee]).
  assert (Hs' : forall y, In y (s_sent s) -> In y (s_sent s')).
  { intros y Hy. destruct Ls as [Ls | Ls]; rewrite Ls; auto. right. auto. }
  cbn [stepr] in H. unfold step_pw_deliver in H. chks H. clear C C0 C1 C2 C3.
  match type of H with context [setc (add_dlv s ?ee) T ?cc] => set (c' := cc) in *; set (e' := ee) in * end.
  change (setc (add_dlv s e') T c') with (add_dlv (setc s T c') e') in H.
  set (b := setc s T c') in *.
  assert (Kb : forall k, kget b T k = kget s T k) by reflexivity.
  assert (exists tr kk, tr_ok tr /\ tr_idem tr /\ tr_total_locked tr /\ step_keys (add_dlv b e') T kk tr = Some s' /\
            match x with PwOk m o => kk = ks /\ tr = (if o =? 0 then tr_pw m else tr_1pc o) | _ => kk = [] end)
    as [tr [kk [Hok [Hid [Htot [E Hx]]]]]].
  { destruct x as [m o | |]; [destruct (o =? 0) eqn:Eo | |].
    - destruct (step_keys _ _ _ _) as [s2 |] eqn:E; [| discriminate]. okinv H. exists (tr_pw m), ks.
      repeat split; auto using tr_pw_ok, tr_pw_idem, tr_pw_total.
    - destruct (step_keys _ _ _ _) as [s2 |] eqn:E; [| discriminate]. okinv H. exists (tr_1pc o), ks.
      repeat split; auto using tr_1pc_ok, tr_1pc_idem, tr_1pc_total.
    - okinv H. exists tr_rb, []. repeat split; auto using tr_rb_ok, tr_rb_idem, tr_rb_total.
    - okinv H. exists tr_rb, []. repeat split; auto using tr_rb_ok, tr_rb_idem, tr_rb_total. }
  pose proof (step_keys_char _ _ _ _ _ _ Hok Hid Htot E) as Ch.
  assert (Gc : getc s' T = c') by (rewrite (step_keys_getc _ _ _ _ _ T E); unfold b; rd; reflexivity).
  destruct (step_keys_lists _ _ _ _ _ E) as [Es [Ed _]]. cbn [s_dlv add_dlv w_dlv] in Ed.
  assert (Hd' : s_dlv s' = e' :: s_dlv s) by (rewrite Ed; reflexivity).
  assert (Ehp : cn c' FHasm = cn (getc s T) FHasm /\ cn c' FPrim = cn (getc s T) FPrim /\ cn c' FPcOk = cn (getc s T) FPcOk /\
                c_lm c' = c_lm (getc s T) /\ c_all c' = c_all (getc s T)).
  { unfold c'. destruct x as [m o | |]; repeat match goal with |- context [if ?d then _ else _] => destruct d end; repeat split; reflexivity. }
  destruct Ehp as [Eh [Ep [Eok [Elm Eall]]]].
  assert (Ecnt : forall k, kcnt c' KDlv k = occ k ks + kcnt (getc s T) KDlv k /\
                 kcnt c' KNegD k = (match x with PwOk _ _ => 0 | _ => occ k ks end) + kcnt (getc s T) KNegD k).
  { intros k. unfold c'. destruct x as [m o | |]; repeat match goal with |- context [if ?d then _ else _] => destruct d end;
      rewrite ?kcnt_setn, ?kcnt_add_lam; repeat rewrite kcnt_add_kl; cbn; split; lia. }
  assert (Elam : forall k, lam c' k = match x with
                                        | PwOk m o => if (o =? 0) && mem k (filter (fun k => match kget s T k with Unlocked => true | _ => false end) ks)
                                                      then Some m else lam (getc s T) k
                                        | _ => lam (getc s T) k end).
  { intros k. unfold c'. destruct x as [m o | |]; try reflexivity. destruct (o =? 0); cbn [andb];
      match goal with |- lam (if ?d then _ else _) _ = _ => destruct d end;
      rewrite ?lam_setn, ?lam_add_lam, ?lam_add_kl; reflexivity. }
  constructor; unfold lamk, kc, lm, hasm, prim, F; rewrite ?Gc, ?Eh, ?Ep, ?Eok, ?Elm, ?Eall; intros.
  - (* l_locked *) rewrite Elam. destruct (Ch k) as [[Hk A] | [Hk A]].
    + rewrite Kb in A. destruct x as [m0 o | |]; [| subst kk; destruct Hk | subst kk; destruct Hk].
      destruct Hx as [-> ->]. destruct (o =? 0) eqn:Eo; cbn [andb].
      * rewrite H0 in A. destruct (kget s T k) eqn:Ek; cbn in A; inversion A; subst.
        -- assert (M : mem k (filter (fun k0 => match kget s T k0 with Unlocked => true | _ => false end) ks) = true)
             by (apply mem_filter; rewrite Ek; auto). rewrite M. reflexivity.
        -- assert (M : mem k (filter (fun k0 => match kget s T k0 with Unlocked => true | _ => false end) ks) = false).
           { destruct (mem k _) eqn:M; auto. apply mem_filter in M. rewrite Ek in M. destruct M. discriminate. }
           rewrite M. apply (l_locked _ _ L). auto.
      * apply tr_1pc_res2 in A. congruence.
    + rewrite Kb in A. rewrite A in H0.
      assert (Lm : lam (getc s T) k = Some m) by (apply (l_locked _ _ L); auto).
      destruct x as [m0 o | |]; auto. destruct (o =? 0); cbn [andb]; auto.
      destruct (mem k _) eqn:M; auto. apply mem_filter in M. destruct M as [_ M]. rewrite H0 in M. discriminate.
  - (* l_nu *) rewrite Elam in H0.
    assert (Old : lam (getc s T) k = Some m -> kget s' T k <> Unlocked).
    { intros Lm. eapply km_not_unlocked; eauto. eapply (l_nu _ _ L); eauto. }
    destruct x as [m0 o | |]; auto. destruct (o =? 0) eqn:Eo; cbn [andb] in H0; auto.
    destruct (mem k _) eqn:M; auto. apply mem_filter in M. destruct M as [Hk _].
    destruct Hx as [-> ->]. destruct (Ch k) as [[_ A] | [A _]]; [| contradiction].
    apply tr_pw_res in A. tauto.
  - (* l_okcnt *) destruct (Ecnt k) as [E1 E2]. rewrite E1, E2. rewrite Hd' in H0. destruct H0 as [H0 | H0].
    + unfold e' in H0. inversion H0. subst. cbv beta iota. pose proof (occ_pos _ _ H1).
      pose proof (l_cntle _ _ L k) as Le. unfold kc in Le. lia.
    + pose proof (l_okcnt _ _ L _ _ _ _ _ H0 H1) as Lt. unfold kc in Lt. destruct x; lia.
  - destruct (Ecnt k) as [E1 E2]. rewrite E1, E2. pose proof (l_cntle _ _ L k) as Le. unfold kc in Le. destruct x; lia.
  - (* l_lamcnt *) destruct (Ecnt k) as [E1 E2]. rewrite E1, E2. rewrite Elam in H0.
    pose proof (l_cntle _ _ L k) as Le. unfold kc in Le.
    assert (Old : lam (getc s T) k = Some m -> (match x with PwOk _ _ => 0 | _ => occ k ks end) + kcnt (getc s T) KNegD k < occ k ks + kcnt (getc s T) KDlv k).
    { intros Lm. pose proof (l_lamcnt _ _ L _ _ Lm) as Lt. unfold kc in Lt. destruct x; lia. }
    destruct x as [m0 o | |]; auto. destruct (o =? 0) eqn:Eo; cbn [andb] in H0; auto.
    destruct (mem k _) eqn:M; auto. apply mem_filter in M. destruct M as [Hk _]. pose proof (occ_pos _ _ Hk). lia.
  - rewrite Hcsl in H0. rewrite Hd'. right. apply (l_csl_sub _ _ L). auto.
  - rewrite Hd' in H0. destruct H0 as [H0 | H0]; [discriminate H0 |]. apply Hs'. eapply (l_csl_sent _ _ L); eauto.
  - eapply km_committed; eauto. apply (l_pcok _ _ L); auto.
  - apply (l_lm_all _ _ L). auto.
  - apply (l_prim _ _ L). auto.
Qed.

Definition Linv (s : sys) : Prop := forall T, linv s T.

Theorem linv_stepr : forall s e s', Inv s -> Linv s -> stepr s e = Ok s' -> Linv s'.
Proof.
  intros s e s' HI HL H T. specialize (HL T).
  destruct (quiet2 e) eqn:Q; [eapply linv_quiet2; eauto |].
  destruct e; cbn [quiet2] in Q; try discriminate Q.
  - eapply linv_mutations; eauto.
  - destruct (N.eq_dec s0 T) as [-> | Hne].
    + eapply linv_pw_deliver_own; eauto.
    + eapply linv_other; eauto. cbn [txn_of]. congruence.
Qed.
Theorem linv_init : Linv init.
Proof.
  intros T. constructor; unfold lamk, kc, lm, hasm, prim, F; cbn; intros; try contradiction; try discriminate; try lia;
    try (exfalso; apply H; reflexivity).
Qed.
Theorem linv_run_from : forall evs s s', Inv s -> Linv s -> run_from s evs = Some s' -> Linv s'.
Proof.
  induction evs as [| e evs IH]; intros s s' HI HL H; cbn [run_from] in H.
  - inversion H. subst. auto.
  - unfold step in H. destruct (stepr s e) as [s1 | rr] eqn:E; try discriminate.
    eapply IH; [| | eauto]; [eapply inv_stepr; eauto | eapply linv_stepr; eauto].
Qed.
Theorem linv_run : forall evs s, run evs = Some s -> Linv s.
Proof. intros evs s H. eapply linv_run_from; [apply inv_init | apply linv_init | exact H]. Qed.
