(* Percolator/OnePC2.v — oinv is preserved by the events that touch the prewrite bookkeeping. *)
From Verif Require Export Percolator.OnePC.

Lemma ctsd_acct : forall s s' r T p st T0, stepr s (ECtsDeliver r T p st) = Ok s' ->
  (st = StRolledBack -> forall m, kget s T p = Locked m ->
     m = 0 \/ existsb (fun sc => (fst sc =? T) && (snd sc =? 0)) (s_wr s) = true) -> same_acct (getc s T0) (getc s' T0).
Proof.
  intros s s' r T p st T0 H NL. destruct (N.eq_dec T T0) as [<- | Hne].
  2: { rewrite (stepr_getc_other _ _ _ T0 H); [apply same_acct_refl | cbn [txn_of]; congruence]. }
  cbn [stepr] in H. unfold step_cts_deliver in H. chks H.
  destruct st; chks H; try (okinv H; apply same_acct_refl).
  - destruct (step_key _ _ _ _) as [s2 |] eqn:E; try discriminate. okinv H. rewrite (step_key_getc _ _ _ _ _ T E). apply same_acct_refl.
  - destruct (step_key _ _ _ _) as [s2 |] eqn:E; try discriminate. okinv H. rewrite (step_key_getc _ _ _ _ _ T E). apply same_acct_refl.
  - assert (Ea : match kget s T p with Locked m0 => negb (m0 =? 0) && negb (existsb (fun sc => (fst sc =? T) && (snd sc =? 0)) (s_wr s)) | _ => false end = false).
    { destruct (kget s T p) eqn:Ek; auto. destruct (NL eq_refl m eq_refl) as [-> | ->]; [reflexivity | apply andb_false_r]. }
    rewrite Ea in H. destruct (step_key _ _ _ _) as [s2 |] eqn:E; try discriminate. okinv H.
    rewrite (step_key_getc _ _ _ _ _ T E). apply same_acct_refl.
Qed.

Lemma oinv_cts_deliver : forall s s' r T0 p st T, stepr s (ECtsDeliver r T0 p st) = Ok s' -> oinv s T -> oinv s' T.
Proof.
  intros s s' r T0 p st T H O.
  destruct (N.eq_dec T0 T) as [-> | Hne]; [| eapply oinv_other; eauto; cbn [txn_of]; congruence].
  pose proof (stepr_kevos s (ECtsDeliver r T p st) s' eq_refl H) as K. pose proof (stepr_lists _ _ _ H) as [Ls [Ld _]].
  apply (oinv_stable s s' T); [| | | | | | exact O].
  - intros k. apply K.
  - eapply ctsd_acct; eauto. intros _ m E. exfalso. eapply (o_nolock _ _ O); eauto.
  - intros. destruct Ls as [Ls | Ls]; rewrite Ls in H0; auto. destruct H0 as [H0 | H0]; auto. discriminate H0.
  - intros. destruct Ls as [Ls | Ls]; rewrite Ls in H0; auto. destruct H0 as [H0 | H0]; auto. discriminate H0.
  - intros. destruct Ld as [Ld | [e' [R1 Ld]]]; rewrite Ld in H0; auto. destruct H0 as [H0 | H0]; auto. subst e'.
    cbn [reply_of] in R1. discriminate R1.
  - intros. destruct Ld as [Ld | [e' [R1 Ld]]]; rewrite Ld; auto. right. auto.
Qed.

(* the closing argument shared by told err and rollback_send *)
Lemma err_ok_closed : forall s T, linv s T -> oinv s T -> hasm s T -> err_ok (getc s T) = true ->
  exists k0, In k0 (lm s T) /\ kc s T KSent k0 = kc s T KNegD k0.
Proof.
  intros s T L O Hm H. unfold err_ok in H. apply orb_true_iff in H. destruct H as [H | H].
  - exfalso. unfold hasm, F in Hm. apply negb_true_iff in H. apply fb_false in H. contradiction.
  - apply existsb_exists in H. destruct H as [k0 [H1 H2]]. apply N.eqb_eq in H2. exists k0. split; auto.
    destruct (o_cnt _ _ O k0) as [A B]. pose proof (l_cntle _ _ L k0) as C. unfold kc in *. lia.
Qed.

Lemma oinv_rb_send : forall s s' r T ks, Linv s -> stepr s (ERbSend r T ks) = Ok s' -> onepcm s T -> oinv s T -> oinv s' T.
Proof.
  intros s s' r T ks HL H Om O. pose proof (onepcm_cp _ _ Om) as Hcp. destruct Om as [Hm [H1 [H2 H3]]].
  cbn [stepr] in H. unfold step_rb_send in H. chks H. okinv H.
  apply andb_true_iff in C0. destruct C0 as [_ C0]. rewrite Hcp in C0. cbn [negb orb] in C0.
  destruct (err_ok_closed _ _ (HL T) O Hm C0) as [k0 [K1 K2]].
  constructor; unfold call, kc, lm, prim, F in *; intros; rd; insplit.
  - eapply (o_send _ _ O); eauto.
  - eapply (o_entry _ _ O); eauto.
  - apply (o_nolock _ _ O).
  - eapply (o_commit _ _ O); eauto.
  - apply (o_cnt _ _ O).
  - exists k0. auto.
  - apply (o_1pcts _ _ O); auto.
  - apply (o_told _ _ O); auto.
Qed.

Lemma oinv_told : forall s s' T x, Inv s -> Linv s -> stepr s (ETold T x) = Ok s' -> onepcm s T -> oinv s T -> oinv s' T.
Proof.
  intros s s' T x HI HL H Om O. pose proof (onepcm_cp _ _ Om) as Hcp. destruct Om as [Hm [H1 [H2 H3]]].
  destruct (HI T) as [G _]. pose proof (HL T) as L.
  cbn [stepr] in H. unfold step_told in H. chks H. b2p.
  destruct x; chks H; okinv H; constructor; unfold call, kc, lm, prim, F in *; intros; rd.
  all: try (eapply (o_send _ _ O); eauto; fail).
  all: try (eapply (o_entry _ _ O); eauto; fail).
  all: try (apply (o_nolock _ _ O); fail).
  all: try (eapply (o_commit _ _ O); eauto; fail).
  all: try (apply (o_cnt _ _ O); fail).
  all: try (apply (o_1pcts _ _ O); auto; fail).
  all: try discriminate.
  - (* told ok: dead only through an earlier rollback_send *)
    apply (o_dead _ _ O). destruct H as [H | H]; [discriminate H | right; auto].
  - (* told ok: the primary is committed *)
    match goal with Hx : negb (cn _ FPcOk =? 0) || _ || _ || _ = true |- _ => rename Hx into CR end.
    apply orb_true_iff in CR. destruct CR as [CR | CD]; [| exfalso; b2p; unfold hasm, F in Hm; congruence].
    apply orb_true_iff in CR. destruct CR as [CR | CR]; [apply orb_true_iff in CR; destruct CR as [CR | CR] |]; b2p.
    + exists (cn (getc s T) FPcOk). apply (l_pcok _ _ L); auto.
    + destruct (o_1pcts _ _ O CR) as [r [ks [m E]]]. exists (cn (getc s T) F1pcTs). apply (o_entry _ _ O _ _ _ _ E).
      apply (o_prim_all s T L Hm).
    + assert (Hp : In (cn (getc s T) FPrim) (c_pwok (getc s T))).
      { eapply subset_In; eauto. apply (l_prim _ _ L Hm). }
      apply (g_pwok _ _ G) in Hp. destruct Hp as [r [ks [m [o [E1 E2]]]]]. exists o. apply (o_entry _ _ O _ _ _ _ E1).
      apply (o_prim_all s T L Hm).
  - apply (o_dead _ _ O). destruct H as [H | H]; [discriminate H | right; auto].
  - apply andb_true_iff in C1. destruct C1 as [C1 _]. apply andb_true_iff in C1. destruct C1 as [_ C1].
    rewrite Hcp in C1. cbn [negb orb] in C1. apply (err_ok_closed _ _ L O Hm C1).
Qed.

Lemma oinv_pw_send : forall s s' r T p ks a o m f secs, Inv s -> Zinv s ->
  stepr s (EPwSend r T p ks a o m f secs) = Ok s' -> (onepcm s T -> oinv s T) -> onepcm s' T -> oinv s' T.
Proof.
  intros s s' r T p ks a o m f secs HI HZ H OI [Hm' [H1' [H2' H3']]]. destruct (HI T) as [G _]. pose proof (HZ T) as Z.
  cbn [stepr] in H. unfold step_pw_send in H. chks H. okinv H. b2p.
  destruct o; [| exfalso; unfold F in H2'; destruct a; rd; discriminate].
  match goal with |- oinv (setc _ T ?cc) T => set (c' := cc) in * end.
  assert (RC : cn c' FHasm = cn (getc s T) FHasm /\ cn c' FPrim = cn (getc s T) FPrim /\ cn c' FTold = cn (getc s T) FTold /\
               cn c' FDead = cn (getc s T) FDead /\ cn c' F1pcTs = cn (getc s T) F1pcTs /\ cn c' FFb1 = cn (getc s T) FFb1 /\
               cn c' FStFb = cn (getc s T) FStFb /\
               c_lm c' = c_lm (getc s T) /\ c_all c' = c_all (getc s T) /\
               forall t k, kcnt c' t k = (if KSent =? t then occ k ks else 0) + kcnt (getc s T) t k).
  { unfold c'. destruct a; rd; repeat split; try reflexivity; intros; rewrite ?kcnt_setn; rewrite kcnt_add_kl, ?kcnt_incn; reflexivity. }
  destruct RC as [R1 [R2 [R3 [R4 [R5 [R6 [R7 [R8 [R9 R10]]]]]]]]]. clearbody c'.
  unfold hasm, F in *. rewrite getc_setc_eq in *. rewrite ?R1, ?R6, ?R7 in *.
  assert (Hall : forall k, In k (c_all (getc s T)) -> In k ks).
  { intros k Hk. apply fb_true in Hm'. rewrite Hm' in C5. cbn [andb negb orb] in C5. eapply subset_In; eauto. }
  assert (NoRb : forall r0 ks0, ~ In (ERbSend r0 T ks0) (s_sent s)).
  { intros r0 ks0 Hi. apply (g_rb_dead _ _ G) in Hi. unfold F in Hi. congruence. }
  destruct (N.eq_dec (cn (getc s T) FPwSent) 0) as [E0 | En0].
  - (* the first prewrite request *)
    assert (NoS : forall r0 p0 ks0 a0 o0 m0 f0 secs0, ~ In (EPwSend r0 T p0 ks0 a0 o0 m0 f0 secs0) (s_sent s)).
    { intros. intros Hi. apply (g_pwsent_cnt _ _ G) in Hi. unfold F in Hi. congruence. }
    assert (NoD : forall r0 ks0 x0, ~ In (EPwReply r0 T ks0 x0) (s_dlv s)).
    { intros r0 ks0 x0 Hi. apply (g_pw_sent _ _ G) in Hi. destruct Hi as [p0 [a0 [o0 [m0 [f0 [secs0 Hi]]]]]]. eapply NoS; eauto. }
    pose proof (z_cnt0 _ _ Z E0) as Ekl.
    assert (K0 : forall t k, kcnt (getc s T) t k = 0) by (intros; unfold kcnt; rewrite Ekl; reflexivity).
    constructor; unfold call, kc, lm, prim, F; intros; rd; rewrite ?R2, ?R3, ?R5, ?R8, ?R9 in *; insplit.
    + split; auto.
    + exfalso; eapply NoS; eauto.
    + exfalso; eapply NoD; eauto.
    + intros E; destruct (g_kst_fresh _ _ G k E0) as [A | A]; congruence.
    + exfalso; destruct (g_kst_fresh _ _ G k E0) as [A | A]; congruence.
    + rewrite !R10, !K0. cbn. split; lia.
    + destruct H as [H | [r0 [ks0 H]]]; [congruence | insplit; exfalso; eapply NoRb; eauto].
    + exfalso. apply (g_1pcts _ _ G) in H. apply (z_tried _ _ Z); auto.
    + congruence.
  - (* a further request of a one-phase commit *)
    assert (HO : oinv s T).
    { apply OI. destruct (z_mode _ _ Z En0) as [[B | B] _]; repeat split; auto; unfold F in *; congruence. }
    constructor; unfold call, kc, lm, prim, F; intros; rd; rewrite ?R2, ?R3, ?R5, ?R8, ?R9 in *; insplit.
    + split; auto.
    + eapply (o_send _ _ HO); eauto.
    + eapply (o_entry _ _ HO); eauto.
    + apply (o_nolock _ _ HO).
    + eapply (o_commit _ _ HO); eauto.
    + rewrite !R10. cbn. destruct (o_cnt _ _ HO k) as [A B]. unfold kc in *. split; lia.
    + destruct H as [H | [r0 [ks0 H]]]; [congruence | insplit; exfalso; eapply NoRb; eauto].
    + apply (o_1pcts _ _ HO); auto.
    + apply (o_told _ _ HO); auto.
Qed.

Lemma forallb_In : forall (f : N -> bool) l k, forallb f l = true -> In k l -> f k = true.
Proof. intros f l k H Hk. rewrite forallb_forall in H. auto. Qed.

Lemma oinv_pw_reply : forall s s' r T ks x, Inv s -> stepr s (EPwReply r T ks x) = Ok s' ->
  (onepcm s T -> oinv s T) -> onepcm s' T -> oinv s' T.
Proof.
  intros s s' r T ks x HI H OI [Hm' [H1' [H2' H3']]]. destruct (HI T) as [G _].
  cbn [stepr] in H. unfold step_pw_reply in H. chks H. okinv H. apply delivered_In in C0.
  match goal with |- oinv (setc _ T ?cc) T => set (c' := cc) in * end.
  assert (RC : cn c' FHasm = cn (getc s T) FHasm /\ cn c' FPrim = cn (getc s T) FPrim /\ cn c' FTold = cn (getc s T) FTold /\
               cn c' FTried1 = cn (getc s T) FTried1 /\ cn c' FStFb = cn (getc s T) FStFb /\
               (cn c' FFb1 = 0 -> cn (getc s T) FFb1 = 0 /\ forall m o, x = PwOk m o -> o <> 0) /\
               c_lm c' = c_lm (getc s T) /\ c_all c' = c_all (getc s T) /\
               (forall k, kcnt c' KSent k = kcnt (getc s T) KSent k /\ kcnt c' KDlv k = kcnt (getc s T) KDlv k /\
                          kcnt c' KNegD k = kcnt (getc s T) KNegD k /\
                          kcnt c' KNeg k = (match x with PwOk _ _ => 0 | _ => occ k ks end) + kcnt (getc s T) KNeg k) /\
               (cn c' F1pcTs = cn (getc s T) F1pcTs \/ exists m, x = PwOk m (cn c' F1pcTs))).
  { unfold c'. destruct x as [m o | kd |].
    - match goal with |- context [if ?b then setn _ FMinc _ else _] => destruct b end;
      (unfold onepc_on; repeat (rewrite ?fb_add_pwok, ?fb_add_kl; try rewrite fb_setn_ne by discriminate; try rewrite fb_incn_ne by discriminate);
      destruct (o =? 0) eqn:Eo, (m =? 0), (fb (getc s T) FTried1) eqn:Et, (fb (getc s T) FFb1) eqn:Ef1; cbn [andb negb]; rd; repeat split; try reflexivity; intros;
        try discriminate; try (inversion H0; subst; apply N.eqb_neq in Eo; auto; fail);
        rewrite ?kcnt_setn, ?kcnt_add_pwok; repeat rewrite kcnt_add_kl; rewrite ?kcnt_incn; cbn; try lia; try reflexivity;
        try (left; reflexivity); try (right; eexists; reflexivity);
        try (apply fb_false in Et; unfold F in H1'; try congruence)).
    - rd. repeat split; try reflexivity; intros; try discriminate;
        rewrite ?kcnt_setn; repeat rewrite kcnt_add_kl; rewrite ?kcnt_incn; cbn; try lia; left; reflexivity.
    - rd. repeat split; try reflexivity; intros; try discriminate;
        repeat rewrite kcnt_add_kl; rewrite ?kcnt_incn; cbn; try lia; left; reflexivity. }
  destruct RC as [R1 [R2 [R3 [R4 [R5 [R6 [R8 [R9 [R10 R11]]]]]]]]]. clearbody c'.
  unfold hasm, F in *. rewrite getc_setc_eq in *. rewrite ?R1, ?R4, ?R5 in *. destruct (R6 H2') as [H2 Hox].
  assert (HO : oinv s T) by (apply OI; repeat split; auto).
  assert (Hcp : commit_point_pw (getc s T) = true) by (unfold commit_point_pw; apply fb_true in H1'; rewrite H1'; apply orb_true_r).
  constructor; unfold call, kc, lm, prim, F; intros; rd; rewrite ?R2, ?R3, ?R8, ?R9 in *.
  - eapply (o_send _ _ HO); eauto.
  - eapply (o_entry _ _ HO); eauto.
  - apply (o_nolock _ _ HO).
  - eapply (o_commit _ _ HO); eauto.
  - destruct (R10 k) as [E1 [E2 [E3 E4]]]. rewrite E1, E2, E3, E4. destruct (o_cnt _ _ HO k) as [A B]. unfold kc in *. split; auto.
    destruct x as [m o | kd |]; try lia.
    + rewrite Hcp in C1. cbn [negb orb] in C1. destruct (in_dec N.eq_dec k ks) as [Hk | Hk].
      * pose proof (forallb_In _ _ _ C1 Hk) as Cx. cbn beta in Cx. apply N.leb_le in Cx. lia.
      * rewrite (occ_zero _ _ Hk). lia.
    + rewrite Hcp in C1. cbn [negb orb] in C1. destruct (in_dec N.eq_dec k ks) as [Hk | Hk].
      * pose proof (forallb_In _ _ _ C1 Hk) as Cx. cbn beta in Cx. apply N.leb_le in Cx. lia.
      * rewrite (occ_zero _ _ Hk). lia.
  - destruct (o_dead _ _ HO H) as [k0 [K1 K2]]. exists k0. split; auto. destruct (R10 k0) as [E1 [_ [E3 _]]]. rewrite E1, E3. auto.
  - destruct R11 as [R11 | [m R11]].
    + rewrite R11 in *. apply (o_1pcts _ _ HO); auto.
    + subst x. exists r, ks, m. auto.
  - apply (o_told _ _ HO); auto.
Qed.

Lemma oinv_pw_deliver : forall s s' r T ks x, Inv s -> Linv s -> stepr s (EPwDeliver r T ks x) = Ok s' ->
  (onepcm s T -> oinv s T) -> onepcm s' T -> oinv s' T.
Proof.
  intros s s' r T ks x HI HL H OI [Hm' [H1' [H2' H3']]]. destruct (HI T) as [G _]. pose proof (HL T) as L.
  pose proof (stepr_kmono _ _ _ H) as KM. pose proof (stepr_lists _ _ _ H) as [Ls _].
  assert (Hsent : forall y, y <> EPwDeliver r T ks x -> In y (s_sent s') -> In y (s_sent s)).
  { intros y Hne Hy. destruct Ls as [Ls | Ls]; rewrite Ls in Hy; auto. destruct Hy as [Hy | Hy]; auto. congruence. }
  cbn [stepr] in H. unfold step_pw_deliver in H. chks H.
  apply sent_by_In in C. destruct C as [e0 [Ce1 Ce2]]. destruct e0; try discriminate. beq. subst. clear C0 C2 C3.
  match type of H with context [sent_by s ?pp] => set (req1 := sent_by s pp) in * end.
  assert (Hreq : forall r0 p0 a0 m0 f0 secs0, In (EPwSend r0 T p0 ks a0 true m0 f0 secs0) (s_sent s) -> r0 = r -> req1 = true).
  { intros r0 p0 a0 m0 f0 secs0 Hin ->. unfold req1, sent_by. apply existsb_exists. eexists. split; [exact Hin |].
    cbn beta iota. rewrite !N.eqb_refl, leqb_refl. reflexivity. }
  clearbody req1.
  match type of H with context [setc (add_dlv s ?ee) T ?cc] => set (c' := cc) in *; set (e' := ee) in * end.
  change (setc (add_dlv s e') T c') with (add_dlv (setc s T c') e') in H.
  set (b := setc s T c') in *.
  assert (Kb : forall k, kget b T k = kget s T k) by reflexivity.
  assert (exists tr kk, tr_ok tr /\ tr_idem tr /\ tr_total_locked tr /\ step_keys (add_dlv b e') T kk tr = Some s' /\
            match x with PwOk m o => kk = ks /\ tr = (if o =? 0 then tr_pw m else tr_1pc o) | _ => kk = [] end)
    as [tr [kk [Hok [Hid [Htot [E Hx]]]]]].
  { destruct x as [m0 o0 | |]; [destruct (o0 =? 0) eqn:Eo | |].
    - destruct (step_keys _ _ _ _) as [s2 |] eqn:E; [| discriminate]. okinv H. exists (tr_pw m0), ks.
      repeat split; auto using tr_pw_ok, tr_pw_idem, tr_pw_total.
    - destruct (step_keys _ _ _ _) as [s2 |] eqn:E; [| discriminate]. okinv H. exists (tr_1pc o0), ks.
      repeat split; auto using tr_1pc_ok, tr_1pc_idem, tr_1pc_total.
    - okinv H. exists tr_rb, []. repeat split; auto using tr_rb_ok, tr_rb_idem, tr_rb_total.
    - okinv H. exists tr_rb, []. repeat split; auto using tr_rb_ok, tr_rb_idem, tr_rb_total. }
  pose proof (step_keys_char _ _ _ _ _ _ Hok Hid Htot E) as Ch.
  assert (Gc : getc s' T = c') by (rewrite (step_keys_getc _ _ _ _ _ T E); unfold b; rd; reflexivity).
  destruct (step_keys_lists _ _ _ _ _ E) as [_ [Ed _]]. cbn [s_dlv add_dlv w_dlv] in Ed.
  assert (Hd' : s_dlv s' = e' :: s_dlv s) by (rewrite Ed; reflexivity).
  assert (RC : cn c' FHasm = cn (getc s T) FHasm /\ cn c' FPrim = cn (getc s T) FPrim /\ cn c' FTold = cn (getc s T) FTold /\
               cn c' FTried1 = cn (getc s T) FTried1 /\ cn c' FFb1 = cn (getc s T) FFb1 /\ cn c' F1pcTs = cn (getc s T) F1pcTs /\
               c_lm c' = c_lm (getc s T) /\ c_all c' = c_all (getc s T) /\
               (cn c' FStFb = 0 -> cn (getc s T) FStFb = 0 /\ (fb (getc s T) FTried1 = true -> forall m o, x = PwOk m o -> o = 0 -> req1 = false)) /\
               forall k, kcnt c' KSent k = kcnt (getc s T) KSent k /\ kcnt c' KNeg k = kcnt (getc s T) KNeg k /\
                         kcnt c' KDlv k = occ k ks + kcnt (getc s T) KDlv k /\
                         kcnt c' KNegD k = (match x with PwOk _ _ => 0 | _ => occ k ks end) + kcnt (getc s T) KNegD k).
  { unfold c'. destruct x as [m0 o0 | kd |].
    - unfold commit_point_pw. repeat (rewrite ?fb_add_kl; try rewrite fb_setn_ne by discriminate).
      assert (Efb : forall g cc lst mm, fb (add_lam cc lst mm) g = fb cc g) by reflexivity.
      destruct (o0 =? 0) eqn:Eo; rewrite ?Efb, ?fb_add_kl;
        destruct (fb (getc s T) FTriedA), (fb (getc s T) FTried1) eqn:Et, (m0 =? 0), req1; cbn [orb andb]; rd;
        repeat split; try reflexivity; intros; try discriminate;
        try (match goal with Hx : PwOk _ _ = PwOk _ _ |- _ => inversion Hx; subst end; apply N.eqb_neq in Eo; congruence);
        rewrite ?kcnt_setn, ?kcnt_add_lam; repeat rewrite kcnt_add_kl; cbn; try lia; auto.
    - rd. repeat split; try reflexivity; intros; try discriminate; repeat rewrite kcnt_add_kl; cbn; lia.
    - rd. repeat split; try reflexivity; intros; try discriminate; repeat rewrite kcnt_add_kl; cbn; lia. }
  destruct RC as [R1 [R2 [R3 [R4 [R5 [R6 [R7 [R8 [R9 R10]]]]]]]]]. clearbody c'.
  unfold hasm, F in *. rewrite Gc in *. rewrite ?R1, ?R4, ?R5 in *. destruct (R9 H3') as [H3 Hox0].
  assert (Ht1 : fb (getc s T) FTried1 = true) by (apply fb_true; auto).
  assert (HO : oinv s T) by (apply OI; repeat split; auto).
  assert (Hox : fb (getc s T) FTried1 = true -> forall m o, x = PwOk m o -> o <> 0).
  { intros _ m1 o1 Hx1 Ho1. pose proof (Hox0 Ht1 _ _ Hx1 Ho1) as Hq.
    destruct (o_send _ _ HO _ _ _ _ _ _ _ _ Ce1) as [Hone _]. rewrite Hone in Ce1. rewrite (Hreq _ _ _ _ _ _ Ce1 eq_refl) in Hq. discriminate. }
  assert (Hcp : commit_point_pw (getc s T) = true) by (unfold commit_point_pw; rewrite Ht1; apply orb_true_r).
  rewrite Hcp in C1. cbn [negb orb] in C1.
  assert (Hcnt : forall k, In k ks -> kcnt (getc s T) KDlv k + occ k ks <= kcnt (getc s T) KSent k).
  { intros k Hk. pose proof (forallb_In _ _ _ C1 Hk) as Cx. cbn beta in Cx. apply N.leb_le in Cx. auto. }
  assert (Hall : forall k, In k (c_all (getc s T)) -> In k ks) by (apply (o_send _ _ HO _ _ _ _ _ _ _ _ Ce1)).
  (* a closed key cannot be delivered to any more *)
  assert (NoDead : forall k0, In k0 (c_lm (getc s T)) -> kcnt (getc s T) KSent k0 = kcnt (getc s T) KNegD k0 -> False).
  { intros k0 K1 K2. assert (Hk : In k0 ks) by (apply Hall; apply (l_lm_all _ _ L); auto).
    pose proof (Hcnt k0 Hk) as A. pose proof (occ_pos _ _ Hk) as B. pose proof (l_cntle _ _ L k0) as D. unfold kc in D. lia. }
  assert (Old : forall r0 ks0 x0, In (EPwReply r0 T ks0 x0) (s_dlv s) -> In (EPwReply r0 T ks0 x0) (s_dlv s')) by (intros; rewrite Hd'; right; auto).
  constructor; unfold call, kc, lm, prim, F; rewrite ?Gc, ?R2, ?R3, ?R6, ?R7, ?R8; intros.
  - apply Hsent in H0; [| discriminate]. eapply (o_send _ _ HO); eauto.
  - rewrite Hd' in H0. destruct H0 as [H0 | H0].
    + unfold e' in H0. inversion H0. subst x. split; [eapply Hox; eauto |]. intros k Hk.
      destruct Hx as [-> ->]. assert (Ho : o <> 0) by (eapply Hox; eauto). apply N.eqb_neq in Ho. rewrite Ho in *.
      destruct (Ch k) as [[_ A] | [A _]]; [| exfalso; apply A; apply Hall; auto]. apply tr_1pc_res2 in A. auto.
    + destruct (o_entry _ _ HO _ _ _ _ H0) as [B1 B2]. split; auto. intros k Hk. eapply km_committed; eauto.
  - intros E1. destruct (Ch k) as [[Hk A] | [Hk A]].
    + destruct x as [m1 o1 | |]; [| subst kk; destruct Hk | subst kk; destruct Hk]. destruct Hx as [-> ->].
      assert (Ho : o1 <> 0) by (eapply Hox; eauto). apply N.eqb_neq in Ho. rewrite Ho in *. apply tr_1pc_res2 in A. congruence.
    + rewrite Kb in A. rewrite A in E1. eapply (o_nolock _ _ HO); eauto.
  - destruct (Ch k) as [[Hk A] | [Hk A]].
    + destruct x as [m1 o1 | |]; [| subst kk; destruct Hk | subst kk; destruct Hk]. destruct Hx as [-> ->].
      assert (Ho : o1 <> 0) by (eapply Hox; eauto). apply N.eqb_neq in Ho. rewrite Ho in *. apply tr_1pc_res2 in A.
      rewrite H0 in A. inversion A. subst c. exists r, ks, m1. rewrite Hd'. left. reflexivity.
    + rewrite Kb in A. rewrite A in H0. destruct (o_commit _ _ HO _ _ H0) as [r0 [ks0 [m1 E1]]]. exists r0, ks0, m1. auto.
  - destruct (R10 k) as [E1 [E2 [E3 E4]]]. rewrite E1, E2, E3, E4. destruct (o_cnt _ _ HO k) as [A B]. unfold kc in *.
    pose proof (l_cntle _ _ L k) as D. unfold kc in D. split.
    + destruct (in_dec N.eq_dec k ks) as [Hk | Hk]; [apply Hcnt in Hk; lia | rewrite (occ_zero _ _ Hk); lia].
    + destruct x; lia.
  - exfalso. assert (Hp : cn (getc s T) FTold = 3 \/ exists r0 ks0, In (ERbSend r0 T ks0) (s_sent s)).
    { destruct H0 as [H0 | [r0 [ks0 H0]]]; [left; auto | right; exists r0, ks0; apply Hsent; auto; discriminate]. }
    destruct (o_dead _ _ HO Hp) as [k0 [K1 K2]]. unfold kc in K2.
    eapply NoDead; eauto.
  - destruct (o_1pcts _ _ HO H0) as [r0 [ks0 [m1 E1]]]. exists r0, ks0, m1. auto.
  - destruct (o_told _ _ HO H0) as [c E1]. exists c. eapply km_committed; eauto.
Qed.
