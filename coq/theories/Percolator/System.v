(* Percolator/System.v — executable acceptor for the event vocabulary of docs/PERC_EVENTS.md.
   [stepr s e] checks [e] against the RULES (sends: guards only = the most general rule-abiding
   client) and against the abstract per-(txn,key) store (delivers), and does the bookkeeping.
   Network: [s_sent] is persistent (a sent request may be delivered any number of times, at any
   later point; never = loss) EXCEPT the commit-point request of classic 2PC (a Commit request
   containing the primary), which is delivered at most once per send event (counted) — the
   client's "definite negative answer" reasoning (cleanup / told err) is only sound for a
   transport that does not replay a refused primary commit (gRPC does not). *)
From Verif Require Export Percolator.Event.

(* ---------------- per-transaction client record ---------------- *)
Inductive fld :=
| FCalled | FCausal | FWm | FHasm | FPrim
| FTriedA | FTried1 | FFb | FFb1
| FPwSent | FPwRep | FPwErr | FMinc | F1pcTs
| FPcSent | FPcDlv | FPcOkd | FPcFaild | FPcNeg | FPcRep | FPcOk | FPcRb
| FDead | FTold | FRbTold | FHb | FPlPrim | FPlAny | FStFb.
Definition fld_eqb (a b : fld) : bool :=
  match a, b with
  | FCalled, FCalled | FCausal, FCausal | FWm, FWm | FHasm, FHasm | FPrim, FPrim
  | FTriedA, FTriedA | FTried1, FTried1 | FFb, FFb | FFb1, FFb1
  | FPwSent, FPwSent | FPwRep, FPwRep | FPwErr, FPwErr | FMinc, FMinc | F1pcTs, F1pcTs
  | FPcSent, FPcSent | FPcDlv, FPcDlv | FPcOkd, FPcOkd | FPcFaild, FPcFaild | FPcNeg, FPcNeg
  | FPcRep, FPcRep | FPcOk, FPcOk | FPcRb, FPcRb
  | FDead, FDead | FTold, FTold | FRbTold, FRbTold | FHb, FHb | FPlPrim, FPlPrim | FPlAny, FPlAny | FStFb, FStFb => true
  | _, _ => false
  end.

Record crec := { cn : fld -> N;          (* numeric / boolean (0,1) fields *)
                 c_lm : list N;          (* locked (non-cne) mutation keys *)
                 c_all : list N;         (* all mutation keys, cne included *)
                 c_pwok : list N;        (* keys covered by a successful prewrite reply *)
                 c_kl : list (N * N);    (* per-key prewrite accounting: (tag, key), see KSent .. KRep *)
                 c_lam : list (N * N) }. (* ghost: (key, min-commit ts of the lock) recorded when the key is first locked *)
Definition c0 : crec := {| cn := fun _ => 0; c_lm := []; c_all := []; c_pwok := []; c_kl := []; c_lam := [] |}.
Definition setn (c : crec) (f : fld) (v : N) : crec :=
  {| cn := fun g => if fld_eqb g f then v else cn c g; c_lm := c_lm c; c_all := c_all c; c_pwok := c_pwok c; c_kl := c_kl c; c_lam := c_lam c |}.
Definition set_muts (c : crec) (lm al : list N) : crec :=
  {| cn := cn c; c_lm := lm; c_all := al; c_pwok := c_pwok c; c_kl := c_kl c; c_lam := c_lam c |}.
Definition add_pwok (c : crec) (ks : list N) : crec :=
  {| cn := cn c; c_lm := c_lm c; c_all := c_all c; c_pwok := ks ++ c_pwok c; c_kl := c_kl c; c_lam := c_lam c |}.
(* tags of the per-key prewrite accounting: requests sent / delivered / delivered with a negative
   result / negative replies received / replies received, each counted once per key of the request *)
Definition KSent : N := 0. Definition KDlv : N := 1. Definition KNegD : N := 2. Definition KNeg : N := 3. Definition KRep : N := 4.
Definition add_kl (c : crec) (tag : N) (ks : list N) : crec :=
  {| cn := cn c; c_lm := c_lm c; c_all := c_all c; c_pwok := c_pwok c; c_kl := map (fun k => (tag, k)) ks ++ c_kl c; c_lam := c_lam c |}.
Definition add_lam (c : crec) (ks : list N) (m : N) : crec :=
  {| cn := cn c; c_lm := c_lm c; c_all := c_all c; c_pwok := c_pwok c; c_kl := c_kl c; c_lam := map (fun k => (k, m)) ks ++ c_lam c |}.
Fixpoint lam_l (l : list (N * N)) (k : N) : option N :=
  match l with [] => None | (k', m) :: r => if k' =? k then Some m else lam_l r k end.
Definition lam (c : crec) (k : N) : option N := lam_l (c_lam c) k.
Fixpoint kcnt_l (tag k : N) (l : list (N * N)) : N :=
  match l with
  | [] => 0
  | (t, k') :: r => (if (t =? tag) && (k' =? k) then 1 else 0) + kcnt_l tag k r
  end.
Definition kcnt (c : crec) (tag k : N) : N := kcnt_l tag k (c_kl c).
Fixpoint occ (k : N) (ks : list N) : N :=
  match ks with [] => 0 | k' :: r => (if k' =? k then 1 else 0) + occ k r end.
Definition fb (c : crec) (f : fld) : bool := negb (cn c f =? 0).
Definition incn (c : crec) (f : fld) : crec := setn c f (cn c f + 1).

(* ---------------- global state ---------------- *)
Inductive just := JKey (p : N) | JAsync.
Record sys := {
  s_tso : N;                               (* last timestamp issued *)
  s_kst : list ((N * N) * kstate);         (* abstract store, newest binding first *)
  s_sent : list event;                     (* every *_send accepted so far *)
  s_dlv : list event;                      (* for every deliver: the reply it enables *)
  s_cl : list (N * crec);                  (* client records, newest first *)
  s_own : list (N * N);                    (* T -> owner R *)
  s_crashed : list N;
  s_cts : list event;                      (* ECtsReply received (resolver knowledge, incl. its cache) *)
  s_csl : list event;                      (* ECslReply received *)
  s_seen : list (N * N * N);               (* lockseen R T ttl *)
  s_gc : list (N * N);                     (* open gc windows R sp *)
  s_rs : list (N * N * just);              (* resolve requests sent: T, C, justification *)
  s_wr : list (N * N) }.                   (* whole-region resolves delivered ok: T, C *)
Definition init : sys :=
  {| s_tso := 0; s_kst := []; s_sent := []; s_dlv := []; s_cl := []; s_own := []; s_crashed := [];
     s_cts := []; s_csl := []; s_seen := []; s_gc := []; s_rs := []; s_wr := [] |}.

Definition w_tso s v := {| s_tso := v; s_kst := s_kst s; s_sent := s_sent s; s_dlv := s_dlv s; s_cl := s_cl s; s_own := s_own s; s_crashed := s_crashed s; s_cts := s_cts s; s_csl := s_csl s; s_seen := s_seen s; s_gc := s_gc s; s_rs := s_rs s; s_wr := s_wr s |}.
Definition w_kst s v := {| s_tso := s_tso s; s_kst := v; s_sent := s_sent s; s_dlv := s_dlv s; s_cl := s_cl s; s_own := s_own s; s_crashed := s_crashed s; s_cts := s_cts s; s_csl := s_csl s; s_seen := s_seen s; s_gc := s_gc s; s_rs := s_rs s; s_wr := s_wr s |}.
Definition w_sent s v := {| s_tso := s_tso s; s_kst := s_kst s; s_sent := v; s_dlv := s_dlv s; s_cl := s_cl s; s_own := s_own s; s_crashed := s_crashed s; s_cts := s_cts s; s_csl := s_csl s; s_seen := s_seen s; s_gc := s_gc s; s_rs := s_rs s; s_wr := s_wr s |}.
Definition w_dlv s v := {| s_tso := s_tso s; s_kst := s_kst s; s_sent := s_sent s; s_dlv := v; s_cl := s_cl s; s_own := s_own s; s_crashed := s_crashed s; s_cts := s_cts s; s_csl := s_csl s; s_seen := s_seen s; s_gc := s_gc s; s_rs := s_rs s; s_wr := s_wr s |}.
Definition w_cl s v := {| s_tso := s_tso s; s_kst := s_kst s; s_sent := s_sent s; s_dlv := s_dlv s; s_cl := v; s_own := s_own s; s_crashed := s_crashed s; s_cts := s_cts s; s_csl := s_csl s; s_seen := s_seen s; s_gc := s_gc s; s_rs := s_rs s; s_wr := s_wr s |}.
Definition w_own s v := {| s_tso := s_tso s; s_kst := s_kst s; s_sent := s_sent s; s_dlv := s_dlv s; s_cl := s_cl s; s_own := v; s_crashed := s_crashed s; s_cts := s_cts s; s_csl := s_csl s; s_seen := s_seen s; s_gc := s_gc s; s_rs := s_rs s; s_wr := s_wr s |}.
Definition w_crashed s v := {| s_tso := s_tso s; s_kst := s_kst s; s_sent := s_sent s; s_dlv := s_dlv s; s_cl := s_cl s; s_own := s_own s; s_crashed := v; s_cts := s_cts s; s_csl := s_csl s; s_seen := s_seen s; s_gc := s_gc s; s_rs := s_rs s; s_wr := s_wr s |}.
Definition w_cts s v := {| s_tso := s_tso s; s_kst := s_kst s; s_sent := s_sent s; s_dlv := s_dlv s; s_cl := s_cl s; s_own := s_own s; s_crashed := s_crashed s; s_cts := v; s_csl := s_csl s; s_seen := s_seen s; s_gc := s_gc s; s_rs := s_rs s; s_wr := s_wr s |}.
Definition w_csl s v := {| s_tso := s_tso s; s_kst := s_kst s; s_sent := s_sent s; s_dlv := s_dlv s; s_cl := s_cl s; s_own := s_own s; s_crashed := s_crashed s; s_cts := s_cts s; s_csl := v; s_seen := s_seen s; s_gc := s_gc s; s_rs := s_rs s; s_wr := s_wr s |}.
Definition w_seen s v := {| s_tso := s_tso s; s_kst := s_kst s; s_sent := s_sent s; s_dlv := s_dlv s; s_cl := s_cl s; s_own := s_own s; s_crashed := s_crashed s; s_cts := s_cts s; s_csl := s_csl s; s_seen := v; s_gc := s_gc s; s_rs := s_rs s; s_wr := s_wr s |}.
Definition w_gc s v := {| s_tso := s_tso s; s_kst := s_kst s; s_sent := s_sent s; s_dlv := s_dlv s; s_cl := s_cl s; s_own := s_own s; s_crashed := s_crashed s; s_cts := s_cts s; s_csl := s_csl s; s_seen := s_seen s; s_gc := v; s_rs := s_rs s; s_wr := s_wr s |}.
Definition w_rs s v := {| s_tso := s_tso s; s_kst := s_kst s; s_sent := s_sent s; s_dlv := s_dlv s; s_cl := s_cl s; s_own := s_own s; s_crashed := s_crashed s; s_cts := s_cts s; s_csl := s_csl s; s_seen := s_seen s; s_gc := s_gc s; s_rs := v; s_wr := s_wr s |}.
Definition w_wr s v := {| s_tso := s_tso s; s_kst := s_kst s; s_sent := s_sent s; s_dlv := s_dlv s; s_cl := s_cl s; s_own := s_own s; s_crashed := s_crashed s; s_cts := s_cts s; s_csl := s_csl s; s_seen := s_seen s; s_gc := s_gc s; s_rs := s_rs s; s_wr := v |}.

Fixpoint getc_l (l : list (N * crec)) (T : N) : crec :=
  match l with [] => c0 | (T', c) :: r => if T' =? T then c else getc_l r T end.
Definition getc (s : sys) (T : N) : crec := getc_l (s_cl s) T.
Definition setc (s : sys) (T : N) (c : crec) : sys := w_cl s ((T, c) :: s_cl s).

Fixpoint kget_l (l : list ((N * N) * kstate)) (T k : N) : kstate :=
  match l with
  | [] => Unlocked
  | ((T', k'), v) :: r => if (T' =? T) && (k' =? k) then v else kget_l r T k
  end.
Definition kget (s : sys) (T k : N) : kstate := kget_l (s_kst s) T k.
Definition kset (s : sys) (T k : N) (v : kstate) : sys := w_kst s (((T, k), v) :: s_kst s).

Fixpoint owner_l (l : list (N * N)) (T : N) : option N :=
  match l with [] => None | (T', r) :: t => if T' =? T then Some r else owner_l t T end.
Definition crashed (s : sys) (r : N) : bool := mem r (s_crashed s).
Definition owner_crashed (s : sys) (T : N) : bool :=
  match owner_l (s_own s) T with Some r => crashed s r | None => false end.

(* ---------------- reasons ---------------- *)
Inductive reason :=
| R1_unprewritten | R1_ts_start | R1_ts_mincommit | R1_ts_tso | R1_secondary_first | R1_key_not_mutation
| R2_rollback_after_commit | R2_commit_after_rollback
| R3_resolve_unreported | R3_wrong_primary | R3_csl_unlisted | R3_force_unjustified
| R4_expire_live_lock
| R5_hb_primary | R5_hb_ttl_decrease | R5_hb_ttl_age | R5_hb_after_end
| R6_primary_mismatch | R6_primary_not_locked | R6_key_not_mutation | R6_async_secondaries | R6_onepc_split | R6_mutations_late
| R7_ok_without_commit | R7_err_with_pending | R7_undet_without_pending | R7_send_after_told
| X_crashed | N_no_send | N_no_deliver | N_dup_commitpoint | N_dup_reply | N_dup_prewrite | T_tso_order | T_begin_unissued
| S_prewrite_after_rollback | S_commit_impossible | S_rollback_committed | S_cts_committed | S_cts_rolledback
| S_cts_locked | S_cts_secondary | S_cts_async | S_cts_secs | S_csl_locks | S_csl_commit | S_onepc | S_gone | S_mincommit.
Inductive res := Ok (s : sys) | Rej (r : reason).
Notation "'chk' b 'else' r ; k" := (if b then k else Rej r) (at level 200, b at level 0, r at level 0, right associativity).

(* ---------------- abstract store transitions ---------------- *)
Definition alt_of (c : N) : kstate := if c =? 0 then RolledBack else Committed c.
Definition is_some {A} (o : option A) : bool := match o with Some _ => true | None => false end.
(* a whole-region resolve (no key list) delivered earlier may have hit this key: a Locked key is then
   allowed to be seen as resolved (late application = one more delivery of that resolve request) *)
Definition wr_alt (s : sys) (T : N) (tr : kstate -> option kstate) : option kstate :=
  match find (fun sc => (fst sc =? T) && is_some (tr (alt_of (snd sc)))) (s_wr s) with
  | Some sc => tr (alt_of (snd sc))
  | None => None
  end.
Definition step_key (s : sys) (T k : N) (tr : kstate -> option kstate) : option sys :=
  match tr (kget s T k) with
  | Some v => Some (kset s T k v)
  | None => match kget s T k with
            | Locked _ => match wr_alt s T tr with Some v => Some (kset s T k v) | None => None end
            | _ => None
            end
  end.
Fixpoint step_keys (s : sys) (T : N) (ks : list N) (tr : kstate -> option kstate) : option sys :=
  match ks with
  | [] => Some s
  | k :: r => match step_key s T k tr with Some s' => step_keys s' T r tr | None => None end
  end.

Definition tr_pw (m : N) (v : kstate) : option kstate :=
  match v with
  | Unlocked => Some (Locked m)
  | Locked _ | Committed _ => Some v      (* the lock's min-commit ts never changes, see mc_consistent *)
  | RolledBack => None
  end.
Definition tr_1pc (o : N) (v : kstate) : option kstate :=
  match v with
  | Unlocked | Locked _ => Some (Committed o)
  | Committed c => if c =? o then Some v else None
  | RolledBack => None
  end.
Definition tr_cm (c : N) (v : kstate) : option kstate :=
  match v with
  | Locked _ => Some (Committed c)
  | Committed c' => if c' =? c then Some v else None
  | _ => None
  end.
Definition tr_rb (v : kstate) : option kstate :=
  match v with Committed _ => None | _ => Some RolledBack end.
Definition tr_rs (c : N) (v : kstate) : option kstate :=
  match v with Locked _ => Some (alt_of c) | _ => Some v end.
Definition tr_push (m : N) (v : kstate) : option kstate := Some v.
Definition tr_cts_committed (c : N) (v : kstate) : option kstate :=
  match v with Committed c' => if c' =? c then Some v else None | _ => None end.
Definition tr_cts_locked (m : N) (v : kstate) : option kstate :=
  match v with Unlocked => Some v | Locked m0 => Some v | _ => None end.
Definition tr_csl_lock (m : N) (v : kstate) : option kstate :=
  match v with Locked m0 => Some v | _ => None end.
Definition tr_csl_rb (v : kstate) : option kstate :=
  match v with Unlocked => Some RolledBack | _ => Some v end.
Fixpoint step_csl_locks (s : sys) (T : N) (l : list (N * N)) : option sys :=
  match l with
  | [] => Some s
  | (k, m) :: r => match step_key s T k (tr_csl_lock m) with Some s' => step_csl_locks s' T r | None => None end
  end.
(* a reported min-commit ts agrees with the store: a lock keeps the min-commit ts it was created with
   (0 = not an async-commit lock; an async-commit lock may be reported as 0 once a forced CheckTxnStatus
   turned it into a 2PC lock), a committed key reports its commit ts *)
Definition mc_consistent (s : sys) (T : N) (m k : N) : bool :=
  match kget s T k with
  | Locked m0 => (m0 =? m) || (m =? 0)
  | Committed c => (m =? 0) || (m =? c)
  | _ => true
  end.
Definition gone_key (s : sys) (T k : N) : bool :=
  match kget s T k with
  | Unlocked | RolledBack => true
  | Locked _ => existsb (fun sc => (fst sc =? T) && (snd sc =? 0)) (s_wr s)
  | Committed _ => false
  end.

(* CheckSecondaryLocks stops at the first key that is not locked: only that key gets the rollback marker *)
Definition first_gone (s : sys) (T : N) (ks : list N) : list N :=
  match find (gone_key s T) ks with Some k => [k] | None => [] end.

(* ---------------- matching of sends / delivers ---------------- *)
Definition sent_by (s : sys) (p : event -> bool) : bool := existsb p (s_sent s).
Definition delivered (s : sys) (e : event) : bool := existsb (reply_eqb e) (s_dlv s).
Definition add_sent (s : sys) (e : event) : sys := w_sent s (e :: s_sent s).
Definition add_dlv (s : sys) (e : event) : sys := w_dlv s (e :: s_dlv s).

Definition phys (t : N) : N := t / 262144.
Definition has_prim (c : crec) (ks : list N) : bool := fb c FHasm && mem (cn c FPrim) ks.
Definition async_kept (c : crec) : bool := fb c FTriedA && negb (fb c FFb).
Definition commit_point_pw (c : crec) : bool := fb c FTriedA || fb c FTried1.
(* the owner still runs async commit or 1PC: a successful prewrite may be the commit point *)
Definition onepc_on (c : crec) : bool := fb c FTried1 && negb (fb c FFb1).
Definition cp_active (c : crec) : bool := async_kept c || onepc_on c.
(* every primary commit sent so far has a definite negative answer, or one answered "lock gone" *)
Definition neg_ok (c : crec) : bool :=
  (cn c FPcOk =? 0) && ((cn c FPcNeg =? cn c FPcSent) || fb c FPcRb).
Definition pw_all_answered (c : crec) : bool := (cn c FPwSent <=? cn c FPwRep) || fb c FPwErr.
(* async commit / 1PC: some locked mutation can never be locked any more: every prewrite request sent
   for it has been answered negatively (none sent at all included) *)
Definition err_ok (c : crec) : bool :=
  negb (fb c FHasm) || existsb (fun k => kcnt c KSent k =? kcnt c KNeg k) (c_lm c).
(* every prewrite request sent has been answered *)
Definition pw_closed (c : crec) : bool := forallb (fun k => kcnt c KSent k =? kcnt c KRep k) (c_all c).
Definition async_cts (s : list event) (r T : N) (ks : list N) : bool :=
  existsb (fun e => match e with
                    | ECtsReply r' s' _ (StLocked _ _ true secs) => (r' =? r) && (s' =? T) && subset ks secs
                    | _ => false end) s.

Definition lock_keys (ms : list (N * op)) : list N :=
  map fst (filter (fun ko => match snd ko with OpCne => false | _ => true end) ms).

(* rule 3: justification of a resolve request by what the store reported to R *)
Definition just_cts (s : sys) (r T c : N) : option N :=
  match find (fun e => match e with
                       | ECtsReply r' s' _ (StCommitted c') => (r' =? r) && (s' =? T) && (c' =? c) && negb (c =? 0)
                       | ECtsReply r' s' _ StRolledBack => (r' =? r) && (s' =? T) && (c =? 0)
                       | _ => false end) (s_cts s) with
  | Some (ECtsReply _ _ p _) => Some p
  | _ => None
  end.
Definition csl_missing (s : sys) (r T c : N) : bool :=
  existsb (fun e => match e with ECslReply r' s' _ (CslCommit c') => (r' =? r) && (s' =? T) && (c' =? c) | _ => false end) (s_csl s).
Definition csl_lock_ms (s : sys) (r T : N) : list (N * N) :=
  flat_map (fun e => match e with ECslReply r' s' _ (CslLocks l) => if (r' =? r) && (s' =? T) then l else [] | _ => [] end) (s_csl s).
Definition csl_all_locked (s : sys) (r T c : N) : bool :=
  existsb (fun e => match e with
     | ECtsReply r' s' _ (StLocked _ m true secs) =>
         (r' =? r) && (s' =? T) &&
         let l := csl_lock_ms s r T in
         forallb (fun k => existsb (fun km => fst km =? k) l) secs &&
         forallb (fun km => negb (snd km =? 0)) (filter (fun km => mem (fst km) secs) l) &&   (* every lock an async-commit lock *)
         (c =? fold_left N.max (map snd (filter (fun km => mem (fst km) secs) l)) m)
     | _ => false end) (s_cts s).

(* rule 4 *)
Definition expire_allowed (s : sys) (r T : N) : bool :=
  existsb (fun x => match x with (r', s', ttl) => (r' =? r) && (s' =? T) && ((ttl =? 0) || (phys T + ttl <=? phys (s_tso s))) end) (s_seen s)
  || existsb (fun g => (fst g =? r) && (T <=? snd g)) (s_gc s).

(* ---------------- the acceptor ---------------- *)
Definition told_code (t : told_res) : N := match t with TOk => 1 | TUndet => 2 | TErr => 3 end.

Definition step_pw_send (s : sys) (e : event) (r T p : N) (ks : list N) (async onepc : bool) (secs : list N) : res :=
  let c := getc s T in
  chk (negb (crashed s r)) else X_crashed;
  chk (cn c FTold =? 0) else R7_send_after_told;
  chk (negb (fb c FDead)) else R2_commit_after_rollback;
  chk (negb (fb c FHasm) || (p =? cn c FPrim)) else R6_primary_mismatch;
  chk (negb (fb c FHasm) || subset ks (c_all c)) else R6_key_not_mutation;
  chk (negb (fb c FHasm && async && mem p ks) ||
       (subset secs (c_lm c) && negb (mem p secs) && forallb (fun k => (k =? p) || mem k secs) (c_lm c))) else R6_async_secondaries;
  chk (negb (fb c FHasm && onepc) || subset (c_all c) ks) else R6_onepc_split;
  let c := add_kl (incn c FPwSent) KSent ks in
  let c := if async then setn c FTriedA 1 else setn c FFb 1 in
  let c := if onepc then setn c FTried1 1 else setn c FFb1 1 in
  Ok (setc (add_sent s e) T c).

Definition step_pw_deliver (s : sys) (r T : N) (ks : list N) (x : pw_res) : res :=
  chk (sent_by s (fun e => match e with EPwSend r' s' _ ks' _ _ _ _ _ => (r' =? r) && (s' =? T) && leqb ks' ks | _ => false end)) else N_no_send;
  chk (match x with
       | PwOk _ o => (o =? 0) || sent_by s (fun e => match e with EPwSend r' s' _ ks' _ true _ _ _ => (r' =? r) && (s' =? T) && leqb ks' ks | _ => false end)
       | _ => true end) else S_onepc;
  let c := getc s T in
  chk (negb (commit_point_pw c) || forallb (fun k => kcnt c KDlv k + occ k ks <=? kcnt c KSent k) ks) else N_dup_prewrite;
  (* a request that locks nothing (CheckNotExists keys only) reports at most the requested min-commit ts / start+1 *)
  chk (match x with
       | PwOk m o => negb (commit_point_pw c && fb c FHasm && negb (m =? 0) && (o =? 0)) || existsb (fun k => mem k (c_lm c)) ks ||
                     sent_by s (fun e => match e with EPwSend r' s' _ ks' _ _ mr _ _ => (r' =? r) && (s' =? T) && leqb ks' ks && (m <=? N.max mr (T + 1)) | _ => false end)
       | _ => true end) else S_mincommit;
  chk (match x with PwOk m o => negb (o =? 0) || forallb (mc_consistent s T m) ks | _ => true end) else S_mincommit;
  let c := add_kl c KDlv ks in
  let c := match x with
           | PwOk m o =>
               let c := if o =? 0 then add_lam c (filter (fun k => match kget s T k with Unlocked => true | _ => false end) ks) m else c in
               let req1 := sent_by s (fun e => match e with EPwSend r' s' _ ks' _ true _ _ _ => (r' =? r) && (s' =? T) && leqb ks' ks | _ => false end) in
               if commit_point_pw c && (o =? 0) && ((m =? 0) || req1) then setn c FStFb 1 else c
           | _ => add_kl c KNegD ks
           end in
  let s1 := setc (add_dlv s (EPwReply r T ks x)) T c in
  match x with
  | PwOk m o =>
      if o =? 0 then match step_keys s1 T ks (tr_pw m) with Some s' => Ok s' | None => Rej S_prewrite_after_rollback end
      else match step_keys s1 T ks (tr_1pc o) with Some s' => Ok s' | None => Rej S_onepc end
  | _ => Ok s1
  end.

Definition step_pw_reply (s : sys) (e : event) (r T : N) (ks : list N) (x : pw_res) : res :=
  chk (negb (crashed s r)) else X_crashed;
  chk (delivered s e) else N_no_deliver;
  chk (match x with
       | PwOk _ _ => true
       | _ => negb (commit_point_pw (getc s T)) || forallb (fun k => kcnt (getc s T) KNeg k + occ k ks <=? kcnt (getc s T) KNegD k) ks
       end) else N_dup_reply;
  chk (negb (commit_point_pw (getc s T)) || forallb (fun k => kcnt (getc s T) KRep k + occ k ks <=? kcnt (getc s T) KDlv k) ks) else N_dup_reply;
  let c := add_kl (incn (getc s T) FPwRep) KRep ks in
  let c := match x with
           | PwOk m o =>
               let c := add_pwok c ks in
               let c := if negb (fb c FHasm) || existsb (fun k => mem k (c_lm c)) ks then setn c FMinc (N.max (cn c FMinc) m) else c in
               let c := if o =? 0 then (if onepc_on c then setn (setn c FFb1 1) FFb 1 else setn c FFb1 1) else setn c F1pcTs o in
               if m =? 0 then setn c FFb 1 else c
           | PwErr _ => setn (add_kl c KNeg ks) FPwErr 1
           | PwRegion => add_kl c KNeg ks
           end in
  Ok (setc s T c).

Definition step_cm_send (s : sys) (e : event) (r T C : N) (ks : list N) : res :=
  let c := getc s T in
  chk (negb (crashed s r)) else X_crashed;
  chk (negb (fb c FDead)) else R2_commit_after_rollback;
  if fb c FHasm then
    chk (subset ks (c_lm c)) else R1_key_not_mutation;
    chk (subset (c_lm c) (c_pwok c)) else R1_unprewritten;
    chk (T <? C) else R1_ts_start;
    chk (cn c FMinc <=? C) else R1_ts_mincommit;
    chk (negb (async_kept c) || (C =? cn c FMinc)) else R1_ts_mincommit;
    chk (negb (fb c FCalled) || fb c FCausal || (cn c FWm <? C)) else R1_ts_tso;
    if mem (cn c FPrim) ks then Ok (setc (add_sent s e) T (incn c FPcSent))
    else chk ((cn c FPcOk =? C) || async_kept c) else R1_secondary_first;
         Ok (add_sent s e)
  else Ok (setc (add_sent s e) T (incn c FPcSent)).

Definition step_cm_deliver (s : sys) (r T C : N) (ks : list N) (x : cm_res) : res :=
  chk (sent_by s (fun e => match e with ECmSend r' s' c' ks' => (r' =? r) && (s' =? T) && (c' =? C) && leqb ks' ks | _ => false end)) else N_no_send;
  let c := getc s T in
  let isp := has_prim c ks in
  chk (negb isp || (cn c FPcDlv <? cn c FPcSent)) else N_dup_commitpoint;
  let c := if isp then incn c FPcDlv else c in
  let s1 := add_dlv s (ECmReply r T C ks x) in
  match x with
  | CmOk => match step_keys s1 T ks (tr_cm C) with
            | Some s' => Ok (if isp then setc s' T (incn c FPcOkd) else s')
            | None => Rej S_commit_impossible end
  | CmExpired m => match step_keys s1 T ks (tr_push m) with
                   | Some s' => Ok (if isp then setc s' T (incn c FPcFaild) else s')
                   | None => Rej S_commit_impossible end
  | CmGone => chk (existsb (gone_key s T) ks) else S_gone;
              Ok (if isp then setc s1 T (incn c FPcFaild) else s1)
  | _ => Ok (if isp then setc s1 T (incn c FPcFaild) else s1)
  end.

Definition step_cm_reply (s : sys) (e : event) (r T C : N) (ks : list N) (x : cm_res) : res :=
  chk (negb (crashed s r)) else X_crashed;
  chk (delivered s e) else N_no_deliver;
  let c := getc s T in
  if has_prim c ks then
    let c := incn c FPcRep in
    match x with
    | CmOk => Ok (setc s T (setn c FPcOk C))
    | _ => chk (cn c FPcNeg <? cn c FPcFaild) else N_dup_reply;
           let c := incn c FPcNeg in
           Ok (setc s T (match x with CmGone => setn c FPcRb 1 | _ => c end))
    end
  else Ok s.

Definition step_rb_send (s : sys) (e : event) (r T : N) (ks : list N) : res :=
  let c := getc s T in
  chk (negb (crashed s r)) else X_crashed;
  chk (neg_ok c && (negb (cp_active c) || err_ok c)) else R2_rollback_after_commit;
  Ok (setc (add_sent s e) T (setn c FDead 1)).

Definition step_rb_deliver (s : sys) (r T : N) (ks : list N) (x : rb_res) : res :=
  chk (sent_by s (fun e => match e with ERbSend r' s' ks' => (r' =? r) && (s' =? T) && leqb ks' ks | _ => false end)) else N_no_send;
  let s1 := add_dlv s (ERbReply r T ks x) in
  match x with
  | RbOk => match step_keys s1 T ks tr_rb with Some s' => Ok s' | None => Rej S_rollback_committed end
  | _ => Ok s1
  end.

(* the resolver met a lock of T that is not an async-commit lock (CheckSecondaryLocks reports it with min-commit 0) *)
Definition nonasync_seen (s : sys) (r T : N) : bool := existsb (fun km => snd km =? 0) (csl_lock_ms s r T).
Definition step_cts_send (s : sys) (e : event) (r T cur : N) (rbine force : bool) : res :=
  chk (negb (crashed s r)) else X_crashed;
  chk (negb ((cur =? maxts) || rbine) || expire_allowed s r T) else R4_expire_live_lock;
  chk (negb force || nonasync_seen s r T) else R3_force_unjustified;
  Ok (add_sent s e).

Definition step_cts_deliver (s : sys) (r T p : N) (st : cts_st) : res :=
  chk (sent_by s (fun e => match e with ECtsSend r' s' p' _ _ _ _ _ => (r' =? r) && (s' =? T) && (p' =? p) | _ => false end)) else N_no_send;
  let s1 := add_dlv s (ECtsReply r T p st) in
  let c := getc s T in
  match st with
  | StCommitted C => match step_key s1 T p (tr_cts_committed C) with Some s' => Ok s' | None => Rej S_cts_committed end
  | StRolledBack =>
      chk (negb (fb c FHasm && negb (p =? cn c FPrim) && match kget s T p with Locked _ => true | _ => false end)) else S_cts_secondary;
      (* an async-commit lock is rolled back by CheckTxnStatus only when forced to fall back to 2PC
         (unless a whole-region resolve already removed it) *)
      let asyncl := match kget s T p with Locked m0 => negb (m0 =? 0) && negb (existsb (fun sc => (fst sc =? T) && (snd sc =? 0)) (s_wr s)) | _ => false end in
      chk (negb asyncl || sent_by s (fun e => match e with ECtsSend r' s' p' _ _ _ true _ => (r' =? r) && (s' =? T) && (p' =? p) | _ => false end)) else S_cts_rolledback;
      match step_key (if asyncl then setc s1 T (setn c FStFb 1) else s1) T p tr_rb with Some s' => Ok s' | None => Rej S_cts_rolledback end
  | StLocked _ m a secs =>
      chk (negb a || fb c FTriedA) else S_cts_async;
      chk (negb a || match kget s T p with Locked m0 => (m0 =? m) && negb (m =? 0) | _ => false end) else S_cts_locked;
      chk (negb (a && fb c FHasm) || (p =? cn c FPrim)) else S_cts_secondary;
      chk (negb (a && fb c FHasm) ||
           (subset secs (c_lm c) && negb (mem p secs) && forallb (fun k => (k =? p) || mem k secs) (c_lm c))) else S_cts_secs;
      match step_key s1 T p (tr_cts_locked m) with Some s' => Ok s' | None => Rej S_cts_locked end
  | _ => Ok s1
  end.

Definition step_csl_deliver (s : sys) (r T : N) (ks : list N) (st : csl_st) : res :=
  chk (sent_by s (fun e => match e with ECslSend r' s' ks' => (r' =? r) && (s' =? T) && leqb ks' ks | _ => false end)) else N_no_send;
  let s1 := add_dlv s (ECslReply r T ks st) in
  match st with
  | CslLocks l =>
      chk (forallb (fun k => existsb (fun km => fst km =? k) l) ks) else S_csl_locks;
      chk (forallb (fun km => match kget s T (fst km) with Locked m0 => m0 =? snd km | _ => false end) l) else S_csl_locks;
      match step_csl_locks s1 T l with Some s' => Ok s' | None => Rej S_csl_locks end
  | CslCommit C =>
      if C =? 0 then
        chk (existsb (gone_key s T) ks) else S_csl_commit;
        match step_keys s1 T (first_gone s T ks) tr_csl_rb with Some s' => Ok s' | None => Rej S_csl_locks end
      else
        chk (existsb (fun k => match kget s T k with
                               | Committed c' => c' =? C
                               | Locked _ => existsb (fun sc => (fst sc =? T) && (snd sc =? C)) (s_wr s)
                               | _ => false end) ks) else S_csl_commit;
        Ok s1
  | CslRegion => Ok s1
  end.

Definition step_rs_send (s : sys) (e : event) (r T C : N) : res :=
  chk (negb (crashed s r)) else X_crashed;
  let c := getc s T in
  match just_cts s r T C with
  | Some p => chk (negb (fb c FHasm) || (p =? cn c FPrim)) else R3_wrong_primary;
              Ok (w_rs (add_sent s e) ((T, C, JKey p) :: s_rs s))
  | None => chk ((csl_missing s r T C && async_cts (s_cts s) r T []) || csl_all_locked s r T C) else R3_resolve_unreported;
            Ok (w_rs (add_sent s e) ((T, C, JAsync) :: s_rs s))
  end.

Definition step_rs_deliver (s : sys) (r T C : N) (ks : list N) (x : g_res) : res :=
  chk (sent_by s (fun e => match e with ERsSend r' s' c' ks' => (r' =? r) && (s' =? T) && (c' =? C) && leqb ks' ks | _ => false end)) else N_no_send;
  let s1 := add_dlv s (ERsReply r T C ks x) in
  match x with
  | GOk => match ks with
           | [] => Ok (w_wr s1 ((T, C) :: s_wr s1))
           | _ => match step_keys s1 T ks (tr_rs C) with Some s' => Ok s' | None => Rej S_commit_impossible end
           end
  | _ => Ok s1
  end.

Definition step_hb_send (s : sys) (e : event) (r T p ttl : N) : res :=
  let c := getc s T in
  chk (negb (crashed s r)) else X_crashed;
  chk ((cn c FTold =? 0) && (cn c FRbTold =? 0)) else R5_hb_after_end;
  chk (if fb c FHasm then p =? cn c FPrim else (negb (fb c FPlAny) || (p =? cn c FPlPrim))) else R5_hb_primary;
  chk (cn c FHb <=? ttl) else R5_hb_ttl_decrease;
  chk (phys (s_tso s) - phys T <? ttl) else R5_hb_ttl_age;
  Ok (setc (add_sent s e) T (setn c FHb ttl)).

Definition step_told (s : sys) (T : N) (t : told_res) : res :=
  let c := getc s T in
  chk (negb (owner_crashed s T)) else X_crashed;
  chk (cn c FTold =? 0) else R7_send_after_told;
  match t with
  | TOk => chk (negb (async_kept c) || pw_closed c) else R7_ok_without_commit;
           chk (negb (cn c FPcOk =? 0) || negb (cn c F1pcTs =? 0) ||
                (async_kept c && fb c FHasm && subset (c_lm c) (c_pwok c) && pw_closed c) ||
                (negb (fb c FHasm) && (cn c FPcSent =? 0) && (cn c FPwSent <=? cn c FPwRep) && negb (fb c FPwErr)))
             else R7_ok_without_commit;   (* last: nothing is locked (read-only, or CheckNotExists keys only): no commit point *)
           Ok (setc s T (setn c FTold 1))
  | TErr => chk (neg_ok c && (negb (cp_active c) || err_ok c) && (cn c F1pcTs =? 0)) else R7_err_with_pending;
            Ok (setc s T (setn (setn c FTold 3) FDead 1))
  | TUndet => chk ((cn c FPcRep <? cn c FPcSent) || (commit_point_pw c && (cn c FPwRep <? cn c FPwSent))) else R7_undet_without_pending;
              Ok (setc s T (setn (setn c FTold 2) FDead 1))
  end.

Definition plain_send (s : sys) (e : event) (r : N) : res :=
  chk (negb (crashed s r)) else X_crashed; Ok (add_sent s e).
Definition plain_reply (s : sys) (e : event) (r : N) : res :=
  chk (negb (crashed s r)) else X_crashed; chk (delivered s e) else N_no_deliver; Ok s.

Definition stepr (s : sys) (e : event) : res :=
  match e with
  | ETso t => chk (s_tso s <? t) else T_tso_order; Ok (w_tso s t)
  | EBegin r T => chk (T <=? s_tso s) else T_begin_unissued; Ok (w_own s ((T, r) :: s_own s))
  | ECommitCall T causal =>
      let c := getc s T in
      Ok (setc s T (setn (setn (setn c FCalled 1) FCausal (if causal then 1 else 0)) FWm (s_tso s)))
  | EMutations T p ms =>
      let c := getc s T in
      chk (negb (fb c FHasm) && (cn c FPwSent =? 0) && (cn c FPcSent =? 0) && negb (fb c FDead) && (cn c FTold =? 0)) else R6_mutations_late;
      chk (mem p (lock_keys ms)) else R6_primary_not_locked;
      chk (forallb (fun x => match x with (s', _, JKey p') => negb (s' =? T) || (p' =? p) | _ => true end) (s_rs s)) else R3_wrong_primary;
      Ok (setc s T (set_muts (setn (setn c FHasm 1) FPrim p) (lock_keys ms) (map fst ms)))
  | EPwSend r T p ks async onepc _ _ secs => step_pw_send s e r T p ks async onepc secs
  | EPwDeliver r T ks x => step_pw_deliver s r T ks x
  | EPwReply r T ks x => step_pw_reply s e r T ks x
  | ECmSend r T C ks => step_cm_send s e r T C ks
  | ECmDeliver r T C ks x => step_cm_deliver s r T C ks x
  | ECmReply r T C ks x => step_cm_reply s e r T C ks x
  | ERbSend r T ks => step_rb_send s e r T ks
  | ERbDeliver r T ks x => step_rb_deliver s r T ks x
  | ERbReply r _ _ _ => plain_reply s e r
  | EPlSend r T p _ _ =>
      let c := getc s T in
      chk (negb (crashed s r)) else X_crashed;
      chk (cn c FTold =? 0) else R7_send_after_told;
      Ok (setc (add_sent s e) T (setn (setn c FPlAny 1) FPlPrim p))   (* the primary may be re-selected while nothing is locked: the latest one counts *)
  | EPlDeliver r T f ks x =>
      chk (sent_by s (fun e => match e with EPlSend r' s' _ f' ks' => (r' =? r) && (s' =? T) && (f' =? f) && leqb ks' ks | _ => false end)) else N_no_send;
      Ok (add_dlv s (EPlReply r T f ks x))
  | EPlReply r _ _ _ _ => plain_reply s e r
  | EPrSend r _ _ _ => plain_send s e r
  | EPrDeliver r T f ks x =>
      chk (sent_by s (fun e => match e with EPrSend r' s' f' ks' => (r' =? r) && (s' =? T) && (f' =? f) && leqb ks' ks | _ => false end)) else N_no_send;
      Ok (add_dlv s (EPrReply r T f ks x))
  | EPrReply r _ _ _ _ => plain_reply s e r
  | ECtsSend r T _ _ cur rbine force _ => step_cts_send s e r T cur rbine force
  | ECtsDeliver r T p st => step_cts_deliver s r T p st
  | ECtsReply r _ _ _ =>
      chk (negb (crashed s r)) else X_crashed; chk (delivered s e) else N_no_deliver; Ok (w_cts s (e :: s_cts s))
  | ECslSend r T ks =>
      chk (negb (crashed s r)) else X_crashed;
      chk (async_cts (s_cts s) r T ks) else R3_csl_unlisted;
      Ok (add_sent s e)
  | ECslDeliver r T ks st => step_csl_deliver s r T ks st
  | ECslReply r _ _ _ =>
      chk (negb (crashed s r)) else X_crashed; chk (delivered s e) else N_no_deliver; Ok (w_csl s (e :: s_csl s))
  | ERsSend r T C _ => step_rs_send s e r T C
  | ERsDeliver r T C ks x => step_rs_deliver s r T C ks x
  | ERsReply r _ _ _ _ => plain_reply s e r
  | EHbSend r T p ttl => step_hb_send s e r T p ttl
  | EHbDeliver r T p _ _ =>
      chk (sent_by s (fun e => match e with EHbSend r' s' p' _ => (r' =? r) && (s' =? T) && (p' =? p) | _ => false end)) else N_no_send; Ok s
  | ELockSeen r T ttl => Ok (w_seen s ((r, T, ttl) :: s_seen s))
  | ETold T t => step_told s T t
  | ERollbackTold T => let c := getc s T in Ok (setc s T (setn c FRbTold 1))
  | ECrash r => Ok (w_crashed s (r :: s_crashed s))
  | EGcBegin r sp => Ok (w_gc s ((r, sp) :: s_gc s))
  | EGcEnd r => Ok (w_gc s (filter (fun g => negb (fst g =? r)) (s_gc s)))
  end.

Definition step (s : sys) (e : event) : option sys :=
  match stepr s e with Ok s' => Some s' | Rej _ => None end.
Fixpoint run_from (s : sys) (evs : list event) : option sys :=
  match evs with [] => Some s | e :: r => match step s e with Some s' => run_from s' r | None => None end end.
Definition run (evs : list event) : option sys := run_from init evs.
