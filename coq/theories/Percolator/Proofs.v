(* Percolator/Proofs.v — the invariant holds initially and is preserved by every accepted event,
   hence holds after every accepted trace; the statements behind C02 / C03. *)
From Verif Require Export Percolator.DeliverB.

Lemma invT_agree : forall s s' T, agree s s' T -> invT s T -> invT s' T.
Proof. intros s s' T A H. apply (frame_inv s s' T A H). Qed.

Lemma step_own : forall s e s' T0, invT s T0 -> stepr s e = Ok s' -> txn_of e = Some T0 -> invT s' T0.
Proof.
  intros s e s' T0 HI H Ht.
  destruct (irrel e) eqn:Ir; [eapply invT_agree; [eapply step_agree_irrel; eauto | auto] |].
  destruct_event e; cbn [irrel] in Ir; try discriminate Ir; cbn [txn_of] in Ht; inversion Ht; subst.
  - eapply own_mutations; eauto.
  - eapply own_pw_send; eauto.
  - eapply own_pw_deliver; eauto.
  - eapply own_pw_reply; eauto.
  - eapply own_cm_send; eauto.
  - eapply own_cm_deliver; eauto.
  - eapply own_cm_reply; eauto.
  - eapply own_rb_send; eauto.
  - eapply own_rb_deliver; eauto.
  - eapply own_cts_deliver; eauto.
  - eapply own_cts_reply; eauto.
  - eapply own_csl_deliver; eauto.
  - eapply own_rs_send; eauto.
  - eapply own_rs_deliver; eauto.
  - eapply own_told; eauto.
Qed.

Theorem inv_stepr : forall s e s', Inv s -> stepr s e = Ok s' -> Inv s'.
Proof.
  intros s e s' HI H T. specialize (HI T). fold (invT s T) in HI. fold (invT s' T).
  destruct (txn_of e) as [T0 |] eqn:Et.
  - destruct (N.eq_dec T0 T) as [-> | Hne].
    + eapply step_own; eauto.
    + eapply invT_agree; [| eauto]. eapply step_agree; eauto. rewrite Et. congruence.
  - eapply invT_agree; [| eauto]. eapply step_agree; eauto. rewrite Et. discriminate.
Qed.

Theorem inv_step : forall s e s', Inv s -> step s e = Some s' -> Inv s'.
Proof.
  unfold step. intros s e s' HI H. destruct (stepr s e) as [s1 | rr] eqn:E; inversion H. subst. eapply inv_stepr; eauto.
Qed.

Theorem inv_init : Inv init.
Proof.
  intros T. split.
  - constructor; unfold F, hasm, prim, pwok, pwdlv; cbn; intros; try contradiction; try tauto; try (exfalso; lia); auto.
  - intros Hh. exfalso. apply Hh. reflexivity.
Qed.

Theorem inv_run_from : forall evs s s', Inv s -> run_from s evs = Some s' -> Inv s'.
Proof.
  induction evs as [| e evs IH]; intros s s' HI H; cbn [run_from] in H.
  - inversion H. subst. auto.
  - destruct (step s e) as [s1 |] eqn:E; try discriminate. eapply IH; [| eauto]. eapply inv_step; eauto.
Qed.
Theorem inv_run : forall evs s, run evs = Some s -> Inv s.
Proof. intros evs s H. eapply inv_run_from; [apply inv_init | exact H]. Qed.
