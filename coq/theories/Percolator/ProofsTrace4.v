(* Percolator/ProofsTrace4.v — preservation of [HT] by the events of the transaction itself. *)
From Coq Require Import PeanoNat.
From Verif Require Import Percolator.Event Percolator.System Percolator.Trace
  Percolator.ProofsTrace0 Percolator.ProofsTrace2 Percolator.ProofsTrace3.

Ltac csimp := unfold kcnt; cbn [cn setn incn fld_eqb c_lm c_pwok c_kl set_muts add_pwok add_kl].
Ltac csimp_in H := unfold kcnt in H; cbn [cn setn incn fld_eqb c_lm c_pwok c_kl set_muts add_pwok add_kl] in H.
Ltac fsimp := cbn [is_cm_send is_pc_send is_pc_reply is_pc_neg is_pw_send is_pw_reply is_cmok negb
                   pw_send_occ pw_negreply_occ is_pwneg].
Ltac ksimp := rewrite ?kcnt_l_add_same; rewrite ?kcnt_l_add_other by reflexivity.
(* the per-key accounting clauses *)
Ltac kcl C :=
  let k0 := fresh "k" in
  csimp; intros k0; rewrite ?sum_of_snoc; fsimp; ksimp; rewrite ?N.eqb_refl; cbn [andb];
  specialize (C k0); unfold kcnt in C; lia.
Ltac snoc_in H := apply in_snoc in H; destruct H as [H | H]; [| try discriminate H].
Ltac hsolve :=
  csimp; intros;
  repeat match goal with H : In _ (_ ++ [_]) |- _ => snoc_in H end;
  try match goal with |- context [if ?b then is_cm_send _ else _] => destruct b eqn:? end;
  rewrite ?count_if_snoc, ?sum_of_snoc; fsimp; rewrite ?Nat.add_0_r;
  eauto.
Ltac call_other C18 :=
  let pre1 := fresh "pre1" in let pre2 := fresh "pre2" in let cz := fresh "cz" in
  let Hd := fresh "Hd" in let Hno := fresh "Hno" in let q := fresh "q" in
  csimp; intros pre1 pre2 cz Hd Hno; apply snoc_split in Hd;
  destruct Hd as [(-> & Hd & ->) | (q & -> & ->)];
  [ discriminate Hd
  | apply (C18 pre1 q cz eq_refl); intros cz' Hi; apply (Hno cz'); apply in_or_app; auto ].

Lemma ht_commit_call pre v T cz c :
  HG pre v -> HT T pre c ->
  HT T (pre ++ [ECommitCall T cz]) (setn (setn (setn c FCalled 1) FCausal (if cz then 1 else 0)) FWm (v_tso v)).
Proof.
  intros G [C1 C2 C3 C4 C5 C6 C7 C8 C9 C10 C11 C12 C13 C14 C15 C16 C17 C18 C19 C20 C21 C22 C23 C24 C25 C26 C27 C28].
  constructor; try solve [hsolve].
  csimp. intros pre1 pre2 cz0 Hd Hno. apply snoc_split in Hd.
  destruct Hd as [(-> & Hd & ->) | (q & -> & ->)].
  - inversion Hd; subst. split; [discriminate|]. split.
    + match goal with |- context [_ <-> ?z = true] => destruct z end; split; intros; try reflexivity; try discriminate. exfalso; auto.
    + intros t Ht. apply (g_tso _ _ G). exact Ht.
  - exfalso. apply (Hno cz). apply in_snoc. auto.
Qed.

Lemma reply_has_send pre v r T C ks x : HG pre v -> In (ECmReply r T C ks x) pre -> In (ECmSend r T C ks) pre.
Proof. intros G H. apply (g_sent _ _ G). eapply (g_dlv _ _ G). eapply (g_rep _ _ G). exact H. Qed.

Lemma ht_mutations pre v T p ms c :
  HG pre v -> HT T pre c -> cn c FHasm = 0 -> cn c FPwSent = 0 -> cn c FPcSent = 0 -> In p (lock_keys ms) ->
  HT T (pre ++ [EMutations T p ms]) (set_muts (setn (setn c FHasm 1) FPrim p) (lock_keys ms) (map fst ms)).
Proof.
  intros G [C1 C2 C3 C4 C5 C6 C7 C8 C9 C10 C11 C12 C13 C14 C15 C16 C17 C18 C19 C20 C21 C22 C23 C24 C25 C26 C27 C28] Hh Hpw Hpc Hlk.
  assert (NS : forall r C ks, ~ In (ECmSend r T C ks) pre).
  { intros r C ks Hi. rewrite Hh, Hpc in C8. cbn [N.eqb] in C8.
    assert (Hz : count_if (is_cm_send T) pre = 0%nat) by lia.
    pose proof (count_if_zero _ _ Hz _ Hi) as Hf. cbn [is_cm_send] in Hf. rewrite N.eqb_refl in Hf. discriminate. }
  assert (NR : forall r C ks x, ~ In (ECmReply r T C ks x) pre).
  { intros r C ks x Hi. eapply NS. eapply reply_has_send; eauto. }
  destruct (C2 Hh) as (Z1 & Z2 & Z3 & Z4).
  constructor; try solve [hsolve]; try solve [call_other C18].
  - csimp. intros p0 ms0 H. snoc_in H.
    + exfalso. apply (C1 _ _ H). exact Hh.
    + inversion H; subst. split; [discriminate|]. split; reflexivity.
  - csimp. intros H. congruence.
  - csimp. intros _ _ r C ks H. snoc_in H. exfalso. eapply NR; eauto.
  - csimp. cbn [N.eqb]. rewrite count_if_snoc. fsimp. rewrite Nat.add_0_r, Hpc.
    rewrite count_if_none; [reflexivity|].
    intros e He. destruct e; try reflexivity. fsimp.
    destruct (s =? T) eqn:E; [|reflexivity]. apply N.eqb_eq in E. subst. exfalso. eapply NS; eauto.
  - csimp. intros _. rewrite count_if_snoc. fsimp. rewrite Nat.add_0_r, Z2.
    rewrite count_if_none; [reflexivity|].
    intros e He. destruct e; try reflexivity. fsimp.
    destruct (s =? T) eqn:E; [|reflexivity]. apply N.eqb_eq in E. subst. exfalso. eapply NR; eauto.
  - csimp. intros _. rewrite count_if_snoc. fsimp. rewrite Nat.add_0_r, Z3.
    rewrite count_if_none; [reflexivity|].
    intros e He. destruct e; try reflexivity. fsimp.
    destruct (s =? T) eqn:E; [|reflexivity]. apply N.eqb_eq in E. subst. exfalso. eapply NR; eauto.
  - csimp. intros H. congruence.
  - csimp. intros _ r C ks H. snoc_in H. exfalso. eapply NS; eauto.
  - intros p0 ms0 H. snoc_in H; [eauto|]. inversion H; subst. exact Hlk.
Qed.

Lemma ht_pw_send pre T r p ks a o m f secs c :
  HT T pre c -> HT T (pre ++ [EPwSend r T p ks a o m f secs]) (pw_send_rec c ks a o).
Proof.
  intros [C1 C2 C3 C4 C5 C6 C7 C8 C9 C10 C11 C12 C13 C14 C15 C16 C17 C18 C19 C20 C21 C22 C23 C24 C25 C26 C27 C28].
  unfold pw_send_rec. cbv zeta.
  destruct a, o; (constructor; try solve [hsolve]; try solve [call_other C18]).
  all: try solve [csimp; intros _; do 7 eexists; apply in_snoc; right; reflexivity].
  all: try solve [csimp; intros; lia].
  all: try solve [kcl C21].
  all: try solve [kcl C22].
  all: try solve [csimp; intros _; left; do 7 eexists; apply in_snoc; right; reflexivity].
  all: csimp; rewrite count_if_snoc; fsimp; rewrite N.eqb_refl; lia.
Qed.

Ltac pwr_close C3 r ks m :=
  first
  [ solve [csimp; intros k Hk; apply in_app_or in Hk; destruct Hk as [Hk | Hk];
           [unfold has_pwok; do 4 eexists; split; [apply in_snoc; right; reflexivity | exact Hk] | auto]]
  | solve [csimp; rewrite count_if_snoc; fsimp; rewrite N.eqb_refl; lia]
  | solve [csimp; intros _; exists r, ks, m; apply in_snoc; right; reflexivity] ].

Lemma ht_pw_reply pre T r ks x c :
  HT T pre c -> HT T (pre ++ [EPwReply r T ks x]) (pw_reply_rec c ks x).
Proof.
  intros [C1 C2 C3 C4 C5 C6 C7 C8 C9 C10 C11 C12 C13 C14 C15 C16 C17 C18 C19 C20 C21 C22 C23 C24 C25 C26 C27 C28].
  unfold pw_reply_rec. cbv zeta.
  destruct x as [m o | kd |].
  - assert (Hmc : N.max (cn c FMinc) m <> 0 ->
                  has_minc (pre ++ [EPwReply r T ks (PwOk m o)]) T (N.max (cn c FMinc) m)).
    { intros Hx. destruct (N.max_spec (cn c FMinc) m) as [[_ Hq] | [_ Hq]]; rewrite Hq in *.
      - exists r, ks, o. apply in_snoc. right. reflexivity.
      - apply has_minc_mono. apply C24. exact Hx. }
    assert (Hf1 : (cn c FTried1 =? 0) = false -> fb_reason (pre ++ [EPwReply r T ks (PwOk m o)]) T).
    { intros Et. right. right. apply has_onepc_mono. apply C7. apply N.eqb_neq. exact Et. }
    assert (Hf2 : (m =? 0) = true -> fb_reason (pre ++ [EPwReply r T ks (PwOk m o)]) T).
    { intros Em. apply N.eqb_eq in Em. subst m. right. left. exists r, ks, o. apply in_snoc. right. reflexivity. }
    assert (Hf3 : (o =? 0) = true -> fb1_reason (pre ++ [EPwReply r T ks (PwOk m o)]) T).
    { intros Eo. apply N.eqb_eq in Eo. subst o. right. exists r, ks, m. apply in_snoc. right. reflexivity. }
    unfold onepc_on, fb. csimp.
    assert (Hb : forall r0 ks0 m0 o0, In (EPwReply r0 T ks0 (PwOk m0 o0)) (pre ++ [EPwReply r T ks (PwOk m o)]) ->
                 (cn c FHasm = 0 \/ exists k, In k ks0 /\ In k (c_lm c)) ->
                 m0 <= cn c FMinc \/
                 (negb (negb (cn c FHasm =? 0)) || existsb (fun k => mem k (c_lm c)) ks = true /\ m0 = m)).
    { intros r0 ks0 m0 o0 H Hx. snoc_in H; [left; eauto |]. inversion H; subst. right. split; auto. destruct Hx as [Hx | [k [K1 K2]]].
      - rewrite Hx. reflexivity.
      - apply orb_true_iff. right. apply existsb_exists. exists k. split; auto. apply mem_In. auto. }
    destruct (negb (negb (cn c FHasm =? 0)) || existsb (fun k => mem k (c_lm c)) ks) eqn:Eb; csimp;
    (destruct (o =? 0) eqn:Eo; [destruct (cn c FTried1 =? 0) eqn:Et, (cn c FFb1 =? 0) eqn:Ef1; cbn [negb andb] |]; destruct (m =? 0) eqn:Em;
      (constructor; try solve [hsolve]; try solve [call_other C18])).
    all: try solve [csimp; exact Hmc].
    all: try solve [csimp; intros _; auto].
    all: try solve [kcl C21].
    all: try solve [kcl C22].
    all: try solve [csimp; intros r0 ks0 m0 o0 H Hx; destruct (Hb r0 ks0 m0 o0 H Hx) as [Hq | [Hq1 Hq2]]; [lia | first [discriminate Hq1 | subst; lia]]].
    all: try solve [csimp; intros r0 p0 ks0 o0 m0 f0 secs0 H; snoc_in H; first [discriminate | eapply C27; eauto]].
    all: try solve [csimp; intros r0 ks0 o0 H; snoc_in H;
                    [first [discriminate | eapply C28; eauto] | inversion H; subst; first [discriminate | cbn in Em; discriminate Em]]].
    all: pwr_close C3 r ks m.
  - constructor; try solve [hsolve]; try solve [call_other C18].
    all: try solve [kcl C21].
    all: try solve [kcl C22].
    csimp; rewrite count_if_snoc; fsimp; rewrite N.eqb_refl; lia.
  - constructor; try solve [hsolve]; try solve [call_other C18].
    all: try solve [kcl C21].
    all: try solve [kcl C22].
    csimp; rewrite count_if_snoc; fsimp; rewrite N.eqb_refl; lia.
Qed.

Lemma ht_cm_send pre T r C ks c :
  HT T pre c -> (cn c FHasm <> 0 -> T < C) ->
  HT T (pre ++ [ECmSend r T C ks])
     (if (cn c FHasm =? 0) || mem (cn c FPrim) ks then incn c FPcSent else c).
Proof.
  intros [C1 C2 C3 C4 C5 C6 C7 C8 C9 C10 C11 C12 C13 C14 C15 C16 C17 C18 C19 C20 C21 C22 C23 C24 C25 C26 C27 C28] Hts.
  assert (Hcm : cn c FHasm <> 0 -> forall r0 C0 ks0, In (ECmSend r0 T C0 ks0) (pre ++ [ECmSend r T C ks]) -> T < C0).
  { intros Hh r0 C0 ks0 H. snoc_in H; [eauto | inversion H; subst; auto]. }
  destruct (cn c FHasm =? 0) eqn:Eh; [| destruct (mem (cn c FPrim) ks) eqn:Em]; cbn [orb];
    (constructor; try solve [hsolve]; try solve [call_other C18]; try exact Hcm).
  - csimp. rewrite ?Eh, count_if_snoc. fsimp. rewrite N.eqb_refl. lia.
  - csimp. rewrite ?Eh, count_if_snoc. fsimp. rewrite N.eqb_refl, Em. cbn [andb]. lia.
  - rewrite ?Eh, count_if_snoc. fsimp. rewrite N.eqb_refl, Em. cbn [andb]. lia.
Qed.

Lemma ht_cm_reply_prim pre T r C ks x c :
  HT T pre c -> cn c FHasm <> 0 -> mem (cn c FPrim) ks = true -> (x = CmOk -> C <> 0) ->
  HT T (pre ++ [ECmReply r T C ks x]) (cm_reply_rec c C x).
Proof.
  intros [C1 C2 C3 C4 C5 C6 C7 C8 C9 C10 C11 C12 C13 C14 C15 C16 C17 C18 C19 C20 C21 C22 C23 C24 C25 C26 C27 C28] Hh Hm HC.
  pose proof (proj1 (mem_In _ _) Hm) as Hin.
  destruct x; cbn [cm_reply_rec];
    (constructor; try solve [hsolve]; try solve [call_other C18]).
  all: try solve [csimp; intros H; exfalso; auto].
  all: try solve [csimp; intros _; rewrite count_if_snoc; fsimp; rewrite N.eqb_refl, Hm; cbn [andb];
                  specialize (C9 Hh); specialize (C10 Hh); lia].
  - csimp. intros _. exists r, ks. split; [apply in_snoc; right; reflexivity | exact Hin].
  - csimp. intros _ H0. exfalso. apply HC; auto.
  - csimp. intros _. exists r, C, ks. split; [apply in_snoc; right; reflexivity | exact Hin].
Qed.

Lemma ht_cm_reply_other pre T r C ks x c :
  HT T pre c -> has_prim c ks = false -> HT T (pre ++ [ECmReply r T C ks x]) c.
Proof.
  intros [C1 C2 C3 C4 C5 C6 C7 C8 C9 C10 C11 C12 C13 C14 C15 C16 C17 C18 C19 C20 C21 C22 C23 C24 C25 C26 C27 C28] Hp.
  assert (Hm : cn c FHasm <> 0 -> mem (cn c FPrim) ks = false).
  { intros Hh. unfold has_prim in Hp. apply fb_true in Hh. rewrite Hh in Hp. exact Hp. }
  constructor; try solve [hsolve]; try solve [call_other C18].
  - intros Hh H0 r0 C0 ks0 H. snoc_in H; [eauto|]. inversion H; subst.
    intros Hi. apply mem_In in Hi. rewrite (Hm Hh) in Hi. discriminate.
  - intros Hh. rewrite count_if_snoc. fsimp. rewrite (Hm Hh), andb_false_r. cbn [andb].
    rewrite Nat.add_0_r. auto.
  - intros Hh. rewrite count_if_snoc. fsimp. rewrite (Hm Hh), andb_false_r.
    rewrite Nat.add_0_r. auto.
Qed.

Lemma ht_rb_send pre T r ks c :
  HT T pre c -> HT T (pre ++ [ERbSend r T ks]) (setn c FDead 1).
Proof.
  intros [C1 C2 C3 C4 C5 C6 C7 C8 C9 C10 C11 C12 C13 C14 C15 C16 C17 C18 C19 C20 C21 C22 C23 C24 C25 C26 C27 C28].
  constructor; try solve [hsolve]; try solve [call_other C18].
  csimp. intros. discriminate.
Qed.
