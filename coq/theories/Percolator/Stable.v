(* Percolator/Stable.v — facts that persist along every accepted extension of a trace:
   the abstract store only moves forward; after Commit has returned, the transaction's mode,
   mutation list and answer are frozen. *)
From Verif Require Export Percolator.Proofs.

Section KM.
  Variables (s x : sys).
  Hypothesis K : kmono s x.
  Lemma km_setc : forall T c, kmono s (setc x T c). Proof. intros T c T' k. apply (K T' k). Qed.
  Lemma km_add_sent : forall e, kmono s (add_sent x e). Proof. intros e T' k. apply (K T' k). Qed.
  Lemma km_add_dlv : forall e, kmono s (add_dlv x e). Proof. intros e T' k. apply (K T' k). Qed.
  Lemma km_w_cts : forall v, kmono s (w_cts x v). Proof. intros v T' k. apply (K T' k). Qed.
  Lemma km_w_rs : forall v, kmono s (w_rs x v). Proof. intros v T' k. apply (K T' k). Qed.
  Lemma km_w_wr : forall v, kmono s (w_wr x v). Proof. intros v T' k. apply (K T' k). Qed.
  Lemma km_w_tso : forall v, kmono s (w_tso x v). Proof. intros v T' k. apply (K T' k). Qed.
  Lemma km_w_own : forall v, kmono s (w_own x v). Proof. intros v T' k. apply (K T' k). Qed.
  Lemma km_w_crashed : forall v, kmono s (w_crashed x v). Proof. intros v T' k. apply (K T' k). Qed.
  Lemma km_w_csl : forall v, kmono s (w_csl x v). Proof. intros v T' k. apply (K T' k). Qed.
  Lemma km_w_seen : forall v, kmono s (w_seen x v). Proof. intros v T' k. apply (K T' k). Qed.
  Lemma km_w_gc : forall v, kmono s (w_gc x v). Proof. intros v T' k. apply (K T' k). Qed.
  Lemma km_step_keys : forall T ks tr y, tr_ok tr -> step_keys x T ks tr = Some y -> kmono s y.
  Proof. intros T ks tr y Ho E. eapply kmono_trans; [exact K |]. apply (step_keys_kmono _ _ _ _ _ Ho E). Qed.
  Lemma km_step_key : forall T k tr y, tr_ok tr -> step_key x T k tr = Some y -> kmono s y.
  Proof. intros T k tr y Ho E. eapply kmono_trans; [exact K |]. apply (step_key_kmono _ _ _ _ _ Ho E). Qed.
  Lemma km_step_csl : forall T l y, step_csl_locks x T l = Some y -> kmono s y.
  Proof.
    intros T l y E. eapply kmono_trans; [exact K |]. apply step_csl_locks_char in E. destruct E as [_ C].
    intros T' k. destruct (C T' k) as [A | [a [b [A1 A2]]]]; [left; auto |]. right. split; [right; eauto | congruence].
  Qed.
End KM.

Ltac km_tac :=
  repeat first [ apply kmono_refl | apply km_setc | apply km_add_sent | apply km_add_dlv | apply km_w_cts | apply km_w_rs
               | apply km_w_wr | apply km_w_tso | apply km_w_own | apply km_w_crashed | apply km_w_csl | apply km_w_seen | apply km_w_gc
               | match goal with
                 | E : step_keys _ _ _ _ = Some ?y |- kmono _ ?y =>
                     eapply km_step_keys; [| | exact E];
                     [| first [apply tr_pw_ok | apply tr_1pc_ok | apply tr_cm_ok | apply tr_rb_ok | apply tr_rs_ok
                              | apply tr_push_ok | apply tr_csl_rb_ok ]]
                 | E : step_key _ _ _ _ = Some ?y |- kmono _ ?y =>
                     eapply km_step_key; [| | exact E];
                     [| first [apply tr_cts_committed_ok | apply tr_rb_ok | apply tr_cts_locked_ok ]]
                 | E : step_csl_locks _ _ _ = Some ?y |- kmono _ ?y => eapply km_step_csl; [| exact E]
                 end ].

(* all accepted steps, opened *)
Ltac open_step H x ks st :=
  cbn [stepr] in H;
  unfold step_pw_send, step_pw_deliver, step_pw_reply, step_cm_send, step_cm_deliver, step_cm_reply, step_rb_send,
         step_rb_deliver, step_cts_send, step_cts_deliver, step_csl_deliver, step_rs_send, step_rs_deliver, step_hb_send,
         step_told, plain_send, plain_reply in H;
  chks H.

Lemma stepr_kmono : forall s e s', stepr s e = Ok s' -> kmono s s'.
Proof.
  intros s e s' H. destruct_event e; cbn [stepr] in H.
  - chks H. okinv H. km_tac.
  - chks H. okinv H. km_tac.
  - chks H. okinv H. km_tac.
  - chks H. okinv H. km_tac.
  - unfold step_pw_send in H. chks H. okinv H. km_tac.
  - unfold step_pw_deliver in H. chks H. destruct x as [m0 o0 | |]; try (okinv H; km_tac).
    destruct (o0 =? 0); [destruct (step_keys _ _ _ (tr_pw m0)) eqn:E | destruct (step_keys _ _ _ (tr_1pc o0)) eqn:E];
      try discriminate; okinv H; km_tac.
  - unfold step_pw_reply in H. chks H. okinv H. km_tac.
  - unfold step_cm_send in H. chks H.
    destruct (fb (getc s T) FHasm); chks H; [destruct (mem _ ks); chks H |]; okinv H; km_tac.
  - unfold step_cm_deliver in H. chks H.
    destruct x; chks H; try (destruct (step_keys _ _ _ _) eqn:E; try discriminate);
      destruct (has_prim (getc s T) ks); okinv H; km_tac.
  - unfold step_cm_reply in H. chks H. destruct (has_prim (getc s T) ks); [| okinv H; km_tac].
    destruct x; chks H; okinv H; km_tac.
  - unfold step_rb_send in H. chks H. okinv H. km_tac.
  - unfold step_rb_deliver in H. chks H. destruct x; try (okinv H; km_tac).
    destruct (step_keys _ _ _ _) eqn:E; try discriminate. okinv H. km_tac.
  - unfold plain_reply in H. chks H. okinv H. km_tac.
  - chks H. okinv H. destruct (fb (getc s T) FPlAny); km_tac.
  - chks H. okinv H. km_tac.
  - unfold plain_reply in H. chks H. okinv H. km_tac.
  - unfold plain_send in H. chks H. okinv H. km_tac.
  - chks H. okinv H. km_tac.
  - unfold plain_reply in H. chks H. okinv H. km_tac.
  - unfold step_cts_send in H. chks H. okinv H. km_tac.
  - unfold step_cts_deliver in H. chks H. destruct st; chks H; try (okinv H; km_tac);
      try match type of H with context [if ?b then setc _ _ _ else _] => destruct b end;
      (destruct (step_key _ _ _ _) eqn:E; try discriminate; okinv H; km_tac).
  - chks H. okinv H. km_tac.
  - unfold plain_send in H. chks H. okinv H. km_tac.
  - unfold step_csl_deliver in H. chks H. destruct st; chks H; try (okinv H; km_tac).
    + destruct (step_csl_locks _ _ _) eqn:E; try discriminate. okinv H. km_tac.
    + destruct (c =? 0); chks H; [destruct (step_keys _ _ _ _) eqn:E; try discriminate |]; okinv H; km_tac.
  - chks H. okinv H. km_tac.
  - unfold step_rs_send in H. chks H. destruct (just_cts s r T c); chks H; okinv H; km_tac.
  - unfold step_rs_deliver in H. chks H. destruct x; try (okinv H; km_tac).
    destruct ks; [okinv H; km_tac |]. destruct (step_keys _ _ _ _) eqn:E; try discriminate. okinv H. km_tac.
  - unfold plain_reply in H. chks H. okinv H. km_tac.
  - unfold step_hb_send in H. chks H. okinv H. km_tac.
  - chks H. okinv H. km_tac.
  - okinv H. km_tac.
  - unfold step_told in H. chks H. destruct x; chks H; okinv H; km_tac.
  - okinv H. km_tac.
  - okinv H. km_tac.
  - okinv H. km_tac.
  - okinv H. km_tac.
Qed.

Lemma run_from_kmono : forall evs s s', run_from s evs = Some s' -> kmono s s'.
Proof.
  induction evs as [| e evs IH]; intros s s' H; cbn [run_from] in H.
  - inversion H. apply kmono_refl.
  - unfold step in H. destruct (stepr s e) as [s1 | rr] eqn:E; try discriminate.
    eapply kmono_trans; [eapply stepr_kmono; eauto | eapply IH; eauto].
Qed.

Lemma step_key_sbk : forall k x T tr y, step_key x T k tr = Some y -> same_but_kst x y.
Proof. intros k x T tr y E. apply step_key_spec in E. destruct E as [v [-> _]]. apply same_but_kst_kset. Qed.
Lemma step_keys_sbk : forall ks x T tr y, step_keys x T ks tr = Some y -> same_but_kst x y.
Proof.
  induction ks as [| k ks IH]; intros x T tr y E; cbn [step_keys] in E.
  - inversion E. apply same_but_kst_refl.
  - destruct (step_key x T k tr) as [x1 |] eqn:E1; try discriminate.
    eapply same_but_kst_trans; [eapply step_key_sbk; eauto | eapply IH; eauto].
Qed.
Lemma step_keys_getc : forall ks x T tr y T0, step_keys x T ks tr = Some y -> getc y T0 = getc x T0.
Proof. intros ks x T tr y T0 E. apply sbk_getc. eapply step_keys_sbk; eauto. Qed.
Lemma step_key_getc : forall k x T tr y T0, step_key x T k tr = Some y -> getc y T0 = getc x T0.
Proof. intros k x T tr y T0 E. apply sbk_getc. eapply step_key_sbk; eauto. Qed.
Lemma step_csl_getc : forall l x T y T0, step_csl_locks x T l = Some y -> getc y T0 = getc x T0.
Proof. intros l x T y T0 E. apply sbk_getc. apply (step_csl_locks_char _ _ _ _ E). Qed.

Ltac getc_keys :=
  repeat match goal with
         | E : step_keys _ _ _ _ = Some ?y |- context [getc ?y _] => rewrite !(step_keys_getc _ _ _ _ _ _ E)
         | E : step_key _ _ _ _ = Some ?y |- context [getc ?y _] => rewrite !(step_key_getc _ _ _ _ _ _ E)
         | E : step_csl_locks _ _ _ = Some ?y |- context [getc ?y _] => rewrite !(step_csl_getc _ _ _ _ _ E)
         end.

(* once Commit has returned, its answer, the mutation list and the primary never change;
   the mutation list and the primary never change once logged *)
Lemma stepr_frozen : forall s e s' T0, stepr s e = Ok s' ->
  (F s T0 FTold <> 0 -> F s' T0 FTold = F s T0 FTold /\ F s' T0 FTriedA = F s T0 FTriedA /\ F s' T0 FTried1 = F s T0 FTried1) /\
  (hasm s T0 -> hasm s' T0 /\ prim s' T0 = prim s T0 /\ lm s' T0 = lm s T0).
Proof.
  intros s e s' T0 H.
  destruct (option_map (N.eqb T0) (txn_of e)) as [[|] |] eqn:Et.
  2: { assert (A : agree s s' T0) by (apply (step_agree s e s' T0 H); intros E'; rewrite E' in Et; cbn in Et; rewrite N.eqb_refl in Et; discriminate).
       split; [intros _; repeat split; apply (ag_F _ _ _ A); reflexivity |]. intros Hh. rewrite (ag_hasm _ _ _ A), (ag_prim _ _ _ A), (ag_lm _ _ _ A). auto. }
  2: { assert (A : agree s s' T0) by (apply (step_agree s e s' T0 H); intros E'; rewrite E' in Et; discriminate).
       split; [intros _; repeat split; apply (ag_F _ _ _ A); reflexivity |]. intros Hh. rewrite (ag_hasm _ _ _ A), (ag_prim _ _ _ A), (ag_lm _ _ _ A). auto. }
  destruct (txn_of e) as [T1 |] eqn:Et'; cbn [option_map] in Et; inversion Et as [Et1]. apply N.eqb_eq in Et1. subst T1.
  unfold hasm, prim, lm, F.
  destruct_event e; cbn [txn_of] in Et'; inversion Et'; subst; cbn [stepr] in H;
    unfold step_pw_send, step_pw_deliver, step_pw_reply, step_cm_send, step_cm_deliver, step_cm_reply, step_rb_send,
           step_rb_deliver, step_cts_send, step_cts_deliver, step_csl_deliver, step_rs_send, step_rs_deliver, step_hb_send,
           step_told, plain_send, plain_reply in H;
    chks H.
  all: repeat match type of H with
              | (match ?d with _ => _ end) = Ok _ => destruct d eqn:?; chks H; try discriminate H
              | (if ?d then _ else _) = Ok _ => destruct d eqn:?; chks H; try discriminate H
              end.
  all: try (okinv H).
  all: repeat match goal with |- context [match ?d with _ => _ end] => is_var d; destruct d eqn:? end.
  all: repeat match goal with |- context [if ?d then _ else _] => destruct d eqn:? end.
  all: getc_keys; rd; repeat match goal with |- context [if ?d then _ else _] => destruct d eqn:? end; rd; b2p; split; intros; repeat split; auto; try congruence; try contradiction.
Qed.
