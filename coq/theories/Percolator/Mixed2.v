(* Percolator/Mixed2.v — all layers together after every accepted trace; C02 / C03 for transactions
   with a non-async lock on a locked mutation (fallen back to / never left two-phase commit). *)
From Verif Require Export Percolator.Mixed.

Definition Full (s : sys) : Prop :=
  Inv s /\ Linv s /\ Zinv s /\ Yinv s /\ Pinv s /\ Uinv s /\ Vinv s /\ Minv s.

Lemma full_init : Full init.
Proof.
  split; [apply inv_init |]. split; [apply linv_init |]. split; [intros T; apply l0inv_init |]. split; [intros T; apply l1inv_init |].
  split; [intros T; apply pcinv_init |].
  split; [intros T Hh; exfalso; apply Hh; reflexivity |]. split; [intros T Hh; exfalso; apply Hh; reflexivity |].
  intros T [Hh _]. exfalso. apply Hh. reflexivity.
Qed.

Lemma full_stepr : forall s e s', Full s -> stepr s e = Ok s' -> Full s'.
Proof.
  intros s e s' [HI [HL [HZ [HY [HP [HU [HV HM]]]]]]] H.
  assert (HI' : Inv s') by exact (inv_stepr _ _ _ HI H).
  assert (HL' : Linv s') by exact (linv_stepr _ _ _ HI HL H).
  assert (HU' : Uinv s') by exact (uinv_stepr _ _ _ HI HL HZ HY HP HU H).
  split; auto. split; auto. split; [intros T; exact (l0inv_stepr _ _ _ T HI H (HZ T)) |].
  split; [intros T; exact (l1inv_stepr _ _ _ T HI HL H (HY T)) |].
  split; [intros T; exact (pcinv_stepr _ _ _ T HI H (HP T)) |]. split; auto.
  split; [exact (vinv_stepr _ _ _ HI HL HZ HY HU HU' HV H) | exact (minv_stepr _ _ _ HI HL HZ HY HP HU HU' HV HM H)].
Qed.

Lemma full_run_from : forall evs s s', Full s -> run_from s evs = Some s' -> Full s'.
Proof.
  induction evs as [| e evs IH]; intros s s' Fs H; cbn [run_from] in H.
  - inversion H. subst. auto.
  - unfold step in H. destruct (stepr s e) as [s1 | rr] eqn:E; try discriminate. eapply IH; [| eauto]. eapply full_stepr; eauto.
Qed.
Lemma full_run : forall evs s, run evs = Some s -> Full s.
Proof. intros evs s H. eapply full_run_from; [apply full_init | exact H]. Qed.

(* the ghost map is persistent along accepted extensions *)
Lemma run_from_lam : forall evs s s' T k m, Full s -> run_from s evs = Some s' -> lamk s T k = Some m -> lamk s' T k = Some m.
Proof.
  induction evs as [| e evs IH]; intros s s' T k m Fs H El; cbn [run_from] in H.
  - inversion H. subst. auto.
  - unfold step in H. destruct (stepr s e) as [s1 | rr] eqn:E; try discriminate.
    eapply IH; [eapply full_stepr; eauto | eauto |]. destruct Fs as [_ [HL _]]. apply (proj1 (stepr_lam _ _ _ T k E (HL T))). auto.
Qed.

Section MixedAtomic.
  Variables (s : sys) (T : N).
  Hypothesis Fs : Full s.
  Hypothesis Mx : mixed s T.
  Let HI : Inv s := proj1 Fs.
  Let G : ginv s T := proj1 (HI T).
  Let L : linv s T := proj1 (proj2 Fs) T.
  Let Hh : hasm s T := proj1 Mx.
  Let PC : pcinv s T := proj1 (proj2 (proj2 (proj2 (proj2 Fs)))) T.
  Let U : uinv s T := proj1 (proj2 (proj2 (proj2 (proj2 (proj2 Fs))))) T Hh.
  Let M : minv s T := proj2 (proj2 (proj2 (proj2 (proj2 (proj2 (proj2 Fs)))))) T Mx.

  Lemma mx_one_ts : forall k1 k2 c1 c2, kget s T k1 = Committed c1 -> kget s T k2 = Committed c2 -> c1 = c2.
  Proof. intros k1 k2 c1 c2 H1 H2. apply (m_one _ _ M) in H1. apply (m_one _ _ M) in H2. congruence. Qed.

  Lemma mx_pwok_all : forall c, kget s T (prim s T) = Committed c -> forall k, In k (lm s T) -> In k (pwok s T).
  Proof.
    intros c HP. apply (u_pwok _ _ U). apply (m_pcommit _ _ M) in HP. destruct (pc_cnt _ _ PC Hh) as [A1 [A2 A3]]. unfold F in *. lia.
  Qed.

  Lemma mx_Dd_not_committed : Dd s T -> forall c, kget s T (prim s T) <> Committed c.
  Proof.
    intros [D | [[D1 D2] | [k [D1 [D2 D3]]]]] c HC.
    - congruence.
    - apply (m_pcommit _ _ M) in HC. destruct (pc_cnt _ _ PC Hh) as [A1 [A2 A3]]. unfold F in *. lia.
    - apply D3. apply (g_pwok _ _ G). eapply mx_pwok_all; eauto.
  Qed.

  Lemma mx_all_or_nothing : forall k1 k2 c, kget s T k1 = Committed c -> In k2 (lm s T) -> kget s T k2 <> RolledBack.
  Proof.
    intros k1 k2 c H1 H2 H3. apply (m_one _ _ M) in H1. eapply mx_Dd_not_committed; eauto. eapply (u_rb _ _ U); eauto.
  Qed.

  Lemma mx_committed_keys : forall c, kget s T (prim s T) = Committed c ->
    forall k, In k (lm s T) -> kget s T k = Committed c \/ exists m, kget s T k = Locked m.
  Proof.
    intros c HP k Hk. destruct (kget s T k) eqn:E.
    - exfalso. eapply (pwdlv_not_unlocked s T k); eauto. apply (g_pwok _ _ G). eapply mx_pwok_all; eauto.
    - right. eauto.
    - left. f_equal. eapply mx_one_ts; eauto.
    - exfalso. eapply mx_all_or_nothing; eauto.
  Qed.

  Lemma mx_told_ok : F s T FTold = 1 -> exists c, kget s T (prim s T) = Committed c /\
    (forall k, In k (lm s T) -> kget s T k = Committed c \/ exists m, kget s T k = Locked m) /\
    forall evs' s', run_from s evs' = Some s' -> F s' T FTold = 1 /\ kget s' T (prim s' T) = Committed c.
  Proof.
    intros Ht. destruct (m_told_ok _ _ M Ht) as [c HP]. exists c. split; auto. split; [apply mx_committed_keys; auto |].
    intros evs' s' R'. destruct (run_from_frozen _ _ _ T R') as [A1 A2]. destruct (A2 Hh) as [_ [A3 _]].
    split; [destruct A1 as [A1 _]; [rewrite Ht; discriminate | congruence] |]. rewrite A3.
    eapply km_committed; [eapply run_from_kmono; eauto | auto].
  Qed.

  Lemma mx_told_err_now : F s T FTold = 3 -> forall k c, kget s T k <> Committed c.
  Proof.
    intros Ht k c HC. apply (m_one _ _ M) in HC. eapply mx_Dd_not_committed; eauto.
    apply (Dn_Dd_u _ _ U). apply (u_tolderr _ _ U). auto.
  Qed.
End MixedAtomic.

Lemma mixed_persist : forall evs s s' T, Full s -> run_from s evs = Some s' -> mixed s T -> no1pc s' T -> mixed s' T.
Proof.
  intros evs s s' T Fs R [Hh [_ [k0 [K1 K2]]]] N'. destruct (run_from_frozen _ _ _ T R) as [_ A2]. destruct (A2 Hh) as [Hh' [_ El]].
  split; auto. split; auto. exists k0. rewrite El. split; auto. eapply run_from_lam; eauto.
Qed.

Theorem mixed_told_err : forall evs s T evs' s', run evs = Some s -> mixed s T -> F s T FTold = 3 ->
  run_from s evs' = Some s' -> no1pc s' T -> F s' T FTold = 3 /\ forall k c, kget s' T k <> Committed c.
Proof.
  intros evs s T evs' s' R Mx Ht R' N'. pose proof (full_run _ _ R) as Fs. pose proof (full_run_from _ _ _ Fs R') as Fs'.
  destruct (run_from_frozen _ _ _ T R') as [Fz _]. destruct Fz as [E _]; [rewrite Ht; discriminate |].
  assert (Ht' : F s' T FTold = 3) by congruence. split; auto.
  apply (mx_told_err_now s' T Fs' (mixed_persist _ _ _ _ Fs R' Mx N') Ht').
Qed.
