(* Percolator/Async.v — invariants of an async-commit transaction that has not fallen back.
   The transaction is committed exactly when every locked mutation has been prewritten ("sealed");
   its commit ts is then the maximum of the min-commit ts of its locks (cstar), which no later event
   can change; it is dead (NSa) when some locked mutation can never be locked. *)
From Verif Require Export Percolator.OnePC3.

(* no prewrite request of T was applied as a one-phase commit *)
Definition no1pc (s : sys) (T : N) : Prop := forall r ks m o, In (EPwReply r T ks (PwOk m o)) (s_dlv s) -> o = 0.
(* async commit in force: tried, never given up by the owner (FFb), never declined by the store (FStFb);
   1PC may have been requested as well and abandoned (re-split), as long as it never took effect *)
Definition asyncm (s : sys) (T : N) : Prop :=
  hasm s T /\ F s T FTriedA <> 0 /\ no1pc s T /\ F s T FFb = 0 /\ F s T FStFb = 0.

Lemma no1pc_incl : forall s s' T, incl (s_dlv s) (s_dlv s') -> no1pc s' T -> no1pc s T.
Proof. intros s s' T I N r ks m o H. apply (N r ks m o). apply I. auto. Qed.
Lemma stepr_dlv_incl : forall s e s', stepr s e = Ok s' -> incl (s_dlv s) (s_dlv s').
Proof.
  intros s e s' H. pose proof (stepr_lists _ _ _ H) as [_ [Ld _]].
  destruct Ld as [Ld | [e' [_ Ld]]]; rewrite Ld; [apply incl_refl | apply incl_tl, incl_refl].
Qed.
Lemma no1pc_back : forall s e s' T, stepr s e = Ok s' -> no1pc s' T -> no1pc s T.
Proof. intros s e s' T H. apply no1pc_incl. eapply stepr_dlv_incl; eauto. Qed.

Definition lam0 (s : sys) (T k : N) : N := match lamk s T k with Some m => m | None => 0 end.
Definition cstar (s : sys) (T : N) : N := fold_right (fun k acc => N.max (lam0 s T k) acc) 0 (lm s T).
Definition Sealed (s : sys) (T : N) : Prop := forall k, In k (lm s T) -> lamk s T k <> None.
Definition NSa (s : sys) (T : N) : Prop :=
  exists k0, In k0 (lm s T) /\ lamk s T k0 = None /\
    (kget s T k0 = RolledBack \/
     (kget s T k0 = Unlocked /\ (F s T FTold <> 0 \/ F s T FDead <> 0) /\ kc s T KSent k0 = kc s T KNegD k0)).

Lemma fold_max_ge : forall (f : N -> N) l k, In k l -> f k <= fold_right (fun k acc => N.max (f k) acc) 0 l.
Proof. induction l as [| a l IH]; intros k H; [destruct H |]. cbn [fold_right]. destruct H as [-> | H]; [lia | specialize (IH k H); lia]. Qed.
Lemma fold_max_le : forall (f : N -> N) l b, (forall k, In k l -> f k <= b) -> fold_right (fun k acc => N.max (f k) acc) 0 l <= b.
Proof.
  induction l as [| a l IH]; intros b H; cbn [fold_right]; [lia |].
  assert (A : f a <= b) by (apply H; left; auto). assert (B : fold_right (fun k acc => N.max (f k) acc) 0 l <= b) by (apply IH; intros; apply H; right; auto). lia.
Qed.
Lemma cstar_ge : forall s T k m, In k (lm s T) -> lamk s T k = Some m -> m <= cstar s T.
Proof. intros s T k m H E. unfold cstar. pose proof (fold_max_ge (lam0 s T) _ _ H) as A. unfold lam0 in A at 1. rewrite E in A. auto. Qed.
Lemma cstar_le : forall s T b, (forall k m, In k (lm s T) -> lamk s T k = Some m -> m <= b) -> cstar s T <= b.
Proof.
  intros s T b H. unfold cstar. apply fold_max_le. intros k Hk. unfold lam0. destruct (lamk s T k) eqn:E; [eapply H; eauto | lia].
Qed.
Lemma Sealed_NSa : forall s T, Sealed s T -> NSa s T -> False.
Proof. intros s T S [k0 [K1 [K2 _]]]. apply (S k0 K1). auto. Qed.

Record ainv (s : sys) (T : N) : Prop := {
  a_send : forall r p ks a o m f secs, In (EPwSend r T p ks a o m f secs) (s_sent s) -> a = true;
  a_entry : forall r ks m o, In (EPwReply r T ks (PwOk m o)) (s_dlv s) ->
            o = 0 /\ m <> 0 /\ forall k, In k ks -> lamk s T k = Some m \/ kget s T k = Committed m;
  a_1pcts : F s T F1pcTs = 0;
  a_lam : forall k m, lamk s T k = Some m -> m <> 0;
  a_cnt : forall k, kc s T KDlv k <= kc s T KSent k /\ kc s T KNeg k <= kc s T KNegD k;
  a_commit : forall k c, kget s T k = Committed c -> Sealed s T /\ c = cstar s T;
  a_rb : forall k, In k (lm s T) -> kget s T k = RolledBack -> NSa s T;
  a_cmsent : forall r C ks, In (ECmSend r T C ks) (s_sent s) -> Sealed s T /\ C = cstar s T;
  a_rsk : forall C p, In (T, C, JKey p) (s_rs s) -> p = prim s T;
  a_rsa : forall C, In (T, C, JAsync) (s_rs s) -> (C <> 0 -> Sealed s T /\ C = cstar s T) /\ (C = 0 -> NSa s T);
  a_ctsl : forall r p ttl m secs, In (ECtsReply r T p (StLocked ttl m true secs)) (s_dlv s) ->
           p = prim s T /\ lamk s T p = Some m /\ forall k, In k secs <-> (In k (lm s T) /\ k <> p);
  a_csll : forall r ks l, In (ECslReply r T ks (CslLocks l)) (s_dlv s) ->
           (forall k M, In (k, M) l -> lamk s T k = Some M) /\ (forall k, In k ks -> exists M, In (k, M) l);
  a_cslc : forall r ks C, In (ECslReply r T ks (CslCommit C)) (s_dlv s) ->
           (C <> 0 -> Sealed s T /\ C = cstar s T) /\ (C = 0 -> NSa s T);
  a_cslsent : forall r ks, In (ECslSend r T ks) (s_sent s) -> forall k, In k ks -> In k (lm s T);
  a_minc : forall k, In k (lm s T) -> In k (pwok s T) ->
           exists m, m <= F s T FMinc /\ (lamk s T k = Some m \/ kget s T k = Committed m);
  a_minc2 : F s T FMinc = 0 \/ exists k, In k (lm s T) /\ (lamk s T k = Some (F s T FMinc) \/ kget s T k = Committed (F s T FMinc));
  a_dead : (F s T FTold = 3 \/ exists r ks, In (ERbSend r T ks) (s_sent s)) -> NSa s T;
  a_told : F s T FTold = 1 -> Sealed s T /\ forall k, In k (call s T) -> kc s T KSent k = kc s T KRep k
}.

(* ---- consequences ---- *)
Section ACons.
  Variables (s : sys) (T : N).
  Hypothesis L : linv s T.
  Hypothesis A : ainv s T.
  Lemma a_one_ts : forall k1 k2 c1 c2, kget s T k1 = Committed c1 -> kget s T k2 = Committed c2 -> c1 = c2.
  Proof. intros k1 k2 c1 c2 H1 H2. destruct (a_commit _ _ A _ _ H1) as [_ E1]. destruct (a_commit _ _ A _ _ H2) as [_ E2]. congruence. Qed.
  Lemma a_all_or_nothing : forall k1 k2 c, kget s T k1 = Committed c -> In k2 (lm s T) -> kget s T k2 <> RolledBack.
  Proof. intros k1 k2 c H1 H2 H3. destruct (a_commit _ _ A _ _ H1) as [S _]. eapply Sealed_NSa; eauto. eapply a_rb; eauto. Qed.
  (* once sealed, every locked mutation is locked with its recorded min-commit ts or committed at cstar *)
  Lemma a_sealed_keys : Sealed s T -> forall k, In k (lm s T) ->
    (exists m, kget s T k = Locked m /\ lamk s T k = Some m /\ m <= cstar s T) \/ kget s T k = Committed (cstar s T).
  Proof.
    intros S k Hk. destruct (kget s T k) eqn:E.
    - exfalso. specialize (S k Hk). destruct (lamk s T k) eqn:El; [| contradiction]. eapply (l_nu _ _ L); eauto.
    - left. exists m. pose proof (l_locked _ _ L _ _ E) as El. repeat split; auto. eapply cstar_ge; eauto.
    - right. destruct (a_commit _ _ A _ _ E) as [_ ->]. auto.
    - exfalso. eapply Sealed_NSa; eauto. eapply a_rb; eauto.
  Qed.
  Lemma a_nsa_no_commit : NSa s T -> forall k c, kget s T k <> Committed c.
  Proof. intros N k c E. destruct (a_commit _ _ A _ _ E) as [S _]. eapply Sealed_NSa; eauto. Qed.
End ACons.
