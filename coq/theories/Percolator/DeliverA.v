(* Percolator/DeliverA.v — prewrite and commit deliveries preserve the invariants of their transaction. *)
From Verif Require Export Percolator.Deliver.

Lemma step_keys_char : forall ks b e' T tr s2, tr_ok tr -> tr_idem tr -> tr_total_locked tr ->
  step_keys (add_dlv b e') T ks tr = Some s2 ->
  forall k, (In k ks /\ tr (kget b T k) = Some (kget s2 T k)) \/ (~ In k ks /\ kget s2 T k = kget b T k).
Proof.
  intros ks b e' T tr s2 Hok Hid Htot H k. destruct (in_dec N.eq_dec k ks) as [Hi | Hi].
  - left. split; auto. apply (step_keys_exact ks (add_dlv b e') T tr s2 Hok Hid Htot H k Hi).
  - right. split; auto. destruct (step_keys_kmono ks (add_dlv b e') T tr s2 Hok H) as [_ [_ Fr]]. apply Fr. auto.
Qed.

Lemma step_key_setc : forall x T0 c T k tr, step_key (setc x T0 c) T k tr = option_map (fun y => setc y T0 c) (step_key x T k tr).
Proof.
  intros. unfold step_key. change (kget (setc x T0 c) T k) with (kget x T k).
  change (wr_alt (setc x T0 c) T tr) with (wr_alt x T tr).
  destruct (tr (kget x T k)); [reflexivity |]. destruct (kget x T k); try reflexivity.
  destruct (wr_alt x T tr); reflexivity.
Qed.
Lemma step_keys_setc : forall ks x T0 c T tr,
  step_keys (setc x T0 c) T ks tr = option_map (fun y => setc y T0 c) (step_keys x T ks tr).
Proof.
  induction ks as [| k ks IH]; intros; cbn [step_keys]; [reflexivity |].
  rewrite step_key_setc. destruct (step_key x T k tr); cbn [option_map]; auto.
Qed.
Lemma step_keys_base : forall s e' T ks tr s2 c, step_keys (add_dlv s e') T ks tr = Some s2 ->
  step_keys (add_dlv (setc s T c) e') T ks tr = Some (setc s2 T c).
Proof.
  intros. change (add_dlv (setc s T c) e') with (setc (add_dlv s e') T c). rewrite step_keys_setc, H. reflexivity.
Qed.

Lemma tr_pw_total : forall m, tr_total_locked (tr_pw m). Proof. intros m m0; discriminate. Qed.
Lemma tr_1pc_total : forall o, tr_total_locked (tr_1pc o). Proof. intros m m0; discriminate. Qed.
Lemma tr_cm_total : forall c, tr_total_locked (tr_cm c). Proof. intros m m0; discriminate. Qed.
Lemma tr_rb_total : tr_total_locked tr_rb. Proof. intros m0; discriminate. Qed.
Lemma tr_rs_total : forall c, tr_total_locked (tr_rs c). Proof. intros m m0; discriminate. Qed.
Lemma tr_push_total : forall m, tr_total_locked (tr_push m). Proof. intros m m0; discriminate. Qed.
Lemma tr_csl_rb_total : tr_total_locked tr_csl_rb. Proof. intros m0; discriminate. Qed.

Lemma dshape_nokeys : forall b e' T, dshape b (add_dlv b e') T e'.
Proof.
  intros. apply (dshape_keys b e' T [] tr_rb); [apply tr_rb_ok | reflexivity |].
  left. intros v' E. inversion E. auto.
Qed.

(* inversion of the tr functions on their results *)
Lemma tr_pw_res : forall m v v', tr_pw m v = Some v' ->
  v' <> Unlocked /\ v' <> RolledBack /\ v <> RolledBack /\ (forall c, v' = Committed c -> v = Committed c).
Proof. intros m v v' H. destruct v; cbn in H; inversion H; subst; repeat split; try discriminate; auto. Qed.
Lemma tr_1pc_res : forall o v v', tr_1pc o v = Some v' -> v' <> Unlocked.
Proof.
  intros o v v' H. destruct v; cbn in H; try (inversion H; subst; discriminate).
  destruct (c =? o); inversion H. discriminate.
Qed.
Lemma tr_cm_res : forall c v v', tr_cm c v = Some v' -> v' = Committed c.
Proof.
  intros c v v' H. destruct v; cbn in H; try discriminate; [inversion H; auto |].
  destruct (c0 =? c) eqn:E; inversion H. apply N.eqb_eq in E. subst. auto.
Qed.
Lemma tr_push_res : forall m v v', tr_push m v = Some v' ->
  v' = v \/ (exists a b, v = Locked a /\ v' = Locked b).
Proof. intros m v v' H. unfold tr_push in H. inversion H. auto. Qed.

Ltac vac := try (intros; discriminate).

Lemma pw_deliver_core : forall b s' r T ks x p a o m f secs,
  invT b T -> In (EPwSend r T p ks a o m f secs) (s_sent b) ->
  (forall mm oo, x = PwOk mm oo -> oo <> 0 ->
     exists r0 p0 ks0 a0 m0 f0 secs0, In (EPwSend r0 T p0 ks0 a0 true m0 f0 secs0) (s_sent b)) ->
  match x with
  | PwOk mm oo => if oo =? 0 then step_keys (add_dlv b (EPwReply r T ks x)) T ks (tr_pw mm)
                  else step_keys (add_dlv b (EPwReply r T ks x)) T ks (tr_1pc oo)
  | _ => Some (add_dlv b (EPwReply r T ks x))
  end = Some s' ->
  invT s' T.
Proof.
  intros s s' r T ks x p a o m f secs [G I] Ce C1pc H.
  assert (HS : cn (getc s T) FPwSent <> 0) by (eapply (g_pwsent_cnt _ _ G); eauto).
  assert (N6 : forall r' ks' x', EPwReply r T ks x = EPwReply r' T ks' x' ->
               exists p a o m f secs, In (EPwSend r' T p ks' a o m f secs) (s_sent s)).
  { intros r' ks' x' E. inversion E. subst. eauto 10. }
  destruct x as [mm oo | kd |].
  - destruct (N.eq_dec oo 0) as [-> | Ho].
    + cbn [N.eqb] in H. rename H into E.
      pose proof (step_keys_char _ _ _ _ _ _ (tr_pw_ok mm) (tr_pw_idem mm) (tr_pw_total mm) E) as Ch.
      assert (D : dshape s s' T (EPwReply r T ks (PwOk mm 0))) by (eapply dshape_keys; eauto; apply tr_pw_ok).
      assert (N1 : forall r' ks' m' o', EPwReply r T ks (PwOk mm 0) = EPwReply r' T ks' (PwOk m' o') ->
                   (forall k, In k ks' -> kget s' T k <> Unlocked) /\ (o' <> 0 -> cn (getc s T) FTried1 <> 0)).
      { intros r' ks' m' o' E'. inversion E'. subst. split; [| congruence]. intros k Hk.
        destruct (Ch k) as [[_ A] | [A _]]; [| contradiction]. apply tr_pw_res in A. tauto. }
      split.
      * apply (deliver_ginv s s' T _ D G); vac; auto.
      * intros Hh Hc. rewrite (dl_hasm _ _ _ _ D) in Hh. rewrite (dl_classic _ _ _ _ D) in Hc. specialize (I Hh Hc).
        apply (deliver_tinv s s' T _ D I); vac; auto.
        -- intros k c A B. exfalso. destruct (Ch k) as [[_ A'] | [_ A']]; [| congruence].
           apply tr_pw_res in A'. destruct A' as [_ [_ [_ A']]]. apply B. auto.
        -- intros c A B. exfalso. destruct (Ch (cn (getc s T) FPrim)) as [[_ A'] | [_ A']]; [| congruence].
           apply tr_pw_res in A'. destruct A' as [_ [_ [_ A']]]. apply B. auto.
        -- intros k Hk A B. exfalso. destruct (Ch k) as [[_ A'] | [_ A']]; [| congruence].
           apply tr_pw_res in A'. tauto.
        -- intros k r' ks' m' o' A E' Hk. inversion E'. subst. destruct (Ch k) as [[_ A'] | [A' _]]; [| contradiction].
           apply tr_pw_res in A'. tauto.
    + destruct (C1pc mm oo eq_refl Ho) as [r0 [p0 [ks0 [a0 [m0 [f0 [secs0 Ce']]]]]]].
      apply N.eqb_neq in Ho. rewrite Ho in H. apply N.eqb_neq in Ho. rename H into E.
      assert (HT1 : cn (getc s T) FTried1 <> 0) by (eapply (g_1pc_sent _ _ G); eauto).
      pose proof (step_keys_char _ _ _ _ _ _ (tr_1pc_ok oo) (tr_1pc_idem oo) (tr_1pc_total oo) E) as Ch.
      assert (D : dshape s s' T (EPwReply r T ks (PwOk mm oo))) by (eapply dshape_keys; eauto; apply tr_1pc_ok).
      split.
      * apply (deliver_ginv s s' T _ D G); vac; auto.
        intros r' ks' m' o' E'. inversion E'. subst. split; auto. intros k Hk.
        destruct (Ch k) as [[_ A] | [A _]]; [| contradiction]. apply tr_1pc_res in A. auto.
      * intros Hh Hc. exfalso. rewrite (dl_classic _ _ _ _ D) in Hc. destruct Hc as [_ [B _]]. unfold F in B. congruence.
  - inversion H. subst s'. pose proof (dshape_nokeys s (EPwReply r T ks (PwErr kd)) T) as D. split.
    + apply (deliver_ginv _ _ T _ D G); vac; auto.
    + intros Hh Hc. rewrite (dl_hasm _ _ _ _ D) in Hh. rewrite (dl_classic _ _ _ _ D) in Hc. specialize (I Hh Hc).
      apply (deliver_tinv _ _ T _ D I); vac; auto; intros; exfalso; rd; congruence.
  - inversion H. subst s'. pose proof (dshape_nokeys s (EPwReply r T ks PwRegion) T) as D. split.
    + apply (deliver_ginv _ _ T _ D G); vac; auto.
    + intros Hh Hc. rewrite (dl_hasm _ _ _ _ D) in Hh. rewrite (dl_classic _ _ _ _ D) in Hc. specialize (I Hh Hc).
      apply (deliver_tinv _ _ T _ D I); vac; auto; intros; exfalso; rd; congruence.
Qed.

(* a record update that only touches the prewrite accounting / ghost / fallback flag *)
Lemma invT_acct : forall s T c, invT s T ->
  (forall f, rel f = true -> cn c f = cn (getc s T) f) -> c_lm c = c_lm (getc s T) -> c_pwok c = c_pwok (getc s T) ->
  invT (setc s T c) T.
Proof.
  intros s T c HI H1 H2 H3. apply (frame_inv s (setc s T c) T); auto.
  apply ag_setc_rel; auto. apply agree_refl.
Qed.

Lemma own_pw_deliver : forall s s' r T ks x, invT s T -> stepr s (EPwDeliver r T ks x) = Ok s' -> invT s' T.
Proof.
  intros s s' r T ks x HI H. cbn [stepr] in H. unfold step_pw_deliver in H. chks H.
  apply sent_by_In in C. destruct C as [e [Ce Cm]]. destruct e; try discriminate. b2p. beq. subst.
  match type of H with context [setc (add_dlv s ?ee) T ?cc] => set (c' := cc) in *; set (e' := ee) in * end.
  change (setc (add_dlv s e') T c') with (add_dlv (setc s T c') e') in H.
  assert (HB : invT (setc s T c') T).
  { apply invT_acct; auto; unfold c'; destruct x as [mm oo | kd |];
      repeat match goal with |- context [if ?bb then _ else _] => destruct bb end;
      try (intros f0 Hf0; destruct f0; try discriminate Hf0; reflexivity); reflexivity. }
  eapply (pw_deliver_core (setc s T c') s' r T ks x); [exact HB | exact Ce | |].
  - intros mm oo -> Ho. apply N.eqb_neq in Ho. rewrite Ho in C0. cbn [orb] in C0.
    apply sent_by_In in C0. destruct C0 as [e0 [Ce' Cm']]. destruct e0; try discriminate.
    match type of Cm' with (if ?bb then _ else _) = true => destruct bb; try discriminate end.
    b2p. subst. eauto 10.
  - fold e'. destruct x as [mm oo | kd |]; [destruct (oo =? 0) | |];
      try (destruct (step_keys _ _ _ _) as [s2 |] eqn:E; [| discriminate]); inversion H; reflexivity.
Qed.

(* counting a delivery of the commit-point request is itself invariant preserving *)
Lemma cnt_step : forall s T f, invT s T -> fb (getc s T) FHasm = true -> (f = FPcOkd \/ f = FPcFaild) ->
  cn (getc s T) FPcDlv < cn (getc s T) FPcSent ->
  invT (setc s T (incn (incn (getc s T) FPcDlv) f)) T.
Proof.
  intros s T f [G I] Hh Hf Hlt. b2p.
  destruct Hf as [-> | ->].
  all: split; [constructor; prep; useG G; try tauto |].
  all: intros Hh' Hc'; assert (Hm : hasm s T) by (unf2; rd; auto); assert (Hc : classic s T) by (classic_back Hc');
    specialize (I Hm Hc); constructor; prep; useGI G I.
  all: t_some_rb s; t_Dn s; t_Dd s.
Qed.

Lemma gone_some_rb : forall s T ks, ginv s T -> tinv s T -> classic s T ->
  cn (getc s T) FPcSent <> 0 -> (forall k, In k ks -> In k (c_lm (getc s T))) ->
  existsb (gone_key s T) ks = true -> some_rb s T.
Proof.
  intros s T ks G I Hc HS Hsub H. apply existsb_exists in H. destruct H as [k [Hk Hg]].
  assert (Hl : In k (lm s T)) by (apply Hsub; auto).
  assert (Hn : kget s T k <> Unlocked).
  { eapply pwdlv_not_unlocked; eauto. apply (g_pwok _ _ G). apply (t_pwok _ _ I); auto. }
  unfold gone_key in Hg. destruct (kget s T k) eqn:E; try discriminate; try congruence.
  - apply existsb_exists in Hg. destruct Hg as [[T' c] [H1 H2]]. cbn [fst snd] in H2. b2p. subst.
    apply (g_wr _ _ G) in H1. destruct H1 as [j H1]. destruct j as [p |]; [| exfalso; destruct Hc as [_ [_ D]]; eapply D; eauto].
    pose proof (t_rs_p _ _ I _ _ H1) as ->. apply (g_rs _ _ G) in H1. exists (prim s T). split; auto. apply (t_prim_lm _ _ I).
  - exists k. auto.
Qed.

Lemma own_cm_deliver : forall s s' r T C ks x, invT s T -> stepr s (ECmDeliver r T C ks x) = Ok s' -> invT s' T.
Proof.
  intros s s' r T C ks x HI H. cbn [stepr] in H. unfold step_cm_deliver in H. chks H.
  apply sent_by_In in C0. destruct C0 as [e [Ce Cm]]. destruct e; try discriminate. b2p. beq. subst.
  set (e' := ECmReply r T C ks x) in *.
  assert (N5 : forall r' c' ks' x', e' = ECmReply r' T c' ks' x' -> In (ECmSend r' T c' ks') (s_sent s)).
  { intros r' c' ks' x' E. inversion E. subst. auto. }
  destruct (has_prim (getc s T) ks) eqn:HP.
  - (* the commit-point request *)
    cbn [negb orb] in C1. b2p. unfold has_prim in HP. apply andb_true_iff in HP. destruct HP as [HP1 HP2]. apply mem_In in HP2.
    assert (exists f, (f = FPcOkd \/ f = FPcFaild) /\ exists s2 tr, tr_ok tr /\ tr_idem tr /\ tr_total_locked tr /\
              (tr_fresh tr) /\ step_keys (add_dlv s e') T (match x with CmOk | CmExpired _ => ks | _ => [] end) tr = Some s2 /\
              s' = setc s2 T (incn (incn (getc s T) FPcDlv) f) /\
              (x = CmOk -> f = FPcOkd /\ tr = tr_cm C) /\ (forall m, x = CmExpired m -> tr = tr_push m) /\
              (x = CmGone -> existsb (gone_key s T) ks = true)) as [f [Hf [s2 [tr [Hok [Hid [Htot [Hfr [E [-> [X1 [X2 X3]]]]]]]]]]]].
    { destruct x; chks H.
      - destruct (step_keys _ _ _ _) as [s2 |] eqn:E; try discriminate. okinv H.
        exists FPcOkd. split; auto. exists s2, (tr_cm C). repeat split; auto using tr_cm_ok, tr_cm_idem, tr_cm_total; try discriminate. all: try (intros v' Ev; inversion Ev; auto; fail). all: try (intros m' Em; inversion Em; auto; fail).
      - destruct (step_keys _ _ _ _) as [s2 |] eqn:E; try discriminate. okinv H.
        exists FPcFaild. split; auto. exists s2, (tr_push m). repeat split; auto using tr_push_ok, tr_push_idem, tr_push_total; try discriminate. all: try (intros v' Ev; inversion Ev; auto; fail). all: try (intros m' Em; inversion Em; auto; fail).
      - okinv H. exists FPcFaild. split; auto. exists (add_dlv s e'), tr_rb.
        repeat split; auto using tr_rb_ok, tr_rb_idem, tr_rb_total; try discriminate. all: try (intros v' Ev; inversion Ev; auto; fail). all: try (intros m' Em; inversion Em; auto; fail).
      - okinv H. exists FPcFaild. split; auto. exists (add_dlv s e'), tr_rb.
        repeat split; auto using tr_rb_ok, tr_rb_idem, tr_rb_total; try discriminate. all: try (intros v' Ev; inversion Ev; auto; fail). all: try (intros m' Em; inversion Em; auto; fail).
      - okinv H. exists FPcFaild. split; auto. exists (add_dlv s e'), tr_rb.
        repeat split; auto using tr_rb_ok, tr_rb_idem, tr_rb_total; try discriminate. all: try (intros v' Ev; inversion Ev; auto; fail). all: try (intros m' Em; inversion Em; auto; fail). }
    set (c' := incn (incn (getc s T) FPcDlv) f) in *.
    pose proof (cnt_step s T f HI HP1 Hf C1) as HB. fold c' in HB.
    apply (step_keys_base _ _ _ _ _ _ c') in E.
    pose proof (step_keys_char _ _ _ _ _ _ Hok Hid Htot E) as Ch.
    assert (D : dshape (setc s T c') (setc s2 T c') T e') by (eapply dshape_keys; eauto).
    assert (Gc : forall k, kget (setc s T c') T k = kget s T k) by reflexivity.
    assert (Pc : cn (getc (setc s T c') T) FPrim = cn (getc s T) FPrim).
    { rewrite getc_setc_eq. unfold c'. destruct Hf as [-> | ->]; cnsimp; reflexivity. }
    assert (Lc : c_lm (getc (setc s T c') T) = c_lm (getc s T)) by (rewrite getc_setc_eq; reflexivity).
    apply (deliver_inv _ _ T e' D HB); unfold e'; vac; auto.
    + intros r' c0 ks' E'. inversion E'. subst. destruct (X1 eq_refl) as [_ ->]. intros k Hk.
      destruct (Ch k) as [[_ A] | [A _]]; [| contradiction]. apply tr_cm_res in A. auto.
    + intros Ib Hcb Hhb. rewrite Pc, Lc. repeat split.
      * intros k c A B. destruct x; try (exfalso; destruct (Ch k) as [[A' _] | [_ A']]; [destruct A' | congruence]).
        -- destruct (X1 eq_refl) as [_ ->].
           destruct (Ch k) as [[_ A'] | [_ A']]; [| congruence]. apply tr_cm_res in A'. rewrite A in A'. inversion A'. subst.
           destruct (Ch (cn (getc s T) FPrim)) as [[_ B'] | [B' _]]; [| contradiction]. apply tr_cm_res in B'. auto.
        -- exfalso. rewrite (X2 m eq_refl) in *. destruct (Ch k) as [[_ A'] | [_ A']]; [| congruence].
           apply tr_push_res in A'. destruct A' as [A' | [a [b [A1 A2]]]]; congruence.
      * intros c A B. unfold c'. destruct x; try (exfalso; destruct (Ch (cn (getc s T) FPrim)) as [[A' _] | [_ A']]; [destruct A' | congruence]).
        -- destruct (X1 eq_refl) as [-> _]. rewrite getc_setc_eq. cnsimp. lia.
        -- exfalso. rewrite (X2 m eq_refl) in *. destruct (Ch (cn (getc s T) FPrim)) as [[_ A'] | [_ A']]; [| congruence].
           apply tr_push_res in A'. destruct A' as [A' | [a [b [A1 A2]]]]; congruence.
      * intros k Hk A B. exfalso. destruct x; try (destruct (Ch k) as [[A' _] | [_ A']]; [destruct A' | congruence]).
        -- destruct (X1 eq_refl) as [_ ->]. destruct (Ch k) as [[_ A'] | [_ A']]; [| congruence]. apply tr_cm_res in A'. congruence.
        -- rewrite (X2 m eq_refl) in *. destruct (Ch k) as [[_ A'] | [_ A']]; [| congruence].
           apply tr_push_res in A'. destruct A' as [A' | [a [b [A1 A2]]]]; congruence.
      * intros r' c0 ks' E' _. inversion E'. subst. destruct (X1 eq_refl) as [-> _]. unfold c'. rewrite getc_setc_eq. cnsimp. lia.
      * intros r' c0 ks' E' _. inversion E'. subst. specialize (X3 eq_refl).
        apply (dl_some_rb _ _ _ _ D). destruct HB as [Gb _].
        apply (gone_some_rb _ T ks' Gb Ib Hcb).
        -- rewrite getc_setc_eq. unfold c'. destruct Hf as [-> | ->]; cnsimp; lia.
        -- intros k Hk. destruct (t_cmsent _ _ Ib _ _ _ Ce) as [A _]. apply A. auto.
        -- exact X3.
      * intros k0 r0 ks0 m0 o0 A0 E0. discriminate E0.
  - (* a secondary batch, or the mutations are unknown *)
    assert (exists s2 tr, tr_ok tr /\ tr_idem tr /\ tr_total_locked tr /\ tr_fresh tr /\
              step_keys (add_dlv s e') T (match x with CmOk | CmExpired _ => ks | _ => [] end) tr = Some s2 /\ s' = s2 /\
              (x = CmOk -> tr = tr_cm C) /\ (forall m, x = CmExpired m -> tr = tr_push m))
      as [s2 [tr [Hok [Hid [Htot [Hfr [E [-> [X1 X2]]]]]]]]].
    { destruct x; chks H.
      - destruct (step_keys _ _ _ _) as [s2 |] eqn:E; try discriminate. okinv H.
        exists s', (tr_cm C). repeat split; auto using tr_cm_ok, tr_cm_idem, tr_cm_total; try discriminate. all: try (intros v' Ev; inversion Ev; auto; fail). all: try (intros m' Em; inversion Em; auto; fail).
      - destruct (step_keys _ _ _ _) as [s2 |] eqn:E; try discriminate. okinv H.
        exists s', (tr_push m). repeat split; auto using tr_push_ok, tr_push_idem, tr_push_total; try discriminate. all: try (intros v' Ev; inversion Ev; auto; fail). all: try (intros m' Em; inversion Em; auto; fail).
      - okinv H. exists (add_dlv s e'), tr_rb. repeat split; auto using tr_rb_ok, tr_rb_idem, tr_rb_total; try discriminate. all: try (intros v' Ev; inversion Ev; auto; fail). all: try (intros m' Em; inversion Em; auto; fail).
      - okinv H. exists (add_dlv s e'), tr_rb. repeat split; auto using tr_rb_ok, tr_rb_idem, tr_rb_total; try discriminate. all: try (intros v' Ev; inversion Ev; auto; fail). all: try (intros m' Em; inversion Em; auto; fail).
      - okinv H. exists (add_dlv s e'), tr_rb. repeat split; auto using tr_rb_ok, tr_rb_idem, tr_rb_total; try discriminate. all: try (intros v' Ev; inversion Ev; auto; fail). all: try (intros m' Em; inversion Em; auto; fail). }
    pose proof (step_keys_char _ _ _ _ _ _ Hok Hid Htot E) as Ch.
    assert (D : dshape s s2 T e') by (eapply dshape_keys; eauto).
    apply (deliver_inv _ _ T e' D HI); unfold e'; vac; auto.
    + intros r' c0 ks' E'. inversion E'. subst. rewrite (X1 eq_refl) in *. intros k Hk.
      destruct (Ch k) as [[_ A] | [A _]]; [| contradiction]. apply tr_cm_res in A. auto.
    + intros Ib Hcb Hhb.
      assert (HnP : ~ In (cn (getc s T) FPrim) ks).
      { intros Hi. unfold has_prim in HP. apply andb_false_iff in HP. destruct HP as [HP | HP].
        - apply fb_false in HP. unfold hasm, F in Hhb. congruence.
        - apply mem_false in HP. contradiction. }
      destruct (t_cmsent _ _ Ib _ _ _ Ce) as [_ PC]. specialize (PC HnP).
      repeat split.
      * intros k c A B. destruct x; try (exfalso; destruct (Ch k) as [[A' _] | [_ A']]; [destruct A' | congruence]).
        -- rewrite (X1 eq_refl) in *. destruct (Ch k) as [[_ A'] | [_ A']]; [| congruence]. apply tr_cm_res in A'.
           rewrite A in A'. inversion A'. subst. eapply km_committed; eauto. apply (d_k _ _ _ _ D).
        -- exfalso. rewrite (X2 m eq_refl) in *. destruct (Ch k) as [[_ A'] | [_ A']]; [| congruence].
           apply tr_push_res in A'. destruct A' as [A' | [a [b [A1 A2]]]]; congruence.
      * intros c A B. exfalso. apply B. destruct (Ch (cn (getc s T) FPrim)) as [[A' _] | [_ A']]; [destruct x; cbn in A'; contradiction | congruence].
      * intros k Hk A B. exfalso. destruct x; try (destruct (Ch k) as [[A' _] | [_ A']]; [destruct A' | congruence]).
        -- rewrite (X1 eq_refl) in *. destruct (Ch k) as [[_ A'] | [_ A']]; [| congruence]. apply tr_cm_res in A'. congruence.
        -- rewrite (X2 m eq_refl) in *. destruct (Ch k) as [[_ A'] | [_ A']]; [| congruence].
           apply tr_push_res in A'. destruct A' as [A' | [a [b [A1 A2]]]]; congruence.
      * intros r' c0 ks' E' Hi. inversion E'. subst. contradiction.
      * intros r' c0 ks' E' Hi. inversion E'. subst. contradiction.
      * intros k0 r0 ks0 m0 o0 A0 E0. discriminate E0.
Qed.
