(* Percolator/OnePC3.v — the one-phase-commit invariant holds after every accepted trace; C02/C03 for 1PC. *)
From Verif Require Export Percolator.OnePC2.

Definition Oinv (s : sys) : Prop := forall T, onepcm s T -> oinv s T.

Lemma onepcm_fields : forall s s' T,
  cn (getc s' T) FHasm = cn (getc s T) FHasm -> cn (getc s' T) FTried1 = cn (getc s T) FTried1 ->
  cn (getc s' T) FFb1 = cn (getc s T) FFb1 -> cn (getc s' T) FStFb = cn (getc s T) FStFb -> onepcm s' T -> onepcm s T.
Proof. intros s s' T A B C D. unfold onepcm, hasm, F. rewrite A, B, C, D. auto. Qed.

Lemma ctsd_fields : forall s s' r T p st T0, stepr s (ECtsDeliver r T p st) = Ok s' ->
  (forall f, f <> FStFb -> cn (getc s' T0) f = cn (getc s T0) f) /\ (cn (getc s' T0) FStFb = 0 -> cn (getc s T0) FStFb = 0).
Proof.
  intros s s' r T p st T0 H. destruct (N.eq_dec T T0) as [<- | Hne].
  2: { rewrite (stepr_getc_other _ _ _ T0 H); [auto | cbn [txn_of]; congruence]. }
  cbn [stepr] in H. unfold step_cts_deliver in H. chks H.
  destruct st; chks H; try (okinv H; auto);
    try (match type of H with context [if ?d then setc _ _ _ else _] => destruct d end);
    (destruct (step_key _ _ _ _) as [s2 |] eqn:E; try discriminate; okinv H; rewrite (step_key_getc _ _ _ _ _ T E); rd; auto).
  split; [intros f Hf; rewrite cn_setn_ne; auto | rd; discriminate].
Qed.

Theorem oinv_stepr : forall s e s', Inv s -> Linv s -> Zinv s -> Oinv s -> stepr s e = Ok s' -> Oinv s'.
Proof.
  intros s e s' HI HL HZ HO H T0 Hm'.
  destruct (option_map (N.eqb T0) (txn_of e)) as [[|] |] eqn:Et.
  2: { assert (Hne : txn_of e <> Some T0) by (intros E'; rewrite E' in Et; cbn in Et; rewrite N.eqb_refl in Et; discriminate).
       pose proof (stepr_getc_other _ _ _ T0 H Hne) as Gc. eapply oinv_other; eauto. apply HO.
       unfold onepcm, hasm, F in *. rewrite Gc in Hm'. auto. }
  2: { assert (Hne : txn_of e <> Some T0) by (intros E'; rewrite E' in Et; discriminate).
       pose proof (stepr_getc_other _ _ _ T0 H Hne) as Gc. eapply oinv_other; eauto. apply HO.
       unfold onepcm, hasm, F in *. rewrite Gc in Hm'. auto. }
  destruct (txn_of e) as [T1 |] eqn:Et'; cbn [option_map] in Et; [| discriminate Et].
  assert (T1 = T0) as -> by (injection Et as Et1; apply N.eqb_eq in Et1; auto). clear Et.
  destruct (quiet e) eqn:Q.
  { eapply oinv_quiet; eauto. apply HO. eapply onepcm_back; eauto. eapply stepr_quiet; eauto. }
  destruct_event e; cbn [quiet] in Q; try discriminate Q; cbn [txn_of] in Et'; inversion Et'; subst.
  - (* mutations: a transaction that already sent a 1PC prewrite cannot log its mutations *)
    exfalso. destruct (stepr_quiet3 s (EMutations T0 p ms) s' T0 eq_refl H) as [_ [_ A]]. destruct Hm' as [_ [B _]]. unfold F in B.
    rewrite (A FTried1 eq_refl) in B. pose proof (z_tried _ _ (HZ T0) (or_intror B)) as D.
    cbn [stepr] in H. chks H. b2p. unfold F in D. congruence.
  - eapply oinv_pw_send; eauto.
  - eapply oinv_pw_deliver; eauto.
  - eapply oinv_pw_reply; eauto.
  - assert (Hm : onepcm s T0).
    { pose proof H as H2. cbn [stepr] in H2. unfold step_rb_send in H2. chks H2. okinv H2.
      eapply onepcm_fields; [| | | | exact Hm']; rd; reflexivity. }
    eapply oinv_rb_send; eauto.
  - assert (Hm : onepcm s T0).
    { destruct (ctsd_fields _ _ _ _ _ _ T0 H) as [A B]. destruct Hm' as [B1 [B2 [B3 B4]]]. unfold onepcm, hasm, F in *.
      rewrite (A FHasm), (A FTried1), (A FFb1) in * by discriminate. auto. }
    eapply oinv_cts_deliver; eauto.
  - assert (Hm : onepcm s T0).
    { pose proof H as H2. cbn [stepr] in H2. unfold step_told in H2. chks H2. destruct x; chks H2; okinv H2;
        (eapply onepcm_fields; [| | | | exact Hm']; rd; reflexivity). }
    eapply oinv_told; eauto.
Qed.

Theorem oinv_init : Oinv init.
Proof. intros T [H _]. exfalso. apply H. reflexivity. Qed.

Theorem oinv_run_from : forall evs s s', Inv s -> Linv s -> Zinv s -> Oinv s -> run_from s evs = Some s' -> Oinv s'.
Proof.
  induction evs as [| e evs IH]; intros s s' HI HL HZ HO H; cbn [run_from] in H.
  - inversion H. subst. auto.
  - unfold step in H. destruct (stepr s e) as [s1 | rr] eqn:E; try discriminate.
    eapply IH; [| | | | eauto].
    + eapply inv_stepr; eauto.
    + eapply linv_stepr; eauto.
    + intros T. eapply l0inv_stepr; eauto.
    + eapply oinv_stepr; eauto.
Qed.
Theorem oinv_run : forall evs s, run evs = Some s -> Oinv s.
Proof.
  intros evs s H. eapply oinv_run_from; [apply inv_init | apply linv_init | intros T; apply l0inv_init | apply oinv_init | exact H].
Qed.

(* ---- told err under 1PC: the mode and the closed key persist, so nothing is ever committed ---- *)
Lemma pw_deliver_not_closed : forall s s' r T ks x k0, Linv s -> onepcm s T -> oinv s T ->
  stepr s (EPwDeliver r T ks x) = Ok s' -> In k0 (lm s T) -> kc s T KSent k0 = kc s T KNegD k0 -> False.
Proof.
  intros s s' r T ks x k0 HL [Hm [H1 [H2 H3]]] O H K1 K2. pose proof (HL T) as L.
  cbn [stepr] in H. unfold step_pw_deliver in H. chks H.
  apply sent_by_In in C. destruct C as [e0 [Ce1 Ce2]]. destruct e0; try discriminate. beq. subst.
  assert (Hcp : commit_point_pw (getc s T) = true) by (unfold commit_point_pw; apply fb_true in H1; rewrite H1; apply orb_true_r).
  rewrite Hcp in C1. cbn [negb orb] in C1.
  assert (Hk : In k0 ks) by (apply (o_send _ _ O _ _ _ _ _ _ _ _ Ce1); apply (l_lm_all _ _ L); auto).
  pose proof (forallb_In _ _ _ C1 Hk) as C5. cbn beta in C5. apply N.leb_le in C5.
  pose proof (occ_pos _ _ Hk) as B. pose proof (l_cntle _ _ L k0) as D. unfold kc in *. lia.
Qed.

Lemma onepcm_persist : forall s e s' T, Inv s -> Linv s -> onepcm s T -> oinv s T -> F s T FTold = 3 ->
  stepr s e = Ok s' -> onepcm s' T.
Proof.
  intros s e s' T0 HI HL Hm O Ht H. pose proof Hm as [Hh [H1 [H2 H3]]].
  destruct (option_map (N.eqb T0) (txn_of e)) as [[|] |] eqn:Et.
  2: { assert (Hne : txn_of e <> Some T0) by (intros E'; rewrite E' in Et; cbn in Et; rewrite N.eqb_refl in Et; discriminate).
       pose proof (stepr_getc_other _ _ _ T0 H Hne) as Gc. unfold onepcm, hasm, F in *. rewrite Gc. auto. }
  2: { assert (Hne : txn_of e <> Some T0) by (intros E'; rewrite E' in Et; discriminate).
       pose proof (stepr_getc_other _ _ _ T0 H Hne) as Gc. unfold onepcm, hasm, F in *. rewrite Gc. auto. }
  destruct (txn_of e) as [T1 |] eqn:Et'; cbn [option_map] in Et; [| discriminate Et].
  assert (T1 = T0) as -> by (injection Et as Et1; apply N.eqb_eq in Et1; auto). clear Et.
  destruct (quiet e) eqn:Q.
  { destruct (stepr_quiet _ _ _ T0 Q H) as [_ _ _ _ _ A]. unfold onepcm, hasm, F in *.
    rewrite (A FHasm), (A FTried1), (A FFb1), (A FStFb) by reflexivity. auto. }
  destruct (o_dead _ _ O (or_introl Ht)) as [k0 [K1 K2]].
  destruct_event e; cbn [quiet] in Q; try discriminate Q; cbn [txn_of] in Et'; inversion Et'; subst.
  - exfalso. cbn [stepr] in H. chks H. b2p. unfold hasm, F in *. congruence.
  - exfalso. cbn [stepr] in H. unfold step_pw_send in H. chks H. b2p. unfold F in Ht. rewrite Ht in C0. discriminate.
  - exfalso. eapply pw_deliver_not_closed; eauto.
  - (* a late reply: it cannot be a successful 1PC fallback because no such entry exists *)
    cbn [stepr] in H. unfold step_pw_reply in H. chks H. okinv H. apply delivered_In in C0.
    destruct x as [m o | kd |].
    + destruct (o_entry _ _ O _ _ _ _ C0) as [Ho _]. apply N.eqb_neq in Ho.
      match goal with |- context [if ?b then setn _ FMinc _ else _] => destruct b end;
        (unfold onepcm, hasm, F in *; rd; rewrite Ho; destruct (m =? 0); rd; auto).
    + unfold onepcm, hasm, F in *. rd. auto.
    + unfold onepcm, hasm, F in *. rd. auto.
  - cbn [stepr] in H. unfold step_rb_send in H. chks H. okinv H. unfold onepcm, hasm, F in *. rd. auto.
  - destruct (ctsd_acct _ _ _ _ _ _ T0 H) as [_ _ _ _ _ A].
    { intros _ m E. exfalso. eapply (o_nolock _ _ O); eauto. }
    unfold onepcm, hasm, F in *. rewrite (A FHasm), (A FTried1), (A FFb1), (A FStFb) by reflexivity. auto.
  - exfalso. cbn [stepr] in H. unfold step_told in H. chks H. b2p. unfold F in Ht. congruence.
Qed.

Section OnePcAtomic.
  Variables (evs : list event) (s : sys) (T : N).
  Hypothesis R : run evs = Some s.
  Hypothesis Hm : onepcm s T.
  Let G : ginv s T := proj1 (inv_run evs s R T).
  Let L : linv s T := linv_run evs s R T.
  Let O : oinv s T := oinv_run evs s R T Hm.
  Let Hh : hasm s T := proj1 Hm.

  Lemma onepc_one_ts : forall k1 k2 c1 c2, kget s T k1 = Committed c1 -> kget s T k2 = Committed c2 -> c1 = c2.
  Proof. apply (o_one_ts s T L Hh O). Qed.
  Lemma onepc_all_or_nothing : forall k1 k2 c, kget s T k1 = Committed c -> In k2 (lm s T) -> kget s T k2 <> RolledBack.
  Proof. apply (o_all_or_nothing s T L O). Qed.
  Lemma onepc_all_committed : forall k c, kget s T k = Committed c -> forall k', In k' (call s T) -> kget s T k' = Committed c.
  Proof. apply (o_all_committed s T O). Qed.
  Lemma onepc_told_ok : F s T FTold = 1 -> exists c, (forall k, In k (call s T) -> kget s T k = Committed c) /\
    forall evs' s', run_from s evs' = Some s' -> forall k, In k (call s T) -> kget s' T k = Committed c.
  Proof.
    intros Ht. destruct (o_told _ _ O Ht) as [c E]. exists c.
    assert (A : forall k, In k (call s T) -> kget s T k = Committed c) by (apply (onepc_all_committed _ _ E)).
    split; auto. intros evs' s' R' k Hk. eapply km_committed; [eapply run_from_kmono; eauto | auto].
  Qed.
  Lemma onepc_told_err : F s T FTold = 3 ->
    forall evs' s', run_from s evs' = Some s' -> F s' T FTold = 3 /\ forall k c, kget s' T k <> Committed c.
  Proof.
    intros Ht evs'.
    assert (Gen : forall evs' s0 s', Inv s0 -> Linv s0 -> Zinv s0 -> Oinv s0 -> onepcm s0 T -> F s0 T FTold = 3 ->
              run_from s0 evs' = Some s' -> Inv s' /\ Linv s' /\ Oinv s' /\ onepcm s' T /\ F s' T FTold = 3).
    { induction evs'0 as [| e evs'0 IH]; intros s0 s1 HI HL HZ HO Hm0 Ht0 R'; cbn [run_from] in R'.
      - inversion R'. subst. auto.
      - unfold step in R'. destruct (stepr s0 e) as [s2 | rr] eqn:E; try discriminate.
        eapply IH; [| | | | | | eauto].
        + eapply inv_stepr; eauto.
        + eapply linv_stepr; eauto.
        + intros T'. eapply l0inv_stepr; eauto.
        + eapply oinv_stepr; eauto.
        + eapply onepcm_persist; eauto.
        + destruct (stepr_frozen _ _ _ T E) as [A _]. destruct A as [A _]; [rewrite Ht0; discriminate | congruence]. }
    intros s' R'.
    destruct (Gen evs' s s' (inv_run _ _ R) (linv_run _ _ R) (zinv_run _ _ R) (oinv_run _ _ R) Hm Ht R') as [HI' [HL' [HO' [Hm' Ht']]]].
    split; auto. destruct (o_dead _ _ (HO' T Hm') (or_introl Ht')) as [k0 [K1 K2]].
    apply (o_closed_no_commit s' T (proj1 (HI' T)) (HL' T) (HO' T Hm') k0 K1 K2).
  Qed.
End OnePcAtomic.
