(* Percolator/Frame.v — an event about transaction T leaves the invariants of every other
   transaction untouched. *)
From Verif Require Export Percolator.Inv.

Definition txn_of (e : event) : option N :=
  match e with
  | ETso _ | ECrash _ | EGcBegin _ _ | EGcEnd _ => None
  | EBegin _ s | ECommitCall s _ | EMutations s _ _ | ETold s _ | ERollbackTold s => Some s
  | EPwSend _ s _ _ _ _ _ _ _ | EPwDeliver _ s _ _ | EPwReply _ s _ _
  | ECmSend _ s _ _ | ECmDeliver _ s _ _ _ | ECmReply _ s _ _ _
  | ERbSend _ s _ | ERbDeliver _ s _ _ | ERbReply _ s _ _
  | EPlSend _ s _ _ _ | EPlDeliver _ s _ _ _ | EPlReply _ s _ _ _
  | EPrSend _ s _ _ | EPrDeliver _ s _ _ _ | EPrReply _ s _ _ _
  | ECtsSend _ s _ _ _ _ _ _ | ECtsDeliver _ s _ _ | ECtsReply _ s _ _
  | ECslSend _ s _ | ECslDeliver _ s _ _ | ECslReply _ s _ _
  | ERsSend _ s _ _ | ERsDeliver _ s _ _ _ | ERsReply _ s _ _ _
  | EHbSend _ s _ _ | EHbDeliver _ s _ _ _ | ELockSeen _ s _ => Some s
  end.

(* the event kinds and record fields the invariants talk about *)
Definition relev (e : event) : bool :=
  match e with
  | EPwSend _ _ _ _ _ _ _ _ _ | ECmSend _ _ _ _ | ERbSend _ _ _ | ERsSend _ _ _ _
  | EPwReply _ _ _ _ | ECmReply _ _ _ _ _ | ECtsReply _ _ _ _ => true
  | _ => false
  end.
Definition rel (f : fld) : bool :=
  match f with
  | FCalled | FCausal | FWm | FFb | FFb1 | FPwRep | FPwErr | FMinc | FRbTold | FHb | FPlPrim | FPlAny | FStFb => false
  | _ => true
  end.

Definition lext (T : N) (l l' : list event) : Prop :=
  forall x, txn_of x = Some T -> relev x = true -> (In x l' <-> In x l).
Lemma lext_refl : forall T l, lext T l l. Proof. intros T l x _ _. tauto. Qed.
Lemma lext_cons : forall T l e, (txn_of e <> Some T \/ relev e = false) -> lext T l (e :: l).
Proof.
  intros T l e H x Hx Hr. split; intros H1; [| right; auto]. destruct H1 as [H1 | H1]; auto. subst.
  destruct H; [contradiction | congruence].
Qed.

Record agree (s s' : sys) (T : N) : Prop := {
  a_k : forall k, kget s' T k = kget s T k;
  a_c : forall f, rel f = true -> cn (getc s' T) f = cn (getc s T) f;
  a_lm : c_lm (getc s' T) = c_lm (getc s T);
  a_pwok : c_pwok (getc s' T) = c_pwok (getc s T);
  a_sent : lext T (s_sent s) (s_sent s');
  a_dlv : lext T (s_dlv s) (s_dlv s');
  a_cts : lext T (s_cts s) (s_cts s');
  a_rs : forall c j, In (T, c, j) (s_rs s') <-> In (T, c, j) (s_rs s);
  a_wr : forall c, In (T, c) (s_wr s') <-> In (T, c) (s_wr s)
}.

Section Frame.
  Variables (s s' : sys) (T : N).
  Hypothesis A : agree s s' T.

  Lemma ag_F : forall f, rel f = true -> F s' T f = F s T f. Proof. intros. unfold F. apply (a_c _ _ _ A). auto. Qed.
  Lemma ag_hasm : hasm s' T <-> hasm s T. Proof. unfold hasm. rewrite ag_F by reflexivity. tauto. Qed.
  Lemma ag_prim : prim s' T = prim s T. Proof. unfold prim. apply ag_F. reflexivity. Qed.
  Lemma ag_lm : lm s' T = lm s T. Proof. unfold lm. apply (a_lm _ _ _ A). Qed.
  Lemma ag_pwok : pwok s' T = pwok s T. Proof. unfold pwok. apply (a_pwok _ _ _ A). Qed.
  Lemma ag_sent : forall x, txn_of x = Some T -> relev x = true -> In x (s_sent s') -> In x (s_sent s).
  Proof. intros x H R. apply (a_sent _ _ _ A x H R). Qed.
  Lemma ag_sent' : forall x, txn_of x = Some T -> relev x = true -> In x (s_sent s) -> In x (s_sent s').
  Proof. intros x H R. apply (a_sent _ _ _ A x H R). Qed.
  Lemma ag_dlv : forall x, txn_of x = Some T -> relev x = true -> In x (s_dlv s') -> In x (s_dlv s).
  Proof. intros x H R. apply (a_dlv _ _ _ A x H R). Qed.
  Lemma ag_dlv' : forall x, txn_of x = Some T -> relev x = true -> In x (s_dlv s) -> In x (s_dlv s').
  Proof. intros x H R. apply (a_dlv _ _ _ A x H R). Qed.
  Lemma ag_pwdlv : forall k, pwdlv s' T k <-> pwdlv s T k.
  Proof.
    intros k. unfold pwdlv. split; intros [r [ks [m [o [H1 H2]]]]]; exists r, ks, m, o; split; auto.
    - apply ag_dlv; auto.
    - apply ag_dlv'; auto.
  Qed.
  Lemma ag_some_rb : some_rb s' T <-> some_rb s T.
  Proof. unfold some_rb. rewrite ag_lm. split; intros [k [H1 H2]]; exists k; split; auto; rewrite (a_k _ _ _ A) in *; auto. Qed.
  Lemma ag_Dn : Dn s' T <-> Dn s T.
  Proof. unfold Dn. rewrite !ag_F by reflexivity. rewrite ag_some_rb. tauto. Qed.
  Lemma ag_Dd : Dd s' T <-> Dd s T.
  Proof.
    unfold Dd, closed, NS. rewrite !ag_F by reflexivity. rewrite ag_prim, ag_lm, (a_k _ _ _ A).
    split; (intros [H | [H | [k [H1 [H2 H3]]]]]; [left; auto | right; left; auto | right; right; exists k]).
    - rewrite (a_k _ _ _ A) in H2. rewrite ag_pwdlv in H3. auto.
    - rewrite (a_k _ _ _ A). rewrite ag_pwdlv. auto.
  Qed.
  Lemma ag_classic : classic s' T <-> classic s T.
  Proof.
    unfold classic. rewrite !ag_F by reflexivity. split; intros [H1 [H2 H3]]; repeat split; auto; intros c Hc; apply (H3 c);
      apply (a_rs _ _ _ A); auto.
  Qed.

  Lemma frame_ginv : ginv s T -> ginv s' T.
  Proof.
    intros G. constructor; intros; rewrite ?(a_k _ _ _ A), ?ag_prim in *; repeat rewrite ag_F in * by reflexivity.
    - eapply g_pw; eauto. apply ag_dlv; eauto.
    - eapply g_cm; eauto. apply ag_dlv; eauto.
    - eapply g_cts_c; eauto. apply ag_dlv; eauto.
    - eapply g_cts_r; eauto. apply ag_dlv; eauto.
    - apply ag_dlv'; auto. eapply g_cts_sub; eauto. apply (a_cts _ _ _ A); auto.
    - eapply g_rs; eauto. apply (a_rs _ _ _ A); auto.
    - apply ag_sent in H; auto. apply (g_rs_sent _ _ G) in H. destruct H as [j H]. exists j. apply (a_rs _ _ _ A); auto.
    - apply (a_wr _ _ _ A) in H. apply (g_wr _ _ G) in H. destruct H as [j H]. exists j. apply (a_rs _ _ _ A); auto.
    - apply ag_sent'; auto. eapply g_cm_sent; eauto. apply ag_dlv; eauto.
    - apply ag_dlv in H; auto. apply (g_pw_sent _ _ G) in H. destruct H as [p [a [o [m [f [secs H]]]]]].
      exists p, a, o, m, f, secs. apply ag_sent'; auto.
    - eapply g_pwsent_cnt; eauto. apply ag_sent; eauto.
    - eapply g_1pc_sent; eauto. apply ag_sent; eauto.
    - eapply g_1pc; eauto. apply ag_dlv; eauto.
    - apply (g_kst_fresh _ _ G); auto.
    - apply ag_sent in H; auto. apply (g_cmsent_p _ _ G) in H. rewrite ag_hasm. auto.
    - apply (g_fresh_cnt _ _ G). rewrite <- ag_hasm. auto.
    - eapply g_rb_dead; eauto. apply ag_sent; eauto.
    - apply ag_pwdlv. apply (g_pwok _ _ G). rewrite <- ag_pwok. auto.
    - apply (g_told_dead _ _ G); auto.
    - apply (g_1pcts _ _ G); auto.
    - eapply g_async_cts; eauto. apply ag_dlv; eauto.
    - eapply g_jasync; eauto. apply (a_rs _ _ _ A); eauto.
  Qed.

  Lemma frame_tinv : tinv s T -> tinv s' T.
  Proof.
    intros I. constructor; intros; rewrite ?ag_prim, ?ag_lm, ?ag_pwok, ?(a_k _ _ _ A), ?ag_Dn, ?ag_Dd, ?ag_some_rb in *; repeat rewrite ag_F in * by reflexivity.
    - apply (t_prim_lm _ _ I).
    - apply (t_cnt _ _ I).
    - apply (t_pwok _ _ I); auto.
    - apply ag_sent in H; auto. apply (t_cmsent _ _ I) in H. auto.
    - eapply t_okd; eauto. apply ag_dlv; eauto.
    - apply (t_pcok _ _ I); auto.
    - eapply t_rs_p; eauto. apply (a_rs _ _ _ A); eauto.
    - eapply t_one; eauto.
    - eapply t_pcommit; eauto.
    - eapply t_gone; eauto. apply ag_dlv; eauto.
    - apply (t_rbflag _ _ I); auto.
    - eapply t_rb_sent; eauto. apply ag_sent; eauto.
    - apply (t_told_err _ _ I); auto.
    - eapply t_rb_dead; eauto.
    - apply (t_told_ok _ _ I); auto.
  Qed.

  Lemma frame_inv : ginv s T /\ (hasm s T -> classic s T -> tinv s T) ->
                    ginv s' T /\ (hasm s' T -> classic s' T -> tinv s' T).
  Proof.
    intros [G I]. split; [apply frame_ginv; auto |]. intros H1 H2. apply frame_tinv. apply I.
    - apply ag_hasm; auto.
    - apply ag_classic; auto.
  Qed.
End Frame.
