(* Percolator/ProofsTop.v — the proofs of those theorems of Props.v that are not a single lemma application:
   each `<name>_proof` below has exactly the statement of `Theorem <name>` in Props.v, which is closed by `exact`. *)
From Verif Require Export Percolator.Mixed2 Percolator.Trace Percolator.ProofsTrace Percolator.AddKeys Percolator.Heartbeat.
From Coq Require Export Sorting.Sorted Permutation.

Lemma C02_atomic_proof : forall evs s T, run evs = Some s -> hasm s T -> classic s T ->
  (* (i) one commit timestamp *)
  (forall k1 k2 c1 c2, kget s T k1 = Committed c1 -> kget s T k2 = Committed c2 -> c1 = c2) /\
  (* (ii) never one key committed and a locked mutation rolled back *)
  (forall k1 k2 c, kget s T k1 = Committed c -> In k2 (lm s T) -> kget s T k2 <> RolledBack) /\
  (* once the primary is committed every locked mutation is committed at that ts or still locked *)
  (forall c, kget s T (prim s T) = Committed c ->
     forall k, In k (lm s T) -> kget s T k = Committed c \/ exists m, kget s T k = Locked m) /\
  (* (iii) told success => primary committed, now and in every accepted extension *)
  (F s T FTold = 1 -> exists c, kget s T (prim s T) = Committed c /\
     forall evs' s', run_from s evs' = Some s' -> F s' T FTold = 1 /\ kget s' T (prim s' T) = Committed c) /\
  (* (iv) told a definite failure => no key is committed, now or in any accepted extension *)
  (F s T FTold = 3 -> forall evs' s', run_from s evs' = Some s' ->
     F s' T FTold = 3 /\ forall k c, kget s' T k <> Committed c).
Proof.
  intros evs s T R Hm Hc. split; [| split; [| split; [| split]]].
  - exact (atomic_one_ts evs s T R Hm Hc).
  - exact (atomic_all_or_nothing evs s T R Hm Hc).
  - exact (committed_keys evs s T R Hm Hc).
  - intros Ht. destruct (told_ok_committed evs s T R Hm Hc Ht) as [c [A [_ B]]]. eauto.
  - exact (told_err_never evs s T R Hm Hc).
Qed.

Lemma C02_atomic_onepc_proof : forall evs s T, run evs = Some s -> onepcm s T ->
  (forall k1 k2 c1 c2, kget s T k1 = Committed c1 -> kget s T k2 = Committed c2 -> c1 = c2) /\
  (forall k1 k2 c, kget s T k1 = Committed c -> In k2 (lm s T) -> kget s T k2 <> RolledBack) /\
  (forall k c, kget s T k = Committed c -> forall k', In k' (call s T) -> kget s T k' = Committed c) /\
  (F s T FTold = 1 -> exists c, (forall k, In k (call s T) -> kget s T k = Committed c) /\
     forall evs' s', run_from s evs' = Some s' -> forall k, In k (call s T) -> kget s' T k = Committed c) /\
  (F s T FTold = 3 -> forall evs' s', run_from s evs' = Some s' ->
     F s' T FTold = 3 /\ forall k c, kget s' T k <> Committed c).
Proof.
  intros evs s T R Hm. split; [| split; [| split; [| split]]].
  - exact (onepc_one_ts evs s T R Hm).
  - exact (onepc_all_or_nothing evs s T R Hm).
  - exact (onepc_all_committed evs s T R Hm).
  - exact (onepc_told_ok evs s T R Hm).
  - exact (onepc_told_err evs s T R Hm).
Qed.

Lemma C02_atomic_async_proof : forall evs s T, run evs = Some s -> asyncm s T ->
  (* (i) one commit ts, and it is cstar *)
  (forall k c, kget s T k = Committed c -> Sealed s T /\ c = cstar s T) /\
  (* (ii) all or nothing *)
  (forall k1 k2 c, kget s T k1 = Committed c -> In k2 (lm s T) -> kget s T k2 <> RolledBack) /\
  (* the owner's commit requests and every resolver decision carry cstar (resp. roll back only a dead transaction) *)
  (forall r C ks, In (ECmSend r T C ks) (s_sent s) -> Sealed s T /\ C = cstar s T) /\
  (forall r C ks, In (ERsSend r T C ks) (s_sent s) -> (C <> 0 -> Sealed s T /\ C = cstar s T) /\ (C = 0 -> NSa s T)) /\
  (* (iii) told success => sealed: every locked mutation is locked or committed at cstar, every resolver commits at cstar *)
  (F s T FTold = 1 ->
     Sealed s T /\
     (forall k, In k (lm s T) -> (exists m, kget s T k = Locked m /\ m <= cstar s T) \/ kget s T k = Committed (cstar s T)) /\
     (forall r C ks, In (ERsSend r T C ks) (s_sent s) -> C = cstar s T /\ C <> 0)) /\
  (* (iv) told a definite failure => nothing committed, every resolver decision is a rollback *)
  (F s T FTold = 3 -> (forall k c, kget s T k <> Committed c) /\ (forall r C ks, In (ERsSend r T C ks) (s_sent s) -> C = 0)).
Proof.
  intros evs s T R Am. split; [| split; [| split; [| split; [| split]]]].
  - exact (async_commit_ts evs s T R Am).
  - exact (async_all_or_nothing evs s T R Am).
  - exact (async_owner_commit evs s T R Am).
  - exact (async_resolver_decision evs s T R Am).
  - exact (async_told_ok evs s T R Am).
  - exact (async_told_err evs s T R Am).
Qed.

Lemma run_from_app : forall a s b s1 s2, run_from s a = Some s1 -> run_from s1 b = Some s2 -> run_from s (a ++ b) = Some s2.
Proof.
  induction a as [| e a IH]; intros s b s1 s2 H1 H2; cbn [run_from app] in *.
  - inversion H1. subst. auto.
  - destruct (step s e) as [s0 |]; try discriminate. eapply IH; eauto.
Qed.

Lemma C02_atomic_async_extension_proof : forall evs s T evs' s', run evs = Some s -> run_from s evs' = Some s' -> asyncm s' T ->
  (F s T FTold = 1 -> F s' T FTold = 1 /\ Sealed s' T /\
     (forall k, In k (lm s' T) -> (exists m, kget s' T k = Locked m /\ m <= cstar s' T) \/ kget s' T k = Committed (cstar s' T))) /\
  (F s T FTold = 3 -> F s' T FTold = 3 /\ forall k c, kget s' T k <> Committed c).
Proof.
  intros evs s T evs' s' R R' Am'. assert (R2 : run (evs ++ evs') = Some s') by (eapply run_from_app; eauto).
  destruct (run_from_frozen _ _ _ T R') as [Fz _]. split; intros Ht.
  - destruct Fz as [E _]; [rewrite Ht; discriminate |]. assert (Ht' : F s' T FTold = 1) by congruence. split; auto.
    destruct (async_told_ok _ _ _ R2 Am' Ht') as [A [B _]]. auto.
  - destruct Fz as [E _]; [rewrite Ht; discriminate |]. assert (Ht' : F s' T FTold = 3) by congruence. split; auto.
    apply (async_told_err _ _ _ R2 Am' Ht').
Qed.

Lemma C02_atomic_fallback_partial_proof : forall evs s T evs' s' k, run evs = Some s -> run_from s evs' = Some s' ->
  (forall c, kget s T k = Committed c -> kget s' T k = Committed c) /\ (kget s T k = RolledBack -> kget s' T k = RolledBack).
Proof.
  intros evs s T evs' s' k R R'. pose proof (run_from_kmono _ _ _ R') as KM. split; intros.
  - eapply km_committed; eauto.
  - eapply km_rolledback; eauto.
Qed.

Lemma C02_fallback_owner_closed_proof : forall evs s T, run evs = Some s -> hasm s T -> F s T FTold = 3 ->
  F s T FPcNeg = F s T FPcSent ->
  forall evs' s', run_from s evs' = Some s' ->
    F s' T FTold = 3 /\ forall r c ks, In (ECmReply r T c ks CmOk) (s_dlv s') -> ~ In (prim s T) ks.
Proof.
  intros evs s T R Hm Ht Hn evs' s' R'. destruct (inv_run evs s R T) as [G _].
  assert (Hd : F s T FDead <> 0) by (apply (g_told_dead _ _ G); auto).
  destruct (closed_run_from evs' s s' T (inv_run _ _ R) (pcinv_run _ _ T R) Hm Hd Hn R') as [Hm' [Ep [_ [_ [P' Z]]]]].
  destruct (run_from_frozen _ _ _ T R') as [Fz _]. split.
  - destruct Fz as [E _]; [rewrite Ht; discriminate | congruence].
  - intros r c ks Hi Hp. rewrite <- Ep in Hp. apply (pc_okd _ _ P' Hm' _ _ _ Hi Hp). exact Z.
Qed.

Lemma C02_atomic_fallback_proof : forall evs s T, run evs = Some s -> mixed s T ->
  (forall k1 k2 c1 c2, kget s T k1 = Committed c1 -> kget s T k2 = Committed c2 -> c1 = c2) /\
  (forall k1 k2 c, kget s T k1 = Committed c -> In k2 (lm s T) -> kget s T k2 <> RolledBack) /\
  (forall k c, kget s T k = Committed c -> kget s T (prim s T) = Committed c /\
     forall k', In k' (lm s T) -> kget s T k' = Committed c \/ exists m, kget s T k' = Locked m) /\
  (F s T FTold = 1 -> exists c, kget s T (prim s T) = Committed c /\
     forall evs' s', run_from s evs' = Some s' -> F s' T FTold = 1 /\ kget s' T (prim s' T) = Committed c) /\
  (F s T FTold = 3 -> forall evs' s', run_from s evs' = Some s' -> no1pc s' T ->
     F s' T FTold = 3 /\ forall k c, kget s' T k <> Committed c).
Proof.
  intros evs s T R Mx. pose proof (full_run _ _ R) as Fs. split; [| split; [| split; [| split]]].
  - exact (mx_one_ts s T Fs Mx).
  - exact (mx_all_or_nothing s T Fs Mx).
  - intros k c Hk. assert (HP : kget s T (prim s T) = Committed c).
    { destruct Fs as [_ [_ [_ [_ [_ [_ [_ HM]]]]]]]. apply (m_one _ _ (HM T Mx) k). auto. }
    split; auto. exact (mx_committed_keys s T Fs Mx c HP).
  - intros Ht. destruct (mx_told_ok s T Fs Mx Ht) as [c [A [_ B]]]. exists c. auto.
  - intros Ht evs' s' R' N'. eapply mixed_told_err; eauto.
Qed.

Lemma C02_fallback_when_proof : forall evs s T k, run evs = Some s -> hasm s T -> no1pc s T ->
  In k (lm s T) -> kget s T k = Locked 0 -> mixed s T.
Proof.
  intros evs s T k R Hh N1 Hk El. split; auto. split; auto. exists k. split; auto. apply (l_locked _ _ (linv_run _ _ R T)). auto.
Qed.

Lemma C02_fallback_first_decline_proof : forall pre s1 r T ks k s, run pre = Some s1 ->
  step s1 (EPwDeliver r T ks (PwOk 0 0)) = Some s -> In k ks -> kget s1 T k = Unlocked ->
  kget s T k = Locked 0 /\ forall evs' s', run_from s evs' = Some s' -> lamk s' T k = Some 0.
Proof.
  intros pre s1 r T ks k s R1 St Hk Eu. unfold step in St. destruct (stepr s1 _) as [s2 | rr] eqn:E; inversion St. subst s2.
  destruct (pw_deliver_exact _ _ _ _ _ _ E k Hk) as [Tr _]. rewrite Eu in Tr. cbn in Tr. inversion Tr as [Ek].
  split; auto. intros evs' s' R'. pose proof (full_run _ _ R1) as F1. pose proof (full_stepr _ _ _ F1 E) as F2.
  eapply run_from_lam; eauto. destruct F2 as [_ [HL _]]. apply (l_locked _ _ (HL T)). auto.
Qed.

Lemma C03_truthful_proof : forall evs s T, run evs = Some s -> hasm s T -> classic s T ->
  (F s T FTold = 1 -> exists c, kget s T (prim s T) = Committed c /\
     (forall k, In k (lm s T) -> kget s T k = Committed c \/ exists m, kget s T k = Locked m) /\
     forall evs' s', run_from s evs' = Some s' -> F s' T FTold = 1 /\ kget s' T (prim s' T) = Committed c) /\
  (F s T FTold = 3 -> forall evs' s', run_from s evs' = Some s' ->
     F s' T FTold = 3 /\ forall k c, kget s' T k <> Committed c).
Proof.
  intros evs s T R Hm Hc. split.
  - exact (told_ok_committed evs s T R Hm Hc).
  - exact (told_err_never evs s T R Hm Hc).
Qed.

Lemma C03_truthful_onepc_proof : forall evs s T, run evs = Some s -> onepcm s T ->
  (F s T FTold = 1 -> exists c, (forall k, In k (call s T) -> kget s T k = Committed c) /\
     forall evs' s', run_from s evs' = Some s' -> forall k, In k (call s T) -> kget s' T k = Committed c) /\
  (F s T FTold = 3 -> forall evs' s', run_from s evs' = Some s' -> F s' T FTold = 3 /\ forall k c, kget s' T k <> Committed c).
Proof. intros evs s T R Hm. split; [exact (onepc_told_ok evs s T R Hm) | exact (onepc_told_err evs s T R Hm)]. Qed.

Lemma C03_truthful_async_proof : forall evs s T, run evs = Some s -> asyncm s T ->
  (F s T FTold = 1 ->
     Sealed s T /\
     (forall k, In k (lm s T) -> (exists m, kget s T k = Locked m /\ m <= cstar s T) \/ kget s T k = Committed (cstar s T)) /\
     (forall r C ks, In (ERsSend r T C ks) (s_sent s) -> C = cstar s T /\ C <> 0)) /\
  (F s T FTold = 3 -> (forall k c, kget s T k <> Committed c) /\ (forall r C ks, In (ERsSend r T C ks) (s_sent s) -> C = 0)).
Proof. intros evs s T R Am. split; [exact (async_told_ok evs s T R Am) | exact (async_told_err evs s T R Am)]. Qed.

Lemma C03_truthful_fallback_proof : forall evs s T, run evs = Some s -> mixed s T ->
  (F s T FTold = 1 -> exists c, kget s T (prim s T) = Committed c /\
     (forall k, In k (lm s T) -> kget s T k = Committed c \/ exists m, kget s T k = Locked m) /\
     forall evs' s', run_from s evs' = Some s' -> F s' T FTold = 1 /\ kget s' T (prim s' T) = Committed c) /\
  (F s T FTold = 3 -> forall evs' s', run_from s evs' = Some s' -> no1pc s' T ->
     F s' T FTold = 3 /\ forall k c, kget s' T k <> Committed c).
Proof.
  intros evs s T R Mx. pose proof (full_run _ _ R) as Fs. split.
  - exact (mx_told_ok s T Fs Mx).
  - intros Ht evs' s' R' N'. eapply mixed_told_err; eauto.
Qed.
