(* Percolator/Preseal.v — as long as some locked mutation of a transaction has never been locked,
   nothing of it is committed, no commit request and no commit decision exists and Commit has not
   returned success — whatever the commit mode. *)
From Verif Require Export Percolator.Univ.

Lemma deliver_in_dlv : forall s e s' x, stepr s e = Ok s' -> reply_of e = Some x -> In x (s_dlv s').
Proof.
  intros s e s' x H R. destruct e; cbn [reply_of] in R; try discriminate R; inversion R; subst; cbn [stepr] in H; brute H.
  all: repeat match goal with H0 : context [if ?d then setc _ _ _ else _] |- _ => destruct d eqn:? end.
  all: lists_keys; sproj.
  all: repeat match goal with |- context [if ?d then _ else _] => destruct d eqn:? end; sproj.
  all: repeat match goal with Hx : _ = _ |- _ => rewrite Hx end; sproj.
  all: try (left; reflexivity).
Qed.

Definition preseal (s : sys) (T : N) : Prop := exists k0, In k0 (lm s T) /\ kget s T k0 = Unlocked.
Record vfacts (s : sys) (T : N) : Prop := {
  v_nocommit : forall k c, kget s T k <> Committed c;
  v_nocm : forall r c ks, ~ In (ECmSend r T c ks) (s_sent s);
  v_dec : forall C j, In (T, C, j) (s_rs s) -> C = 0;
  v_cslc : forall r ks C, In (ECslReply r T ks (CslCommit C)) (s_dlv s) -> C = 0;
  v_told : F s T FTold <> 1 }.
Definition Vinv (s : sys) : Prop := forall T, hasm s T -> preseal s T -> vfacts s T.

Lemma vfacts_mutations : forall s s' T p ms, Inv s -> Linv s -> Zinv s -> Yinv s ->
  stepr s (EMutations T p ms) = Ok s' -> vfacts s' T.
Proof.
  intros s s' T p ms HI HL HZ HY H. destruct (HI T) as [G _]. pose proof (HL T) as L. pose proof (HZ T) as Z. pose proof (HY T) as Y.
  cbn [stepr] in H. chks H. okinv H. b2p.
  assert (KF : forall k, kget s T k = Unlocked \/ kget s T k = RolledBack) by (intros; apply (g_kst_fresh _ _ G); auto).
  assert (NoA : cn (getc s T) FTriedA = 0).
  { destruct (N.eq_dec (cn (getc s T) FTriedA) 0); auto. exfalso. apply (z_tried _ _ Z); auto. }
  constructor; unfold F; rd.
  - intros k c Ek. rd. destruct (KF k); congruence.
  - intros r c ks Hi. rd. apply (g_cmsent_p _ _ G) in Hi. unfold hasm, F in Hi. destruct Hi as [Hi | [Hi _]]; congruence.
  - intros Cd j Hj. rd. destruct (N.eq_dec Cd 0) as [-> | HC]; auto. exfalso. destruct j as [p' |].
    + apply (g_rs _ _ G) in Hj. rewrite (alt_of_nz _ HC) in Hj. destruct (KF p'); congruence.
    + apply (g_jasync _ _ G) in Hj. unfold F in Hj. congruence.
  - intros r ks Cd Hi. rd. exfalso. apply (l_csl_sent _ _ L) in Hi. apply (y_csl _ _ Y) in Hi. unfold F in Hi. congruence.
  - rd. congruence.
Qed.

Section VStep.
  Variables (s : sys) (e : event) (s' : sys) (T : N).
  Hypothesis H : stepr s e = Ok s'.
  Hypothesis HI : Inv s.
  Hypothesis HL : Linv s.
  Hypothesis Hh : hasm s T.
  Hypothesis U : uinv s T.
  Hypothesis U' : uinv s' T.
  Hypothesis V : preseal s T -> vfacts s T.
  Hypothesis Pre' : preseal s' T.
  Let G : ginv s T := proj1 (HI T).
  Let L : linv s T := HL T.
  Let HI' : Inv s' := inv_stepr _ _ _ HI H.
  Let G' : ginv s' T := proj1 (HI' T).
  Let Em : lm s' T = lm s T := st_lm s e s' T H Hh.

  Lemma vs_pre : preseal s T.
  Proof.
    destruct Pre' as [k0 [K1 K2]]. exists k0. rewrite Em in K1. split; auto.
    destruct (kstate_eq_dec (kget s' T k0) (kget s T k0)) as [E | E]; [congruence |].
    destruct (km_changed _ _ T k0 (stepr_kmono _ _ _ H) E) as [_ Hn]. contradiction.
  Qed.
  Let VF : vfacts s T := V vs_pre.

  Lemma vs_nocommit : forall k c, kget s' T k <> Committed c.
  Proof.
    intros k c Ek'. destruct Pre' as [k0 [K1 K2]].
    destruct (st_kj s e s' T H HI k) as [Same | [[r [ks [m [o [Ee [Hk [[_ [_ E]] | [Ho E]]]]]]]] | [[m [c' [_ [E Cause]]]] | [E _]]]]; try congruence.
    - apply (v_nocommit _ _ VF k c). congruence.
    - assert (Hi : In (EPwReply r T ks (PwOk m o)) (s_dlv s')) by (eapply deliver_in_dlv; eauto; rewrite Ee; reflexivity).
      apply (g_pw _ _ G' _ _ _ _ k0 Hi); auto. eapply (u_1pcdlv _ _ U'); eauto.
    - destruct Cause as [[r [ks [Ee Hk]]] | [Hc [j Hj]]].
      + assert (Hi : In (ECmReply r T c' ks CmOk) (s_dlv s')) by (eapply deliver_in_dlv; eauto; rewrite Ee; reflexivity).
        apply (g_cm_sent _ _ G') in Hi. destruct (st_sent_new s e s' H _ Hi) as [B | B]; [eapply (v_nocm _ _ VF); eauto | rewrite Ee in B; discriminate B].
      + apply Hc. eapply (v_dec _ _ VF); eauto.
  Qed.

  Lemma pre_not_pwok : forall k0, In k0 (lm s T) -> kget s T k0 = Unlocked -> ~ In k0 (pwok s T).
  Proof. intros k0 K1 K2 Hp. apply (g_pwok _ _ G) in Hp. eapply (pwdlv_not_unlocked s T k0); eauto. Qed.

  Lemma vs_nocm : forall r c ks, ~ In (ECmSend r T c ks) (s_sent s').
  Proof.
    intros r c ks Hi. destruct (st_sent_new s e s' H _ Hi) as [B | B]; [eapply (v_nocm _ _ VF); eauto |].
    destruct vs_pre as [k0 [K1 K2]]. pose proof H as H2. rewrite <- B in H2. clear B. cbn [stepr] in H2. unfold step_cm_send in H2. chks H2.
    assert (Ef : fb (getc s T) FHasm = true) by (apply fb_true; exact Hh). rewrite Ef in H2. chks H2.
    eapply pre_not_pwok; eauto. eapply subset_In; eauto.
  Qed.

  Lemma vs_dec : forall C j, In (T, C, j) (s_rs s') -> C = 0.
  Proof.
    intros C j Hj. destruct (st_rs_new s e s' H _ _ _ Hj) as [B | [r [ks Ee]]]; [eapply (v_dec _ _ VF); eauto |].
    destruct (N.eq_dec C 0) as [| HC]; auto. exfalso. destruct vs_pre as [k0 [K1 K2]].
    pose proof H as H2. rewrite Ee in H2. clear Ee. cbn [stepr] in H2. unfold step_rs_send in H2. chks H2.
    destruct (just_cts s r T C) as [p |] eqn:J; chks H2.
    - destruct (just_cts_In _ _ _ _ _ J) as [[_ Hi] | [Hc _]]; [| contradiction].
      apply (g_cts_sub _ _ G) in Hi. apply (g_cts_c _ _ G) in Hi. eapply (v_nocommit _ _ VF); eauto.
    - match goal with Hx : _ || csl_all_locked _ _ _ _ = true |- _ => rename Hx into CJ end.
      apply orb_true_iff in CJ. destruct CJ as [CJ | CJ].
      + apply andb_true_iff in CJ. destruct CJ as [CJ _]. unfold csl_missing in CJ. apply existsb_exists in CJ.
        destruct CJ as [e0 [E1 E2]]. destruct e0; try discriminate. destruct st; try discriminate. b2p. subst.
        apply (l_csl_sub _ _ L) in E1. apply HC. eapply (v_cslc _ _ VF); eauto.
      + unfold csl_all_locked in CJ. apply existsb_exists in CJ. destruct CJ as [e0 [E1 E2]].
        destruct e0; try discriminate. destruct st; try discriminate. destruct async; try discriminate. cbv zeta in E2. b2p. subst.
        apply (g_cts_sub _ _ G) in E1. destruct (u_ctsl _ _ U _ _ _ _ _ E1) as [_ [Lp [-> Hs]]].
        destruct (N.eq_dec k0 (prim s T)) as [-> | Hne]; [eapply (l_nu _ _ L); eauto |].
        assert (Hk : In k0 secs) by (apply Hs; auto).
        match goal with Hx : forallb _ secs = true |- _ => pose proof (forallb_In _ _ _ Hx Hk) as Cx end. cbn beta in Cx.
        apply existsb_exists in Cx. destruct Cx as [[k' M] [X1 X2]]. cbn [fst] in X2. apply N.eqb_eq in X2. subst k'.
        apply csl_lock_ms_In2 in X1. destruct X1 as [ks0 [l [X1 X3]]]. apply (l_csl_sub _ _ L) in X1.
        eapply (l_nu _ _ L); [eapply (u_csll _ _ U); eauto | auto].
  Qed.

  Lemma vs_cslc : forall r ks C, In (ECslReply r T ks (CslCommit C)) (s_dlv s') -> C = 0.
  Proof.
    intros r ks C Hi. destruct (st_dlv_new s e s' H _ Hi) as [B | B]; [eapply (v_cslc _ _ VF); eauto |].
    destruct (N.eq_dec C 0) as [| HC]; auto. exfalso.
    apply reply_of_eq in B. pose proof H as H2. rewrite B in H2. clear B. cbn [stepr] in H2. unfold step_csl_deliver in H2. chks H2.
    apply N.eqb_neq in HC. rewrite HC in H2. chks H2. apply existsb_exists in C1. destruct C1 as [k [K1 K2]].
    destruct (kget s T k) eqn:Ek; try discriminate.
    - apply existsb_exists in K2. destruct K2 as [[T' c] [W1 W2]]. cbn [fst snd] in W2. b2p. subst.
      destruct (wr_decision _ _ _ G W1) as [j Hj]. apply HC. eapply (v_dec _ _ VF); eauto.
    - eapply (v_nocommit _ _ VF); eauto.
  Qed.

  Lemma vs_told : F s' T FTold <> 1.
  Proof.
    intros Ht. destruct (stepr_fields _ _ _ T H) as [[Same | [x [Ee [_ Ex]]]] _]; [apply (v_told _ _ VF); congruence |].
    rewrite Ht in Ex. destruct x; try discriminate Ex. destruct vs_pre as [k0 [K1 K2]].
    pose proof H as H2. rewrite Ee in H2. clear Ee. cbn [stepr] in H2. unfold step_told in H2. chks H2.
    apply orb_true_iff in C2. destruct C2 as [C2 | CD]; [| exfalso; b2p; unfold hasm, F in Hh; congruence].
    apply orb_true_iff in C2. destruct C2 as [C2 | C2]; [apply orb_true_iff in C2; destruct C2 as [C2 | C2] |]; b2p.
    - eapply (v_nocommit _ _ VF). apply (l_pcok _ _ L Hh). exact C2.
    - destruct (u_1pcts _ _ U C2) as [r [ks [m [o [B1 B2]]]]]. apply (g_pw _ _ G _ _ _ _ k0 B1); auto. eapply (u_1pcdlv _ _ U); eauto.
    - eapply pre_not_pwok; eauto. eapply subset_In; eauto.
  Qed.

  Theorem vfacts_step : vfacts s' T.
  Proof. constructor; [exact vs_nocommit | exact vs_nocm | exact vs_dec | exact vs_cslc | exact vs_told]. Qed.
End VStep.

Theorem vinv_stepr : forall s e s', Inv s -> Linv s -> Zinv s -> Yinv s -> Uinv s -> Uinv s' -> Vinv s -> stepr s e = Ok s' -> Vinv s'.
Proof.
  intros s e s' HI HL HZ HY HU HU' HV H T Hh' Pre'.
  destruct (N.eq_dec (F s T FHasm) 0) as [Hz | Hz].
  - destruct (option_map (N.eqb T) (txn_of e)) as [[|] |] eqn:Et.
    2: { exfalso. assert (Hne : txn_of e <> Some T) by (intros E'; rewrite E' in Et; cbn in Et; rewrite N.eqb_refl in Et; discriminate).
         unfold hasm, F in *. rewrite (stepr_getc_other _ _ _ T H Hne) in Hh'. contradiction. }
    2: { exfalso. assert (Hne : txn_of e <> Some T) by (intros E'; rewrite E' in Et; discriminate).
         unfold hasm, F in *. rewrite (stepr_getc_other _ _ _ T H Hne) in Hh'. contradiction. }
    destruct (quiet2 e) eqn:Q.
    + exfalso. destruct (stepr_quiet2 _ _ _ T Q H) as [_ _ _ _ _ A _]. unfold hasm, F in *. congruence.
    + destruct e; cbn [quiet2] in Q; try discriminate Q; cbn [txn_of option_map] in Et; inversion Et as [Et1]; apply N.eqb_eq in Et1; subst.
      * eapply vfacts_mutations; eauto.
      * exfalso. cbn [stepr] in H. unfold step_pw_deliver in H. chks H.
        repeat match type of H with
               | (match ?d with _ => _ end) = Ok _ => destruct d eqn:?; chks H; try discriminate H
               | (if ?d then _ else _) = Ok _ => destruct d eqn:?; chks H; try discriminate H
               end; try (okinv H); unfold hasm, F in *; revert Hh'; getc_keys; rd;
          repeat match goal with |- context [if ?d then _ else _] => destruct d eqn:? end; rd; auto.
  - eapply vfacts_step; eauto.
Qed.
