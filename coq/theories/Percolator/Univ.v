(* Percolator/Univ.v — invariants that hold for every transaction whose mutations are logged, whatever
   its commit mode: why a locked mutation can be rolled back (uinv), and what is known while some
   locked mutation has never been locked (vinv). *)
From Verif Require Export Percolator.Motion.

Lemma pw_deliver_not_rb : forall s s' r T ks m o k, stepr s (EPwDeliver r T ks (PwOk m o)) = Ok s' ->
  In k ks -> kget s T k <> RolledBack.
Proof.
  intros s s' r T ks m o k H Hk Ek. cbn [stepr] in H. unfold step_pw_deliver in H. chks H.
  match type of H with context [setc (add_dlv s ?ee) T ?cc] => set (c' := cc) in *; set (e' := ee) in * end.
  change (setc (add_dlv s e') T c') with (add_dlv (setc s T c') e') in H.
  set (b := setc s T c') in *. assert (Kb : forall k0, kget b T k0 = kget s T k0) by reflexivity.
  destruct (o =? 0).
  - destruct (step_keys _ _ _ _) as [s2 |] eqn:E; [| discriminate].
    destruct (step_keys_char _ _ _ _ _ _ (tr_pw_ok m) (tr_pw_idem m) (tr_pw_total m) E k) as [[_ Ch] | [Hn _]]; [| contradiction].
    rewrite Kb, Ek in Ch. discriminate Ch.
  - destruct (step_keys _ _ _ _) as [s2 |] eqn:E; [| discriminate].
    destruct (step_keys_char _ _ _ _ _ _ (tr_1pc_ok o) (tr_1pc_idem o) (tr_1pc_total o) E k) as [[_ Ch] | [Hn _]]; [| contradiction].
    rewrite Kb, Ek in Ch. discriminate Ch.
Qed.

Lemma reply_of_eq : forall e x, reply_of e = Some x ->
  match x with
  | ECslReply r T ks st => e = ECslDeliver r T ks st
  | ECmReply r T c ks y => e = ECmDeliver r T c ks y
  | ECtsReply r T p st => e = ECtsDeliver r T p st
  | EPwReply r T ks y => e = EPwDeliver r T ks y
  | _ => True
  end.
Proof. intros e x H. destruct e; cbn [reply_of] in H; try discriminate H; inversion H; subst; auto. Qed.

(* ---------------- one step, seen from a transaction with logged mutations ---------------- *)
Section Step.
  Variables (s : sys) (e : event) (s' : sys) (T : N).
  Hypothesis H : stepr s e = Ok s'.
  Hypothesis HI : Inv s.
  Hypothesis Hh : hasm s T.
  Hypothesis PC : pcinv s T.
  Let G : ginv s T := proj1 (HI T).
  Let KM : kmono s s' := stepr_kmono _ _ _ H.

  Lemma st_hasm : hasm s' T. Proof. destruct (stepr_frozen _ _ _ T H) as [_ Fz]. apply (Fz Hh). Qed.
  Lemma st_prim : prim s' T = prim s T. Proof. destruct (stepr_frozen _ _ _ T H) as [_ Fz]. apply (Fz Hh). Qed.
  Lemma st_lm : lm s' T = lm s T. Proof. destruct (stepr_frozen _ _ _ T H) as [_ Fz]. apply (Fz Hh). Qed.
  Lemma st_dlv : forall x, In x (s_dlv s) -> In x (s_dlv s').
  Proof. intros x Hx. apply (stepr_dlv_incl _ _ _ H). auto. Qed.
  Lemma st_dlv_new : forall x, In x (s_dlv s') -> In x (s_dlv s) \/ reply_of e = Some x.
  Proof.
    intros x Hx. pose proof (stepr_lists _ _ _ H) as [_ [Ld _]].
    destruct Ld as [Ld | [e' [R1 Ld]]]; rewrite Ld in Hx; auto. destruct Hx as [Hx | Hx]; auto. subst. auto.
  Qed.
  Lemma st_sent_new : forall x, In x (s_sent s') -> In x (s_sent s) \/ x = e.
  Proof.
    intros x Hx. pose proof (stepr_lists _ _ _ H) as [Ls _]. destruct Ls as [Ls | Ls]; rewrite Ls in Hx; auto.
    destruct Hx as [Hx | Hx]; auto.
  Qed.
  Lemma st_sent : forall x, In x (s_sent s) -> In x (s_sent s').
  Proof.
    intros x Hx. pose proof (stepr_lists _ _ _ H) as [Ls _]. destruct Ls as [Ls | Ls]; rewrite Ls; auto. right. auto.
  Qed.
  Lemma st_rs : forall x, In x (s_rs s) -> In x (s_rs s').
  Proof.
    intros x Hx. pose proof (stepr_lists _ _ _ H) as [_ [_ [_ [_ [Lr _]]]]].
    destruct Lr as [Lr | [r [T1 [c [ks [j [_ Lr]]]]]]]; rewrite Lr; auto. right. auto.
  Qed.
  Lemma st_rs_new : forall T1 c j, In (T1, c, j) (s_rs s') -> In (T1, c, j) (s_rs s) \/ exists r ks, e = ERsSend r T1 c ks.
  Proof.
    intros T1 c j Hx. pose proof (stepr_lists _ _ _ H) as [_ [_ [_ [_ [Lr _]]]]].
    destruct Lr as [Lr | [r [T2 [c2 [ks [j2 [Ee Lr]]]]]]]; rewrite Lr in Hx; auto. destruct Hx as [Hx | Hx]; auto.
    inversion Hx. subst. right. eauto.
  Qed.

  Lemma st_some_rb : some_rb s T -> some_rb s' T.
  Proof. apply some_rb_mono; [exact KM | apply st_lm]. Qed.
  Lemma st_dead : F s T FDead <> 0 -> F s' T FDead <> 0. Proof. apply (stepr_dead _ _ _ T H). Qed.
  Lemma st_closed : F s T FDead <> 0 -> F s T FPcNeg = F s T FPcSent -> F s' T FPcNeg = F s' T FPcSent.
  Proof.
    intros Hd Hn. destruct (stepr_pcn _ _ _ T H G (pc_cnt _ _ PC) st_hasm) as [[A [B C]] [Sent [Mono _]]].
    specialize (Sent Hh Hd). destruct (Mono Hh) as [M1 _]. unfold F in *. lia.
  Qed.
  Lemma st_pwdlv_back : forall k, kget s T k = RolledBack -> pwdlv s' T k -> pwdlv s T k.
  Proof.
    intros k Ek [r [ks [m [o [H1 H2]]]]]. destruct (st_dlv_new _ H1) as [B | B]; [exists r, ks, m, o; auto |].
    exfalso. apply reply_of_eq in B. pose proof H as H3. rewrite B in H3. eapply pw_deliver_not_rb; eauto.
  Qed.
  Lemma st_Dn : Dn s T -> Dn s' T.
  Proof. apply Dn_mono; [exact KM | apply st_lm | apply st_dead | apply st_closed]. Qed.
  Lemma st_Dd : Dd s T -> Dd s' T.
  Proof.
    apply Dd_mono; [exact KM | apply st_lm | apply st_dead | apply st_closed | apply st_prim | apply st_pwdlv_back].
  Qed.
  Lemma st_rolledback : forall k, kget s T k = RolledBack -> kget s' T k = RolledBack.
  Proof. intros. eapply km_rolledback; eauto. Qed.
  Lemma st_committed : forall k c, kget s T k = Committed c -> kget s' T k = Committed c.
  Proof. intros. eapply km_committed; eauto. Qed.
  Lemma st_kj : forall k, kj s e s' T k. Proof. apply (stepr_kj _ _ _ T H G). Qed.
End Step.

(* ---------------- which event changes which part of the owner's record ---------------- *)
Ltac brute H :=
  unfold step_pw_send, step_pw_deliver, step_pw_reply, step_cm_send, step_cm_deliver, step_cm_reply, step_rb_send,
         step_rb_deliver, step_cts_send, step_cts_deliver, step_csl_deliver, step_rs_send, step_rs_deliver, step_hb_send,
         step_told, plain_send, plain_reply in H; chks H;
  repeat match type of H with
         | (match ?d with _ => _ end) = Ok _ => destruct d eqn:?; chks H; try discriminate H
         | (if ?d then _ else _) = Ok _ => destruct d eqn:?; chks H; try discriminate H
         end;
  try (okinv H).

Lemma stepr_fields : forall s e s' T0, stepr s e = Ok s' ->
  (F s' T0 FTold = F s T0 FTold \/ exists x, e = ETold T0 x /\ F s T0 FTold = 0 /\ F s' T0 FTold = told_code x) /\
  (F s' T0 FPcRb = F s T0 FPcRb \/ exists r c ks, e = ECmReply r T0 c ks CmGone /\ has_prim (getc s T0) ks = true) /\
  (F s' T0 F1pcTs = F s T0 F1pcTs \/ exists r ks m o, e = EPwReply r T0 ks (PwOk m o) /\ o <> 0) /\
  (F s' T0 FPcSent = F s T0 FPcSent \/ exists r c ks, e = ECmSend r T0 c ks) /\
  (forall k, In k (pwok s T0) -> In k (pwok s' T0)) /\
  (pwok s' T0 = pwok s T0 \/ exists r ks m o, e = EPwReply r T0 ks (PwOk m o) /\ pwok s' T0 = ks ++ pwok s T0).
Proof.
  intros s e s' T0 H. unfold F, pwok.
  destruct (option_map (N.eqb T0) (txn_of e)) as [[|] |] eqn:Et.
  2: { assert (Hne : txn_of e <> Some T0) by (intros E'; rewrite E' in Et; cbn in Et; rewrite N.eqb_refl in Et; discriminate).
       rewrite (stepr_getc_other _ _ _ T0 H Hne). repeat split; auto. }
  2: { assert (Hne : txn_of e <> Some T0) by (intros E'; rewrite E' in Et; discriminate).
       rewrite (stepr_getc_other _ _ _ T0 H Hne). repeat split; auto. }
  destruct (txn_of e) as [T1 |] eqn:Et'; cbn [option_map] in Et; inversion Et as [Et1]. apply N.eqb_eq in Et1. subst T1.
  destruct_event e; cbn [txn_of] in Et'; inversion Et'; subst; cbn [stepr] in H; brute H.
  all: repeat match goal with |- context [match ?d with _ => _ end] => is_var d; destruct d eqn:? end.
  all: repeat match goal with |- context [if ?d then _ else _] => destruct d eqn:? end.
  all: getc_keys; rd; repeat match goal with |- context [if ?d then _ else _] => destruct d eqn:? end; rd.
  all: repeat split; intros; auto; try (left; reflexivity); try (apply in_or_app; right; assumption).
  all: try (right; do 3 eexists; split; [reflexivity | first [assumption | rewrite N.eqb_refl; assumption | congruence]]).
  all: try (right; do 3 eexists; reflexivity).
  all: try (right; eexists; repeat split; try reflexivity; b2p; auto; fail).
  all: try (right; do 4 eexists; split; [reflexivity |]; first [reflexivity | apply N.eqb_neq; assumption]).
Qed.

(* the ghost min-commit map is only extended, by the prewrite delivery that locks an unlocked key *)
Lemma stepr_lam : forall s e s' T0 k, stepr s e = Ok s' -> linv s T0 ->
  (forall m, lamk s T0 k = Some m -> lamk s' T0 k = Some m) /\
  (forall m, lamk s' T0 k = Some m -> lamk s T0 k = Some m \/
     (kget s T0 k = Unlocked /\ exists r ks, e = EPwDeliver r T0 ks (PwOk m 0) /\ In k ks)).
Proof.
  intros s e s' T0 k H L. unfold lamk.
  destruct (quiet2 e) eqn:Q.
  { destruct (stepr_quiet2 _ _ _ T0 Q H) as [A _ _ _ _ _ _]. unfold lam. rewrite A. auto. }
  destruct e; cbn [quiet2] in Q; try discriminate Q.
  - cbn [stepr] in H. chks H. okinv H. destruct (N.eq_dec s0 T0) as [-> | Hne].
    + rewrite getc_setc_eq. unfold lam. cbn [c_lam set_muts setn]. auto.
    + rewrite getc_setc_ne by congruence. auto.
  - destruct (N.eq_dec s0 T0) as [-> | Hne].
    2: { rewrite (stepr_getc_other _ _ _ T0 H); [auto | cbn [txn_of]; congruence]. }
    cbn [stepr] in H. unfold step_pw_deliver in H. chks H.
    set (fresh := filter (fun k => match kget s T0 k with Unlocked => true | _ => false end) ks) in *.
    assert (Hf : mem k fresh = true -> kget s T0 k = Unlocked /\ In k ks).
    { intros M. unfold fresh in M. apply mem_filter in M. destruct M as [M1 M2]. destruct (kget s T0 k); try discriminate. auto. }
    assert (Hn : forall m, lam (getc s T0) k = Some m -> mem k fresh = false).
    { intros m El. destruct (mem k fresh) eqn:M; auto. exfalso. destruct (Hf eq_refl) as [Eu _]. eapply (l_nu _ _ L); eauto. }
    destruct res as [m o | |].
    + destruct (o =? 0) eqn:Eo.
      * destruct (step_keys _ _ _ _) as [s2 |] eqn:E; [| discriminate]. okinv H. rewrite (step_keys_getc _ _ _ _ _ T0 E). rd.
        match goal with |- context [if ?d then _ else _] => destruct d end; rewrite ?lam_setn, lam_add_lam, lam_add_kl; split; intros m0 El.
        all: try (rewrite (Hn _ El); auto; fail).
        all: destruct (mem k fresh) eqn:M; auto; inversion El; subst; right; destruct (Hf eq_refl); split; auto; apply N.eqb_eq in Eo; subst; eauto.
      * destruct (step_keys _ _ _ _) as [s2 |] eqn:E; [| discriminate]. okinv H. rewrite (step_keys_getc _ _ _ _ _ T0 E). rd.
        match goal with |- context [if ?d then _ else _] => destruct d end; rewrite ?lam_setn, ?lam_add_kl; auto.
    + okinv H. rd. rewrite !lam_add_kl. auto.
    + okinv H. rd. rewrite !lam_add_kl. auto.
Qed.

Lemma just_cts_In : forall s r T c p, just_cts s r T c = Some p ->
  (c <> 0 /\ In (ECtsReply r T p (StCommitted c)) (s_cts s)) \/ (c = 0 /\ In (ECtsReply r T p StRolledBack) (s_cts s)).
Proof.
  unfold just_cts. intros s r T c p H.
  destruct (find _ (s_cts s)) as [e |] eqn:Fd; [| discriminate]. apply find_some in Fd. destruct Fd as [F1 F2].
  destruct e; try discriminate. inversion H. subst. destruct st; try discriminate; b2p; subst; auto.
Qed.
Lemma async_cts_In2 : forall l r T ks, async_cts l r T ks = true ->
  exists p ttl m secs, In (ECtsReply r T p (StLocked ttl m true secs)) l /\ forall k, In k ks -> In k secs.
Proof.
  unfold async_cts. intros l r T ks H. apply existsb_exists in H. destruct H as [e [H1 H2]].
  destruct e; try discriminate. destruct st; try discriminate. destruct async; try discriminate. b2p. subst.
  exists p, ttl, m, secs. split; auto. intros k Hk. eapply subset_In; eauto.
Qed.
Lemma csl_lock_ms_In2 : forall s r T k M, In (k, M) (csl_lock_ms s r T) ->
  exists ks l, In (ECslReply r T ks (CslLocks l)) (s_csl s) /\ In (k, M) l.
Proof.
  unfold csl_lock_ms. intros s r T k M J1. apply in_flat_map in J1. destruct J1 as [e1 [K1 K2]].
  destruct e1; cbn [In] in K2; try contradiction. destruct st; cbn [In] in K2; try contradiction.
  destruct ((r0 =? r) && (s0 =? T)) eqn:Eb; cbn [In] in K2; try contradiction. b2p. subst. eauto.
Qed.

(* a successful prewrite delivery without 1PC: what happens to each of its keys *)
Lemma pw_deliver_exact : forall s s' r T ks m, stepr s (EPwDeliver r T ks (PwOk m 0)) = Ok s' ->
  forall k, In k ks -> tr_pw m (kget s T k) = Some (kget s' T k) /\ mc_consistent s T m k = true.
Proof.
  intros s s' r T ks m H k Hk. cbn [stepr] in H. unfold step_pw_deliver in H. chks H. cbn [N.eqb orb negb] in *.
  match type of H with context [setc (add_dlv s ?ee) T ?cc] => set (c' := cc) in *; set (e' := ee) in * end.
  change (setc (add_dlv s e') T c') with (add_dlv (setc s T c') e') in H.
  set (b := setc s T c') in *. assert (Kb : forall k0, kget b T k0 = kget s T k0) by reflexivity.
  destruct (step_keys _ _ _ _) as [s2 |] eqn:E; [| discriminate]. okinv H.
  destruct (step_keys_char _ _ _ _ _ _ (tr_pw_ok m) (tr_pw_idem m) (tr_pw_total m) E k) as [[_ Ch] | [Hn _]]; [| contradiction].
  rewrite Kb in Ch. split; auto. eapply forallb_In; eauto.
Qed.

Record uinv (s : sys) (T : N) : Prop := {
  u_rb : forall k, In k (lm s T) -> kget s T k = RolledBack -> Dd s T;
  u_rbsent : forall r ks, In (ERbSend r T ks) (s_sent s) -> Dn s T;
  u_tolderr : F s T FTold = 3 -> Dn s T;
  u_rbflag : F s T FPcRb <> 0 -> some_rb s T;
  u_dec0 : forall j, In (T, 0, j) (s_rs s) -> some_rb s T;
  u_cslc0 : forall r ks, In (ECslReply r T ks (CslCommit 0)) (s_dlv s) -> some_rb s T;
  u_gone : forall r c ks, In (ECmReply r T c ks CmGone) (s_dlv s) -> In (prim s T) ks -> some_rb s T;
  u_cmsent : forall r c ks, In (ECmSend r T c ks) (s_sent s) ->
             (forall k, In k ks -> In k (lm s T)) /\ (forall k, In k (lm s T) -> In k (pwok s T));
  u_cslsent : forall r ks, In (ECslSend r T ks) (s_sent s) -> forall k, In k ks -> In k (lm s T);
  u_csll : forall r ks l, In (ECslReply r T ks (CslLocks l)) (s_dlv s) -> forall k M, In (k, M) l -> lamk s T k = Some M;
  u_ctsl : forall r p ttl m secs, In (ECtsReply r T p (StLocked ttl m true secs)) (s_dlv s) ->
           m <> 0 /\ lamk s T p = Some m /\ p = prim s T /\ forall k, In k secs <-> (In k (lm s T) /\ k <> p);
  u_entry : forall r ks m, In (EPwReply r T ks (PwOk m 0)) (s_dlv s) -> forall k, In k ks ->
            lamk s T k = Some m \/ m = 0 \/ kget s T k = Committed m;
  u_1pcsend : forall r p ks a m f secs, In (EPwSend r T p ks a true m f secs) (s_sent s) -> forall k, In k (lm s T) -> In k ks;
  u_1pcdlv : forall r ks m o, In (EPwReply r T ks (PwOk m o)) (s_dlv s) -> o <> 0 -> forall k, In k (lm s T) -> In k ks;
  u_1pcts : F s T F1pcTs <> 0 -> exists r ks m o, In (EPwReply r T ks (PwOk m o)) (s_dlv s) /\ o <> 0;
  u_pwok : F s T FPcSent <> 0 -> forall k, In k (lm s T) -> In k (pwok s T)
}.

Lemma Dn_Dd_u : forall s T, uinv s T -> Dn s T -> Dd s T.
Proof.
  intros s T U [H1 [H2 | [k [H2 H3]]]].
  - right. left. split; auto.
  - eapply u_rb; eauto.
Qed.
Lemma some_rb_Dd : forall s T, uinv s T -> some_rb s T -> Dd s T.
Proof. intros s T U [k [H2 H3]]. eapply u_rb; eauto. Qed.

(* ---------------- uinv is preserved (transaction with logged mutations) ---------------- *)
Section UStep.
  Variables (s : sys) (e : event) (s' : sys) (T : N).
  Hypothesis H : stepr s e = Ok s'.
  Hypothesis HI : Inv s.
  Hypothesis HL : Linv s.
  Hypothesis Hh : hasm s T.
  Hypothesis PC : pcinv s T.
  Hypothesis U : uinv s T.
  Let G : ginv s T := proj1 (HI T).
  Let L : linv s T := HL T.
  Let HI' : Inv s' := inv_stepr _ _ _ HI H.
  Let G' : ginv s' T := proj1 (HI' T).
  Let L' : linv s' T := linv_stepr _ _ _ HI HL H T.
  Let Hh' : hasm s' T := st_hasm s e s' T H Hh.
  Let Ep : prim s' T = prim s T := st_prim s e s' T H Hh.
  Let Em : lm s' T = lm s T := st_lm s e s' T H Hh.
  Let Dd' := st_Dd s e s' T H HI Hh PC.
  Let Dn' := st_Dn s e s' T H HI Hh PC.
  Let Rb' := st_some_rb s e s' T H Hh.

  Lemma npw_pwdlv_back : (forall r ks x, e <> EPwDeliver r T ks x) -> forall k, pwdlv s' T k -> pwdlv s T k.
  Proof.
    intros Hn k [r [ks [m [o [H1 H2]]]]]. destruct (st_dlv_new s e s' H _ H1) as [B | B]; [exists r, ks, m, o; auto |].
    exfalso. apply reply_of_eq in B. eapply Hn; eauto.
  Qed.
  (* a key that was never locked gets a rollback marker: it can never be prewritten *)
  Lemma mark_NS : (forall r ks x, e <> EPwDeliver r T ks x) -> forall k, In k (lm s T) -> kget s T k = Unlocked ->
    kget s' T k = RolledBack -> Dd s' T.
  Proof.
    intros Hn k Hk Eu Er. right. right. exists k. split; [rewrite Em; auto |]. split; [auto |]. intros Hp.
    apply (npw_pwdlv_back Hn) in Hp. eapply (pwdlv_not_unlocked s T k); eauto.
  Qed.

  Lemma us_rb : forall k, In k (lm s' T) -> kget s' T k = RolledBack -> Dd s' T.
  Proof.
    intros k Hk Ek'. rewrite Em in Hk.
    destruct (st_kj s e s' T H HI k) as [Same | [[r [ks [m [o [_ [_ [[_ [_ E]] | [_ E]]]]]]]] | [[m [c [_ [E _]]]] | [_ [Was Cause]]]]]; try congruence.
    - apply Dd'. apply (u_rb _ _ U k); congruence.
    - destruct Cause as [[r [ks [Ee Hi]]] | [[j Hj] | [[Eu [r [ks [Ee Hi]]]] | [r Ee]]]].
      + apply Dd'. apply (Dn_Dd_u _ _ U). pose proof H as H2. rewrite Ee in H2. clear Ee. cbn [stepr] in H2. unfold step_rb_deliver in H2. chks H2.
        apply sent_by_In in C. destruct C as [e0 [Ce1 Ce2]]. destruct e0; try discriminate. beq. subst. eapply (u_rbsent _ _ U); eauto.
      + apply Dd'. apply (some_rb_Dd _ _ U). eapply (u_dec0 _ _ U); eauto.
      + eapply mark_NS; eauto. intros; subst; discriminate.
      + destruct Was as [Eu | [m El]]; [eapply mark_NS; eauto; intros; subst; discriminate |].
        pose proof H as H2. rewrite Ee in H2. clear Ee. cbn [stepr] in H2. unfold step_cts_deliver in H2. chks H2. rewrite El in C0.
        assert (Ef : fb (getc s T) FHasm = true) by (apply fb_true; exact Hh). rewrite Ef in C0. cbn [andb negb] in C0.
        rewrite andb_true_r in C0. apply negb_true_iff, negb_false_iff in C0. apply N.eqb_eq in C0. left. rewrite Ep. unfold prim, F. congruence.
  Qed.

  Lemma neg_ok_Dn : forall c', neg_ok (getc s T) = true -> getc s' T = c' -> cn c' FDead <> 0 ->
    cn c' FPcNeg = cn (getc s T) FPcNeg -> cn c' FPcSent = cn (getc s T) FPcSent -> Dn s' T.
  Proof.
    intros c' Hn Gc Hd E1 E2. unfold neg_ok in Hn. b2p. split; [unfold F; rewrite Gc; auto |].
    apply orb_true_iff in Hn0. destruct Hn0 as [Hx | Hx]; b2p.
    - left. unfold F. rewrite Gc. congruence.
    - right. apply Rb'. apply (u_rbflag _ _ U). exact Hx.
  Qed.

  Lemma us_rbsent : forall r ks, In (ERbSend r T ks) (s_sent s') -> Dn s' T.
  Proof.
    intros r ks Hi. destruct (st_sent_new s e s' H _ Hi) as [B | B]; [apply Dn'; eapply (u_rbsent _ _ U); eauto |].
    pose proof H as H2. rewrite <- B in H2. clear B. cbn [stepr] in H2. unfold step_rb_send in H2. chks H2. injection H2 as Es.
    apply andb_true_iff in C0. destruct C0 as [C0 _].
    eapply (neg_ok_Dn (setn (getc s T) FDead 1)); eauto; [rewrite <- Es | ..]; rd; try reflexivity. discriminate.
  Qed.

  Lemma us_tolderr : F s' T FTold = 3 -> Dn s' T.
  Proof.
    intros Ht. destruct (stepr_fields _ _ _ T H) as [[Same | [x [Ee [_ Ex]]]] _].
    - apply Dn'. apply (u_tolderr _ _ U). congruence.
    - rewrite Ht in Ex. destruct x; try discriminate Ex. pose proof H as H2. rewrite Ee in H2. clear Ee. cbn [stepr] in H2. unfold step_told in H2. chks H2. injection H2 as Es.
      apply andb_true_iff in C1. destruct C1 as [C1 _]. apply andb_true_iff in C1. destruct C1 as [C1 _].
      eapply (neg_ok_Dn (setn (setn (getc s T) FTold 3) FDead 1)); eauto; [rewrite <- Es | ..]; rd; try reflexivity. discriminate.
  Qed.

  Lemma us_rbflag : F s' T FPcRb <> 0 -> some_rb s' T.
  Proof.
    intros Hf. destruct (stepr_fields _ _ _ T H) as [_ [[Same | [r [c [ks [Ee Hp]]]]] _]].
    - apply Rb'. apply (u_rbflag _ _ U). congruence.
    - apply Rb'. pose proof H as H2. rewrite Ee in H2. clear Ee. cbn [stepr] in H2. unfold step_cm_reply in H2. chks H2. apply delivered_In in C0.
      unfold has_prim in Hp. b2p. eapply (u_gone _ _ U); eauto.
  Qed.
  Lemma wr0_some_rb : In (T, 0) (s_wr s) -> some_rb s T.
  Proof. intros W. destruct (wr_decision _ _ _ G W) as [j Hj]. eapply (u_dec0 _ _ U); eauto. Qed.

  Lemma us_dec0 : forall j, In (T, 0, j) (s_rs s') -> some_rb s' T.
  Proof.
    intros j Hj. destruct (st_rs_new s e s' H _ _ _ Hj) as [B | [r [ks Ee]]]; [apply Rb'; eapply (u_dec0 _ _ U); eauto |].
    apply Rb'. pose proof H as H2. rewrite Ee in H2. clear Ee. cbn [stepr] in H2. unfold step_rs_send in H2. chks H2.
    destruct (just_cts s r T 0) as [p |] eqn:J; chks H2.
    - destruct (just_cts_In _ _ _ _ _ J) as [[Hc _] | [_ Hi]]; [contradiction |].
      apply (g_cts_sub _ _ G) in Hi. apply (g_cts_r _ _ G) in Hi.
      assert (Ef : fb (getc s T) FHasm = true) by (apply fb_true; exact Hh). rewrite Ef in C0. cbn [negb orb] in C0. apply N.eqb_eq in C0.
      exists (prim s T). split; [apply (l_prim _ _ L Hh) | unfold prim, F; congruence].
    - apply orb_true_iff in C0. destruct C0 as [C0 | C0].
      + apply andb_true_iff in C0. destruct C0 as [C0 _]. unfold csl_missing in C0. apply existsb_exists in C0.
        destruct C0 as [e0 [E1 E2]]. destruct e0; try discriminate. destruct st; try discriminate. b2p. subst.
        apply (l_csl_sub _ _ L) in E1. eapply (u_cslc0 _ _ U); eauto.
      + exfalso. unfold csl_all_locked in C0. apply existsb_exists in C0. destruct C0 as [e0 [E1 E2]].
        destruct e0; try discriminate. destruct st; try discriminate. destruct async; try discriminate. cbv zeta in E2. b2p. subst.
        apply (g_cts_sub _ _ G) in E1. destruct (u_ctsl _ _ U _ _ _ _ _ E1) as [Hm _].
        match goal with Hx : 0 = fold_left N.max ?l m |- _ => destruct (fold_left_max_ge l m) as [F1 _]; rewrite <- Hx in F1 end. lia.
  Qed.

  Lemma gone_some_rb : forall ks, (forall k, In k ks -> In k (lm s T)) -> (forall k, In k ks -> kget s T k <> Unlocked \/ kget s' T k = RolledBack) ->
    existsb (gone_key s T) ks = true -> some_rb s' T.
  Proof.
    intros ks Hsub Hun Hg. apply existsb_exists in Hg. destruct Hg as [k [K1 K2]]. unfold gone_key in K2.
    destruct (kget s T k) eqn:Ek; try discriminate.
    - destruct (Hun k K1) as [Hx | Hx]; [congruence |]. exists k. rewrite Em. auto.
    - apply Rb'. apply wr0_some_rb. apply existsb_exists in K2. destruct K2 as [[T' c] [W1 W2]]. cbn [fst snd] in W2. b2p. subst. auto.
    - apply Rb'. exists k. auto.
  Qed.

  Lemma us_cslc0 : forall r ks, In (ECslReply r T ks (CslCommit 0)) (s_dlv s') -> some_rb s' T.
  Proof.
    intros r ks Hi. destruct (st_dlv_new s e s' H _ Hi) as [B | B]; [apply Rb'; eapply (u_cslc0 _ _ U); eauto |].
    apply reply_of_eq in B. pose proof H as H2. rewrite B in H2. clear B.
    cbn [stepr] in H2. unfold step_csl_deliver in H2. chks H2. cbn [N.eqb] in H2. chks H2.
    apply sent_by_In in C. destruct C as [e0 [Ce1 Ce2]]. destruct e0; try discriminate. beq. subst.
    destruct (first_gone_spec _ _ _ C0) as [k0 [Fg [K1 K2]]]. rewrite Fg in H2.
    destruct (step_keys _ _ _ _) as [s2 |] eqn:E; try discriminate. injection H2 as Es.
    apply (gone_some_rb [k0]); [intros k [<- | []]; eapply (u_cslsent _ _ U); eauto | | cbn [existsb]; rewrite K2; reflexivity].
    intros k [<- | []]. destruct (kget s T k0) eqn:Ek; try (left; discriminate). right. rewrite <- Es.
    destruct (step_keys_char _ _ _ _ _ _ tr_csl_rb_ok tr_csl_rb_idem tr_csl_rb_total E k0) as [[_ Ch] | [Hn _]]; [| exfalso; apply Hn; left; reflexivity].
    change (kget (add_dlv s _) T k0) with (kget s T k0) in Ch. rewrite Ek in Ch. cbn in Ch. inversion Ch. auto.
  Qed.

  Lemma us_gone : forall r c ks, In (ECmReply r T c ks CmGone) (s_dlv s') -> In (prim s' T) ks -> some_rb s' T.
  Proof.
    intros r c ks Hi Hp. rewrite Ep in Hp. destruct (st_dlv_new s e s' H _ Hi) as [B | B]; [apply Rb'; eapply (u_gone _ _ U); eauto |].
    apply reply_of_eq in B. pose proof H as H2. rewrite B in H2. clear B.
    cbn [stepr] in H2. unfold step_cm_deliver in H2. chks H2.
    apply sent_by_In in C. destruct C as [e0 [Ce1 Ce2]]. destruct e0; try discriminate. beq. subst.
    destruct (u_cmsent _ _ U _ _ _ Ce1) as [S1 S2].
    apply (gone_some_rb ks); [auto | | auto]. intros k Hk. left. apply (pwdlv_not_unlocked s T k G). apply (g_pwok _ _ G). auto.
  Qed.

  Lemma us_cmsent : forall r c ks, In (ECmSend r T c ks) (s_sent s') ->
    (forall k, In k ks -> In k (lm s' T)) /\ (forall k, In k (lm s' T) -> In k (pwok s' T)).
  Proof.
    intros r c ks Hi. rewrite Em. destruct (stepr_fields _ _ _ T H) as [_ [_ [_ [_ [Pw _]]]]].
    destruct (st_sent_new s e s' H _ Hi) as [B | B].
    - destruct (u_cmsent _ _ U _ _ _ B) as [S1 S2]. split; auto.
    - pose proof H as H2. rewrite <- B in H2. clear B. cbn [stepr] in H2. unfold step_cm_send in H2. chks H2.
      assert (Ef : fb (getc s T) FHasm = true) by (apply fb_true; exact Hh). rewrite Ef in H2. chks H2.
      split; [intros k Hk; eapply subset_In; eauto | intros k Hk; apply Pw; eapply subset_In; eauto].
  Qed.

  Lemma us_cslsent : forall r ks, In (ECslSend r T ks) (s_sent s') -> forall k, In k ks -> In k (lm s' T).
  Proof.
    intros r ks Hi k Hk. rewrite Em. destruct (st_sent_new s e s' H _ Hi) as [B | B]; [eapply (u_cslsent _ _ U); eauto |].
    pose proof H as H2. rewrite <- B in H2. clear B. cbn [stepr] in H2. chks H2.
    apply async_cts_In2 in C0. destruct C0 as [p [ttl [m [secs [E1 E2]]]]]. apply (g_cts_sub _ _ G) in E1.
    destruct (u_ctsl _ _ U _ _ _ _ _ E1) as [_ [_ [_ Hs]]]. apply Hs. auto.
  Qed.

  Lemma us_csll : forall r ks l, In (ECslReply r T ks (CslLocks l)) (s_dlv s') -> forall k M, In (k, M) l -> lamk s' T k = Some M.
  Proof.
    intros r ks l Hi k M Hk. apply (proj1 (stepr_lam _ _ _ T k H L)).
    destruct (st_dlv_new s e s' H _ Hi) as [B | B]; [eapply (u_csll _ _ U); eauto |].
    apply reply_of_eq in B. pose proof H as H2. rewrite B in H2. clear B.
    cbn [stepr] in H2. unfold step_csl_deliver in H2. chks H2.
    rewrite forallb_forall in C1. specialize (C1 _ Hk). cbn [fst snd] in C1.
    destruct (kget s T k) eqn:Ek; try discriminate. apply N.eqb_eq in C1. subst. apply (l_locked _ _ L). auto.
  Qed.

  Lemma us_ctsl : forall r p ttl m secs, In (ECtsReply r T p (StLocked ttl m true secs)) (s_dlv s') ->
    m <> 0 /\ lamk s' T p = Some m /\ p = prim s' T /\ forall k, In k secs <-> (In k (lm s' T) /\ k <> p).
  Proof.
    intros r p ttl m secs Hi. rewrite Ep, Em.
    assert (Hl : forall mm, lamk s T p = Some mm -> lamk s' T p = Some mm) by (apply (proj1 (stepr_lam _ _ _ T p H L))).
    destruct (st_dlv_new s e s' H _ Hi) as [B | B].
    { destruct (u_ctsl _ _ U _ _ _ _ _ B) as [B1 [B2 [B3 B4]]]. auto. }
    apply reply_of_eq in B. pose proof H as H2. rewrite B in H2. clear B.
    cbn [stepr] in H2. unfold step_cts_deliver in H2. chks H2. cbn [negb andb orb] in *.
    assert (Ef : fb (getc s T) FHasm = true) by (apply fb_true; exact Hh). rewrite Ef in *. cbn [negb andb orb] in *.
    destruct (kget s T p) eqn:Ek; try discriminate. b2p. subst m0.
    split; [auto |]. split; [apply Hl; apply (l_locked _ _ L); auto |]. split; [unfold prim, F; auto |].
    intros k. split.
    - intros Hk. split; [match goal with Hs : subset secs _ = true |- _ => eapply subset_In; eauto end |]. intros ->.
      match goal with Hx : mem p secs = false |- _ => apply mem_false in Hx; contradiction end.
    - intros [Hk Hne]. match goal with Hx : forallb _ (c_lm _) = true |- _ => pose proof (forallb_In _ _ _ Hx Hk) as Cx end.
      cbn beta in Cx. apply orb_true_iff in Cx.
      destruct Cx as [Cx | Cx]; [apply N.eqb_eq in Cx; contradiction | apply mem_In; auto].
  Qed.
  Lemma us_entry : forall r ks m, In (EPwReply r T ks (PwOk m 0)) (s_dlv s') -> forall k, In k ks ->
    lamk s' T k = Some m \/ m = 0 \/ kget s' T k = Committed m.
  Proof.
    intros r ks m Hi k Hk. destruct (st_dlv_new s e s' H _ Hi) as [B | B].
    - destruct (u_entry _ _ U _ _ _ B k Hk) as [E | [E | E]]; auto.
      + left. apply (proj1 (stepr_lam _ _ _ T k H L)). auto.
      + right. right. eapply st_committed; eauto.
    - apply reply_of_eq in B. pose proof H as H2. rewrite B in H2. clear B.
      destruct (pw_deliver_exact _ _ _ _ _ _ H2 k Hk) as [Tr Mc]. unfold mc_consistent in Mc.
      destruct (kget s T k) eqn:Ek; cbn in Tr; inversion Tr as [Ek'].
      + left. apply (l_locked _ _ L'). auto.
      + apply orb_true_iff in Mc. destruct Mc as [Mc | Mc]; apply N.eqb_eq in Mc; [| auto]. subst. left. apply (l_locked _ _ L'). auto.
      + apply orb_true_iff in Mc. destruct Mc as [Mc | Mc]; apply N.eqb_eq in Mc; [auto |]. subst. auto.
  Qed.

  Lemma us_1pcsend : forall r p ks a m f secs, In (EPwSend r T p ks a true m f secs) (s_sent s') -> forall k, In k (lm s' T) -> In k ks.
  Proof.
    intros r p ks a m f secs Hi k Hk. rewrite Em in Hk. destruct (st_sent_new s e s' H _ Hi) as [B | B]; [eapply (u_1pcsend _ _ U); eauto |].
    pose proof H as H2. rewrite <- B in H2. clear B. cbn [stepr] in H2. unfold step_pw_send in H2. chks H2.
    assert (Ef : fb (getc s T) FHasm = true) by (apply fb_true; exact Hh). rewrite Ef in *. cbn [negb andb orb] in *.
    match goal with Hx : subset (c_all _) ks = true |- _ => eapply (subset_In _ _ Hx) end. apply (l_lm_all _ _ L). auto.
  Qed.

  Lemma us_1pcdlv : forall r ks m o, In (EPwReply r T ks (PwOk m o)) (s_dlv s') -> o <> 0 -> forall k, In k (lm s' T) -> In k ks.
  Proof.
    intros r ks m o Hi Ho k Hk. destruct (st_dlv_new s e s' H _ Hi) as [B | B]; [rewrite Em in Hk; eapply (u_1pcdlv _ _ U); eauto |].
    apply reply_of_eq in B. pose proof H as H2. rewrite B in H2. clear B. cbn [stepr] in H2. unfold step_pw_deliver in H2. chks H2.
    apply N.eqb_neq in Ho. rewrite Ho in C0. cbn [orb] in C0. apply sent_by_In in C0. destruct C0 as [e0 [E1 E2]].
    destruct e0; try discriminate. destruct onepc; try discriminate. beq. subst. rewrite Em in Hk. eapply (u_1pcsend _ _ U); eauto.
  Qed.

  Lemma us_1pcts : F s' T F1pcTs <> 0 -> exists r ks m o, In (EPwReply r T ks (PwOk m o)) (s_dlv s') /\ o <> 0.
  Proof.
    intros Hf. destruct (stepr_fields _ _ _ T H) as [_ [_ [[Same | [r [ks [m [o [Ee Ho]]]]]] _]]].
    - rewrite Same in Hf. destruct (u_1pcts _ _ U Hf) as [r [ks [m [o [B1 B2]]]]]. exists r, ks, m, o. split; auto. eapply st_dlv; eauto.
    - pose proof H as H2. rewrite Ee in H2. clear Ee. cbn [stepr] in H2. unfold step_pw_reply in H2. chks H2. apply delivered_In in C0.
      exists r, ks, m, o. split; auto. eapply st_dlv; eauto.
  Qed.

  Lemma us_pwok : F s' T FPcSent <> 0 -> forall k, In k (lm s' T) -> In k (pwok s' T).
  Proof.
    intros Hf k Hk. rewrite Em in Hk. destruct (stepr_fields _ _ _ T H) as [_ [_ [_ [[Same | [r [c [ks Ee]]]] [Pw _]]]]].
    - apply Pw. apply (u_pwok _ _ U); congruence.
    - apply Pw. pose proof H as H2. rewrite Ee in H2. clear Ee. cbn [stepr] in H2. unfold step_cm_send in H2. chks H2.
      assert (Ef : fb (getc s T) FHasm = true) by (apply fb_true; exact Hh). rewrite Ef in H2. chks H2. eapply subset_In; eauto.
  Qed.

  Theorem uinv_step : uinv s' T.
  Proof.
    constructor; [exact us_rb | exact us_rbsent | exact us_tolderr | exact us_rbflag | exact us_dec0 | exact us_cslc0 | exact us_gone
                 | exact us_cmsent | exact us_cslsent | exact us_csll | exact us_ctsl | exact us_entry | exact us_1pcsend | exact us_1pcdlv
                 | exact us_1pcts | exact us_pwok].
  Qed.
End UStep.

(* ---------------- the moment the mutations are logged ---------------- *)
Lemma uinv_mutations : forall s s' T p ms, Inv s -> Linv s -> Zinv s -> Yinv s ->
  stepr s (EMutations T p ms) = Ok s' -> uinv s' T.
Proof.
  intros s s' T p ms HI HL HZ HY H. destruct (HI T) as [G _]. pose proof (HL T) as L. pose proof (HZ T) as Z. pose proof (HY T) as Y.
  cbn [stepr] in H. chks H. okinv H. b2p.
  assert (NoA : cn (getc s T) FTriedA = 0).
  { destruct (N.eq_dec (cn (getc s T) FTriedA) 0); auto. exfalso. apply (z_tried _ _ Z); auto. }
  assert (No1 : cn (getc s T) FTried1 = 0).
  { destruct (N.eq_dec (cn (getc s T) FTried1) 0); auto. exfalso. apply (z_tried _ _ Z); auto. }
  assert (NoS : forall r0 p0 ks0 a0 o0 m0 f0 secs0, ~ In (EPwSend r0 T p0 ks0 a0 o0 m0 f0 secs0) (s_sent s)).
  { intros. intros Hi. apply (g_pwsent_cnt _ _ G) in Hi. unfold F in Hi. congruence. }
  assert (NoD : forall r0 ks0 x0, ~ In (EPwReply r0 T ks0 x0) (s_dlv s)).
  { intros r0 ks0 x0 Hi. apply (g_pw_sent _ _ G) in Hi. destruct Hi as [p0 [a0 [o0 [m0 [f0 [secs0 Hi]]]]]]. eapply NoS; eauto. }
  assert (NoCm : forall r c ks, ~ In (ECmSend r T c ks) (s_sent s)).
  { intros r c ks Hi. apply (g_cmsent_p _ _ G) in Hi. unfold hasm, F in Hi. destruct Hi as [Hi | [Hi _]]; congruence. }
  assert (NoCsl : forall r ks, ~ In (ECslSend r T ks) (s_sent s)).
  { intros r ks Hi. apply (y_csl _ _ Y) in Hi. unfold F in Hi. congruence. }
  assert (NoCslR : forall r ks st, ~ In (ECslReply r T ks st) (s_dlv s)).
  { intros r ks st Hi. apply (l_csl_sent _ _ L) in Hi. eapply NoCsl; eauto. }
  destruct (g_fresh_cnt _ _ G) as [_ [_ [_ [_ [_ [_ Zrb]]]]]]; [unfold hasm, F; intros Hx; apply Hx; auto |].
  constructor; unfold lm, prim, pwok, F, lamk, Dd, Dn, some_rb, NS, closed, pwdlv, lm, prim, F; intros; rd.
  - right. right. exists k. repeat split; auto. intros [r [ks [m [o [Hi _]]]]]. eapply NoD; eauto.
  - exfalso. apply (g_rb_dead _ _ G) in H. unfold F in H. congruence.
  - exfalso. congruence.
  - exfalso. unfold F in Zrb. congruence.
  - destruct j as [p' |]; [| exfalso; apply (g_jasync _ _ G) in H; unfold F in H; congruence].
    rewrite forallb_forall in C1. pose proof (C1 _ H) as Cx. cbn beta iota in Cx. rewrite N.eqb_refl in Cx. cbn [negb orb] in Cx.
    apply N.eqb_eq in Cx. subst p'. exists p. split; auto. apply (g_rs _ _ G) in H. auto.
  - exfalso. eapply NoCslR; eauto.
  - exfalso. apply (g_cm_sent _ _ G) in H. eapply NoCm; eauto.
  - exfalso. eapply NoCm; eauto.
  - exfalso. eapply NoCsl; eauto.
  - exfalso. eapply NoCslR; eauto.
  - exfalso. apply (g_async_cts _ _ G) in H. unfold F in H. congruence.
  - exfalso. eapply NoD; eauto.
  - exfalso. eapply NoS; eauto.
  - exfalso. eapply NoD; eauto.
  - exfalso. apply (g_1pcts _ _ G) in H. unfold F in H. congruence.
  - exfalso. congruence.
Qed.

Definition Uinv (s : sys) : Prop := forall T, hasm s T -> uinv s T.
Definition Pinv (s : sys) : Prop := forall T, pcinv s T.

Theorem uinv_stepr : forall s e s', Inv s -> Linv s -> Zinv s -> Yinv s -> Pinv s -> Uinv s -> stepr s e = Ok s' -> Uinv s'.
Proof.
  intros s e s' HI HL HZ HY HP HU H T Hh'.
  destruct (N.eq_dec (F s T FHasm) 0) as [Hz | Hz].
  - (* the mutations are logged by this very step *)
    destruct (option_map (N.eqb T) (txn_of e)) as [[|] |] eqn:Et.
    2: { exfalso. assert (Hne : txn_of e <> Some T) by (intros E'; rewrite E' in Et; cbn in Et; rewrite N.eqb_refl in Et; discriminate).
         unfold hasm, F in *. rewrite (stepr_getc_other _ _ _ T H Hne) in Hh'. contradiction. }
    2: { exfalso. assert (Hne : txn_of e <> Some T) by (intros E'; rewrite E' in Et; discriminate).
         unfold hasm, F in *. rewrite (stepr_getc_other _ _ _ T H Hne) in Hh'. contradiction. }
    destruct (quiet2 e) eqn:Q.
    + exfalso. destruct (stepr_quiet2 _ _ _ T Q H) as [_ _ _ _ _ A _]. unfold hasm, F in *. congruence.
    + destruct e; cbn [quiet2] in Q; try discriminate Q; cbn [txn_of option_map] in Et; inversion Et as [Et1]; apply N.eqb_eq in Et1; subst.
      * eapply uinv_mutations; eauto.
      * exfalso. cbn [stepr] in H. unfold step_pw_deliver in H. chks H.
        repeat match type of H with
               | (match ?d with _ => _ end) = Ok _ => destruct d eqn:?; chks H; try discriminate H
               | (if ?d then _ else _) = Ok _ => destruct d eqn:?; chks H; try discriminate H
               end; try (okinv H); unfold hasm, F in *; revert Hh'; getc_keys; rd;
          repeat match goal with |- context [if ?d then _ else _] => destruct d eqn:? end; rd; auto.
  - eapply uinv_step; eauto.
Qed.
